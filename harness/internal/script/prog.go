package script

import (
	"bytes"
	"crypto/sha256"
	"encoding/hex"
	"fmt"
	"hash/fnv"
	"path/filepath"
	"runtime/debug"
	"strings"
	"sync"
	"time"

	"github.com/btcsuite/btcd/btcec/v2/schnorr"
	"github.com/btcsuite/btcd/chainhash/v2"
	"github.com/btcsuite/btcd/txscript/v2"
	"github.com/btcsuite/btcd/wire/v2"

	"verif/harness/internal/tla"
	"verif/harness/internal/tlc"
	"verif/harness/internal/vrun"
)

// cfgT is a configuration <<mode, flag set, tx context>> of MCProg.tla.
type cfgT struct{ mode, fs, ctx string }

func (c cfgT) String() string { return c.mode + c.fs + c.ctx }

// vmS is the part of a machine state the binder compares.
type vmS struct {
	st, alt []*Elem
	err     string
	cond    int // open conditionals
}

// grp is one group of res.
type grp struct {
	cf   []cfgT
	x    string
	s    vmS
	v    string
	keep int
}

// pnode is what is kept of an enumerated program for its descendants.
type pnode struct {
	groups []grp
}

func (n *pnode) find(c cfgT) *grp {
	for i := range n.groups {
		for _, x := range n.groups[i].cf {
			if x == c {
				return &n.groups[i]
			}
		}
	}
	return nil
}

var flagBits = map[string]txscript.ScriptFlags{
	"P2SH":                                  txscript.ScriptBip16,
	"DERSIG":                                txscript.ScriptVerifyDERSignatures,
	"STRICTENC":                             txscript.ScriptVerifyStrictEncoding,
	"MINIMALDATA":                           txscript.ScriptVerifyMinimalData,
	"NULLDUMMY":                             txscript.ScriptStrictMultiSig,
	"DISCOURAGE_NOPS":                       txscript.ScriptDiscourageUpgradableNops,
	"CLEANSTACK":                            txscript.ScriptVerifyCleanStack,
	"NULLFAIL":                              txscript.ScriptVerifyNullFail,
	"CLTV":                                  txscript.ScriptVerifyCheckLockTimeVerify,
	"CSV":                                   txscript.ScriptVerifyCheckSequenceVerify,
	"LOW_S":                                 txscript.ScriptVerifyLowS,
	"WITNESS":                               txscript.ScriptVerifyWitness,
	"DISCOURAGE_UPGRADABLE_WITNESS_PROGRAM": txscript.ScriptVerifyDiscourageUpgradeableWitnessProgram,
	"MINIMALIF":                             txscript.ScriptVerifyMinimalIf,
	"WITNESS_PUBKEYTYPE":                    txscript.ScriptVerifyWitnessPubKeyType,
	"TAPROOT":                               txscript.ScriptVerifyTaproot,
	"DISCOURAGE_UPGRADABLE_TAPROOT_VERSION": txscript.ScriptVerifyDiscourageUpgradeableTaprootVersion,
	"DISCOURAGE_OP_SUCCESS":                 txscript.ScriptVerifyDiscourageOpSuccess,
	"DISCOURAGE_UPGRADABLE_PUBKEYTYPE":      txscript.ScriptVerifyDiscourageUpgradeablePubkeyType,
	"CONST_SCRIPTCODE":                      txscript.ScriptVerifyConstScriptCode,
}

func flagsOf(names []string) (txscript.ScriptFlags, error) {
	var f txscript.ScriptFlags
	for _, n := range names {
		b, ok := flagBits[n]
		if !ok {
			return 0, fmt.Errorf("unknown flag %q", n)
		}
		f |= b
	}
	return f, nil
}

// binder carries what all replays of one engine run share.
type binder struct {
	c      *vrun.Ctx
	w      *World
	in     *interner
	tables *Tables
	flags  map[string]txscript.ScriptFlags

	sigCache  *txscript.SigCache
	hashCache *txscript.HashCache

	tmu     sync.Mutex
	mu      sync.Mutex
	samples int
}

func newBinder(c *vrun.Ctx) *binder {
	return &binder{c: c, w: NewWorld(c.Seed), in: newInterner(), sigCache: txscript.NewSigCache(1000), hashCache: txscript.NewHashCache(100)}
}

// ensureTables reads the tables once (every TLC run prints the same ones).
func (b *binder) ensureTables(out string) error {
	b.tmu.Lock()
	defer b.tmu.Unlock()
	if b.tables != nil {
		return nil
	}
	tb, err := parseTables(out)
	if err != nil {
		return err
	}
	return b.setTables(tb)
}

func (b *binder) setTables(t *Tables) error {
	b.tables = t
	b.flags = map[string]txscript.ScriptFlags{}
	for name, fl := range t.Flags {
		f, err := flagsOf(fl)
		if err != nil {
			return err
		}
		b.flags[name] = f
	}
	// the relay flag set of the specification must be the one the node uses
	if s, ok := b.flags["S"]; ok && s != txscript.StandardVerifyFlags {
		b.c.Violation("flagset:standard-differs-from-reference",
			fmt.Sprintf("txscript.StandardVerifyFlags = %#x, the reference relay flag set is %#x", uint32(txscript.StandardVerifyFlags), uint32(s)),
			map[string]any{"spec_flags": t.Flags["S"]})
	}
	return nil
}

// spend is a concrete spend.
type spend struct {
	pkScript []byte
	sigScr   []byte
	witness  [][]byte
	amount   int64
	flags    txscript.ScriptFlags
	ctx      TxCtx

	realFunding bool // the outpoint is that of funding()
}

var fundingPrev = chainhash.Hash(sha256.Sum256([]byte("verif-script-prevout")))

// funding is the transaction whose only output the spend consumes.
func (s *spend) funding() *wire.MsgTx {
	tx := wire.NewMsgTx(1)
	tx.AddTxIn(wire.NewTxIn(wire.NewOutPoint(&fundingPrev, 0), []byte{txscript.OP_TRUE}, nil))
	tx.AddTxOut(wire.NewTxOut(s.amount, s.pkScript))
	return tx
}

func (s *spend) tx() *wire.MsgTx {
	tx := wire.NewMsgTx(s.ctx.Ver)
	tx.LockTime = s.ctx.Lock
	// The enumerated programs may push a signature of their own (FindAndDelete):
	// that is only constructible when the outpoint does not depend on the
	// script, so those spends use a fixed outpoint; the sequencing scenarios
	// (realFunding) spend a real funding transaction.
	prevHash := fundingPrev
	if s.realFunding {
		prevHash = s.funding().TxHash()
	}
	in := wire.NewTxIn(wire.NewOutPoint(&prevHash, 0), s.sigScr, nil)
	in.Sequence = s.ctx.Seq
	if len(s.witness) > 0 {
		in.Witness = wire.TxWitness(s.witness)
	}
	if s.ctx.NIn == 2 {
		// a second input (another outpoint, its own sequence); the executing one sits at ctx.Idx
		other := wire.NewTxIn(wire.NewOutPoint(&fundingPrev, 7), nil, nil)
		other.Sequence = s.ctx.OSeq
		if s.ctx.Idx == 1 {
			tx.AddTxIn(other)
			tx.AddTxIn(in)
		} else {
			tx.AddTxIn(in)
			tx.AddTxIn(other)
		}
	} else {
		tx.AddTxIn(in)
	}
	tx.AddTxOut(wire.NewTxOut(s.amount-1000, []byte{txscript.OP_TRUE}))
	return tx
}

func (s *spend) replay() map[string]any {
	w := make([]string, len(s.witness))
	for i, x := range s.witness {
		w[i] = hex.EncodeToString(x)
	}
	return map[string]any{"pkScript": hex.EncodeToString(s.pkScript), "sigScript": hex.EncodeToString(s.sigScr),
		"witness": w, "amount": s.amount, "flags": uint32(s.flags), "tx_version": s.ctx.Ver, "locktime": s.ctx.Lock, "sequence": s.ctx.Seq,
		"inputs": s.ctx.NIn, "input_index": s.ctx.Idx, "other_sequence": s.ctx.OSeq}
}

func (s *spend) engine() (*txscript.Engine, error) {
	tx := s.tx()
	fetcher := txscript.NewCannedPrevOutputFetcher(s.pkScript, s.amount)
	hc := txscript.NewTxSigHashes(tx, fetcher)
	return txscript.NewEngine(s.pkScript, tx, s.ctx.Idx, s.flags, nil, hc, s.amount, fetcher)
}

// stepRes is the observation of one real run.
type stepRes struct {
	newErr   error // NewEngine failed
	steps    int   // successful Step calls
	stepErr  error // error of the failing Step
	doneAt   int   // step at which Step reported done (0: never)
	finalErr error // CheckErrorCondition
	ok       bool  // verdict of the stepped run
	stacks   [][][]byte
	alts     [][][]byte
	panicked string
	execErr  error // verdict of an independent Execute()
	execOK   bool
}

func errCode(err error) string {
	if err == nil {
		return ""
	}
	if se, ok := err.(txscript.Error); ok {
		return se.ErrorCode.String()
	}
	return "other"
}

// inflight records what the worker goroutines are running, for the watchdog.
var inflight sync.Map // *spend -> start time

// observe runs the spend: once with Execute, once stepwise recording stacks.
func (s *spend) observe(maxSteps int) (r stepRes) {
	inflight.Store(s, time.Now())
	defer inflight.Delete(s)
	defer func() {
		if p := recover(); p != nil {
			r.panicked = fmt.Sprintf("%v\n%s", p, debug.Stack())
			r.ok = false
		}
	}()
	vm0, err := s.engine()
	if err != nil {
		r.newErr = err
		r.execErr = err
		return r
	}
	r.execErr = vm0.Execute()
	r.execOK = r.execErr == nil

	vm, err := s.engine()
	if err != nil {
		r.newErr = err
		return r
	}
	for i := 0; i < maxSteps; i++ {
		done, err := vm.Step()
		if err != nil {
			r.stepErr = err
			return r
		}
		r.steps++
		r.stacks = append(r.stacks, vm.GetStack())
		r.alts = append(r.alts, vm.GetAltStack())
		if done {
			r.doneAt = r.steps
			r.finalErr = vm.CheckErrorCondition(true)
			r.ok = r.finalErr == nil
			return r
		}
	}
	r.stepErr = fmt.Errorf("not done after %d steps", maxSteps)
	return r
}

func (r *stepRes) errString() string {
	switch {
	case r.panicked != "":
		return "panic"
	case r.newErr != nil:
		return "NewEngine: " + r.newErr.Error()
	case r.stepErr != nil:
		return fmt.Sprintf("Step %d: %v", r.steps+1, r.stepErr)
	case r.finalErr != nil:
		return "CheckErrorCondition: " + r.finalErr.Error()
	}
	return "ok"
}

func stackEq(real [][]byte, want [][]byte) bool {
	if len(real) != len(want) {
		return false
	}
	for i := range real {
		if !bytes.Equal(real[i], want[i]) {
			return false
		}
	}
	return true
}

func hexStack(st [][]byte) []string {
	out := make([]string, len(st))
	for i, x := range st {
		if len(x) > 40 {
			out[i] = fmt.Sprintf("%s..(%d bytes)", hex.EncodeToString(x[:8]), len(x))
		} else {
			out[i] = hex.EncodeToString(x)
		}
	}
	return out
}

// buildProgSpend concretises program prog with initial stack init in mode.
func (b *binder) buildProgSpend(t cfgT, init []*Elem, prog []*Tok) (*spend, *Conc, error) {
	ctx, ok := b.tables.Ctx[t.ctx]
	if !ok {
		return nil, nil, fmt.Errorf("unknown tx context %q", t.ctx)
	}
	fl, ok := b.flags[t.fs]
	if !ok {
		return nil, nil, fmt.Errorf("unknown flag set %q", t.fs)
	}
	sp := &spend{amount: 100000, flags: fl, ctx: ctx}
	cc := &Conc{w: b.w}
	sg := &signer{b: b, cc: cc, sp: sp, mode: t.mode, prog: prog}
	cc.sigFn = sg.placeholder
	script, offs, err := cc.script(prog)
	if err != nil {
		return nil, nil, err
	}
	sg.offs = offs
	// signatures the program pushes itself are part of the script: fix them first
	if sg.hasSigs(prog, nil) {
		if err := sg.resolve(init); err != nil {
			return nil, nil, err
		}
		script = sg.script
	}
	sg.script = script
	switch t.mode {
	case "b":
		sp.pkScript = script
	case "w":
		h := sha256.Sum256(script)
		sp.pkScript = append([]byte{txscript.OP_0, 32}, h[:]...)
	case "t":
		leaf := txscript.NewBaseTapLeaf(script)
		tree := txscript.AssembleTaprootScriptTree(leaf)
		internal := b.w.key("INTERNAL").PubKey()
		root := tree.RootNode.TapHash()
		out := txscript.ComputeTaprootOutputKey(internal, root[:])
		sp.pkScript = append([]byte{txscript.OP_1, 32}, schnorr.SerializePubKey(out)...)
		cb := tree.LeafMerkleProofs[0].ToControlBlock(internal)
		cbb, err := cb.ToBytes()
		if err != nil {
			return nil, nil, err
		}
		sg.ctrl = cbb
		sg.leaf = leaf
	default:
		return nil, nil, fmt.Errorf("unknown mode %q", t.mode)
	}
	cc.sigFn = sg.final
	ib, err := cc.elems(init)
	if err != nil {
		return nil, nil, err
	}
	switch t.mode {
	case "b":
		for _, x := range ib {
			sp.sigScr = append(sp.sigScr, minPush(x)...)
		}
	case "w":
		sp.witness = append(append([][]byte{}, ib...), script)
	case "t":
		sp.witness = append(append([][]byte{}, ib...), script, sg.ctrl)
	}
	return sp, cc, nil
}

// progCase is one (program, configuration) replay.
type progCase struct {
	t     cfgT
	init  []*Elem
	prog  []*Tok
	chain []*grp // chain[j] = group of t after j+1 tokens (the last is the node itself)
}

func preludeSteps(t cfgT, init []*Elem) int {
	if t.mode == "b" {
		return len(init)
	}
	return 2
}

func (b *binder) describe(pc *progCase) string {
	return fmt.Sprintf("mode=%s flags=%s ctx=%s init=%s prog=[%s]", pc.t.mode, pc.t.fs, pc.t.ctx, shortStack(pc.init), shortProg(pc.prog))
}

// runProgCase replays one case and reports divergences.
// runProgBundle replays all configurations of one program; the concrete
// spend is built once per (mode, tx context) and run under every flag set.
func (b *binder) runProgBundle(cases []*progCase) error {
	type built struct {
		sp *spend
		cc *Conc
	}
	cache := map[string]built{}
	for _, pc := range cases {
		k := pc.t.mode + "/" + pc.t.ctx
		bt, ok := cache[k]
		if !ok {
			sp, cc, err := b.buildProgSpend(pc.t, pc.init, pc.prog)
			if err != nil {
				return fmt.Errorf("%s: %w", b.describe(pc), err)
			}
			bt = built{sp, cc}
			cache[k] = bt
		}
		fl, ok := b.flags[pc.t.fs]
		if !ok {
			return fmt.Errorf("unknown flag set %q", pc.t.fs)
		}
		sp := *bt.sp
		sp.flags = fl
		if err := b.runProgCase(pc, &sp, bt.cc); err != nil {
			return err
		}
	}
	return nil
}

func (b *binder) runProgCase(pc *progCase, sp *spend, cc *Conc) error {
	c := b.c
	g := pc.chain[len(pc.chain)-1]
	if len(pc.prog) == 0 {
		g = pc.chain[0]
	}
	P := preludeSteps(pc.t, pc.init)
	r := sp.observe(P + len(pc.prog) + 8)
	c.AddTraces(1)
	lastOp := "empty"
	if len(pc.prog) > 0 {
		lastOp = pc.prog[len(pc.prog)-1].Short()
		if i := strings.IndexByte(lastOp, '('); i > 0 {
			lastOp = lastOp[:i]
		}
	}
	rep := func(extra map[string]any) map[string]any {
		m := sp.replay()
		m["case"] = b.describe(pc)
		m["spec_verdict"] = g.v
		m["spec_x"] = g.x
		m["spec_err"] = g.s.err
		m["spec_stack"] = shortStack(g.s.st)
		m["spec_alt"] = shortStack(g.s.alt)
		m["real"] = r.errString()
		for k, v := range extra {
			m[k] = v
		}
		return m
	}
	if r.panicked != "" {
		c.Violation("panic:"+lastOp+sigShapeOf(pc), "script verification panicked: "+b.describe(pc)+": "+strings.SplitN(r.panicked, "\n", 2)[0], rep(map[string]any{"panic": r.panicked}))
		return nil
	}
	specOK := g.v == "ok"
	// step-level comparison first: it names the cause of a verdict difference
	key, what, extra, err := b.compareSteps(pc, sp, cc, &r, g, P, specOK)
	if err != nil {
		return err
	}
	if key == "" && g.x == "run" && g.s.err != "" && len(pc.prog) > 0 && len(pc.prog) < 200 {
		// The specification fails at the last token.  When the program ends there,
		// the implementation's last Step can fail for another reason (end-of-script
		// checks), which would hide a token that wrongly succeeds: run the program
		// again with its conditionals closed and OP_1 appended - the token must
		// still be the one that fails (a failing token fails whatever follows).
		k2, w2, err := b.failsWithSuffix(pc, P)
		if err != nil {
			return err
		}
		key, what = k2, w2
	}
	c.AddEval(1)
	if r.execOK != specOK {
		if key == "" {
			key = fmt.Sprintf("verdict:%s:spec-%s:%s", pc.t.mode, g.v, lastOp)
		}
		what = fmt.Sprintf("Execute() = %v but the specification says %s", errOrNil(r.execErr), g.v) + sep(what) + ": " + b.describe(pc)
		c.Violation(key, what, rep(extra))
		return nil
	}
	if key != "" {
		c.Violation(key, what+": "+b.describe(pc), rep(extra))
		return nil
	}
	if r.newErr == nil && r.execOK != r.ok && r.stepErr == nil {
		c.Violation("execute-vs-step:"+lastOp, fmt.Sprintf("Execute() and a Step() loop disagree (%v vs %v): %s", errOrNil(r.execErr), r.errString(), b.describe(pc)), rep(nil))
	}
	return nil
}

// failsWithSuffix re-runs pc.prog + OP_ENDIF.. + OP_1 and checks that the last
// token of pc.prog still fails.
func (b *binder) failsWithSuffix(pc *progCase, P int) (string, string, error) {
	n := len(pc.prog)
	open := 0
	if n >= 2 {
		open = pc.chain[n-2].s.cond
	}
	ext := append([]*Tok{}, pc.prog...)
	for i := 0; i < open+1; i++ {
		ext = append(ext, &Tok{Op: "OP_ENDIF", E: &Elem{T: "raw"}})
	}
	ext = append(ext, &Tok{Op: "OP_N", N: 1, E: &Elem{T: "raw"}})
	last := pc.prog[n-1]
	if last.Tr || (last.Op == "PUSH" && last.E.T == "sig") {
		return "", "", nil // nothing can follow a truncated push; signatures would sign another script
	}
	for _, t := range pc.prog {
		if t.Op == "PUSH" && t.E.T == "sig" {
			return "", "", nil
		}
	}
	for _, e := range pc.init {
		if e.T == "sig" {
			return "", "", nil
		}
	}
	if pc.t.mode == "t" && pc.chain[n-1].s.err == "tapsigops" {
		return "", "", nil // the signature-operation budget grows with the script
	}
	sp, _, err := b.buildProgSpend(pc.t, pc.init, ext)
	if err != nil {
		return "", "", err
	}
	sp.flags = b.flags[pc.t.fs]
	r := sp.observe(P + len(ext) + 8)
	b.c.AddEval(1)
	if r.panicked != "" {
		return "panic:" + opName(last), "script verification panicked on the extended program", nil
	}
	if r.newErr == nil && r.steps >= P+n {
		e := pc.chain[n-1]
		return "step-should-fail:" + opName(last) + ":" + e.s.err,
			fmt.Sprintf("token %d (%s) must fail (%s) but Step succeeded when more tokens follow it", n, opName(last), e.s.err), nil
	}
	return "", "", nil
}

// sigShapeOf names the signature encoding class involved in a case (":shapeNN"
// for the malformed DER shapes), for the key of a panic.
func sigShapeOf(pc *progCase) string {
	for _, e := range pc.init {
		if e.T == "sig" && e.B[1] >= 10 && e.B[1] < 64 {
			return fmt.Sprintf(":shape%d", e.B[1])
		}
	}
	for _, t := range pc.prog {
		if t.Op == "PUSH" && t.E.T == "sig" && t.E.B[1] >= 10 && t.E.B[1] < 64 {
			return fmt.Sprintf(":shape%d", t.E.B[1])
		}
	}
	return ""
}

// succeedsWithSuffix re-runs pc.prog + OP_ENDIF.. + OP_1 when the last token
// executes in the specification but the implementation's last Step failed: with
// more tokens after it the end-of-script checks no longer run in that Step, so
// the token must succeed.  (A token's effect does not depend on what follows.)
func (b *binder) succeedsWithSuffix(pc *progCase, P int, open int) (bool, error) {
	n := len(pc.prog)
	last := pc.prog[n-1]
	if last.Tr || n >= 200 {
		return true, nil
	}
	for _, t := range pc.prog {
		if t.Tr || (t.Op == "PUSH" && t.E.T == "sig") {
			return true, nil // a program that pushes its own signature would sign another script
		}
	}
	ext := append([]*Tok{}, pc.prog...)
	for i := 0; i < open; i++ {
		ext = append(ext, &Tok{Op: "OP_ENDIF", E: &Elem{T: "raw"}})
	}
	ext = append(ext, &Tok{Op: "OP_N", N: 1, E: &Elem{T: "raw"}})
	sp, _, err := b.buildProgSpend(pc.t, pc.init, ext)
	if err != nil {
		return false, err
	}
	sp.flags = b.flags[pc.t.fs]
	r := sp.observe(P + len(ext) + 8)
	b.c.AddEval(1)
	if r.panicked != "" || r.newErr != nil {
		return true, nil // reported / judged elsewhere
	}
	return r.steps >= P+n, nil
}

func sep(s string) string {
	if s == "" {
		return ""
	}
	return "; " + s
}

func opName(t *Tok) string {
	op := t.Short()
	if i := strings.IndexByte(op, '('); i > 0 {
		op = op[:i]
	}
	return op
}

// compareSteps compares the recorded stacks with the specification's states.
// It returns the key and description of the first divergence ("" when none).
func (b *binder) compareSteps(pc *progCase, sp *spend, cc *Conc, r *stepRes, g *grp, P int, specOK bool) (string, string, map[string]any, error) {
	c := b.c
	if r.newErr != nil || g.x == "skip" {
		// refused up front / verification ends before the program runs: only the verdict is defined
		return "", "", nil, nil
	}
	want := func(es []*Elem) ([][]byte, error) { return cc.elems(es) }
	for i := 1; i <= P && i <= r.steps; i++ {
		var exp []*Elem
		if pc.t.mode == "b" {
			exp = pc.init[:i]
		} else if i == 2 {
			exp = pc.init
		} else {
			continue
		}
		if i == P && len(pc.prog) == 0 && specOK {
			if g.keep < 0 {
				continue
			}
			exp = exp[:min(g.keep, len(exp))]
		}
		wb, err := want(exp)
		if err != nil {
			return "", "", nil, err
		}
		c.AddEval(1)
		if !stackEq(r.stacks[i-1], wb) {
			return "stack:prelude:" + pc.t.mode, fmt.Sprintf("stack after prelude step %d differs", i),
				map[string]any{"step": i, "real_stack": hexStack(r.stacks[i-1]), "want_stack": shortStack(exp)}, nil
		}
	}
	if r.steps < P {
		// the prelude failed.  The implementation checks that the witness / tap
		// script parses when it hands over to it, the reference fails when it
		// reaches the bad push: only the verdict is defined.
		if !specOK {
			return "", "", nil, nil
		}
		return "step-should-succeed:prelude:" + pc.t.mode, fmt.Sprintf("prelude step %d failed (%v) but the specification runs the program", r.steps+1, r.stepErr), nil, nil
	}
	n := len(pc.prog)
	for j := 1; j <= n; j++ {
		e := pc.chain[j-1]
		op := opName(pc.prog[j-1])
		realOK := r.steps >= P+j
		if e.s.err != "" {
			// the specification fails at this token (necessarily the last one)
			c.AddEval(1)
			if realOK {
				return "step-should-fail:" + op + ":" + e.s.err, fmt.Sprintf("token %d (%s) must fail (%s) but Step succeeded", j, op, e.s.err),
					map[string]any{"step": P + j, "real_stack": hexStack(r.stacks[P+j-1])}, nil
			}
			return "", "", nil, nil
		}
		if !realOK {
			// the real step failed: fine only at the last token when the verdict is fail
			// (end-of-script checks run inside the same Step) - and then only if the
			// token itself still executes when more tokens follow it
			c.AddEval(1)
			if j < n || specOK {
				return "step-should-succeed:" + op, fmt.Sprintf("token %d (%s) failed (%v) but the specification executes it", j, op, r.stepErr), map[string]any{"step": P + j}, nil
			}
			ok, err := b.succeedsWithSuffix(pc, P, e.s.cond)
			if err != nil {
				return "", "", nil, err
			}
			if !ok {
				return "step-should-succeed:" + op, fmt.Sprintf("token %d (%s) failed (%v) even with more tokens after it, but the specification executes it", j, op, r.stepErr), map[string]any{"step": P + j}, nil
			}
			return "", "", nil, nil
		}
		expSt := e.s.st
		if j == n && specOK {
			if g.keep < 0 {
				continue // accepted without running a script: the final stack is not defined
			}
			expSt = expSt[:min(g.keep, len(expSt))]
		}
		ws, err := want(expSt)
		if err != nil {
			return "", "", nil, err
		}
		wa, err := want(e.s.alt)
		if err != nil {
			return "", "", nil, err
		}
		if j == n {
			wa = nil // the alt stack does not survive the end of the script
		}
		c.AddEval(2)
		if !stackEq(r.stacks[P+j-1], ws) || !stackEq(r.alts[P+j-1], wa) {
			return "stack:" + op, fmt.Sprintf("stacks after token %d (%s) differ", j, op),
				map[string]any{"step": P + j, "real_stack": hexStack(r.stacks[P+j-1]), "real_alt": hexStack(r.alts[P+j-1]),
					"want_stack": shortStack(expSt), "want_alt": shortStack(e.s.alt)}, nil
		}
	}
	if r.stepErr == nil && r.doneAt != P+n {
		return "step-count:" + lastOpName(pc.prog), fmt.Sprintf("execution took %d steps, the specification has %d", r.doneAt, P+n), nil, nil
	}
	return "", "", nil, nil
}

func errOrNil(err error) string {
	if err == nil {
		return "nil"
	}
	return err.Error()
}

func keyOf(init string, prog []string, n int) uint64 {
	h := fnv.New64a()
	h.Write([]byte(init))
	for i := 0; i < n; i++ {
		h.Write([]byte{0})
		h.Write([]byte(prog[i]))
	}
	return h.Sum64()
}

func (b *binder) parseGroup(v tla.Value) grp {
	g := grp{x: v.F("x").Str(), v: v.F("v").Str(), keep: v.F("keep").Int()}
	for _, c := range v.F("cf").Set() {
		s := c.Seq()
		g.cf = append(g.cf, cfgT{s[0].Str(), s[1].Str(), s[2].Str()})
	}
	s := v.F("s")
	g.s = vmS{st: b.in.elems_(s.F("st")), alt: b.in.elems_(s.F("alt")), err: s.F("err").Str(), cond: s.F("cond").Len()}
	return g
}

// progRun is one TLC run of MCProg.tla over a set of enumerations (RunDef).
type progRun struct {
	name     string
	runs     []string
	workers  int
	timeout  time.Duration
	coverage bool // run TLC with -coverage and audit that every action was taken (slow)
}

func (p progRun) cfgText() string {
	q := make([]string, len(p.runs))
	for i, r := range p.runs {
		q[i] = fmt.Sprintf("%q", r)
	}
	return fmt.Sprintf("SPECIFICATION Spec\nCONSTANTS\n  RunNames = {%s}\n  ScriptOf <- NoScript\nINVARIANTS Limits Partition\n", strings.Join(q, ", "))
}

// progSession replays the states of MCProg.tla as they are read: it keeps the
// enumerated programs so that every program can be compared step by step
// with the states of its prefixes, and feeds the replays to worker goroutines.
type progSession struct {
	b       *binder
	nodes   map[uint64]*pnode
	perRun  map[string]int
	roots   map[string]int
	work    chan []*progCase
	wg      sync.WaitGroup
	emu     sync.Mutex
	err     error
	waiting []parkedProg
	seen    int
}

type parkedProg struct {
	run  string
	init []*Elem
	prog []*Tok
	pstr []string
	istr string
	node *pnode
}

func (b *binder) newProgSession() *progSession {
	s := &progSession{b: b, nodes: map[uint64]*pnode{}, perRun: map[string]int{}, roots: map[string]int{}, work: make(chan []*progCase, 256)}
	nw := min(b.c.Workers, 8)
	for i := 0; i < nw; i++ {
		s.wg.Add(1)
		go func() {
			defer s.wg.Done()
			for bundle := range s.work {
				if err := b.runProgBundle(bundle); err != nil {
					s.fail(err)
				}
			}
		}()
	}
	return s
}

func (s *progSession) fail(err error) {
	s.emu.Lock()
	if s.err == nil {
		s.err = err
	}
	s.emu.Unlock()
}

// submit queues the replays of one program; false when a prefix is not known yet.
func (s *progSession) submit(pk parkedProg) bool {
	c := s.b.c
	n := len(pk.prog)
	anc := make([]*pnode, n+1)
	for j := 0; j < n; j++ {
		a := s.nodes[keyOf(pk.istr, pk.pstr, j)]
		if a == nil {
			return false
		}
		anc[j] = a
	}
	anc[n] = pk.node
	var bundle []*progCase
	for gi := range pk.node.groups {
		g := &pk.node.groups[gi]
		for _, t := range g.cf {
			pc := &progCase{t: t, init: pk.init, prog: pk.prog}
			if n == 0 {
				pc.chain = []*grp{g}
			}
			okc := true
			for j := 1; j <= n; j++ {
				ag := anc[j].find(t)
				if ag == nil {
					okc = false
					break
				}
				pc.chain = append(pc.chain, ag)
			}
			if !okc {
				s.fail(fmt.Errorf("configuration %v missing in an ancestor of %s", t, shortProg(pk.prog)))
				continue
			}
			c.Distinct(fmt.Sprintf("%s/%s/%s/%s/%s", t.mode, lastOpName(pk.prog), g.x, g.s.err, g.v))
			bundle = append(bundle, pc)
		}
	}
	s.work <- bundle
	return true
}

// add takes one state of MCProg.tla; it reports whether the state is new.
func (s *progSession) add(st tla.State) bool {
	b := s.b
	init := b.in.elems_(st["init"])
	prog := b.in.toks_(st["prog"])
	pstr := make([]string, len(prog))
	for i, t := range prog {
		pstr[i] = t.key
	}
	run := st["run"].Str()
	istr := run + "|" + st["init"].String()
	key := keyOf(istr, pstr, len(prog))
	if s.nodes[key] != nil {
		return false
	}
	s.perRun[run]++
	if len(prog) == 0 {
		s.roots[run]++
	}
	s.seen++
	node := &pnode{}
	for _, gv := range st["res"].Set() {
		node.groups = append(node.groups, b.parseGroup(gv))
	}
	s.nodes[key] = node
	pk := parkedProg{run, init, prog, pstr, istr, node}
	if !s.submit(pk) {
		// children can precede their parent in the dump when several workers write it
		s.waiting = append(s.waiting, pk)
	}
	if len(s.waiting) > 0 && s.seen%512 == 0 {
		s.retry()
	}
	if len(prog) >= 2 && len(node.groups) > 1 && b.takeSample(3) {
		b.c.Sample(map[string]any{"run": run, "init": shortStack(init), "program": shortProg(prog), "groups": groupSummary(node)})
	}
	return true
}

func (s *progSession) retry() {
	rest := s.waiting[:0]
	for _, w := range s.waiting {
		if !s.submit(w) {
			rest = append(rest, w)
		}
	}
	s.waiting = rest
}

// finish waits for the replays.
func (s *progSession) finish() error {
	s.retry()
	for _, w := range s.waiting {
		s.fail(fmt.Errorf("no ancestor state for program %s", shortProg(w.prog)))
	}
	close(s.work)
	s.wg.Wait()
	return s.err
}

// runProg model-checks the enumerations of one MCProg model and replays every
// (program, configuration) pair of its state space.
func (b *binder) runProg(p progRun) error {
	c := b.c
	dump := filepath.Join(c.Scratch, "prog-"+p.name)
	t0 := time.Now()
	res, err := tlc.Run(tlc.Opts{SpecDir: c.SpecDir("script"), Module: "MCProg", CfgText: p.cfgText(), Workers: p.workers,
		Timeout: p.timeout, Scratch: c.Scratch, Coverage: p.coverage, HeapGB: 8, Extra: []string{"-dump", dump}})
	if err != nil {
		return fmt.Errorf("MCProg %s: %w", p.name, err)
	}
	if !res.OK {
		return fmt.Errorf("MCProg %s: the specification violates its own invariant %s %s\n%s", p.name, res.ErrKind, res.ErrName, tail(res.Output, 3000))
	}
	c.AddModel(res.Distinct, res.Generated)
	if err := b.ensureTables(res.Output); err != nil {
		return err
	}
	c.Logf("MCProg %s: %d states in %.0fs", p.name, res.Distinct, time.Since(t0).Seconds())
	s := b.newProgSession()
	count, rerr := readDump(dump+".dump", func(st tla.State) error {
		s.add(st)
		return nil
	})
	if err := s.finish(); err != nil {
		return err
	}
	if rerr != nil {
		return rerr
	}
	if int64(count) != res.Distinct {
		return fmt.Errorf("MCProg %s: dump has %d states, TLC reports %d", p.name, count, res.Distinct)
	}
	c.Logf("MCProg %s: replayed %v (%.0fs total)", p.name, s.perRun, time.Since(t0).Seconds())
	c.SetExtra("mcprog_states_"+p.name, s.perRun)
	// vacuity: the model's two actions (Init, Next = Extend) both produced states in every enumeration
	for _, r := range p.runs {
		if s.roots[r] == 0 || s.perRun[r] <= s.roots[r] {
			return fmt.Errorf("MCProg %s: enumeration %s has %d initial and %d extended states", p.name, r, s.roots[r], s.perRun[r]-s.roots[r])
		}
	}
	if p.coverage {
		if err := coverageAudit("MCProg "+p.name, res, []string{"Init", "Next"}); err != nil {
			return err
		}
	}
	return nil
}

// coverageAudit fails when an action of the model was never taken.
func coverageAudit(what string, res *tlc.Result, actions []string) error {
	for _, a := range actions {
		if res.ActionCount[a] == 0 {
			return fmt.Errorf("%s: action %s never taken (coverage %v)", what, a, res.ActionCount)
		}
	}
	return nil
}

// runSim lets TLC simulate long programs (only extensions that keep a
// configuration alive) and replays every state of every behaviour.
func (b *binder) runSim(name string, run string, num, depth int) error {
	c := b.c
	t0 := time.Now()
	cfg := progRun{runs: []string{run}}.cfgText()
	res, err := tlc.Run(tlc.Opts{SpecDir: c.SpecDir("script"), Module: "MCProg", CfgText: cfg, Timeout: 20 * time.Minute, Scratch: c.Scratch,
		HeapGB: 6, Sim: &tlc.Sim{Num: num, Depth: depth, Seed: c.Seed}})
	if err != nil {
		return fmt.Errorf("MCProg simulation %s: %w", name, err)
	}
	if !res.OK {
		return fmt.Errorf("MCProg simulation %s: the specification violates its own invariant %s %s\n%s", name, res.ErrKind, res.ErrName, tail(res.Output, 3000))
	}
	if err := b.ensureTables(res.Output); err != nil {
		return err
	}
	s := b.newProgSession()
	longest, total := 0, 0
	for _, beh := range res.Behaviours {
		for _, ts := range beh {
			if s.add(ts.State) {
				total++
			}
			if l := ts.State["prog"].Len(); l > longest {
				longest = l
			}
		}
	}
	if err := s.finish(); err != nil {
		return err
	}
	c.AddModel(int64(total), res.Generated)
	c.SetExtra("simulated_"+name, map[string]any{"behaviours": len(res.Behaviours), "distinct_states": total, "longest_program": longest})
	c.Logf("MCProg simulation %s: %d behaviours, %d distinct states, longest program %d tokens (%.0fs)", name, len(res.Behaviours), total, longest, time.Since(t0).Seconds())
	if len(res.Behaviours) == 0 || longest < 8 {
		return fmt.Errorf("MCProg simulation %s produced no long programs (%d behaviours, longest %d)", name, len(res.Behaviours), longest)
	}
	return nil
}

func (b *binder) takeSample(limit int) bool {
	b.mu.Lock()
	defer b.mu.Unlock()
	if b.samples >= limit {
		return false
	}
	b.samples++
	return true
}

func lastOpName(p []*Tok) string {
	if len(p) == 0 {
		return "empty"
	}
	return p[len(p)-1].Short()
}

func groupSummary(n *pnode) []map[string]any {
	var out []map[string]any
	for _, g := range n.groups {
		cf := make([]string, len(g.cf))
		for i, c := range g.cf {
			cf[i] = c.String()
		}
		out = append(out, map[string]any{"configs": strings.Join(cf, ","), "x": g.x, "err": g.s.err, "stack": shortStack(g.s.st), "verdict": g.v})
	}
	return out
}

func tail(s string, n int) string {
	if len(s) > n {
		return s[len(s)-n:]
	}
	return s
}
