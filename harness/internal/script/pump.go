package script

import (
	"fmt"
	"path/filepath"
	"time"

	"verif/harness/internal/tla"
	"verif/harness/internal/tlc"
)

// runPumps model-checks MCPump.tla (one state per limit program and
// configuration) and replays every state: the number of tokens that execute,
// the verdict, the final stack depth and top elements must be the
// specification's.
func (b *binder) runPumps() error {
	c := b.c
	dump := filepath.Join(c.Scratch, "pump")
	t0 := time.Now()
	cfg := fmt.Sprintf("SPECIFICATION Spec\nCONSTANTS\n  Tier = %q\n  ScriptOf <- NoScript\nINVARIANTS Bounded\n", c.Tier)
	res, err := tlc.Run(tlc.Opts{SpecDir: c.SpecDir("script"), Module: "MCPump", CfgText: cfg, Workers: 2,
		Timeout: 15 * time.Minute, Scratch: c.Scratch, HeapGB: 6, Extra: []string{"-dump", dump}})
	if err != nil {
		return fmt.Errorf("MCPump: %w", err)
	}
	if !res.OK {
		return fmt.Errorf("MCPump: the specification violates its own invariant %s %s\n%s", res.ErrKind, res.ErrName, tail(res.Output, 3000))
	}
	c.AddModel(res.Distinct, res.Generated)
	if err := b.ensureTables(res.Output); err != nil {
		return err
	}
	c.Logf("MCPump: %d states in %.0fs", res.Distinct, time.Since(t0).Seconds())
	type job struct {
		name string
		t    cfgT
		init []*Elem
		prog []*Tok
		out  tla.Value
	}
	var jobs []job
	skipped := 0
	n, err := readDump(dump+".dump", func(st tla.State) error {
		p := st["pump"]
		if x := st["out"].F("x").Str(); x == "root" || x == "pending" {
			skipped++
			return nil
		}
		ts := p.F("t").Seq()
		j := job{name: p.F("name").Str(), t: cfgT{ts[0].Str(), ts[1].Str(), ts[2].Str()}, out: st["out"]}
		for _, it := range p.F("init").Seq() {
			e := b.in.elem(it.Seq()[0])
			for k := 0; k < it.Seq()[1].Int(); k++ {
				j.init = append(j.init, e)
			}
		}
		for _, it := range p.F("prog").Seq() {
			seq := b.in.toks_(it.Seq()[0])
			for k := 0; k < it.Seq()[1].Int(); k++ {
				j.prog = append(j.prog, seq...)
			}
		}
		jobs = append(jobs, j)
		return nil
	})
	if err != nil {
		return err
	}
	if int64(n) != res.Distinct {
		return fmt.Errorf("MCPump: dump has %d states, TLC reports %d", n, res.Distinct)
	}
	// vacuity: the root, one state per pump and the evaluated states are all there
	if skipped < 2 || len(jobs) == 0 || len(jobs)%(skipped-1) != 0 {
		return fmt.Errorf("MCPump: unexpected shape of the state space: %d unevaluated and %d evaluated states", skipped, len(jobs))
	}
	var firstErr error
	c.Parallel(len(jobs), func(i int) {
		j := jobs[i]
		if err := b.runPump(j.name, j.t, j.init, j.prog, j.out); err != nil {
			b.mu.Lock()
			if firstErr == nil {
				firstErr = err
			}
			b.mu.Unlock()
		}
	})
	if firstErr != nil {
		return firstErr
	}
	c.Logf("MCPump: replayed (%.0fs total)", time.Since(t0).Seconds())
	return nil
}

func (b *binder) runPump(name string, t cfgT, init []*Elem, prog []*Tok, out tla.Value) error {
	c := b.c
	sp, cc, err := b.buildProgSpend(t, init, prog)
	if err != nil {
		return fmt.Errorf("pump %s: %w", name, err)
	}
	fl, ok := b.flags[t.fs]
	if !ok {
		return fmt.Errorf("unknown flag set %q", t.fs)
	}
	sp.flags = fl
	P := preludeSteps(t, init)
	r := sp.observe(P + len(prog) + 8)
	c.AddTraces(1)
	x, v, n := out.F("x").Str(), out.F("v").Str(), out.F("n").Int()
	desc := fmt.Sprintf("pump %s mode=%s flags=%s (%d initial elements, %d tokens)", name, t.mode, t.fs, len(init), len(prog))
	c.Distinct(fmt.Sprintf("pump/%s/%s/%s/%s/%d", name, t.mode, x, v, n))
	rep := func() map[string]any {
		m := map[string]any{"pump": name, "mode": t.mode, "flags": t.fs, "spec": out.Go(), "real": r.errString(), "real_steps": r.steps, "prelude_steps": P}
		if len(sp.pkScript) < 200 {
			for k, v := range sp.replay() {
				m[k] = v
			}
		}
		return m
	}
	if r.panicked != "" {
		c.Violation("panic:pump:"+name, "script verification panicked: "+desc, rep())
		return nil
	}
	c.AddEval(1)
	specOK := v == "ok"
	if r.execOK != specOK {
		c.Violation(fmt.Sprintf("limit:%s:%s:verdict-spec-%s", name, t.mode, v),
			fmt.Sprintf("Execute() = %v but the specification says %s: %s", errOrNil(r.execErr), v, desc), rep())
		return nil
	}
	if r.newErr != nil || x == "skip" {
		return nil
	}
	if r.steps < P {
		if specOK {
			c.Violation(fmt.Sprintf("limit:%s:%s:prelude", name, t.mode), "prelude failed: "+desc, rep())
		}
		return nil
	}
	// number of program tokens executed successfully
	got := r.steps - P
	c.AddEval(1)
	errAt := out.F("err").Str()
	if errAt != "" {
		// the specification fails at token n+1
		if got != n {
			c.Violation(fmt.Sprintf("limit:%s:%s:fails-at", name, t.mode),
				fmt.Sprintf("the program must fail at token %d (%s), the implementation executed %d tokens (%s): %s", n+1, errAt, got, r.errString(), desc), rep())
		}
		return nil
	}
	// every token executes in the specification; the last Step may still fail at the end-of-script checks
	if got < n-1 || (got == n-1 && specOK) {
		c.Violation(fmt.Sprintf("limit:%s:%s:stops-early", name, t.mode),
			fmt.Sprintf("all %d tokens execute in the specification, the implementation stopped after %d (%s): %s", n, got, r.errString(), desc), rep())
		return nil
	}
	if got == n && len(prog) > 0 {
		st := r.stacks[r.steps-1]
		depth := out.F("depth").Int()
		c.AddEval(2)
		if len(st) != depth {
			c.Violation(fmt.Sprintf("limit:%s:%s:depth", name, t.mode), fmt.Sprintf("final stack depth %d, specification %d: %s", len(st), depth, desc), rep())
			return nil
		}
		top, err := cc.elems(b.in.elems_(out.F("top")))
		if err != nil {
			return err
		}
		if len(top) <= len(st) && !stackEq(st[len(st)-len(top):], top) {
			c.Violation(fmt.Sprintf("limit:%s:%s:top", name, t.mode), fmt.Sprintf("top of the final stack differs: %s", desc), rep())
		}
	}
	return nil
}
