package script

import (
	"fmt"
	"os"
	"runtime/metrics"
	"strings"
	"sync"
	"time"

	"verif/harness/internal/vrun"
)

// Run is the C06 check.
func Run(c *vrun.Ctx) error {
	c.Ev.Coverage.Rule = "TLC evaluates the reference interpreter of ScriptVM.tla / ScriptSeq.tla on: (a) MCProg - every program of the run's length over its token alphabet, grown token by token " +
		"(a failed prefix is not extended), from every initial stack of the run, as bare scriptPubKey, P2WSH witness script and tapscript leaf, under the flag sets block validation reaches along the soft-fork history " +
		"and the relay set StandardVerifyFlags: programs of <= 3 tokens (4 over the smallest alphabet in thorough), every opcode byte and push form over operand stacks (unit sweep), every token in a branch that is not executed, " +
		"conditional nesting to depth 6, signature opcodes over stacks of real keys and signatures, CLTV/CSV over six transaction contexts, and TLC-simulated programs of up to 40 tokens that keep running; " +
		"(b) MCPump - generated programs at and one past every limit (201 operations, 1000 stack elements, 10000 script bytes); (c) MCSeq - whole spends (P2PKH .. P2SH .. segwit v0 .. taproot key and script path) under all 8 flag sets. " +
		"Every state is concretised (real secp256k1 keys, real signatures over the real signature hash, real hashes, taproot trees) and run through txscript.NewEngine + Step() and an independent Execute() " +
		"(scenarios also through blockchain.ValidateTransactionScripts with shared caches); after every step GetStack / GetAltStack are compared with the specification's stacks, at the end the verdict. " +
		"distinct_nontrivial counts distinct (mode, last token, outcome class, verdict) tuples, pump outcomes and (scenario, flag set) pairs."
	c.Assume("TLC evaluates the specification's operators correctly; the reference semantics are those of Bitcoin Core's interpreter.cpp as transcribed in ScriptVM.tla / ScriptSeq.tla")
	c.Assume("signature mathematics, signature hashes (C07) and taproot commitment arithmetic are not re-implemented: signatures are made with btcec over the hashes txscript computes; an abstract signature is valid for exactly one (key, sigversion, code position)")
	c.Assume("hash opcodes are injective on the elements used (no collisions among the concretised values; checked for equal lengths at concretisation)")
	b := newBinder(c)
	stop := make(chan struct{})
	defer close(stop)
	go watchdog(c, stop)
	// several JVMs run side by side on a shared machine: keep their helper threads few
	os.Setenv("_JAVA_OPTIONS", "-XX:ParallelGCThreads=2 -XX:CICompilerCount=2")
	q, th := c.Tier != "thorough", c.Thorough
	_ = q
	tm := 25 * time.Minute
	var lanes [][]func() error
	prog := func(p progRun) func() error { return func() error { return b.runProg(p) } }
	sim := func(name, run string, num, depth int) func() error {
		return func() error { return b.runSim(name, run, num, depth) }
	}
	if !th {
		lanes = [][]func() error{
			{prog(progRun{name: "quick", runs: []string{"small3", "unitq", "skip3", "cond6", "data", "fad", "sigshape", "undec", "core2", "lock", "sigu", "sig2"}, workers: 4, timeout: tm})},
			{b.runSeq, sim("sim", "sim", 12, 32)},
			{b.runPumps},
		}
	} else {
		lanes = [][]func() error{
			{prog(progRun{name: "thorough-a", runs: []string{"core3", "sig3", "lock", "sigu", "skip3", "data", "fad", "sigshape", "undec"}, workers: 3, timeout: tm})},
			{prog(progRun{name: "thorough-b", runs: []string{"unit", "tiny4", "core2m", "cond6", "small3s"}, workers: 3, timeout: tm})},
			{b.runSeq, b.runPumps, sim("sim", "sim", 600, 40)},
			{sim("simcore", "simcore", 250, 40)},
		}
	}
	// development aid: VERIF_C06_ONLY=prog|seq|pump|sim runs one part only
	if only := os.Getenv("VERIF_C06_ONLY"); only != "" {
		switch only {
		case "prog":
			lanes = lanes[:1]
		case "seq":
			lanes = [][]func() error{{b.runSeq}}
		case "pump":
			lanes = [][]func() error{{b.runPumps}}
		case "sim":
			lanes = [][]func() error{{sim("sim", "sim", 12, 32)}}
		default:
			if strings.HasPrefix(only, "runs:") {
				lanes = [][]func() error{{prog(progRun{name: "only", runs: strings.Split(only[5:], ","), workers: 4, timeout: tm})}}
			}
		}
	}
	var wg sync.WaitGroup
	errs := make([]error, len(lanes))
	for i, lane := range lanes {
		wg.Add(1)
		go func(i int, lane []func() error) {
			defer wg.Done()
			for _, f := range lane {
				if err := f(); err != nil {
					errs[i] = err
					return
				}
			}
		}(i, lane)
	}
	wg.Wait()
	for _, err := range errs {
		if err != nil {
			return err
		}
	}
	c.Ev.Coverage.Exhaustive = true
	c.Ev.Coverage.Explanation = "exhaustive means: TLC enumerated the complete state space of each bounded configuration (all programs up to the tier's length over the stated alphabets, " +
		"initial stacks, modes and flag sets; all pumps; all scenarios) and every state was replayed into txscript. It does not mean all scripts."
	return nil
}

// watchdog guards the machine against an implementation that allocates without
// bound or does not terminate on some script (the property's "never exceeds its
// bounds"): when the process grows past 12 GB or one script verification runs
// for more than 90 s, the spends in flight are reported and the check exits 1.
func watchdog(c *vrun.Ctx, stop chan struct{}) {
	sample := []metrics.Sample{{Name: "/memory/classes/total:bytes"}}
	tick := time.NewTicker(300 * time.Millisecond)
	defer tick.Stop()
	for {
		select {
		case <-stop:
			return
		case <-tick.C:
		}
		metrics.Read(sample)
		total := sample[0].Value.Uint64()
		var running []map[string]any
		slow := false
		inflight.Range(func(k, v any) bool {
			sp := k.(*spend)
			d := time.Since(v.(time.Time))
			if d > 90*time.Second {
				slow = true
			}
			if d > 2*time.Second || total > 12<<30 {
				m := sp.replay()
				m["running_for_s"] = d.Seconds()
				running = append(running, m)
			}
			return true
		})
		if total > 12<<30 || slow {
			c.Violation("resource:unbounded-allocation-or-no-termination",
				fmt.Sprintf("script verification does not stay within bounds: process memory %d MB, %d verification(s) running long; see the replay for the spends in flight", total>>20, len(running)),
				map[string]any{"in_flight": running})
			fmt.Printf("RESULT property=%s tier=%s seed=%d violations=%d (aborted by the resource watchdog) exit=1\n", c.Prop, c.Tier, c.Seed, c.Violations())
			os.RemoveAll(c.Scratch)
			os.Exit(1)
		}
	}
}
