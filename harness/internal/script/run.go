package script

import (
	"time"

	"verif/harness/internal/vrun"
)

// Run is the C06 check.
func Run(c *vrun.Ctx) error {
	b := newBinder(c)
	runs := []progRun{
		{name: "core3", maxLen: 3, alpha: "core", init: "empty", cfg: "std", workers: 5, timeout: 10 * time.Minute},
		{name: "unit", maxLen: 1, alpha: "all", init: "mid2", cfg: "std", workers: 5, timeout: 10 * time.Minute},
	}
	for _, p := range runs {
		if err := b.runProg(p); err != nil {
			return err
		}
	}
	return nil
}
