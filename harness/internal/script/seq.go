package script

import (
	"fmt"
	"path/filepath"
	"strings"
	"sync"
	"time"

	"github.com/btcsuite/btcd/blockchain"
	"github.com/btcsuite/btcd/btcec/v2/schnorr"
	"github.com/btcsuite/btcd/btcutil/v2"
	"github.com/btcsuite/btcd/txscript/v2"

	"verif/harness/internal/tla"
	"verif/harness/internal/tlc"
)

// seqScen is a scenario of MCSeq.tla.
type seqScen struct {
	name  string
	sig   []*Tok
	pk    []*Tok
	wit   []*Elem
	signs string
}

// seqEntry is one trace entry of ScriptSeq!VerifyScript.
type seqEntry struct {
	st, alt []*Elem
	cmp     bool
	ph      string
}

type seqCase struct {
	sc  *seqScen
	fs  string
	ok  bool
	err string // error class of the opcode the specification fails at ("" otherwise)
	tr  []seqEntry
}

// parseScripts finds the <<"SCRIPTS", [name |-> tokens]>> value in TLC's output.
func (b *binder) parseScripts(out string) (map[string][]*Tok, error) {
	i := strings.Index(out, `<< "SCRIPTS"`)
	if i < 0 {
		i = strings.Index(out, `<<"SCRIPTS"`)
	}
	if i < 0 {
		return nil, fmt.Errorf("no SCRIPTS value in TLC output")
	}
	lines := strings.SplitAfter(out[i:], "\n")
	var acc strings.Builder
	for _, l := range lines {
		acc.WriteString(l)
		if !strings.Contains(l, ">>") {
			continue
		}
		v, err := tla.ParseValue(strings.TrimSpace(acc.String()))
		if err != nil {
			continue
		}
		m := map[string][]*Tok{}
		tb := v.Seq()[1]
		for _, k := range tb.Domain() {
			m[k.Str()] = b.in.toks_(tb.Apply(k))
		}
		return m, nil
	}
	return nil, fmt.Errorf("SCRIPTS value does not parse")
}

// walkElems visits every element reachable from the scenario (through hash
// arguments and the pushes of referenced scripts).
func walkElems(sc *seqScen, scripts map[string][]*Tok, fn func(*Elem)) {
	seen := map[*Elem]bool{}
	seenScr := map[string]bool{}
	var ve func(e *Elem)
	var vt func(ts []*Tok)
	ve = func(e *Elem) {
		if seen[e] {
			return
		}
		seen[e] = true
		fn(e)
		for _, r := range e.R {
			ve(r)
		}
		if e.T == "scr" && !seenScr[e.K] {
			seenScr[e.K] = true
			vt(scripts[e.K])
		}
	}
	vt = func(ts []*Tok) {
		for _, t := range ts {
			if t.Op == "PUSH" {
				ve(t.E)
			}
		}
	}
	vt(sc.sig)
	vt(sc.pk)
	for _, e := range sc.wit {
		ve(e)
	}
}

// buildSeqSpend concretises a scenario.
func (b *binder) buildSeqSpend(sc *seqScen, scripts map[string][]*Tok) (*spend, *Conc, error) {
	ctx, ok := b.tables.Ctx["A"]
	if !ok {
		return nil, nil, fmt.Errorf("no tx context A")
	}
	sp := &spend{amount: 100000, ctx: ctx, realFunding: true}
	cc := &Conc{w: b.w, scripts: map[string][]byte{}, ctrls: map[string][]byte{}}
	sg := &signer{b: b, cc: cc, sp: sp}
	cc.sigFn = sg.placeholder

	// scripts that travel as elements (innermost first through recursion)
	var scrBytes func(name string, depth int) ([]byte, error)
	scrBytes = func(name string, depth int) ([]byte, error) {
		if bts, ok := cc.scripts[name]; ok {
			return bts, nil
		}
		if depth > 8 {
			return nil, fmt.Errorf("script %q refers to itself", name)
		}
		toks, ok := scripts[name]
		if !ok {
			return nil, fmt.Errorf("scenario %s: unknown script %q", sc.name, name)
		}
		for _, t := range toks {
			if t.Op == "PUSH" {
				var need func(e *Elem) error
				need = func(e *Elem) error {
					if e.T == "scr" {
						if _, err := scrBytes(e.K, depth+1); err != nil {
							return err
						}
					}
					for _, r := range e.R {
						if err := need(r); err != nil {
							return err
						}
					}
					return nil
				}
				if err := need(t.E); err != nil {
					return nil, err
				}
			}
		}
		bts, _, err := cc.script(toks)
		if err != nil {
			return nil, err
		}
		cc.scripts[name] = bts
		return bts, nil
	}
	// taproot: which leaves, is the output key used
	var ctrls []*Elem
	usesTap := false
	var names []string
	walkElems(sc, scripts, func(e *Elem) {
		switch e.T {
		case "ctrl":
			ctrls = append(ctrls, e)
		case "key":
			if e.K == "TAP" {
				usesTap = true
			}
		case "sig":
			if e.K == "TAP" {
				usesTap = true
			}
		case "scr":
			names = append(names, e.K)
		}
	})
	for _, n := range names {
		// scripts whose pushes need the taproot key are built after the tree
		if n == "v1tap" {
			continue
		}
		if _, err := scrBytes(n, 0); err != nil {
			return nil, nil, err
		}
	}
	if usesTap || len(ctrls) > 0 {
		hidden := txscript.NewBaseTapLeaf([]byte{txscript.OP_2})
		leaves := []txscript.TapLeaf{}
		idx := map[string]int{}
		for _, ce := range ctrls {
			k := fmt.Sprintf("%s/%d", ce.K, treeLeafVersion(ce))
			if _, ok := idx[k]; ok {
				continue
			}
			sb, err := scrBytes(ce.K, 0)
			if err != nil {
				return nil, nil, err
			}
			idx[k] = len(leaves)
			leaves = append(leaves, txscript.NewTapLeaf(txscript.TapscriptLeafVersion(treeLeafVersion(ce)), sb))
		}
		if len(leaves) > 1 {
			return nil, nil, fmt.Errorf("scenario %s: one proven leaf per scenario supported", sc.name)
		}
		leaves = append(leaves, hidden)
		if len(leaves) == 1 {
			leaves = append(leaves, txscript.NewBaseTapLeaf([]byte{txscript.OP_3}))
		}
		tree := txscript.AssembleTaprootScriptTree(leaves...)
		ipriv := b.w.key("INTERNAL")
		root := tree.RootNode.TapHash()
		out := txscript.ComputeTaprootOutputKey(ipriv.PubKey(), root[:])
		cc.tapKey = schnorr.SerializePubKey(out)
		sg.tapPriv = txscript.TweakTaprootPrivKey(*ipriv, root[:])
		for _, ce := range ctrls {
			li := idx[fmt.Sprintf("%s/%d", ce.K, treeLeafVersion(ce))]
			cb := tree.LeafMerkleProofs[li].ToControlBlock(ipriv.PubKey())
			good, err := cb.ToBytes()
			if err != nil {
				return nil, nil, err
			}
			if len(good) != 65 {
				return nil, nil, fmt.Errorf("control block of %d bytes, expected 65", len(good))
			}
			bts := append([]byte{}, good...)
			switch ce.B[2] {
			case 0:
			case 1:
				bts[len(bts)-1] ^= 1
			case 2:
				bts[0] ^= 1
			case 3:
				bts = bts[:64]
			case 4:
				bts = bts[:32]
			case 5:
				copy(bts[1:33], schnorr.SerializePubKey(b.w.key("K3").PubKey()))
			case 6:
				bts = bts[:33]
			case 7:
				// the control block claims another leaf version than the tree commits to
				bts[0] = (bts[0] & 0x01) | byte(ce.B[0])
			default:
				return nil, nil, fmt.Errorf("unknown control block variant %d", ce.B[2])
			}
			if len(bts) != ce.N {
				return nil, nil, fmt.Errorf("control block variant %d has %d bytes, specification says %d", ce.B[2], len(bts), ce.N)
			}
			cc.ctrls[ce.key] = bts
		}
	}
	for _, n := range names {
		if _, err := scrBytes(n, 0); err != nil {
			return nil, nil, err
		}
	}
	// scriptPubKey
	pk, pkOffs, err := cc.script(sc.pk)
	if err != nil {
		return nil, nil, err
	}
	sp.pkScript = pk
	// what the signatures commit to
	switch sc.signs {
	case "pk":
		sg.prog, sg.offs, sg.script = sc.pk, pkOffs, pk
	case "wpkh":
		var prog *Elem
		if len(sc.pk) == 2 && sc.pk[0].Op == "OP_0" && sc.pk[1].Op == "PUSH" && sc.pk[1].E.N == 20 {
			prog = sc.pk[1].E
		} else {
			for _, t := range sc.sig {
				if t.Op == "PUSH" && t.E.T == "scr" {
					rs := scripts[t.E.K]
					if len(rs) == 2 && rs[1].Op == "PUSH" {
						prog = rs[1].E
					}
				}
			}
		}
		if prog == nil {
			return nil, nil, fmt.Errorf("scenario %s: no P2WPKH program found", sc.name)
		}
		h, err := cc.elem(prog)
		if err != nil {
			return nil, nil, err
		}
		s := append([]byte{txscript.OP_DUP, txscript.OP_HASH160, 20}, h...)
		s = append(s, txscript.OP_EQUALVERIFY, txscript.OP_CHECKSIG)
		sg.prog, sg.offs, sg.script = nil, []int{0, len(s)}, s
	default:
		toks, ok := scripts[sc.signs]
		if !ok {
			return nil, nil, fmt.Errorf("scenario %s: signs unknown script %q", sc.name, sc.signs)
		}
		sb, offs, err := cc.script(toks)
		if err != nil {
			return nil, nil, err
		}
		sg.prog, sg.offs, sg.script = toks, offs, sb
	}
	// annex
	if n := len(sc.wit); n >= 2 && sc.wit[n-1].T == "raw" && sc.wit[n-1].N > 0 && sc.wit[n-1].B[0] == 0x50 {
		ab, err := cc.elem(sc.wit[n-1])
		if err != nil {
			return nil, nil, err
		}
		sg.annex = ab
	}
	// witness and scriptSig: signatures need the final transaction, which holds
	// them; they are not part of any signature hash, so placeholders first
	cc.sigFn = sg.placeholder
	if err := b.fillSpend(sc, sp, cc); err != nil {
		return nil, nil, err
	}
	cc.sigFn = sg.final
	if err := b.fillSpend(sc, sp, cc); err != nil {
		return nil, nil, err
	}
	return sp, cc, nil
}

func (b *binder) fillSpend(sc *seqScen, sp *spend, cc *Conc) error {
	ss, _, err := cc.script(sc.sig)
	if err != nil {
		return err
	}
	sp.sigScr = ss
	wb, err := cc.elems(sc.wit)
	if err != nil {
		return err
	}
	sp.witness = wb
	return nil
}

// runSeq model-checks MCSeq.tla and replays every (scenario, flag set) state.
func (b *binder) runSeq() error {
	c := b.c
	dump := filepath.Join(c.Scratch, "seq")
	t0 := time.Now()
	res, err := tlc.Run(tlc.Opts{SpecDir: c.SpecDir("script"), Module: "MCSeq", Config: "MCSeq.cfg", Workers: 2,
		Timeout: 15 * time.Minute, Scratch: c.Scratch, HeapGB: 6, Extra: []string{"-dump", dump}})
	if err != nil {
		return fmt.Errorf("MCSeq: %w", err)
	}
	if !res.OK {
		return fmt.Errorf("MCSeq: the specification violates its own invariant %s %s\n%s", res.ErrKind, res.ErrName, tail(res.Output, 3000))
	}
	c.AddModel(res.Distinct, res.Generated)
	if err := b.ensureTables(res.Output); err != nil {
		return err
	}
	scripts, err := b.parseScripts(res.Output)
	if err != nil {
		return err
	}
	c.Logf("MCSeq: %d states in %.0fs", res.Distinct, time.Since(t0).Seconds())
	scens := map[string]*seqScen{}
	byScen := map[string][]*seqCase{}
	var order []string
	var levels [2]int
	n, err := readDump(dump+".dump", func(st tla.State) error {
		sv := st["scen"]
		name := sv.F("name").Str()
		if name == "" || st["fs"].Str() == "" {
			levels[0]++
			return nil // root / scenario chosen, not yet evaluated
		}
		levels[1]++
		sc := scens[name]
		if sc == nil {
			sc = &seqScen{name: name, sig: b.in.toks_(sv.F("sig")), pk: b.in.toks_(sv.F("pk")), wit: b.in.elems_(sv.F("wit")), signs: sv.F("signs").Str()}
			scens[name] = sc
			order = append(order, name)
		}
		rv := st["result"]
		cs := &seqCase{sc: sc, fs: st["fs"].Str(), ok: rv.F("ok").Bool(), err: rv.F("err").Str()}
		for _, e := range rv.F("tr").Seq() {
			cs.tr = append(cs.tr, seqEntry{st: b.in.elems_(e.F("st")), alt: b.in.elems_(e.F("alt")), cmp: e.F("cmp").Bool(), ph: e.F("ph").Str()})
		}
		byScen[name] = append(byScen[name], cs)
		return nil
	})
	if err != nil {
		return err
	}
	if int64(n) != res.Distinct {
		return fmt.Errorf("MCSeq: dump has %d states, TLC reports %d", n, res.Distinct)
	}
	// vacuity: every action produced its states (root, one per scenario, one per scenario and flag set)
	if levels[0] != 1+len(order) || levels[1] != len(order)*len(b.tables.Flags) || len(order) == 0 {
		return fmt.Errorf("MCSeq: unexpected shape of the state space: %d scenarios, %d unevaluated and %d evaluated states", len(order), levels[0], levels[1])
	}
	var firstErr error
	var emu sync.Mutex
	c.Parallel(len(order), func(i int) {
		name := order[i]
		sp, cc, err := b.buildSeqSpend(scens[name], scripts)
		if err == nil {
			for _, cs := range byScen[name] {
				if err = b.runSeqCase(cs, sp, cc); err != nil {
					break
				}
			}
		}
		if err != nil {
			emu.Lock()
			if firstErr == nil {
				firstErr = fmt.Errorf("scenario %s: %w", name, err)
			}
			emu.Unlock()
		}
	})
	if firstErr != nil {
		return firstErr
	}
	c.Logf("MCSeq: replayed %d scenarios (%.0fs total)", len(order), time.Since(t0).Seconds())
	return nil
}

func (b *binder) runSeqCase(cs *seqCase, sp0 *spend, cc *Conc) error {
	c := b.c
	fl, ok := b.flags[cs.fs]
	if !ok {
		return fmt.Errorf("unknown flag set %q", cs.fs)
	}
	sp := *sp0
	sp.flags = fl
	r := sp.observe(len(cs.tr) + 600)
	c.AddTraces(1)
	verdict := "fail"
	if cs.ok {
		verdict = "ok"
	}
	c.Distinct(fmt.Sprintf("seq/%s/%s/%s/%d", cs.sc.name, cs.fs, verdict, len(cs.tr)))
	desc := fmt.Sprintf("scenario %s flags=%s sig=[%s] pk=[%s] witness=%s", cs.sc.name, cs.fs, shortProg(cs.sc.sig), shortProg(cs.sc.pk), shortStack(cs.sc.wit))
	rep := func(extra map[string]any) map[string]any {
		m := sp.replay()
		m["scenario"] = cs.sc.name
		m["flagset"] = cs.fs
		m["spec_verdict"] = verdict
		m["spec_steps"] = len(cs.tr)
		m["real"] = r.errString()
		m["real_steps"] = r.steps
		for k, v := range extra {
			m[k] = v
		}
		return m
	}
	if cs.fs == "S" && len(cs.tr) > 3 && b.takeSample(6) {
		c.Sample(map[string]any{"scenario": cs.sc.name, "flags": cs.fs, "verdict": verdict, "steps": len(cs.tr), "real": r.errString()})
	}
	if r.panicked != "" {
		c.Violation("panic:seq:"+cs.sc.name, "script verification panicked: "+desc, rep(map[string]any{"panic": r.panicked}))
		return nil
	}
	// stacks step by step
	key, what := "", ""
	var extra map[string]any
	if r.newErr == nil {
		for i := 1; i <= r.steps; i++ {
			if i > len(cs.tr) {
				if !cs.ok {
					key = "seq:" + cs.sc.name + ":step-should-fail"
					if cs.err == "nullfail-undecodable" {
						// the same cause as in the program runs: one key for it
						key = "step-should-fail:OP_CHECKSIG:nullfail-undecodable"
					}
					what = fmt.Sprintf("step %d succeeded, the specification stops after %d (%s)", i, len(cs.tr), cs.err)
				}
				break
			}
			e := cs.tr[i-1]
			if !e.cmp {
				continue
			}
			ws, err := cc.elems(e.st)
			if err != nil {
				return err
			}
			wa, err := cc.elems(e.alt)
			if err != nil {
				return err
			}
			c.AddEval(2)
			if !stackEq(r.stacks[i-1], ws) || !stackEq(r.alts[i-1], wa) {
				key = "seq:" + cs.sc.name + ":stack"
				what = fmt.Sprintf("stacks after step %d (%s) differ", i, e.ph)
				extra = map[string]any{"step": i, "real_stack": hexStack(r.stacks[i-1]), "real_alt": hexStack(r.alts[i-1]), "want_stack": shortStack(e.st), "want_alt": shortStack(e.alt)}
				break
			}
		}
		if key == "" && cs.ok && r.stepErr == nil && r.doneAt != len(cs.tr) {
			key = "seq:" + cs.sc.name + ":step-count"
			what = fmt.Sprintf("execution took %d steps, the specification has %d", r.doneAt, len(cs.tr))
		}
	}
	c.AddEval(1)
	if r.execOK != cs.ok {
		if key == "" {
			key = "seq:" + cs.sc.name + ":verdict"
		}
		c.Violation(key, fmt.Sprintf("Execute() = %v but the specification says %s%s: %s", errOrNil(r.execErr), verdict, sep(what), desc), rep(extra))
		return nil
	}
	if key != "" {
		c.Violation(key, what+": "+desc, rep(extra))
		return nil
	}
	// the same spend through blockchain.ValidateTransactionScripts (shared
	// signature and hash caches: the second call is served from them)
	for round := 0; round < 2; round++ {
		verr := b.validateTx(&sp)
		c.AddEval(1)
		if (verr == nil) != cs.ok {
			c.Violation("validate-tx-scripts:"+cs.sc.name, fmt.Sprintf("blockchain.ValidateTransactionScripts = %v (call %d) but the specification says %s: %s", errOrNil(verr), round+1, verdict, desc), rep(nil))
			return nil
		}
	}
	if r.newErr == nil && r.execOK != r.ok && r.stepErr == nil {
		c.Violation("execute-vs-step:seq:"+cs.sc.name, fmt.Sprintf("Execute() and a Step() loop disagree (%v vs %v): %s", errOrNil(r.execErr), r.errString(), desc), rep(nil))
	}
	return nil
}

// validateTx runs the spend through blockchain.ValidateTransactionScripts with
// the binder's shared caches.
func (b *binder) validateTx(sp *spend) (err error) {
	defer func() {
		if p := recover(); p != nil {
			err = fmt.Errorf("panic: %v", p)
		}
	}()
	view := blockchain.NewUtxoViewpoint()
	view.AddTxOuts(btcutil.NewTx(sp.funding()), 1)
	return blockchain.ValidateTransactionScripts(btcutil.NewTx(sp.tx()), view, sp.flags, b.sigCache, b.hashCache)
}

// treeLeafVersion is the leaf version the taproot tree is built with: the one
// the control block states, except for variant 7 (a control block that states
// a version the tree does not commit to).
func treeLeafVersion(ce *Elem) int {
	if ce.B[2] == 7 {
		return 0xc0
	}
	return ce.B[0]
}
