package script

import (
	"bytes"
	"crypto/sha256"
	"fmt"

	"github.com/btcsuite/btcd/btcec/v2"
	"github.com/btcsuite/btcd/btcec/v2/schnorr"
	"github.com/btcsuite/btcd/txscript/v2"
)

// signer makes the abstract signature elements of one spend real: a signature
// element [key k, hash type, encoding class, sigversion code, code separator
// position] becomes a signature by key k over the signature hash of exactly
// that context, computed on the final scripts and transaction.
type signer struct {
	b    *binder
	cc   *Conc
	sp   *spend
	mode string // "b" base script, "w" v0 witness script, "t" tapscript
	prog []*Tok // the script signatures are checked in
	offs []int  // byte offset of every token of prog (+ total)

	script  []byte // final bytes of prog
	ctrl    []byte
	leaf    txscript.TapLeaf
	annex   []byte
	tapPriv *btcec.PrivateKey // tweaked key of the taproot output (key element "TAP")

	inScript map[*Elem][]byte // resolved signatures that are pushed by prog itself
}

func sigLen(e *Elem) int { return e.N }

// placeholder stands in for signatures while the script layout is computed.
func (s *signer) placeholder(e *Elem) ([]byte, error) {
	if b, ok := s.inScript[e]; ok {
		return b, nil
	}
	out := make([]byte, sigLen(e))
	for i := range out {
		out[i] = 0xEE
	}
	return out, nil
}

func (s *signer) hasSigs(prog []*Tok, init []*Elem) bool {
	for _, t := range prog {
		if t.Op == "PUSH" && t.E.T == "sig" {
			return true
		}
	}
	for _, e := range init {
		if e.T == "sig" {
			return true
		}
	}
	return false
}

// smallestPush is CScript() << data: the push pattern FindAndDelete looks for.
func smallestPush(data []byte) []byte {
	switch {
	case len(data) < txscript.OP_PUSHDATA1:
		return append([]byte{byte(len(data))}, data...)
	case len(data) <= 0xff:
		return append([]byte{txscript.OP_PUSHDATA1, byte(len(data))}, data...)
	default:
		return append([]byte{txscript.OP_PUSHDATA2, byte(len(data)), byte(len(data) >> 8)}, data...)
	}
}

// codeFrom returns the tokens' byte ranges from code separator position cs.
func (s *signer) codeStart(cs int) int {
	if cs < 0 || cs >= len(s.offs) {
		return 0
	}
	return s.offs[cs]
}

// legacyCode is the script code of the base sigversion for signature bytes sig
// signed at code separator cs: from the separator, with the pushes of sig
// removed at token boundaries (FindAndDelete).
func (s *signer) legacyCode(script []byte, cs int, sig []byte) []byte {
	pat := smallestPush(sig)
	var out []byte
	for i := cs; i < len(s.prog); i++ {
		tb := script[s.offs[i]:s.offs[i+1]]
		if bytes.Equal(tb, pat) {
			continue
		}
		out = append(out, tb...)
	}
	return out
}

func (s *signer) digest(e *Elem, script []byte, sigBytes []byte) ([]byte, error) {
	ht := txscript.SigHashType(e.B[0])
	svc, cs := e.B[2], e.B[3]
	if cs > len(s.prog) {
		// made for a code separator the script does not have: valid nowhere
		h := sha256.Sum256([]byte("no such code separator"))
		return h[:], nil
	}
	tx := s.sp.tx()
	fetcher := txscript.NewCannedPrevOutputFetcher(s.sp.pkScript, s.sp.amount)
	switch svc {
	case 0:
		code := s.legacyCode(script, cs, sigBytes)
		return txscript.CalcSignatureHash(code, ht, tx, s.sp.ctx.Idx)
	case 1:
		hc := txscript.NewTxSigHashes(tx, fetcher)
		return txscript.CalcWitnessSigHash(script[s.codeStart(cs):], hc, ht, tx, s.sp.ctx.Idx, s.sp.amount)
	case 2, 5:
		hc := txscript.NewTxSigHashes(tx, fetcher)
		leaf := txscript.NewBaseTapLeaf(script)
		lh := leaf.TapHash()
		pos := uint32(0xffffffff)
		if cs > 0 {
			pos = uint32(cs - 1)
		}
		opts := []txscript.TaprootSigHashOption{txscript.WithBaseTapscriptVersion(pos, lh[:])}
		if svc == 5 {
			if s.annex == nil {
				h := sha256.Sum256([]byte("no annex to commit to"))
				return h[:], nil
			}
			opts = append(opts, txscript.WithAnnex(s.annex))
		}
		if e.B[0] != 0 && !validTapHashType(e.B[0]) {
			// no digest exists for an undefined hash type: sign something else
			h := sha256.Sum256([]byte("undefined taproot hash type"))
			return h[:], nil
		}
		return txscript.CalcTapscriptSignaturehash(hc, ht, tx, s.sp.ctx.Idx, fetcher, leaf, opts...)
	case 3:
		hc := txscript.NewTxSigHashes(tx, fetcher)
		if e.B[0] != 0 && !validTapHashType(e.B[0]) {
			h := sha256.Sum256([]byte("undefined taproot hash type"))
			return h[:], nil
		}
		// (a key path signature committing to an annex, code 4, cannot be built
		// with the exported API: such elements are never valid)
		return txscript.CalcTaprootSignatureHash(hc, ht, tx, s.sp.ctx.Idx, fetcher)
	case 4:
		h := sha256.Sum256([]byte("key path signature with annex is not supported by the binder"))
		return h[:], nil
	}
	return nil, fmt.Errorf("unknown sigversion code %d", svc)
}

func validTapHashType(ht int) bool {
	switch ht {
	case 0, 1, 2, 3, 0x81, 0x82, 0x83:
		return true
	}
	return false
}

// shapeBody returns the malformed / degenerate DER bodies of ScriptVM.tla
// ShapeBody (without the hash type byte).
func shapeBody(cls int) ([]byte, error) {
	switch cls {
	case 10:
		return []byte{0x30, 0x04, 0x02, 0x01, 0x01, 0x02}, nil
	case 11:
		b := []byte{0x30, 0x47, 0x02, 0x23, 0x00, 0x00, 0x00}
		b = append(b, bytes.Repeat([]byte{0x11}, 32)...)
		b = append(b, 0x02, 0x20)
		return append(b, bytes.Repeat([]byte{0x11}, 32)...), nil
	case 12:
		return []byte{0x31, 0x06, 0x02, 0x01, 0x01, 0x02, 0x01, 0x01}, nil
	case 13:
		return []byte{0x30, 0x07, 0x02, 0x01, 0x01, 0x02, 0x01, 0x01}, nil
	case 14:
		return []byte{0x30, 0x06, 0x03, 0x01, 0x01, 0x02, 0x01, 0x01}, nil
	case 15:
		return []byte{0x30, 0x06, 0x02, 0x00, 0x02, 0x02, 0x01, 0x01}, nil
	case 16:
		return []byte{0x30, 0x06, 0x02, 0x01, 0x81, 0x02, 0x01, 0x01}, nil
	case 17:
		return []byte{0x30, 0x07, 0x02, 0x02, 0x00, 0x01, 0x02, 0x01, 0x01}, nil
	case 18:
		return []byte{0x30, 0x06, 0x02, 0x01, 0x01, 0x03, 0x01, 0x01}, nil
	case 19:
		return []byte{0x30, 0x06, 0x02, 0x02, 0x01, 0x01, 0x02, 0x00}, nil
	case 20:
		return []byte{0x30, 0x06, 0x02, 0x01, 0x01, 0x02, 0x01, 0x81}, nil
	case 21:
		return []byte{0x30, 0x07, 0x02, 0x01, 0x01, 0x02, 0x02, 0x00, 0x01}, nil
	case 22:
		return []byte{0x30, 0x06, 0x02, 0x03, 0x01, 0x01, 0x01, 0x02}, nil
	case 23:
		return []byte{0x30, 0x06, 0x02, 0x05, 0x01, 0x01, 0x01, 0x01}, nil
	case 24:
		return []byte{0x30, 0x06, 0x02, 0x01, 0x01, 0x02, 0x02, 0x01}, nil
	case 25:
		return []byte{0x30, 0x06, 0x02, 0x01, 0x01, 0x02, 0x00, 0x01}, nil
	case 26:
		return []byte{0x30, 0x06, 0x02, 0xff, 0x01, 0x01, 0x01, 0x01}, nil
	case 27:
		return []byte{0x30, 0x06, 0x02, 0x01, 0x01, 0x02, 0x01, 0x01}, nil
	}
	return nil, fmt.Errorf("unknown signature shape class %d", cls)
}

// make produces the signature bytes of element e over digest.
func (s *signer) make(e *Elem, digest []byte) ([]byte, error) {
	ht, cls := e.B[0], e.B[1]
	if cls >= 30 && cls <= 33 {
		// strict DER, every encoding rule satisfied, but R or S is 0 or the group order
		fine := bytes.Repeat([]byte{0x11}, 32)
		order := append([]byte{0x00}, btcec.S256().N.Bytes()...)
		r, sv := fine, fine
		switch cls {
		case 30:
			r = []byte{0x00}
		case 31:
			sv = []byte{0x00}
		case 32:
			r = order
		case 33:
			sv = order
		}
		body := append([]byte{0x02, byte(len(r))}, r...)
		body = append(body, 0x02, byte(len(sv)))
		body = append(body, sv...)
		out := append([]byte{0x30, byte(len(body))}, body...)
		return append(out, byte(ht)), nil
	}
	if cls >= 10 && cls < 64 {
		b, err := shapeBody(cls)
		if err != nil {
			return nil, err
		}
		return append(append([]byte{}, b...), byte(ht)), nil
	}
	var priv = s.b.w.key(e.K)
	if e.K == "TAP" {
		if s.tapPriv == nil {
			return nil, fmt.Errorf("signature by the taproot output key outside a taproot spend")
		}
		priv = s.tapPriv
	}
	if cls == 64 {
		sig, err := schnorr.Sign(priv, digest)
		if err != nil {
			return nil, err
		}
		out := sig.Serialize()
		if ht != 0 {
			out = append(out, byte(ht))
		}
		return out, nil
	}
	return ecdsaSigBytes(priv, digest, cls, byte(ht), e.key)
}

// resolve fixes the signatures the program itself pushes (they are part of
// the script every other signature commits to).
func (s *signer) resolve(init []*Elem) error {
	s.inScript = map[*Elem][]byte{}
	var own []*Elem
	seen := map[*Elem]bool{}
	for _, t := range s.prog {
		if t.Op == "PUSH" && t.E.T == "sig" && !seen[t.E] {
			seen[t.E] = true
			own = append(own, t.E)
		}
	}
	if len(own) > 1 {
		return fmt.Errorf("binder supports one distinct signature element pushed by a program, got %d", len(own))
	}
	script, _, err := s.cc.script(s.prog)
	if err != nil {
		return err
	}
	for _, e := range own {
		ph, _ := s.placeholder(e)
		constructible := false
		if s.mode == "b" && e.B[2] == 0 {
			// every push of e inside the signed region must be one FindAndDelete removes
			constructible = true
			pat := smallestPush(ph)
			for i := e.B[3]; i < len(s.prog) && i >= 0; i++ {
				t := s.prog[i]
				if t.Op == "PUSH" && t.E == e && !bytes.Equal(script[s.offs[i]:s.offs[i+1]], pat) {
					constructible = false
				}
			}
		} else if e.B[2] == 1 {
			// v0 signs the code after the separator: a push of e before it is not covered
			constructible = true
			for i := e.B[3]; i < len(s.prog) && i >= 0; i++ {
				if t := s.prog[i]; t.Op == "PUSH" && t.E == e {
					constructible = false
				}
			}
		}
		var dg []byte
		if constructible {
			dg, err = s.digest(e, script, ph)
			if err != nil {
				return err
			}
		} else {
			h := sha256.Sum256([]byte("a signature cannot sign itself"))
			dg = h[:]
		}
		sb, err := s.make(e, dg)
		if err != nil {
			return err
		}
		s.inScript[e] = sb
	}
	s.script, _, err = s.cc.script(s.prog)
	return err
}

// final signs the elements that come from outside the program.
func (s *signer) final(e *Elem) ([]byte, error) {
	if b, ok := s.inScript[e]; ok {
		return b, nil
	}
	script := s.script
	if script == nil {
		var err error
		script, _, err = s.cc.script(s.prog)
		if err != nil {
			return nil, err
		}
	}
	ph, _ := s.placeholder(e)
	dg, err := s.digest(e, script, ph)
	if err != nil {
		return nil, err
	}
	return s.make(e, dg)
}
