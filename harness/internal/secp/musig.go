package secp

// Binding of spec/secp/Musig2.tla: TLC checks the toy-group invariants
// exhaustively on small configurations and dumps random behaviours
// (-simulate) of the full protocol; every behaviour is replayed into the real
// musig2 package with real keys that have the behaviour's SHAPE (which
// signers share a key or hold negated keys, ordering, sort flag, tweak kinds,
// zero tweaks, a tweak that hits infinity, public nonce sums at infinity,
// corrupted partial signatures, call order).  What each call must return is
// read from the `last` variable of the specification's state.  Aggregate
// keys, accumulators, nonces, partial and final signatures are additionally
// compared with the independent BIP327 reference of ref327.go.

import (
	"bytes"
	"errors"
	"fmt"
	"math/big"
	"math/rand"
	"strings"
	"sync"
	"time"

	"github.com/btcsuite/btcd/btcec/v2"
	"github.com/btcsuite/btcd/btcec/v2/schnorr"
	"github.com/btcsuite/btcd/btcec/v2/schnorr/musig2"

	"verif/harness/internal/tla"
	"verif/harness/internal/tlc"
	"verif/harness/internal/vrun"
)

const musigInvariants = "INVARIANTS TypeOK HonestPartialsVerify CorruptedPartialRejected AggregateVerifies CorruptedAggregateFails EvaluateSound SessionFinalSound AccumulatorsSound AggregateIsFunction\nPROPERTY SignOnce\n"

type musigCfg struct {
	name                                         string
	q, signers, tweaks, noise                    int
	keys, coefs, tvals, n1, n2, bvals, evals     []int
	sorts                                        []bool
	apis, taps                                   []string
	faults                                       bool
	sim                                          *tlc.Sim
	lightInv                                     bool
	timeout                                      time.Duration
}

func intSet(v []int) string {
	var s []string
	for _, x := range v {
		s = append(s, fmt.Sprint(x))
	}
	return "{" + strings.Join(s, ", ") + "}"
}

func strSet(v []string) string {
	var s []string
	for _, x := range v {
		s = append(s, `"`+x+`"`)
	}
	return "{" + strings.Join(s, ", ") + "}"
}

func boolSet(v []bool) string {
	var s []string
	for _, x := range v {
		if x {
			s = append(s, "TRUE")
		} else {
			s = append(s, "FALSE")
		}
	}
	return "{" + strings.Join(s, ", ") + "}"
}

func seq(a, b int) []int {
	var o []int
	for i := a; i <= b; i++ {
		o = append(o, i)
	}
	return o
}

func (c musigCfg) text() string {
	f := "FALSE"
	if c.faults {
		f = "TRUE"
	}
	inv := musigInvariants
	if c.lightInv {
		inv = "INVARIANTS TypeOK EvaluateSound AggregateIsFunction\n"
	}
	return fmt.Sprintf("CONSTANTS\n Q = %d\n MaxSigners = %d\n MaxTweaks = %d\n KeyVals = %s\n CoefVals = %s\n TweakVals = %s\n Nonce1Vals = %s\n Nonce2Vals = %s\n BVals = %s\n EVals = %s\n SortVals = %s\n Apis = %s\n TapApis = %s\n Faults = %s\n MaxNoise = %d\nINIT Init\nNEXT Next\n%s",
		c.q, c.signers, c.tweaks, intSet(c.keys), intSet(c.coefs), intSet(c.tvals), intSet(c.n1), intSet(c.n2), intSet(c.bvals), intSet(c.evals),
		boolSet(c.sorts), strSet(c.apis), strSet(c.taps), f, c.noise, inv)
}

func musigConfigs(ctx *vrun.Ctx) []musigCfg {
	all5 := seq(0, 4)
	nz5 := seq(1, 4)
	gen := []string{"generic"}
	var cs []musigCfg
	// algebra, raw API, every value of the listed ranges
	if !ctx.Thorough {
		cs = append(cs, musigCfg{name: "algebra-2signers", q: 5, signers: 2, tweaks: 2, keys: nz5, coefs: []int{0, 3}, tvals: []int{2}, n1: nz5, n2: []int{1},
			bvals: all5, evals: []int{2}, sorts: []bool{false}, apis: []string{"raw"}, taps: gen})
		cs = append(cs, musigCfg{name: "session-2signers", q: 5, signers: 2, tweaks: 0, noise: 1, keys: []int{1, 3}, coefs: []int{2}, tvals: []int{1}, n1: []int{1, 4}, n2: []int{1, 4},
			bvals: []int{1}, evals: []int{2}, sorts: []bool{false}, apis: []string{"session"}, taps: gen, faults: true})
	} else {
		cs = append(cs, musigCfg{name: "algebra-2signers", q: 5, signers: 2, tweaks: 2, keys: nz5, coefs: all5, tvals: []int{1, 3}, n1: nz5, n2: []int{1, 2},
			bvals: all5, evals: []int{2}, sorts: []bool{false}, apis: []string{"raw"}, taps: gen, timeout: 28 * time.Minute})
		cs = append(cs, musigCfg{name: "algebra-3signers", q: 5, signers: 3, tweaks: 1, keys: nz5, coefs: []int{0, 2, 3}, tvals: []int{3}, n1: []int{1, 2, 4}, n2: []int{1},
			bvals: all5, evals: []int{2}, sorts: []bool{false}, apis: []string{"raw"}, taps: gen, timeout: 28 * time.Minute})
		cs = append(cs, musigCfg{name: "algebra-q7-sorted-faults", q: 7, signers: 2, tweaks: 1, keys: seq(1, 6), coefs: []int{0, 3, 5}, tvals: []int{0, 2, 5}, n1: []int{1, 3, 5}, n2: []int{1},
			bvals: seq(0, 6), evals: []int{3}, sorts: []bool{true}, apis: []string{"raw"}, taps: gen, faults: true, timeout: 28 * time.Minute})
		cs = append(cs, musigCfg{name: "session-2signers", q: 5, signers: 2, tweaks: 1, noise: 1, keys: []int{1, 3}, coefs: []int{2}, tvals: []int{1}, n1: []int{1, 4}, n2: []int{1, 4},
			bvals: []int{1}, evals: []int{2}, sorts: []bool{false}, apis: []string{"session"}, taps: gen, faults: true, timeout: 28 * time.Minute})
	}
	// random behaviours of the whole protocol for the replay
	for i, q := range []int{5, 7} {
		n, chunks := []int{260, 200}[i], 1
		if ctx.Thorough {
			n, chunks = 500, []int{4, 3}[i]
		}
		for ch := 0; ch < chunks; ch++ {
			cs = append(cs, musigCfg{name: fmt.Sprintf("replay-q%d-%d", q, ch), q: q, signers: 3, tweaks: 2, noise: 4, keys: seq(1, q-1), coefs: seq(0, q-1), tvals: seq(0, q-1),
				n1: seq(1, q-1), n2: seq(1, q-1), bvals: seq(0, q-1), evals: seq(0, q-1), sorts: []bool{false, true}, apis: []string{"session", "raw"},
				taps: []string{"generic", "taproot", "bip86"}, faults: true, lightInv: true,
				sim: &tlc.Sim{Num: n, Depth: 70, Seed: ctx.Seed*101 + int64(i)*7 + int64(ch)*1009 + 3}, timeout: 25 * time.Minute})
		}
	}
	return cs
}

func runMusig(ctx *vrun.Ctx) error {
	cfgs := musigConfigs(ctx)
	type out struct {
		res *tlc.Result
		err error
	}
	outs := make([]out, len(cfgs))
	var wg sync.WaitGroup
	par := 4
	if ctx.Thorough {
		par = 5
	}
	sem := make(chan struct{}, par)
	for i := range cfgs {
		wg.Add(1)
		go func(i int) {
			defer wg.Done()
			sem <- struct{}{}
			defer func() { <-sem }()
			c := cfgs[i]
			to := c.timeout
			if to == 0 {
				to = 10 * time.Minute
			}
			w := 3
			if c.sim != nil {
				w = 1
			}
			res, err := tlc.Run(tlc.Opts{SpecDir: ctx.SpecDir("secp"), Module: "Musig2", CfgText: c.text(), Workers: w, Timeout: to,
				Sim: c.sim, Scratch: ctx.Scratch, HeapGB: 4}) // no -coverage: unusably slow on the recursive sums; see the action census below
			outs[i] = out{res, err}
		}(i)
	}
	wg.Wait()
	type behT struct {
		states []tlc.TraceState
		q      int
	}
	var behs []behT
	acts := map[string]int64{}
	for i, c := range cfgs {
		res, err := outs[i].res, outs[i].err
		if err != nil {
			return fmt.Errorf("musig2 %s: %w", c.name, err)
		}
		if !res.OK {
			return fmt.Errorf("musig2 %s: the specification violates its own %s %s", c.name, res.ErrKind, res.ErrName)
		}
		if c.sim != nil {
			ctx.AddModel(0, res.Generated)
			for _, b := range res.Behaviours {
				behs = append(behs, behT{b, c.q})
			}
			ctx.Logf("musig2 %s: %d behaviours simulated (%d states, %.0fs)", c.name, len(res.Behaviours), res.Generated, res.WallS)
			continue
		}
		ctx.AddModel(res.Distinct, res.Generated)
		ctx.AddExtra("musig2_exhaustive_states", res.Distinct)
		ctx.Logf("musig2 %s: invariants hold on %d distinct states (%d generated, depth %d, %.0fs)", c.name, res.Distinct, res.Generated, res.Depth, res.WallS)
	}
	// vacuity: every action of the specification occurs in the behaviours (census by `last.act`)
	for _, b := range behs {
		for _, st := range b.states {
			acts[st.State["last"].F("act").Str()]++
		}
	}
	for _, a := range []string{"ChooseKeys", "ChooseVals", "ChooseCoef", "AddTweak", "Setup", "GenNonce", "NoncesDone", "ChooseHash", "Evaluate",
		"RegisterPubNonce", "RegisterCombinedNonce", "Sign", "Verify", "VerifyCorrupted", "CombineSig", "CombineCorrupted", "AggregateKeysAgain"} {
		if acts[a] == 0 {
			return fmt.Errorf("musig2: vacuity: action %s never taken in the simulated behaviours", a)
		}
	}
	if len(behs) == 0 {
		return fmt.Errorf("musig2: no behaviours to replay")
	}
	// replay
	var mu sync.Mutex
	stats := map[string]int{}
	var herr error
	ctx.Parallel(len(behs), func(i int) {
		st, err := replayMusig(ctx, behs[i].states, i)
		mu.Lock()
		for k, v := range st {
			stats[k] += v
		}
		if err != nil && herr == nil {
			herr = err
		}
		mu.Unlock()
	})
	if herr != nil {
		return herr
	}
	for _, need := range []string{"replayed", "api:session", "api:raw", "setup:ok", "setup:fail:tweak-infinity", "nonce:generic", "nonce:bothinf", "nonce:r1inf", "nonce:r2inf",
		"shape:dup", "shape:neg", "sort:true", "tweak:xonly", "tweak:plain", "tweak:zero", "tapi:taproot", "tapi:bip86",
		"call:Sign/ok", "call:Sign/refused:nonce-reuse", "call:CombineSig/final-valid", "call:CombineCorrupted/final-invalid", "call:VerifyCorrupted/false", "call:Verify/true",
		"call:RegisterPubNonce/have-all", "call:RegisterCombinedNonce/ok", "call:Evaluate", "call:AggregateKeysAgain/same", "signers:1", "signers:2", "signers:3", "final:bothinf-invalid"} {
		if stats[need] == 0 {
			return fmt.Errorf("musig2: vacuity: the replayed behaviours contain no %q (stats %v)", need, stats)
		}
	}
	ctx.AddTraces(int64(stats["replayed"]))
	ctx.AddExtra("musig2_behaviours_replayed", int64(stats["replayed"]))
	ctx.AddExtra("musig2_behaviours_unrealisable", int64(stats["unrealisable"]))
	ctx.AddExtra("musig2_calls_replayed", int64(stats["calls"]))
	ctx.Logf("musig2: %d behaviours replayed into musig2 (%d API calls compared; %d behaviours need a hash collision to realise and were skipped)",
		stats["replayed"], stats["calls"], stats["unrealisable"])
	return nil
}

// ---- concretisation --------------------------------------------------------

type twk struct {
	xo bool
	t  int
}

type msigner struct {
	d      *big.Int
	P      pt
	priv   *btcec.PrivateKey
	pub    *btcec.PublicKey
	ctx    *musig2.Context
	sess   *musig2.Session
	nonces *musig2.Nonces // known secret nonce (nil: generated inside the session)
	pubN   [musig2.PubNonceSize]byte
	psig   *musig2.PartialSignature
}

type mrun struct {
	ctx     *vrun.Ctx
	rng     *rand.Rand
	id      string
	api     string
	sort    bool
	u       int
	tapi    string
	tws     []twk
	root    []byte
	sg      []*msigner
	msg     [32]byte
	refPks  [][]byte   // reference key list in the order KeyAgg sees it
	refTw   []tweak327 // reference tweak chain
	kc      *keyAggCtx
	q0      pt
	descs   []musig2.KeyTweakDesc
	replay  map[string]any
	nshape  string
	evalCnt int64
	// option VALUES are built once per behaviour and reused for every call:
	// a call must not consume or alter them
	aggOptV  []musig2.KeyAggOption
	ctxOptV  []musig2.ContextOption
	signOptV []musig2.SignOption
	combOptV []musig2.CombineOption
}

func (m *mrun) viol(key, what string) {
	m.replay["id"] = m.id
	m.ctx.Violation(key, what, m.replay)
}

func (m *mrun) pubs() []*btcec.PublicKey {
	out := make([]*btcec.PublicKey, m.u)
	for i, s := range m.sg {
		out[i] = s.pub
	}
	return out
}

func (m *mrun) ctxTweakOpt() []musig2.ContextOption {
	if m.ctxOptV == nil {
		m.ctxOptV = append([]musig2.ContextOption{}, m.mkCtxTweakOpt()...)
	}
	return append([]musig2.ContextOption{}, m.ctxOptV...)
}

func (m *mrun) mkCtxTweakOpt() []musig2.ContextOption {
	switch {
	case m.tapi == "taproot":
		return []musig2.ContextOption{musig2.WithTaprootTweakCtx(m.root)}
	case m.tapi == "bip86":
		return []musig2.ContextOption{musig2.WithBip86TweakCtx()}
	case len(m.descs) > 0:
		return []musig2.ContextOption{musig2.WithTweakedContext(m.descs...)}
	}
	return nil
}

func (m *mrun) keyAggOpts() []musig2.KeyAggOption {
	if m.aggOptV == nil {
		m.aggOptV = append([]musig2.KeyAggOption{}, m.mkKeyAggOpts()...)
	}
	return append([]musig2.KeyAggOption{}, m.aggOptV...)
}

func (m *mrun) mkKeyAggOpts() []musig2.KeyAggOption {
	switch {
	case m.tapi == "taproot":
		return []musig2.KeyAggOption{musig2.WithTaprootKeyTweak(m.root)}
	case m.tapi == "bip86":
		return []musig2.KeyAggOption{musig2.WithBIP86KeyTweak()}
	case len(m.descs) > 0:
		return []musig2.KeyAggOption{musig2.WithKeyTweaks(append([]musig2.KeyTweakDesc(nil), m.descs...)...)}
	}
	return nil
}

func (m *mrun) signOpts() []musig2.SignOption {
	if m.signOptV == nil {
		m.signOptV = append([]musig2.SignOption{}, m.mkSignOpts()...)
	}
	return append([]musig2.SignOption{}, m.signOptV...)
}

func (m *mrun) mkSignOpts() []musig2.SignOption {
	var o []musig2.SignOption
	if m.sort {
		o = append(o, musig2.WithSortedKeys())
	}
	switch {
	case m.tapi == "taproot":
		o = append(o, musig2.WithTaprootSignTweak(m.root))
	case m.tapi == "bip86":
		o = append(o, musig2.WithBip86SignTweak())
	case len(m.descs) > 0:
		o = append(o, musig2.WithTweaks(m.descs...))
	}
	return o
}

func (m *mrun) combineOpts() []musig2.CombineOption {
	if m.combOptV == nil {
		m.combOptV = append([]musig2.CombineOption{}, m.mkCombineOpts()...)
	}
	return append([]musig2.CombineOption{}, m.combOptV...)
}

func (m *mrun) mkCombineOpts() []musig2.CombineOption {
	switch {
	case m.tapi == "taproot":
		return []musig2.CombineOption{musig2.WithTaprootTweakedCombine(m.msg, m.pubs(), m.root, m.sort)}
	case m.tapi == "bip86":
		return []musig2.CombineOption{musig2.WithBip86TweakedCombine(m.msg, m.pubs(), m.sort)}
	case len(m.descs) > 0:
		return []musig2.CombineOption{musig2.WithTweakedCombine(m.msg, m.pubs(), m.descs, m.sort)}
	}
	return nil
}

func randScalar(rng *rand.Rand) *big.Int {
	v := new(big.Int).Rand(rng, new(big.Int).Sub(bigN, big1))
	return v.Add(v, big1)
}

// replayMusig replays one behaviour; the returned map counts what it covered.
func replayMusig(ctx *vrun.Ctx, beh []tlc.TraceState, idx int) (st map[string]int, herr error) {
	st = map[string]int{}
	if len(beh) == 0 {
		return st, nil
	}
	fin := beh[len(beh)-1].State
	var setup, noncesDone, hash, vals tla.Value
	var calls []tla.Value
	again := 0
	haveSetup := false
	for _, s := range beh {
		l := s.State["last"]
		switch l.F("act").Str() {
		case "AggregateKeysAgain":
			if l.F("res").Str() != "same" {
				return st, fmt.Errorf("musig2: the specification's AggregateAgain reports %q", l.F("res").Str())
			}
			again++
		case "ChooseVals":
			vals = l
		case "Setup":
			setup, haveSetup = l, true
		case "NoncesDone":
			noncesDone = l
		case "ChooseHash":
			hash = l
		case "RegisterPubNonce", "RegisterCombinedNonce", "Sign", "Verify", "VerifyCorrupted", "CombineSig", "CombineCorrupted", "Evaluate":
			calls = append(calls, l)
		}
	}
	if !haveSetup {
		st["incomplete"]++
		return st, nil
	}
	m := &mrun{ctx: ctx, rng: ctx.Rand(fmt.Sprintf("musig|%d", idx)), id: fmt.Sprintf("behaviour %d", idx), api: fin["api"].Str(), sort: fin["sort"].Bool(), tapi: fin["tapi"].Str()}
	keys := fin["keys"].Ints()
	dv := fin["d"].Ints()
	m.u = len(keys)
	for _, t := range fin["tw"].Seq() {
		m.tws = append(m.tws, twk{xo: t.At(1).Bool(), t: t.At(2).Int()})
	}
	setupRes := setup.F("res").Str()
	failStep := setup.F("j").Int()
	m.replay = map[string]any{"spec_final_state": fin.Go(), "setup": setupRes}
	var callLog []string
	m.replay["calls"] = &callLog
	defer func() {
		if r := recover(); r != nil {
			m.viol("musig:panic", fmt.Sprintf("panic while replaying %s: %v", m.id, r))
		}
	}()
	// unrealisable: the aggregate key or a hash-derived tweak hits infinity
	if setupRes == "fail:aggregate-infinity" || (setupRes == "fail:tweak-infinity" && m.tapi != "generic") {
		st["unrealisable"]++
		return st, nil
	}
	// --- keys: distinct ids -> distinct keys, negated pairs preserved
	real := map[int]*big.Int{}
	for id := 1; id <= 3; id++ {
		if dv[id-1] == 0 {
			continue
		}
		var v *big.Int
		for _, pr := range vals.F("res").Set() { // pairs of ids whose keys are negations of each other
			if pr.At(2).Int() == id && real[pr.At(1).Int()] != nil {
				v = negN(real[pr.At(1).Int()])
				st["shape:neg"]++
			}
		}
		if v == nil {
			switch m.rng.Intn(8) {
			case 0:
				v = bn(int64(1 + m.rng.Intn(3)))
			case 1:
				v = new(big.Int).Sub(bigN, bn(int64(1+m.rng.Intn(3))))
			default:
				v = randScalar(m.rng)
			}
			for j := 1; j < id; j++ { // keep ids distinct and unrelated unless the shape says so
				if real[j] != nil && (real[j].Cmp(v) == 0 || negN(real[j]).Cmp(v) == 0) {
					v = randScalar(m.rng)
				}
			}
		}
		real[id] = v
	}
	seenID := map[int]bool{}
	for _, id := range keys {
		if seenID[id] {
			st["shape:dup"]++
		}
		seenID[id] = true
		d := real[id]
		s := &msigner{d: d, P: baseMul(d), priv: privObj(d)}
		s.pub = s.priv.PubKey()
		if !bytes.Equal(s.pub.SerializeCompressed(), s.P.compressed()) {
			m.viol("musig:pubkey-of-privkey", fmt.Sprintf("PrivateKey(%x).PubKey() is not d G", d))
			return st, nil
		}
		m.sg = append(m.sg, s)
	}
	st[fmt.Sprintf("signers:%d", m.u)]++
	st["api:"+m.api]++
	if m.sort {
		st["sort:true"]++
	}
	m.rng.Read(m.msg[:])
	// --- reference key aggregation
	for _, s := range m.sg {
		m.refPks = append(m.refPks, s.P.compressed())
	}
	if m.sort {
		m.refPks = refKeySort(m.refPks)
	}
	kc0, err := refKeyAgg(m.refPks, nil)
	if err != nil {
		return st, fmt.Errorf("musig2: reference KeyAgg fails on real keys (%s)", m.id)
	}
	m.q0 = kc0.Q
	// discrete logarithm of the aggregate key, to aim a tweak at infinity
	dl := bn(0)
	for _, pk := range m.refPks {
		for _, s := range m.sg {
			if bytes.Equal(s.P.compressed(), pk) {
				dl = addN(dl, mulN(refKeyAggCoeff(m.refPks, pk), s.d))
				break
			}
		}
	}
	if !baseMul(dl).eq(m.q0) {
		return st, fmt.Errorf("musig2: reference discrete logarithm of the aggregate key is wrong (%s)", m.id)
	}
	cur := kc0
	for i, t := range m.tws {
		var tv *big.Int
		switch {
		case setupRes == "fail:tweak-infinity" && i+1 == failStep:
			g := bn(1)
			if t.xo && !cur.Q.evenY() {
				g = new(big.Int).Sub(bigN, big1)
			}
			tv = negN(mulN(g, dl))
		case m.tapi == "taproot":
			m.root = make([]byte, 32)
			m.rng.Read(m.root)
			tv = fromB(taggedHash("TapTweak", m.q0.xonly(), m.root))
		case m.tapi == "bip86":
			tv = fromB(taggedHash("TapTweak", m.q0.xonly()))
		case t.t == 0:
			tv = bn(0)
			st["tweak:zero"]++
		case m.rng.Intn(6) == 0:
			tv = new(big.Int).Sub(bigN, big1)
		default:
			tv = randScalar(m.rng)
		}
		if tv.Cmp(bigN) >= 0 {
			st["unrealisable"]++ // a taproot hash >= n (2^-128)
			return st, nil
		}
		if t.xo {
			st["tweak:xonly"]++
		} else {
			st["tweak:plain"]++
		}
		tw := tweak327{t: b32(tv), xonly: t.xo}
		m.refTw = append(m.refTw, tw)
		var d32 [32]byte
		copy(d32[:], tw.t)
		m.descs = append(m.descs, musig2.KeyTweakDesc{Tweak: d32, IsXOnly: t.xo})
		if i+1 > failStep && setupRes == "fail:tweak-infinity" {
			continue
		}
		g := bn(1)
		if t.xo && !cur.Q.evenY() {
			g = new(big.Int).Sub(bigN, big1)
		}
		dl = addN(mulN(g, dl), tv)
		if next, err := refApplyTweak(cur, tw); err == nil {
			cur = next
		} else if !(setupRes == "fail:tweak-infinity" && i+1 == failStep) {
			return st, fmt.Errorf("musig2: reference ApplyTweak fails unexpectedly (%s)", m.id)
		}
	}
	if m.tapi != "generic" {
		st["tapi:"+m.tapi]++
	}
	m.replay["keys"] = func() []string {
		var o []string
		for _, s := range m.sg {
			o = append(o, hx(b32(s.d)))
		}
		return o
	}()
	m.replay["tweaks"] = func() []string {
		var o []string
		for _, t := range m.refTw {
			o = append(o, fmt.Sprintf("%x xonly=%v", t.t, t.xonly))
		}
		return o
	}()
	m.replay["msg"] = hx(m.msg[:])
	m.kc, err = refKeyAgg(m.refPks, m.refTw)
	refFails := err != nil
	if refFails != (setupRes != "ok") {
		return st, fmt.Errorf("musig2: reference KeyAgg (fails=%v) disagrees with the specification's %s (%s)", refFails, setupRes, m.id)
	}
	st["setup:"+setupRes]++
	st["replayed"]++
	// --- Setup on the real package: raw AggregateKeys ...
	aggKey, gacc, tacc, err := musig2.AggregateKeys(m.pubs(), m.sort, m.keyAggOpts()...)
	m.evalCnt++
	if setupRes != "ok" {
		if err == nil {
			m.viol("musig:AggregateKeys:tweak-to-infinity-accepted", fmt.Sprintf("AggregateKeys returns no error though tweak %d takes the aggregate key to the point at infinity (BIP327 ApplyTweak must fail)", failStep))
			return st, nil
		}
		if !errors.Is(err, musig2.ErrTweakedKeyIsInfinity) {
			m.viol("musig:AggregateKeys:wrong-error", fmt.Sprintf("AggregateKeys fails with %v, expected the tweaked-key-is-infinity error", err))
			return st, nil
		}
		// ... and the context
		_, cerr := musig2.NewContext(m.sg[0].priv, m.sort, append(m.ctxTweakOpt(), musig2.WithKnownSigners(m.pubs()))...)
		m.evalCnt++
		if cerr == nil {
			m.viol("musig:NewContext:tweak-to-infinity-accepted", "NewContext returns no error though a tweak takes the aggregate key to the point at infinity")
		}
		ctx.AddEval(m.evalCnt)
		return st, nil
	}
	if err != nil {
		m.viol("musig:AggregateKeys:error", fmt.Sprintf("AggregateKeys fails: %v", err))
		return st, nil
	}
	if !m.checkAgg(aggKey, gacc, tacc) {
		return st, nil
	}
	// AggregateKeys is a function of its arguments: asked again with the very same
	// option values (once more in any case, and once per AggregateAgain step of the
	// behaviour) it returns the same key and accumulators
	for i := 0; i <= again; i++ {
		k2, g2, t2, err := musig2.AggregateKeys(m.pubs(), m.sort, m.keyAggOpts()...)
		m.evalCnt++
		if err != nil {
			m.viol("musig:AggregateKeys:not-a-function", fmt.Sprintf("AggregateKeys call #%d with the same option values fails: %v", i+2, err))
			return st, nil
		}
		if !bytes.Equal(k2.FinalKey.SerializeCompressed(), aggKey.FinalKey.SerializeCompressed()) || !g2.Equals(gacc) || !t2.Equals(tacc) {
			m.viol("musig:AggregateKeys:not-a-function", fmt.Sprintf("AggregateKeys call #%d with the very same keys and option values returns %x, the first call returned %x (BIP327: %x)",
				i+2, k2.FinalKey.SerializeCompressed(), aggKey.FinalKey.SerializeCompressed(), m.kc.Q.compressed()))
			return st, nil
		}
		if !m.checkAgg(k2, g2, t2) {
			return st, nil
		}
	}
	if again > 0 {
		st["call:AggregateKeysAgain/same"] += again
	}
	// --- nonce shape
	if !noncesDone.Has("res") {
		ctx.AddEval(m.evalCnt)
		return st, nil // the behaviour ends before the nonces are complete: only Setup was replayed
	}
	m.nshape = "generic"
	if noncesDone.Has("res") {
		m.nshape = noncesDone.F("res").Str()
	}
	if hash.Has("res") && hash.F("res").Str() == "rprime-infinity" && m.nshape != "bothinf" {
		st["unrealisable"]++ // R1 + b R2 = 0 with R2 # 0 needs b = -R1/R2
		ctx.AddEval(m.evalCnt)
		return st, nil
	}
	if !hash.Has("res") {
		ctx.AddEval(m.evalCnt)
		return st, nil
	}
	st["nonce:"+m.nshape]++
	defer func() { ctx.AddEval(m.evalCnt); st["calls"] += int(m.evalCnt) }()
	if m.api == "raw" {
		ctx.Distinct(fmt.Sprintf("musig|raw|%v|%v|%v|%s|%s|%v", keys, m.sort, m.tws, m.tapi, m.nshape, calls))
		for _, c := range calls {
			if c.F("act").Str() == "Evaluate" {
				st["call:Evaluate"]++
				callLog = append(callLog, c.String())
				return st, m.evaluateRaw(c, st)
			}
		}
		return st, nil
	}
	if !m.openSessions() {
		return st, nil
	}
	sig := fmt.Sprintf("%s|%v|%v|%v|%s|%s|%s", m.api, keys, m.sort, m.tws, m.tapi, setupRes, m.nshape)
	for _, c := range calls {
		sig += "|" + c.F("act").Str() + fmt.Sprint(c.F("p").Int(), c.F("j").Int()) + c.F("res").Str()
	}
	ctx.Distinct("musig|" + sig)
	if len(calls) >= 8 && m.u >= 2 && len(m.tws) > 0 && idx%7 == 0 {
		var cl []string
		for _, c := range calls {
			cl = append(cl, c.String())
		}
		ctx.Sample(map[string]any{"spec": "Musig2", "signer_key_ids": keys, "toy_private_keys": dv, "sort": m.sort, "tweak_chain_xonly_t": fmt.Sprint(m.tws), "tweak_api": m.tapi,
			"setup": setupRes, "nonce_sums": m.nshape, "calls_and_required_results": cl, "real_keys": m.replay["keys"]})
	}
	for _, c := range calls {
		callLog = append(callLog, c.String())
		ok, err := m.sessionCall(c, st)
		if err != nil {
			return st, err
		}
		if !ok {
			return st, nil
		}
		st["call:"+c.F("act").Str()+"/"+c.F("res").Str()]++
	}
	return st, nil
}

func (m *mrun) checkAgg(k *musig2.AggregateKey, gacc, tacc *btcec.ModNScalar) bool {
	m.evalCnt += 4
	if !bytes.Equal(k.FinalKey.SerializeCompressed(), m.kc.Q.compressed()) {
		m.viol("musig:AggregateKeys:final-key", fmt.Sprintf("AggregateKeys final key %x, BIP327 KeyAgg+ApplyTweak gives %x", k.FinalKey.SerializeCompressed(), m.kc.Q.compressed()))
		return false
	}
	if !bytes.Equal(k.PreTweakedKey.SerializeCompressed(), m.q0.compressed()) {
		m.viol("musig:AggregateKeys:pre-tweak-key", fmt.Sprintf("AggregateKeys pre-tweak key %x, BIP327 KeyAgg gives %x", k.PreTweakedKey.SerializeCompressed(), m.q0.compressed()))
		return false
	}
	gb, tb := gacc.Bytes(), tacc.Bytes()
	if !bytes.Equal(gb[:], b32(m.kc.gacc)) || !bytes.Equal(tb[:], b32(m.kc.tacc)) {
		m.viol("musig:AggregateKeys:accumulators", fmt.Sprintf("AggregateKeys accumulators gacc=%x tacc=%x, BIP327 gives gacc=%x tacc=%x", gb, tb, m.kc.gacc, m.kc.tacc))
		return false
	}
	return true
}

// craftNonces builds a Nonces value from known scalars with the reference.
func craftNonces(k1, k2 *big.Int, pk []byte) *musig2.Nonces {
	var n musig2.Nonces
	copy(n.SecNonce[:32], b32(k1))
	copy(n.SecNonce[32:64], b32(k2))
	copy(n.SecNonce[64:], pk)
	copy(n.PubNonce[:33], baseMul(k1).compressed())
	copy(n.PubNonce[33:], baseMul(k2).compressed())
	return &n
}

// genNonces calls musig2.GenNonces with a random choice of options and known
// randomness, and compares the result with BIP327 NonceGen.
func (m *mrun) genNonces(s *msigner) (*musig2.Nonces, bool) {
	var rnd [32]byte
	m.rng.Read(rnd[:])
	opts := []musig2.NonceGenOption{musig2.WithCustomRand(bytes.NewReader(rnd[:])), musig2.WithPublicKey(s.pub)}
	var sk, aggpk, msg, extra []byte
	if m.rng.Intn(2) == 0 {
		sk = b32(s.d)
		opts = append(opts, musig2.WithNonceSecretKeyAux(s.priv))
	}
	if m.rng.Intn(2) == 0 {
		aggpk = m.kc.Q.xonly()
		opts = append(opts, musig2.WithNonceCombinedKeyAux(pubObj(m.kc.Q)))
	}
	if m.rng.Intn(2) == 0 {
		msg = m.msg[:]
		opts = append(opts, musig2.WithNonceMessageAux(m.msg))
	}
	if m.rng.Intn(2) == 0 {
		extra = make([]byte, m.rng.Intn(40))
		m.rng.Read(extra)
		opts = append(opts, musig2.WithNonceAuxInput(extra))
	}
	n, err := musig2.GenNonces(opts...)
	m.evalCnt++
	if err != nil {
		m.viol("musig:GenNonces:error", fmt.Sprintf("GenNonces fails: %v", err))
		return nil, false
	}
	// (BIP327's exact NonceGen derivation is not part of the property; what is: the
	// public nonce is the pair of points of the secret nonce, for the signer's key)
	_, _, _, _ = sk, aggpk, msg, extra
	k1, k2 := fromB(n.SecNonce[:32]), fromB(n.SecNonce[32:64])
	if k1.Sign() == 0 || k2.Sign() == 0 || k1.Cmp(bigN) >= 0 || k2.Cmp(bigN) >= 0 ||
		!bytes.Equal(n.PubNonce[:33], baseMul(k1).compressed()) || !bytes.Equal(n.PubNonce[33:], baseMul(k2).compressed()) ||
		!bytes.Equal(n.SecNonce[64:], s.P.compressed()) {
		m.viol("musig:GenNonces:inconsistent", fmt.Sprintf("GenNonces returns secnonce %x and pubnonce %x: the public nonce is not (k1 G, k2 G) or the key is not the signer's", n.SecNonce, n.PubNonce))
		return nil, false
	}
	return n, true
}

// openSessions creates one Context and Session per signer position.
func (m *mrun) openSessions() bool {
	degenerate := m.nshape != "generic"
	sum1, sum2 := bn(0), bn(0)
	for p, s := range m.sg {
		last := p == m.u-1
		// context: all signers known up front, or (where the ordering allows it)
		// registered one by one, optionally with an early nonce
		incremental := (m.sort || p == 0) && m.u > 1 && m.rng.Intn(3) == 0
		early := incremental && !(degenerate && last) && m.rng.Intn(2) == 0
		var c *musig2.Context
		var err error
		if incremental {
			opts := append(m.ctxTweakOpt(), musig2.WithNumSigners(m.u))
			if early {
				opts = append(opts, musig2.WithEarlyNonceGen())
			}
			c, err = musig2.NewContext(s.priv, m.sort, opts...)
			if err == nil {
				if _, kerr := c.CombinedKey(); !errors.Is(kerr, musig2.ErrNotEnoughSigners) {
					m.viol("musig:Context:combined-key-before-all-signers", fmt.Sprintf("CombinedKey() before all signers are registered returns %v", kerr))
					return false
				}
				if _, serr := c.NewSession(); !errors.Is(serr, musig2.ErrNotEnoughSigners) {
					m.viol("musig:Context:session-before-all-signers", fmt.Sprintf("NewSession() before all signers are registered returns %v", serr))
					return false
				}
				reg := 0
				for j, o := range m.sg {
					if j == p {
						continue
					}
					all, rerr := c.RegisterSigner(o.pub)
					reg++
					if rerr != nil || all != (reg == m.u-1) {
						m.viol("musig:Context:RegisterSigner", fmt.Sprintf("RegisterSigner #%d of %d returns (%v, %v)", reg, m.u-1, all, rerr))
						return false
					}
				}
				if _, rerr := c.RegisterSigner(s.pub); !errors.Is(rerr, musig2.ErrAlreadyHaveAllSigners) {
					m.viol("musig:Context:RegisterSigner-overflow", fmt.Sprintf("RegisterSigner beyond the announced number returns %v", rerr))
					return false
				}
			}
		} else {
			c, err = musig2.NewContext(s.priv, m.sort, append(m.ctxTweakOpt(), musig2.WithKnownSigners(m.pubs()))...)
		}
		m.evalCnt++
		if err != nil {
			m.viol("musig:NewContext:error", fmt.Sprintf("NewContext for signer %d fails: %v", p+1, err))
			return false
		}
		ck, err := c.CombinedKey()
		if err != nil || !bytes.Equal(ck.SerializeCompressed(), m.kc.Q.compressed()) {
			m.viol("musig:Context:combined-key", fmt.Sprintf("signer %d: Context.CombinedKey() = %v (err %v), BIP327 gives %x", p+1, ck, err, m.kc.Q.compressed()))
			return false
		}
		ik, ierr := c.TaprootInternalKey()
		if m.tapi != "generic" {
			if ierr != nil || !bytes.Equal(ik.SerializeCompressed(), m.q0.compressed()) {
				m.viol("musig:Context:internal-key", fmt.Sprintf("signer %d: TaprootInternalKey() is not the untweaked aggregate key (err %v)", p+1, ierr))
				return false
			}
		} else if !errors.Is(ierr, musig2.ErrTaprootInternalKeyUnavailable) {
			m.viol("musig:Context:internal-key", fmt.Sprintf("signer %d: TaprootInternalKey() without a taproot tweak returns %v", p+1, ierr))
			return false
		}
		s.ctx = c
		// nonce source
		var sopts []musig2.SessionOption
		switch {
		case degenerate && last:
			k1, k2 := randScalar(m.rng), randScalar(m.rng)
			if m.nshape == "r1inf" || m.nshape == "bothinf" {
				k1 = negN(sum1)
			}
			if m.nshape == "r2inf" || m.nshape == "bothinf" {
				k2 = negN(sum2)
			}
			if k1.Sign() == 0 || k2.Sign() == 0 {
				return false
			}
			s.nonces = craftNonces(k1, k2, s.P.compressed())
			sopts = append(sopts, musig2.WithPreGeneratedNonce(s.nonces))
		case early:
			n, eerr := c.EarlySessionNonce()
			if eerr != nil {
				m.viol("musig:Context:early-nonce", fmt.Sprintf("EarlySessionNonce() fails: %v", eerr))
				return false
			}
			s.nonces = n
		case degenerate || m.rng.Intn(2) == 0:
			n, ok := m.genNonces(s)
			if !ok {
				return false
			}
			s.nonces = n
			sopts = append(sopts, musig2.WithPreGeneratedNonce(n))
		default:
			if _, eerr := c.EarlySessionNonce(); !errors.Is(eerr, musig2.ErrNoEarlyNonce) {
				m.viol("musig:Context:early-nonce", fmt.Sprintf("EarlySessionNonce() without the option returns %v", eerr))
				return false
			}
		}
		if s.nonces != nil {
			sum1 = addN(sum1, fromB(s.nonces.SecNonce[:32]))
			sum2 = addN(sum2, fromB(s.nonces.SecNonce[32:64]))
		}
		ss, err := c.NewSession(sopts...)
		m.evalCnt++
		if err != nil {
			m.viol("musig:NewSession:error", fmt.Sprintf("NewSession for signer %d fails: %v", p+1, err))
			return false
		}
		s.sess = ss
		s.pubN = ss.PublicNonce()
		if s.nonces != nil && s.pubN != s.nonces.PubNonce {
			m.viol("musig:NewSession:nonce-not-used", fmt.Sprintf("signer %d: the session does not use the nonce it was given", p+1))
			return false
		}
		// the public nonce is two valid plain points
		if _, ok := cpoint(s.pubN[:33]); !ok {
			m.viol("musig:NewSession:pubnonce", fmt.Sprintf("signer %d: public nonce %x is not two compressed points", p+1, s.pubN))
			return false
		}
		if _, ok := cpoint(s.pubN[33:]); !ok {
			m.viol("musig:NewSession:pubnonce", fmt.Sprintf("signer %d: public nonce %x is not two compressed points", p+1, s.pubN))
			return false
		}
	}
	return true
}

func (m *mrun) pubNonces() [][]byte {
	var o [][]byte
	for _, s := range m.sg {
		o = append(o, append([]byte(nil), s.pubN[:]...))
	}
	return o
}

func (m *mrun) pubNonceArr() [][musig2.PubNonceSize]byte {
	var o [][musig2.PubNonceSize]byte
	for _, s := range m.sg {
		o = append(o, s.pubN)
	}
	return o
}

func corruptSig(p *musig2.PartialSignature) *musig2.PartialSignature {
	var one btcec.ModNScalar
	one.SetInt(1)
	s := new(btcec.ModNScalar).Set(p.S)
	s.Add(&one)
	return &musig2.PartialSignature{S: s, R: p.R}
}

func scalarBig(s *btcec.ModNScalar) *big.Int {
	b := s.Bytes()
	return fromB(b[:])
}

// checkFinal compares a final signature with the reference aggregate and the
// reference BIP340 verifier.
func (m *mrun) checkFinal(sig *schnorr.Signature, wantValid bool, sent []*big.Int, what string) bool {
	aggn, err := refNonceAgg(m.pubNonces())
	if err != nil {
		panic("reference NonceAgg fails on library nonces")
	}
	sb := sig.Serialize()
	m.evalCnt += 2
	refSig, err := refPartialSigAgg(sent, aggn, m.refPks, m.refTw, m.msg[:])
	if err != nil || !bytes.Equal(refSig, sb) {
		m.viol("musig:final:not-bip327-aggregate", fmt.Sprintf("%s: final signature %x, BIP327 PartialSigAgg gives %x (err %v)", what, sb, refSig, err))
		return false
	}
	if got := refSchnorrVerify(m.kc.Q.xonly(), m.msg[:], sb); got != wantValid {
		m.viol("musig:final:validity", fmt.Sprintf("%s: final signature %x under key %x: BIP340 verification says %v, the specification says %v", what, sb, m.kc.Q.xonly(), got, wantValid))
		return false
	}
	if got := sig.Verify(m.msg[:], pubObj(m.kc.Q)); got != wantValid {
		m.viol("musig:final:library-verify", fmt.Sprintf("%s: schnorr Verify of the final signature says %v, the specification says %v", what, got, wantValid))
		return false
	}
	return true
}

func (m *mrun) sessionCall(c tla.Value, st map[string]int) (bool, error) {
	act, want := c.F("act").Str(), c.F("res").Str()
	p, j := c.F("p").Int(), c.F("j").Int()
	s := m.sg[p-1]
	m.evalCnt++
	got := ""
	mismatch := func() (bool, error) {
		m.viol(fmt.Sprintf("musig:%s:want-%s:got-%s", act, want, got), fmt.Sprintf("%s: %s(signer %d, %d) returns %q, the specification says %q", m.id, act, p, j, got, want))
		return false, nil
	}
	switch act {
	case "RegisterPubNonce":
		all, err := s.sess.RegisterPubNonce(m.sg[j-1].pubN)
		switch {
		case errors.Is(err, musig2.ErrAlredyHaveAllNonces):
			got = "refused:have-all-nonces"
		case err != nil:
			got = "error:" + err.Error()
		case all:
			got = "have-all"
		default:
			got = "more"
		}
		if got != want {
			return mismatch()
		}
		if all {
			// the aggregate the session computed is BIP327 NonceAgg
			cn, cerr := s.sess.CombinedNonce()
			ref, rerr := refNonceAgg(m.pubNonces())
			if cerr != nil || rerr != nil || !bytes.Equal(cn[:], ref) {
				m.viol("musig:NonceAgg:not-bip327", fmt.Sprintf("%s: combined nonce %x, BIP327 NonceAgg gives %x (%v %v)", m.id, cn, ref, cerr, rerr))
				return false, nil
			}
		} else if _, cerr := s.sess.CombinedNonce(); got == "more" && !errors.Is(cerr, musig2.ErrCombinedNonceUnavailable) {
			m.viol("musig:CombinedNonce:early", fmt.Sprintf("%s: CombinedNonce() before all nonces returns %v", m.id, cerr))
			return false, nil
		}
	case "RegisterCombinedNonce":
		agg, aerr := musig2.AggregateNonces(m.pubNonceArr())
		ref, rerr := refNonceAgg(m.pubNonces())
		if aerr != nil || rerr != nil || !bytes.Equal(agg[:], ref) {
			m.viol("musig:NonceAgg:not-bip327", fmt.Sprintf("%s: AggregateNonces gives %x (err %v), BIP327 NonceAgg gives %x", m.id, agg, aerr, ref))
			return false, nil
		}
		err := s.sess.RegisterCombinedNonce(agg)
		switch {
		case err == nil:
			got = "ok"
		case errors.Is(err, musig2.ErrAlredyHaveAllNonces):
			got = "refused:have-all-nonces"
		case errors.Is(err, musig2.ErrCombinedNonceAfterPubNonces):
			got = "refused:after-pub-nonces"
		default:
			got = "error:" + err.Error()
		}
		if got != want {
			return mismatch()
		}
	case "Sign":
		var opts []musig2.SignOption
		if m.rng.Intn(3) == 0 {
			opts = append(opts, musig2.WithFastSign())
		}
		ps, err := s.sess.Sign(m.msg, opts...)
		switch {
		case err == nil:
			got = "ok"
		case errors.Is(err, musig2.ErrSigningContextReuse):
			got = "refused:nonce-reuse"
		case errors.Is(err, musig2.ErrCombinedNonceUnavailable):
			got = "refused:no-combined-nonce"
		default:
			got = "error:" + err.Error()
		}
		if got != want {
			return mismatch()
		}
		if err == nil {
			s.psig = ps
			cn, _ := s.sess.CombinedNonce()
			sv := scalarBig(ps.S)
			m.evalCnt++
			if !refPartialVerify(sv, s.pubN[:], s.P.compressed(), cn[:], m.refPks, m.refTw, m.msg[:]) {
				m.viol("musig:Sign:partial-not-bip327-valid", fmt.Sprintf("%s: partial signature %x of signer %d does not satisfy BIP327 PartialSigVerify", m.id, sv, p))
				return false, nil
			}
			if s.nonces != nil {
				ref, rerr := refPartialSign(s.nonces.SecNonce[:], s.d, cn[:], m.refPks, m.refTw, m.msg[:])
				if rerr != nil || ref.Cmp(sv) != 0 {
					m.viol("musig:Sign:partial-not-bip327-sign", fmt.Sprintf("%s: partial signature %x of signer %d, BIP327 Sign gives %x (%v)", m.id, sv, p, ref, rerr))
					return false, nil
				}
			}
			// serialisation round trip of the partial signature
			var buf bytes.Buffer
			var back musig2.PartialSignature
			if eerr := ps.Encode(&buf); eerr != nil || buf.Len() != 32 || back.Decode(&buf) != nil || !back.S.Equals(ps.S) {
				m.viol("musig:PartialSignature:roundtrip", fmt.Sprintf("%s: Encode/Decode of the partial signature %x does not give it back", m.id, sv))
				return false, nil
			}
		}
	case "Verify", "VerifyCorrupted":
		o := m.sg[j-1]
		sig := o.psig
		if act == "VerifyCorrupted" {
			sig = corruptSig(sig)
		}
		cn, cerr := s.sess.CombinedNonce()
		if cerr != nil {
			got = "error:" + cerr.Error()
			return mismatch()
		}
		ok := sig.Verify(o.pubN, cn, m.pubs(), o.pub, m.msg, m.signOpts()...)
		got = fmt.Sprint(ok)
		if got != want {
			return mismatch()
		}
		m.evalCnt++
		if ref := refPartialVerify(scalarBig(sig.S), o.pubN[:], o.P.compressed(), cn[:], m.refPks, m.refTw, m.msg[:]); ref != ok {
			return false, fmt.Errorf("musig2: reference PartialSigVerify (%v) disagrees with the specification (%s) in %s", ref, want, m.id)
		}
	case "CombineSig", "CombineCorrupted":
		o := m.sg[j-1]
		sig := o.psig
		if act == "CombineCorrupted" {
			sig = corruptSig(sig)
		}
		all, err := s.sess.CombineSig(sig)
		switch {
		case errors.Is(err, musig2.ErrAlredyHaveAllSigs):
			got = "refused:have-all-sigs"
		case errors.Is(err, musig2.ErrFinalSigInvalid):
			got = "final-invalid"
		case err != nil:
			got = "error:" + err.Error()
		case all:
			got = "final-valid"
		default:
			got = "more"
		}
		if got != want {
			return mismatch()
		}
		if got == "final-invalid" && m.nshape == "bothinf" {
			st["final:bothinf-invalid"]++
		}
		if got == "final-valid" {
			fs := s.sess.FinalSig()
			if fs == nil {
				got = "final-valid-without-signature"
				return mismatch()
			}
			// what the session holds: recover it from the final s
			if !refSchnorrVerify(m.kc.Q.xonly(), m.msg[:], fs.Serialize()) {
				m.viol("musig:final:validity", fmt.Sprintf("%s: session of signer %d reports a final signature %x that BIP340 verification rejects under %x", m.id, p, fs.Serialize(), m.kc.Q.xonly()))
				return false, nil
			}
			if m.nshape != "bothinf" {
				var sent []*big.Int
				for _, x := range m.sg {
					sent = append(sent, scalarBig(x.psig.S))
				}
				if !m.checkFinal(fs, true, sent, fmt.Sprintf("%s signer %d", m.id, p)) {
					return false, nil
				}
			}
		} else if s.sess.FinalSig() != nil {
			got += "+final-signature-present"
			return mismatch()
		}
	default:
		panic("unknown call " + act)
	}
	return true, nil
}

// evaluateRaw replays the Evaluate step with the package-level functions.
func (m *mrun) evaluateRaw(c tla.Value, st map[string]int) error {
	bad := c.F("j").Int()
	res := c.F("res")
	wantFin := res.F("fin").Bool()
	degenerate := m.nshape != "generic"
	sum1, sum2 := bn(0), bn(0)
	for p, s := range m.sg {
		if degenerate && p == m.u-1 {
			k1, k2 := randScalar(m.rng), randScalar(m.rng)
			if m.nshape == "r1inf" || m.nshape == "bothinf" {
				k1 = negN(sum1)
			}
			if m.nshape == "r2inf" || m.nshape == "bothinf" {
				k2 = negN(sum2)
			}
			s.nonces = craftNonces(k1, k2, s.P.compressed())
		} else {
			n, ok := m.genNonces(s)
			if !ok {
				return nil
			}
			s.nonces = n
		}
		s.pubN = s.nonces.PubNonce
		sum1 = addN(sum1, fromB(s.nonces.SecNonce[:32]))
		sum2 = addN(sum2, fromB(s.nonces.SecNonce[32:64]))
	}
	agg, err := musig2.AggregateNonces(m.pubNonceArr())
	ref, rerr := refNonceAgg(m.pubNonces())
	m.evalCnt++
	if err != nil || rerr != nil || !bytes.Equal(agg[:], ref) {
		m.viol("musig:NonceAgg:not-bip327", fmt.Sprintf("%s: AggregateNonces gives %x (err %v), BIP327 NonceAgg gives %x", m.id, agg, err, ref))
		return nil
	}
	var sent []*big.Int
	var sigs []*musig2.PartialSignature
	for p, s := range m.sg {
		opts := m.signOpts()
		if m.rng.Intn(3) == 0 {
			opts = append(opts, musig2.WithFastSign())
		}
		ps, err := musig2.Sign(s.nonces.SecNonce, s.priv, agg, m.pubs(), m.msg, opts...)
		m.evalCnt += 2
		if err != nil {
			m.viol("musig:Sign:error", fmt.Sprintf("%s: musig2.Sign for signer %d fails: %v", m.id, p+1, err))
			return nil
		}
		want, rerr := refPartialSign(s.nonces.SecNonce[:], s.d, agg[:], m.refPks, m.refTw, m.msg[:])
		if rerr != nil || want.Cmp(scalarBig(ps.S)) != 0 {
			m.viol("musig:Sign:partial-not-bip327-sign", fmt.Sprintf("%s: partial signature %x of signer %d, BIP327 Sign gives %x (%v)", m.id, scalarBig(ps.S), p+1, want, rerr))
			return nil
		}
		s.psig = ps
		if p+1 == bad {
			ps = corruptSig(ps)
		}
		sigs = append(sigs, ps)
		sent = append(sent, scalarBig(ps.S))
	}
	for p, s := range m.sg {
		want := res.F("pv").At(p + 1).Bool()
		got := sigs[p].Verify(s.pubN, agg, m.pubs(), s.pub, m.msg, m.signOpts()...)
		m.evalCnt++
		if got != want {
			m.viol(fmt.Sprintf("musig:PartialVerify:want-%v:got-%v", want, got), fmt.Sprintf("%s: PartialSignature.Verify of signer %d (corrupted=%v) returns %v, the specification says %v", m.id, p+1, p+1 == bad, got, want))
			return nil
		}
		if refv := refPartialVerify(sent[p], s.pubN[:], s.P.compressed(), agg[:], m.refPks, m.refTw, m.msg[:]); refv != want {
			return fmt.Errorf("musig2: reference PartialSigVerify (%v) disagrees with the specification (%v) in %s", refv, want, m.id)
		}
	}
	final := musig2.CombineSigs(sigs[0].R, sigs, m.combineOpts()...)
	if m.nshape == "bothinf" {
		if wantFin {
			st["final:bothinf-valid"]++
		} else {
			st["final:bothinf-invalid"]++
		}
	}
	m.checkFinal(final, wantFin, sent, m.id)
	return nil
}
