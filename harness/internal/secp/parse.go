package secp

// Binding of spec/secp/SigParse.tla: every Judge transition of the dumped
// state graph is one case; the case is concretised to bytes, sent through the
// real parser, and the outcome compared with `expect` as written by TLC.

import (
	"bytes"
	"fmt"
	"math/big"
	"time"

	"github.com/btcsuite/btcd/btcec/v2"
	"github.com/btcsuite/btcd/btcec/v2/ecdsa"
	"github.com/btcsuite/btcd/btcec/v2/schnorr"
	"github.com/btcsuite/btcd/btcec/v2/schnorr/musig2"

	"verif/harness/internal/tla"
	"verif/harness/internal/tlc"
	"verif/harness/internal/vrun"
)

// intValue concretises an IntClasses member.
func intValue(ctx *vrun.Ctx, class, label string) *big.Int {
	rng := ctx.Rand("int|" + label)
	switch class {
	case "zero":
		return bn(0)
	case "one":
		return bn(1)
	case "mid": // [2^200, (n-1)/2)
		lo := new(big.Int).Lsh(big1, 200)
		v := new(big.Int).Rand(rng, new(big.Int).Sub(halfN, lo))
		return v.Add(v, lo)
	case "half":
		return cp(halfN)
	case "halfp1":
		return new(big.Int).Add(halfN, big1)
	case "hi": // [2^255, n-1)
		lo := new(big.Int).Lsh(big1, 255)
		v := new(big.Int).Rand(rng, new(big.Int).Sub(new(big.Int).Sub(bigN, big1), lo))
		return v.Add(v, lo)
	case "nm1":
		return new(big.Int).Sub(bigN, big1)
	case "n":
		return cp(bigN)
	case "np1":
		return new(big.Int).Add(bigN, big1)
	case "pm1":
		return new(big.Int).Sub(bigP, big1)
	case "p":
		return cp(bigP)
	case "max":
		return new(big.Int).Sub(big2p256, big1)
	case "big":
		return cp(big2p256)
	case "v7f":
		return bn(0x7f)
	case "v80":
		return bn(0x80)
	case "vff":
		return bn(0xff)
	case "v8000":
		return bn(0x8000)
	}
	panic("unknown integer class " + class)
}

// derShape builds the encoding a DerShapes member describes.
func derShape(shape string, r, s *big.Int, rng interface{ Intn(int) int }) []byte {
	rb, sb := derInt(r), derInt(s)
	rTag, sTag, seqTag := byte(2), byte(2), byte(0x30)
	rl, sl := len(rb), len(sb)
	switch shape {
	case "tag_seq":
		seqTag = 0x31
	case "tag_r":
		rTag = 3
	case "tag_s":
		sTag = 3
	case "rlen0":
		rb, rl = nil, 0
	case "slen0":
		sb, sl = nil, 0
	case "r_nopad":
		rb = r.Bytes()
		rl = len(rb)
	case "s_nopad":
		sb = s.Bytes()
		sl = len(sb)
	case "r_pad":
		rb = append([]byte{0}, rb...)
		rl = len(rb)
	case "s_pad":
		sb = append([]byte{0}, sb...)
		sl = len(sb)
	}
	L := 4 + len(rb) + len(sb)
	switch shape {
	case "rlen_over":
		rl = len(rb) + 2 + len(sb)
	case "slen_plus1":
		sl++
	case "slen_minus1":
		sl--
	}
	body := []byte{rTag, byte(rl)}
	body = append(body, rb...)
	body = append(body, sTag, byte(sl))
	body = append(body, sb...)
	var out []byte
	switch shape {
	case "len_plus1":
		out = append([]byte{seqTag, byte(L + 1)}, body...)
	case "len_minus1":
		out = append([]byte{seqTag, byte(L - 1)}, body...)
	case "len_long":
		out = append([]byte{seqTag, 0x81, byte(L)}, body...)
	default:
		out = append([]byte{seqTag, byte(L)}, body...)
	}
	switch shape {
	case "trailing1":
		out = append(out, byte(1+rng.Intn(255)))
	case "trailing_long":
		for i := 0; i < 80; i++ {
			out = append(out, byte(rng.Intn(256)))
		}
	case "short7":
		out = append([]byte{0x30, 5}, out[2:7]...)
	case "empty":
		out = nil
	}
	return out
}

// keyShape names the failing pattern of a case (the shape itself: a sequence
// with one trailing byte inside the 72-byte limit and one beyond the limit
// are different patterns).
func keyShape(s string) string { return s }

var ysmallPoint *pt

// smallYPoint finds a curve point with y < 2^256 - p (p = 7 mod 9, so a cubic
// residue c has the cube root c^((p+2)/9)).
func smallYPoint() pt {
	if ysmallPoint != nil {
		return *ysmallPoint
	}
	e3 := new(big.Int).Div(new(big.Int).Sub(bigP, big1), big3)
	e9 := new(big.Int).Div(new(big.Int).Add(bigP, big2), bn(9))
	for y := int64(1); y < 100000; y++ {
		c := modP(new(big.Int).Sub(bn(y*y), big7))
		if new(big.Int).Exp(c, e3, bigP).Cmp(big1) != 0 {
			continue
		}
		x := new(big.Int).Exp(c, e9, bigP)
		if onCurve(x, bn(y)) {
			p := pt{x: x, y: bn(y)}
			ysmallPoint = &p
			return p
		}
	}
	panic("no small-y point found")
}

// xValue concretises an XClasses member: the 32-byte x field and, for classes
// that are curve points, the point (parity chosen by the draw).
func xValue(ctx *vrun.Ctx, class, label string) (*big.Int, pt) {
	rng := ctx.Rand("x|" + label)
	switch class {
	case "onc", "offc":
		for {
			x := new(big.Int).Rand(rng, bigP)
			p, ok := liftX(x)
			if ok == (class == "onc") {
				if ok && rng.Intn(2) == 1 {
					p = p.neg()
				}
				return x, p
			}
		}
	case "zero":
		return bn(0), ptInf
	case "p":
		return cp(bigP), ptInf
	case "pplus":
		lim := new(big.Int).Sub(big2p256, bigP)
		for x0 := int64(1); ; x0++ {
			if _, ok := liftX(bn(x0)); ok && bn(x0).Cmp(lim) < 0 {
				return new(big.Int).Add(bigP, bn(x0)), ptInf
			}
		}
	case "max":
		return new(big.Int).Sub(big2p256, big1), ptInf
	case "ysmall":
		p := smallYPoint()
		return cp(p.x), p
	}
	panic("unknown x class " + class)
}

// pubForm builds the byte string of a PubForms / x-only form.
func pubForm(form string, x *big.Int, P pt) []byte {
	xb := b32(x)
	var yb []byte
	if !P.inf {
		yb = b32(P.y)
	}
	cat := func(pre []byte, parts ...[]byte) []byte {
		out := append([]byte{}, pre...)
		for _, p := range parts {
			out = append(out, p...)
		}
		return out
	}
	hyb := func(match bool) byte {
		if P.evenY() == match {
			return 6
		}
		return 7
	}
	switch form {
	case "comp_even":
		return cat([]byte{2}, xb)
	case "comp_odd":
		return cat([]byte{3}, xb)
	case "uncomp":
		return cat([]byte{4}, xb, yb)
	case "uncomp_neg":
		return cat([]byte{4}, xb, b32(P.neg().y))
	case "uncomp_ybad":
		return cat([]byte{4}, xb, b32(modP(new(big.Int).Add(P.y, big1))))
	case "uncomp_yplusp":
		return cat([]byte{4}, xb, b32(new(big.Int).Add(P.y, bigP)))
	case "hybrid_ok":
		return cat([]byte{hyb(true)}, xb, yb)
	case "hybrid_bad":
		return cat([]byte{hyb(false)}, xb, yb)
	case "pre00":
		return cat([]byte{0}, xb)
	case "pre01":
		return cat([]byte{1}, xb)
	case "pre05":
		return cat([]byte{5}, xb)
	case "pre08":
		return cat([]byte{8}, xb)
	case "preff":
		return cat([]byte{0xff}, xb)
	case "pre00_65":
		return cat([]byte{0}, xb, yb)
	case "pre05_65":
		return cat([]byte{5}, xb, yb)
	case "comp_len65":
		return cat([]byte{2}, xb, yb)
	case "uncomp_len33":
		return cat([]byte{4}, xb)
	case "hybrid_len33":
		return cat([]byte{6}, xb)
	case "len0", "empty":
		return []byte{}
	case "len1":
		return []byte{0}
	case "len32", "x32":
		return xb
	case "len34":
		return cat([]byte{2}, xb, []byte{0})
	case "len64":
		return cat(nil, xb, yb)
	case "len66":
		return cat([]byte{4}, xb, yb, []byte{0})
	case "zero33":
		return make([]byte, 33)
	case "zero65":
		return make([]byte, 65)
	case "x31":
		return xb[:31]
	case "x33":
		return cat(nil, xb, []byte{0})
	}
	panic("unknown public key form " + form)
}

func runSigParse(ctx *vrun.Ctx) error {
	inst := 1
	if ctx.Thorough {
		inst = 5
	}
	cfg := fmt.Sprintf("CONSTANTS Instances = %d\nINIT Init\nNEXT Next\nINVARIANTS TypeOK RangeSound StrictDecided ReserSound\n", inst)
	res, err := tlc.Run(tlc.Opts{SpecDir: ctx.SpecDir("secp"), Module: "SigParse", CfgText: cfg, Workers: 2,
		Timeout: 15 * time.Minute, DumpGraph: true, Coverage: ctx.Thorough, Scratch: ctx.Scratch, HeapGB: 3})
	if err != nil {
		return fmt.Errorf("sigparse: %w", err)
	}
	if !res.OK {
		return fmt.Errorf("sigparse: the specification violates its own %s %s", res.ErrKind, res.ErrName)
	}
	if ctx.Thorough && res.ActionCount["Judge"] == 0 {
		return fmt.Errorf("sigparse: vacuity: Judge never taken")
	}
	ctx.AddModel(res.Distinct, res.Generated)
	type kase struct{ c, e tla.Value }
	var cases []kase
	for _, node := range res.Graph.Order {
		for _, e := range node.Out {
			if e.Action == "Judge" {
				cases = append(cases, kase{node.State["c"], e.To.State["expect"]})
			}
		}
	}
	if len(cases) == 0 || int64(len(cases))*2 != res.Distinct {
		return fmt.Errorf("sigparse: %d Judge transitions for %d states", len(cases), res.Distinct)
	}
	census := map[string]int{}
	for _, k := range cases {
		census[k.c.F("parser").Str()+"/"+k.e.F("verdict").Str()]++
	}
	for _, need := range []string{"ecdsa.der/accept", "ecdsa.der/reject", "ecdsa.lax/may", "ecdsa.lows/accept", "schnorr.sig/accept",
		"schnorr.sig/reject", "btcec.pub/accept", "btcec.pub/reject", "schnorr.pub/accept", "schnorr.pub/reject",
		"musig.pubnonce/accept", "musig.pubnonce/reject", "musig.aggnonce/accept", "musig.aggnonce/reject",
		"musig.partialverify.pubnonce/accept", "musig.partialverify.pubnonce/reject"} {
		if census[need] == 0 {
			return fmt.Errorf("sigparse: vacuity: no case %s", need)
		}
	}
	ctx.Parallel(len(cases), func(i int) {
		defer func() {
			if r := recover(); r != nil {
				ctx.Violation("parse:panic", fmt.Sprintf("parser panicked on case %s: %v", cases[i].c.String(), r), cases[i].c.Go())
			}
		}()
		parseCase(ctx, cases[i].c, cases[i].e)
	})
	ctx.AddTraces(int64(len(cases)))
	ctx.AddExtra("parse_cases", int64(len(cases)))
	ctx.Logf("sigparse: TLC distinct=%d; %d parser cases replayed (%d draws per open class)", res.Distinct, len(cases), inst)
	return nil
}

func parseCase(ctx *vrun.Ctx, c, e tla.Value) {
	parser, shape := c.F("parser").Str(), c.F("shape").Str()
	inst := c.F("inst").Int()
	verdict := e.F("verdict").Str()
	label := fmt.Sprintf("%s|%s|%s|%s|%s|%d", parser, shape, c.F("rc").Str(), c.F("sc").Str(), c.F("xc").Str(), inst)
	ctx.Distinct("parse|" + parser + "|" + shape + "|" + c.F("rc").Str() + "|" + c.F("sc").Str() + "|" + c.F("xc").Str())
	sampled := false
	key := func(kind string) string { return "parse:" + parser + ":" + keyShape(shape) + ":" + kind }
	_ = key
	replay := func(b []byte) map[string]any {
		return map[string]any{"case": c.Go(), "expect": e.Go(), "bytes": hx(b)}
	}
	judge := func(b []byte, accepted bool, err error) bool {
		ctx.AddEval(1)
		if !sampled && inst == 1 && ((parser == "ecdsa.lax" && shape == "r_pad" && c.F("rc").Str() == "hi" && c.F("sc").Str() == "half") ||
			(parser == "btcec.pub" && shape == "hybrid_bad" && c.F("xc").Str() == "onc")) {
			sampled = true
			ctx.Sample(map[string]any{"spec": "SigParse", "case": c.Go(), "expect": e.Go(), "bytes": hx(b), "real_parser_accepted": accepted})
		}
		switch {
		case verdict == "accept" && !accepted:
			ctx.Violation(key("rejected"), fmt.Sprintf("%s rejects %x (%v); the defining rules admit it (case %s)", parser, b, err, label), replay(b))
			return false
		case verdict == "reject" && accepted:
			ctx.Violation(key("accepted"), fmt.Sprintf("%s accepts %x; the defining rules reject it (case %s)", parser, b, label), replay(b))
			return false
		}
		return accepted
	}
	switch parser {
	case "ecdsa.der", "ecdsa.lax", "ecdsa.lows":
		r := intValue(ctx, e.F("rv").Str(), label+"|r")
		s := intValue(ctx, e.F("sv").Str(), label+"|s")
		b := derShape(shape, r, s, ctx.Rand("der|"+label))
		if parser == "ecdsa.lows" {
			err := ecdsa.VerifyLowS(b)
			judge(b, err == nil, err)
			return
		}
		var sig *ecdsa.Signature
		var err error
		if parser == "ecdsa.der" {
			sig, err = ecdsa.ParseDERSignature(b)
		} else {
			sig, err = ecdsa.ParseSignature(b)
		}
		if !judge(b, err == nil, err) {
			return
		}
		// decoded values
		gr, gs := sig.R(), sig.S()
		grb, gsb := gr.Bytes(), gs.Bytes()
		ctx.AddEval(1)
		if !bytes.Equal(grb[:], b32(r)) || !bytes.Equal(gsb[:], b32(s)) {
			ctx.Violation(key("decode"), fmt.Sprintf("%s(%x) decodes to r=%x s=%x, the encoding denotes r=%x s=%x", parser, b, grb, gsb, r, s), replay(b))
			return
		}
		// re-serialisation: canonical DER, S in low form
		want := derSig(r, lowS(s))
		got := sig.Serialize()
		ctx.AddEval(1)
		if !bytes.Equal(got, want) || (e.F("reser").Str() == "same" && !bytes.Equal(got, b)) {
			ctx.Violation(key("reser"), fmt.Sprintf("Serialize() after %s(%x) = %x, expected %x (%s)", parser, b, got, want, e.F("reser").Str()), replay(b))
			return
		}
		// and the serialisation parses back to the same pair (strict parser)
		back, err := ecdsa.ParseDERSignature(got)
		ctx.AddEval(1)
		if err != nil || !bytes.Equal(back.Serialize(), got) {
			ctx.Violation(key("roundtrip"), fmt.Sprintf("ParseDERSignature(Serialize()) fails for %x: %v", got, err), replay(b))
		}
	case "schnorr.sig":
		r := intValue(ctx, e.F("rv").Str(), label+"|r")
		s := intValue(ctx, e.F("sv").Str(), label+"|s")
		b := append(b32(r), b32(s)...)
		switch shape {
		case "len63":
			b = b[:63]
		case "len65":
			b = append(b, 0)
		case "empty":
			b = nil
		}
		sig, err := schnorr.ParseSignature(b)
		if !judge(b, err == nil, err) {
			return
		}
		ctx.AddEval(1)
		if got := sig.Serialize(); !bytes.Equal(got, b) {
			ctx.Violation(key("reser"), fmt.Sprintf("schnorr Serialize() after ParseSignature(%x) = %x", b, got), replay(b))
		}
	case "btcec.pub", "schnorr.pub":
		x, P := xValue(ctx, c.F("xc").Str(), label)
		b := pubForm(shape, x, P)
		var pk *btcec.PublicKey
		var err error
		if parser == "btcec.pub" {
			pk, err = btcec.ParsePubKey(b)
		} else {
			pk, err = schnorr.ParsePubKey(b)
		}
		if !judge(b, err == nil, err) {
			return
		}
		want := P
		switch e.F("point").Str() {
		case "even":
			if !want.evenY() {
				want = want.neg()
			}
		case "odd":
			if want.evenY() {
				want = want.neg()
			}
		case "negy":
			want = want.neg()
		}
		ctx.AddEval(4)
		gx, gy := pk.X(), pk.Y()
		if gx.Cmp(want.x) != 0 || gy.Cmp(want.y) != 0 || !pk.IsOnCurve() {
			ctx.Violation(key("decode"), fmt.Sprintf("%s(%x) gives the point (%x, %x), the encoding denotes (%x, %x)", parser, b, gx, gy, want.x, want.y), replay(b))
			return
		}
		if !bytes.Equal(pk.SerializeCompressed(), want.compressed()) || !bytes.Equal(pk.SerializeUncompressed(), want.uncompressed()) ||
			!bytes.Equal(schnorr.SerializePubKey(pk), want.xonly()) {
			ctx.Violation(key("reser"), fmt.Sprintf("serialisations of the key parsed from %x are not the SEC1 encodings of its point", b), replay(b))
			return
		}
		for _, enc := range [][]byte{want.compressed(), want.uncompressed(), want.hybrid()} {
			back, err := btcec.ParsePubKey(enc)
			if err != nil || !back.IsEqual(pk) {
				ctx.Violation(key("roundtrip"), fmt.Sprintf("ParsePubKey(%x) does not give back the key parsed from %x (%v)", enc, b, err), replay(b))
				return
			}
		}
		back, err := schnorr.ParsePubKey(want.xonly())
		evenWant := want
		if !evenWant.evenY() {
			evenWant = evenWant.neg()
		}
		if err != nil || !bytes.Equal(back.SerializeCompressed(), evenWant.compressed()) {
			ctx.Violation(key("roundtrip"), fmt.Sprintf("schnorr.ParsePubKey(SerializePubKey()) of the key parsed from %x is not its even-y point (%v)", b, err), replay(b))
		}
	case "musig.partialverify.pubnonce":
		h1, h2 := shape, c.F("xc").Str()
		bad := h1
		if h1 == "even" || h1 == "odd" {
			bad = h2
		}
		key = func(kind string) string { return "parse:" + parser + ":" + bad + ":" + kind }
		// one honest signer: key d, secret nonce (k1, k2) whose points have the parities
		// the plain forms ask for, aggregate nonce = its own public nonce
		d := keyValue(ctx, "rand", label+"|d")
		P := baseMul(d)
		withParity := func(k *big.Int, form string) *big.Int {
			if (form == "even" || form == "odd") && baseMul(k).evenY() != (form == "even") {
				return negN(k)
			}
			return k
		}
		k1 := withParity(keyValue(ctx, "rand", label+"|k1"), h1)
		k2 := withParity(keyValue(ctx, "rand", label+"|k2"), h2)
		sec := craftNonces(k1, k2, P.compressed())
		pks := [][]byte{P.compressed()}
		var msg [32]byte
		ctx.Rand("pvmsg|" + label).Read(msg[:])
		agg := sec.PubNonce
		sv, err := refSessionValues(agg[:], pks, nil, msg[:])
		s, err2 := refPartialSign(sec.SecNonce[:], d, agg[:], pks, nil, msg[:])
		if err != nil || err2 != nil || sv.b.Sign() == 0 {
			panic("reference MuSig2 signing failed")
		}
		if !refPartialVerify(s, sec.PubNonce[:], P.compressed(), agg[:], pks, nil, msg[:]) {
			panic("reference PartialSigVerify rejects the reference partial signature")
		}
		// the individual nonce under test
		re := addN(k1, mulN(sv.b, k2)) // discrete log of R1 + b R2
		half := func(form string, which int, other string) []byte {
			switch {
			case form == "even" || form == "odd":
				if which == 1 {
					if other == "zero33" { // forged: all of R1 + b R2 in the first half
						return baseMul(re).compressed()
					}
					return sec.PubNonce[:33]
				}
				if other == "zero33" { // forged: (R1 + b R2) / b in the second half
					return baseMul(mulN(re, invN(sv.b))).compressed()
				}
				return sec.PubNonce[33:]
			}
			return nonceHalf(ctx, form, label+fmt.Sprint("|h", which))
		}
		var nonce [musig2.PubNonceSize]byte
		copy(nonce[:33], half(h1, 1, h2))
		copy(nonce[33:], half(h2, 2, h1))
		ps := musig2.NewPartialSignature(scalarOf(s), pubObj(sv.R))
		ok := ps.Verify(nonce, agg, []*btcec.PublicKey{pubObj(P)}, pubObj(P), msg)
		if ref := refPartialVerify(s, nonce[:], P.compressed(), agg[:], pks, nil, msg[:]); ref != (verdict == "accept") {
			panic("reference PartialSigVerify disagrees with the specification on " + label)
		}
		judge(nonce[:], ok, nil)
	case "musig.pubnonce", "musig.aggnonce":
		h1, h2 := shape, c.F("xc").Str()
		var nonce [musig2.PubNonceSize]byte
		copy(nonce[:33], nonceHalf(ctx, h1, label+"|1"))
		copy(nonce[33:], nonceHalf(ctx, h2, label+"|2"))
		bad := h1
		if h1 == "even" || h1 == "odd" {
			bad = h2
		}
		key = func(kind string) string { return "parse:" + parser + ":" + bad + ":" + kind }
		if parser == "musig.pubnonce" {
			_, err := musig2.AggregateNonces([][musig2.PubNonceSize]byte{nonce})
			judge(nonce[:], err == nil, err)
			return
		}
		// one signer, its own (valid) secret nonce, the aggregate nonce under test;
		// WithFastSign: the only possible failure is the aggregate nonce itself
		d := keyValue(ctx, "rand", label+"|d")
		P := baseMul(d)
		sec := craftNonces(keyValue(ctx, "rand", label+"|k1"), keyValue(ctx, "rand", label+"|k2"), P.compressed())
		var msg [32]byte
		_, err := musig2.Sign(sec.SecNonce, privObj(d), nonce, []*btcec.PublicKey{pubObj(P)}, msg, musig2.WithFastSign())
		judge(nonce[:], err == nil, err)
	default:
		panic("unknown parser " + parser)
	}
}

// nonceHalf builds one 33-byte half of a MuSig2 nonce.
func nonceHalf(ctx *vrun.Ctx, form, label string) []byte {
	switch form {
	case "even", "odd", "tag04":
		x, _ := xValue(ctx, "onc", label)
		pre := map[string]byte{"even": 2, "odd": 3, "tag04": 4}[form]
		return append([]byte{pre}, b32(x)...)
	case "zero33":
		return make([]byte, 33)
	case "zero_junk":
		b := make([]byte, 33)
		ctx.Rand("junk|" + label).Read(b[1:])
		b[32] |= 1
		return b
	case "zero_junk_first", "zero_junk_mid", "zero_junk_last":
		b := make([]byte, 33)
		pos := map[string]int{"zero_junk_first": 1, "zero_junk_mid": 16, "zero_junk_last": 32}[form]
		b[pos] = byte(1 + ctx.Rand("junk|"+label).Intn(255))
		return b
	case "offc":
		x, _ := xValue(ctx, "offc", label)
		return append([]byte{2}, b32(x)...)
	case "xgep":
		x, _ := xValue(ctx, "pplus", label)
		return append([]byte{2}, b32(x)...)
	}
	panic("unknown nonce half form " + form)
}
