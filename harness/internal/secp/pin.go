package secp

// The reference implementation is pinned against the published BIP340 and
// BIP327 test vectors (spec/secp/vectors.json) before it is used as an
// oracle.  A disagreement here is a harness error (exit 2), never a verdict.

import (
	"bytes"
	"encoding/hex"
	"encoding/json"
	"fmt"
	"math/big"
	"os"
	"path/filepath"
	"strings"
)

type vecFile struct {
	BIP340 []struct {
		SecretKey    string `json:"secretKey"`
		PublicKey    string `json:"publicKey"`
		AuxRand      string `json:"auxRand"`
		Message      string `json:"message"`
		Signature    string `json:"signature"`
		VerifyResult bool   `json:"verifyResult"`
		RFC6979      bool   `json:"rfc6979"`
	} `json:"bip340"`
	KeyAgg struct {
		Pubkeys []string `json:"pubkeys"`
		Valid   []struct {
			KeyIndices []int  `json:"key_indices"`
			Expected   string `json:"expected"`
		} `json:"valid_test_cases"`
	} `json:"key_agg_vectors"`
	Tweak struct {
		SK       string   `json:"sk"`
		Pubkeys  []string `json:"pubkeys"`
		Secnonce string   `json:"secnonce"`
		Pnonces  []string `json:"pnonces"`
		Aggnonce string   `json:"aggnonce"`
		Tweaks   []string `json:"tweaks"`
		Msg      string   `json:"msg"`
		Valid    []struct {
			KeyIndices   []int  `json:"key_indices"`
			NonceIndices []int  `json:"nonce_indices"`
			TweakIndices []int  `json:"tweak_indices"`
			IsXonly      []bool `json:"is_xonly"`
			SignerIndex  int    `json:"signer_index"`
			Expected     string `json:"expected"`
		} `json:"valid_test_cases"`
	} `json:"tweak_vectors"`
	SigAgg struct {
		Pubkeys []string `json:"pubkeys"`
		Pnonces []string `json:"pnonces"`
		Tweaks  []string `json:"tweaks"`
		Psigs   []string `json:"psigs"`
		Msg     string   `json:"msg"`
		Valid   []struct {
			Aggnonce     string `json:"aggnonce"`
			NonceIndices []int  `json:"nonce_indices"`
			KeyIndices   []int  `json:"key_indices"`
			TweakIndices []int  `json:"tweak_indices"`
			IsXonly      []bool `json:"is_xonly"`
			PsigIndices  []int  `json:"psig_indices"`
			Expected     string `json:"expected"`
		} `json:"valid_test_cases"`
	} `json:"sig_agg_vectors"`
	SignVerify struct {
		SK        string   `json:"sk"`
		Pubkeys   []string `json:"pubkeys"`
		Secnonces []string `json:"secnonces"`
		Pnonces   []string `json:"pnonces"`
		Aggnonces []string `json:"aggnonces"`
		Msgs      []string `json:"msgs"`
		Valid     []struct {
			KeyIndices   []int  `json:"key_indices"`
			NonceIndices []int  `json:"nonce_indices"`
			AggnonceIdx  int    `json:"aggnonce_index"`
			MsgIndex     int    `json:"msg_index"`
			SignerIndex  int    `json:"signer_index"`
			Expected     string `json:"expected"`
		} `json:"valid_test_cases"`
		VerifyFail []struct {
			Sig          string `json:"sig"`
			KeyIndices   []int  `json:"key_indices"`
			NonceIndices []int  `json:"nonce_indices"`
			MsgIndex     int    `json:"msg_index"`
			SignerIndex  int    `json:"signer_index"`
		} `json:"verify_fail_test_cases"`
	} `json:"sign_verify_vectors"`
	NonceGen struct {
		Cases []struct {
			Rand     string  `json:"rand_"`
			SK       *string `json:"sk"`
			PK       string  `json:"pk"`
			AggPK    *string `json:"aggpk"`
			Msg      *string `json:"msg"`
			ExtraIn  *string `json:"extra_in"`
			Expected string  `json:"expected"`
		} `json:"test_cases"`
	} `json:"nonce_gen_vectors"`
	NonceAgg struct {
		Pnonces []string `json:"pnonces"`
		Valid   []struct {
			Indices  []int  `json:"pnonce_indices"`
			Expected string `json:"expected"`
		} `json:"valid_test_cases"`
	} `json:"nonce_agg_vectors"`
}

func unhex(s string) []byte {
	b, err := hex.DecodeString(s)
	if err != nil {
		panic(err)
	}
	return b
}

func hx(b []byte) string { return hex.EncodeToString(b) }

func optHex(s *string) []byte {
	if s == nil {
		return nil
	}
	return unhex(*s)
}

func pick(all []string, idx []int) [][]byte {
	var out [][]byte
	for _, i := range idx {
		out = append(out, unhex(all[i]))
	}
	return out
}

func mkTweaks(all []string, idx []int, xo []bool) []tweak327 {
	var out []tweak327
	for k, i := range idx {
		out = append(out, tweak327{t: unhex(all[i]), xonly: xo[k]})
	}
	return out
}

// pinReference returns the number of vectors the reference reproduced.
func pinReference(specDir string) (int, error) {
	raw, err := os.ReadFile(filepath.Join(specDir, "vectors.json"))
	if err != nil {
		return 0, err
	}
	var vf vecFile
	if err := json.Unmarshal(raw, &vf); err != nil {
		return 0, err
	}
	n := 0
	// curve constants
	if !onCurve(bigGx, bigGy) || !baseMul(bigN).inf || baseMul(new(big.Int).Sub(bigN, big1)).eq(ptG) || !baseMul(new(big.Int).Sub(bigN, big1)).eq(ptG.neg()) {
		return 0, fmt.Errorf("reference curve constants are wrong")
	}
	for i, v := range vf.BIP340 {
		pk, msg, sig := unhex(v.PublicKey), unhex(v.Message), unhex(v.Signature)
		if got := refSchnorrVerify(pk, msg, sig); got != v.VerifyResult {
			return 0, fmt.Errorf("reference BIP340 verify disagrees with vector %d (got %v)", i, got)
		}
		n++
		if v.SecretKey != "" && !v.RFC6979 {
			got, ok := refSchnorrSign(fromB(unhex(v.SecretKey)), msg, unhex(v.AuxRand))
			if !ok || !bytes.Equal(got, sig) {
				return 0, fmt.Errorf("reference BIP340 sign disagrees with vector %d", i)
			}
			if !bytes.Equal(baseMul(fromB(unhex(v.SecretKey))).xonly(), pk) {
				return 0, fmt.Errorf("reference public key disagrees with vector %d", i)
			}
			n++
		}
	}
	for i, c := range vf.KeyAgg.Valid {
		kc, err := refKeyAgg(pick(vf.KeyAgg.Pubkeys, c.KeyIndices), nil)
		if err != nil || !strings.EqualFold(hx(kc.Q.xonly()), c.Expected) {
			return 0, fmt.Errorf("reference KeyAgg disagrees with BIP327 key_agg vector %d", i)
		}
		n++
	}
	for i, c := range vf.Tweak.Valid {
		pks := pick(vf.Tweak.Pubkeys, c.KeyIndices)
		tws := mkTweaks(vf.Tweak.Tweaks, c.TweakIndices, c.IsXonly)
		pns := pick(vf.Tweak.Pnonces, c.NonceIndices)
		agg, err := refNonceAgg(pns)
		if err != nil || !strings.EqualFold(hx(agg), vf.Tweak.Aggnonce) {
			return 0, fmt.Errorf("reference NonceAgg disagrees with BIP327 tweak vector %d", i)
		}
		s, err := refPartialSign(unhex(vf.Tweak.Secnonce), fromB(unhex(vf.Tweak.SK)), agg, pks, tws, unhex(vf.Tweak.Msg))
		if err != nil || !strings.EqualFold(hx(b32(s)), c.Expected) {
			return 0, fmt.Errorf("reference Sign disagrees with BIP327 tweak vector %d", i)
		}
		if !refPartialVerify(s, pns[c.SignerIndex], pks[c.SignerIndex], agg, pks, tws, unhex(vf.Tweak.Msg)) {
			return 0, fmt.Errorf("reference PartialSigVerify rejects BIP327 tweak vector %d", i)
		}
		n++
	}
	for i, c := range vf.SigAgg.Valid {
		pks := pick(vf.SigAgg.Pubkeys, c.KeyIndices)
		tws := mkTweaks(vf.SigAgg.Tweaks, c.TweakIndices, c.IsXonly)
		var ps []*big.Int
		for _, j := range c.PsigIndices {
			ps = append(ps, fromB(unhex(vf.SigAgg.Psigs[j])))
		}
		sig, err := refPartialSigAgg(ps, unhex(c.Aggnonce), pks, tws, unhex(vf.SigAgg.Msg))
		if err != nil || !strings.EqualFold(hx(sig), c.Expected) {
			return 0, fmt.Errorf("reference PartialSigAgg disagrees with BIP327 sig_agg vector %d", i)
		}
		kc, _ := refKeyAgg(pks, tws)
		if !refSchnorrVerify(kc.Q.xonly(), unhex(vf.SigAgg.Msg), sig) {
			return 0, fmt.Errorf("reference BIP340 verify rejects BIP327 sig_agg vector %d", i)
		}
		n++
	}
	sv := vf.SignVerify
	for i, c := range sv.Valid {
		pks, pns := pick(sv.Pubkeys, c.KeyIndices), pick(sv.Pnonces, c.NonceIndices)
		agg := unhex(sv.Aggnonces[c.AggnonceIdx])
		msg := unhex(sv.Msgs[c.MsgIndex])
		if len(msg) != 32 {
			continue // the library signs 32-byte messages only
		}
		s, err := refPartialSign(unhex(sv.Secnonces[0]), fromB(unhex(sv.SK)), agg, pks, nil, msg)
		if err != nil || !strings.EqualFold(hx(b32(s)), c.Expected) {
			return 0, fmt.Errorf("reference Sign disagrees with BIP327 sign_verify vector %d", i)
		}
		if !refPartialVerify(s, pns[c.SignerIndex], pks[c.SignerIndex], agg, pks, nil, msg) {
			return 0, fmt.Errorf("reference PartialSigVerify rejects BIP327 sign_verify vector %d", i)
		}
		n++
	}
	for i, c := range sv.VerifyFail {
		pks, pns := pick(sv.Pubkeys, c.KeyIndices), pick(sv.Pnonces, c.NonceIndices)
		agg, err := refNonceAgg(pns)
		if err != nil {
			return 0, fmt.Errorf("reference NonceAgg fails on verify_fail vector %d", i)
		}
		if refPartialVerify(fromB(unhex(c.Sig)), pns[c.SignerIndex], pks[c.SignerIndex], agg, pks, nil, unhex(sv.Msgs[c.MsgIndex])) {
			return 0, fmt.Errorf("reference PartialSigVerify accepts BIP327 verify_fail vector %d", i)
		}
		n++
	}
	for i, c := range vf.NonceGen.Cases {
		sec, pub, err := refNonceGen(unhex(c.Rand), optHex(c.SK), unhex(c.PK), optHex(c.AggPK), optHex(c.Msg), optHex(c.ExtraIn))
		if err != nil || !strings.EqualFold(hx(sec), c.Expected) || len(pub) != 66 {
			return 0, fmt.Errorf("reference NonceGen disagrees with BIP327 nonce_gen vector %d", i)
		}
		n++
	}
	for i, c := range vf.NonceAgg.Valid {
		agg, err := refNonceAgg(pick(vf.NonceAgg.Pnonces, c.Indices))
		if err != nil || !strings.EqualFold(hx(agg), c.Expected) {
			return 0, fmt.Errorf("reference NonceAgg disagrees with BIP327 nonce_agg vector %d", i)
		}
		n++
	}
	return n, nil
}
