// Package secp is the engine for property C11 (secp256k1 signatures, key
// encodings, MuSig2).
//
// This file is the INDEPENDENT reference the binder compares the real library
// with: affine secp256k1 arithmetic, ECDSA (SEC1 4.1), BIP340 and the tagged
// hashes, written with math/big and crypto/sha256 only.  Nothing in this file
// may import btcec or the decred secp256k1 package.
package secp

import (
	"crypto/sha256"
	"math/big"
)

var (
	bigP, _  = new(big.Int).SetString("FFFFFFFFFFFFFFFFFFFFFFFFFFFFFFFFFFFFFFFFFFFFFFFFFFFFFFFEFFFFFC2F", 16)
	bigN, _  = new(big.Int).SetString("FFFFFFFFFFFFFFFFFFFFFFFFFFFFFFFEBAAEDCE6AF48A03BBFD25E8CD0364141", 16)
	bigGx, _ = new(big.Int).SetString("79BE667EF9DCBBAC55A06295CE870B07029BFCDB2DCE28D959F2815B16F81798", 16)
	bigGy, _ = new(big.Int).SetString("483ADA7726A3C4655DA4FBFC0E1108A8FD17B448A68554199C47D08FFB10D4B8", 16)
	big0     = big.NewInt(0)
	big1     = big.NewInt(1)
	big2     = big.NewInt(2)
	big3     = big.NewInt(3)
	big7     = big.NewInt(7)
	big2p256 = new(big.Int).Lsh(big1, 256)
	halfN    = new(big.Int).Rsh(bigN, 1) // (n-1)/2: the largest low S
)

// pt is an affine point; inf marks the point at infinity.
type pt struct {
	x, y *big.Int
	inf  bool
}

var (
	ptInf = pt{inf: true}
	ptG   = pt{x: bigGx, y: bigGy}
)

func bn(v int64) *big.Int           { return big.NewInt(v) }
func cp(v *big.Int) *big.Int        { return new(big.Int).Set(v) }
func modP(v *big.Int) *big.Int      { return new(big.Int).Mod(v, bigP) }
func modN(v *big.Int) *big.Int      { return new(big.Int).Mod(v, bigN) }
func addN(a, b *big.Int) *big.Int   { return modN(new(big.Int).Add(a, b)) }
func mulN(a, b *big.Int) *big.Int   { return modN(new(big.Int).Mul(a, b)) }
func negN(a *big.Int) *big.Int      { return modN(new(big.Int).Neg(a)) }
func invN(a *big.Int) *big.Int      { return new(big.Int).ModInverse(modN(a), bigN) }
func b32(v *big.Int) []byte         { return v.FillBytes(make([]byte, 32)) }
func fromB(b []byte) *big.Int       { return new(big.Int).SetBytes(b) }
func (p pt) evenY() bool            { return !p.inf && p.y.Bit(0) == 0 }
func (p pt) eq(q pt) bool           { return p.inf == q.inf && (p.inf || (p.x.Cmp(q.x) == 0 && p.y.Cmp(q.y) == 0)) }
func (p pt) neg() pt {
	if p.inf {
		return p
	}
	return pt{x: cp(p.x), y: modP(new(big.Int).Neg(p.y))}
}

func onCurve(x, y *big.Int) bool {
	l := modP(new(big.Int).Mul(y, y))
	r := new(big.Int).Exp(x, big3, bigP)
	r.Add(r, big7)
	return l.Cmp(modP(r)) == 0
}

// liftX returns the point with the given x and even y (BIP340 lift_x); ok is
// false when x >= p or x is not the abscissa of a curve point.
func liftX(x *big.Int) (pt, bool) {
	if x.Sign() < 0 || x.Cmp(bigP) >= 0 {
		return ptInf, false
	}
	c := new(big.Int).Exp(x, big3, bigP)
	c = modP(c.Add(c, big7))
	e := new(big.Int).Add(bigP, big1)
	e.Rsh(e, 2)
	y := new(big.Int).Exp(c, e, bigP)
	if modP(new(big.Int).Mul(y, y)).Cmp(c) != 0 {
		return ptInf, false
	}
	if y.Bit(0) == 1 {
		y = new(big.Int).Sub(bigP, y)
	}
	return pt{x: cp(x), y: y}, true
}

func ptAdd(a, b pt) pt {
	if a.inf {
		return b
	}
	if b.inf {
		return a
	}
	var lam *big.Int
	if a.x.Cmp(b.x) == 0 {
		if a.y.Cmp(b.y) != 0 || a.y.Sign() == 0 {
			return ptInf
		}
		num := new(big.Int).Mul(a.x, a.x)
		num.Mul(num, big3)
		den := new(big.Int).ModInverse(modP(new(big.Int).Lsh(a.y, 1)), bigP)
		lam = modP(num.Mul(num, den))
	} else {
		num := new(big.Int).Sub(b.y, a.y)
		den := new(big.Int).ModInverse(modP(new(big.Int).Sub(b.x, a.x)), bigP)
		lam = modP(num.Mul(num, den))
	}
	x := new(big.Int).Mul(lam, lam)
	x.Sub(x, a.x)
	x = modP(x.Sub(x, b.x))
	y := new(big.Int).Sub(a.x, x)
	y.Mul(y, lam)
	y = modP(y.Sub(y, a.y))
	return pt{x: x, y: y}
}

// ptMul is plain left-to-right double-and-add on k mod n in affine
// coordinates (measured faster with math/big than a Jacobian ladder).
func ptMul(k *big.Int, p pt) pt {
	k = modN(k)
	r := ptInf
	for i := k.BitLen() - 1; i >= 0; i-- {
		r = ptAdd(r, r)
		if k.Bit(i) == 1 {
			r = ptAdd(r, p)
		}
	}
	return r
}

func baseMul(k *big.Int) pt { return ptMul(k, ptG) }

// encodings (SEC1 2.3.3 plus the hybrid form of X9.62)
func (p pt) compressed() []byte {
	if p.inf {
		return make([]byte, 33)
	}
	pre := byte(2)
	if !p.evenY() {
		pre = 3
	}
	return append([]byte{pre}, b32(p.x)...)
}

func (p pt) uncompressed() []byte {
	return append(append([]byte{4}, b32(p.x)...), b32(p.y)...)
}

func (p pt) hybrid() []byte {
	pre := byte(6)
	if !p.evenY() {
		pre = 7
	}
	return append(append([]byte{pre}, b32(p.x)...), b32(p.y)...)
}

func (p pt) xonly() []byte { return b32(p.x) }

// refParsePoint is SEC1 octet-string-to-point for 33/65-byte strings,
// including the hybrid form with its parity check.
func refParsePoint(b []byte) (pt, bool) {
	switch {
	case len(b) == 33 && (b[0] == 2 || b[0] == 3):
		p, ok := liftX(fromB(b[1:]))
		if !ok {
			return ptInf, false
		}
		if b[0] == 3 {
			p = p.neg()
		}
		return p, true
	case len(b) == 65 && (b[0] == 4 || b[0] == 6 || b[0] == 7):
		x, y := fromB(b[1:33]), fromB(b[33:])
		if x.Cmp(bigP) >= 0 || y.Cmp(bigP) >= 0 || !onCurve(x, y) {
			return ptInf, false
		}
		if b[0] != 4 && (y.Bit(0) == 1) != (b[0] == 7) {
			return ptInf, false
		}
		return pt{x: x, y: y}, true
	}
	return ptInf, false
}

func taggedHash(tag string, parts ...[]byte) []byte {
	th := sha256.Sum256([]byte(tag))
	h := sha256.New()
	h.Write(th[:])
	h.Write(th[:])
	for _, p := range parts {
		h.Write(p)
	}
	return h.Sum(nil)
}

// ---- ECDSA (SEC1 4.1.3 / 4.1.4), message = 32-byte hash ------------------

// refECDSASign signs with an explicit nonce k in [1, n-1]; ok is false when
// r or s is zero.
func refECDSASign(d, k *big.Int, msg []byte) (r, s *big.Int, ok bool) {
	R := baseMul(k)
	if R.inf {
		return nil, nil, false
	}
	r = modN(R.x)
	z := modN(fromB(msg))
	s = mulN(invN(k), addN(z, mulN(r, d)))
	if r.Sign() == 0 || s.Sign() == 0 {
		return nil, nil, false
	}
	return r, s, true
}

// refECDSAVerify evaluates the defining equation.
func refECDSAVerify(P pt, msg []byte, r, s *big.Int) bool {
	if P.inf || r.Sign() <= 0 || s.Sign() <= 0 || r.Cmp(bigN) >= 0 || s.Cmp(bigN) >= 0 {
		return false
	}
	z := modN(fromB(msg))
	w := invN(s)
	X := ptAdd(baseMul(mulN(z, w)), ptMul(mulN(r, w), P))
	if X.inf {
		return false
	}
	return modN(X.x).Cmp(r) == 0
}

// ---- BIP340 ---------------------------------------------------------------

func xorBytes(a, b []byte) []byte {
	o := make([]byte, len(a))
	for i := range a {
		o[i] = a[i] ^ b[i]
	}
	return o
}

// refSchnorrSign is BIP340 default signing with auxiliary randomness aux.
func refSchnorrSign(d0 *big.Int, msg, aux []byte) ([]byte, bool) {
	if d0.Sign() <= 0 || d0.Cmp(bigN) >= 0 {
		return nil, false
	}
	P := baseMul(d0)
	d := cp(d0)
	if !P.evenY() {
		d = negN(d)
	}
	t := xorBytes(b32(d), taggedHash("BIP0340/aux", aux))
	k0 := modN(fromB(taggedHash("BIP0340/nonce", t, P.xonly(), msg)))
	if k0.Sign() == 0 {
		return nil, false
	}
	return refSchnorrSignNonce(d0, k0, msg)
}

// refSchnorrSignNonce signs with an explicit nonce k0 (steps 10-13).
func refSchnorrSignNonce(d0, k0 *big.Int, msg []byte) ([]byte, bool) {
	P := baseMul(d0)
	d := cp(d0)
	if !P.evenY() {
		d = negN(d)
	}
	R := baseMul(k0)
	if R.inf {
		return nil, false
	}
	k := cp(k0)
	if !R.evenY() {
		k = negN(k)
	}
	e := modN(fromB(taggedHash("BIP0340/challenge", R.xonly(), P.xonly(), msg)))
	s := addN(k, mulN(e, d))
	return append(R.xonly(), b32(s)...), true
}

// refSchnorrVerify is BIP340 Verify on the 32-byte x-only key.
func refSchnorrVerify(pk, msg, sig []byte) bool {
	if len(pk) != 32 || len(sig) != 64 {
		return false
	}
	P, ok := liftX(fromB(pk))
	if !ok {
		return false
	}
	r, s := fromB(sig[:32]), fromB(sig[32:])
	if r.Cmp(bigP) >= 0 || s.Cmp(bigN) >= 0 {
		return false
	}
	e := modN(fromB(taggedHash("BIP0340/challenge", b32(r), P.xonly(), msg)))
	R := ptAdd(baseMul(s), ptMul(negN(e), P))
	return !R.inf && R.evenY() && R.x.Cmp(r) == 0
}

// ---- DER ------------------------------------------------------------------

// derInt is the minimal two's complement content of a non-negative integer.
func derInt(v *big.Int) []byte {
	b := v.Bytes()
	if len(b) == 0 {
		b = []byte{0}
	}
	if b[0]&0x80 != 0 {
		b = append([]byte{0}, b...)
	}
	return b
}

// derSig is the canonical DER encoding SEQUENCE { INTEGER r, INTEGER s }.
func derSig(r, s *big.Int) []byte {
	rb, sb := derInt(r), derInt(s)
	out := []byte{0x30, byte(4 + len(rb) + len(sb)), 0x02, byte(len(rb))}
	out = append(out, rb...)
	out = append(out, 0x02, byte(len(sb)))
	return append(out, sb...)
}

func lowS(s *big.Int) *big.Int {
	if s.Cmp(halfN) > 0 {
		return new(big.Int).Sub(bigN, s)
	}
	return cp(s)
}
