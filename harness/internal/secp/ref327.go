package secp

// Independent reference for BIP327 (MuSig2), written from the BIP's
// pseudocode over the math/big arithmetic of ref.go.  No btcec import.

import (
	"bytes"
	"encoding/binary"
	"errors"
	"math/big"
	"sort"
)

type tweak327 struct {
	t     []byte // 32 bytes
	xonly bool
}

type keyAggCtx struct {
	Q    pt
	gacc *big.Int
	tacc *big.Int
}

var errRef = errors.New("reference: fail")

// cpoint parses a 33-byte plain public key.
func cpoint(b []byte) (pt, bool) {
	if len(b) != 33 || (b[0] != 2 && b[0] != 3) {
		return ptInf, false
	}
	return refParsePoint(b)
}

// cpointExt additionally maps 33 zero bytes to the point at infinity.
func cpointExt(b []byte) (pt, bool) {
	if len(b) == 33 && bytes.Equal(b, make([]byte, 33)) {
		return ptInf, true
	}
	return cpoint(b)
}

func refKeySort(pks [][]byte) [][]byte {
	out := append([][]byte(nil), pks...)
	sort.SliceStable(out, func(i, j int) bool { return bytes.Compare(out[i], out[j]) < 0 })
	return out
}

func refSecondKey(pks [][]byte) []byte {
	for _, pk := range pks {
		if !bytes.Equal(pk, pks[0]) {
			return pk
		}
	}
	return make([]byte, 33)
}

func refKeyAggCoeff(pks [][]byte, pk []byte) *big.Int {
	if bytes.Equal(pk, refSecondKey(pks)) {
		return bn(1)
	}
	L := taggedHash("KeyAgg list", pks...)
	return modN(fromB(taggedHash("KeyAgg coefficient", L, pk)))
}

// refKeyAgg is KeyAgg followed by ApplyTweak for every tweak.
func refKeyAgg(pks [][]byte, tweaks []tweak327) (*keyAggCtx, error) {
	Q := ptInf
	for _, pk := range pks {
		P, ok := cpoint(pk)
		if !ok {
			return nil, errRef
		}
		Q = ptAdd(Q, ptMul(refKeyAggCoeff(pks, pk), P))
	}
	if Q.inf {
		return nil, errRef
	}
	c := &keyAggCtx{Q: Q, gacc: bn(1), tacc: bn(0)}
	for _, tw := range tweaks {
		var err error
		if c, err = refApplyTweak(c, tw); err != nil {
			return nil, err
		}
	}
	return c, nil
}

func refApplyTweak(c *keyAggCtx, tw tweak327) (*keyAggCtx, error) {
	g := bn(1)
	if tw.xonly && !c.Q.evenY() {
		g = new(big.Int).Sub(bigN, big1)
	}
	t := fromB(tw.t)
	if t.Cmp(bigN) >= 0 {
		return nil, errRef
	}
	Q := ptAdd(ptMul(g, c.Q), baseMul(t))
	if Q.inf {
		return nil, errRef
	}
	return &keyAggCtx{Q: Q, gacc: mulN(g, c.gacc), tacc: addN(t, mulN(g, c.tacc))}, nil
}

// refNonceGen is NonceGen with explicit rand'; returns secnonce (97 bytes)
// and pubnonce (66 bytes).  sk, aggpk, msg, extra may be nil.
func refNonceGen(rand, sk, pk, aggpk, msg, extra []byte) ([]byte, []byte, error) {
	r := rand
	if sk != nil {
		r = xorBytes(sk, taggedHash("MuSig/aux", rand))
	}
	var mp []byte
	if msg == nil {
		mp = []byte{0}
	} else {
		mp = append([]byte{1}, binary.BigEndian.AppendUint64(nil, uint64(len(msg)))...)
		mp = append(mp, msg...)
	}
	var ks [2]*big.Int
	for i := 0; i < 2; i++ {
		var buf []byte
		buf = append(buf, r...)
		buf = append(buf, byte(len(pk)))
		buf = append(buf, pk...)
		buf = append(buf, byte(len(aggpk)))
		buf = append(buf, aggpk...)
		buf = append(buf, mp...)
		buf = binary.BigEndian.AppendUint32(buf, uint32(len(extra)))
		buf = append(buf, extra...)
		buf = append(buf, byte(i))
		ks[i] = modN(fromB(taggedHash("MuSig/nonce", buf)))
		if ks[i].Sign() == 0 {
			return nil, nil, errRef
		}
	}
	sec := append(append(b32(ks[0]), b32(ks[1])...), pk...)
	pub := append(baseMul(ks[0]).compressed(), baseMul(ks[1]).compressed()...)
	return sec, pub, nil
}

func refNonceAgg(pubnonces [][]byte) ([]byte, error) {
	var out []byte
	for j := 0; j < 2; j++ {
		R := ptInf
		for _, pn := range pubnonces {
			P, ok := cpoint(pn[j*33 : (j+1)*33])
			if !ok {
				return nil, errRef
			}
			R = ptAdd(R, P)
		}
		out = append(out, R.compressed()...) // cbytes_ext: infinity = 33 zero bytes
	}
	return out, nil
}

type sessionVals struct {
	kc   *keyAggCtx
	b, e *big.Int
	R    pt
}

func refSessionValues(aggnonce []byte, pks [][]byte, tweaks []tweak327, msg []byte) (*sessionVals, error) {
	kc, err := refKeyAgg(pks, tweaks)
	if err != nil {
		return nil, err
	}
	b := modN(fromB(taggedHash("MuSig/noncecoef", aggnonce, kc.Q.xonly(), msg)))
	R1, ok1 := cpointExt(aggnonce[:33])
	R2, ok2 := cpointExt(aggnonce[33:])
	if !ok1 || !ok2 {
		return nil, errRef
	}
	R := ptAdd(R1, ptMul(b, R2))
	if R.inf {
		R = ptG
	}
	e := modN(fromB(taggedHash("BIP0340/challenge", R.xonly(), kc.Q.xonly(), msg)))
	return &sessionVals{kc: kc, b: b, e: e, R: R}, nil
}

// refPartialSign is Sign without the final self-check.
func refPartialSign(secnonce []byte, sk *big.Int, aggnonce []byte, pks [][]byte, tweaks []tweak327, msg []byte) (*big.Int, error) {
	sv, err := refSessionValues(aggnonce, pks, tweaks, msg)
	if err != nil {
		return nil, err
	}
	k1, k2 := fromB(secnonce[:32]), fromB(secnonce[32:64])
	if k1.Sign() == 0 || k2.Sign() == 0 || k1.Cmp(bigN) >= 0 || k2.Cmp(bigN) >= 0 {
		return nil, errRef
	}
	if !sv.R.evenY() {
		k1, k2 = negN(k1), negN(k2)
	}
	if sk.Sign() <= 0 || sk.Cmp(bigN) >= 0 {
		return nil, errRef
	}
	P := baseMul(sk)
	pk := P.compressed()
	if !bytes.Equal(pk, secnonce[64:]) {
		return nil, errRef
	}
	found := false
	for _, k := range pks {
		found = found || bytes.Equal(k, pk)
	}
	if !found {
		return nil, errRef
	}
	a := refKeyAggCoeff(pks, pk)
	g := bn(1)
	if !sv.kc.Q.evenY() {
		g = new(big.Int).Sub(bigN, big1)
	}
	d := mulN(mulN(g, sv.kc.gacc), sk)
	s := addN(addN(k1, mulN(sv.b, k2)), mulN(mulN(sv.e, a), d))
	return s, nil
}

// refPartialVerify is PartialSigVerifyInternal.
func refPartialVerify(s *big.Int, pubnonce, pk, aggnonce []byte, pks [][]byte, tweaks []tweak327, msg []byte) bool {
	sv, err := refSessionValues(aggnonce, pks, tweaks, msg)
	if err != nil {
		return false
	}
	if s.Cmp(bigN) >= 0 {
		return false
	}
	R1, ok1 := cpoint(pubnonce[:33])
	R2, ok2 := cpoint(pubnonce[33:])
	if !ok1 || !ok2 {
		return false
	}
	Re := ptAdd(R1, ptMul(sv.b, R2))
	if !sv.R.evenY() {
		Re = Re.neg()
	}
	P, ok := cpoint(pk)
	if !ok {
		return false
	}
	found := false
	for _, k := range pks {
		found = found || bytes.Equal(k, pk)
	}
	if !found {
		return false
	}
	a := refKeyAggCoeff(pks, pk)
	g := bn(1)
	if !sv.kc.Q.evenY() {
		g = new(big.Int).Sub(bigN, big1)
	}
	gp := mulN(g, sv.kc.gacc)
	return baseMul(s).eq(ptAdd(Re, ptMul(mulN(mulN(sv.e, a), gp), P)))
}

// refPartialSigAgg is PartialSigAgg: the final 64-byte signature.
func refPartialSigAgg(psigs []*big.Int, aggnonce []byte, pks [][]byte, tweaks []tweak327, msg []byte) ([]byte, error) {
	sv, err := refSessionValues(aggnonce, pks, tweaks, msg)
	if err != nil {
		return nil, err
	}
	s := bn(0)
	for _, ps := range psigs {
		if ps.Cmp(bigN) >= 0 {
			return nil, errRef
		}
		s = addN(s, ps)
	}
	g := bn(1)
	if !sv.kc.Q.evenY() {
		g = new(big.Int).Sub(bigN, big1)
	}
	s = addN(s, mulN(mulN(sv.e, g), sv.kc.tacc))
	return append(sv.R.xonly(), b32(s)...), nil
}
