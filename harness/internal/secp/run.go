package secp

import (
	"fmt"
	"os"
	"strings"
	"sync"

	"verif/harness/internal/vrun"
)

// Run is the C11 check.
func Run(ctx *vrun.Ctx) error {
	if ctx.Workers > 8 {
		ctx.Workers = 8
	}
	n, err := pinReference(ctx.SpecDir("secp"))
	if err != nil {
		return err
	}
	ctx.Logf("reference implementation reproduces %d BIP340/BIP327 vectors", n)
	ctx.AddExtra("reference_vectors_reproduced", int64(n))
	only := os.Getenv("VERIF_SECP_ONLY") // development aid: comma list of parts
	want := func(p string) bool { return only == "" || strings.Contains(","+only+",", ","+p+",") }
	parts := []struct {
		name string
		run  func(*vrun.Ctx) error
	}{
		{"parse", runSigParse},
		{"verify", runSigVerify},
		{"musig", runMusig},
	}
	// the three specifications are independent: run them side by side
	errs := make([]error, len(parts))
	var wg sync.WaitGroup
	for i, p := range parts {
		if !want(p.name) {
			continue
		}
		wg.Add(1)
		go func(i int, name string, run func(*vrun.Ctx) error) {
			defer wg.Done()
			if err := run(ctx); err != nil {
				errs[i] = fmt.Errorf("%s: %w", name, err)
			}
		}(i, p.name, p.run)
	}
	wg.Wait()
	for _, err := range errs {
		if err != nil {
			return err
		}
	}
	ctx.Ev.Coverage.Rule = "TLC enumerates every case / behaviour of the three specifications; each is concretised and replayed into btcec"
	return nil
}
