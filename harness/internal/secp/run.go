package secp

import (
	"fmt"
	"os"
	"strings"
	"sync"

	"verif/harness/internal/vrun"
)

// Run is the C11 check.
func Run(ctx *vrun.Ctx) error {
	if ctx.Workers > 8 {
		ctx.Workers = 8
	}
	n, err := pinReference(ctx.SpecDir("secp"))
	if err != nil {
		return err
	}
	ctx.Logf("reference implementation reproduces %d BIP340/BIP327 vectors", n)
	ctx.AddExtra("reference_vectors_reproduced", int64(n))
	only := os.Getenv("VERIF_SECP_ONLY") // development aid: comma list of parts
	want := func(p string) bool { return only == "" || strings.Contains(","+only+",", ","+p+",") }
	parts := []struct {
		name string
		run  func(*vrun.Ctx) error
	}{
		{"parse", runSigParse},
		{"verify", runSigVerify},
		{"musig", runMusig},
	}
	// the three specifications are independent: run them side by side
	errs := make([]error, len(parts))
	var wg sync.WaitGroup
	for i, p := range parts {
		if !want(p.name) {
			continue
		}
		wg.Add(1)
		go func(i int, name string, run func(*vrun.Ctx) error) {
			defer wg.Done()
			if err := run(ctx); err != nil {
				errs[i] = fmt.Errorf("%s: %w", name, err)
			}
		}(i, p.name, p.run)
	}
	wg.Wait()
	for _, err := range errs {
		if err != nil {
			return err
		}
	}
	ctx.Ev.Coverage.Rule = "SigParse.tla and SigVerify.tla: every case TLC enumerates (parser x encoding shape x value classes; scheme x signer x mutation x key/message/nonce class x parity x encoding route) is concretised to bytes and sent through the real btcec entry point, the verdict must equal the one TLC wrote into `expect` (distinct = distinct case tuples without the draw index). " +
		"SigVerify's rule table is checked by TLC against the signing/verification equations over toy groups Z_q. Musig2.tla: BIP327 over a toy group with the Context/Session discipline, invariants checked exhaustively on the listed configurations; simulated behaviours are replayed into musig2 with real keys of the same shape and every call result compared with the specification's `last` (distinct = distinct shape + call sequence); " +
		"aggregate keys, accumulators, nonces, partial and final signatures are also compared with an independent math/big BIP327/BIP340 implementation pinned to the published vectors"
	ctx.Ev.Coverage.Exhaustive = false
	ctx.Ev.Coverage.Explanation = "the case spaces of SigParse/SigVerify and the toy-group configurations of Musig2 are enumerated completely by TLC, but the property quantifies over all 256-bit keys, messages, nonces and byte strings: numbers are boundary classes plus seeded random draws, field and scalar arithmetic of the library is only sampled against the reference, MuSig2 behaviours are a seeded random sample of the model (signer multisets up to 3, tweak chains up to 2)"
	ctx.Assume("the math/big reference (affine secp256k1, ECDSA, BIP340, BIP327) is correct; it is pinned to 44 published BIP340/BIP327 vectors on every run and a disagreement between it and the specification is an infrastructure failure, not a verdict")
	ctx.Assume("hash functions act as random oracles: toy behaviours that need a chosen hash output (aggregate key at infinity, R1 + b*R2 = infinity with R2 finite, a taproot tweak hitting infinity) are not realised on the real curve")
	ctx.Assume("a session is given other signers' partial signatures only after its own Sign (the documented Session flow); every public nonce is registered at most once")
	ctx.Assume("decred secp256k1 v4.4.0 (module cache) is part of the library under test: ECDSA Sign/Verify/compact signatures, ParsePubKey, GenerateSharedSecret, field and scalar arithmetic")
	ctx.Assume("messages are 32-byte hashes; an ECDSA r = x mod n with x >= n is not constructed (probability 2^-128)")
	return nil
}
