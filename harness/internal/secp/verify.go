package secp

// Binding of spec/secp/SigVerify.tla.  The algebra run is TLC only; the case
// run is dumped as a graph, every Judge transition is concretised into a
// (message, signature, key) triple with the reference implementation (never
// with btcec), routed through the encoding the case names, and the real
// verifier's answer is compared with `expect` (and with the reference
// verifier: a disagreement between specification and reference is a harness
// error, not a verdict).

import (
	"bytes"
	"fmt"
	"math/big"
	"sync"
	"sync/atomic"
	"time"

	"github.com/btcsuite/btcd/btcec/v2"
	"github.com/btcsuite/btcd/btcec/v2/ecdsa"
	"github.com/btcsuite/btcd/btcec/v2/schnorr"

	"verif/harness/internal/tla"
	"verif/harness/internal/tlc"
	"verif/harness/internal/vrun"
)

func keyValue(ctx *vrun.Ctx, class, label string) *big.Int {
	switch class {
	case "one":
		return bn(1)
	case "two":
		return bn(2)
	case "nm1":
		return new(big.Int).Sub(bigN, big1)
	case "nm2":
		return new(big.Int).Sub(bigN, big2)
	case "rand":
		v := new(big.Int).Rand(ctx.Rand("key|"+label), new(big.Int).Sub(bigN, big1))
		return v.Add(v, big1)
	}
	panic("unknown key class " + class)
}

func msgValue(ctx *vrun.Ctx, class, label string) []byte {
	switch class {
	case "zero":
		return make([]byte, 32)
	case "ff":
		return bytes.Repeat([]byte{0xff}, 32)
	case "rand":
		b := make([]byte, 32)
		ctx.Rand("msg|" + label).Read(b)
		return b
	}
	panic("unknown message class " + class)
}

func scalarOf(v *big.Int) *btcec.ModNScalar {
	var s btcec.ModNScalar
	if s.SetByteSlice(b32(v)) {
		panic("scalarOf: overflow")
	}
	return &s
}

func fieldOf(v *big.Int) *btcec.FieldVal {
	var f btcec.FieldVal
	if f.SetByteSlice(b32(v)) {
		panic("fieldOf: overflow")
	}
	return &f
}

func pubObj(P pt) *btcec.PublicKey { return btcec.NewPublicKey(fieldOf(P.x), fieldOf(P.y)) }

func privObj(d *big.Int) *btcec.PrivateKey {
	k, _ := btcec.PrivKeyFromBytes(b32(d))
	return k
}

var signerHung atomic.Bool

func runSigVerify(ctx *vrun.Ctx) error {
	// 1. algebra: the rule table against the equations over toy groups
	qs := []int{7}
	if ctx.Thorough {
		qs = []int{5, 7, 11}
	}
	algErr := make(chan error, len(qs))
	for _, q := range qs {
		go func(q int) {
			cfg := fmt.Sprintf("CONSTANTS Q = %d\n Instances = 1\nINIT InitAlgebra\nNEXT NextAlgebra\nINVARIANTS AlgebraOK ExcusesExact\n", q)
			res, err := tlc.Run(tlc.Opts{SpecDir: ctx.SpecDir("secp"), Module: "SigVerify", CfgText: cfg, Workers: 1,
				Timeout: 25 * time.Minute, Scratch: ctx.Scratch, HeapGB: 3})
			switch {
			case err != nil:
				algErr <- fmt.Errorf("sigverify algebra q=%d: %w", q, err)
			case !res.OK:
				algErr <- fmt.Errorf("sigverify algebra q=%d: the rule table disagrees with the equations (%s %s)", q, res.ErrKind, res.ErrName)
			case res.Distinct < int64((q-1)*(q-1)*q*(q-1)): // at least every BIP340 witness
				algErr <- fmt.Errorf("sigverify algebra q=%d: %d witnesses", q, res.Distinct)
			default:
				ctx.AddModel(res.Distinct, res.Generated)
				ctx.AddExtra("algebra_witnesses", res.Distinct)
				ctx.Logf("sigverify: rule table agrees with the toy-group equations for q=%d (%d witnesses)", q, res.Distinct)
				algErr <- nil
			}
		}(q)
	}
	// 2. cases
	inst := 1
	if ctx.Thorough {
		inst = 4
	}
	cfg := fmt.Sprintf("CONSTANTS Q = 7\n Instances = %d\nINIT Init\nNEXT Next\nINVARIANTS SignersVerify\n", inst)
	res, err := tlc.Run(tlc.Opts{SpecDir: ctx.SpecDir("secp"), Module: "SigVerify", CfgText: cfg, Workers: 2,
		Timeout: 15 * time.Minute, DumpGraph: true, Coverage: ctx.Thorough, Scratch: ctx.Scratch, HeapGB: 3})
	if err != nil {
		return fmt.Errorf("sigverify: %w", err)
	}
	if !res.OK {
		return fmt.Errorf("sigverify: the specification violates its own %s %s", res.ErrKind, res.ErrName)
	}
	if ctx.Thorough && res.ActionCount["Judge"] == 0 {
		return fmt.Errorf("sigverify: vacuity: Judge never taken")
	}
	ctx.AddModel(res.Distinct, res.Generated)
	type kase struct{ c, e tla.Value }
	var cases []kase
	for _, node := range res.Graph.Order {
		for _, e := range node.Out {
			if e.Action == "Judge" {
				cases = append(cases, kase{node.State["c"], e.To.State["expect"]})
			}
		}
	}
	if len(cases) == 0 || int64(len(cases))*2 != res.Distinct {
		return fmt.Errorf("sigverify: %d Judge transitions for %d states", len(cases), res.Distinct)
	}
	var mu sync.Mutex
	realised := map[string]int{}
	seen := map[string]bool{}
	var herr error
	ctx.Parallel(len(cases), func(i int) {
		c, e := cases[i].c, cases[i].e
		defer func() {
			if r := recover(); r != nil {
				ctx.Violation("verify:panic", fmt.Sprintf("panic on case %s: %v", c.String(), r), c.Go())
			}
		}()
		ok, err := verifyCase(ctx, c, e)
		mu.Lock()
		if err != nil && herr == nil {
			herr = err
		}
		if ok {
			id := c.F("scheme").Str() + "/" + c.F("origin").Str() + "/" + c.F("mut").Str()
			realised[id+"/"+e.F("valid").Str()]++
			seen[id] = true
		}
		mu.Unlock()
	})
	if herr != nil {
		return herr
	}
	// vacuity: every (scheme, origin, mutation) of the specification was realised
	total := 0
	for _, n := range realised {
		total += n
	}
	for _, k := range cases {
		id := k.c.F("scheme").Str() + "/" + k.c.F("origin").Str() + "/" + k.c.F("mut").Str()
		if !seen[id] {
			return fmt.Errorf("sigverify: vacuity: no case %s was realised", id)
		}
	}
	for _, need := range []string{"schnorr/ref/skipneg_k/true", "schnorr/ref/skipneg_k/false", "schnorr/ref/skipneg_d/true", "schnorr/ref/skipneg_d/false",
		"ecdsa/ref/key_neg/true", "ecdsa/ref/key_neg/false"} {
		if realised[need] == 0 {
			return fmt.Errorf("sigverify: vacuity: no realised case %s", need)
		}
	}
	for range qs {
		if err := <-algErr; err != nil {
			return err
		}
	}
	ctx.AddTraces(int64(total))
	ctx.AddExtra("verify_cases", int64(total))
	ctx.Logf("sigverify: TLC distinct=%d; %d of %d cases realised (the others fix a parity the boundary key does not have)", res.Distinct, total, len(cases))
	return nil
}

// verifyCase returns false when the case cannot be realised (a fixed key with
// the other parity).
func verifyCase(ctx *vrun.Ctx, c, e tla.Value) (bool, error) {
	scheme, origin, mut := c.F("scheme").Str(), c.F("origin").Str(), c.F("mut").Str()
	enc := c.F("enc").Str()
	label := fmt.Sprintf("%s|%s|%s|%s|%s|%s|%s|%s|%s|%d", scheme, origin, mut, c.F("keyc").Str(), c.F("msgc").Str(),
		c.F("noncec").Str(), c.F("ppar").Str(), c.F("rpar").Str(), enc, c.F("inst").Int())
	want := e.F("valid").Str()
	ctx.Distinct("verify|" + scheme + "|" + origin + "|" + mut + "|" + c.F("keyc").Str() + "|" + c.F("msgc").Str() + "|" + c.F("noncec").Str() + "|" + c.F("ppar").Str() + "|" + c.F("rpar").Str() + "|" + enc)
	switch scheme {
	case "ecdh":
		return true, ecdhCase(ctx, c, label)
	case "ecdsa":
		return ecdsaCase(ctx, c, want, e.F("kind").Str(), label)
	case "schnorr":
		return schnorrCase(ctx, c, want, e.F("kind").Str(), label)
	}
	panic("unknown scheme " + scheme)
}

func ecdhCase(ctx *vrun.Ctx, c tla.Value, label string) error {
	a := keyValue(ctx, c.F("keyc").Str(), label+"|a")
	b := keyValue(ctx, c.F("msgc").Str(), label+"|b")
	A, B := baseMul(a), baseMul(b)
	want := b32(ptMul(a, B).x)
	if !bytes.Equal(want, b32(ptMul(b, A).x)) {
		return fmt.Errorf("reference scalar multiplication is not commutative (%s)", label)
	}
	pa, err1 := btcec.ParsePubKey(A.compressed())
	pb, err2 := btcec.ParsePubKey(B.uncompressed())
	if err1 != nil || err2 != nil {
		ctx.Violation("ecdh:pubkey-rejected", fmt.Sprintf("ParsePubKey rejects the public key of a valid private key (%s): %v %v", label, err1, err2), c.Go())
		return nil
	}
	s1 := btcec.GenerateSharedSecret(privObj(a), pb)
	s2 := btcec.GenerateSharedSecret(privObj(b), pa)
	ctx.AddEval(2)
	if !bytes.Equal(s1, s2) {
		ctx.Violation("ecdh:asymmetric", fmt.Sprintf("GenerateSharedSecret(a, B) = %x but GenerateSharedSecret(b, A) = %x (a=%x b=%x)", s1, s2, a, b),
			map[string]any{"case": c.Go(), "a": hx(b32(a)), "b": hx(b32(b))})
		return nil
	}
	if !bytes.Equal(s1, want) {
		ctx.Violation("ecdh:not-x-of-abG", fmt.Sprintf("GenerateSharedSecret = %x, x(ab G) = %x (a=%x b=%x)", s1, want, a, b),
			map[string]any{"case": c.Go(), "a": hx(b32(a)), "b": hx(b32(b))})
	}
	// the public key object of a private key is the reference point
	if !bytes.Equal(privObj(a).PubKey().SerializeCompressed(), A.compressed()) {
		ctx.Violation("ecdh:pubkey-of-privkey", fmt.Sprintf("PrivateKey(%x).PubKey() is not a G", a), c.Go())
	}
	return nil
}

// judgeVerify is the three-way comparison.
func judgeVerify(ctx *vrun.Ctx, c tla.Value, want, kind string, ref, lib bool, what string, replay map[string]any) error {
	ctx.AddEval(1)
	if c.F("inst").Int() == 1 && c.F("keyc").Str() == "nm1" && c.F("msgc").Str() == "zero" && c.F("enc").Str() == "direct" &&
		((c.F("scheme").Str() == "ecdsa" && c.F("mut").Str() == "key_neg") || (c.F("mut").Str() == "skipneg_k" && c.F("rpar").Str() == "odd" && c.F("ppar").Str() == "odd")) {
		ctx.Sample(map[string]any{"spec": "SigVerify", "case": c.Go(), "expect_valid": want, "rule_kind": kind, "reference_verifier": ref, "library_verifier": lib, "triple": what})
	}
	if ref != (want == "true") {
		return fmt.Errorf("sigverify: specification says %s (%s rule) but the reference verifier says %v on %s", want, kind, ref, what)
	}
	if lib == ref {
		return nil
	}
	key := fmt.Sprintf("verify:%s:%s:%s:", c.F("scheme").Str(), c.F("mut").Str(), c.F("enc").Str())
	if lib {
		key += "accepts-invalid"
	} else {
		key += "rejects-valid"
	}
	replay["case"] = c.Go()
	replay["expected_valid"] = want
	ctx.Violation(key, fmt.Sprintf("library verifier says %v, the defining equation says %v: %s", lib, ref, what), replay)
	return nil
}

func ecdsaCase(ctx *vrun.Ctx, c tla.Value, want, kind, label string) (bool, error) {
	origin, mut, enc := c.F("origin").Str(), c.F("mut").Str(), c.F("enc").Str()
	d := keyValue(ctx, c.F("keyc").Str(), label)
	P := baseMul(d)
	msg := msgValue(ctx, c.F("msgc").Str(), label)
	var r, s *big.Int
	var libSig *ecdsa.Signature
	rep := map[string]any{"priv": hx(b32(d)), "msg": hx(msg)}
	switch origin {
	case "ref":
		var k *big.Int
		switch c.F("noncec").Str() {
		case "one":
			k = bn(1)
		case "nm1":
			k = new(big.Int).Sub(bigN, big1)
		default:
			k = keyValue(ctx, "rand", label+"|k")
		}
		var ok bool
		if r, s, ok = refECDSASign(d, k, msg); !ok {
			return false, fmt.Errorf("reference ECDSA signing hit r = 0 or s = 0 (%s)", label)
		}
	case "lib.sign":
		libSig = ecdsa.Sign(privObj(d), msg)
		rr, ss := libSig.R(), libSig.S()
		rb, sb := rr.Bytes(), ss.Bytes()
		r, s = fromB(rb[:]), fromB(sb[:])
	case "lib.compact":
		comp := enc != "der_uncomp"
		cs := ecdsa.SignCompact(privObj(d), msg, comp)
		ctx.AddEval(2)
		if len(cs) != 65 {
			ctx.Violation("signer:ecdsa.SignCompact:length", fmt.Sprintf("SignCompact returns %d bytes", len(cs)), rep)
			return true, nil
		}
		r, s = fromB(cs[1:33]), fromB(cs[33:])
		pk, wasComp, err := ecdsa.RecoverCompact(cs, msg)
		if err != nil || wasComp != comp || !bytes.Equal(pk.SerializeCompressed(), P.compressed()) {
			rep["compact"] = hx(cs)
			ctx.Violation("signer:ecdsa.RecoverCompact:roundtrip", fmt.Sprintf("RecoverCompact(SignCompact(d=%x, m=%x, compressed=%v)) does not give back the key and flag (err=%v)", d, msg, comp, err), rep)
			return true, nil
		}
	}
	if origin != "ref" {
		// the library's signature must satisfy the defining equation
		ctx.AddEval(1)
		if !refECDSAVerify(P, msg, r, s) {
			rep["r"], rep["s"] = hx(b32(r)), hx(b32(s))
			ctx.Violation("signer:"+origin+":does-not-verify", fmt.Sprintf("%s(d=%x, m=%x) = (r=%x, s=%x) does not satisfy the ECDSA equation", origin, d, msg, r, s), rep)
			return true, nil
		}
	}
	V, vmsg := P, msg
	switch mut {
	case "s_neg":
		s = negN(s)
	case "key_neg":
		V = P.neg()
	case "s_plus1":
		s = addN(s, big1)
	case "r_plus1":
		r = new(big.Int).Add(r, big1)
	case "msg_other":
		vmsg = msgValue(ctx, "rand", label+"|other")
	case "key_other":
		V = baseMul(keyValue(ctx, "rand", label+"|other"))
	case "r_zero":
		r = bn(0)
	case "s_zero":
		s = bn(0)
	}
	if mut != "r_zero" && mut != "s_zero" && (r.Sign() == 0 || s.Sign() == 0 || r.Cmp(bigN) >= 0) {
		return false, fmt.Errorf("mutation %s left the scalar range (%s)", mut, label)
	}
	ref := refECDSAVerify(V, vmsg, r, s)
	rep["r"], rep["s"], rep["verify_key"], rep["verify_msg"] = hx(b32(r)), hx(b32(s)), hx(V.compressed()), hx(vmsg)
	var sig *ecdsa.Signature
	var pk *btcec.PublicKey
	var err error
	switch enc {
	case "der_comp", "der_uncomp":
		der := derSig(r, s)
		if libSig != nil && mut == "none" {
			der = libSig.Serialize() // the library's own serialisation
		}
		rep["sig"] = hx(der)
		if sig, err = ecdsa.ParseDERSignature(der); err != nil {
			ctx.Violation("verify:ecdsa:der-rejected", fmt.Sprintf("ParseDERSignature rejects the DER encoding %x of an in-range signature: %v", der, err), rep)
			return true, nil
		}
		kb := V.compressed()
		if enc == "der_uncomp" {
			kb = V.uncompressed()
		}
		if pk, err = btcec.ParsePubKey(kb); err != nil {
			ctx.Violation("verify:ecdsa:key-rejected", fmt.Sprintf("ParsePubKey rejects %x: %v", kb, err), rep)
			return true, nil
		}
	case "lax_hybrid":
		ber := derShape("r_pad", r, s, nil)
		rep["sig"] = hx(ber)
		if sig, err = ecdsa.ParseSignature(ber); err != nil { // the lax parser may refuse padding
			if sig, err = ecdsa.ParseSignature(derSig(r, s)); err != nil {
				ctx.Violation("verify:ecdsa:lax-rejected", fmt.Sprintf("ParseSignature rejects the DER encoding of an in-range signature: %v", err), rep)
				return true, nil
			}
		}
		if pk, err = btcec.ParsePubKey(V.hybrid()); err != nil {
			ctx.Violation("verify:ecdsa:key-rejected", fmt.Sprintf("ParsePubKey rejects %x: %v", V.hybrid(), err), rep)
			return true, nil
		}
	case "direct":
		sig = ecdsa.NewSignature(scalarOf(r), scalarOf(s))
		if libSig != nil && mut == "none" {
			sig = libSig
		}
		pk = pubObj(V)
	}
	lib := sig.Verify(vmsg, pk)
	what := fmt.Sprintf("ECDSA %s/%s/%s key=%x msg=%x r=%x s=%x", origin, mut, enc, V.compressed(), vmsg, r, s)
	return true, judgeVerify(ctx, c, want, kind, ref, lib, what, rep)
}

// refSchnorrVariant signs like BIP340 with an explicit nonce, optionally
// omitting the negation of the nonce (step 11) or of the key (step 5).
func refSchnorrVariant(d0, k0 *big.Int, msg []byte, skipK, skipD bool) []byte {
	P, R := baseMul(d0), baseMul(k0)
	d, k := cp(d0), cp(k0)
	if !P.evenY() && !skipD {
		d = negN(d)
	}
	if !R.evenY() && !skipK {
		k = negN(k)
	}
	e := modN(fromB(taggedHash("BIP0340/challenge", R.xonly(), P.xonly(), msg)))
	return append(R.xonly(), b32(addN(k, mulN(e, d)))...)
}

func schnorrCase(ctx *vrun.Ctx, c tla.Value, want, kind, label string) (bool, error) {
	origin, mut, enc := c.F("origin").Str(), c.F("mut").Str(), c.F("enc").Str()
	keyc := c.F("keyc").Str()
	d := keyValue(ctx, keyc, label)
	P := baseMul(d)
	if pp := c.F("ppar").Str(); pp != "-" && P.evenY() != (pp == "even") {
		if keyc != "rand" {
			return false, nil
		}
		d = negN(d)
		P = P.neg()
	}
	msg := msgValue(ctx, c.F("msgc").Str(), label)
	rep := map[string]any{"priv": hx(b32(d)), "msg": hx(msg)}
	var sigb []byte
	switch origin {
	case "ref":
		k := keyValue(ctx, "rand", label+"|k")
		if baseMul(k).evenY() != (c.F("rpar").Str() == "even") {
			k = negN(k)
		}
		sigb = refSchnorrVariant(d, k, msg, mut == "skipneg_k", mut == "skipneg_d")
		rep["nonce"] = hx(b32(k))
	default:
		var opts []schnorr.SignOption
		if origin == "lib.aux" || origin == "lib.auxfast" {
			var aux [32]byte
			if c.F("inst").Int()%2 == 0 {
				ctx.Rand("aux|" + label).Read(aux[:])
			}
			opts = append(opts, schnorr.CustomNonce(aux))
			rep["aux"] = hx(aux[:])
		}
		if origin == "lib.fast" || origin == "lib.auxfast" {
			opts = append(opts, schnorr.FastSign())
		}
		type sres struct {
			sig *schnorr.Signature
			err error
		}
		if signerHung.Load() {
			return false, nil // a signer call already failed to return; do not pile up spinning goroutines
		}
		ch := make(chan sres, 1)
		go func() { // the RFC6979 path retries forever when its self-check fails
			sg, err := schnorr.Sign(privObj(d), msg, opts...)
			ch <- sres{sg, err}
		}()
		var sig *schnorr.Signature
		var err error
		select {
		case r := <-ch:
			sig, err = r.sig, r.err
		case <-time.After(30 * time.Second):
			signerHung.Store(true)
			ctx.Violation("signer:"+origin+":does-not-return", fmt.Sprintf("schnorr.Sign(d=%x, m=%x) did not return within 60 s", d, msg), rep)
			return true, nil
		}
		ctx.AddEval(2)
		if err != nil {
			ctx.Violation("signer:"+origin+":error", fmt.Sprintf("schnorr.Sign(d=%x, m=%x) fails: %v", d, msg, err), rep)
			return true, nil
		}
		sigb = sig.Serialize()
		if !refSchnorrVerify(P.xonly(), msg, sigb) {
			rep["sig"] = hx(sigb)
			ctx.Violation("signer:"+origin+":does-not-verify", fmt.Sprintf("%s(d=%x, m=%x) = %x does not satisfy the BIP340 equation", origin, d, msg, sigb), rep)
			return true, nil
		}
	}
	r, s := fromB(sigb[:32]), fromB(sigb[32:])
	V, vmsg := P, msg
	switch mut {
	case "s_neg":
		s = negN(s)
	case "key_neg":
		V = P.neg()
	case "s_plus1":
		s = addN(s, big1)
	case "r_plus1":
		r = new(big.Int).Add(r, big1)
	case "r_eq_p_minus_x":
		r = new(big.Int).Sub(bigP, r)
	case "msg_other":
		vmsg = msgValue(ctx, "rand", label+"|other")
	case "key_other":
		V = baseMul(keyValue(ctx, "rand", label+"|other"))
	}
	if r.Cmp(bigP) >= 0 {
		return false, fmt.Errorf("mutation %s left the field range (%s)", mut, label)
	}
	msig := append(b32(r), b32(s)...)
	ref := refSchnorrVerify(V.xonly(), vmsg, msig)
	rep["sig"], rep["verify_key"], rep["verify_msg"] = hx(msig), hx(V.compressed()), hx(vmsg)
	var lib bool
	switch enc {
	case "bytes":
		sig, err := schnorr.ParseSignature(msig)
		if err != nil {
			ctx.Violation("verify:schnorr:sig-rejected", fmt.Sprintf("schnorr.ParseSignature rejects %x with r < p, s < n: %v", msig, err), rep)
			return true, nil
		}
		pk, err := schnorr.ParsePubKey(V.xonly())
		if err != nil {
			ctx.Violation("verify:schnorr:key-rejected", fmt.Sprintf("schnorr.ParsePubKey rejects %x: %v", V.xonly(), err), rep)
			return true, nil
		}
		lib = sig.Verify(vmsg, pk)
	case "direct":
		lib = schnorr.NewSignature(fieldOf(r), scalarOf(s)).Verify(vmsg, pubObj(V))
	}
	what := fmt.Sprintf("BIP340 %s/%s/%s key=%x msg=%x sig=%x", origin, mut, enc, V.compressed(), vmsg, msig)
	return true, judgeVerify(ctx, c, want, kind, ref, lib, what, rep)
}
