package sighash

import (
	"bytes"
	"crypto/sha256"
	"encoding/binary"
	"fmt"
	"math/rand"

	"github.com/btcsuite/btcd/btcec/v2"
	"github.com/btcsuite/btcd/btcec/v2/schnorr"
	"github.com/btcsuite/btcd/wire/v2"
	"golang.org/x/crypto/ripemd160"

	"verif/harness/internal/tla"
)

// An abstract value of the specification is the tuple <<owner, index, field,
// generation>>.

func isVal(v tla.Value) bool {
	return v.Kind == tla.KSeq && len(v.Elems) == 4 && v.Elems[0].Kind == tla.KStr && v.Elems[1].Kind == tla.KInt &&
		v.Elems[2].Kind == tla.KStr && v.Elems[3].Kind == tla.KInt
}

func valEq(a, b tla.Value) bool {
	return a.Elems[0].S == b.Elems[0].S && a.Elems[1].I == b.Elems[1].I && a.Elems[2].S == b.Elems[2].S && a.Elems[3].I == b.Elems[3].I
}

func isNone(v tla.Value) bool { return v.Elems[0].S == "none" }

func mkVal(o string, i int, f string) tla.Value {
	return tla.Value{Kind: tla.KSeq, Elems: []tla.Value{tla.StrV(o), tla.IntV(i), tla.StrV(f), tla.IntV(0)}}
}

var noneVal = mkVal("none", 0, "")

func bump(v tla.Value) tla.Value {
	return tla.Value{Kind: tla.KSeq, Elems: []tla.Value{v.Elems[0], v.Elems[1], v.Elems[2], tla.IntV(int(v.Elems[3].I) + 1)}}
}

func vkey(v tla.Value) string {
	return fmt.Sprintf("%s/%d/%s/%d", v.Elems[0].S, v.Elems[1].I, v.Elems[2].S, v.Elems[3].I)
}

func fieldKey(v tla.Value) string {
	return fmt.Sprintf("%s/%d/%s", v.Elems[0].S, v.Elems[1].I, v.Elems[2].S)
}

// conc maps abstract values to concrete bytes (random per seed and case) and
// abstract keys to private keys.
type conc struct {
	rng  *rand.Rand
	vals map[string][]byte
	keys map[string]*btcec.PrivateKey
}

func newConc(rng *rand.Rand) *conc {
	return &conc{rng: rng, vals: map[string][]byte{}, keys: map[string]*btcec.PrivateKey{}}
}

func (c *conc) random(n int) []byte {
	b := make([]byte, n)
	c.rng.Read(b)
	return b
}

// scriptLen draws the length of a byte string so that the compact-size
// boundaries (0, 252, 253) are met now and then.
func (c *conc) scriptLen() int {
	switch r := c.rng.Intn(20); {
	case r == 0:
		return 0
	case r == 1:
		return 252 + c.rng.Intn(3)
	case r == 2:
		return 256 + c.rng.Intn(300)
	default:
		return 1 + c.rng.Intn(40)
	}
}

func (c *conc) gen(v tla.Value) []byte {
	switch v.Elems[0].S {
	case "annex":
		b := c.random(1 + c.scriptLen())
		b[0] = 0x50
		return b
	case "push":
		n := 2 + c.rng.Intn(60)
		if c.rng.Intn(8) == 0 {
			n = 74 + c.rng.Intn(8) // around the OP_PUSHDATA1 boundary
		}
		return c.random(n)
	}
	switch f := v.Elems[2].S; f {
	case "version", "locktime", "previndex", "sequence":
		b := c.random(4)
		if f == "previndex" && c.rng.Intn(2) == 0 {
			b = []byte{byte(c.rng.Intn(4)), 0, 0, 0}
		}
		if f == "sequence" {
			switch c.rng.Intn(4) {
			case 0:
				b = []byte{0xff, 0xff, 0xff, 0xff}
			case 1:
				b = []byte{0, 0, 0, 0}
			}
		}
		if f == "version" && c.rng.Intn(2) == 0 {
			b = []byte{byte(1 + c.rng.Intn(2)), 0, 0, 0}
		}
		return b
	case "amount", "value":
		b := make([]byte, 8)
		switch c.rng.Intn(10) {
		case 0:
			c.rng.Read(b) // any 64 bits, negative amounts included
		case 1:
			// zero
		default:
			binary.LittleEndian.PutUint64(b, uint64(c.rng.Int63n(2_100_000_000_000_000)))
		}
		return b
	case "prevhash":
		return c.random(32)
	case "pkscript":
		switch c.rng.Intn(4) {
		case 0: // looks like a taproot output
			return append([]byte{0x51, 0x20}, c.random(32)...)
		case 1: // looks like P2WPKH
			return append([]byte{0x00, 0x14}, c.random(20)...)
		default:
			return c.random(c.scriptLen())
		}
	case "sigscript", "witness":
		return c.random(c.scriptLen())
	}
	panic(fmt.Sprintf("sighash: no concretisation for value %s", v))
}

// bytesOf returns the concrete bytes of an abstract value. A later generation
// of the same field differs from the earlier ones.
func (c *conc) bytesOf(v tla.Value) []byte {
	k := vkey(v)
	if b, ok := c.vals[k]; ok {
		return b
	}
	for {
		b := c.gen(v)
		fresh := true
		for g := int(v.Elems[3].I) - 1; g >= 0 && fresh; g-- {
			prev := tla.Value{Kind: tla.KSeq, Elems: []tla.Value{v.Elems[0], v.Elems[1], v.Elems[2], tla.IntV(g)}}
			if pb, ok := c.vals[vkey(prev)]; ok && bytes.Equal(pb, b) {
				fresh = false
			}
		}
		if fresh {
			c.vals[k] = b
			return b
		}
	}
}

func (c *conc) u32(v tla.Value) uint32 { return binary.LittleEndian.Uint32(c.bytesOf(v)) }
func (c *conc) i64(v tla.Value) int64  { return int64(binary.LittleEndian.Uint64(c.bytesOf(v))) }

// witnessOf turns the bytes of a witness value into a witness stack.
func (c *conc) witnessOf(v tla.Value) wire.TxWitness {
	b := c.bytesOf(v)
	if len(b) == 0 {
		return nil
	}
	if len(b) > 8 {
		return wire.TxWitness{b[:len(b)/2], b[len(b)/2:]}
	}
	return wire.TxWitness{b}
}

func (c *conc) key(v tla.Value) *btcec.PrivateKey {
	k := vkey(v)
	if p, ok := c.keys[k]; ok {
		return p
	}
	for {
		b := c.random(32)
		var s btcec.ModNScalar
		if overflow := s.SetByteSlice(b); overflow || s.IsZero() {
			continue
		}
		p, _ := btcec.PrivKeyFromBytes(b)
		dup := false
		for _, q := range c.keys {
			if q.Key.Equals(&p.Key) {
				dup = true
			}
		}
		if dup {
			continue
		}
		c.keys[k] = p
		return p
	}
}

func hash160(b []byte) []byte {
	h := sha256.Sum256(b)
	r := ripemd160.New()
	r.Write(h[:])
	return r.Sum(nil)
}

func sha256d(b []byte) []byte {
	a := sha256.Sum256(b)
	d := sha256.Sum256(a[:])
	return d[:]
}

func taggedHash(tag string, msg []byte) []byte {
	t := sha256.Sum256([]byte(tag))
	h := sha256.New()
	h.Write(t[:])
	h.Write(t[:])
	h.Write(msg)
	return h.Sum(nil)
}

// pushData is the smallest push of data (CScript() << data).
func pushData(d []byte) []byte {
	switch {
	case len(d) < 0x4c:
		return append([]byte{byte(len(d))}, d...)
	case len(d) <= 0xff:
		return append([]byte{0x4c, byte(len(d))}, d...)
	default:
		return append([]byte{0x4d, byte(len(d)), byte(len(d) >> 8)}, d...)
	}
}

func xonly(p *btcec.PrivateKey) []byte { return schnorr.SerializePubKey(p.PubKey()) }
