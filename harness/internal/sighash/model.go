// Package sighash binds spec/sighash/Sighash.tla (property C07) to btcd's
// signature-hash code: TLC enumerates signing contexts (algorithm, hash type
// byte, transaction shape, input, script shape, annex) and every state carries
// the digest as a tree of tokens, the commitment set and the effect of every
// mutation. The binder gives the abstract field values random concrete bytes,
// renders the tree (it knows how to render a token, not which tokens a digest
// consists of) and compares with txscript's digest functions, with the script
// engine (a signature made over the specification's digest must verify; after
// a mutation it must keep or stop verifying as the specification says), across
// the midstate caches, and with the signing helpers.
package sighash

import (
	"bufio"
	"fmt"
	"io"
	"os"
	"path/filepath"
	"sort"
	"strings"
	"sync"
	"time"

	"verif/harness/internal/tla"
	"verif/harness/internal/tlc"
	"verif/harness/internal/vrun"
)

// dumpStates parses the file TLC's "-dump" writes ("State n:" followed by the
// state) on several goroutines. The order of the states does not matter to
// the replays: each case seeds its random values from its own contents.
func dumpStates(path string, workers int, fn func(tla.State)) (int, error) {
	f, err := os.Open(path)
	if err != nil {
		return 0, err
	}
	defer f.Close()
	chunks := make(chan string, 256)
	var mu sync.Mutex
	n := 0
	var first error
	var wg sync.WaitGroup
	for w := 0; w < workers; w++ {
		wg.Add(1)
		go func() {
			defer wg.Done()
			for ch := range chunks {
				st, perr := tla.ParseState(ch)
				mu.Lock()
				if perr != nil {
					if first == nil {
						first = perr
					}
				} else {
					n++
				}
				mu.Unlock()
				if perr == nil {
					fn(st)
				}
			}
		}()
	}
	br := bufio.NewReaderSize(f, 1<<20)
	var cur strings.Builder
	in := false
	flush := func() {
		if in && cur.Len() > 0 {
			chunks <- cur.String()
		}
		cur.Reset()
	}
	var rerr error
	for {
		line, e := br.ReadString('\n')
		if strings.HasPrefix(line, "State ") && strings.HasSuffix(strings.TrimSpace(line), ":") {
			flush()
			in = true
		} else if in {
			cur.WriteString(line)
		}
		if e == io.EOF {
			break
		}
		if e != nil {
			rerr = e
			break
		}
	}
	flush()
	close(chunks)
	wg.Wait()
	if rerr != nil {
		return n, rerr
	}
	return n, first
}

var specActions = []string{"Group", "PickShapeCase", "PickScriptCase", "PickByteCase", "PickSignerCase"}

// model runs TLC on Sighash.tla and hands every enumerated state to fn (on
// `workers` goroutines).
func model(c *vrun.Ctx, workers int, fn func(tla.State)) error {
	cfg := "Sighash_quick.cfg"
	if c.Thorough {
		cfg = "Sighash_thorough.cfg"
	}
	dump := filepath.Join(c.Scratch, "sighash-graph")
	tlcWorkers := 4
	if c.Thorough {
		tlcWorkers = 6
	}
	res, err := tlc.Run(tlc.Opts{SpecDir: c.SpecDir("sighash"), Module: "Sighash", Config: cfg, Workers: tlcWorkers,
		Timeout: 28 * time.Minute, Coverage: c.Thorough, Scratch: c.Scratch, HeapGB: 6,
		Extra: []string{"-dump", dump}})
	if err != nil {
		return err
	}
	if !res.OK {
		return fmt.Errorf("Sighash.tla: TLC reports %s %s on the specification itself (not a verdict about btcd)", res.ErrKind, res.ErrName)
	}
	c.Logf("Sighash.tla: %d distinct states, %d generated, %.1fs", res.Distinct, res.Generated, res.WallS)
	c.AddModel(res.Distinct, res.Generated)
	c.SetExtra("tlc_sighash", map[string]any{"distinct": res.Distinct, "generated": res.Generated, "wall_s": res.WallS})
	if c.Thorough {
		for _, a := range specActions {
			if res.ActionCount[a] == 0 {
				return fmt.Errorf("Sighash.tla: action %s never taken (coverage %v)", a, res.ActionCount)
			}
		}
	}
	n, err := dumpStates(dump+".dump", workers, fn)
	if err != nil {
		return fmt.Errorf("Sighash.tla dump: %w", err)
	}
	os.Remove(dump + ".dump")
	if int64(n) != res.Distinct {
		return fmt.Errorf("Sighash.tla: dump has %d states, TLC reported %d", n, res.Distinct)
	}
	return nil
}

// stats counts cases per kind.
type stats struct {
	mu sync.Mutex
	m  map[string]int
}

func newStats() *stats { return &stats{m: map[string]int{}} }

func (s *stats) add(k string, n int) {
	s.mu.Lock()
	s.m[k] += n
	s.mu.Unlock()
}

func (s *stats) get(k string) int {
	s.mu.Lock()
	defer s.mu.Unlock()
	return s.m[k]
}

func (s *stats) String() string {
	s.mu.Lock()
	defer s.mu.Unlock()
	ks := make([]string, 0, len(s.m))
	for k := range s.m {
		ks = append(ks, k)
	}
	sort.Strings(ks)
	var sb strings.Builder
	for i, k := range ks {
		if i > 0 {
			sb.WriteString(" ")
		}
		fmt.Fprintf(&sb, "%s=%d", k, s.m[k])
	}
	return sb.String()
}

func (s *stats) export() map[string]int {
	s.mu.Lock()
	defer s.mu.Unlock()
	out := map[string]int{}
	for k, v := range s.m {
		out[k] = v
	}
	return out
}

// firstErr keeps the first infrastructure error of parallel workers.
type firstErr struct {
	mu  sync.Mutex
	err error
}

func (f *firstErr) set(err error) {
	if err == nil {
		return
	}
	f.mu.Lock()
	if f.err == nil {
		f.err = err
	}
	f.mu.Unlock()
}

func (f *firstErr) get() error {
	f.mu.Lock()
	defer f.mu.Unlock()
	return f.err
}

// guard turns a panic of the code under test into a value.
func guard(f func()) (p any) {
	defer func() {
		if r := recover(); r != nil {
			p = r
		}
	}()
	f()
	return nil
}

func clip(s string, n int) string {
	if len(s) > n {
		return s[:n] + "..."
	}
	return s
}
