package sighash

import (
	"fmt"

	"verif/harness/internal/tla"
)

// The mutations of the specification (MutTx / MutCtx), applied to the
// transaction record, the context and the library arguments the binder
// builds the real objects from. What a mutation does to the DIGEST is not
// decided here: that is the `changes` flag of the state.

// substVal returns v with every occurrence of the abstract value a replaced
// by its next generation.
func substVal(v, a tla.Value) tla.Value {
	if isVal(v) {
		if valEq(v, a) {
			return bump(v)
		}
		return v
	}
	switch v.Kind {
	case tla.KSeq, tla.KSet:
		out := tla.Value{Kind: v.Kind, Elems: make([]tla.Value, len(v.Elems))}
		for i, e := range v.Elems {
			out.Elems[i] = substVal(e, a)
		}
		return out
	case tla.KRec:
		out := tla.Value{Kind: tla.KRec, Fields: make(map[string]tla.Value, len(v.Fields))}
		for k, e := range v.Fields {
			out.Fields[k] = substVal(e, a)
		}
		return out
	}
	return v
}

func withField(rec tla.Value, name string, val tla.Value) tla.Value {
	out := tla.Value{Kind: tla.KRec, Fields: make(map[string]tla.Value, len(rec.Fields))}
	for k, e := range rec.Fields {
		out.Fields[k] = e
	}
	out.Fields[name] = val
	return out
}

func seqV(el []tla.Value) tla.Value { return tla.Value{Kind: tla.KSeq, Elems: el} }

func recV(kv ...any) tla.Value {
	out := tla.Value{Kind: tla.KRec, Fields: map[string]tla.Value{}}
	for i := 0; i < len(kv); i += 2 {
		out.Fields[kv[i].(string)] = kv[i+1].(tla.Value)
	}
	return out
}

func newIn(i int) tla.Value {
	return recV("ph", mkVal("in", i, "prevhash"), "pi", mkVal("in", i, "previndex"), "seq", mkVal("in", i, "sequence"),
		"amt", mkVal("in", i, "amount"), "pks", mkVal("in", i, "pkscript"), "ss", mkVal("in", i, "sigscript"), "wit", mkVal("in", i, "witness"))
}

func newOut(j int) tla.Value {
	return recV("val", mkVal("out", j, "value"), "pk", mkVal("out", j, "pkscript"))
}

func without(s []tla.Value, k int) []tla.Value { // k 1-based
	out := append([]tla.Value(nil), s[:k-1]...)
	return append(out, s[k:]...)
}

func swapped(s []tla.Value, a, b int) []tla.Value { // 1-based
	out := append([]tla.Value(nil), s...)
	out[a-1], out[b-1] = out[b-1], out[a-1]
	return out
}

// muParts splits a mutation <<kind, value, number>>.
func muParts(mu tla.Value) (string, tla.Value, int) {
	return mu.Elems[0].S, mu.Elems[1], mu.Elems[2].Int()
}

// applyMut returns the mutated transaction record, context and library
// arguments.
func applyMut(txr, ctx, api, mu tla.Value) (tla.Value, tla.Value, tla.Value, error) {
	m, a, n := muParts(mu)
	ins := txr.F("ins").Seq()
	outs := txr.F("outs").Seq()
	idx := ctx.F("idx").Int()
	switch m {
	case "field":
		txr = substVal(txr, a)
		if an := ctx.F("annex"); !isNone(an) && valEq(an, a) {
			ctx = withField(ctx, "annex", bump(an))
		}
	case "item":
		ctx = withField(ctx, "script", substVal(ctx.F("script"), a))
		if valEq(ctx.F("key"), a) {
			ctx = withField(ctx, "key", bump(a))
		}
		api = withField(api, "script", substVal(api.F("script"), a))
	case "addin":
		txr = withField(txr, "ins", seqV(append(append([]tla.Value(nil), ins...), newIn(9))))
	case "prependin":
		txr = withField(txr, "ins", seqV(append([]tla.Value{newIn(0)}, ins...)))
		ctx = withField(ctx, "idx", tla.IntV(idx+1))
	case "delin":
		if n < 1 || n > len(ins) || n == idx {
			return txr, ctx, api, fmt.Errorf("delin %d with %d inputs, signing %d", n, len(ins), idx)
		}
		txr = withField(txr, "ins", seqV(without(ins, n)))
		if n < idx {
			ctx = withField(ctx, "idx", tla.IntV(idx-1))
		}
	case "swapins":
		if len(ins) != 3 {
			return txr, ctx, api, fmt.Errorf("swapins with %d inputs", len(ins))
		}
		o := [][2]int{{2, 3}, {1, 3}, {1, 2}}[idx-1]
		txr = withField(txr, "ins", seqV(swapped(ins, o[0], o[1])))
	case "addout":
		txr = withField(txr, "outs", seqV(append(append([]tla.Value(nil), outs...), newOut(9))))
	case "delout":
		if len(outs) == 0 {
			return txr, ctx, api, fmt.Errorf("delout without outputs")
		}
		txr = withField(txr, "outs", seqV(without(outs, len(outs))))
	case "swapouts":
		if len(outs) < 2 {
			return txr, ctx, api, fmt.Errorf("swapouts with %d outputs", len(outs))
		}
		txr = withField(txr, "outs", seqV(swapped(outs, 1, 2)))
	case "hashtype":
		ctx = withField(ctx, "ht", tla.IntV(n))
	case "dropannex":
		ctx = withField(ctx, "annex", noneVal)
	case "addannex":
		ctx = withField(ctx, "annex", mkVal("annex", 0, ""))
	default:
		return txr, ctx, api, fmt.Errorf("unknown mutation %q", m)
	}
	return txr, ctx, api, nil
}

// mutName names the mutation relative to the signed input, for keys and
// statistics: "field:own-sequence", "field:other-amount", "field:out-own-value",
// "item:before-separator", "addout", ...
func mutName(txr, ctx, mu tla.Value) string {
	m, a, n := muParts(mu)
	idx := ctx.F("idx").Int()
	switch m {
	case "field":
		switch a.Elems[0].S {
		case "in":
			who := "other"
			for p, in := range txr.F("ins").Seq() {
				if p+1 == idx && in.F("ph").Elems[1].I == a.Elems[1].I {
					who = "own"
				}
			}
			return "field:" + who + "-" + a.Elems[2].S
		case "out":
			who := "other"
			for p, o := range txr.F("outs").Seq() {
				if p+1 == idx && o.F("val").Elems[1].I == a.Elems[1].I {
					who = "matching"
				}
			}
			return "field:" + who + "-output-" + a.Elems[2].S
		case "annex":
			return "field:annex"
		}
		return "field:" + a.Elems[2].S
	case "item":
		return "item:" + a.Elems[0].S
	case "hashtype":
		return fmt.Sprintf("hashtype:%d", n)
	case "delin":
		if n < idx {
			return "delin:before"
		}
		return "delin:after"
	}
	return m
}
