package sighash

import (
	"bytes"
	"crypto/sha256"
	"encoding/binary"
	"fmt"

	"github.com/btcsuite/btcd/wire/v2"

	"verif/harness/internal/tla"
)

// renderer turns tokens and script items of the specification into bytes. It
// knows the encoding of each token kind and nothing about which tokens make up
// a digest.
type renderer struct {
	c     *conc
	over  map[string][]byte // values fixed by the spend (own previous output script, signatures)
	xonly bool              // keys are 32-byte x-only keys (tapscript)
}

func (r *renderer) val(v tla.Value) []byte {
	if b, ok := r.over[vkey(v)]; ok {
		return b
	}
	return r.c.bytesOf(v)
}

func (r *renderer) sized(v tla.Value, n int) ([]byte, error) {
	b := r.val(v)
	if len(b) != n {
		return nil, fmt.Errorf("value %s has %d bytes, token wants %d", v, len(b), n)
	}
	return b, nil
}

func writeCompact(w *bytes.Buffer, n uint64) {
	switch {
	case n < 0xfd:
		w.WriteByte(byte(n))
	case n <= 0xffff:
		w.WriteByte(0xfd)
		binary.Write(w, binary.LittleEndian, uint16(n))
	case n <= 0xffffffff:
		w.WriteByte(0xfe)
		binary.Write(w, binary.LittleEndian, uint32(n))
	default:
		w.WriteByte(0xff)
		binary.Write(w, binary.LittleEndian, n)
	}
}

func (r *renderer) seq(w *bytes.Buffer, s tla.Value) error {
	for _, t := range s.Seq() {
		if err := r.tok(w, t); err != nil {
			return err
		}
	}
	return nil
}

func (r *renderer) inner(of tla.Value) ([]byte, error) {
	var b bytes.Buffer
	if err := r.seq(&b, of); err != nil {
		return nil, err
	}
	return b.Bytes(), nil
}

// A token is the tuple <<kind, payload...>>.
func (r *renderer) tok(w *bytes.Buffer, t tla.Value) error {
	if t.Kind != tla.KSeq || len(t.Elems) == 0 || t.Elems[0].Kind != tla.KStr {
		return fmt.Errorf("not a token: %s", t)
	}
	arg := func(i int) tla.Value {
		if i >= len(t.Elems) {
			panic(fmt.Sprintf("token %s has no payload %d", t, i))
		}
		return t.Elems[i]
	}
	switch k := t.Elems[0].S; k {
	case "u8":
		n := arg(1).Int()
		if n < 0 || n > 255 {
			return fmt.Errorf("u8 token out of range: %d", n)
		}
		w.WriteByte(byte(n))
	case "c32":
		n := arg(1).Int()
		if n < 0 {
			return fmt.Errorf("c32 token negative: %d", n)
		}
		binary.Write(w, binary.LittleEndian, uint32(n))
	case "ones32":
		w.Write([]byte{0xff, 0xff, 0xff, 0xff})
	case "cint":
		writeCompact(w, uint64(arg(1).Int()))
	case "f32":
		b, err := r.sized(arg(1), 4)
		if err != nil {
			return err
		}
		w.Write(b)
	case "f64":
		b, err := r.sized(arg(1), 8)
		if err != nil {
			return err
		}
		w.Write(b)
	case "raw32":
		b, err := r.sized(arg(1), 32)
		if err != nil {
			return err
		}
		w.Write(b)
	case "fvar":
		b := r.val(arg(1))
		writeCompact(w, uint64(len(b)))
		w.Write(b)
	case "code":
		b, err := r.items(arg(1))
		if err != nil {
			return err
		}
		writeCompact(w, uint64(len(b)))
		w.Write(b)
	case "neg64":
		w.Write(bytes.Repeat([]byte{0xff}, 8))
	case "zero32":
		w.Write(make([]byte, 32))
	case "hash256":
		b, err := r.inner(arg(1))
		if err != nil {
			return err
		}
		w.Write(sha256d(b))
	case "sha256":
		b, err := r.inner(arg(1))
		if err != nil {
			return err
		}
		h := sha256.Sum256(b)
		w.Write(h[:])
	case "tagged":
		b, err := r.inner(arg(2))
		if err != nil {
			return err
		}
		w.Write(taggedHash(arg(1).Str(), b))
	default:
		return fmt.Errorf("unknown token kind %q", k)
	}
	return nil
}

// digest renders a digest of the specification: 32 bytes, or nil when the
// specification says there is none.
func (r *renderer) digest(d tla.Value) ([]byte, error) {
	switch k := d.Elems[0].S; k {
	case "error":
		return nil, nil
	case "one":
		b := make([]byte, 32)
		b[0] = 1
		return b, nil
	case "hash256", "tagged":
		var w bytes.Buffer
		if err := r.tok(&w, d); err != nil {
			return nil, err
		}
		return w.Bytes(), nil
	default:
		return nil, fmt.Errorf("digest of kind %q", k)
	}
}

var plainOps = map[string]byte{
	"drop": 0x75, "sep": 0xab, "checksig": 0xac, "checksigadd": 0xba, "checkmultisig": 0xae,
	"dup": 0x76, "hash160": 0xa9, "equalverify": 0x88, "if": 0x63, "endif": 0x68,
	"zero": 0x00, "one": 0x51, "two": 0x52, "three": 0x53,
}

// item renders one script item: exactly one opcode.
func (r *renderer) item(it tla.Value) ([]byte, error) {
	op := it.Elems[0].S // an item is <<opcode name, data value, executed>>
	if b, ok := plainOps[op]; ok {
		return []byte{b}, nil
	}
	d := it.Elems[1]
	switch op {
	case "push":
		return pushData(r.val(d)), nil
	case "key":
		if r.xonly {
			return pushData(xonly(r.c.key(d))), nil
		}
		return pushData(r.c.key(d).PubKey().SerializeCompressed()), nil
	case "keyu":
		return pushData(r.c.key(d).PubKey().SerializeUncompressed()), nil
	case "keyhash":
		return pushData(hash160(r.c.key(d).PubKey().SerializeCompressed())), nil
	case "keyhashu":
		return pushData(hash160(r.c.key(d).PubKey().SerializeUncompressed())), nil
	case "pushsig":
		b, ok := r.over[vkey(d)]
		if !ok {
			return nil, fmt.Errorf("signature %s is not known yet", d)
		}
		return pushData(b), nil
	}
	return nil, fmt.Errorf("unknown script item %q", op)
}

func (r *renderer) items(its tla.Value) ([]byte, error) {
	var out []byte
	for _, it := range its.Seq() {
		b, err := r.item(it)
		if err != nil {
			return nil, err
		}
		out = append(out, b...)
	}
	return out, nil
}

// buildTx makes the wire transaction and the previous outputs of a
// transaction record of the specification. own (1-based, 0: none) is the
// input whose scripts the spend determines.
func (r *renderer) buildTx(txr tla.Value, own int, ownPk, ownSig []byte, ownWit wire.TxWitness) (*wire.MsgTx, []*wire.TxOut) {
	c := r.c
	tx := &wire.MsgTx{Version: int32(c.u32(txr.F("version"))), LockTime: c.u32(txr.F("locktime"))}
	var prev []*wire.TxOut
	for p, in := range txr.F("ins").Seq() {
		ti := &wire.TxIn{Sequence: c.u32(in.F("seq"))}
		copy(ti.PreviousOutPoint.Hash[:], c.bytesOf(in.F("ph")))
		ti.PreviousOutPoint.Index = c.u32(in.F("pi"))
		po := &wire.TxOut{Value: c.i64(in.F("amt"))}
		if p+1 == own {
			po.PkScript = ownPk
			ti.SignatureScript = ownSig
			ti.Witness = ownWit
		} else {
			po.PkScript = r.val(in.F("pks"))
			ti.SignatureScript = c.bytesOf(in.F("ss"))
			ti.Witness = c.witnessOf(in.F("wit"))
		}
		tx.TxIn = append(tx.TxIn, ti)
		prev = append(prev, po)
	}
	for _, o := range txr.F("outs").Seq() {
		tx.TxOut = append(tx.TxOut, &wire.TxOut{Value: c.i64(o.F("val")), PkScript: c.bytesOf(o.F("pk"))})
	}
	return tx, prev
}
