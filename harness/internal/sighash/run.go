package sighash

import (
	"encoding/json"
	"fmt"
	"os"

	"github.com/btcsuite/btcd/txscript/v2"

	"verif/harness/internal/tla"
	"verif/harness/internal/vrun"
)

// replayFile re-runs the single case a replay file records.
func (e *env) replayFile(path string) error {
	b, err := os.ReadFile(path)
	if err != nil {
		return err
	}
	var doc struct {
		Tier   string `json:"tier"`
		Seed   int64  `json:"seed"`
		Replay struct {
			Case   string          `json:"case_tla"`
			Expect string          `json:"expect_tla"`
			Base   json.RawMessage `json:"base"`
		} `json:"replay"`
	}
	if err := json.Unmarshal(b, &doc); err != nil {
		return fmt.Errorf("%s: %w", path, err)
	}
	cs, err := tla.ParseValue(doc.Replay.Case)
	if err != nil {
		return fmt.Errorf("%s: case: %w", path, err)
	}
	ex, err := tla.ParseValue(doc.Replay.Expect)
	if err != nil {
		return fmt.Errorf("%s: expect: %w", path, err)
	}
	e.c.Seed = doc.Seed
	if doc.Tier == "thorough" {
		e.reps = 3
	}
	st := tla.State{"case": cs, "expect": ex}
	if cs.F("kind").Str() == "sig" {
		e.sigCase(st)
	} else {
		e.signerCase(st)
	}
	if err := e.infra.get(); err != nil {
		return err
	}
	e.c.Logf("replayed %s: %s", path, e.st)
	return nil
}

// Run is the C07 check.
func Run(c *vrun.Ctx) error {
	c.Ev.Coverage.Rule = "TLC enumerates the signing contexts of Sighash.tla: algorithm (legacy, BIP143, BIP341 key path, BIP341+342 script path) x transaction shape (1-3 inputs, 0-3 outputs) x signed input x " +
		"hash type byte (one representative per behaviour class on all shapes, all 256 bytes on an input with and one without a matching output) x script shape (no separator, separators executed / not executed / after the check, " +
		"embedded signature push, CHECKMULTISIG, CHECKSIGADD, P2WPKH) x annex, with every single-field mutation, input/output insertion, removal and permutation, hash type and annex replacement; plus the signer table (standard output types x hash types; multisig cosigners signing in rounds x every pair of defined hash types x either order). " +
		"Every state carries the digest as a token tree, the commitment set and the effect of each mutation; each is replayed on a random concrete transaction: rendered digest = Calc*SignatureHash, a signature over the rendered digest verifies in the engine, " +
		"after each mutation the digest changes and the signature fails iff the specification says so, digests are equal across fresh midstates / shared HashCache / none, helper signatures are over the rendered digest and the helper's spend executes. " +
		"distinct_nontrivial counts distinct (algorithm, script shape, hash type class, input, shape, annex) contexts, hash type bytes, (class, mutation, effect) triples and signer rows."
	c.Assume("SHA-256 is collision free on the inputs used: different token trees render to different digests (the 'changes' oracle), and a signature is valid for one digest only")
	c.Assume("TLC evaluates the operators of Sighash.tla correctly; the lemmas relating Commits, Changes and the hash type classes are checked by TLC in every enumerated state")
	c.Assume("secp256k1 ECDSA / Schnorr signing and verification (btcec) and the taproot commitment arithmetic are trusted here (C11, C16); the binder signs with btcec and the engine verifies with it")
	c.Assume("script control flow is C06's subject: a script item the specification marks not executed sits in an OP_0 OP_IF branch, every item is one opcode")

	e := &env{c: c, st: newStats(), hashCache: txscript.NewHashCache(1 << 16), sigCache: txscript.NewSigCache(1 << 20), reps: 1}
	if c.Thorough {
		e.reps = 3
	}
	if c.Replay != "" {
		return e.replayFile(c.Replay)
	}
	workers := c.Workers
	if workers > 8 {
		workers = 8
	}
	err := model(c, workers, func(s tla.State) {
		kind := s["case"].F("kind").Str()
		if (kind != "sig" && kind != "signer") || e.infra.get() != nil {
			return
		}
		if p := guard(func() {
			if kind == "sig" {
				e.sigCase(s)
			} else {
				e.signerCase(s)
			}
		}); p != nil {
			e.infra.set(fmt.Errorf("harness panic on case %s: %v", clip(s["case"].String(), 400), p))
		}
	})
	if err != nil {
		return err
	}
	if err := e.infra.get(); err != nil {
		return err
	}
	c.Logf("replayed: %s", e.st)
	c.SetExtra("cases", e.st.export())
	for _, k := range []string{"sig:shape", "sig:script", "sig:byte", "signer", "mutations", "digest-compared", "engine-runs", "signer-signatures", "signer-rounds", "signer-rounds-anyonecanpay-differs"} {
		if e.st.get(k) == 0 {
			return fmt.Errorf("vacuous run: no %s", k)
		}
	}
	c.Ev.Coverage.Exhaustive = true
	c.Ev.Coverage.Explanation = "exhaustive means: TLC enumerated the complete case space of Sighash.tla for the tier's constants and every state was replayed into txscript on one random concretisation (per VERIF_SEED). " +
		"It does not mean all transactions or scripts: field values are sampled, shapes are bounded at 3 inputs / 3 outputs, script shapes are the listed ones."
	return nil
}
