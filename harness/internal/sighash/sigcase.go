package sighash

import (
	"bytes"
	"encoding/hex"
	"fmt"
	"hash/fnv"
	"math/rand"
	"strings"

	"github.com/btcsuite/btcd/txscript/v2"

	"verif/harness/internal/tla"
	"verif/harness/internal/vrun"
)

// env is what the replays of one run share.
type env struct {
	c         *vrun.Ctx
	st        *stats
	hashCache *txscript.HashCache // one midstate cache for all transactions of the run
	sigCache  *txscript.SigCache  // one signature cache for all engine runs of the run
	reps      int                 // random concretisations per case
	infra     firstErr
}

func caseRng(seed int64, s string) *rand.Rand {
	h := fnv.New64a()
	h.Write([]byte(s))
	return rand.New(rand.NewSource(seed*1000003 + int64(h.Sum64()>>1)))
}

func className(alg string, ht int) string {
	tap := alg == "keypath" || alg == "tapscript"
	if tap {
		switch ht {
		case 0:
			return "default"
		case 1, 2, 3, 129, 130, 131:
		default:
			return "invalid"
		}
	}
	base := "all"
	switch ht % 32 {
	case 2:
		base = "none"
	case 3:
		base = "single"
	}
	if ht >= 128 {
		base += "|acp"
	}
	return base
}

func hx(b []byte) string {
	if b == nil {
		return "none"
	}
	return hex.EncodeToString(b)
}

// sigReplay is what a replay file of a signature case holds.
func sigReplay(cs, ex tla.Value, p *plan, sp *spend, extra map[string]any) map[string]any {
	// case_tla / expect_tla are the state itself: `check.sh C07 --replay <file>`
	// re-runs exactly this case with the recorded seed
	m := map[string]any{"ctx": cs.F("ctx").Go(), "case_tla": cs.String(), "expect_tla": ex.String()}
	if ex.Has("digest") {
		m["expected_digest"] = ex.F("digest").String()
	} else {
		m["expected_digests"] = ex.F("digests").String()
	}
	if sp != nil {
		var buf bytes.Buffer
		sp.tx.Serialize(&buf)
		m["tx"] = hex.EncodeToString(buf.Bytes())
		m["input"] = sp.idx
		var prev []map[string]any
		for _, po := range sp.prev {
			prev = append(prev, map[string]any{"value": po.Value, "pkscript": hex.EncodeToString(po.PkScript)})
		}
		m["prevouts"] = prev
	}
	for k, v := range extra {
		m[k] = v
	}
	return m
}

// apiResult is the outcome of a digest function: a digest or "no digest".
type apiResult struct {
	d     []byte
	err   error
	avail bool
}

func (a apiResult) same(b apiResult) bool {
	if (a.err != nil) != (b.err != nil) {
		return false
	}
	return a.err != nil || bytes.Equal(a.d, b.d)
}

func (e *env) api(p *plan, sp *spend, api tla.Value, hashes *txscript.TxSigHashes, key string, replay map[string]any) (apiResult, bool) {
	d, err, avail, pnc := p.apiDigest(sp, api, hashes)
	if pnc != nil {
		e.c.Violation("digest:"+p.alg+":panics", fmt.Sprintf("the digest function of %s panics (%s): %v", p.alg, key, pnc), replay)
		return apiResult{}, false
	}
	return apiResult{d: d, err: err, avail: avail}, true
}

// ownField reports whether abstract value a is field f of the signed input.
func ownField(txr, ctx, a tla.Value, fields ...string) bool {
	in := txr.F("ins").Seq()[ctx.F("idx").Int()-1]
	for _, f := range fields {
		if valEq(in.F(f), a) {
			return true
		}
	}
	return false
}

// sigCase replays one signature case on e.reps random concretisations.
func (e *env) sigCase(st tla.State) {
	for rep := 0; rep < e.reps; rep++ {
		e.sigCaseOnce(st, rep)
	}
}

func (e *env) sigCaseOnce(st tla.State, rep int) {
	c := e.c
	cs, ex := st["case"], st["expect"]
	txr, ctx := cs.F("tx"), cs.F("ctx")
	fam := cs.F("fam").Str()
	alg := ctx.F("alg").Str()
	ht := ctx.F("ht").Int()
	cls := className(alg, ht)
	nin, nout := txr.F("ins").Len(), txr.F("outs").Len()
	annexed := !isNone(ctx.F("annex"))
	tag := fmt.Sprintf("%s/%s/%s/in%d-of-%d/out%d/annex=%v", alg, ctx.F("shape").Str(), cls, ctx.F("idx").Int(), nin, nout, annexed)
	cn := newConc(caseRng(c.Seed, fmt.Sprintf("%s#%d", cs.String(), rep)))
	c.AddTraces(1)
	e.st.add("sig:"+fam, 1)
	c.Distinct("sig/" + tag)
	if fam == "byte" {
		c.Distinct(fmt.Sprintf("byte/%s/%d", alg, ht))
	}

	p0, err := newPlan(cn, txr, ctx)
	if err != nil {
		e.infra.set(fmt.Errorf("%s: %w", tag, err))
		return
	}
	d0, err := p0.r.digest(ex.F("digest"))
	if err != nil {
		e.infra.set(fmt.Errorf("%s: rendering the specification's digest: %w", tag, err))
		return
	}
	// the signature: over the specification's digest; where there is none, over
	// something else (it must then be rejected whatever it signs)
	signed := d0
	if signed == nil {
		signed = cn.random(32)
	}
	core, err := p0.sign(signed)
	if err != nil {
		e.infra.set(fmt.Errorf("%s: signing: %w", tag, err))
		return
	}
	sp0, err := p0.spend(withHashType(alg, core, byte(ht)))
	if err != nil {
		e.infra.set(fmt.Errorf("%s: %w", tag, err))
		return
	}
	replay := sigReplay(cs, ex, p0, sp0, map[string]any{"rendered_digest": hx(d0)})
	before := replay["tx"].(string)
	defer func() {
		// computing digests and executing scripts leaves the transaction alone
		var buf bytes.Buffer
		sp0.tx.Serialize(&buf)
		c.AddEval(1)
		if after := hex.EncodeToString(buf.Bytes()); after != before {
			c.Violation("digest:"+alg+":"+cls+":transaction-modified", fmt.Sprintf("%s: the transaction is %s after digest computation and script execution, it was %s", tag, after, before), replay)
		}
	}()

	// (1) digest equality through the exported functions
	var fresh *txscript.TxSigHashes
	if pnc := guard(func() { fresh = txscript.NewTxSigHashes(sp0.tx, sp0.fetcher) }); pnc != nil {
		c.Violation("cache:"+alg+":midstate-panics", fmt.Sprintf("NewTxSigHashes panics: %v", pnc), replay)
		return
	}
	a0, ok := e.api(p0, sp0, ex.F("api"), fresh, tag, replay)
	if !ok {
		return
	}
	if a0.avail {
		c.AddEval(1)
		e.st.add("digest-compared", 1)
		switch {
		case d0 == nil && a0.err == nil:
			c.Violation("digest:"+alg+":"+cls+":digest-where-none-exists",
				fmt.Sprintf("%s: the specification defines no digest (the signature is invalid), the digest function returns %x", tag, a0.d), replay)
		case d0 != nil && a0.err != nil:
			c.Violation("digest:"+alg+":"+cls+":refused",
				fmt.Sprintf("%s: the digest function fails (%v), the specification's digest is %x", tag, a0.err, d0), replay)
		case d0 != nil && !bytes.Equal(d0, a0.d):
			c.Violation("digest:"+alg+":"+cls+":differs",
				fmt.Sprintf("%s: digest %x, the specification's layout gives %x", tag, a0.d, d0), replay)
		}
		// (3) the same digest whatever supplies the midstate
		var cached *txscript.TxSigHashes
		pnc := guard(func() {
			e.hashCache.AddSigHashes(sp0.tx, sp0.fetcher)
			h := sp0.tx.TxHash()
			cached, _ = e.hashCache.GetSigHashes(&h)
		})
		if pnc != nil || cached == nil {
			c.Violation("cache:"+alg+":hashcache-fails", fmt.Sprintf("%s: HashCache.AddSigHashes/GetSigHashes: panic %v, entry %v", tag, pnc, cached != nil), replay)
		} else if a1, ok := e.api(p0, sp0, ex.F("api"), cached, tag, replay); ok {
			c.AddEval(1)
			if !a0.same(a1) {
				c.Violation("cache:"+alg+":hashcache-digest-differs",
					fmt.Sprintf("%s: digest %s with midstates from a shared HashCache, %s with fresh ones", tag, hx(a1.d), hx(a0.d)), replay)
			}
		}
		if ctx.F("shape").Str() == "p2wpkh" && d0 != nil {
			// the library also takes the witness program itself for P2WPKH
			var d2 []byte
			var err2 error
			guard(func() {
				d2, err2 = txscript.CalcWitnessSigHash(sp0.pk, fresh, txscript.SigHashType(ht), sp0.tx, sp0.idx, sp0.amount)
			})
			c.AddEval(1)
			if err2 != nil || !bytes.Equal(d2, d0) {
				c.Violation("digest:v0:p2wpkh-program-form", fmt.Sprintf("%s: CalcWitnessSigHash with the P2WPKH program as script gives %x (%v), the specification %x", tag, d2, err2, d0), replay)
			}
		}
	}

	// engine: the signature over the specification's digest verifies, with
	// and without supplied midstates and signature cache
	want0 := d0 != nil
	acc0 := e.engine(sp0, fresh, want0, "digest:"+alg+":"+cls, tag+" (base)", replay)

	// (2) mutations
	muts := ex.F("muts").Seq()
	if len(muts) == 0 {
		return
	}
	commits := map[string]bool{}
	for _, f := range ex.F("commits").Set() {
		commits[fmt.Sprintf("%s/%d/%s", f.Elems[0].S, f.Elems[1].I, f.Elems[2].S)] = true
	}
	for _, mr := range muts {
		mu, changes := mr.Elems[0], mr.Elems[1].Bool()
		name := mutName(txr, ctx, mu)
		m, ma, _ := muParts(mu)
		if m == "field" || m == "item" {
			if commits[fieldKey(ma)] != changes {
				e.infra.set(fmt.Errorf("%s: specification inconsistent: mutation %s changes=%v but commits says %v", tag, mu, changes, !changes))
				return
			}
		}
		txr1, ctx1, api1, err := applyMut(txr, ctx, ex.F("api"), mu)
		if err != nil {
			e.infra.set(fmt.Errorf("%s: %w", tag, err))
			return
		}
		p1, err := newPlan(cn, txr1, ctx1)
		if err != nil {
			e.infra.set(fmt.Errorf("%s: mutation %s: %w", tag, name, err))
			return
		}
		ht1 := byte(ctx1.F("ht").Int())
		sp1, err := p1.spend(withHashType(alg, core, ht1))
		if err != nil {
			e.infra.set(fmt.Errorf("%s: mutation %s: %w", tag, name, err))
			return
		}
		mreplay := sigReplay(cs, ex, p1, sp1, map[string]any{"mutation": mu.Go(), "spec_changes": changes, "base": replay})
		e.st.add("mutations", 1)
		c.Distinct(fmt.Sprintf("mut/%s/%s/%s/%v", alg, cls, name, changes))
		dir := "digest-changes-but-field-not-committed"
		if changes {
			dir = "digest-unchanged-but-field-committed"
		}
		var fresh1 *txscript.TxSigHashes
		if pnc := guard(func() { fresh1 = txscript.NewTxSigHashes(sp1.tx, sp1.fetcher) }); pnc != nil {
			c.Violation("cache:"+alg+":midstate-panics", fmt.Sprintf("NewTxSigHashes panics: %v", pnc), mreplay)
			continue
		}
		if a0.avail {
			if a1, ok := e.api(p1, sp1, api1, fresh1, tag+" "+name, mreplay); ok && a1.avail {
				c.AddEval(1)
				e.st.add("mutation-digests", 1)
				if got := !a0.same(a1); got != changes {
					c.Violation("commit:"+alg+":"+cls+":"+name+":"+dir,
						fmt.Sprintf("%s: mutation %s: digest %s -> %s, the specification says changes=%v", tag, name, hx(a0.d), hx(a1.d), changes), mreplay)
				}
			}
		}
		// the engine: the old signature on the mutated spend. Fields that
		// the spend itself determines (own scripts) are only compared through
		// the digest functions.
		if m == "field" && ownField(txr, ctx, ma, "ss", "wit", "pks") {
			continue
		}
		if acc0 != want0 {
			continue // already reported on the unmutated spend
		}
		want1 := want0 && !changes
		if m == "item" && valEq(ma, ctx.F("key")) {
			want1 = false // another key: whatever the digest
		}
		e.engine(sp1, fresh1, want1, "commit:"+alg+":"+cls+":"+name, tag+" mutation "+name, mreplay)
	}
	shape := ctx.F("shape").Str()
	if rep == 0 && fam == "script" && ctx.F("idx").Int() == 1 && nin == 2 && nout == 2 &&
		((alg == "legacy" && shape == "sepEmbedSig" && ht == 3) || (alg == "v0" && shape == "liveThenDead" && ht == 130) ||
			(alg == "tapscript" && shape == "twoSeps" && ht == 1 && annexed)) {
		effects := map[string]bool{}
		for _, mr := range muts {
			effects[mutName(txr, ctx, mr.Elems[0])] = mr.Elems[1].Bool()
		}
		c.Sample(map[string]any{"kind": "signature case", "case": tag, "script": ctx.F("script").String(), "digest_layout": ex.F("digest").String(),
			"rendered_digest": hx(d0), "library_digest": hx(a0.d), "engine_accepts_signature_over_rendered_digest": acc0,
			"mutation_changes_digest": effects})
	}
}

// engine executes the spend with supplied midstates + shared signature cache
// and with neither, and compares both verdicts with want.
func (e *env) engine(sp *spend, hashes *txscript.TxSigHashes, want bool, key, what string, replay map[string]any) bool {
	c := e.c
	okA, pA := sp.run(consensusFlags, e.sigCache, hashes)
	okB, pB := sp.run(consensusFlags, nil, nil)
	c.AddEval(2)
	e.st.add("engine-runs", 2)
	alg := what[:strings.IndexByte(what, '/')]
	report := func(mode string, ok bool, pnc any) {
		switch {
		case pnc != nil && mode[0] == 'n':
			// one finding whatever the context: the engine cannot do without
			// supplied midstates
			c.Violation("cache:"+alg+":engine-without-midstates-panics", fmt.Sprintf("%s: the script engine panics (%s): %v", what, mode, pnc), replay)
		case pnc != nil:
			c.Violation(key+":engine-panics", fmt.Sprintf("%s: the script engine panics (%s): %v", what, mode, pnc), replay)
		case ok && !want:
			c.Violation(key+":still-verifies", fmt.Sprintf("%s: the signature verifies (%s) although the specification says it must not", what, mode), replay)
		case !ok && want:
			c.Violation(key+":rejected", fmt.Sprintf("%s: the signature is rejected (%s) although it signs the specification's digest of this transaction", what, mode), replay)
		}
	}
	report("midstates and signature cache supplied", okA, pA)
	if pB != nil || okB != okA {
		report("no midstates, no signature cache", okB, pB)
	}
	return okA
}
