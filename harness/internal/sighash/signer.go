package sighash

import (
	"bytes"
	"crypto/sha256"
	"errors"
	"fmt"
	"strings"

	"github.com/btcsuite/btcd/address/v2"
	"github.com/btcsuite/btcd/btcec/v2"
	"github.com/btcsuite/btcd/btcec/v2/ecdsa"
	"github.com/btcsuite/btcd/btcec/v2/schnorr"
	"github.com/btcsuite/btcd/chaincfg/v2"
	"github.com/btcsuite/btcd/txscript/v2"
	"github.com/btcsuite/btcd/wire/v2"

	"verif/harness/internal/tla"
)

var netParams = &chaincfg.MainNetParams

func p2sh(redeem []byte) []byte {
	return append(append([]byte{0xa9, 0x14}, hash160(redeem)...), 0x87)
}

func p2wsh(ws []byte) []byte {
	h := sha256.Sum256(ws)
	return append([]byte{0x00, 0x20}, h[:]...)
}

// dataPushes returns the data of every push of a script.
func dataPushes(script []byte) ([][]byte, error) {
	var out [][]byte
	t := txscript.MakeScriptTokenizer(0, script)
	for t.Next() {
		if t.Opcode() <= txscript.OP_PUSHDATA4 && t.Opcode() != txscript.OP_0 {
			out = append(out, t.Data())
		}
	}
	return out, t.Err()
}

// signerCase replays one signer case: the helper of the output type signs a
// concrete transaction; its signatures must be over the specification's digest
// and the spend must execute as the specification says.
func (e *env) signerCase(st tla.State) {
	for rep := 0; rep < e.reps; rep++ {
		e.signerCaseOnce(st, rep)
	}
}

func (e *env) signerCaseOnce(st tla.State, rep int) {
	c := e.c
	cs, ex := st["case"], st["expect"]
	txr, ctx := cs.F("tx"), cs.F("ctx")
	otype := cs.F("otype").Str()
	comp := cs.F("comp").Bool()
	alg := ctx.F("alg").Str()
	ht := byte(ctx.F("ht").Int())
	hType := txscript.SigHashType(ht)
	idx1 := ctx.F("idx").Int()
	// hts[i] is the hash type signer i signs with (all equal unless the
	// cosigners sign in rounds)
	hts := cs.F("hts").Ints()
	order := cs.F("order").Str()
	cls := className(alg, int(ht))
	mixed := false
	for _, h := range hts[1:] {
		if h != hts[0] {
			mixed = true
			cls = className(alg, hts[0]) + "+" + className(alg, h)
		}
	}
	tag := fmt.Sprintf("signer/%s/compressed=%v/%s/in%d-of-%d/out%d", otype, comp, cls, idx1, txr.F("ins").Len(), txr.F("outs").Len())
	if order != "once" {
		tag += "/" + order
		e.st.add("signer-rounds", 1)
		if mixed && hts[0]%32 == hts[1]%32 {
			e.st.add("signer-rounds-anyonecanpay-differs", 1)
		}
	}
	c.AddTraces(1)
	e.st.add("signer", 1)
	c.Distinct(tag)

	cn := newConc(caseRng(c.Seed, fmt.Sprintf("%s#%d", cs.String(), rep)))
	r := &renderer{c: cn, over: map[string][]byte{}, xonly: alg == "tapscript"}
	var keys []*btcec.PrivateKey
	for _, kv := range cs.F("keys").Seq() {
		keys = append(keys, cn.key(kv))
	}
	key := keys[0]
	pubOf := func(k *btcec.PrivateKey) []byte {
		if comp {
			return k.PubKey().SerializeCompressed()
		}
		return k.PubKey().SerializeUncompressed()
	}
	script, err := r.items(ctx.F("script"))
	if err != nil {
		e.infra.set(fmt.Errorf("%s: %w", tag, err))
		return
	}

	// the previous output
	var pk, ss, program, ctrl []byte
	var tapRoot []byte
	verifyKey := key.PubKey() // the key a schnorr signature must verify under
	switch {
	case otype == "p2pk" || otype == "p2pkh" || otype == "sigscript-p2pkh" || strings.HasPrefix(otype, "multisig-"):
		pk = script
	case otype == "p2sh-p2pk" || otype == "p2sh-p2pkh" || strings.HasPrefix(otype, "p2sh-multisig-"):
		pk = p2sh(script)
	case otype == "p2wpkh":
		pk = append([]byte{0x00, 0x14}, hash160(pubOf(key))...)
	case otype == "p2sh-p2wpkh":
		program = append([]byte{0x00, 0x14}, hash160(pubOf(key))...)
		pk, ss = p2sh(program), pushData(program)
	case otype == "p2wsh-p2pk" || otype == "p2wsh-multisig-2of3":
		pk = p2wsh(script)
	case otype == "p2sh-p2wsh-multisig-2of2":
		program = p2wsh(script)
		pk, ss = p2sh(program), pushData(program)
	case otype == "p2tr-bip86":
		verifyKey = txscript.ComputeTaprootKeyNoScript(key.PubKey())
		pk = append([]byte{0x51, 0x20}, schnorr.SerializePubKey(verifyKey)...)
	case otype == "p2tr-keypath-with-root":
		other := txscript.NewBaseTapLeaf(append(pushData(xonly(cn.key(mkVal("key", 98, "other")))), 0xac))
		root := txscript.AssembleTaprootScriptTree(other).RootNode.TapHash()
		tapRoot = root[:]
		verifyKey = txscript.ComputeTaprootOutputKey(key.PubKey(), tapRoot)
		pk = append([]byte{0x51, 0x20}, schnorr.SerializePubKey(verifyKey)...)
	case otype == "p2tr-leaf":
		internal := cn.key(internalKeyVal).PubKey()
		tree := txscript.AssembleTaprootScriptTree(txscript.NewBaseTapLeaf(script))
		root := tree.RootNode.TapHash()
		out := txscript.ComputeTaprootOutputKey(internal, root[:])
		cb := tree.LeafMerkleProofs[0].ToControlBlock(internal)
		if ctrl, err = cb.ToBytes(); err != nil {
			e.infra.set(err)
			return
		}
		pk = append([]byte{0x51, 0x20}, schnorr.SerializePubKey(out)...)
	default:
		e.infra.set(fmt.Errorf("unknown output type %q", otype))
		return
	}
	if alg == "keypath" || alg == "tapscript" {
		r.over[vkey(txr.F("ins").Seq()[idx1-1].F("pks"))] = pk
	}
	tx, prev := r.buildTx(txr, idx1, pk, ss, nil)
	idx := idx1 - 1
	amt := prev[idx].Value
	lookup := map[wire.OutPoint]*wire.TxOut{}
	for i, in := range tx.TxIn {
		lookup[in.PreviousOutPoint] = prev[i]
	}
	sp := &spend{tx: tx, prev: prev, idx: idx, pk: pk, amount: amt, fetcher: txscript.NewMultiPrevOutFetcher(lookup)}
	var wants [][]byte // the digest of every signer, for the signer's own hash type
	var wantHex []string
	for _, d := range ex.F("digests").Seq() {
		w, err := r.digest(d)
		if err != nil {
			e.infra.set(fmt.Errorf("%s: rendering the specification's digest: %w", tag, err))
			return
		}
		wants = append(wants, w)
		wantHex = append(wantHex, hx(w))
	}
	if len(wants) != len(keys) || len(hts) != len(keys) {
		e.infra.set(fmt.Errorf("%s: %d signers, %d hash types, %d digests", tag, len(keys), len(hts), len(wants)))
		return
	}
	replay := sigReplay(cs, ex, nil, sp, map[string]any{"otype": otype, "rendered_digests": wantHex, "hash_types": hts, "order": order})

	// key and script lookups for SignTxOutput
	byAddr := map[string]struct {
		k *btcec.PrivateKey
		c bool
	}{}
	for i := 1; i <= 3; i++ {
		k := cn.key(mkVal("key", i, ""))
		for _, cmp := range []bool{true, false} {
			ser := k.PubKey().SerializeCompressed()
			if !cmp {
				ser = k.PubKey().SerializeUncompressed()
			}
			a, aerr := address.NewAddressPubKey(ser, netParams)
			if aerr != nil {
				e.infra.set(aerr)
				return
			}
			byAddr[a.EncodeAddress()] = struct {
				k *btcec.PrivateKey
				c bool
			}{k, cmp}
		}
	}
	only := map[*btcec.PrivateKey]bool{} // empty: every key is available
	kdb := txscript.KeyClosure(func(a address.Address) (*btcec.PrivateKey, bool, error) {
		if en, ok := byAddr[a.EncodeAddress()]; ok && (len(only) == 0 || only[en.k]) {
			return en.k, en.c, nil
		}
		return nil, false, errors.New("no key")
	})
	sdb := txscript.ScriptClosure(func(a address.Address) ([]byte, error) { return script, nil })

	var hashes *txscript.TxSigHashes
	var sigs [][]byte
	var herr error
	pnc := guard(func() {
		hashes = txscript.NewTxSigHashes(tx, sp.fetcher)
		in := tx.TxIn[idx]
		switch {
		case alg == "legacy" && otype == "sigscript-p2pkh":
			in.SignatureScript, herr = txscript.SignatureScript(tx, idx, pk, hType, key, comp)
		case alg == "legacy" && strings.HasSuffix(otype, "-merged"):
			// one signer per round, each with its own hash type; every round
			// gets the result of the previous one to merge with
			var prevScript []byte
			for n := 0; n < len(keys) && herr == nil; n++ {
				i := n
				if order == "last-key-first" {
					i = len(keys) - 1 - n
				}
				only = map[*btcec.PrivateKey]bool{keys[i]: true}
				prevScript, herr = txscript.SignTxOutput(netParams, tx, idx, pk, txscript.SigHashType(hts[i]), kdb, sdb, prevScript)
			}
			only = map[*btcec.PrivateKey]bool{}
			in.SignatureScript = prevScript
		case alg == "legacy":
			in.SignatureScript, herr = txscript.SignTxOutput(netParams, tx, idx, pk, hType, kdb, sdb, nil)
		case otype == "p2wpkh":
			in.Witness, herr = txscript.WitnessSignature(tx, hashes, idx, amt, pk, hType, key, comp)
		case otype == "p2sh-p2wpkh":
			in.Witness, herr = txscript.WitnessSignature(tx, hashes, idx, amt, program, hType, key, comp)
		case alg == "v0":
			wit := wire.TxWitness{}
			if len(keys) > 1 {
				wit = append(wit, []byte{})
			}
			for _, k := range keys {
				var s []byte
				if s, herr = txscript.RawTxInWitnessSignature(tx, hashes, idx, amt, script, hType, k); herr != nil {
					return
				}
				wit = append(wit, s)
			}
			in.Witness = append(wit, script)
		case otype == "p2tr-bip86":
			in.Witness, herr = txscript.TaprootWitnessSignature(tx, hashes, idx, amt, pk, hType, key)
		case otype == "p2tr-keypath-with-root":
			var s []byte
			if s, herr = txscript.RawTxInTaprootSignature(tx, hashes, idx, amt, pk, tapRoot, hType, key); herr == nil {
				in.Witness = wire.TxWitness{s}
			}
		case otype == "p2tr-leaf":
			var s []byte
			if s, herr = txscript.RawTxInTapscriptSignature(tx, hashes, idx, amt, pk, txscript.NewBaseTapLeaf(script), hType, key); herr == nil {
				in.Witness = wire.TxWitness{s, script, ctrl}
			}
		}
	})
	c.AddEval(1)
	if pnc != nil {
		c.Violation("signer:"+otype+":panics", fmt.Sprintf("%s: the signing helper panics: %v", tag, pnc), replay)
		return
	}
	wantErr := ex.F("err").Bool()
	if (herr != nil) != wantErr {
		if wantErr {
			c.Violation("signer:"+otype+":"+cls+":signs-without-digest", fmt.Sprintf("%s: the helper signs although the specification defines no digest for this hash type / input", tag), replay)
		} else {
			c.Violation("signer:"+otype+":"+cls+":refuses", fmt.Sprintf("%s: the helper fails: %v", tag, herr), replay)
		}
		return
	}
	if herr != nil {
		e.st.add("signer-refusals", 1)
		return
	}
	var buf bytes.Buffer
	tx.Serialize(&buf)
	replay["signed_tx"] = hx(buf.Bytes())

	// the signatures the helper produced
	in := tx.TxIn[idx]
	switch {
	case alg == "legacy":
		pushes, perr := dataPushes(in.SignatureScript)
		if perr != nil {
			c.Violation("signer:"+otype+":unparsable-script", fmt.Sprintf("%s: the signature script does not parse: %v", tag, perr), replay)
			return
		}
		for _, d := range pushes {
			if len(d) > 8 && d[0] == 0x30 && !bytes.Equal(d, script) {
				sigs = append(sigs, d)
			}
		}
	case otype == "p2wpkh" || otype == "p2sh-p2wpkh":
		if len(in.Witness) == 2 {
			sigs = [][]byte{in.Witness[0]}
			if !bytes.Equal(in.Witness[1], pubOf(key)) {
				c.Violation("signer:"+otype+":wrong-pubkey", fmt.Sprintf("%s: the witness carries public key %x", tag, in.Witness[1]), replay)
			}
		}
	case alg == "v0":
		for _, w := range in.Witness[:len(in.Witness)-1] {
			if len(w) > 0 {
				sigs = append(sigs, w)
			}
		}
	default:
		sigs = [][]byte{in.Witness[0]}
	}
	if len(sigs) != len(keys) {
		c.Violation("signer:"+otype+":signature-count", fmt.Sprintf("%s: %d signatures, %d signers", tag, len(sigs), len(keys)), replay)
		return
	}
	for i, s := range sigs {
		c.AddEval(1)
		e.st.add("signer-signatures", 1)
		good := false
		want, ht := wants[i], byte(hts[i])
		if alg == "legacy" || alg == "v0" {
			if s[len(s)-1] == ht {
				if ps, perr := ecdsa.ParseDERSignature(s[:len(s)-1]); perr == nil {
					good = ps.Verify(want, keys[i].PubKey())
				}
			}
		} else {
			raw := s
			okLen := len(s) == 64 && ht == 0
			if len(s) == 65 && ht != 0 && s[64] == ht {
				okLen, raw = true, s[:64]
			}
			if okLen {
				if ps, perr := schnorr.ParseSignature(raw); perr == nil {
					vk := verifyKey
					if alg == "tapscript" {
						vk, _ = schnorr.ParsePubKey(xonly(keys[i]))
					} else {
						vk, _ = schnorr.ParsePubKey(schnorr.SerializePubKey(verifyKey))
					}
					good = ps.Verify(want, vk)
				}
			}
		}
		if !good {
			c.Violation("signer:"+otype+":"+cls+":signature-not-over-digest",
				fmt.Sprintf("%s: signature %d (%x) is not a signature by signer %d with hash type byte %#x over the specification's digest %x", tag, i+1, s, i+1, ht, want), replay)
		}
	}

	// the spend executes as the specification says
	for _, fl := range []struct {
		name  string
		flags txscript.ScriptFlags
		want  bool
	}{{"consensus", consensusFlags, ex.F("cons").Bool()}, {"standard", txscript.StandardVerifyFlags, ex.F("std").Bool()}} {
		for _, h := range []*txscript.TxSigHashes{hashes, nil} {
			ok, pnc := sp.run(fl.flags, nil, h)
			c.AddEval(1)
			e.st.add("engine-runs", 1)
			mode := "midstates supplied"
			if h == nil {
				mode = "no midstates"
			}
			switch {
			case pnc != nil && h == nil:
				c.Violation("cache:"+alg+":engine-without-midstates-panics", fmt.Sprintf("%s: the script engine panics under the %s flags (%s): %v", tag, fl.name, mode, pnc), replay)
			case pnc != nil:
				c.Violation("signer:"+otype+":engine-panics", fmt.Sprintf("%s: the script engine panics under the %s flags (%s): %v", tag, fl.name, mode, pnc), replay)
			case ok != fl.want:
				c.Violation("signer:"+otype+":"+cls+":"+fl.name+"-flags:"+verdict(ok), fmt.Sprintf("%s: the helper's spend %s under the %s flags (%s), the specification says %s", tag, verdict(ok), fl.name, mode, verdict(fl.want)), replay)
			}
		}
	}
	if rep == 0 && ht == 0x83 && idx1 == 2 && txr.F("ins").Len() == 2 &&
		(otype == "p2tr-leaf" || otype == "p2sh-multisig-2of3-merged" && hts[1] == 0x03 && order == "last-key-first" || otype == "p2wpkh" && !comp) {
		c.Sample(map[string]any{"kind": "signer case", "case": tag, "hash_types": hts, "digest_layout": clip(ex.F("digests").String(), 2500), "rendered_digests": wantHex,
			"signatures": len(sigs), "verifies_consensus_flags": ex.F("cons").Bool(), "verifies_standard_flags": ex.F("std").Bool()})
	}
}

func verdict(ok bool) string {
	if ok {
		return "verifies"
	}
	return "fails"
}
