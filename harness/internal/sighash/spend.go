package sighash

import (
	"crypto/sha256"
	"fmt"

	"github.com/btcsuite/btcd/btcec/v2"
	"github.com/btcsuite/btcd/btcec/v2/ecdsa"
	"github.com/btcsuite/btcd/btcec/v2/schnorr"
	"github.com/btcsuite/btcd/txscript/v2"
	"github.com/btcsuite/btcd/wire/v2"

	"verif/harness/internal/tla"
)

// consensusFlags: what a block validates with once every soft fork is active,
// as far as signatures go. No STRICTENC: undefined hash type bytes are legal.
const consensusFlags = txscript.ScriptBip16 | txscript.ScriptVerifyDERSignatures | txscript.ScriptVerifyWitness | txscript.ScriptVerifyTaproot

// plan is a signing context made concrete up to the signature.
type plan struct {
	r      *renderer
	txr    tla.Value
	ctx    tla.Value
	alg    string
	shape  string
	idx    int // 1-based
	ht     byte
	key    *btcec.PrivateKey
	annex  []byte
	pk     []byte // previous output script, when it does not depend on the signature
	leaf   []byte
	ctrl   []byte
	sigVal []tla.Value
}

var internalKeyVal = mkVal("key", 99, "internal")

func newPlan(c *conc, txr, ctx tla.Value) (*plan, error) {
	p := &plan{txr: txr, ctx: ctx, alg: ctx.F("alg").Str(), shape: ctx.F("shape").Str(), idx: ctx.F("idx").Int(), ht: byte(ctx.F("ht").Int())}
	p.r = &renderer{c: c, over: map[string][]byte{}, xonly: p.alg == "tapscript"}
	p.key = c.key(ctx.F("key"))
	p.sigVal = ctx.F("sigs").Set()
	if a := ctx.F("annex"); !isNone(a) {
		p.annex = c.bytesOf(a)
	}
	ins := txr.F("ins").Seq()
	if p.idx < 1 || p.idx > len(ins) {
		return nil, fmt.Errorf("input %d of %d", p.idx, len(ins))
	}
	own := ins[p.idx-1].F("pks")
	switch p.alg {
	case "keypath":
		out := txscript.ComputeTaprootKeyNoScript(p.key.PubKey())
		p.pk = append([]byte{0x51, 0x20}, schnorr.SerializePubKey(out)...)
	case "tapscript":
		ls, err := p.r.items(ctx.F("script"))
		if err != nil {
			return nil, err
		}
		internal := c.key(internalKeyVal).PubKey()
		leaf := txscript.NewBaseTapLeaf(ls)
		tree := txscript.AssembleTaprootScriptTree(leaf)
		root := tree.RootNode.TapHash()
		out := txscript.ComputeTaprootOutputKey(internal, root[:])
		cb := tree.LeafMerkleProofs[0].ToControlBlock(internal)
		cbb, err := cb.ToBytes()
		if err != nil {
			return nil, err
		}
		p.pk = append([]byte{0x51, 0x20}, schnorr.SerializePubKey(out)...)
		p.leaf, p.ctrl = ls, cbb
	}
	// the previous output script of a taproot input is what the digest
	// commits to; a mutated generation of the value stays what it is
	if p.pk != nil && own.Elems[3].I == 0 {
		p.r.over[vkey(own)] = p.pk
	}
	return p, nil
}

// sign makes the signature bytes (with the hash type byte) over digest.
func (p *plan) sign(digest []byte) ([]byte, error) {
	switch p.alg {
	case "legacy", "v0":
		return ecdsa.Sign(p.key, digest).Serialize(), nil
	case "keypath":
		s, err := schnorr.Sign(txscript.TweakTaprootPrivKey(*p.key, nil), digest)
		if err != nil {
			return nil, err
		}
		return s.Serialize(), nil
	default:
		s, err := schnorr.Sign(p.key, digest)
		if err != nil {
			return nil, err
		}
		return s.Serialize(), nil
	}
}

// withHashType appends the hash type byte the way the signature encoding of
// the algorithm wants it.
func withHashType(alg string, core []byte, ht byte) []byte {
	out := append([]byte(nil), core...)
	if (alg == "keypath" || alg == "tapscript") && ht == 0 {
		return out
	}
	return append(out, ht)
}

// spend is one input ready for the script engine.
type spend struct {
	tx      *wire.MsgTx
	prev    []*wire.TxOut
	idx     int // 0-based
	pk      []byte
	amount  int64
	fetcher *txscript.MultiPrevOutFetcher
}

func scriptSigOf(stack [][]byte) []byte {
	var out []byte
	for _, e := range stack {
		out = append(out, pushData(e)...)
	}
	return out
}

func (p *plan) spend(sig []byte) (*spend, error) {
	for _, sv := range p.sigVal {
		p.r.over[vkey(sv)] = sig
	}
	var stack [][]byte
	if p.alg != "keypath" {
		items := p.ctx.F("script").Seq()
		pos := p.ctx.F("pos").Int()
		if pos < 1 || pos > len(items) {
			return nil, fmt.Errorf("checking item %d of %d", pos, len(items))
		}
		switch op := items[pos-1].Elems[0].S; op {
		case "checksig", "checksigadd":
			stack = [][]byte{sig}
		case "checkmultisig":
			stack = [][]byte{{}, sig}
		default:
			return nil, fmt.Errorf("item %d (%s) does not check a signature", pos, op)
		}
	}
	var pk, ss []byte
	var wit wire.TxWitness
	switch p.alg {
	case "legacy":
		s, err := p.r.items(p.ctx.F("script"))
		if err != nil {
			return nil, err
		}
		pk, ss = s, scriptSigOf(stack)
	case "v0":
		if p.shape == "p2wpkh" {
			pub := p.key.PubKey().SerializeCompressed()
			pk = append([]byte{0x00, 0x14}, hash160(pub)...)
			wit = wire.TxWitness{sig, pub}
		} else {
			s, err := p.r.items(p.ctx.F("script"))
			if err != nil {
				return nil, err
			}
			h := sha256.Sum256(s)
			pk = append([]byte{0x00, 0x20}, h[:]...)
			wit = append(wire.TxWitness(stack), s)
		}
	case "keypath":
		pk = p.pk
		wit = wire.TxWitness{sig}
	case "tapscript":
		pk = p.pk
		wit = append(wire.TxWitness(stack), p.leaf, p.ctrl)
	}
	if p.annex != nil {
		wit = append(wit, p.annex)
	}
	tx, prev := p.r.buildTx(p.txr, p.idx, pk, ss, wit)
	sp := &spend{tx: tx, prev: prev, idx: p.idx - 1, pk: pk, amount: prev[p.idx-1].Value}
	// a mutated value of the own previous output script is used where the
	// digest functions look it up, not for the spend itself
	lookup := map[wire.OutPoint]*wire.TxOut{}
	for i, in := range tx.TxIn {
		lookup[in.PreviousOutPoint] = prev[i]
	}
	own := p.txr.F("ins").Seq()[p.idx-1].F("pks")
	if p.pk != nil && own.Elems[3].I != 0 {
		lookup[tx.TxIn[sp.idx].PreviousOutPoint] = &wire.TxOut{Value: sp.amount, PkScript: p.r.val(own)}
	}
	sp.fetcher = txscript.NewMultiPrevOutFetcher(lookup)
	return sp, nil
}

// run executes the input. A panic of the engine is returned as such.
func (sp *spend) run(flags txscript.ScriptFlags, sigCache *txscript.SigCache, hashes *txscript.TxSigHashes) (ok bool, pnc any) {
	pnc = guard(func() {
		vm, err := txscript.NewEngine(sp.pk, sp.tx, sp.idx, flags, sigCache, hashes, sp.amount, sp.fetcher)
		if err != nil {
			return
		}
		ok = vm.Execute() == nil
	})
	return ok, pnc
}

// apiDigest asks the exported digest function of the algorithm with the
// arguments the specification says a caller passes. avail is false where the
// exported functions cannot express the context (key path with an annex).
func (p *plan) apiDigest(sp *spend, api tla.Value, hashes *txscript.TxSigHashes) (d []byte, err error, avail bool, pnc any) {
	ht := txscript.SigHashType(p.ht)
	script, rerr := p.r.items(api.F("script"))
	if rerr != nil {
		return nil, rerr, false, nil
	}
	avail = true
	pnc = guard(func() {
		switch p.alg {
		case "legacy":
			d, err = txscript.CalcSignatureHash(script, ht, sp.tx, sp.idx)
		case "v0":
			d, err = txscript.CalcWitnessSigHash(script, hashes, ht, sp.tx, sp.idx, sp.amount)
		case "keypath":
			if p.annex != nil {
				avail = false
				return
			}
			d, err = txscript.CalcTaprootSignatureHash(hashes, ht, sp.tx, sp.idx, sp.fetcher)
		case "tapscript":
			leaf := txscript.NewBaseTapLeaf(script)
			var opts []txscript.TaprootSigHashOption
			if cs := api.F("codesep").Int(); cs >= 0 {
				lh := leaf.TapHash()
				opts = append(opts, txscript.WithBaseTapscriptVersion(uint32(cs), lh[:]))
			}
			if p.annex != nil {
				opts = append(opts, txscript.WithAnnex(p.annex))
			}
			d, err = txscript.CalcTapscriptSignaturehash(hashes, ht, sp.tx, sp.idx, sp.fetcher, leaf, opts...)
		}
	})
	return d, err, avail, pnc
}
