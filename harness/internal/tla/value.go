// Package tla parses the textual TLA+ values and states TLC prints (state
// dumps, dot graph labels, simulation trace files) into Go values, so that
// behaviours of a specification can be stepped through the real code.
package tla

import (
	"fmt"
	"sort"
	"strconv"
	"strings"
)

type Kind int

const (
	KInt Kind = iota
	KStr
	KBool
	KModel // bare identifier (model value)
	KSet
	KSeq // tuple / sequence; also a function with domain 1..n
	KRec
	KFunc
)

// Value is one TLA+ value as printed by TLC.
type Value struct {
	Kind   Kind
	I      int64
	S      string
	B      bool
	Elems  []Value          // set / seq elements, func values (parallel to Keys)
	Keys   []Value          // func domain
	Fields map[string]Value // record
}

func (v Value) Int() int {
	if v.Kind != KInt {
		panic(fmt.Sprintf("tla: not an int: %s", v))
	}
	return int(v.I)
}

func (v Value) Str() string {
	if v.Kind != KStr && v.Kind != KModel {
		panic(fmt.Sprintf("tla: not a string: %s", v))
	}
	return v.S
}

func (v Value) Bool() bool {
	if v.Kind != KBool {
		panic(fmt.Sprintf("tla: not a bool: %s", v))
	}
	return v.B
}

// F returns record field name (panics when absent).
func (v Value) F(name string) Value {
	if v.Kind != KRec {
		panic(fmt.Sprintf("tla: not a record (field %s): %s", name, v))
	}
	f, ok := v.Fields[name]
	if !ok {
		panic(fmt.Sprintf("tla: no field %s in %s", name, v))
	}
	return f
}

// Has reports whether record v has the field.
func (v Value) Has(name string) bool {
	if v.Kind != KRec {
		return false
	}
	_, ok := v.Fields[name]
	return ok
}

// Seq returns the elements of a sequence/tuple (an empty function prints as <<>>).
func (v Value) Seq() []Value {
	if v.Kind != KSeq {
		panic(fmt.Sprintf("tla: not a sequence: %s", v))
	}
	return v.Elems
}

// Set returns the elements of a set.
func (v Value) Set() []Value {
	if v.Kind != KSet {
		panic(fmt.Sprintf("tla: not a set: %s", v))
	}
	return v.Elems
}

// Len of a set / sequence / function.
func (v Value) Len() int { return len(v.Elems) }

// Apply applies a function (or tuple, or record with string key) to key.
func (v Value) Apply(key Value) Value {
	switch v.Kind {
	case KSeq:
		i := key.Int()
		if i < 1 || i > len(v.Elems) {
			panic(fmt.Sprintf("tla: index %d out of range in %s", i, v))
		}
		return v.Elems[i-1]
	case KFunc:
		for i, k := range v.Keys {
			if Equal(k, key) {
				return v.Elems[i]
			}
		}
		panic(fmt.Sprintf("tla: key %s not in domain of %s", key, v))
	case KRec:
		return v.F(key.Str())
	}
	panic(fmt.Sprintf("tla: cannot apply %s", v))
}

// At is Apply with an int key.
func (v Value) At(i int) Value { return v.Apply(Value{Kind: KInt, I: int64(i)}) }

// AtS is Apply with a string key.
func (v Value) AtS(s string) Value { return v.Apply(Value{Kind: KStr, S: s}) }

// Domain returns the domain of a function/tuple/record as values.
func (v Value) Domain() []Value {
	switch v.Kind {
	case KSeq:
		d := make([]Value, len(v.Elems))
		for i := range v.Elems {
			d[i] = Value{Kind: KInt, I: int64(i + 1)}
		}
		return d
	case KFunc:
		return v.Keys
	case KRec:
		names := make([]string, 0, len(v.Fields))
		for n := range v.Fields {
			names = append(names, n)
		}
		sort.Strings(names)
		d := make([]Value, len(names))
		for i, n := range names {
			d[i] = Value{Kind: KStr, S: n}
		}
		return d
	}
	panic(fmt.Sprintf("tla: no domain: %s", v))
}

// Contains reports set membership.
func (v Value) Contains(x Value) bool {
	for _, e := range v.Set() {
		if Equal(e, x) {
			return true
		}
	}
	return false
}

// Ints converts a set or sequence of ints.
func (v Value) Ints() []int {
	out := make([]int, len(v.Elems))
	for i, e := range v.Elems {
		out[i] = e.Int()
	}
	return out
}

// Strs converts a set or sequence of strings.
func (v Value) Strs() []string {
	out := make([]string, len(v.Elems))
	for i, e := range v.Elems {
		out[i] = e.Str()
	}
	return out
}

func Equal(a, b Value) bool { return a.String() == b.String() }

// String renders the value in canonical TLA+ syntax (sets and functions in
// the order TLC printed them, which is already normalised).
func (v Value) String() string {
	var sb strings.Builder
	v.write(&sb)
	return sb.String()
}

func (v Value) write(sb *strings.Builder) {
	switch v.Kind {
	case KInt:
		sb.WriteString(strconv.FormatInt(v.I, 10))
	case KStr:
		sb.WriteString(strconv.Quote(v.S))
	case KBool:
		if v.B {
			sb.WriteString("TRUE")
		} else {
			sb.WriteString("FALSE")
		}
	case KModel:
		sb.WriteString(v.S)
	case KSet:
		sb.WriteString("{")
		for i, e := range v.Elems {
			if i > 0 {
				sb.WriteString(", ")
			}
			e.write(sb)
		}
		sb.WriteString("}")
	case KSeq:
		sb.WriteString("<<")
		for i, e := range v.Elems {
			if i > 0 {
				sb.WriteString(", ")
			}
			e.write(sb)
		}
		sb.WriteString(">>")
	case KRec:
		sb.WriteString("[")
		for i, k := range v.Domain() {
			if i > 0 {
				sb.WriteString(", ")
			}
			sb.WriteString(k.S)
			sb.WriteString(" |-> ")
			v.Fields[k.S].write(sb)
		}
		sb.WriteString("]")
	case KFunc:
		sb.WriteString("(")
		for i := range v.Keys {
			if i > 0 {
				sb.WriteString(" @@ ")
			}
			v.Keys[i].write(sb)
			sb.WriteString(" :> ")
			v.Elems[i].write(sb)
		}
		sb.WriteString(")")
	}
}

// Go converts to plain Go data (for JSON samples / replay files).
func (v Value) Go() any {
	switch v.Kind {
	case KInt:
		return v.I
	case KStr, KModel:
		return v.S
	case KBool:
		return v.B
	case KSet, KSeq:
		out := make([]any, len(v.Elems))
		for i, e := range v.Elems {
			out[i] = e.Go()
		}
		return out
	case KRec:
		m := map[string]any{}
		for k, f := range v.Fields {
			m[k] = f.Go()
		}
		return m
	case KFunc:
		m := map[string]any{}
		for i, k := range v.Keys {
			ks := k.String()
			if k.Kind == KStr || k.Kind == KModel {
				ks = k.S
			}
			m[ks] = v.Elems[i].Go()
		}
		return m
	}
	return nil
}

// State is one TLC state: variable name -> value.
type State map[string]Value

func (s State) Go() map[string]any {
	m := map[string]any{}
	for k, v := range s {
		m[k] = v.Go()
	}
	return m
}

type parser struct {
	s   string
	pos int
}

func (p *parser) ws() {
	for p.pos < len(p.s) {
		c := p.s[p.pos]
		if c == ' ' || c == '\n' || c == '\t' || c == '\r' {
			p.pos++
		} else {
			return
		}
	}
}

func (p *parser) peek(tok string) bool {
	p.ws()
	return strings.HasPrefix(p.s[p.pos:], tok)
}

func (p *parser) eat(tok string) bool {
	if p.peek(tok) {
		p.pos += len(tok)
		return true
	}
	return false
}

func (p *parser) expect(tok string) error {
	if !p.eat(tok) {
		return p.errf("expected %q", tok)
	}
	return nil
}

func (p *parser) errf(f string, a ...any) error {
	end := p.pos + 40
	if end > len(p.s) {
		end = len(p.s)
	}
	return fmt.Errorf("tla parse: %s at %d near %q", fmt.Sprintf(f, a...), p.pos, p.s[p.pos:end])
}

func isIdent(c byte) bool {
	return c == '_' || (c >= '0' && c <= '9') || (c >= 'a' && c <= 'z') || (c >= 'A' && c <= 'Z')
}

func (p *parser) ident() string {
	p.ws()
	st := p.pos
	for p.pos < len(p.s) && isIdent(p.s[p.pos]) {
		p.pos++
	}
	return p.s[st:p.pos]
}

func (p *parser) list(close string) ([]Value, error) {
	var out []Value
	if p.eat(close) {
		return out, nil
	}
	for {
		v, err := p.value()
		if err != nil {
			return nil, err
		}
		out = append(out, v)
		if p.eat(",") {
			continue
		}
		if err := p.expect(close); err != nil {
			return nil, err
		}
		return out, nil
	}
}

func (p *parser) value() (Value, error) {
	p.ws()
	if p.pos >= len(p.s) {
		return Value{}, p.errf("unexpected end")
	}
	switch {
	case p.eat("<<"):
		el, err := p.list(">>")
		return Value{Kind: KSeq, Elems: el}, err
	case p.eat("{"):
		el, err := p.list("}")
		return Value{Kind: KSet, Elems: el}, err
	case p.eat("["):
		rec := Value{Kind: KRec, Fields: map[string]Value{}}
		for {
			name := p.ident()
			if name == "" {
				return rec, p.errf("field name")
			}
			if err := p.expect("|->"); err != nil {
				return rec, err
			}
			v, err := p.value()
			if err != nil {
				return rec, err
			}
			rec.Fields[name] = v
			if p.eat(",") {
				continue
			}
			return rec, p.expect("]")
		}
	case p.eat("("):
		fn := Value{Kind: KFunc}
		for {
			k, err := p.value()
			if err != nil {
				return fn, err
			}
			if err := p.expect(":>"); err != nil {
				return fn, err
			}
			v, err := p.value()
			if err != nil {
				return fn, err
			}
			fn.Keys = append(fn.Keys, k)
			fn.Elems = append(fn.Elems, v)
			if p.eat("@@") {
				continue
			}
			return fn, p.expect(")")
		}
	case p.s[p.pos] == '"':
		st := p.pos
		p.pos++
		for p.pos < len(p.s) && p.s[p.pos] != '"' {
			if p.s[p.pos] == '\\' {
				p.pos++
			}
			p.pos++
		}
		if p.pos >= len(p.s) {
			return Value{}, p.errf("unterminated string")
		}
		p.pos++
		s, err := strconv.Unquote(p.s[st:p.pos])
		if err != nil {
			return Value{}, p.errf("bad string %s", p.s[st:p.pos])
		}
		return Value{Kind: KStr, S: s}, nil
	case p.s[p.pos] == '-' || (p.s[p.pos] >= '0' && p.s[p.pos] <= '9'):
		st := p.pos
		p.pos++
		for p.pos < len(p.s) && p.s[p.pos] >= '0' && p.s[p.pos] <= '9' {
			p.pos++
		}
		// an identifier such as 3abc is not expected from TLC
		n, err := strconv.ParseInt(p.s[st:p.pos], 10, 64)
		if err != nil {
			return Value{}, p.errf("bad int")
		}
		return Value{Kind: KInt, I: n}, nil
	default:
		id := p.ident()
		switch id {
		case "":
			return Value{}, p.errf("unexpected character")
		case "TRUE":
			return Value{Kind: KBool, B: true}, nil
		case "FALSE":
			return Value{Kind: KBool, B: false}, nil
		}
		return Value{Kind: KModel, S: id}, nil
	}
}

// ParseValue parses one TLA+ value.
func ParseValue(s string) (Value, error) {
	p := &parser{s: s}
	v, err := p.value()
	if err != nil {
		return v, err
	}
	p.ws()
	if p.pos != len(p.s) {
		return v, p.errf("trailing input")
	}
	return v, nil
}

// MustValue parses or panics (for literals in Go code).
func MustValue(s string) Value {
	v, err := ParseValue(s)
	if err != nil {
		panic(err)
	}
	return v
}

// ParseState parses "/\ v1 = val /\ v2 = val ..." (the leading /\ is optional
// for single-variable states).
func ParseState(s string) (State, error) {
	p := &parser{s: s}
	st := State{}
	for {
		p.ws()
		if p.pos >= len(p.s) {
			break
		}
		p.eat("/\\")
		name := p.ident()
		if name == "" {
			return nil, p.errf("variable name")
		}
		if err := p.expect("="); err != nil {
			return nil, err
		}
		v, err := p.value()
		if err != nil {
			return nil, err
		}
		st[name] = v
	}
	return st, nil
}

// Int / Str constructors for building keys.
func IntV(i int) Value    { return Value{Kind: KInt, I: int64(i)} }
func StrV(s string) Value { return Value{Kind: KStr, S: s} }
