INIT Init
NEXT Next
