---- MODULE T ----
EXTENDS Naturals, Sequences, TLC
VARIABLES x, s, last
Init == x = 0 /\ s = <<>> /\ last = [a |-> "init", f |-> [i \in {1,2} |-> {}]]
Inc == x < 2 /\ x' = x+1 /\ s' = Append(s, [k |-> x, t |-> "q\"z"]) /\ last' = [a |-> "inc", f |-> [i \in {1,2} |-> {x, x+1}]]
Rst == x = 2 /\ x' = 0 /\ s' = <<>> /\ last' = [a |-> "rst", f |-> (1 :> {} @@ 2 :> {<<1,2>>})]
Next == Inc \/ Rst
====
