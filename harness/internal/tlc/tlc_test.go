package tlc

import (
	"math/rand"
	"testing"
)

func TestRunGraphAndSim(t *testing.T) {
	r, err := Run(Opts{SpecDir: "testdata", Module: "T", Config: "T.cfg", DumpGraph: true, Workers: 2, Coverage: true})
	if err != nil {
		t.Fatal(err)
	}
	if !r.OK || r.Distinct != 4 || r.Graph == nil || len(r.Graph.Nodes) != 4 || r.Graph.Edges != 4 {
		t.Fatalf("unexpected: ok=%v distinct=%d %+v", r.OK, r.Distinct, r.Graph)
	}
	paths, cov := r.Graph.CoverPaths(rand.New(rand.NewSource(1)), 0, 10)
	if cov != 4 {
		t.Fatalf("covered %d edges, paths %d", cov, len(paths))
	}
	if r.Graph.Init[0].State["last"].F("a").Str() != "init" {
		t.Fatal("bad init state")
	}
	if len(r.ActionCount) == 0 {
		t.Fatalf("no coverage parsed: %s", r.Output)
	}
	s, err := Run(Opts{SpecDir: "testdata", Module: "T", Config: "T.cfg", Sim: &Sim{Num: 3, Depth: 5, Seed: 3}})
	if err != nil {
		t.Fatal(err)
	}
	if len(s.Behaviours) != 3 || len(s.Behaviours[0]) != 6 || s.Behaviours[0][1].Action != "Inc" {
		t.Fatalf("bad behaviours: %d", len(s.Behaviours))
	}
	if got := s.Behaviours[0][3].State["last"].F("f").At(2).Set()[0].Seq()[1].Int(); got != 2 {
		t.Fatalf("got %d", got)
	}
}
