package v2

import (
	"fmt"
	"sort"
	"strings"
	"sync"
	"sync/atomic"
	"time"

	"verif/harness/internal/tla"
	"verif/harness/internal/tlc"
	"verif/harness/internal/vrun"
)

// job is one TLC run and what is done with its behaviours.
type job struct {
	name     string
	p        params
	mode     string // "check": invariants only; "graph": dump + replay a path cover; "sim": simulate + replay
	sim      *tlc.Sim
	maxPaths int  // graph: 0 = cover every edge
	realRI   bool // the specification ran with the real rekey interval
	coverage bool
	timeout  time.Duration
	workers  int
	needLong bool // sim: at least one behaviour must cross two real rekey boundaries in each direction
}

type stats struct {
	sessions, faultSessions, longBoth, refusedSessions int64
	byPairing                                          sync.Map
}

var garbageClasses = []int{0, 1, 15, 16, 4094, 4095}

// handshakeScenarios: the scenarios of the faulted handshake graph.  thorough
// takes all eleven; quick a seeded rotation of four v2 scenarios plus the two
// v1 fallbacks (every garbage class still occurs in both roles in hs-nofault).
func handshakeScenarios(seed int64, thorough bool) []scen {
	G := garbageClasses
	sh := int(uint64(seed) % 5)
	var v2s []scen
	for i, g := range G {
		v2s = append(v2s, scen{gI: g, gR: G[(i+1+sh)%len(G)], dI: (i + sh) % 3, dR: (i + 1) % 3, hello: "v2", uPlusP: i%2 == 1})
	}
	for i, pm := range []int{1, 4, 15} {
		v2s = append(v2s, scen{gI: G[(i+sh)%len(G)], gR: G[(2*i+sh+3)%len(G)], dI: i % 2, dR: (i + sh) % 2, hello: "v2", pm: pm})
	}
	var out []scen
	if thorough {
		out = v2s
	} else {
		k := int(uint64(seed) % 6)
		out = []scen{v2s[k], v2s[(k+1)%6], v2s[(k+3)%6], v2s[6+int(uint64(seed)%3)]}
	}
	return append(out,
		scen{gR: G[(sh+2)%len(G)], dR: sh % 3, hello: "v1"},
		scen{gR: G[(sh+4)%len(G)], dR: (sh + 1) % 3, hello: "v1wrong"})
}

// allGarbagePairs: every pair of garbage classes, decoy counts rotating.
func allGarbagePairs(seed int64) []scen {
	G := garbageClasses
	var out []scen
	for i, gi := range G {
		for j, gr := range G {
			out = append(out, scen{gI: gi, gR: gr, dI: (i + j + int(uint64(seed)%3)) % 3, dR: (i + 2*j) % 3, hello: "v2", noFaults: true, uPlusP: (i+j)%3 == 0})
		}
	}
	return out
}

func asStates(path []tlc.Step) []tla.State {
	if len(path) == 0 {
		return nil
	}
	st := []tla.State{path[0].From.State}
	for _, s := range path {
		st = append(st, s.To.State)
	}
	return st
}

func pickPairing(idx int, first tla.State) pairing {
	sc := first["sc"]
	if sc.F("hello").Str() != "v2" {
		if idx%4 == 3 {
			return pairing{"ref", "ref"} // the initiator side is the raw v1 hello; harness self-check
		}
		return pairing{"ref", "real"}
	}
	if sc.F("pm").Int() > 0 {
		return pairing{"ref", "real"} // only the reference initiator can choose its key prefix
	}
	if sc.F("enc").Str() != "canon" {
		// only reference endpoints can send a non-canonical key encoding
		switch idx % 8 {
		case 7:
			return pairing{"ref", "ref"}
		}
		if idx%2 == 0 {
			return pairing{"ref", "real"}
		}
		return pairing{"real", "ref"}
	}
	switch idx % 16 {
	case 15:
		return pairing{"ref", "ref"} // harness self-check: reference follows the specification
	}
	switch idx % 3 {
	case 0:
		return pairing{"real", "real"}
	case 1:
		return pairing{"real", "ref"}
	}
	return pairing{"ref", "real"}
}

func (j *job) run(ctx *vrun.Ctx, st *stats) error {
	module, cfg, files := j.p.render()
	w := j.workers
	if w == 0 {
		w = 4
	}
	to := j.timeout
	if to == 0 {
		to = 10 * time.Minute
	}
	opts := tlc.Opts{SpecDir: ctx.SpecDir("v2"), Module: module, CfgText: cfg, Files: files, Workers: w,
		Timeout: to, DumpGraph: j.mode == "graph", Sim: j.sim, Coverage: j.coverage, Scratch: ctx.Scratch, HeapGB: 6}
	res, err := tlc.Run(opts)
	if err != nil && (strings.Contains(err.Error(), "exit status 143") || strings.Contains(err.Error(), "exit status 137") || strings.Contains(err.Error(), "signal: ")) {
		// the JVM was killed from outside (shared machine): one retry
		ctx.Logf("%s: TLC was killed (%v), retrying once", j.name, strings.SplitN(err.Error(), "\n", 2)[0])
		res, err = tlc.Run(opts)
	}
	if err != nil {
		return fmt.Errorf("%s: %w", j.name, err)
	}
	if !res.OK {
		return fmt.Errorf("%s: the specification violates its own %s %s (specification defect, not a verdict)", j.name, res.ErrKind, res.ErrName)
	}
	ctx.AddModel(res.Distinct, res.Generated)
	ctx.Logf("%s: TLC %s distinct=%d generated=%d depth=%d wall=%.1fs", j.name, j.mode, res.Distinct, res.Generated, res.Depth, res.WallS)
	if j.coverage {
		var never []string
		for _, a := range []string{"ISendKey", "RRecvKey", "IRecvKey", "RecvScan", "RecvPkt", "Send", "Flip", "Trunc", "Drop", "Dup", "Swap"} {
			if n, ok := res.ActionCount[a]; !ok || n == 0 {
				never = append(never, a)
			}
		}
		if j.p.MaxRefused > 0 {
			if n, ok := res.ActionCount["SendRefused"]; !ok || n == 0 {
				never = append(never, "SendRefused")
			}
		}
		if len(never) > 0 && j.p.MaxFaults > 0 {
			return fmt.Errorf("%s: vacuity: actions never taken: %v (have %v)", j.name, never, res.ActionCount)
		}
		ctx.SetExtra("actions_never_taken_"+j.name, never)
	}
	var behaviours [][]tla.State
	switch j.mode {
	case "check":
		return nil
	case "graph":
		// a path cover of every edge; quick tiers replay a seeded sample of
		// it, stratified by scenario (initial state) so that the small
		// scenarios (v1 fallbacks) are always present
		rng := ctx.Rand(j.name)
		paths, covered := res.Graph.CoverPaths(rng, 0, 0)
		if covered != res.Graph.Edges {
			return fmt.Errorf("%s: path cover incomplete: %d of %d edges", j.name, covered, res.Graph.Edges)
		}
		if j.maxPaths > 0 && len(paths) > j.maxPaths {
			groups := map[string][][]tlc.Step{}
			var order []string
			for _, p := range paths {
				if len(p) == 0 {
					continue
				}
				id := p[0].From.ID
				if _, ok := groups[id]; !ok {
					order = append(order, id)
				}
				groups[id] = append(groups[id], p)
			}
			sort.Strings(order)
			// equal shares; what small groups do not use goes to the large ones
			take := map[string]int{}
			left := j.maxPaths
			for open := len(order); open > 0 && left > 0; {
				share := left / open
				if share < 1 {
					share = 1
				}
				open = 0
				for _, id := range order {
					room := len(groups[id]) - take[id]
					if room <= 0 || left <= 0 {
						continue
					}
					n := share
					if n > room {
						n = room
					}
					if n > left {
						n = left
					}
					take[id] += n
					left -= n
					if take[id] < len(groups[id]) {
						open++
					}
				}
			}
			var sel [][]tlc.Step
			for _, id := range order {
				g := groups[id]
				rng.Shuffle(len(g), func(a, b int) { g[a], g[b] = g[b], g[a] })
				sel = append(sel, g[:take[id]]...)
			}
			paths = sel
			seen := map[string]bool{}
			for _, p := range paths {
				for _, e := range p {
					seen[e.From.ID+"|"+e.Action+"|"+e.To.ID] = true
				}
			}
			covered = len(seen)
		}
		for _, p := range paths {
			behaviours = append(behaviours, asStates(p))
		}
		ctx.Logf("%s: graph %d states %d edges, %d paths replayed covering %d edges", j.name, len(res.Graph.Nodes), res.Graph.Edges, len(paths), covered)
		ctx.AddExtra("graph_edges_replayed", int64(covered))
		ctx.AddExtra("graph_edges_total", int64(res.Graph.Edges))
	case "sim":
		for _, b := range res.Behaviours {
			var ss []tla.State
			for _, t := range b {
				ss = append(ss, t.State)
			}
			behaviours = append(behaviours, ss)
		}
		if len(behaviours) == 0 {
			return fmt.Errorf("%s: simulation produced no behaviours", j.name)
		}
	}
	return j.replay(ctx, st, behaviours)
}

func (j *job) replay(ctx *vrun.Ctx, st *stats, behaviours [][]tla.State) error {
	var firstErr atomic.Value
	var long, steps, maxI, maxR, withFaults, withRefused int64
	t0 := time.Now()
	ctx.Parallel(len(behaviours), func(i int) {
		if firstErr.Load() != nil {
			return
		}
		b := behaviours[i]
		if len(b) < 2 {
			return
		}
		s := &session{ctx: ctx, id: fmt.Sprintf("%s-%d", j.name, i), pair: pickPairing(i, b[0]),
			rng: ctx.Rand(fmt.Sprintf("%s-%d", j.name, i)), realRI: j.realRI, job: j.name}
		if err := s.run(b); err != nil {
			firstErr.CompareAndSwap(nil, err)
			return
		}
		ctx.AddTraces(1)
		atomic.AddInt64(&steps, int64(len(b)-1))
		for {
			m := atomic.LoadInt64(&maxI)
			if int64(s.maxCtr[epI]) <= m || atomic.CompareAndSwapInt64(&maxI, m, int64(s.maxCtr[epI])) {
				break
			}
		}
		for {
			m := atomic.LoadInt64(&maxR)
			if int64(s.maxCtr[epR]) <= m || atomic.CompareAndSwapInt64(&maxR, m, int64(s.maxCtr[epR])) {
				break
			}
		}
		atomic.AddInt64(&st.sessions, 1)
		if s.refused > 0 {
			atomic.AddInt64(&withRefused, 1)
			atomic.AddInt64(&st.refusedSessions, 1)
		}
		if s.faults > 0 {
			atomic.AddInt64(&withFaults, 1)
			atomic.AddInt64(&st.faultSessions, 1)
		}
		n, _ := st.byPairing.LoadOrStore(s.pair.String(), new(int64))
		atomic.AddInt64(n.(*int64), 1)
		if s.maxCtr[epI] >= 2*bipRekeyInterval && s.maxCtr[epR] >= 2*bipRekeyInterval {
			atomic.AddInt64(&long, 1)
			atomic.AddInt64(&st.longBoth, 1)
		}
		j.distinct(ctx, s, b)
		if i < 2 {
			ctx.Sample(map[string]any{"session": s.id, "pairing": s.pair.String(), "steps": len(b) - 1,
				"garbage": s.sc.garbage, "faults": s.faults, "last_actions": tailActions(b, 6)})
		}
	})
	if e := firstErr.Load(); e != nil {
		return e.(error)
	}
	ctx.Logf("%s: replayed %d behaviours (%d with faults, %d with refused sends, %d steps, highest packet counter I=%d R=%d, %d crossing two real rekeys both ways) in %.1fs", j.name, len(behaviours), withFaults, withRefused, steps, maxI, maxR, long, time.Since(t0).Seconds())
	ctx.AddExtra("steps_replayed", steps)
	if j.needLong && long == 0 {
		return fmt.Errorf("%s: no simulated session crossed two real rekey boundaries in each direction", j.name)
	}
	return nil
}

func tailActions(b []tla.State, n int) []string {
	var out []string
	for k := len(b) - n; k < len(b); k++ {
		if k >= 1 {
			out = append(out, b[k]["last"].String())
		}
	}
	return out
}

// distinct registers the non-trivial case classes a session covered.
func (j *job) distinct(ctx *vrun.Ctx, s *session, b []tla.State) {
	ctx.Distinct(fmt.Sprintf("hs|%s|%s|g%d-%d|d%d-%d|pm%d", s.pair, s.hello, s.sc.garbage[epI], s.sc.garbage[epR], len(s.sc.decoys[epI]), len(s.sc.decoys[epR]), s.sc.pm))
	for k := 1; k < len(b); k++ {
		last := b[k]["last"]
		switch last.F("a").Str() {
		case "Fault":
			e := last.F("e").Str()
			recv := "I"
			if e == "I" {
				recv = "R"
			}
			ctx.Distinct(fmt.Sprintf("fault|%s|%s|%s|%s|%s|recv-%s", s.pair, last.F("kind").Str(), last.F("unit").Str(), last.F("part").Str(), e,
				b[k]["st"].F(recv).F("ph").Str()))
		case "SendRefused":
			ctx.Distinct(fmt.Sprintf("refused|%s|%s|ctr%d", s.pair, last.F("e").Str(), last.F("ctr").Int()%bipRekeyInterval))
		case "Send":
			if j.realRI {
				c := last.F("ctr").Int() % bipRekeyInterval
				if c <= 1 || c == bipRekeyInterval-1 {
					ctx.Distinct(fmt.Sprintf("rekey|%s|%s|epoch%d|ctr%d|ign%v", s.pair, last.F("e").Str(), last.F("epoch").Int(), c, last.F("ign").Bool()))
				}
			}
		}
	}
}

func summarise(ctx *vrun.Ctx, st *stats) {
	m := map[string]int64{}
	st.byPairing.Range(func(k, v any) bool {
		m[k.(string)] = atomic.LoadInt64(v.(*int64))
		return true
	})
	var ks []string
	for k := range m {
		ks = append(ks, fmt.Sprintf("%s=%d", k, m[k]))
	}
	sort.Strings(ks)
	ctx.SetExtra("sessions_by_pairing", strings.Join(ks, " "))
	ctx.SetExtra("sessions_with_faults", st.faultSessions)
	ctx.SetExtra("sessions_with_refused_oversized_send", st.refusedSessions)
	ctx.SetExtra("sessions_crossing_two_real_rekeys_both_directions", st.longBoth)
}
