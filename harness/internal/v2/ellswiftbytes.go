package v2

import (
	"bytes"
	"crypto/sha256"
	"encoding/hex"
	"fmt"
	"math/big"
	"time"

	"github.com/btcsuite/btcd/btcec/v2"
	"github.com/btcsuite/btcd/btcec/v2/ellswift"

	"verif/harness/internal/tla"
	"verif/harness/internal/tlc"
	"verif/harness/internal/vrun"
)

// Binding of spec/v2/EllswiftBytes.tla: every 64-byte encoding goes through
// the PUBLIC byte-level entry points ellswift.EllswiftECDHXOnly and
// ellswift.V2Ecdh (with the private key 1 the x-only ECDH result IS the
// decoded x-coordinate).  The expected x is a big.Int evaluation of BIP324's
// XSwiftEC formula on the canonical values the specification prescribes.

var (
	bigOne   = big.NewInt(1)
	bigTwo   = big.NewInt(2)
	bigSeven = big.NewInt(7)
	// sqrt(-3) mod p as fixed by BIP324 (MINUS_3_SQRT); the choice of root
	// fixes the order of the second and third candidate.
	minus3Sqrt, _ = new(big.Int).SetString("0a2d2ba93507f1df233770c2a797962cc61f6d15da14ecd47d8d27ae1cd5f852", 16)
)

func fmod(x *big.Int) *big.Int { return x.Mod(x, fieldPrime) }

func finv(x *big.Int) *big.Int { return new(big.Int).ModInverse(x, fieldPrime) }

func isSquare(x *big.Int) bool {
	x = new(big.Int).Mod(x, fieldPrime)
	return x.Sign() == 0 || big.Jacobi(x, fieldPrime) == 1
}

func onCurveX(x *big.Int) bool {
	y2 := new(big.Int).Exp(x, big.NewInt(3), fieldPrime)
	y2.Add(y2, bigSeven)
	return isSquare(y2)
}

// refXSwiftEC is BIP324's xswiftec(u, t) from step 3 on: u and t are already
// reduced and non-zero (steps 1-2 are what EllswiftBytes.tla specifies).
func refXSwiftEC(u, t *big.Int) (*big.Int, error) {
	if u.Sign() == 0 || t.Sign() == 0 || u.Cmp(fieldPrime) >= 0 || t.Cmp(fieldPrime) >= 0 {
		return nil, fmt.Errorf("refXSwiftEC: argument not canonical non-zero")
	}
	u3p7 := new(big.Int).Exp(u, big.NewInt(3), fieldPrime)
	u3p7.Add(u3p7, bigSeven)
	t = new(big.Int).Set(t)
	t2 := new(big.Int).Mul(t, t)
	if fmod(new(big.Int).Add(u3p7, t2)).Sign() == 0 {
		t = fmod(t.Mul(t, bigTwo))
		t2 = new(big.Int).Mul(t, t)
	}
	X := fmod(new(big.Int).Sub(u3p7, t2))
	X = fmod(X.Mul(X, finv(fmod(new(big.Int).Mul(bigTwo, t)))))
	Y := fmod(new(big.Int).Add(X, t))
	Y = fmod(Y.Mul(Y, finv(fmod(new(big.Int).Mul(minus3Sqrt, u)))))
	c1 := fmod(new(big.Int).Add(u, new(big.Int).Mul(big.NewInt(4), new(big.Int).Mul(Y, Y))))
	if onCurveX(c1) {
		return c1, nil
	}
	if Y.Sign() == 0 {
		return nil, fmt.Errorf("refXSwiftEC: Y = 0 and first candidate not on curve")
	}
	xy := fmod(new(big.Int).Mul(X, finv(Y)))
	half := finv(bigTwo)
	c2 := fmod(new(big.Int).Mul(fmod(new(big.Int).Sub(new(big.Int).Neg(xy), u)), half))
	if onCurveX(c2) {
		return c2, nil
	}
	c3 := fmod(new(big.Int).Mul(fmod(new(big.Int).Sub(xy, u)), half))
	if onCurveX(c3) {
		return c3, nil
	}
	return nil, fmt.Errorf("refXSwiftEC: no candidate on the curve")
}

// reduceHalf is the reduction EllswiftBytes.tla prescribes, on numbers.
func reduceHalf(b []byte) *big.Int {
	v := new(big.Int).SetBytes(b)
	v.Mod(v, fieldPrime)
	if v.Sign() == 0 {
		v.SetInt64(1)
	}
	return v
}

func taggedHash(tag string, msg []byte) []byte {
	th := sha256.Sum256([]byte(tag))
	h := sha256.New()
	h.Write(th[:])
	h.Write(th[:])
	h.Write(msg)
	return h.Sum(nil)
}

// checkEncoding sends one 64-byte encoding through the public entry points
// and compares with the expected x-coordinate.
func checkEncoding(ctx *vrun.Ctx, enc [64]byte, wantX []byte, what string, replay any) {
	one := privOne()
	got, err := ellswift.EllswiftECDHXOnly(enc, one)
	ctx.AddEval(1)
	if err != nil || !bytes.Equal(got[:], wantX) {
		ctx.Violation("ellswift:bytes-decode", fmt.Sprintf("ellswift.EllswiftECDHXOnly(%x, priv=1) = %x, err=%v; the encoding decodes to x=%x (%s)", enc, got, err, wantX, what), replay)
		return
	}
	// V2Ecdh over the same bytes, both roles: tagged hash of the encodings as
	// sent and the x-only ECDH result
	var ours [64]byte
	copy(ours[:], bytes.Repeat([]byte{0x5a}, 64))
	for _, initiating := range []bool{true, false} {
		msg := append(append(append([]byte{}, ours[:]...), enc[:]...), wantX...)
		if !initiating {
			msg = append(append(append([]byte{}, enc[:]...), ours[:]...), wantX...)
		}
		want := taggedHash("bip324_ellswift_xonly_ecdh", msg)
		sec, err := ellswift.V2Ecdh(one, enc, ours, initiating)
		ctx.AddEval(1)
		if err != nil || !bytes.Equal(sec[:], want) {
			ctx.Violation("ellswift:v2ecdh-bytes", fmt.Sprintf("ellswift.V2Ecdh(priv=1, theirs=%x, initiating=%v) differs from the BIP324 tagged hash over the decoded x (err=%v; %s)", enc, initiating, err, what), replay)
			return
		}
	}
	// and with a non-trivial private key: x(k * lift_x(wantX))
	var kb [32]byte
	copy(kb[:], taggedHash("verif-k", enc[:]))
	k, _ := btcec.PrivKeyFromBytes(kb[:])
	pk, err := btcec.ParsePubKey(append([]byte{2}, wantX...))
	if err != nil {
		return
	}
	var pj, rj btcec.JacobianPoint
	pk.AsJacobian(&pj)
	btcec.ScalarMultNonConst(&k.Key, &pj, &rj)
	rj.ToAffine()
	got, err = ellswift.EllswiftECDHXOnly(enc, k)
	ctx.AddEval(1)
	if err != nil || !bytes.Equal(got[:], rj.X.Bytes()[:]) {
		ctx.Violation("ellswift:bytes-ecdh", fmt.Sprintf("ellswift.EllswiftECDHXOnly(%x, k) differs from x(k*lift_x(decode)) (err=%v; %s)", enc, err, what), replay)
	}
}

// pinDecodeVectors: the big-int reference against the 76 BIP324 decode
// vectors (harness error when it disagrees), then every vector through the
// byte-level entry points.
func pinDecodeVectors(ctx *vrun.Ctx, vf *vectorFile) error {
	if new(big.Int).Mod(new(big.Int).Add(new(big.Int).Mul(minus3Sqrt, minus3Sqrt), big.NewInt(3)), fieldPrime).Sign() != 0 {
		return fmt.Errorf("MINUS_3_SQRT constant is wrong")
	}
	for i, d := range vf.Decode {
		e := unhex(d.Ellswift)
		x, err := refXSwiftEC(reduceHalf(e[:32]), reduceHalf(e[32:]))
		if err != nil || hex.EncodeToString(x.FillBytes(make([]byte, 32))) != d.X {
			return fmt.Errorf("big-int XSwiftEC reference disagrees with BIP324 decode vector %d: %v", i, err)
		}
		var enc [64]byte
		copy(enc[:], e)
		checkEncoding(ctx, enc, unhex(d.X), fmt.Sprintf("BIP324 decode vector %d", i), d)
	}
	return nil
}

// classValue concretises a half class of EllswiftBytes.tla to 32 bytes.
func classBytes(ctx *vrun.Ctx, class, which string, inst int) []byte {
	out := make([]byte, 32)
	v := new(big.Int)
	switch class {
	case "zero":
	case "one":
		v.SetInt64(1)
	case "pm1":
		v.Sub(fieldPrime, bigOne)
	case "p":
		v.Set(fieldPrime)
	case "pp1":
		v.Add(fieldPrime, bigOne)
	case "max":
		v.Sub(new(big.Int).Lsh(bigOne, 256), bigOne)
	case "rand":
		rng := ctx.Rand(fmt.Sprintf("ellswift-%s-%d", which, inst))
		pm3 := new(big.Int).Sub(fieldPrime, big.NewInt(3))
		v.Rand(rng, pm3).Add(v, bigTwo) // 2..p-2
	default:
		panic("unknown half class " + class)
	}
	return v.FillBytes(out)
}

// canonValue is the number a canonical class of the specification's `out`
// stands for; "rand" is the same draw as in classBytes.
func canonValue(ctx *vrun.Ctx, class, which string, inst int) *big.Int {
	switch class {
	case "one":
		return big.NewInt(1)
	case "pm1":
		return new(big.Int).Sub(fieldPrime, bigOne)
	case "maxmp":
		v := new(big.Int).Sub(new(big.Int).Lsh(bigOne, 256), bigOne)
		return v.Sub(v, fieldPrime)
	case "rand":
		return new(big.Int).SetBytes(classBytes(ctx, "rand", which, inst))
	}
	panic("not a canonical class: " + class)
}

var halfClasses = []string{"zero", "one", "pm1", "p", "pp1", "max", "rand"}

// runEllswiftBytes checks EllswiftBytes.tla with TLC, dumps its graph and
// replays every Decode transition into the byte-level entry points.
func runEllswiftBytes(ctx *vrun.Ctx) error {
	inst := 2
	if ctx.Thorough {
		inst = 12
	}
	cfg := fmt.Sprintf("CONSTANTS\n  HalfClasses = %s\n  Instances = %d\nINIT Init\nNEXT Next\nINVARIANTS WellReduced Independent\n", strSet(halfClasses), inst)
	res, err := tlc.Run(tlc.Opts{SpecDir: ctx.SpecDir("v2"), Module: "EllswiftBytes", CfgText: cfg, Workers: 2,
		Timeout: 10 * time.Minute, DumpGraph: true, Coverage: ctx.Thorough, Scratch: ctx.Scratch, HeapGB: 2})
	if err != nil {
		return fmt.Errorf("ellswift-bytes: %w", err)
	}
	if !res.OK {
		return fmt.Errorf("ellswift-bytes: the specification violates its own %s %s", res.ErrKind, res.ErrName)
	}
	if ctx.Thorough && res.ActionCount["Decode"] == 0 {
		return fmt.Errorf("ellswift-bytes: vacuity: Decode never taken")
	}
	ctx.AddModel(res.Distinct, res.Generated)
	byOut := map[string][]byte{} // equal `out` and equal draws => equal x
	n := 0
	for _, node := range res.Graph.Order {
		for _, e := range node.Out {
			if e.Action != "Decode" {
				continue
			}
			from, to := node.State, e.To.State
			n++
			checkDecodeStep(ctx, from, to, byOut)
		}
	}
	if want := len(halfClasses) * len(halfClasses) * inst; n != want {
		return fmt.Errorf("ellswift-bytes: %d Decode transitions, expected %d", n, want)
	}
	ctx.AddTraces(int64(n))
	ctx.AddExtra("ellswift_byte_level_decodes", int64(n))
	ctx.Logf("ellswift-bytes: TLC distinct=%d; %d encodings (7x7 half classes x %d draws) through EllswiftECDHXOnly/V2Ecdh", res.Distinct, n, inst)
	return nil
}

func checkDecodeStep(ctx *vrun.Ctx, from, to tla.State, byOut map[string][]byte) {
	uc, tc, inst := from["uc"].Str(), from["tc"].Str(), from["inst"].Int()
	out := to["out"]
	var enc [64]byte
	copy(enc[:32], classBytes(ctx, uc, "u", inst))
	copy(enc[32:], classBytes(ctx, tc, "t", inst))
	x, err := refXSwiftEC(canonValue(ctx, out.F("u").Str(), "u", inst), canonValue(ctx, out.F("t").Str(), "t", inst))
	if err != nil {
		panic(err)
	}
	xb := x.FillBytes(make([]byte, 32))
	what := fmt.Sprintf("u half class %s, t half class %s, specification: decode as (%s, %s)", uc, tc, out.F("u").Str(), out.F("t").Str())
	ctx.Distinct("ellswift-bytes|" + uc + "|" + tc)
	checkEncoding(ctx, enc, xb, what, map[string]any{"encoding": hex.EncodeToString(enc[:]), "u_class": uc, "t_class": tc, "spec_out": out.Go(), "expected_x": hex.EncodeToString(xb)})
	key := fmt.Sprintf("%s|%s|%d", out.F("u").Str(), out.F("t").Str(), inst)
	if prev, ok := byOut[key]; ok && !bytes.Equal(prev, xb) {
		panic("reference decode not a function of the specification's out")
	}
	byOut[key] = xb
}
