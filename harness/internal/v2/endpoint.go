package v2

import (
	"errors"
	"sync"

	"github.com/btcsuite/btcd/v2transport"
)

// events is what one endpoint's program has observably done so far.
type events struct {
	mu         sync.Mutex
	hsReturned bool
	hsErr      error
	useV1      bool
	prefixLen  int      // len(ReceivedPrefix()) at a v1 fallback
	delivered  [][]byte // contents handed to the application, in order
	ignored    int      // ref only: decoys seen after the handshake
	hsIgnored  int      // ref only: decoys seen during the handshake
	recvErr    error
	canonErr   bool // ref only: peer ciphertext was not the canonical encryption
}

func (ev *events) status() string {
	ev.mu.Lock()
	defer ev.mu.Unlock()
	switch {
	case !ev.hsReturned:
		return "handshaking"
	case ev.useV1:
		return "v1"
	case ev.hsErr != nil || ev.recvErr != nil:
		return "err"
	}
	return "ready"
}

// endpoint is one side of a session: the real v2transport.Peer or the
// reference endpoint, run by the same blocking program shape as
// peer.negotiate{In,Out}boundProtocol + inHandler.
type endpoint interface {
	// program runs the handshake and then the receive loop until an error.
	program(ev *events)
	// send is V2EncPacket.
	send(content []byte, ignore bool) error
	kind() string
}

type scenario struct {
	garbage [2]int
	decoys  [2][]int
	pm      int
	uPlusP  bool
}

type realEndpoint struct {
	p    *v2transport.Peer
	role int
	sc   *scenario
}

func newRealEndpoint(c *conn, role int, sc *scenario) *realEndpoint {
	p := v2transport.NewPeer()
	p.UseReadWriter(c)
	return &realEndpoint{p: p, role: role, sc: sc}
}

func (r *realEndpoint) kind() string { return "real" }

func (r *realEndpoint) program(ev *events) {
	const net = v2transport.BitcoinNet(mainNetMagic)
	var err error
	if r.role == epI {
		err = r.p.InitiateV2Handshake(r.sc.garbage[epI])
		if err == nil {
			err = r.p.CompleteHandshake(true, r.sc.decoys[epI], net)
		}
	} else {
		err = r.p.RespondV2Handshake(r.sc.garbage[epR], net)
		if err == nil {
			err = r.p.CompleteHandshake(false, r.sc.decoys[epR], net)
		}
	}
	ev.mu.Lock()
	ev.hsReturned, ev.hsErr = true, err
	if errors.Is(err, v2transport.ErrUseV1Protocol) {
		ev.useV1 = true
		ev.prefixLen = len(r.p.ReceivedPrefix())
	}
	ev.mu.Unlock()
	if err != nil {
		return
	}
	for {
		c, err := r.p.V2ReceivePacket(nil)
		ev.mu.Lock()
		if err != nil {
			ev.recvErr = err
			ev.mu.Unlock()
			return
		}
		ev.delivered = append(ev.delivered, c)
		ev.mu.Unlock()
	}
}

func (r *realEndpoint) send(content []byte, ignore bool) error {
	_, _, err := r.p.V2EncPacket(content, nil, ignore)
	return err
}

type refEndpoint struct {
	r    *Ref
	role int
	sc   *scenario
}

func newRefEndpoint(c *conn, role int, sc *scenario) *refEndpoint {
	return &refEndpoint{r: NewRef(c, role == epI, mainNetMagic), role: role, sc: sc}
}

func (r *refEndpoint) kind() string { return "ref" }

func (r *refEndpoint) program(ev *events) {
	var err error
	if r.role == epI {
		err = r.r.SendKey(r.sc.garbage[epI], r.sc.pm, r.sc.uPlusP)
		if err == nil {
			err = r.r.RecvKey(r.sc.decoys[epI])
		}
	} else {
		err = r.r.RespondKey(r.sc.garbage[epR], r.sc.decoys[epR], r.sc.uPlusP)
	}
	if err == nil {
		err = r.r.Scan()
	}
	for err == nil {
		var pkt *refPacket
		pkt, err = r.r.RecvPkt()
		if errors.Is(err, errRefCanonical) {
			ev.mu.Lock()
			ev.canonErr = true
			ev.mu.Unlock()
		}
		if err != nil {
			break
		}
		if !pkt.Ignore {
			break // the version packet
		}
		ev.mu.Lock()
		ev.hsIgnored++
		ev.mu.Unlock()
	}
	ev.mu.Lock()
	ev.hsReturned, ev.hsErr = true, err
	if errors.Is(err, errRefUseV1) {
		ev.useV1 = true
		ev.prefixLen = len(r.r.prefix)
	}
	ev.mu.Unlock()
	if err != nil {
		return
	}
	for {
		pkt, err := r.r.RecvPkt()
		ev.mu.Lock()
		if errors.Is(err, errRefCanonical) {
			ev.canonErr = true
		}
		if err != nil {
			ev.recvErr = err
			ev.mu.Unlock()
			return
		}
		if pkt.Ignore {
			ev.ignored++
		} else {
			ev.delivered = append(ev.delivered, pkt.Content)
		}
		ev.mu.Unlock()
	}
}

func (r *refEndpoint) send(content []byte, ignore bool) error {
	_, err := r.r.Send(content, ignore)
	return err
}
