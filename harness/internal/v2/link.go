package v2

import (
	"fmt"
	"io"
	"math/rand"
	"sync"
	"time"
)

// link is the in-memory pipe between the two endpoints with the adversarial
// byte channel in between.  It mirrors the specification's `wire`: every Write
// of endpoint e becomes a unit held in flight (held[e]); a specification
// receive action moves the head unit's bytes into the reader's buffer; the
// fault actions edit the bytes in flight.  Reads block; an endpoint is
// quiescent when it is blocked on an empty buffer or its program returned, so
// the driver can step both endpoints deterministically (no wall clock).
type link struct {
	mu   sync.Mutex
	cond *sync.Cond

	held      [2][]unit // held[e]: written by e, in flight
	rd        [2][]byte // rd[e]: bytes e can read
	eof       [2]bool   // eof[e]: EOF once rd[e] is drained
	outClosed [2]bool   // writes of e are lost (stream was cut)
	writes    [2]int
	blocked   [2]bool
	done      [2]bool
	consumed  [2]int // bytes read by e
	written   [2]int // bytes written by e
}

type unit struct {
	b   []byte
	cut bool
}

const (
	epI = 0
	epR = 1
)

func peerOf(e int) int { return 1 - e }

func newLink() *link {
	l := &link{}
	l.cond = sync.NewCond(&l.mu)
	return l
}

type conn struct {
	l *link
	e int
}

func (c *conn) Read(p []byte) (int, error) {
	l := c.l
	l.mu.Lock()
	defer l.mu.Unlock()
	if len(p) == 0 {
		return 0, nil
	}
	for len(l.rd[c.e]) == 0 {
		if l.eof[c.e] {
			return 0, io.EOF
		}
		l.blocked[c.e] = true
		l.cond.Broadcast()
		l.cond.Wait()
	}
	l.blocked[c.e] = false
	n := copy(p, l.rd[c.e])
	l.rd[c.e] = l.rd[c.e][n:]
	l.consumed[c.e] += n
	return n, nil
}

func (c *conn) Write(p []byte) (int, error) {
	l := c.l
	l.mu.Lock()
	defer l.mu.Unlock()
	l.writes[c.e]++
	l.written[c.e] += len(p)
	if l.outClosed[c.e] {
		return len(p), nil
	}
	b := append([]byte(nil), p...)
	if l.writes[c.e] == 1 && len(b) > 64 {
		// key || garbage is one write and two units
		l.held[c.e] = append(l.held[c.e], unit{b: b[:64:64]}, unit{b: b[64:]})
	} else {
		l.held[c.e] = append(l.held[c.e], unit{b: b})
	}
	return len(p), nil
}

// deliver moves the head unit written by `from` to its peer's read buffer.
func (l *link) deliver(from int) error {
	l.mu.Lock()
	defer l.mu.Unlock()
	if len(l.held[from]) == 0 {
		return fmt.Errorf("deliver: nothing in flight from endpoint %d", from)
	}
	u := l.held[from][0]
	l.held[from] = l.held[from][1:]
	to := peerOf(from)
	l.rd[to] = append(l.rd[to], u.b...)
	if u.cut {
		l.eof[to] = true
	}
	l.blocked[to] = false
	l.cond.Broadcast()
	return nil
}

// closeTo ends the stream towards e.
func (l *link) closeTo(e int) {
	l.mu.Lock()
	l.eof[e] = true
	l.blocked[e] = false
	l.cond.Broadcast()
	l.mu.Unlock()
}

// quiesce waits until endpoint e is blocked on an empty buffer or finished.
func (l *link) quiesce(e int) error {
	deadline := time.AfterFunc(120*time.Second, func() {
		l.mu.Lock()
		l.cond.Broadcast()
		l.mu.Unlock()
	})
	defer deadline.Stop()
	start := time.Now()
	l.mu.Lock()
	defer l.mu.Unlock()
	for !(l.done[e] || (l.blocked[e] && len(l.rd[e]) == 0 && !l.eof[e])) {
		if time.Since(start) > 119*time.Second {
			return fmt.Errorf("endpoint %d did not become quiescent", e)
		}
		l.cond.Wait()
	}
	return nil
}

func (l *link) finish(e int) {
	l.mu.Lock()
	l.done[e] = true
	l.cond.Broadcast()
	l.mu.Unlock()
}

func (l *link) heldLens(e int) (lens []int, cut []bool) {
	l.mu.Lock()
	defer l.mu.Unlock()
	for _, u := range l.held[e] {
		lens = append(lens, len(u.b))
		cut = append(cut, u.cut)
	}
	return
}

// fault applies one adversary action to the units in flight from e; pos is
// 1-based like the specification's.  It returns a description of the bytes
// touched (for the replay file).
func (l *link) fault(rng *rand.Rand, kind string, e, pos int, part string, keepLo, keepHi int) (string, error) {
	l.mu.Lock()
	defer l.mu.Unlock()
	h := l.held[e]
	i := pos - 1
	if i < 0 || i >= len(h) {
		return "", fmt.Errorf("fault %s: position %d out of range (%d in flight)", kind, pos, len(h))
	}
	switch kind {
	case "flip":
		b := append([]byte(nil), h[i].b...)
		lo, hi := 0, len(b)
		switch part {
		case "len":
			hi = 3
		case "body":
			lo = 3
			switch rng.Intn(4) {
			case 0: // the header byte (ignore bit among others)
				hi = 4
			case 1: // the tag
				lo = len(b) - 16
			}
		}
		if hi > len(b) {
			hi = len(b)
		}
		if lo >= hi {
			return "", fmt.Errorf("fault flip: empty range in unit of %d bytes", len(b))
		}
		n := 1 + rng.Intn(3) // single- and multi-byte corruption
		desc := ""
		for k := 0; k < n; k++ {
			off := lo + rng.Intn(hi-lo)
			if k == 0 && part == "flip" && rng.Intn(2) == 0 {
				// key, garbage, terminator: favour the first and last byte
				// (comparisons that stop one byte short)
				off = lo
				if rng.Intn(2) == 0 {
					off = hi - 1
				}
			}
			var mask byte
			if rng.Intn(2) == 0 {
				mask = 1 << uint(rng.Intn(8))
			} else {
				mask = byte(1 + rng.Intn(255))
			}
			if k > 0 && b[off] != h[i].b[off] {
				continue // do not undo an earlier flip
			}
			b[off] ^= mask
			desc += fmt.Sprintf("[%d]^=%02x ", off, mask)
		}
		l.held[e][i].b = b
		return desc, nil
	case "trunc":
		// keep a prefix of keepLo..keepHi bytes (clamped to the unit)
		n := len(h[i].b)
		lo, hi := keepLo, keepHi
		if hi > n-1 {
			hi = n - 1
		}
		if hi < 0 {
			hi = 0
		}
		if lo > hi {
			lo = hi
		}
		keep := lo
		switch rng.Intn(3) {
		case 1:
			keep = hi
		case 2:
			keep = lo + rng.Intn(hi-lo+1)
		}
		l.held[e] = append(h[:i:i], unit{b: h[i].b[:keep:keep], cut: true})
		l.outClosed[e] = true
		return fmt.Sprintf("keep %d of %d bytes", keep, n), nil
	case "drop":
		l.held[e] = append(h[:i:i], h[i+1:]...)
		return "", nil
	case "dup":
		nh := append([]unit(nil), h[:i+1]...)
		nh = append(nh, h[i:]...)
		l.held[e] = nh
		return "", nil
	case "swap":
		if i+1 >= len(h) {
			return "", fmt.Errorf("fault swap: no successor")
		}
		nh := append([]unit(nil), h...)
		nh[i], nh[i+1] = nh[i+1], nh[i]
		l.held[e] = nh
		return "", nil
	}
	return "", fmt.Errorf("unknown fault kind %q", kind)
}
