package v2

import (
	"fmt"
	"sort"
	"strings"
)

// params are the constants of V2Transport.tla for one TLC run.
type params struct {
	RI          int
	GarbageLens []int
	Decoys      []int
	Hellos      []string
	Encodings   []string
	PMs         []int
	Sizes       []int
	Ignore      []bool
	MaxApp      int
	MaxRefused  int
	MaxFlight   int
	Senders     []string
	MaxFaults   int
	FaultKinds  []string
	FaultSeqs   []int
	TrackNonces bool
	Scenarios   []scen // explicit scenario set (overrides the product)
}

type scen struct {
	gI, gR, dI, dR int
	hello          string
	pm             int
	noFaults       bool // mf = 0 for this scenario
	noRefuse       bool // mr = 0 for this scenario
	uPlusP         bool // enc = "uplusp": reference endpoints send the u half of their key as u + p
}

var allFaultKinds = []string{"flip", "trunc", "drop", "dup", "swap"}

var invariants = []string{"TypeOK", "Agreement", "InOrder", "Authenticated", "NonceUnique",
	"RekeySchedule", "NoFalseError", "AllDelivered", "CounterSync", "V1Fallback"}

func intSet(xs []int) string {
	ys := append([]int(nil), xs...)
	sort.Ints(ys)
	p := make([]string, len(ys))
	for i, x := range ys {
		p[i] = fmt.Sprint(x)
	}
	return "{" + strings.Join(p, ", ") + "}"
}

func strSet(xs []string) string {
	p := make([]string, len(xs))
	for i, x := range xs {
		p[i] = fmt.Sprintf("%q", x)
	}
	return "{" + strings.Join(p, ", ") + "}"
}

func boolSet(xs []bool) string {
	p := make([]string, len(xs))
	for i, x := range xs {
		if x {
			p[i] = "TRUE"
		} else {
			p[i] = "FALSE"
		}
	}
	return "{" + strings.Join(p, ", ") + "}"
}

func seqRange(lo, hi int) []int {
	var r []int
	for i := lo; i <= hi; i++ {
		r = append(r, i)
	}
	return r
}

// render returns the root module name, the cfg text and extra files.
func (p params) render() (module, cfg string, files map[string][]byte) {
	var sb strings.Builder
	sb.WriteString("CONSTANTS\n")
	fmt.Fprintf(&sb, "  RekeyInterval = %d\n  MaxGarbage = 4095\n", p.RI)
	encs := p.Encodings
	if len(encs) == 0 {
		encs = []string{"canon"}
	}
	fmt.Fprintf(&sb, "  GarbageLens = %s\n  DecoyCounts = %s\n  Hellos = %s\n  Encodings = %s\n  PrefixMatches = %s\n",
		intSet(p.GarbageLens), intSet(p.Decoys), strSet(p.Hellos), strSet(encs), intSet(p.PMs))
	fmt.Fprintf(&sb, "  Sizes = %s\n  IgnoreOpts = %s\n  MaxApp = %d\n  MaxRefused = %d\n  MaxFlight = %d\n  Senders = %s\n",
		intSet(p.Sizes), boolSet(p.Ignore), p.MaxApp, p.MaxRefused, p.MaxFlight, strSet(p.Senders))
	tn := "FALSE"
	if p.TrackNonces {
		tn = "TRUE"
	}
	fmt.Fprintf(&sb, "  MaxFaults = %d\n  FaultKinds = %s\n  FaultSeqs = %s\n  TrackNonces = %s\n",
		p.MaxFaults, strSet(p.FaultKinds), intSet(p.FaultSeqs), tn)
	module = "V2Transport"
	if len(p.Scenarios) > 0 {
		module = "MCV2"
		sb.WriteString("  ScenarioSpace <- MCScenarios\n")
		var mc strings.Builder
		mc.WriteString("---- MODULE MCV2 ----\nEXTENDS V2Transport\nMCScenarios == {\n")
		for i, s := range p.Scenarios {
			if i > 0 {
				mc.WriteString(",\n")
			}
			mf := p.MaxFaults
			if s.noFaults {
				mf = 0
			}
			mr := p.MaxRefused
			if s.noRefuse {
				mr = 0
			}
			enc := "canon"
			if s.uPlusP {
				enc = "uplusp"
			}
			fmt.Fprintf(&mc, "  [gI |-> %d, gR |-> %d, dI |-> %d, dR |-> %d, hello |-> %q, pm |-> %d, mf |-> %d, mr |-> %d, enc |-> %q]", s.gI, s.gR, s.dI, s.dR, s.hello, s.pm, mf, mr, enc)
		}
		mc.WriteString("}\n====\n")
		files = map[string][]byte{"MCV2.tla": []byte(mc.String())}
	}
	sb.WriteString("INIT Init\nNEXT Next\nINVARIANTS " + strings.Join(invariants, " ") + "\n")
	return module, sb.String(), files
}

// unitSeq is the sequence number of the packet with use counter ctr in the
// stream of an endpoint with the given garbage length (key, garbage?,
// terminator come first).
func unitSeq(garbage, ctr int) int {
	s := 2 + ctr
	if garbage > 0 {
		s++
	}
	return s
}
