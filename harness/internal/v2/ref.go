// Package v2 binds spec/v2/V2Transport.tla (property C19) to
// btcd's v2transport.Peer.
//
// ref.go is the REFERENCE ENDPOINT: a BIP324 endpoint whose methods are the
// specification's actions (SendKey, RespondKey/RecvKey, Scan, RecvPkt, Send)
// and whose symbolic terms are concretised with library primitives only
// (x/crypto chacha20, chacha20poly1305, hkdf, crypto/sha256); only the ECDH
// secret comes from btcd (ellswift.V2Ecdh), because ElligatorSwift arithmetic
// is outside what the specification expresses.  It shares no code with
// v2transport and is pinned by the BIP324 packet vectors (vectors.go).
package v2

import (
	"bytes"
	"crypto/rand"
	"crypto/sha256"
	"encoding/binary"
	"errors"
	"fmt"
	"io"
	"math/big"

	"github.com/btcsuite/btcd/btcec/v2"
	"github.com/btcsuite/btcd/btcec/v2/ellswift"
	"golang.org/x/crypto/chacha20"
	"golang.org/x/crypto/chacha20poly1305"
	"golang.org/x/crypto/hkdf"
)

// BIP324 constants (from the BIP text, not from btcd).
const (
	bipRekeyInterval = 224
	bipMaxGarbage    = 4095
	bipTermLen       = 16
	bipLenField      = 3
	bipHeaderLen     = 1
	bipTagLen        = 16
	bipIgnoreBit     = 0x80
)

var (
	errRefUseV1     = errors.New("ref: v1 peer")
	errRefWrongNet  = errors.New("ref: v1 peer on wrong network")
	errRefNoTerm    = errors.New("ref: garbage terminator not found")
	errRefAuth      = errors.New("ref: authentication failed")
	errRefCanonical = errors.New("ref: peer ciphertext differs from canonical encryption")
	errRefTooLong   = errors.New("ref: contents longer than 2^24 - 1 bytes")
)

// refLenCipher is FSChaCha20: term <<secret, role, "L", epoch>> with the
// in-epoch chunk index; the keystream of one epoch is continuous.
type refLenCipher struct {
	key   [32]byte
	ctr   uint64 // uses so far (spec: sL / rL)
	pos   uint64 // keystream bytes consumed in the current epoch
	rekey uint64
}

func newRefLenCipher(key []byte) *refLenCipher {
	c := &refLenCipher{rekey: bipRekeyInterval}
	copy(c.key[:], key)
	return c
}

// keystream returns n bytes of the current epoch's keystream at pos, by
// random access (fresh cipher, block counter, discard) rather than streaming.
func (c *refLenCipher) keystream(n int) []byte {
	var nonce [12]byte
	binary.LittleEndian.PutUint64(nonce[4:], c.ctr/c.rekey)
	ch, err := chacha20.NewUnauthenticatedCipher(c.key[:], nonce[:])
	if err != nil {
		panic(err)
	}
	ch.SetCounter(uint32(c.pos / 64))
	skip := int(c.pos % 64)
	buf := make([]byte, skip+n)
	ch.XORKeyStream(buf, buf)
	c.pos += uint64(n)
	return buf[skip:]
}

func (c *refLenCipher) crypt(in []byte) []byte {
	ks := c.keystream(len(in))
	out := make([]byte, len(in))
	for i := range in {
		out[i] = in[i] ^ ks[i]
	}
	if (c.ctr+1)%c.rekey == 0 {
		nk := c.keystream(32)
		c.ctr++
		copy(c.key[:], nk)
		c.pos = 0
		return out
	}
	c.ctr++
	return out
}

// refAEAD is FSChaCha20Poly1305: key term <<secret, role, "P", epoch>>,
// nonce <<ctr % RI, ctr \div RI>>.
type refAEAD struct {
	key   [32]byte
	ctr   uint64 // uses so far (spec: sP / rP)
	rekey uint64
}

func newRefAEAD(key []byte) *refAEAD {
	a := &refAEAD{rekey: bipRekeyInterval}
	copy(a.key[:], key)
	return a
}

func (a *refAEAD) nonce() []byte {
	var n [12]byte
	binary.LittleEndian.PutUint32(n[0:4], uint32(a.ctr%a.rekey))
	binary.LittleEndian.PutUint64(n[4:12], a.ctr/a.rekey)
	return n[:]
}

func (a *refAEAD) advance() {
	if (a.ctr+1)%a.rekey == 0 {
		var n [12]byte
		n[0], n[1], n[2], n[3] = 0xff, 0xff, 0xff, 0xff
		binary.LittleEndian.PutUint64(n[4:12], a.ctr/a.rekey)
		c, err := chacha20poly1305.New(a.key[:])
		if err != nil {
			panic(err)
		}
		var zero [32]byte
		ct := c.Seal(nil, n[:], zero[:], nil)
		copy(a.key[:], ct[:32])
	}
	a.ctr++
}

func (a *refAEAD) seal(aad, pt []byte) []byte {
	c, err := chacha20poly1305.New(a.key[:])
	if err != nil {
		panic(err)
	}
	ct := c.Seal(nil, a.nonce(), pt, aad)
	a.advance()
	return ct
}

// open does not advance on failure (the connection is dead then).
func (a *refAEAD) open(aad, ct []byte) ([]byte, error) {
	c, err := chacha20poly1305.New(a.key[:])
	if err != nil {
		panic(err)
	}
	pt, err := c.Open(nil, a.nonce(), ct, aad)
	if err != nil {
		return nil, errRefAuth
	}
	a.advance()
	return pt, nil
}

// refKeys is the BIP324 key schedule.
type refKeys struct {
	initiatorL, initiatorP, responderL, responderP [32]byte
	initiatorTerm, responderTerm                   [16]byte
	sessionID                                      [32]byte
}

func deriveRefKeys(secret []byte, magic uint32) *refKeys {
	salt := append([]byte("bitcoin_v2_shared_secret"), 0, 0, 0, 0)
	binary.LittleEndian.PutUint32(salt[len(salt)-4:], magic)
	prk := hkdf.Extract(sha256.New, secret, salt)
	exp := func(label string, out []byte) {
		if _, err := io.ReadFull(hkdf.Expand(sha256.New, prk, []byte(label)), out); err != nil {
			panic(err)
		}
	}
	k := &refKeys{}
	exp("initiator_L", k.initiatorL[:])
	exp("initiator_P", k.initiatorP[:])
	exp("responder_L", k.responderL[:])
	exp("responder_P", k.responderP[:])
	var terms [32]byte
	exp("garbage_terminators", terms[:])
	copy(k.initiatorTerm[:], terms[:16])
	copy(k.responderTerm[:], terms[16:])
	exp("session_id", k.sessionID[:])
	return k
}

// refPacket is what RecvPkt hands up: the reference endpoint exposes the
// ignore flag, unlike v2transport.Peer.
type refPacket struct {
	Ignore  bool
	Content []byte
}

// Ref is the reference endpoint.
type Ref struct {
	rw         io.ReadWriter
	initiating bool
	magic      uint32

	priv    *btcec.PrivateKey
	ours    [64]byte
	theirs  [64]byte
	garbage []byte
	prefix  []byte // bytes consumed while classifying (responder)

	keys                 *refKeys
	sendL, recvL         *refLenCipher
	sendP, recvP         *refAEAD
	shadowL              *refLenCipher // peer-direction sender shadow: re-encrypts what was
	shadowP              *refAEAD      // received to check it is the canonical ciphertext
	sendTerm, recvTerm   [16]byte
	recvGarbage          []byte
	sentFirst, recvFirst bool

	// EllswiftOK records the in-handshake ElligatorSwift assertion
	// (decode(encode(x)) = x for our own key).
	EllswiftOK bool
	KeyMade    bool
}

func NewRef(rw io.ReadWriter, initiating bool, magic uint32) *Ref {
	return &Ref{rw: rw, initiating: initiating, magic: magic}
}

func v1Prefix(magic uint32) []byte {
	p := make([]byte, 4, 16)
	binary.LittleEndian.PutUint32(p, magic)
	return append(p, []byte("version\x00\x00\x00\x00\x00")...)
}

func (r *Ref) read(n int) ([]byte, error) {
	b := make([]byte, n)
	if _, err := io.ReadFull(r.rw, b); err != nil {
		return nil, err
	}
	return b, nil
}

func (r *Ref) write(b []byte) error {
	n, err := r.rw.Write(b)
	if err == nil && n != len(b) {
		err = io.ErrShortWrite
	}
	return err
}

func fieldFromBytes(b []byte) *btcec.FieldVal {
	var f btcec.FieldVal
	if f.SetByteSlice(b) {
		f.Normalize()
	}
	return &f
}

// fieldPrime is p = 2^256 - 2^32 - 977.
var fieldPrime, _ = new(big.Int).SetString("fffffffffffffffffffffffffffffffffffffffffffffffffffffffefffffc2f", 16)

// makeKey creates a key pair and an ElligatorSwift encoding whose first pm
// bytes equal the v1 prefix (and whose byte pm differs from it): the u half
// of an encoding is free, so the initiator can be made to look like a v1 peer
// for up to 15 bytes.  With uPlusP the u half is sent NON-CANONICALLY as
// u + p (possible for u < 2^256 - p): the peer must reduce it modulo p and
// both sides must hash the bytes as sent.
func (r *Ref) makeKey(pm int, uPlusP bool) error {
	var pb [32]byte
	if _, err := rand.Read(pb[:]); err != nil {
		return err
	}
	priv, pub := btcec.PrivKeyFromBytes(pb[:])
	xb := pub.SerializeCompressed()[1:]
	x := fieldFromBytes(xb)
	pre := v1Prefix(r.magic)
	for tries := 0; tries < 10000; tries++ {
		var ub, canon [32]byte
		if _, err := rand.Read(ub[:]); err != nil {
			return err
		}
		if uPlusP {
			// u in 1..2^32+976, sent as u + p
			v := new(big.Int).SetUint64(uint64(binary.LittleEndian.Uint32(ub[:4])) + 1)
			v.FillBytes(canon[:])
			new(big.Int).Add(v, fieldPrime).FillBytes(ub[:])
		} else {
			copy(ub[:pm], pre[:pm])
			if pm < 16 && ub[pm] == pre[pm] {
				ub[pm] ^= 0x55
			}
			canon = ub
		}
		u := fieldFromBytes(ub[:])
		if *u.Bytes() != canon { // overflowed the field although it should not
			continue
		}
		var cb [1]byte
		rand.Read(cb[:])
		t := ellswift.XSwiftECInv(u, x, int(cb[0]&7))
		if t == nil {
			continue
		}
		copy(r.ours[:32], ub[:])
		copy(r.ours[32:], t.Bytes()[:])
		r.priv = priv
		r.KeyMade = true
		// ElligatorSwift exercise through the PUBLIC byte-level entry point:
		// with the private key 1 the x-only ECDH result is the decoded x.
		dx, err := ellswift.EllswiftECDHXOnly(r.ours, privOne())
		r.EllswiftOK = err == nil && bytes.Equal(dx[:], xb)
		return nil
	}
	return fmt.Errorf("ref: no ellswift encoding found")
}

func privOne() *btcec.PrivateKey {
	var one [32]byte
	one[31] = 1
	k, _ := btcec.PrivKeyFromBytes(one[:])
	return k
}

// SendKey is the spec's key || garbage step (ISendKey, and the first half of
// RRecvKey).
func (r *Ref) SendKey(garbageLen, pm int, uPlusP bool) error {
	if err := r.makeKey(pm, uPlusP); err != nil {
		return err
	}
	r.garbage = make([]byte, garbageLen)
	rand.Read(r.garbage)
	return r.write(append(append([]byte{}, r.ours[:]...), r.garbage...))
}

func (r *Ref) derive() error {
	secret, err := ellswift.V2Ecdh(r.priv, r.theirs, r.ours, r.initiating)
	if err != nil {
		return err
	}
	k := deriveRefKeys(secret[:], r.magic)
	r.keys = k
	if r.initiating {
		r.sendL, r.sendP = newRefLenCipher(k.initiatorL[:]), newRefAEAD(k.initiatorP[:])
		r.recvL, r.recvP = newRefLenCipher(k.responderL[:]), newRefAEAD(k.responderP[:])
		r.shadowL, r.shadowP = newRefLenCipher(k.responderL[:]), newRefAEAD(k.responderP[:])
		r.sendTerm, r.recvTerm = k.initiatorTerm, k.responderTerm
	} else {
		r.sendL, r.sendP = newRefLenCipher(k.responderL[:]), newRefAEAD(k.responderP[:])
		r.recvL, r.recvP = newRefLenCipher(k.initiatorL[:]), newRefAEAD(k.initiatorP[:])
		r.shadowL, r.shadowP = newRefLenCipher(k.initiatorL[:]), newRefAEAD(k.initiatorP[:])
		r.sendTerm, r.recvTerm = k.responderTerm, k.initiatorTerm
	}
	return nil
}

// sendHs is the sending half of the handshake: terminator, decoys, version.
func (r *Ref) sendHs(decoys []int) error {
	if err := r.write(r.sendTerm[:]); err != nil {
		return err
	}
	for _, n := range decoys {
		if _, err := r.Send(make([]byte, n), true); err != nil {
			return err
		}
	}
	_, err := r.Send(nil, false)
	return err
}

// RespondKey is RRecvKey: byte-wise v1 detection, key || garbage at the first
// mismatch, rest of the key, ciphers, then the sending half.
func (r *Ref) RespondKey(garbageLen int, decoys []int, uPlusP bool) error {
	pre := v1Prefix(r.magic)
	sent := false
	for len(r.prefix) < 16 {
		b, err := r.read(1)
		if err != nil {
			return err
		}
		r.prefix = append(r.prefix, b[0])
		if b[0] != pre[len(r.prefix)-1] {
			if err := r.SendKey(garbageLen, 0, uPlusP); err != nil {
				return err
			}
			sent = true
			break
		}
	}
	if !sent {
		return errRefUseV1
	}
	rest, err := r.read(64 - len(r.prefix))
	if err != nil {
		return err
	}
	r.prefix = append(r.prefix, rest...)
	copy(r.theirs[:], r.prefix)
	if bytes.Equal(r.theirs[4:16], pre[4:16]) {
		return errRefWrongNet
	}
	if err := r.derive(); err != nil {
		return err
	}
	return r.sendHs(decoys)
}

// RecvKey is IRecvKey.
func (r *Ref) RecvKey(decoys []int) error {
	k, err := r.read(64)
	if err != nil {
		return err
	}
	copy(r.theirs[:], k)
	if err := r.derive(); err != nil {
		return err
	}
	return r.sendHs(decoys)
}

// Scan is RecvScan iterated: absorb bytes until the last 16 are the peer's
// terminator; garbage may be 0..4095 bytes long.
func (r *Ref) Scan() error {
	buf, err := r.read(bipTermLen)
	if err != nil {
		return err
	}
	for {
		if bytes.Equal(buf[len(buf)-bipTermLen:], r.recvTerm[:]) {
			r.recvGarbage = buf[:len(buf)-bipTermLen]
			return nil
		}
		if len(buf) == bipMaxGarbage+bipTermLen {
			return errRefNoTerm
		}
		b, err := r.read(1)
		if err != nil {
			return err
		}
		buf = append(buf, b[0])
	}
}

// Send is the spec's Send (V2EncPacket): AAD = own garbage on the first packet
// after the terminator only.
func (r *Ref) Send(content []byte, ignore bool) ([]byte, error) {
	if len(content) > 1<<24-1 {
		return nil, errRefTooLong // SendRefused: nothing changes
	}
	var aad []byte
	if !r.sentFirst {
		aad = r.garbage
		r.sentFirst = true
	}
	pkt := encodeRefPacket(r.sendL, r.sendP, aad, content, ignore)
	return pkt, r.write(pkt)
}

func encodeRefPacket(l *refLenCipher, p *refAEAD, aad, content []byte, ignore bool) []byte {
	var le [4]byte
	binary.LittleEndian.PutUint32(le[:], uint32(len(content)))
	pt := make([]byte, 1+len(content))
	if ignore {
		pt[0] = bipIgnoreBit
	}
	copy(pt[1:], content)
	out := l.crypt(le[:bipLenField])
	return append(out, p.seal(aad, pt)...)
}

// RecvPkt is the spec's RecvPkt: AAD = received garbage on the first packet
// only.
func (r *Ref) RecvPkt() (*refPacket, error) {
	encLen, err := r.read(bipLenField)
	if err != nil {
		return nil, err
	}
	lb := r.recvL.crypt(encLen)
	n := int(lb[0]) | int(lb[1])<<8 | int(lb[2])<<16
	body, err := r.read(bipHeaderLen + n + bipTagLen)
	if err != nil {
		return nil, err
	}
	var aad []byte
	if !r.recvFirst {
		aad = r.recvGarbage
	}
	pt, err := r.recvP.open(aad, body)
	if err != nil {
		return nil, err
	}
	r.recvFirst = true
	pkt := &refPacket{Ignore: pt[0]&bipIgnoreBit != 0, Content: pt[1:]}
	// canonical-ciphertext check: what the peer sent must be byte-identical
	// to the BIP324 encryption of the same plaintext at the same position.
	// (Header bits other than the ignore bit must be zero for that.)
	canon := encodeRefPacket(r.shadowL, r.shadowP, aad, pkt.Content, pkt.Ignore)
	if !bytes.Equal(canon, append(append([]byte{}, encLen...), body...)) {
		return pkt, errRefCanonical
	}
	return pkt, nil
}

// Counters returns the use counters (spec: sL, sP, rL, rP).
func (r *Ref) Counters() (sL, sP, rL, rP uint64) {
	if r.sendL == nil {
		return 0, 0, 0, 0
	}
	return r.sendL.ctr, r.sendP.ctr, r.recvL.ctr, r.recvP.ctr
}
