package v2

import (
	"crypto/sha256"
	"encoding/binary"
	"fmt"
	"math/rand"

	"verif/harness/internal/tla"
	"verif/harness/internal/vrun"
)

// pairing says which implementation plays which role.
type pairing struct{ i, r string } // "real" | "ref"

func (p pairing) String() string { return p.i + "<->" + p.r }

// session replays one behaviour of V2Transport.tla.
type session struct {
	ctx     *vrun.Ctx
	id      string
	pair    pairing
	rng     *rand.Rand
	l       *link
	ep      [2]endpoint
	ev      [2]*events
	sc      scenario
	hello   string
	nDeliv  [2]int // deliveries already compared
	nIgn    [2]int
	closed  [2]bool
	started [2]bool
	steps   []map[string]any // for the replay file
	states  []tla.State      // the behaviour being replayed
	realRI  bool             // the spec ran with the real rekey interval: compare epochs
	job     string
	at      int // index of the state being compared

	// statistics
	maxCtr   [2]int
	faults   int
	refused  int
	expSum   [2][][32]byte // digest of every payload the specification said was delivered, per endpoint
	evals    int64
	diverged bool
}

func epIndex(s string) int {
	if s == "I" {
		return epI
	}
	return epR
}

func epName(e int) string {
	if e == epI {
		return "I"
	}
	return "R"
}

// contentBytes concretises the content term <<e, n>> of the given size.
func contentBytes(seed int64, id string, e string, n, size int) []byte {
	h := sha256.New()
	var b [8]byte
	binary.LittleEndian.PutUint64(b[:], uint64(seed))
	h.Write(b[:])
	h.Write([]byte(id))
	h.Write([]byte(e))
	binary.LittleEndian.PutUint64(b[:], uint64(n))
	h.Write(b[:])
	sum := h.Sum(nil)
	out := make([]byte, size)
	if size <= 4096 {
		for i := 0; i < size; i += 32 {
			copy(out[i:], sum)
			sum[0]++
			s2 := sha256.Sum256(sum)
			sum = s2[:]
		}
		return out
	}
	x := binary.LittleEndian.Uint64(sum) | 1
	for i := 0; i+8 <= size; i += 8 {
		x ^= x << 13
		x ^= x >> 7
		x ^= x << 17
		binary.LittleEndian.PutUint64(out[i:], x)
	}
	return out
}

func specClass(ph string) string {
	switch ph {
	case "ready":
		return "ready"
	case "err":
		return "err"
	case "v1":
		return "v1"
	}
	return "handshaking"
}

func decoyLens(n int) []int {
	var d []int
	for i := 1; i <= n; i++ {
		if i == 1 {
			d = append(d, 0)
		} else {
			d = append(d, 8)
		}
	}
	return d
}

func (s *session) violation(key, what string) {
	s.diverged = true
	s.ctx.Violation(key, fmt.Sprintf("[%s %s] %s", s.id, s.pair, what), map[string]any{
		"session": s.id, "pairing": s.pair.String(), "seed": s.ctx.Seed,
		"scenario": map[string]any{"garbageI": s.sc.garbage[epI], "garbageR": s.sc.garbage[epR],
			"decoysI": s.sc.decoys[epI], "decoysR": s.sc.decoys[epR], "prefixMatch": s.sc.pm, "hello": s.hello, "uPlusP": s.sc.uPlusP},
		"steps": s.steps, "job": s.job, "real_rekey_interval": s.realRI,
		"behaviour": stateTexts(s.states, s.at),
	})
}

func (s *session) start(first tla.State) {
	sc := first["sc"]
	s.hello = sc.F("hello").Str()
	s.sc = scenario{
		garbage: [2]int{sc.F("gI").Int(), sc.F("gR").Int()},
		decoys:  [2][]int{decoyLens(sc.F("dI").Int()), decoyLens(sc.F("dR").Int())},
		pm:      sc.F("pm").Int(),
		uPlusP:  sc.Has("enc") && sc.F("enc").Str() == "uplusp",
	}
	s.l = newLink()
	mk := func(kind string, e int) endpoint {
		c := &conn{l: s.l, e: e}
		if kind == "ref" {
			return newRefEndpoint(c, e, &s.sc)
		}
		return newRealEndpoint(c, e, &s.sc)
	}
	s.ep[epI], s.ep[epR] = mk(s.pair.i, epI), mk(s.pair.r, epR)
	s.ev[epI], s.ev[epR] = &events{}, &events{}
}

func (s *session) launch(e int) error {
	go func() {
		defer s.l.finish(e)
		s.ep[e].program(s.ev[e])
	}()
	return s.l.quiesce(e)
}

// finish closes both streams and waits for the programs to end.
func (s *session) finish() {
	for e := 0; e < 2; e++ {
		s.l.closeTo(e)
	}
	for e := 0; e < 2; e++ {
		if s.started[e] {
			s.l.quiesce(e)
		}
	}
}

// run replays the behaviour; it returns an error only for infrastructure
// problems.  Divergences of the real code are reported through ctx.Violation.
func (s *session) run(states []tla.State) error {
	s.start(states[0])
	defer s.finish()
	// the responder listens from the start
	s.started[epR] = true
	if err := s.launch(epR); err != nil {
		return err
	}
	s.states = states
	for k := 1; k < len(states) && !s.diverged; k++ {
		s.at = k
		if err := s.step(states[k-1], states[k]); err != nil {
			return fmt.Errorf("session %s step %d (%s): %w", s.id, k, states[k]["last"].String(), err)
		}
	}
	if !s.diverged {
		s.stableCheck()
	}
	if !s.diverged {
		s.finalCheck(states[len(states)-1])
	}
	if !s.diverged {
		s.stableCheck()
	}
	s.ctx.AddEval(s.evals)
	return nil
}

// stateTexts renders the behaviour up to state `upto` in TLC's own syntax so
// that `--replay` can parse it back.
func stateTexts(states []tla.State, upto int) []string {
	var out []string
	for k := 0; k <= upto && k < len(states); k++ {
		var sb []byte
		for _, name := range []string{"sc", "st", "wire", "last", "out"} {
			if v, ok := states[k][name]; ok {
				sb = append(sb, []byte("/\\ "+name+" = "+v.String()+"\n")...)
			}
		}
		out = append(out, string(sb))
	}
	return out
}

// stableCheck is the law "delivered payloads are stable": every payload an
// endpoint handed to the application is kept (the very slice it returned) and
// must still hold the bytes the specification said were delivered after later
// packets and decoys of any size have been received on the same connection.
func (s *session) stableCheck() {
	for x := 0; x < 2; x++ {
		if s.ev[x] == nil {
			continue
		}
		s.ev[x].mu.Lock()
		held := s.ev[x].delivered
		s.ev[x].mu.Unlock()
		for i := 0; i < len(held) && i < len(s.expSum[x]); i++ {
			s.evals++
			if sha256.Sum256(held[i]) != s.expSum[x][i] {
				s.violation("deliver:payload-mutated", fmt.Sprintf("payload %d delivered to endpoint %s (%d bytes) was correct when delivered and has changed after later packets were received: the returned slice aliases transport state", i, epName(x), len(held[i])))
				return
			}
		}
	}
}
