package v2

import (
	"bytes"
	"crypto/sha256"
	"encoding/binary"
	"fmt"
	"os"

	"verif/harness/internal/tla"
)

// v1Hello is the first 64 bytes a v1 peer sends: message header of a version
// message plus the start of its payload.
func v1Hello(magic uint32) []byte {
	b := make([]byte, 64)
	binary.LittleEndian.PutUint32(b, magic)
	copy(b[4:], "version\x00\x00\x00\x00\x00")
	binary.LittleEndian.PutUint32(b[16:], 102)
	copy(b[20:], []byte{0x5d, 0xf6, 0xe0, 0xe2})
	binary.LittleEndian.PutUint32(b[24:], 70016)
	return b
}

const testNet3Magic = 0x0709110b

// oversized is the shared buffer of the refused sends: only its length matters.
var oversized = make([]byte, 1<<24)

// corruptOracle (VERIF_V2_CORRUPT=content|len|status) deliberately falsifies
// one field read from the specification state; used only to demonstrate that
// the comparison is not vacuous.
var corruptOracle = os.Getenv("VERIF_V2_CORRUPT")

func (s *session) step(prev, cur tla.State) error {
	last := cur["last"]
	a := last.F("a").Str()
	rec := map[string]any{"action": last.Go(), "out": cur["out"].Go()}
	s.steps = append(s.steps, rec)
	if len(s.steps) > 60 { // keep replay files small: the tail is what matters
		s.steps = s.steps[len(s.steps)-60:]
	}
	actor := -1
	if last.Has("e") && a != "Fault" {
		actor = epIndex(last.F("e").Str())
	}
	switch a {
	case "ISendKey":
		if s.hello == "v2" {
			s.started[epI] = true
			if err := s.launch(epI); err != nil {
				return err
			}
		} else {
			magic := uint32(mainNetMagic)
			if s.hello == "v1wrong" {
				magic = testNet3Magic
			}
			(&conn{l: s.l, e: epI}).Write(v1Hello(magic))
		}
	case "RRecvKey", "IRecvKey", "RecvScan", "RecvPkt":
		if err := s.l.deliver(peerOf(actor)); err != nil {
			return err
		}
		if err := s.l.quiesce(actor); err != nil {
			return err
		}
	case "Send":
		content := contentBytes(s.ctx.Seed, s.id, last.F("e").Str(), last.F("content").Seq()[1].Int(), last.F("size").Int())
		if err := s.ep[actor].send(content, last.F("ign").Bool()); err != nil {
			s.violation("send:unexpected-error", fmt.Sprintf("V2EncPacket failed on a healthy connection: %v", err))
			return nil
		}
		if c := last.F("ctr").Int(); c > s.maxCtr[actor] {
			s.maxCtr[actor] = c
		}
	case "SendRefused":
		// a send of more than 2^24 - 1 bytes must be refused and change nothing;
		// what follows in the behaviour shows whether it did
		if err := s.ep[actor].send(oversized, false); err == nil {
			s.violation("send:oversized-accepted", fmt.Sprintf("endpoint %s accepted a send of %d bytes (maximum 2^24 - 1)", epName(actor), len(oversized)))
			return nil
		}
		s.refused++
	case "Fault":
		e := epIndex(last.F("e").Str())
		// truncation inside the initiator's key: "cut" lets the byte that
		// differs from the v1 prefix through, "cut0" does not
		keepLo, keepHi := 0, 1<<30
		if last.F("unit").Str() == "key" && e == epI {
			if last.F("part").Str() == "cut0" {
				keepHi = s.sc.pm
			} else {
				keepLo = s.sc.pm + 1
				if s.pair.i == "real" {
					// a real initiator's key is random: its first bytes may
					// happen to equal the v1 prefix, but never all 16
					keepLo = 16
				}
			}
		}
		desc, err := s.l.fault(s.rng, last.F("kind").Str(), e, last.F("pos").Int(), last.F("part").Str(), keepLo, keepHi)
		if err != nil {
			return err
		}
		rec["bytes"] = desc
		s.faults++
	default:
		return fmt.Errorf("unknown action %q", a)
	}
	return s.compare(cur, a, actor)
}

func (s *session) bothRef() bool { return s.pair.i == "ref" && s.pair.r == "ref" }

// compare checks the observable projection of both endpoints and of the bytes
// in flight against the specification state.
func (s *session) compare(cur tla.State, a string, actor int) error {
	out := cur["out"]
	okind := out.F("kind").Str()
	for x := 0; x < 2; x++ {
		if !s.started[x] {
			continue
		}
		stx := cur["st"].F(epName(x))
		ph := stx.F("ph").Str()
		if corruptOracle == "status" && ph == "err" {
			ph = "ready"
		}
		want := specClass(ph)

		// 1. deliveries to the application
		s.ev[x].mu.Lock()
		newDeliv := s.ev[x].delivered[s.nDeliv[x]:]
		s.nDeliv[x] = len(s.ev[x].delivered)
		ign := s.ev[x].ignored + s.ev[x].hsIgnored
		canon := s.ev[x].canonErr
		s.ev[x].mu.Unlock()
		s.evals++
		var expect [][]byte
		if actor == x && okind == "app" {
			c := out.F("content").Seq()
			n := c[1].Int()
			if corruptOracle == "content" {
				n++ // vacuity self-test: a wrong expected value must be rejected
			}
			expect = append(expect, contentBytes(s.ctx.Seed, s.id, c[0].Str(), n, out.F("size").Int()))
		}
		if len(newDeliv) != len(expect) || (len(expect) == 1 && !bytes.Equal(newDeliv[0], expect[0])) {
			if st := s.ev[x].status(); len(newDeliv) == 0 && st == "err" && want != "err" {
				// reported below as an error on an untampered stream
			} else if len(newDeliv) == 0 {
				s.violation("deliver:missing", fmt.Sprintf("endpoint %s did not deliver the packet the peer sent (action %s)", epName(x), a))
			} else {
				s.violation("deliver:altered-plaintext", fmt.Sprintf("endpoint %s handed %d packet(s) to the application that differ from what the specification allows after %s (spec out=%s)", epName(x), len(newDeliv), a, out))
			}
			if s.diverged {
				return s.refGuard()
			}
		}
		for _, e := range expect {
			s.expSum[x] = append(s.expSum[x], sha256.Sum256(e))
		}
		// 2. ignore flag (observable on the reference endpoint only)
		if actor == x && okind == "ignored" {
			s.nIgn[x]++
		}
		if s.ep[x].kind() == "ref" {
			s.evals++
			if ign != s.nIgn[x] {
				s.violation("interop:ignore-flag", fmt.Sprintf("reference endpoint %s saw %d ignored packets, specification says %d", epName(x), ign, s.nIgn[x]))
				return s.refGuard()
			}
			if canon {
				s.violation("interop:noncanonical-ciphertext", fmt.Sprintf("packet received by reference endpoint %s decrypts but is not the BIP324 encryption of its plaintext", epName(x)))
				return s.refGuard()
			}
		}
		// 3. status
		got := s.ev[x].status()
		s.evals++
		if want == "err" && got != "err" {
			immediate := actor == x && okind == "err" && out.F("why").Str() != "desync"
			if immediate {
				s.violation("fault:error-not-immediate", fmt.Sprintf("endpoint %s has every byte of the tampered unit and reports no error (status %s, action %s, why=%s)", epName(x), got, a, out.F("why").Str()))
				return s.refGuard()
			}
			if !s.closed[x] {
				s.closed[x] = true
				s.l.closeTo(x)
				if err := s.l.quiesce(x); err != nil {
					return err
				}
				got = s.ev[x].status()
				s.ev[x].mu.Lock()
				extra := len(s.ev[x].delivered) - s.nDeliv[x]
				s.ev[x].mu.Unlock()
				if extra > 0 {
					s.violation("deliver:altered-plaintext", fmt.Sprintf("endpoint %s handed %d packet(s) to the application after a desynchronising fault", epName(x), extra))
					return s.refGuard()
				}
			}
			if got != "err" {
				s.violation("fault:not-detected", fmt.Sprintf("endpoint %s reports no error after %s (status %s)", epName(x), a, got))
				return s.refGuard()
			}
		} else if want != got {
			rlen := stx.F("rlen").Int()
			switch {
			case got == "err" && a == "RecvScan" && actor == x &&
				ph == "hs" && rlen == bipMaxGarbage:
				s.violation("handshake:garbage-4095-rejected", fmt.Sprintf("endpoint %s fails the handshake although the peer's terminator arrives after %d <= 4095 garbage bytes", epName(x), rlen))
			case got == "err" && ph != "ready":
				s.ev[x].mu.Lock()
				herr := s.ev[x].hsErr
				s.ev[x].mu.Unlock()
				s.violation("interop:handshake-failed", fmt.Sprintf("endpoint %s fails the handshake on an untampered stream after %s (spec phase %s): %v", epName(x), a, ph, herr))
			case got == "err":
				s.ev[x].mu.Lock()
				rerr := s.ev[x].recvErr
				s.ev[x].mu.Unlock()
				s.violation("interop:stream-error", fmt.Sprintf("endpoint %s reports an error on an untampered stream after %s: %v", epName(x), a, rerr))
			default:
				s.violation("state:"+want+"-vs-"+got, fmt.Sprintf("endpoint %s is %s, specification says %s (phase %s) after %s", epName(x), got, want, ph, a))
			}
			return s.refGuard()
		}
		// 4. v1 fallback consumes exactly the 16 prefix bytes and writes nothing
		if want == "v1" && actor == x {
			s.l.mu.Lock()
			cons, left, wr := s.l.consumed[x], len(s.l.rd[x]), s.l.written[x]
			s.l.mu.Unlock()
			s.ev[x].mu.Lock()
			pl := s.ev[x].prefixLen
			s.ev[x].mu.Unlock()
			s.evals++
			if cons != out.F("consumed").Int() || left != 64-cons || wr != 0 || pl != cons {
				s.violation("v1:fallback-bytes", fmt.Sprintf("v1 fallback consumed %d bytes (prefix %d), left %d, wrote %d; expected 16/16/48/0", cons, pl, left, wr))
				return s.refGuard()
			}
		}
		// 5. the reference endpoint follows the specification's counters
		if r, ok := s.ep[x].(*refEndpoint); ok && ph != "err" {
			sL, sP, rL, rP := r.r.Counters()
			s.evals++
			if int(sL) != stx.F("sL").Int() || int(sP) != stx.F("sP").Int() || int(rL) != stx.F("rL").Int() || int(rP) != stx.F("rP").Int() {
				return fmt.Errorf("reference endpoint %s drifted from the specification: counters %d/%d/%d/%d vs %s", epName(x), sL, sP, rL, rP, stx)
			}
			if s.realRI && a == "Send" && actor == x {
				// epoch of the packet just sent, as the specification computed it
				if want := cur["last"].F("epoch").Int(); int((sP-1)/bipRekeyInterval) != want {
					return fmt.Errorf("reference endpoint %s epoch %d vs specification %d", epName(x), (sP-1)/bipRekeyInterval, want)
				}
			}
			if (a == "RRecvKey" || a == "IRecvKey") && actor == x && r.r.KeyMade && !r.r.EllswiftOK {
				s.violation("ellswift:encode-decode", "EllswiftECDHXOnly(u || XSwiftECInv(u, x), priv=1) differs from x for a freshly created key")
				return s.refGuard()
			}
		}
	}
	// 6. bytes on the wire: unit count and lengths
	for e := 0; e < 2; e++ {
		w := cur["wire"].F(epName(e)).Seq()
		lens, cut := s.l.heldLens(e)
		s.evals++
		bad := len(w) != len(lens)
		for i := 0; !bad && i < len(w); i++ {
			wl := w[i].F("len").Int()
			if corruptOracle == "len" && w[i].F("k").Str() == "term" {
				wl++
			}
			if !cut[i] && wl != lens[i] {
				bad = true
			}
		}
		if bad {
			var sl []int
			for _, u := range w {
				sl = append(sl, u.F("len").Int())
			}
			if e == epI && s.hello != "v2" {
				return fmt.Errorf("v1 hello unit mismatch: %v vs %v", lens, sl)
			}
			if s.ep[e].kind() == "ref" {
				return fmt.Errorf("reference endpoint %s wrote units %v, specification has %v", epName(e), lens, sl)
			}
			s.violation("wire:unit-lengths", fmt.Sprintf("endpoint %s has units of %v bytes in flight, the specification prescribes %v after %s", epName(e), lens, sl, a))
			return s.refGuard()
		}
	}
	return nil
}

// refGuard turns a divergence between two reference endpoints (no btcd code
// involved beyond ECDH) into a harness error.
func (s *session) refGuard() error {
	if s.bothRef() {
		return fmt.Errorf("reference endpoints diverge from the specification in session %s (harness defect)", s.id)
	}
	return nil
}

// finalCheck ends both streams: every endpoint must report an error (EOF is
// how truncation at a packet boundary shows) and hand nothing more up.
func (s *session) finalCheck(cur tla.State) {
	for x := 0; x < 2; x++ {
		if !s.started[x] || s.closed[x] {
			continue
		}
		if st := s.ev[x].status(); st == "err" || st == "v1" {
			continue
		}
		s.closed[x] = true
		s.l.closeTo(x)
		if err := s.l.quiesce(x); err != nil {
			continue
		}
		s.evals++
		s.ev[x].mu.Lock()
		extra := len(s.ev[x].delivered) - s.nDeliv[x]
		s.ev[x].mu.Unlock()
		if extra > 0 {
			s.violation("deliver:altered-plaintext", fmt.Sprintf("endpoint %s handed %d packet(s) to the application from a truncated stream", epName(x), extra))
			return
		}
		if st := s.ev[x].status(); st != "err" {
			s.violation("eof:not-reported", fmt.Sprintf("endpoint %s is %s after its stream ended", epName(x), st))
			return
		}
	}
}
