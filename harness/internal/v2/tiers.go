package v2

import (
	"encoding/json"
	"fmt"
	"os"
	"strings"
	"sync"
	"time"

	"verif/harness/internal/tla"
	"verif/harness/internal/tlc"
	"verif/harness/internal/vrun"
)

func base() params {
	return params{RI: 3, GarbageLens: []int{0}, Decoys: []int{0}, Hellos: []string{"v2"}, PMs: []int{0},
		Sizes: []int{1}, Ignore: []bool{false}, MaxApp: 1, MaxFlight: 8, Senders: []string{"I", "R"},
		MaxFaults: 1, FaultKinds: allFaultKinds, FaultSeqs: seqRange(0, 16), TrackNonces: true}
}

func jobs(ctx *vrun.Ctx) []*job {
	seed := ctx.Seed
	rng := ctx.Rand("jobs")
	G := garbageClasses
	var js []*job
	pick := func(q, t int) int {
		if ctx.Thorough {
			return t
		}
		return q
	}

	// handshake graph: every garbage class in both roles, decoys, prefix
	// classes, v1 fallbacks; every single fault at every position.  thorough
	// replays every edge, quick a seeded sample of the path cover.
	hs := base()
	hs.Scenarios = handshakeScenarios(seed, ctx.Thorough)
	hs.TrackNonces = false // keeps the dumped states small; nonce uniqueness is checked by the -check jobs
	if !ctx.Thorough {
		hs.FaultSeqs = seqRange(0, 4) // handshake units; packet faults are covered by stream-graph
	}
	// ... plus every pair of garbage-length classes without faults
	hs.Scenarios = append(hs.Scenarios, allGarbagePairs(seed)...)
	js = append(js, &job{name: "hs-graph", p: hs, mode: "graph", maxPaths: pick(3600, 0)})

	// stream graph: both directions, ignore flags, rekey interval 3, one fault.
	sg := base()
	sg.Ignore = []bool{false, true}
	sg.MaxApp, sg.MaxFlight = pick(2, 3), 2
	sg.MaxRefused = 1
	sg.TrackNonces = false
	sg.Scenarios = []scen{{gI: G[rng.Intn(4)], gR: G[1+rng.Intn(3)], dI: 1, dR: 0, hello: "v2"}}
	if !ctx.Thorough {
		// quick: one scenario with faults and no refused sends, one with a
		// refused oversized send per sender (at every position) and no faults;
		// thorough: both together
		a, b := sg.Scenarios[0], sg.Scenarios[0]
		a.noRefuse = true
		b.noFaults = true
		b.gI, b.gR = G[rng.Intn(6)], G[rng.Intn(6)]
		if a.gI == b.gI && a.gR == b.gR {
			b.dI, b.dR = 0, 1
		}
		sg.Scenarios = []scen{a, b}
	}
	js = append(js, &job{name: "stream-graph", p: sg, mode: "graph", maxPaths: pick(3000, 0)})

	// exhaustive invariants, two faults, enough packets for two rekey
	// boundaries, one sender at a time (quick: the sender alternates by seed).
	senders := []string{"I", "R"}
	if !ctx.Thorough {
		senders = senders[int(uint64(seed)%2) : int(uint64(seed)%2)+1]
	}
	for _, snd := range senders {
		s2 := base()
		s2.Ignore = []bool{false, true}
		s2.MaxApp, s2.MaxFlight, s2.MaxFaults = 6, 2, 2
		s2.MaxRefused = 1
		s2.Senders = []string{snd}
		s2.GarbageLens, s2.Decoys = []int{0, 15}, []int{0, 1}
		if !ctx.Thorough {
			s2.Scenarios = []scen{{gI: 15, gR: 0, dI: 1, dR: 0, hello: "v2"}}
		}
		js = append(js, &job{name: "stream2-" + snd, p: s2, mode: "check", coverage: ctx.Thorough, timeout: 20 * time.Minute})
	}
	// random two-fault behaviours with both senders active, replayed
	s2s := base()
	s2s.Ignore = []bool{false, true}
	s2s.MaxApp, s2s.MaxFlight, s2s.MaxFaults = 6, 2, 2
	s2s.MaxRefused = 1
	s2s.GarbageLens, s2s.Decoys = []int{0, 1, 15, 16}, []int{0, 1, 2}
	s2s.FaultSeqs = seqRange(3, 20) // mostly packets: handshake units are covered by hs-graph
	js = append(js, &job{name: "stream2-sim", p: s2s, mode: "sim", sim: &tlc.Sim{Num: pick(200, 3000), Depth: 50, Seed: seed*31 + 3}})

	// exhaustive handshake product
	hc := base()
	hc.Hellos = []string{"v2", "v1", "v1wrong"}
	if ctx.Thorough {
		hc.GarbageLens, hc.Decoys, hc.PMs = G, []int{0, 1, 2}, []int{0, 1, 4, 15}
		hc.Encodings = []string{"canon", "uplusp"}
	} else {
		hc.GarbageLens, hc.Decoys, hc.PMs = []int{0, 1, 4095}, []int{0, 1}, []int{0, 15}
	}
	if ctx.Thorough { // quick: the hs-graph run checks the invariants on its own scenarios
		js = append(js, &job{name: "hs-check", p: hc, mode: "check", coverage: true, timeout: 25 * time.Minute})
	}

	if ctx.Thorough {
		// both directions active with two faults
		bi := base()
		bi.Ignore = []bool{false, true}
		bi.MaxApp, bi.MaxFlight, bi.MaxFaults = 3, 2, 2
		bi.Scenarios = []scen{{gI: 1, gR: 16, dI: 0, dR: 1, hello: "v2"}}
		js = append(js, &job{name: "bidi2-check", p: bi, mode: "check", coverage: true, timeout: 25 * time.Minute})
	}

	// the real rekey interval: long sessions without faults ...
	long := base()
	long.RI = bipRekeyInterval
	long.Ignore = []bool{false, true}
	long.Sizes = []int{0, 1, 40, 1000}
	long.MaxApp, long.MaxFlight, long.MaxFaults = 520, 3, 0
	long.MaxRefused = 2
	long.TrackNonces = false
	long.Scenarios = []scen{{gI: G[rng.Intn(6)], gR: G[rng.Intn(6)], dI: rng.Intn(3), dR: rng.Intn(3), hello: "v2"}}
	js = append(js, &job{name: "long", p: long, mode: "sim", realRI: true, needLong: true,
		sim: &tlc.Sim{Num: pick(3, 16), Depth: 2800, Seed: seed*17 + 5}})

	// ... and with one fault at a unit around a real rekey boundary
	lf := long
	lf.MaxFaults = 1
	lf.FaultSeqs = nil
	lf.Scenarios = []scen{{gI: 15, gR: 0, dI: 1, dR: 0, hello: "v2"}}
	for _, c := range []int{222, 223, 224, 225, 446, 447, 448, 449} {
		lf.FaultSeqs = append(lf.FaultSeqs, unitSeq(15, c), unitSeq(0, c))
	}
	js = append(js, &job{name: "long-fault", p: lf, mode: "sim", realRI: true,
		sim: &tlc.Sim{Num: pick(10, 120), Depth: 2800, Seed: seed*13 + 7}})

	// large packets (2^16 and the 2^24-1 maximum)
	big := base()
	big.Sizes = []int{0, 65536, 16777215}
	big.MaxApp, big.MaxFlight, big.MaxFaults = 2, 2, 0
	big.MaxRefused = 1
	big.Scenarios = []scen{{gI: 1, gR: 0, dI: 0, dR: 1, hello: "v2"}}
	js = append(js, &job{name: "big", p: big, mode: "graph", maxPaths: pick(3, 40)})
	return js
}

// Run is the C19 check.
func Run(ctx *vrun.Ctx) error {
	if ctx.Workers > 8 {
		ctx.Workers = 8
	}
	ctx.Ev.Coverage.Rule = "every edge of the TLC state graphs hs-graph and stream-graph (rekey interval 3) replayed on real<->real, real<->reference and reference<->real endpoint pairs; simulated behaviours of the two-fault models and of the rekey-interval-224 model replayed likewise; all invariants of V2Transport.tla checked exhaustively by TLC on the listed configurations"
	ctx.Ev.Coverage.Explanation = "not exhaustive over the property's quantifier: garbage lengths are the classes {0,1,15,16,4094,4095}, keys are random per session, fault offsets inside a unit are seeded; TLC explores the listed finite configurations completely (rekey interval 3), the thorough tier replays every edge of the dumped graphs, the quick tier a scenario-stratified sample"
	ctx.Assume("symbolic cryptography: ChaCha20, Poly1305, HKDF and ECDH are ideal (a ciphertext opens only under the same key, nonce and associated data); collisions of random garbage/ciphertext bytes with the 16-byte terminator are ignored")
	ctx.Assume("ElligatorSwift field arithmetic (XSwiftEC and its inverse) is not specified in TLA+; EllswiftBytes.tla specifies only the per-half reduction modulo p and the zero->one replacement of the 64-byte entry points; the arithmetic is exercised: 7x7 boundary classes of the two halves and the 76 BIP324 decode vectors through EllswiftECDHXOnly/V2Ecdh against a big-int XSwiftEC, encode->decode equality in every reference handshake (some with a non-canonical u + p half), both sides reach equal secrets")
	ctx.Assume("channel faults act on whole protocol units in flight (byte flips at seeded offsets inside a unit, truncation inside a unit, drop/duplicate/swap of units); key units are only flipped or truncated")
	if ctx.Replay != "" {
		return replayFile(ctx)
	}
	if err := pinReference(ctx); err != nil {
		return err
	}
	ctx.Logf("reference endpoint pinned by the BIP324 vectors")
	st := &stats{}
	js := jobs(ctx)
	if only := os.Getenv("VERIF_V2_JOBS"); only != "" { // development aid: run a subset of the jobs
		var sel []*job
		for _, j := range js {
			for _, n := range strings.Split(only, ",") {
				if j.name == n {
					sel = append(sel, j)
				}
			}
		}
		js = sel
		ctx.Assume("PARTIAL RUN: VERIF_V2_JOBS=" + only)
	}
	// at most three TLC instances at a time
	sem := make(chan struct{}, 3)
	errs := make([]error, len(js))
	var wg sync.WaitGroup
	for i, j := range js {
		wg.Add(1)
		go func(i int, j *job) {
			defer wg.Done()
			sem <- struct{}{}
			defer func() { <-sem }()
			errs[i] = j.run(ctx, st)
		}(i, j)
	}
	var ellErr error
	if only := os.Getenv("VERIF_V2_JOBS"); only == "" || strings.Contains(","+only+",", ",ellswift-bytes,") {
		wg.Add(1)
		go func() {
			defer wg.Done()
			sem <- struct{}{}
			defer func() { <-sem }()
			ellErr = runEllswiftBytes(ctx)
		}()
	}
	wg.Wait()
	if ellErr != nil {
		return ellErr
	}
	for _, e := range errs {
		if e != nil {
			return e
		}
	}
	summarise(ctx, st)
	return nil
}

// replayFile re-runs the session stored in a replay file (check.sh C19 quick
// --replay <path>) against the current tree.
func replayFile(ctx *vrun.Ctx) error {
	b, err := os.ReadFile(ctx.Replay)
	if err != nil {
		return err
	}
	var f struct {
		Seed   int64 `json:"seed"`
		Replay struct {
			Session   string   `json:"session"`
			Pairing   string   `json:"pairing"`
			RealRI    bool     `json:"real_rekey_interval"`
			Behaviour []string `json:"behaviour"`
		} `json:"replay"`
	}
	if err := json.Unmarshal(b, &f); err != nil {
		return err
	}
	var states []tla.State
	for _, t := range f.Replay.Behaviour {
		st, err := tla.ParseState(t)
		if err != nil {
			return err
		}
		states = append(states, st)
	}
	if len(states) < 2 {
		return fmt.Errorf("replay file holds no behaviour")
	}
	pp := strings.SplitN(f.Replay.Pairing, "<->", 2)
	if len(pp) != 2 {
		return fmt.Errorf("replay file: bad pairing %q", f.Replay.Pairing)
	}
	ctx.Seed = f.Seed
	s := &session{ctx: ctx, id: f.Replay.Session, pair: pairing{pp[0], pp[1]}, rng: ctx.Rand(f.Replay.Session), realRI: f.Replay.RealRI, job: "replay"}
	if err := s.run(states); err != nil {
		return err
	}
	ctx.AddTraces(1)
	ctx.Logf("replayed %s (%d states): diverged=%v", f.Replay.Session, len(states), s.diverged)
	return nil
}
