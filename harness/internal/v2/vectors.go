package v2

import (
	"bytes"
	"encoding/hex"
	"encoding/json"
	"fmt"
	"os"
	"path/filepath"

	"github.com/btcsuite/btcd/btcec/v2"
	"github.com/btcsuite/btcd/btcec/v2/ellswift"

	"verif/harness/internal/vrun"
)

type bipVector struct {
	InIdx                 int    `json:"inIdx"`
	InPrivOurs            string `json:"inPrivOurs"`
	InEllswiftOurs        string `json:"inEllswiftOurs"`
	InEllswiftTheirs      string `json:"inEllswiftTheirs"`
	InInitiating          bool   `json:"inInitiating"`
	InContents            string `json:"inContents"`
	InMultiply            int    `json:"inMultiply"`
	InAad                 string `json:"inAad"`
	InIgnore              bool   `json:"inIgnore"`
	MidXOurs              string `json:"midXOurs"`
	MidXTheirs            string `json:"midXTheirs"`
	MidSharedSecret       string `json:"midSharedSecret"`
	MidInitiatorL         string `json:"midInitiatorL"`
	MidInitiatorP         string `json:"midInitiatorP"`
	MidResponderL         string `json:"midResponderL"`
	MidResponderP         string `json:"midResponderP"`
	MidSendGarbageTerm    string `json:"midSendGarbageTerm"`
	MidRecvGarbageTerm    string `json:"midRecvGarbageTerm"`
	OutSessionID          string `json:"outSessionID"`
	OutCiphertext         string `json:"outCiphertext"`
	OutCiphertextEndsWith string `json:"outCiphertextEndsWith"`
}

type vectorFile struct {
	Vectors []bipVector `json:"vectors"`
	Decode  []struct {
		Ellswift string `json:"ellswift"`
		X        string `json:"x"`
	} `json:"xswiftec_decode"`
}

func unhex(s string) []byte {
	b, err := hex.DecodeString(s)
	if err != nil {
		panic(err)
	}
	return b
}

const mainNetMagic = 0xd9b4bef9

// pinReference checks the reference endpoint against the BIP324 packet
// encoding vectors (a failure there is a defect of the harness: error), and
// btcd's ellswift code against the key-exchange part of the same vectors and
// the decode vectors (a failure there is a violation of the property's last
// clause).
func pinReference(ctx *vrun.Ctx) error {
	b, err := os.ReadFile(filepath.Join(ctx.SpecDir("v2"), "bip324_vectors.json"))
	if err != nil {
		return err
	}
	var vf vectorFile
	if err := json.Unmarshal(b, &vf); err != nil {
		return err
	}
	if len(vf.Vectors) < 7 || len(vf.Decode) < 70 {
		return fmt.Errorf("vector file incomplete: %d packet, %d decode vectors", len(vf.Vectors), len(vf.Decode))
	}
	for i, v := range vf.Vectors {
		// btcd: ECDH over ElligatorSwift keys
		priv, _ := btcec.PrivKeyFromBytes(unhex(v.InPrivOurs))
		var ours, theirs [64]byte
		copy(ours[:], unhex(v.InEllswiftOurs))
		copy(theirs[:], unhex(v.InEllswiftTheirs))
		sec, err := ellswift.V2Ecdh(priv, theirs, ours, v.InInitiating)
		ctx.AddEval(1)
		if err != nil || !bytes.Equal(sec[:], unhex(v.MidSharedSecret)) {
			ctx.Violation("ellswift:ecdh-vector", fmt.Sprintf("ellswift.V2Ecdh disagrees with BIP324 vector %d (err=%v)", i, err), v)
		}
		// reference: key schedule
		k := deriveRefKeys(unhex(v.MidSharedSecret), mainNetMagic)
		sendTerm, recvTerm := k.initiatorTerm, k.responderTerm
		sl, sp := k.initiatorL, k.initiatorP
		if !v.InInitiating {
			sendTerm, recvTerm = recvTerm, sendTerm
			sl, sp = k.responderL, k.responderP
		}
		for _, c := range []struct {
			name      string
			got, want []byte
		}{
			{"initiator_L", k.initiatorL[:], unhex(v.MidInitiatorL)},
			{"initiator_P", k.initiatorP[:], unhex(v.MidInitiatorP)},
			{"responder_L", k.responderL[:], unhex(v.MidResponderL)},
			{"responder_P", k.responderP[:], unhex(v.MidResponderP)},
			{"send_term", sendTerm[:], unhex(v.MidSendGarbageTerm)},
			{"recv_term", recvTerm[:], unhex(v.MidRecvGarbageTerm)},
			{"session_id", k.sessionID[:], unhex(v.OutSessionID)},
		} {
			ctx.AddEval(1)
			if !bytes.Equal(c.got, c.want) {
				return fmt.Errorf("reference endpoint: %s differs from BIP324 vector %d", c.name, i)
			}
		}
		// reference: packet encoding at position inIdx
		l, p := newRefLenCipher(sl[:]), newRefAEAD(sp[:])
		for j := 0; j < v.InIdx; j++ {
			encodeRefPacket(l, p, nil, nil, false)
		}
		content := bytes.Repeat(unhex(v.InContents), v.InMultiply)
		ct := encodeRefPacket(l, p, unhex(v.InAad), content, v.InIgnore)
		ctx.AddEval(1)
		if v.OutCiphertext != "" && !bytes.Equal(ct, unhex(v.OutCiphertext)) {
			return fmt.Errorf("reference endpoint: ciphertext differs from BIP324 vector %d", i)
		}
		if v.OutCiphertextEndsWith != "" && !bytes.HasSuffix(ct, unhex(v.OutCiphertextEndsWith)) {
			return fmt.Errorf("reference endpoint: ciphertext tail differs from BIP324 vector %d", i)
		}
		// and the reference decrypts its own output at the same position
		rl, rp := newRefLenCipher(sl[:]), newRefAEAD(sp[:])
		for j := 0; j < v.InIdx; j++ {
			rl.crypt([]byte{0, 0, 0})
			rp.advance()
		}
		lb := rl.crypt(ct[:3])
		if n := int(lb[0]) | int(lb[1])<<8 | int(lb[2])<<16; n != len(content) {
			return fmt.Errorf("reference endpoint: length round trip fails on vector %d", i)
		}
		pt, err := rp.open(unhex(v.InAad), ct[3:])
		if err != nil || !bytes.Equal(pt[1:], content) || (pt[0]&bipIgnoreBit != 0) != v.InIgnore {
			return fmt.Errorf("reference endpoint: decryption round trip fails on vector %d", i)
		}
	}
	for i, d := range vf.Decode {
		e := unhex(d.Ellswift)
		x, err := ellswift.XSwiftEC(fieldFromBytes(e[:32]), fieldFromBytes(e[32:]))
		ctx.AddEval(1)
		if err != nil || !bytes.Equal(x.Bytes()[:], unhex(d.X)) {
			ctx.Violation("ellswift:decode-vector", fmt.Sprintf("ellswift.XSwiftEC disagrees with BIP324 decode vector %d (err=%v)", i, err), d)
		}
	}
	return pinDecodeVectors(ctx, &vf)
}
