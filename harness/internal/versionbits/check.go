// Package versionbits binds spec/versionbits/VersionBits.tla (property C14)
// to blockchain's threshold-state code: TLC checks the specification
// exhaustively for small constants and produces behaviours (covering paths of
// a dumped state graph, random simulation of larger configurations) that are
// replayed block by block and query by query on a real BlockChain with
// synthetic deployment definitions.
package versionbits

import (
	"encoding/json"
	"fmt"
	"math/rand"
	"os"
	"path/filepath"
	"regexp"
	"sort"
	"strconv"
	"strings"
	"sync"
	"time"

	"verif/harness/internal/tla"
	"verif/harness/internal/tlc"
	"verif/harness/internal/vrun"
)

const family = "versionbits"
const module = "MCVersionBits"

// what a tier runs
type exhaustiveRun struct {
	cfg     string
	workers int
	timeout time.Duration
}
type graphRun struct {
	cfg      string
	workers  int
	maxPaths int // 0 = cover every edge
	maxLen   int
	timeout  time.Duration
}
type simRun struct {
	cfg     string
	procs   int // TLC simulation runs one worker; several processes with different seeds
	num     int // behaviours per process
	depth   int
	timeout time.Duration
}

type tierPlan struct {
	exhaustive []exhaustiveRun
	graphs     []graphRun
	sims       []simRun
	budget     int // TLC worker threads running at the same time
	coverage   bool
}

func plan(thorough bool) tierPlan {
	if !thorough {
		return tierPlan{
			exhaustive: []exhaustiveRun{
				{"x_w2_fork.cfg", 3, 8 * time.Minute},
			},
			graphs: []graphRun{
				{"g_w2_small.cfg", 3, 1200, 200, 8 * time.Minute},
			},
			sims: []simRun{
				{"s_w3.cfg", 2, 18, 55, 8 * time.Minute},
				{"s_w4.cfg", 2, 15, 65, 8 * time.Minute},
			},
			budget: 10,
		}
	}
	return tierPlan{
		exhaustive: []exhaustiveRun{
			{"x_w3_fork.cfg", 5, 60 * time.Minute},
			{"x_w3_params.cfg", 5, 60 * time.Minute},
			{"x_w3_times.cfg", 4, 60 * time.Minute},
			{"x_w4_linear.cfg", 3, 60 * time.Minute},
			{"x_k2.cfg", 3, 60 * time.Minute},
			{"x_w2_fork.cfg", 3, 60 * time.Minute},
			{"x_w3_linear.cfg", 2, 60 * time.Minute},
		},
		graphs: []graphRun{
			{"g_w2_small.cfg", 3, 0, 200, 60 * time.Minute},
			{"g_w2_fork.cfg", 3, 4000, 200, 60 * time.Minute},
			{"g_w3_small.cfg", 3, 4000, 200, 60 * time.Minute},
		},
		sims: []simRun{
			{"s_w3.cfg", 3, 170, 55, 60 * time.Minute},
			{"s_w4.cfg", 3, 110, 65, 60 * time.Minute},
		},
		budget:   12,
		coverage: true,
	}
}

var (
	reConstInt = regexp.MustCompile(`(?m)^\s*(\w+)\s*=\s*(-?\d+)\s*$`)
	reConstSet = regexp.MustCompile(`(?m)^\s*(\w+)\s*=\s*\{([^}]*)\}\s*$`)
	reConstTok = regexp.MustCompile(`(?m)^\s*(\w+)\s*=\s*(TRUE|FALSE)\s*$`)
)

type cfgInfo struct {
	consts    modelConsts
	record    bool
	nextVerOn bool
}

func readCfg(specDir, name string) (cfgInfo, error) {
	b, err := os.ReadFile(filepath.Join(specDir, name))
	if err != nil {
		return cfgInfo{}, err
	}
	ci := cfgInfo{consts: modelConsts{Name: name, Implicit: map[int]bool{}}}
	ints := map[string]int{}
	for _, m := range reConstInt.FindAllStringSubmatch(string(b), -1) {
		v, _ := strconv.Atoi(m[2])
		ints[m[1]] = v
	}
	for _, m := range reConstSet.FindAllStringSubmatch(string(b), -1) {
		if m[1] == "Implicit" {
			for _, f := range strings.Split(m[2], ",") {
				f = strings.TrimSpace(f)
				if f != "" {
					v, err := strconv.Atoi(f)
					if err != nil {
						return ci, fmt.Errorf("%s: Implicit: %v", name, err)
					}
					ci.consts.Implicit[v] = true
				}
			}
		}
	}
	for _, m := range reConstTok.FindAllStringSubmatch(string(b), -1) {
		switch m[1] {
		case "Record":
			ci.record = m[2] == "TRUE"
		case "NextVerOn":
			ci.nextVerOn = m[2] == "TRUE"
		}
	}
	ci.consts.W, ci.consts.NetThr = ints["W"], ints["NetThr"]
	if ci.consts.W < 2 || ci.consts.NetThr < 1 {
		return ci, fmt.Errorf("%s: cannot read W / NetThr", name)
	}
	return ci, nil
}

// behaviour is a sequence of specification states plus where it came from.
type behaviour struct {
	mc     modelConsts
	states []tla.State
	origin string
}

func pathStates(p []tlc.Step) []tla.State {
	if len(p) == 0 {
		return nil
	}
	out := []tla.State{p[0].From.State}
	for _, s := range p {
		out = append(out, s.To.State)
	}
	return out
}

func describe(b behaviour) map[string]any {
	var steps []string
	var deps string
	for _, s := range b.states {
		last := s["last"]
		if !last.Has("op") {
			continue
		}
		switch last.F("op").Str() {
		case "configured":
			deps = s["deps"].String()
		case "add":
			id := last.F("n").Int()
			blk := s["blocks"].At(id)
			steps = append(steps, fmt.Sprintf("add(n=%d parent=%d t=%d top=%v bits=%s)->st=%s", id, blk.F("parent").Int(),
				blk.F("time").Int(), blk.F("top").Bool(), blk.F("bits"), last.F("exp").F("st")))
		case "query":
			steps = append(steps, fmt.Sprintf("query(n=%d d=%d)=%s", last.F("n").Int(), last.F("d").Int(), last.F("exp").F("st").At(last.F("d").Int())))
		case "nextver":
			steps = append(steps, fmt.Sprintf("nextver(n=%d)=%s", last.F("n").Int(), last.F("exp").F("nv")))
		}
	}
	return map[string]any{"config": b.mc.Name, "W": b.mc.W, "threshold": b.mc.NetThr, "deployments": deps, "steps": steps, "origin": b.origin}
}

// serialise a behaviour for the replay file
func dumpStates(states []tla.State) []map[string]string {
	var out []map[string]string
	for _, s := range states {
		m := map[string]string{}
		for k, v := range s {
			m[k] = v.String()
		}
		out = append(out, m)
	}
	return out
}

type replayFile struct {
	Config   string              `json:"config"`
	W        int                 `json:"W"`
	NetThr   int                 `json:"NetThr"`
	Implicit []int               `json:"Implicit"`
	RngSeed  int64               `json:"rng_seed"`
	Origin   string              `json:"origin"`
	Setup    []string            `json:"setup"`
	States   []map[string]string `json:"states"`
}

func mkReplay(b behaviour, seed int64, setup []string) replayFile {
	var imp []int
	for k := range b.mc.Implicit {
		imp = append(imp, k)
	}
	sort.Ints(imp)
	return replayFile{Config: b.mc.Name, W: b.mc.W, NetThr: b.mc.NetThr, Implicit: imp, RngSeed: seed, Origin: b.origin,
		Setup: setup, States: dumpStates(b.states)}
}

// replayCorrupted replays behaviours with one expected value made wrong in
// each and returns how many of them reported a divergence.  Nothing of it goes
// into the verdict or the evidence counters.
func replayCorrupted(ctx *vrun.Ctx, bs []behaviour) (int, error) {
	scratch, cleanup := chainScratch(ctx)
	defer cleanup()
	var mu sync.Mutex
	var firstErr error
	found := 0
	baseSeed := ctx.Rand("replay:self-test").Int63()
	saved := ctx.Workers
	if ctx.Workers > 8 {
		ctx.Workers = 8
	}
	defer func() { ctx.Workers = saved }()
	ctx.Parallel(len(bs), func(i int) {
		r := &replayer{mc: bs[i].mc, rng: rand.New(rand.NewSource(baseSeed + int64(i)*7919)), scratch: scratch, corrupt: true}
		err := r.run(bs[i].states)
		mu.Lock()
		defer mu.Unlock()
		if err != nil && firstErr == nil {
			firstErr = fmt.Errorf("self-test behaviour %d (%s): %w", i, bs[i].origin, err)
		}
		if len(r.findings) > 0 {
			found++
		}
	})
	return found, firstErr
}

// chainScratch returns the directory the databases of the replayed chains are
// created in: a private directory on tmpfs when there is one (closing an
// ffldb database syncs, which is what dominates a replay on a disk).
func chainScratch(ctx *vrun.Ctx) (string, func()) {
	if st, err := os.Stat("/dev/shm"); err == nil && st.IsDir() {
		if d, err := os.MkdirTemp("/dev/shm", "verif-vb-"); err == nil {
			return d, func() { os.RemoveAll(d) }
		}
	}
	return ctx.Scratch, func() {}
}

// runReplays replays the behaviours in parallel, reports divergences and
// folds the counters into the evidence.
func runReplays(ctx *vrun.Ctx, bs []behaviour, label string) error {
	t0 := time.Now()
	scratch, cleanup := chainScratch(ctx)
	defer cleanup()
	var mu sync.Mutex
	var firstErr error
	baseSeed := ctx.Rand("replay:" + label).Int63()
	saved := ctx.Workers
	if ctx.Workers > 8 {
		ctx.Workers = 8
	}
	defer func() { ctx.Workers = saved }()
	var blocks, queries, probes, reorgs, evals, driftN int64
	var drift []string
	ctx.Parallel(len(bs), func(i int) {
		mu.Lock()
		stop := firstErr != nil
		mu.Unlock()
		if stop {
			return
		}
		seed := baseSeed + int64(i)*7919
		r := &replayer{mc: bs[i].mc, rng: rand.New(rand.NewSource(seed)), scratch: scratch}
		err := r.run(bs[i].states)
		mu.Lock()
		defer mu.Unlock()
		if err != nil {
			if firstErr == nil {
				firstErr = fmt.Errorf("%s behaviour %d (%s): %w", label, i, bs[i].origin, err)
			}
			return
		}
		blocks += int64(r.st.blocks)
		queries += int64(r.st.queries)
		probes += int64(r.st.probes)
		reorgs += int64(r.st.reorgs)
		evals += r.st.evals
		driftN += int64(len(r.st.drift))
		if len(r.st.drift) > 0 && len(drift) < 5 {
			drift = append(drift, bs[i].origin+": "+r.st.drift[0])
		}
		for k := range r.st.distinct {
			ctx.Distinct(k)
		}
		for _, f := range r.findings {
			ctx.Violation(f.Key, f.What, mkReplay(bs[i], seed, r.desc))
		}
	})
	if firstErr != nil {
		return firstErr
	}
	ctx.AddTraces(int64(len(bs)))
	ctx.AddEval(evals)
	ctx.AddExtra("blocks_delivered", blocks)
	ctx.AddExtra("queries", queries)
	ctx.AddExtra("gate_probes", probes)
	ctx.AddExtra("reorganisations", reorgs)
	ctx.AddExtra("model_drift", driftN)
	if len(drift) > 0 {
		ctx.SetExtra("model_drift_examples", drift)
	}
	ctx.Logf("%s: replayed %d behaviours (%d blocks, %d queries, %d probes, %d reorganisations, %d comparisons) in %.1fs",
		label, len(bs), blocks, queries, probes, reorgs, evals, time.Since(t0).Seconds())
	return nil
}

func specViolation(res *tlc.Result, cfg string) error {
	tail := res.Output
	if len(tail) > 2500 {
		tail = tail[len(tail)-2500:]
	}
	return fmt.Errorf("TLC reports %s %s on the specification alone (%s); this is a defect of the specification or of the design it models, not a verdict about the code:\n%s",
		res.ErrKind, res.ErrName, cfg, tail)
}

// Run is the C14 check.
func Run(ctx *vrun.Ctx) error {
	specDir := ctx.SpecDir(family)
	if ctx.Replay != "" {
		return runReplayFile(ctx, ctx.Replay)
	}
	pl := plan(ctx.Thorough)
	if os.Getenv("VERIF_VB_SKIP_EXHAUSTIVE") != "" {
		// development aid for seeded-change experiments: the non-recording
		// exhaustive runs never touch the code under test
		pl.exhaustive = nil
	}
	ctx.Ev.Coverage.Rule = "TLC: exhaustive breadth-first search of VersionBits.tla for the listed configurations (every tree / vote / timestamp / parameter / query-order combination within the constants). " +
		"Replay: covering paths of the dumped state graph plus random simulation behaviours, each stepped through a real BlockChain (ffldb) with synthetic deployment parameters; " +
		"a case is one comparison of a value reported by the real code with the specification's property layer; distinct_nontrivial counts distinct (expected value, position in the window, entry point) classes hit."
	ctx.Assume("deployments with a timeout earlier than their start time are excluded (for those thresholdState's not-started short cut differs from the textbook state machine, as Bitcoin Core's does)")
	ctx.Assume("block timestamps obey the header rule timestamp > median time past, which makes the median time monotone along a branch")
	ctx.Assume("the median time past spans 11 blocks, as the constant in the code; its computation itself belongs to another property")

	var all []behaviour
	var mu sync.Mutex
	var firstErr error
	setErr := func(err error) {
		mu.Lock()
		if firstErr == nil {
			firstErr = err
		}
		mu.Unlock()
	}
	failed := func() bool { mu.Lock(); defer mu.Unlock(); return firstErr != nil }

	// All TLC jobs of the tier run concurrently within a budget of worker
	// threads (largest first).
	type job struct {
		weight int
		run    func()
	}
	var jobs []job

	// 1. exhaustive model checking (not recording: the largest state spaces)
	for _, x := range pl.exhaustive {
		x := x
		jobs = append(jobs, job{x.workers, func() {
			ci, err := readCfg(specDir, x.cfg)
			if err != nil {
				setErr(err)
				return
			}
			t0 := time.Now()
			res, err := tlc.Run(tlc.Opts{SpecDir: specDir, Module: module, Config: x.cfg, Workers: x.workers,
				Timeout: x.timeout, Coverage: pl.coverage, Scratch: ctx.Scratch})
			if err != nil {
				setErr(err)
				return
			}
			if !res.OK {
				setErr(specViolation(res, x.cfg))
				return
			}
			ctx.AddModel(res.Distinct, res.Generated)
			ctx.Logf("TLC %s: %d distinct / %d generated states, depth %d, %.1fs", x.cfg, res.Distinct, res.Generated, res.Depth, time.Since(t0).Seconds())
			ctx.SetExtra("tlc_"+strings.TrimSuffix(x.cfg, ".cfg"), map[string]any{"distinct": res.Distinct, "generated": res.Generated, "depth": res.Depth, "wall_s": res.WallS})
			if pl.coverage {
				want := []string{"Configure", "AddBlock", "Query"}
				if ci.nextVerOn {
					want = append(want, "NextVer")
				}
				for _, a := range want {
					if res.ActionCount[a] == 0 {
						setErr(fmt.Errorf("vacuity: action %s never taken in %s (coverage %v)", a, x.cfg, res.ActionCount))
						return
					}
				}
			}
		}})
	}

	// 2. state graphs of small recording configurations: covering paths
	for _, g := range pl.graphs {
		g := g
		jobs = append(jobs, job{g.workers, func() {
			ci, err := readCfg(specDir, g.cfg)
			if err != nil {
				setErr(err)
				return
			}
			t0 := time.Now()
			res, err := tlc.Run(tlc.Opts{SpecDir: specDir, Module: module, Config: g.cfg, Workers: g.workers,
				Timeout: g.timeout, DumpGraph: true, Scratch: ctx.Scratch})
			if err != nil {
				setErr(err)
				return
			}
			if !res.OK {
				setErr(specViolation(res, g.cfg))
				return
			}
			ctx.AddModel(res.Distinct, res.Generated)
			paths, covered := res.Graph.CoverPaths(ctx.Rand("paths:"+g.cfg), g.maxPaths, g.maxLen)
			ctx.Logf("TLC %s: %d distinct states, %d edges; %d paths cover %d edges (%.1fs)", g.cfg, res.Distinct, res.Graph.Edges, len(paths), covered, time.Since(t0).Seconds())
			name := "graph_" + strings.TrimSuffix(g.cfg, ".cfg")
			ctx.SetExtra(name, map[string]any{"states": res.Distinct, "edges": res.Graph.Edges, "paths": len(paths), "edges_covered": covered,
				"every_edge_replayed": covered == res.Graph.Edges})
			mu.Lock()
			for i, p := range paths {
				all = append(all, behaviour{mc: ci.consts, states: pathStates(p), origin: fmt.Sprintf("%s path %d", g.cfg, i)})
			}
			mu.Unlock()
		}})
	}

	// 3. random simulation of the large configurations
	for _, sm := range pl.sims {
		for k := 0; k < sm.procs; k++ {
			sm, k := sm, k
			jobs = append(jobs, job{1, func() {
				ci, err := readCfg(specDir, sm.cfg)
				if err != nil {
					setErr(err)
					return
				}
				t0 := time.Now()
				seed := ctx.Seed*1000003 + int64(k)*7919 + 17
				res, err := tlc.Run(tlc.Opts{SpecDir: specDir, Module: module, Config: sm.cfg, Timeout: sm.timeout,
					Sim: &tlc.Sim{Num: sm.num, Depth: sm.depth, Seed: seed}, Scratch: ctx.Scratch})
				if err != nil {
					setErr(err)
					return
				}
				if !res.OK {
					setErr(specViolation(res, sm.cfg))
					return
				}
				ctx.Logf("TLC -simulate %s #%d: %d behaviours, %d states generated (%.1fs)", sm.cfg, k, len(res.Behaviours), res.Generated, time.Since(t0).Seconds())
				ctx.AddModel(0, res.Generated)
				ctx.AddExtra("simulated_behaviours", int64(len(res.Behaviours)))
				mu.Lock()
				for i, b := range res.Behaviours {
					var st []tla.State
					for _, ts := range b {
						st = append(st, ts.State)
					}
					all = append(all, behaviour{mc: ci.consts, states: st, origin: fmt.Sprintf("%s simulation seed %d #%d", sm.cfg, seed, i)})
				}
				mu.Unlock()
			}})
		}
	}

	sort.SliceStable(jobs, func(i, j int) bool { return jobs[i].weight > jobs[j].weight })
	{
		var wg sync.WaitGroup
		cond := sync.NewCond(&sync.Mutex{})
		free := pl.budget
		for _, j := range jobs {
			j := j
			cond.L.Lock()
			for free < j.weight {
				cond.Wait()
			}
			free -= j.weight
			cond.L.Unlock()
			wg.Add(1)
			go func() {
				defer wg.Done()
				if !failed() {
					j.run()
				}
				cond.L.Lock()
				free += j.weight
				cond.L.Unlock()
				cond.Broadcast()
			}()
		}
		wg.Wait()
	}
	if firstErr != nil {
		return firstErr
	}
	// deterministic order whatever the job completion order was
	sort.SliceStable(all, func(i, j int) bool { return all[i].origin < all[j].origin })
	if len(all) == 0 {
		return fmt.Errorf("no behaviours to replay")
	}

	// samples
	rng := ctx.Rand("samples")
	for _, i := range rng.Perm(len(all))[:min(4, len(all))] {
		ctx.Sample(describe(all[i]))
	}

	// 4. the binding must not be vacuous: with one expected value made wrong
	// the same replay has to report a divergence
	{
		var probe []behaviour
		for _, b := range all {
			for _, s := range b.states {
				if l := s["last"]; l.Has("op") && l.F("op").Str() == "query" {
					probe = append(probe, b)
					break
				}
			}
			if len(probe) >= 20 {
				break
			}
		}
		n, err := replayCorrupted(ctx, probe)
		if err != nil {
			return err
		}
		if len(probe) == 0 || n < len(probe) {
			return fmt.Errorf("binding self-test: %d behaviours with a corrupted expected value, only %d divergences reported", len(probe), n)
		}
		ctx.SetExtra("selftest_corrupted_expectations_rejected", n)
	}

	// 5. the replay proper
	if err := runReplays(ctx, all, "replay"); err != nil {
		return err
	}
	return nil
}

func runReplayFile(ctx *vrun.Ctx, path string) error {
	b, err := os.ReadFile(path)
	if err != nil {
		return err
	}
	var f struct {
		Replay replayFile `json:"replay"`
	}
	if err := json.Unmarshal(b, &f); err != nil {
		return err
	}
	rf := f.Replay
	mc := modelConsts{Name: rf.Config, W: rf.W, NetThr: rf.NetThr, Implicit: map[int]bool{}}
	for _, i := range rf.Implicit {
		mc.Implicit[i] = true
	}
	var states []tla.State
	for _, m := range rf.States {
		st := tla.State{}
		for k, v := range m {
			val, err := tla.ParseValue(v)
			if err != nil {
				return fmt.Errorf("replay file: %s: %v", k, err)
			}
			st[k] = val
		}
		states = append(states, st)
	}
	r := &replayer{mc: mc, rng: rand.New(rand.NewSource(rf.RngSeed)), scratch: ctx.Scratch}
	if err := r.run(states); err != nil {
		return err
	}
	ctx.AddTraces(1)
	ctx.AddEval(r.st.evals)
	for _, fd := range r.findings {
		ctx.Violation(fd.Key, fd.What, rf)
	}
	if len(r.findings) == 0 {
		fmt.Println("replay: no divergence reproduced")
	}
	return nil
}
