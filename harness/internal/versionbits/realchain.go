package versionbits

// A real blockchain.BlockChain on a real ffldb database with synthetic
// network parameters: tiny confirmation windows and the deployment
// definitions chosen by the specification.

import (
	"fmt"
	"math/big"
	"math/rand"
	"os"
	"time"

	"github.com/btcsuite/btcd/blockchain"
	"github.com/btcsuite/btcd/btcutil/v2"
	"github.com/btcsuite/btcd/chaincfg/v2"
	"github.com/btcsuite/btcd/chainhash/v2"
	"github.com/btcsuite/btcd/database"
	_ "github.com/btcsuite/btcd/database/ffldb"
	"github.com/btcsuite/btcd/txscript/v2"
	"github.com/btcsuite/btcd/wire/v2"
)

// depDef is one deployment definition as chosen by the specification (all
// values abstract: times in spec time units, 0 = unset).
type depDef struct {
	Start, Timeout, Thr, MinH, Always int
}

const (
	vbTopBits   = 0x20000000
	timeStepSec = 60
)

// slots of chaincfg.Params.Deployments.  Block acceptance itself asks for the
// state of the CSV and segwit deployments at the parent of every block
// (checkBlockContext), so the specification's Implicit deployments must sit
// there; any other deployment may sit anywhere (the real cache is then a
// superset of the specification's).  CSV, segwit and taproot gate consensus
// rules, which is what the gate probes observe.
var (
	implicitSlots = []int{chaincfg.DeploymentCSV, chaincfg.DeploymentSegwit}
	gateSlots     = []int{chaincfg.DeploymentCSV, chaincfg.DeploymentSegwit, chaincfg.DeploymentTaproot}
	dummySlots    = []int{chaincfg.DeploymentTestDummy, chaincfg.DeploymentTestDummyMinActivation,
		chaincfg.DeploymentTestDummyAlwaysActive}
)

// node is what the binder knows about one block of the specification's tree.
type node struct {
	id     int
	parent int
	height int32
	time   int // abstract
	mtp    int // abstract, from the specification
	hash   chainhash.Hash
	ts     time.Time
	cbHash chainhash.Hash // coinbase txid
	cbVal  int64
	exp    *oracle
}

// oracle holds the property-layer values of a node, read from the spec state.
type oracle struct {
	St   []string // per deployment (index d-1): state for the block after the node
	Raw  []string
	NV   []int // deployments whose bit the next version must carry
	Gate []int // deployments whose gated rules bind the next block
}

type realChain struct {
	dir    string
	db     database.DB
	chain  *blockchain.BlockChain
	params *chaincfg.Params
	base   time.Time
	slot   []int   // dep index (0-based) -> deployment slot
	bit    []uint8 // dep index -> version bit
	nodes  map[int]*node
	byHash map[chainhash.Hash]*node
	rng    *rand.Rand
	w      int
	nonce  int64
}

func (rc *realChain) Close() {
	if rc.db != nil {
		rc.db.Close()
	}
	if rc.dir != "" {
		os.RemoveAll(rc.dir)
	}
}

// absTime maps the specification's time unit to a wall clock time.  0 is the
// timestamp of the genesis block, which precedes every other block time.
func (rc *realChain) absTime(t int) time.Time {
	if t == 0 {
		return rc.params.GenesisBlock.Header.Timestamp
	}
	return rc.base.Add(time.Duration(t*timeStepSec) * time.Second)
}

func (rc *realChain) depTime(t int) time.Time {
	if t == 0 {
		return time.Time{} // always started / never ends
	}
	return rc.base.Add(time.Duration(t*timeStepSec) * time.Second)
}

// newRealChain builds the synthetic parameters and an empty chain.  current
// selects block times within the last day (the chain then considers itself
// current and also evaluates the unknown-rule warning logic on every connect,
// which asks for the state of every deployment) or three days back.
func newRealChain(scratch string, w, netThr int, deps []depDef, implicit map[int]bool,
	rng *rand.Rand, current bool) (*realChain, error) {

	dir, err := os.MkdirTemp(scratch, "vbchain-")
	if err != nil {
		return nil, err
	}
	rc := &realChain{dir: dir, rng: rng, w: w, nodes: map[int]*node{}, byHash: map[chainhash.Hash]*node{}}

	// A private copy of the regression test parameters.  Deployments is an
	// array, so the struct copy already detaches it; every entry gets fresh
	// starter / ender objects below (they keep a pointer to the chain).
	params := chaincfg.RegressionNetParams
	params.Name = "regtest-vb"
	params.MinerConfirmationWindow = uint32(w)
	params.RuleChangeActivationThreshold = uint32(netThr)
	params.CoinbaseMaturity = 1
	params.Checkpoints = nil

	back := 6 * time.Hour
	if !current {
		back = 72 * time.Hour
	}
	rc.base = time.Unix(time.Now().Add(-back).Unix(), 0)

	// distinct version bits for everything
	bits := rng.Perm(28) // bits 0..27 (28 is the legacy test dummy bit)
	nextBit := 0
	takeBit := func() uint8 { b := bits[nextBit]; nextBit++; return uint8(b) }

	// fillers: forced active from height 1 on (as regtest ships them): they
	// never contribute a bit to the next block version
	for i := range params.Deployments {
		params.Deployments[i] = chaincfg.ConsensusDeployment{
			BitNumber:          takeBit(),
			DeploymentStarter:  chaincfg.NewMedianTimeDeploymentStarter(time.Time{}),
			DeploymentEnder:    chaincfg.NewMedianTimeDeploymentEnder(time.Time{}),
			AlwaysActiveHeight: 1,
		}
	}

	// slots for the specification's deployments
	imp := append([]int(nil), implicitSlots...)
	if rng.Intn(2) == 0 {
		imp[0], imp[1] = imp[1], imp[0]
	}
	used := map[int]bool{}
	rc.slot = make([]int, len(deps))
	rc.bit = make([]uint8, len(deps))
	for i := range deps { // implicit deployments first
		if implicit[i+1] {
			if len(imp) == 0 {
				return nil, fmt.Errorf("more implicit deployments than CSV/segwit slots")
			}
			rc.slot[i], imp = imp[0], imp[1:]
			used[rc.slot[i]] = true
		}
	}
	free := func(from []int) []int {
		var out []int
		for _, s := range from {
			if !used[s] {
				out = append(out, s)
			}
		}
		return out
	}
	for i := range deps {
		if implicit[i+1] {
			continue
		}
		// three times out of four a slot that gates consensus rules
		cand := free(gateSlots)
		if len(cand) == 0 || rng.Intn(4) == 0 {
			if d := free(dummySlots); len(d) > 0 {
				cand = d
			}
		}
		if len(cand) == 0 {
			return nil, fmt.Errorf("more deployments than slots")
		}
		rc.slot[i] = cand[rng.Intn(len(cand))]
		used[rc.slot[i]] = true
	}
	for i, d := range deps {
		s := rc.slot[i]
		rc.bit[i] = takeBit()
		params.Deployments[s] = chaincfg.ConsensusDeployment{
			BitNumber:                 rc.bit[i],
			MinActivationHeight:       uint32(d.MinH),
			CustomActivationThreshold: uint32(d.Thr),
			AlwaysActiveHeight:        uint32(d.Always),
			DeploymentStarter:         chaincfg.NewMedianTimeDeploymentStarter(rc.depTime(d.Start)),
			DeploymentEnder:           chaincfg.NewMedianTimeDeploymentEnder(rc.depTime(d.Timeout)),
		}
	}
	rc.params = &params

	db, err := database.Create("ffldb", dir, params.Net)
	if err != nil {
		os.RemoveAll(dir)
		return nil, err
	}
	rc.db = db
	chain, err := blockchain.New(&blockchain.Config{
		DB:               db,
		ChainParams:      rc.params,
		TimeSource:       blockchain.NewMedianTime(),
		SigCache:         txscript.NewSigCache(100),
		UtxoCacheMaxSize: 1 << 20,
	})
	if err != nil {
		rc.Close()
		return nil, err
	}
	rc.chain = chain
	g := &node{id: 0, parent: -1, height: 0, time: 0, mtp: 0, hash: *params.GenesisHash,
		ts: params.GenesisBlock.Header.Timestamp}
	rc.nodes[0] = g
	rc.byHash[g.hash] = g
	return rc, nil
}

var opTrueScript = []byte{txscript.OP_TRUE}

// "1 OP_CHECKSEQUENCEVERIFY": spendable by anybody while the opcode is a NOP;
// once BIP112 is enforced only by a version >= 2 transaction.
var csvScript = []byte{txscript.OP_1, txscript.OP_CHECKSEQUENCEVERIFY}

const csvOutValue = 1000

// Witness-program shaped outputs: "0 <32 bytes>" (a version 0 script hash
// program) and "1 <32 bytes>" (a version 1, taproot, program).  Spent with an
// empty signature script and no witness they are anyone-can-spend until the
// segwit (respectively segwit and taproot) rules are enforced, and a script
// failure from then on.
var (
	v0Script = append([]byte{txscript.OP_0, txscript.OP_DATA_32}, bytes32(0x11)...)
	v1Script = append([]byte{txscript.OP_1, txscript.OP_DATA_32}, bytes32(0x22)...)
)

func bytes32(b byte) []byte {
	out := make([]byte, 32)
	for i := range out {
		out[i] = b
	}
	return out
}

func (rc *realChain) coinbase(height int32, lockTime uint32, sequence uint32) *wire.MsgTx {
	rc.nonce++
	script, err := txscript.NewScriptBuilder().AddInt64(int64(height)).AddInt64(rc.nonce).
		AddData([]byte("verif-vb")).Script()
	if err != nil {
		panic(err)
	}
	tx := wire.NewMsgTx(1)
	tx.AddTxIn(&wire.TxIn{
		PreviousOutPoint: *wire.NewOutPoint(&chainhash.Hash{}, wire.MaxPrevOutIndex),
		SignatureScript:  script,
		Sequence:         sequence,
	})
	tx.AddTxOut(&wire.TxOut{Value: blockchain.CalcBlockSubsidy(height, rc.params) - 3*csvOutValue, PkScript: opTrueScript})
	tx.AddTxOut(&wire.TxOut{Value: csvOutValue, PkScript: csvScript})
	tx.AddTxOut(&wire.TxOut{Value: csvOutValue, PkScript: v0Script})
	tx.AddTxOut(&wire.TxOut{Value: csvOutValue, PkScript: v1Script})
	tx.LockTime = lockTime
	return tx
}

// version turns the abstract (top, bits) pair into a block version.  A block
// without the 001 top pattern still carries the deployment bits; the concrete
// wrong pattern is picked at random.
func (rc *realChain) version(top bool, bits []int) int32 {
	var v uint32
	for _, d := range bits {
		v |= 1 << rc.bit[d-1]
	}
	if top {
		return int32(vbTopBits | v)
	}
	switch rc.rng.Intn(3) {
	case 0:
		return int32(0x40000000 | v)
	case 1:
		return int32(0x60000000 | v)
	default:
		// top pattern 000: a "legacy" version number, kept >= 4 so that the
		// height-gated version rules accept it
		v &^= 0xe0000000
		if v < 4 {
			v |= 1 << 28
		}
		return int32(v)
	}
}

func (rc *realChain) solve(h *wire.BlockHeader) {
	target := blockchain.CompactToBig(h.Bits)
	for {
		hash := h.BlockHash()
		if blockchain.HashToBig(&hash).Cmp(target) <= 0 {
			return
		}
		h.Nonce++
	}
}

var _ = big.NewInt

func (rc *realChain) makeBlock(parent *node, version int32, ts time.Time, txs []*wire.MsgTx) *btcutil.Block {
	msg := &wire.MsgBlock{Header: wire.BlockHeader{
		Version:   version,
		PrevBlock: parent.hash,
		Timestamp: ts,
		Bits:      rc.params.PowLimitBits,
	}}
	utx := make([]*btcutil.Tx, 0, len(txs))
	for _, tx := range txs {
		msg.AddTransaction(tx)
		utx = append(utx, btcutil.NewTx(tx))
	}
	msg.Header.MerkleRoot = blockchain.CalcMerkleRoot(utx, false)
	rc.solve(&msg.Header)
	return btcutil.NewBlock(msg)
}

// addBlock builds and delivers the block the specification added.
func (rc *realChain) addBlock(id, parentID, t, mtp int, top bool, bits []int) (*node, error) {
	p := rc.nodes[parentID]
	if p == nil {
		return nil, fmt.Errorf("unknown parent %d", parentID)
	}
	cb := rc.coinbase(p.height+1, 0, wire.MaxTxInSequenceNum)
	blk := rc.makeBlock(p, rc.version(top, bits), rc.absTime(t), []*wire.MsgTx{cb})
	_, isOrphan, err := rc.chain.ProcessBlock(blk, blockchain.BFNone)
	if err != nil {
		return nil, fmt.Errorf("block %d (parent %d, height %d, version %#x) refused: %v", id, parentID, p.height+1,
			uint32(blk.MsgBlock().Header.Version), err)
	}
	if isOrphan {
		return nil, fmt.Errorf("block %d became an orphan", id)
	}
	n := &node{id: id, parent: parentID, height: p.height + 1, time: t, mtp: mtp, hash: *blk.Hash(),
		ts: blk.MsgBlock().Header.Timestamp, cbHash: cb.TxHash(), cbVal: cb.TxOut[0].Value}
	rc.nodes[id] = n
	rc.byHash[n.hash] = n
	return n, nil
}

// tip returns the node the real chain currently has as its best tip (nil if
// it is not a block of the specification's tree, e.g. an accepted probe).
func (rc *realChain) tip() *node {
	return rc.byHash[rc.chain.BestSnapshot().Hash]
}

// probe113 builds a child of n whose coinbase is final by the block's own
// timestamp but not by the median time past of n: BIP113, part of the CSV
// deployment, is the only rule that refuses it.
func (rc *realChain) probe113(n *node) *btcutil.Block {
	ts := rc.absTime(n.mtp).Add(30 * time.Second)
	lock := uint32(ts.Unix() - 1)
	cb := rc.coinbase(n.height+1, lock, 0)
	return rc.makeBlock(n, vbTopBits, ts, []*wire.MsgTx{cb})
}

// probe68 builds a child of n (height >= 1) with a version-2 transaction that
// spends n's coinbase under a relative lock of two blocks: BIP68, part of the
// CSV deployment, is the only rule that refuses it.
func (rc *realChain) probe68(n *node) *btcutil.Block {
	ts := rc.absTime(n.mtp).Add(30 * time.Second)
	cb := rc.coinbase(n.height+1, 0, wire.MaxTxInSequenceNum)
	tx := wire.NewMsgTx(2)
	tx.AddTxIn(&wire.TxIn{PreviousOutPoint: *wire.NewOutPoint(&n.cbHash, 0), Sequence: 2})
	tx.AddTxOut(&wire.TxOut{Value: n.cbVal, PkScript: opTrueScript})
	return rc.makeBlock(n, vbTopBits, ts, []*wire.MsgTx{cb, tx})
}

// probe112 builds a child of n (height >= 1) with a version-1 transaction that
// spends the "1 OP_CHECKSEQUENCEVERIFY" output of n's coinbase: valid while
// the opcode is a NOP, a script failure once BIP112 (part of the CSV
// deployment) is enforced.  BIP68 does not apply to version 1.
func (rc *realChain) probe112(n *node) *btcutil.Block {
	ts := rc.absTime(n.mtp).Add(30 * time.Second)
	cb := rc.coinbase(n.height+1, 0, wire.MaxTxInSequenceNum)
	tx := wire.NewMsgTx(1)
	tx.AddTxIn(&wire.TxIn{PreviousOutPoint: *wire.NewOutPoint(&n.cbHash, 1), Sequence: wire.MaxTxInSequenceNum})
	tx.AddTxOut(&wire.TxOut{Value: csvOutValue, PkScript: opTrueScript})
	return rc.makeBlock(n, vbTopBits, ts, []*wire.MsgTx{cb, tx})
}

// probeSpend builds a child of n (height >= 1) with a version-1 transaction
// that spends output idx of n's coinbase with an empty signature script and
// no witness.
func (rc *realChain) probeSpend(n *node, idx uint32) *btcutil.Block {
	ts := rc.absTime(n.mtp).Add(30 * time.Second)
	cb := rc.coinbase(n.height+1, 0, wire.MaxTxInSequenceNum)
	tx := wire.NewMsgTx(1)
	tx.AddTxIn(&wire.TxIn{PreviousOutPoint: *wire.NewOutPoint(&n.cbHash, idx), Sequence: wire.MaxTxInSequenceNum})
	tx.AddTxOut(&wire.TxOut{Value: csvOutValue, PkScript: opTrueScript})
	return rc.makeBlock(n, vbTopBits, ts, []*wire.MsgTx{cb, tx})
}

// probeV0 spends the version 0 witness program output without a witness:
// refused by the script engine exactly when the segwit rules are enforced.
func (rc *realChain) probeV0(n *node) *btcutil.Block { return rc.probeSpend(n, 2) }

// probeV1 spends the version 1 witness program output without a witness:
// refused exactly when the taproot rules are enforced (which takes segwit).
func (rc *realChain) probeV1(n *node) *btcutil.Block { return rc.probeSpend(n, 3) }

// probeCommit builds a child of n whose coinbase carries a witness nonce and
// a witness commitment output with a wrong commitment: ignored before segwit,
// a commitment mismatch (checkBlockContext) once segwit is active.
func (rc *realChain) probeCommit(n *node) *btcutil.Block {
	ts := rc.absTime(n.mtp).Add(30 * time.Second)
	cb := rc.coinbase(n.height+1, 0, wire.MaxTxInSequenceNum)
	cb.TxIn[0].Witness = wire.TxWitness{make([]byte, blockchain.CoinbaseWitnessDataLen)}
	script := append([]byte{txscript.OP_RETURN, txscript.OP_DATA_36}, blockchain.WitnessMagicBytes[2:]...)
	script = append(script, bytes32(0x33)...)
	cb.AddTxOut(&wire.TxOut{Value: 0, PkScript: script})
	return rc.makeBlock(n, vbTopBits, ts, []*wire.MsgTx{cb})
}

// verdict classes of a delivered block
const (
	vAccepted   = "accepted"
	vUnfinal    = "rejected-unfinalized"
	vScript     = "rejected-script"
	vCommit     = "rejected-witness-commitment"
	vOtherRule  = "rejected-other-rule"
	vOtherError = "error"
)

func classify(err error) string {
	if err == nil {
		return vAccepted
	}
	if re, ok := err.(blockchain.RuleError); ok {
		if re.ErrorCode == blockchain.ErrUnfinalizedTx {
			return vUnfinal
		}
		if re.ErrorCode == blockchain.ErrScriptValidation {
			return vScript
		}
		if re.ErrorCode == blockchain.ErrWitnessCommitmentMismatch {
			return vCommit
		}
		return vOtherRule + ":" + re.ErrorCode.String()
	}
	return vOtherError + ":" + err.Error()
}
