package versionbits

// Replay of one behaviour of VersionBits.tla on a real chain.  Every expected
// value is read from the specification state (field `exp' of `last', computed
// by TLC from the property-layer operators Ref / NV / Gate); nothing about
// BIP9 is re-derived here.

import (
	"fmt"
	"math/rand"
	"sort"
	"strings"

	"github.com/btcsuite/btcd/blockchain"
	"github.com/btcsuite/btcd/btcutil/v2"
	"github.com/btcsuite/btcd/chaincfg/v2"
	"github.com/btcsuite/btcd/chainhash/v2"

	"verif/harness/internal/tla"
)

// modelConsts are the constants of the configuration a behaviour came from.
type modelConsts struct {
	Name     string
	W        int
	NetThr   int
	Implicit map[int]bool
}

// finding is one divergence of the real code from the property.
type finding struct {
	Key  string
	What string
}

type replayStats struct {
	evals    int64
	blocks   int
	queries  int
	probes   int
	reorgs   int
	drift    []string
	distinct map[string]bool
}

var stateName = map[blockchain.ThresholdState]string{
	blockchain.ThresholdDefined:  "defined",
	blockchain.ThresholdStarted:  "started",
	blockchain.ThresholdLockedIn: "lockedin",
	blockchain.ThresholdActive:   "active",
	blockchain.ThresholdFailed:   "failed",
}

func parseOracle(v tla.Value) *oracle {
	o := &oracle{}
	for _, s := range v.F("st").Seq() {
		o.St = append(o.St, s.Str())
	}
	for _, s := range v.F("raw").Seq() {
		o.Raw = append(o.Raw, s.Str())
	}
	o.NV = v.F("nv").Ints()
	o.Gate = v.F("gate").Ints()
	sort.Ints(o.NV)
	sort.Ints(o.Gate)
	return o
}

func parseDeps(v tla.Value) []depDef {
	var out []depDef
	for _, r := range v.Seq() {
		out = append(out, depDef{Start: r.F("start").Int(), Timeout: r.F("timeout").Int(), Thr: r.F("thr").Int(),
			MinH: r.F("minh").Int(), Always: r.F("always").Int()})
	}
	return out
}

func contains(xs []int, x int) bool {
	for _, y := range xs {
		if x == y {
			return true
		}
	}
	return false
}

type replayer struct {
	mc       modelConsts
	rng      *rand.Rand
	scratch  string
	corrupt  bool // self-test: flip one expected value
	rc       *realChain
	st       replayStats
	findings []finding
	csvDep   int // 1-based deployment on the CSV slot, 0 if none
	swDep    int // ... on the segwit slot
	trDep    int // ... on the taproot slot
	desc     []string
}

func (r *replayer) fail(key, what string) {
	r.findings = append(r.findings, finding{Key: key, What: what})
}

func (r *replayer) note(f string, a ...any) { r.desc = append(r.desc, fmt.Sprintf(f, a...)) }

// checkState compares one reported state with the property layer.
func (r *replayer) checkState(via string, n *node, d int, got blockchain.ThresholdState, err error) {
	r.st.evals++
	want := n.exp.St[d-1]
	if err != nil {
		r.fail("state:error", fmt.Sprintf("%s: state of deployment %d (slot %d) after node %d (height %d): error %v, property says %s",
			via, d, r.rc.slot[d-1], n.id, n.height, err, want))
		return
	}
	g := stateName[got]
	r.st.distinct[fmt.Sprintf("st:%s:h%%w=%d:%s", want, int(n.height+1)%r.mc.W, via)] = true
	if g != want {
		r.fail(fmt.Sprintf("state:want-%s:got-%s", want, g),
			fmt.Sprintf("%s: state of deployment %d (slot %d) for the block after node %d (height %d) is %s, BIP9 reference says %s",
				via, d, r.rc.slot[d-1], n.id, n.height, g, want))
	}
}

func (r *replayer) wantVersion(n *node) int32 {
	v := uint32(vbTopBits)
	for _, d := range n.exp.NV {
		v |= 1 << r.rc.bit[d-1]
	}
	return int32(v)
}

func (r *replayer) checkVersion(via string, n *node, got int32, err error) {
	r.st.evals++
	want := r.wantVersion(n)
	if err != nil {
		r.fail("nextversion:error", fmt.Sprintf("%s: next block version after node %d: error %v", via, n.id, err))
		return
	}
	r.st.distinct[fmt.Sprintf("nv:%d:%s", len(n.exp.NV), via)] = true
	if got != want {
		key := "nextversion:other"
		switch {
		case uint32(got)&^uint32(want) != 0 && uint32(want)&^uint32(got) == 0:
			key = "nextversion:extra-bit"
		case uint32(want)&^uint32(got) != 0 && uint32(got)&^uint32(want) == 0:
			key = "nextversion:missing-bit"
		}
		r.fail(key, fmt.Sprintf("%s: version proposed for the block after node %d (height %d) is %#x, the bits of the Started/LockedIn deployments %v give %#x",
			via, n.id, n.height, uint32(got), n.exp.NV, uint32(want)))
	}
}

// queryNode asks the real chain for the state of deployment d after node n:
// through the public API when n is the best tip, through the accessor
// otherwise (both end in deploymentState with the shared cache).
func (r *replayer) queryNode(via string, n *node, d int) {
	slot := uint32(r.rc.slot[d-1])
	r.st.queries++
	if t := r.rc.tip(); t == n && r.rng.Intn(4) != 0 {
		st, err := r.rc.chain.ThresholdState(slot)
		r.checkState(via+"/ThresholdState", n, d, st, err)
		act, err := r.rc.chain.IsDeploymentActive(slot)
		r.st.evals++
		want := n.exp.St[d-1] == "active"
		if err != nil {
			r.fail("isactive:error", fmt.Sprintf("IsDeploymentActive(%d) at node %d: %v", slot, n.id, err))
		} else if act != want {
			r.fail(fmt.Sprintf("isactive:want-%v", want),
				fmt.Sprintf("%s: IsDeploymentActive(slot %d) at tip node %d (height %d) = %v, reference state %s", via, slot, n.id, n.height, act, n.exp.St[d-1]))
		}
		return
	}
	st, err := r.rc.chain.VerifDeploymentState(&n.hash, slot)
	r.checkState(via+"/deploymentState", n, d, st, err)
}

func (r *replayer) versionNode(via string, n *node) {
	r.st.queries++
	if t := r.rc.tip(); t == n && r.rng.Intn(4) != 0 {
		v, err := r.rc.chain.CalcNextBlockVersion()
		r.checkVersion(via+"/CalcNextBlockVersion", n, v, err)
		return
	}
	v, err := r.rc.chain.VerifNextBlockVersion(&n.hash)
	r.checkVersion(via+"/calcNextBlockVersion", n, v, err)
}

// A gate probe is a block that breaks exactly one rule gated on a deployment:
// it must be accepted while the property layer says the deployment is not
// Active for the block after n (Gate(n) of the specification) and refused
// with the rule's own error class from the first Active block on.
type gateProbe struct {
	kind    string
	dep     int    // deployment (1-based) whose state gates the rule
	refused string // verdict class once the rule binds
	connect bool   // rule checked when the block is connected (tip only)
	build   func(*node) *btcutil.Block
}

// probesFor lists the probes applicable to a child of n.
func (r *replayer) probesFor(n *node) []gateProbe {
	var ps []gateProbe
	if r.csvDep != 0 {
		ps = append(ps, gateProbe{"bip113", r.csvDep, vUnfinal, false, r.rc.probe113})
		if n.height >= 1 {
			ps = append(ps, gateProbe{"bip68", r.csvDep, vUnfinal, true, r.rc.probe68},
				gateProbe{"bip112", r.csvDep, vScript, true, r.rc.probe112})
		}
	}
	if r.swDep != 0 {
		ps = append(ps, gateProbe{"witness-commitment", r.swDep, vCommit, false, r.rc.probeCommit})
		if n.height >= 1 {
			ps = append(ps, gateProbe{"segwit-v0-spend", r.swDep, vScript, true, r.rc.probeV0})
		}
	}
	// the taproot rules take the segwit rules: probed only when the segwit
	// slot holds the filler that is active from block 1 on
	if r.trDep != 0 && r.swDep == 0 && n.height >= 1 {
		ps = append(ps, gateProbe{"taproot-v1-spend", r.trDep, vScript, true, r.rc.probeV1})
	}
	return ps
}

func (r *replayer) checkGate(p gateProbe, via string, n *node, err error) {
	r.st.evals++
	r.st.probes++
	got := classify(err)
	want := vAccepted
	if contains(n.exp.Gate, p.dep) {
		want = p.refused
	}
	r.st.distinct[fmt.Sprintf("gate:%s:%s:%s:h%%w=%d", p.kind, via, want, int(n.height+1)%r.mc.W)] = true
	if got != want {
		r.fail(fmt.Sprintf("gate:%s:want-%s:got-%s", p.kind, want, strings.SplitN(got, ":", 2)[0]),
			fmt.Sprintf("%s via %s: block after node %d (height %d) violating %s is %s; the state of deployment %d (slot %d) there is %s so it must be %s",
				p.kind, via, n.id, n.height, p.kind, got, p.dep, r.rc.slot[p.dep-1], n.exp.St[p.dep-1], want))
	}
}

func (r *replayer) templateProbes(n *node) {
	if r.rc.tip() != n {
		return
	}
	for _, p := range r.probesFor(n) {
		r.checkGate(p, "CheckConnectBlockTemplate", n, r.rc.chain.CheckConnectBlockTemplate(p.build(n)))
	}
}

// sweep asks for everything at every node, in random order.
func (r *replayer) sweep() {
	ids := make([]int, 0, len(r.rc.nodes))
	for id := range r.rc.nodes {
		ids = append(ids, id)
	}
	sort.Ints(ids)
	r.rng.Shuffle(len(ids), func(i, j int) { ids[i], ids[j] = ids[j], ids[i] })
	k := len(r.rc.slot)
	for _, id := range ids {
		n := r.rc.nodes[id]
		for _, di := range r.rng.Perm(k) {
			r.queryNode("sweep", n, di+1)
		}
		r.versionNode("sweep", n)
	}
}

// cacheDrift compares the real threshold caches with the specification:
// implementation-layer drift, never a verdict.
func (r *replayer) cacheDrift(specCache tla.Value) {
	for d := 1; d <= len(r.rc.slot); d++ {
		real := r.rc.chain.VerifDeploymentCache(uint32(r.rc.slot[d-1]))
		for h, st := range real {
			n := r.rc.byHash[h]
			if n == nil {
				continue // a probe block
			}
			if int(n.height+1)%r.mc.W != 0 {
				r.st.drift = append(r.st.drift, fmt.Sprintf("cache entry at non-boundary node %d", n.id))
			} else if stateName[st] != n.exp.Raw[d-1] {
				r.st.drift = append(r.st.drift, fmt.Sprintf("cache entry dep %d node %d = %s, state machine says %s", d, n.id, stateName[st], n.exp.Raw[d-1]))
			}
		}
		c := specCache.At(d)
		if c.Len() == 0 {
			continue
		}
		for _, key := range c.Domain() {
			n := r.rc.nodes[key.Int()]
			want := c.Apply(key).Str()
			got, ok := real[n.hash]
			if !ok {
				r.st.drift = append(r.st.drift, fmt.Sprintf("spec caches dep %d node %d = %s, real cache has no entry", d, n.id, want))
			} else if stateName[got] != want {
				r.st.drift = append(r.st.drift, fmt.Sprintf("spec caches dep %d node %d = %s, real cache has %s", d, n.id, want, stateName[got]))
			}
		}
	}
}

// processProbes delivers rule-violating children through ProcessBlock.
func (r *replayer) processProbes() {
	if t := r.rc.tip(); t != nil {
		// connect-time rules: a refused block leaves the tip where it is, an
		// accepted one moves it, so one of them (picked at random) is delivered
		var cs []gateProbe
		for _, p := range r.probesFor(t) {
			if p.connect {
				cs = append(cs, p)
			}
		}
		if len(cs) > 0 {
			p := cs[r.rng.Intn(len(cs))]
			_, _, err := r.rc.chain.ProcessBlock(p.build(t), blockchain.BFNone)
			r.checkGate(p, "ProcessBlock", t, err)
		}
	}
	// context rules are checked on every branch
	ids := make([]int, 0, len(r.rc.nodes))
	for id := range r.rc.nodes {
		ids = append(ids, id)
	}
	sort.Ints(ids)
	r.rng.Shuffle(len(ids), func(i, j int) { ids[i], ids[j] = ids[j], ids[i] })
	for _, id := range ids {
		n := r.rc.nodes[id]
		for _, p := range r.probesFor(n) {
			if p.connect {
				continue
			}
			_, _, err := r.rc.chain.ProcessBlock(p.build(n), blockchain.BFNone)
			r.checkGate(p, "ProcessBlock", n, err)
		}
	}
}

// run replays the behaviour.  A returned error is an infrastructure problem.
func (r *replayer) run(states []tla.State) error {
	r.st.distinct = map[string]bool{}
	defer func() {
		if r.rc != nil {
			r.rc.Close()
		}
	}()
	corruptAt := -1
	if r.corrupt {
		corruptAt = 0
	}
	var final tla.State
	for _, s := range states {
		last, ok := s["last"]
		if !ok || !last.Has("op") {
			return fmt.Errorf("state without last.op (configuration without Record = TRUE?)")
		}
		op := last.F("op").Str()
		final = s
		switch op {
		case "init", "configure":
		case "none":
			return fmt.Errorf("behaviour from a configuration with Record = FALSE")
		case "configured":
			deps := parseDeps(s["deps"])
			rc, err := newRealChain(r.scratch, r.mc.W, r.mc.NetThr, deps, r.mc.Implicit, r.rng, r.rng.Intn(4) == 0)
			if err != nil {
				return err
			}
			r.rc = rc
			for i, sl := range rc.slot {
				switch sl {
				case chaincfg.DeploymentCSV:
					r.csvDep = i + 1
				case chaincfg.DeploymentSegwit:
					r.swDep = i + 1
				case chaincfg.DeploymentTaproot:
					r.trDep = i + 1
				}
			}
			rc.nodes[0].exp = parseOracle(last.F("exp"))
			r.note("deps=%v slots=%v bits=%v W=%d thr=%d", deps, rc.slot, rc.bit, r.mc.W, r.mc.NetThr)
		case "add":
			if r.rc == nil {
				return fmt.Errorf("add before configuration")
			}
			id := last.F("n").Int()
			b := s["blocks"].At(id)
			before := r.rc.tip()
			n, err := r.rc.addBlock(id, b.F("parent").Int(), b.F("time").Int(), b.F("mtp").Int(), b.F("top").Bool(), b.F("bits").Ints())
			if err != nil {
				return err
			}
			n.exp = parseOracle(last.F("exp"))
			r.st.blocks++
			after := r.rc.tip()
			if after == nil {
				return fmt.Errorf("best tip is not a block of the tree")
			}
			if after == n && before != nil && before.id != n.parent {
				r.st.reorgs++
			}
			if after == n && r.rng.Intn(2) == 0 {
				r.templateProbes(n)
			}
		case "query":
			n := r.rc.nodes[last.F("n").Int()]
			d := last.F("d").Int()
			if n == nil {
				return fmt.Errorf("query at unknown node")
			}
			if n.exp == nil {
				n.exp = parseOracle(last.F("exp"))
			}
			if corruptAt == 0 {
				// self-test of the binding: the expected value is made wrong
				o := *n.exp
				o.St = append([]string(nil), o.St...)
				if o.St[d-1] == "defined" {
					o.St[d-1] = "started"
				} else {
					o.St[d-1] = "defined"
				}
				saved := n.exp
				n.exp = &o
				r.queryNode("query", n, d)
				n.exp = saved
				corruptAt = -1
				continue
			}
			r.queryNode("query", n, d)
		case "nextver":
			n := r.rc.nodes[last.F("n").Int()]
			if n == nil {
				return fmt.Errorf("nextver at unknown node")
			}
			r.versionNode("nextver", n)
		default:
			return fmt.Errorf("unknown op %q", op)
		}
	}
	if r.rc == nil {
		return nil // behaviour ended before the configuration was complete
	}
	// end of the behaviour: probes and a full sweep, in either order
	if t := r.rc.tip(); t != nil {
		r.templateProbes(t)
	}
	if r.rng.Intn(2) == 0 {
		r.sweep()
		r.cacheDrift(final["cache"])
		r.processProbes()
	} else {
		r.cacheDrift(final["cache"])
		r.processProbes()
		r.sweep()
	}
	return nil
}

var _ = chainhash.Hash{}
