package versionbits

import (
	"math/rand"
	"testing"
	"time"

	"github.com/btcsuite/btcd/blockchain"
)

// Development smoke test of the concretisation (not part of the check).
func TestSmoke(t *testing.T) {
	rng := rand.New(rand.NewSource(1))
	deps := []depDef{{Start: 0, Timeout: 0}}
	rc, err := newRealChain(t.TempDir(), 3, 2, deps, map[int]bool{1: true}, rng, false)
	if err != nil {
		t.Fatal(err)
	}
	defer rc.Close()
	t0 := time.Now()
	for i := 1; i <= 9; i++ {
		n, err := rc.addBlock(i, i-1, i, (i+1)/2, true, []int{1})
		if err != nil {
			t.Fatal(err)
		}
		st, err := rc.chain.VerifDeploymentState(&n.hash, uint32(rc.slot[0]))
		if err != nil {
			t.Fatal(err)
		}
		st2, _ := rc.chain.ThresholdState(uint32(rc.slot[0]))
		nv, _ := rc.chain.CalcNextBlockVersion()
		snap := rc.chain.BestSnapshot()
		t.Logf("h=%d slot=%d state=%v/%v nv=%#x mtp=%v want=%v", i, rc.slot[0], st, st2, uint32(nv), snap.MedianTime.Unix(), rc.absTime((i+1)/2).Unix())
		if n.height >= 1 {
			e1 := rc.chain.CheckConnectBlockTemplate(rc.probe113(n))
			e2 := rc.chain.CheckConnectBlockTemplate(rc.probe68(n))
			t.Logf("   probe113=%s probe68=%s", classify(e1), classify(e2))
		}
	}
	t.Logf("9 blocks in %v", time.Since(t0))
	for _, id := range []int{5, 6, 8, 9} {
		n := rc.nodes[id]
		_, _, err := rc.chain.ProcessBlock(rc.probe113(n), blockchain.BFNone)
		t.Logf("ProcessBlock probe113 child of %d: %s", id, classify(err))
	}
	_, _, err = rc.chain.ProcessBlock(rc.probe68(rc.nodes[9]), blockchain.BFNone)
	t.Logf("ProcessBlock probe68 child of 9: %s", classify(err))
}
