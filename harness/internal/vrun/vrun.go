// Package vrun is the common runner for every check: argument handling,
// evidence files, VIOLATION / KNOWN-FINDING reporting and exit codes.
//
// Exit codes: 0 property held on everything explored; 1 a violation observed on
// the real code that known-findings.json does not list; 2 infrastructure
// failure (never a verdict).
package vrun

import (
	"encoding/json"
	"flag"
	"fmt"
	"math/rand"
	"os"
	"path/filepath"
	"runtime"
	"sort"
	"strconv"
	"strings"
	"sync"
	"time"
)

type Coverage struct {
	States      int64          `json:"states"`
	Transitions int64          `json:"transitions"`
	TracesImpl  int64          `json:"traces_validated_against_impl"`
	Evaluations int64          `json:"evaluations"`
	DistinctNT  int64          `json:"distinct_nontrivial"`
	Rule        string         `json:"rule"`
	Samples     []any          `json:"samples"`
	Exhaustive  bool           `json:"exhaustive"`
	Explanation string         `json:"explanation,omitempty"`
	Extra       map[string]any `json:"-"`
}

func (c Coverage) MarshalJSON() ([]byte, error) {
	m := map[string]any{
		"states": c.States, "transitions": c.Transitions,
		"traces_validated_against_impl": c.TracesImpl,
		"evaluations":                   c.Evaluations,
		"distinct_nontrivial":           c.DistinctNT,
		"rule":                          c.Rule,
		"samples":                       c.Samples,
		"exhaustive":                    c.Exhaustive,
	}
	if c.Explanation != "" {
		m["explanation"] = c.Explanation
	}
	for k, v := range c.Extra {
		m[k] = v
	}
	return json.Marshal(m)
}

type Evidence struct {
	PropertyID  string   `json:"property_id"`
	Tier        string   `json:"tier"`
	Seed        int64    `json:"seed"`
	Level       string   `json:"level"`
	Coverage    Coverage `json:"coverage"`
	Assumptions []string `json:"assumptions"`
	WallS       float64  `json:"wall_s"`
	Violations  int      `json:"violations"`
}

type Finding struct {
	Property    string `json:"property"`
	Key         string `json:"key"`
	Status      string `json:"status"` // "known" | "fixed"
	Description string `json:"description"`
	Commit      string `json:"commit,omitempty"`
}

type Ctx struct {
	Prop     string
	Tier     string
	Seed     int64
	Replay   string
	VerifDir string
	Scratch  string
	Workers  int
	Thorough bool

	Ev Evidence

	mu           sync.Mutex
	findings     []Finding
	knownPrinted map[string]bool
	distinct     map[string]bool
	violKeys     map[string]bool
	start        time.Time
	infra        error
}

type Check struct {
	Level string // evidence level
	Run   func(*Ctx) error
}

// Rand returns a generator derived from the seed and a label.
func (c *Ctx) Rand(label string) *rand.Rand {
	h := int64(1469598103934665603)
	for _, b := range []byte(label) {
		h = (h ^ int64(b)) * 1099511628211
	}
	return rand.New(rand.NewSource(c.Seed*7919 + h))
}

func (c *Ctx) SpecDir(family string) string { return filepath.Join(c.VerifDir, "spec", family) }

// Distinct counts a distinct non-trivial case by key.
func (c *Ctx) Distinct(key string) {
	c.mu.Lock()
	if !c.distinct[key] {
		c.distinct[key] = true
		c.Ev.Coverage.DistinctNT++
	}
	c.mu.Unlock()
}

func (c *Ctx) AddEval(n int64) {
	c.mu.Lock()
	c.Ev.Coverage.Evaluations += n
	c.mu.Unlock()
}

func (c *Ctx) AddTraces(n int64) {
	c.mu.Lock()
	c.Ev.Coverage.TracesImpl += n
	c.mu.Unlock()
}

func (c *Ctx) AddModel(states, transitions int64) {
	c.mu.Lock()
	c.Ev.Coverage.States += states
	c.Ev.Coverage.Transitions += transitions
	c.mu.Unlock()
}

// Sample records an example case (at most 6 are kept).
func (c *Ctx) Sample(v any) {
	c.mu.Lock()
	if len(c.Ev.Coverage.Samples) < 6 {
		c.Ev.Coverage.Samples = append(c.Ev.Coverage.Samples, v)
	}
	c.mu.Unlock()
}

func (c *Ctx) SetExtra(k string, v any) {
	c.mu.Lock()
	if c.Ev.Coverage.Extra == nil {
		c.Ev.Coverage.Extra = map[string]any{}
	}
	c.Ev.Coverage.Extra[k] = v
	c.mu.Unlock()
}

func (c *Ctx) AddExtra(k string, n int64) {
	c.mu.Lock()
	if c.Ev.Coverage.Extra == nil {
		c.Ev.Coverage.Extra = map[string]any{}
	}
	cur, _ := c.Ev.Coverage.Extra[k].(int64)
	c.Ev.Coverage.Extra[k] = cur + n
	c.mu.Unlock()
}

func (c *Ctx) Assume(s string) {
	c.mu.Lock()
	for _, a := range c.Ev.Assumptions {
		if a == s {
			c.mu.Unlock()
			return
		}
	}
	c.Ev.Assumptions = append(c.Ev.Assumptions, s)
	c.mu.Unlock()
}

// Violation reports a real-code outcome the property forbids. key classifies
// the failing shape (history / call site / input class); when
// known-findings.json lists (property, key) with status "known" the line
// KNOWN-FINDING is printed instead (once per key) and the run still exits 0.
// replay is written to out/replays and named in the VIOLATION line.
func (c *Ctx) Violation(key, what string, replay any) {
	c.mu.Lock()
	defer c.mu.Unlock()
	for _, f := range c.findings {
		if f.Property == c.Prop && f.Status == "known" && f.Key == key {
			if !c.knownPrinted[key] {
				c.knownPrinted[key] = true
				fmt.Printf("KNOWN-FINDING: property=%s %s [%s]\n", c.Prop, f.Description, key)
			}
			return
		}
	}
	if c.violKeys[key] && c.Ev.Violations >= 20 {
		c.Ev.Violations++
		return
	}
	c.violKeys[key] = true
	c.Ev.Violations++
	dir := filepath.Join(c.VerifDir, "out", "replays")
	os.MkdirAll(dir, 0o755)
	path := filepath.Join(dir, fmt.Sprintf("%s-%s-%d-%d.json", c.Prop, c.Tier, c.Seed, c.Ev.Violations))
	b, _ := json.MarshalIndent(map[string]any{"property": c.Prop, "key": key, "what": what, "seed": c.Seed, "tier": c.Tier, "replay": replay}, "", " ")
	os.WriteFile(path, b, 0o644)
	fmt.Printf("VIOLATION property=%s replay=%s\n", c.Prop, path)
	fmt.Printf("  key=%s: %s\n", key, what)
}

// KnownKeys returns the keys listed as known for this property.
func (c *Ctx) KnownKeys() map[string]bool {
	m := map[string]bool{}
	for _, f := range c.findings {
		if f.Property == c.Prop && f.Status == "known" {
			m[f.Key] = true
		}
	}
	return m
}

func (c *Ctx) Violations() int {
	c.mu.Lock()
	defer c.mu.Unlock()
	return c.Ev.Violations
}

func (c *Ctx) Logf(f string, a ...any) {
	fmt.Fprintf(os.Stderr, "[%s %s %6.1fs] %s\n", c.Prop, c.Tier, time.Since(c.start).Seconds(), fmt.Sprintf(f, a...))
}

// Parallel runs fn(i) for i in [0,n) on Workers goroutines.
func (c *Ctx) Parallel(n int, fn func(i int)) {
	w := c.Workers
	if w > n {
		w = n
	}
	if w < 1 {
		w = 1
	}
	var wg sync.WaitGroup
	ch := make(chan int, 64)
	for k := 0; k < w; k++ {
		wg.Add(1)
		go func() {
			defer wg.Done()
			for i := range ch {
				fn(i)
			}
		}()
	}
	for i := 0; i < n; i++ {
		ch <- i
	}
	close(ch)
	wg.Wait()
}

func verifDir() string {
	if d := os.Getenv("VERIF_DIR"); d != "" {
		return d
	}
	return "/verif"
}

// Main dispatches "<prop> [--tier quick|thorough] [--replay path]".
func Main(checks map[string]Check) {
	if len(os.Args) < 2 {
		ids := make([]string, 0, len(checks))
		for id := range checks {
			ids = append(ids, id)
		}
		sort.Strings(ids)
		fmt.Fprintf(os.Stderr, "usage: %s <%s> [--tier quick|thorough] [--replay path]\n", os.Args[0], strings.Join(ids, "|"))
		os.Exit(2)
	}
	prop := os.Args[1]
	fs := flag.NewFlagSet(prop, flag.ExitOnError)
	tier := fs.String("tier", os.Getenv("VERIF_TIER"), "quick|thorough")
	replay := fs.String("replay", "", "replay file")
	workers := fs.Int("workers", 0, "parallelism")
	fs.Parse(os.Args[2:])
	if *tier == "" {
		*tier = "quick"
	}
	chk, ok := checks[prop]
	if !ok {
		fmt.Fprintf(os.Stderr, "unknown property %s\n", prop)
		os.Exit(2)
	}
	seed := int64(1)
	if s := os.Getenv("VERIF_SEED"); s != "" {
		if v, err := strconv.ParseInt(s, 10, 64); err == nil {
			seed = v
		}
	}
	if *workers == 0 {
		*workers = runtime.NumCPU()
	}
	scratch, err := os.MkdirTemp("", "verif-"+prop+"-")
	if err != nil {
		fmt.Fprintln(os.Stderr, err)
		os.Exit(2)
	}
	c := &Ctx{Prop: prop, Tier: *tier, Seed: seed, Replay: *replay, VerifDir: verifDir(), Scratch: scratch,
		Workers: *workers, Thorough: *tier == "thorough", start: time.Now(),
		knownPrinted: map[string]bool{}, distinct: map[string]bool{}, violKeys: map[string]bool{}}
	c.Ev = Evidence{PropertyID: prop, Tier: *tier, Seed: seed, Level: chk.Level, Assumptions: []string{}}
	c.Ev.Coverage.Samples = []any{}
	if b, err := os.ReadFile(filepath.Join(c.VerifDir, "known-findings.json")); err == nil {
		var kf struct {
			Findings []Finding `json:"findings"`
		}
		if err := json.Unmarshal(b, &kf); err != nil {
			fmt.Fprintf(os.Stderr, "known-findings.json: %v\n", err)
			os.RemoveAll(scratch)
			os.Exit(2)
		}
		c.findings = kf.Findings
	}
	code := 0
	// Hard watchdog: a check that does not come back (a hang in the code under
	// test that no per-case timeout caught, or a stuck tool) ends as an
	// infrastructure failure instead of blocking its caller for ever.  A hang
	// is never turned into a verdict here: engines that can attribute one to
	// a replayed case report it themselves, with the replay.
	limit := 90 * time.Minute
	if *tier == "thorough" {
		limit = 6 * time.Hour
	}
	if v, err := strconv.Atoi(os.Getenv("VERIF_WATCHDOG_MIN")); err == nil && v > 0 {
		limit = time.Duration(v) * time.Minute
	}
	go func() {
		time.Sleep(limit)
		fmt.Fprintf(os.Stderr, "INFRASTRUCTURE FAILURE (%s): no result after %v (watchdog)\n", prop, limit)
		fmt.Printf("RESULT property=%s tier=%s seed=%d violations=%d wall=%.1fs exit=2\n", prop, *tier, seed, c.Ev.Violations, time.Since(c.start).Seconds())
		os.RemoveAll(scratch)
		os.Exit(2)
	}()
	func() {
		defer func() {
			if r := recover(); r != nil {
				buf := make([]byte, 1<<16)
				n := runtime.Stack(buf, false)
				c.infra = fmt.Errorf("panic in harness: %v\n%s", r, buf[:n])
			}
		}()
		if err := chk.Run(c); err != nil {
			c.infra = err
		}
	}()
	os.RemoveAll(scratch)
	c.Ev.WallS = time.Since(c.start).Seconds()
	if c.infra != nil {
		fmt.Fprintf(os.Stderr, "INFRASTRUCTURE FAILURE (%s): %v\n", prop, c.infra)
		code = 2
	}
	if c.Ev.Violations > 0 {
		code = 1
	}
	if code != 2 && c.Replay == "" {
		if err := c.writeEvidence(); err != nil {
			fmt.Fprintf(os.Stderr, "evidence: %v\n", err)
			code = 2
		}
	}
	fmt.Printf("RESULT property=%s tier=%s seed=%d violations=%d states=%d transitions=%d traces=%d evals=%d distinct=%d wall=%.1fs exit=%d\n",
		prop, c.Tier, seed, c.Ev.Violations, c.Ev.Coverage.States, c.Ev.Coverage.Transitions, c.Ev.Coverage.TracesImpl,
		c.Ev.Coverage.Evaluations, c.Ev.Coverage.DistinctNT, c.Ev.WallS, code)
	os.Exit(code)
}

func (c *Ctx) writeEvidence() error {
	dir := filepath.Join(c.VerifDir, "evidence")
	if err := os.MkdirAll(dir, 0o755); err != nil {
		return err
	}
	b, err := json.MarshalIndent(c.Ev, "", " ")
	if err != nil {
		return err
	}
	return os.WriteFile(filepath.Join(dir, c.Prop+".json"), append(b, '\n'), 0o644)
}
