package wireh

import (
	"bufio"
	"bytes"
	"encoding/json"
	"fmt"
	"strings"
	"sync"
	"time"

	"github.com/btcsuite/btcd/btcutil/v2"
	"github.com/btcsuite/btcd/chainhash/v2"
	"github.com/btcsuite/btcd/wire/v2"

	"verif/harness/internal/tlc"
	"verif/harness/internal/vrun"
)

// Accessor-order cases of WireBlockApi.tla: every call sequence TLC enumerates
// is replayed into a fresh btcutil.Block; every return value, and after the last
// call everything the API can show, is compared with the specification's table
// for the block (token strings rendered by this binder; identifiers are the
// double SHA-256 of the preimage tokens the table names).

type apiOp struct {
	Op string `json:"op"`
	I  int    `json:"i"`
}

type apiSeq struct {
	ctor  string
	blk   string
	calls []apiOp
}

type apiTx struct {
	Txid   []Tok `json:"txid"`
	Wtxid  []Tok `json:"wtxid"`
	HasWit bool  `json:"haswit"`
	Start  int   `json:"start"`
	Len    int   `json:"len"`
}

type apiTruth struct {
	Name     string          `json:"name"`
	N        int             `json:"n"`
	Value    json.RawMessage `json:"value"`
	Full     []Tok           `json:"full"`
	Stripped []Tok           `json:"stripped"`
	Header   []Tok           `json:"header"`
	Txs      []apiTx         `json:"txs"`
}

// apiBlock is the rendered truth of one block.
type apiBlock struct {
	truth    apiTruth
	msg      *wire.MsgBlock
	full     []byte
	stripped []byte
	hash     chainhash.Hash
	txid     []chainhash.Hash
	wtxid    []chainhash.Hash
}

func unquoteEmitted(l string) string {
	l = l[1 : len(l)-1]
	l = strings.ReplaceAll(l, `\"`, `"`)
	return strings.ReplaceAll(l, `\\`, `\`)
}

func parseBlockApi(output string) ([]apiSeq, map[string]apiTruth, []string, error) {
	var seqs []apiSeq
	truths := map[string]apiTruth{}
	var huge []string
	sc := bufio.NewScanner(strings.NewReader(output))
	sc.Buffer(make([]byte, 1<<20), 1<<28)
	for sc.Scan() {
		l := sc.Text()
		switch {
		case strings.HasPrefix(l, `"[\"SEQ\",`) && strings.HasSuffix(l, `"`):
			var parts []json.RawMessage
			if err := json.Unmarshal([]byte(unquoteEmitted(l)), &parts); err != nil || len(parts) != 4 {
				return nil, nil, nil, fmt.Errorf("SEQ line: %v", err)
			}
			var s apiSeq
			if err := json.Unmarshal(parts[1], &s.ctor); err != nil {
				return nil, nil, nil, err
			}
			if err := json.Unmarshal(parts[2], &s.blk); err != nil {
				return nil, nil, nil, err
			}
			if err := json.Unmarshal(parts[3], &s.calls); err != nil {
				return nil, nil, nil, err
			}
			seqs = append(seqs, s)
		case strings.HasPrefix(l, `"[\"BLOCK\",`) && strings.HasSuffix(l, `"`):
			var parts []json.RawMessage
			if err := json.Unmarshal([]byte(unquoteEmitted(l)), &parts); err != nil || len(parts) != 3 {
				return nil, nil, nil, fmt.Errorf("BLOCK line: %v", err)
			}
			var t apiTruth
			if err := json.Unmarshal(parts[1], &t); err != nil {
				return nil, nil, nil, err
			}
			if err := json.Unmarshal(parts[2], &huge); err != nil {
				return nil, nil, nil, err
			}
			truths[t.Name] = t
		}
	}
	return seqs, truths, huge, sc.Err()
}

func renderApiBlock(g *gen, t apiTruth) (*apiBlock, error) {
	ab := &apiBlock{truth: t}
	var err error
	if ab.full, _, err = renderTokens(g, t.Full, nil, 4096); err != nil {
		return nil, err
	}
	if ab.stripped, _, err = renderTokens(g, t.Stripped, nil, 4096); err != nil {
		return nil, err
	}
	names := map[string]bool{}
	collectNames(t.Full, names)
	b := &builder{g: g, names: names}
	m, err := b.build("block", t.Value)
	if err != nil {
		return nil, err
	}
	ab.msg = m.(*wire.MsgBlock)
	hl := tokSize(t.Header)
	if hl > len(ab.full) || len(t.Txs) != t.N || len(ab.msg.Transactions) != t.N {
		return nil, fmt.Errorf("block table %s inconsistent", t.Name)
	}
	ab.hash = chainhash.Hash(sha256d(ab.full[:hl]))
	for i, tx := range t.Txs {
		pre, _, err1 := renderTokens(g, tx.Txid, []int{i}, 512)
		fullTx, _, err2 := renderTokens(g, tx.Wtxid, []int{i}, 512)
		if err1 != nil || err2 != nil {
			return nil, fmt.Errorf("tx %d preimages: %v %v", i, err1, err2)
		}
		ab.txid = append(ab.txid, chainhash.Hash(sha256d(pre)))
		ab.wtxid = append(ab.wtxid, chainhash.Hash(sha256d(fullTx)))
	}
	return ab, nil
}

type apiViolation struct {
	key, what string
	replay    any
}

func callsString(cs []apiOp) string {
	var sb strings.Builder
	for i, c := range cs {
		if i > 0 {
			sb.WriteString(", ")
		}
		if c.I >= 0 {
			fmt.Fprintf(&sb, "%s(%d)", c.Op, c.I)
		} else {
			sb.WriteString(c.Op + "()")
		}
	}
	return sb.String()
}

// replaySeq runs one call sequence on a fresh block; evals counts comparisons.
func replaySeq(ab *apiBlock, s apiSeq) (evals int64, out []apiViolation) {
	where := fmt.Sprintf("%s(%s); %s", s.ctor, s.blk, callsString(s.calls))
	report := func(key, what string) {
		out = append(out, apiViolation{key: "accessor-order:" + key, what: where + ": " + what,
			replay: map[string]any{"constructor": s.ctor, "block": s.blk, "calls": s.calls, "block_hex": hexHead(ab.full)}})
	}
	defer func() {
		if r := recover(); r != nil {
			report("panic", fmt.Sprintf("panic: %v", r))
		}
	}()
	// fresh message and bytes: the block may keep references
	msg := ab.msg.Copy()
	raw := append([]byte(nil), ab.full...)
	var blk *btcutil.Block
	switch s.ctor {
	case "NewBlock":
		blk = btcutil.NewBlock(msg)
	case "NewBlockFromBytes":
		var err error
		if blk, err = btcutil.NewBlockFromBytes(raw); err != nil {
			report("constructor", "NewBlockFromBytes: "+err.Error())
			return
		}
	case "NewBlockFromBlockAndBytes":
		blk = btcutil.NewBlockFromBlockAndBytes(msg, raw)
	default:
		report("constructor", "unknown constructor")
		return
	}
	n := ab.truth.N
	checkBytes := func(step string) {
		evals++
		if b, err := blk.Bytes(); err != nil || !bytes.Equal(b, ab.full) {
			report("bytes", fmt.Sprintf("%s: Bytes() is not the serialization of the block (err=%v, %s)", step, err, firstDiff(ab.full, b)))
		}
	}
	checkStripped := func(step string) {
		evals++
		if b, err := blk.BytesNoWitness(); err != nil || !bytes.Equal(b, ab.stripped) {
			report("bytes-no-witness", fmt.Sprintf("%s: BytesNoWitness() is not the stripped serialization (err=%v, %s)", step, err, firstDiff(ab.stripped, b)))
		}
	}
	checkHash := func(step string) {
		evals++
		if h := blk.Hash(); *h != ab.hash {
			report("blockhash", fmt.Sprintf("%s: Hash() = %s, specification %s", step, h, ab.hash))
		}
	}
	checkTxLoc := func(step string) {
		evals++
		locs, err := blk.TxLoc()
		if err != nil || len(locs) != n {
			report("txloc", fmt.Sprintf("%s: TxLoc() err=%v, %d entries", step, err, len(locs)))
			return
		}
		for i, l := range locs {
			if l.TxStart != ab.truth.Txs[i].Start || l.TxLen != ab.truth.Txs[i].Len {
				report("txloc", fmt.Sprintf("%s: TxLoc()[%d] = (%d,%d), specification (%d,%d)", step, i, l.TxStart, l.TxLen, ab.truth.Txs[i].Start, ab.truth.Txs[i].Len))
			}
		}
	}
	checkTx := func(step string, i int, tx *btcutil.Tx) {
		evals++
		if tx == nil || tx.Index() != i {
			report("tx", fmt.Sprintf("%s: wrapper of transaction %d missing or with another index", step, i))
			return
		}
		if ok, why := sameValue(tx.MsgTx(), ab.msg.Transactions[i]); !ok {
			report("tx", fmt.Sprintf("%s: transaction %d differs from the block's at %s", step, i, why))
		}
	}
	for k, c := range s.calls {
		step := fmt.Sprintf("call %d %s", k+1, c.Op)
		switch c.Op {
		case "Bytes":
			checkBytes(step)
		case "BytesNoWitness":
			checkStripped(step)
		case "Hash":
			checkHash(step)
		case "TxLoc":
			checkTxLoc(step)
		case "Transactions":
			txs := blk.Transactions()
			evals++
			if len(txs) != n {
				report("tx", fmt.Sprintf("%s: %d wrappers for %d transactions", step, len(txs), n))
				break
			}
			for i, tx := range txs {
				checkTx(step, i, tx)
			}
		case "Tx":
			tx, err := blk.Tx(c.I)
			if err != nil {
				report("tx", fmt.Sprintf("%s: %v", step, err))
				break
			}
			checkTx(step, c.I, tx)
		case "TxHash":
			evals++
			h, err := blk.TxHash(c.I)
			if err != nil || *h != ab.txid[c.I] {
				report("tx-identifiers", fmt.Sprintf("%s: TxHash(%d) = %v (err=%v), double SHA-256 of the specification's txid preimage = %s", step, c.I, h, err, ab.txid[c.I]))
			}
		default:
			report("constructor", "unknown call "+c.Op)
			return
		}
	}
	// everything the API can show, after the sequence
	txs := blk.Transactions()
	if len(txs) != n {
		report("tx", fmt.Sprintf("afterwards: %d wrappers for %d transactions", len(txs), n))
		return
	}
	for i, tx := range txs {
		checkTx("afterwards", i, tx)
		evals += 4
		if *tx.Hash() != ab.txid[i] {
			report("tx-identifiers", fmt.Sprintf("afterwards: Transactions()[%d].Hash() = %s, double SHA-256 of the specification's txid preimage = %s", i, tx.Hash(), ab.txid[i]))
		}
		if *tx.WitnessHash() != ab.wtxid[i] {
			report("tx-identifiers", fmt.Sprintf("afterwards: Transactions()[%d].WitnessHash() = %s, double SHA-256 of the specification's wtxid preimage = %s", i, tx.WitnessHash(), ab.wtxid[i]))
		}
		if tx.HasWitness() != ab.truth.Txs[i].HasWit {
			report("tx-identifiers", fmt.Sprintf("afterwards: Transactions()[%d].HasWitness() = %v", i, tx.HasWitness()))
		}
		if t2, err := blk.Tx(i); err != nil || t2 != tx {
			report("tx", fmt.Sprintf("afterwards: Tx(%d) is not the wrapper Transactions() returned (err=%v)", i, err))
		}
		if h, err := blk.TxHash(i); err != nil || *h != ab.txid[i] {
			report("tx-identifiers", fmt.Sprintf("afterwards: TxHash(%d) = %v (err=%v), specification %s", i, h, err, ab.txid[i]))
		}
	}
	checkBytes("afterwards")
	checkStripped("afterwards")
	checkHash("afterwards")
	checkTxLoc("afterwards")
	evals++
	if hs, err := blk.MsgBlock().TxHashes(); err != nil || len(hs) != n {
		report("txhashes", fmt.Sprintf("afterwards: MsgBlock().TxHashes() err=%v, %d entries", err, len(hs)))
	} else {
		for i := range hs {
			if hs[i] != ab.txid[i] {
				report("txhashes", fmt.Sprintf("afterwards: MsgBlock().TxHashes()[%d] = %s, specification %s", i, hs[i], ab.txid[i]))
			}
		}
	}
	if ok, why := sameValue(blk.MsgBlock(), ab.msg); !ok {
		report("tx", "afterwards: MsgBlock() differs from the block at "+why)
	}
	return
}

// runBlockApi is the accessor-order part of the C08 check.
func runBlockApi(c *vrun.Ctx, thorough bool) error {
	cfg := "WireBlockApi_quick.cfg"
	if thorough {
		cfg = "WireBlockApi_thorough.cfg"
	}
	res, err := tlc.Run(tlc.Opts{SpecDir: c.SpecDir("wire"), Module: "WireBlockApi", Config: cfg, Workers: 2,
		Timeout: 15 * time.Minute, Scratch: c.Scratch, HeapGB: 4})
	if err != nil {
		return err
	}
	if !res.OK {
		return fmt.Errorf("WireBlockApi.tla: TLC reports %s %s on the specification itself (not a verdict about btcd)", res.ErrKind, res.ErrName)
	}
	seqs, truths, hugeHex, err := parseBlockApi(res.Output)
	if err != nil {
		return err
	}
	c.Logf("WireBlockApi.tla: %d distinct states, %d generated, %.1fs", res.Distinct, res.Generated, res.WallS)
	if int64(len(seqs)) != res.Distinct {
		return fmt.Errorf("WireBlockApi.tla: %d sequences emitted, TLC reports %d distinct states", len(seqs), res.Distinct)
	}
	c.AddModel(res.Distinct, res.Generated)
	res.Output = ""
	huge, err := parseHuge(hugeHex)
	if err != nil {
		return err
	}
	blocks := map[string]*apiBlock{}
	for name, t := range truths {
		g := &gen{seed: uint64(c.Seed)*1000003 + 17, huge: huge}
		g.seed = g.key("blockapi|"+name, nil)
		ab, err := renderApiBlock(g, t)
		if err != nil {
			return fmt.Errorf("block %s: %w", name, err)
		}
		if t.N < 3 {
			return fmt.Errorf("block %s has %d transactions", name, t.N)
		}
		blocks[name] = ab
	}
	// vacuity: every operation, constructor and block occurs; sequences reach the stated length
	seen := map[string]int{}
	maxLen := 0
	for _, s := range seqs {
		if blocks[s.blk] == nil {
			return fmt.Errorf("sequence for unknown block %s", s.blk)
		}
		seen["ctor/"+s.ctor]++
		seen["block/"+s.blk]++
		for _, op := range s.calls {
			seen["op/"+op.Op]++
		}
		if len(s.calls) > maxLen {
			maxLen = len(s.calls)
		}
	}
	for _, k := range []string{"ctor/NewBlock", "ctor/NewBlockFromBytes", "ctor/NewBlockFromBlockAndBytes", "op/Bytes", "op/BytesNoWitness",
		"op/Tx", "op/Transactions", "op/TxLoc", "op/TxHash", "op/Hash"} {
		if seen[k] == 0 {
			return fmt.Errorf("WireBlockApi.tla: never produced: %s", k)
		}
	}
	if maxLen < 4 || len(blocks) < 2 {
		return fmt.Errorf("WireBlockApi.tla: sequences of length %d over %d blocks only", maxLen, len(blocks))
	}
	t0 := time.Now()
	var mu sync.Mutex
	var evals int64
	var viols []apiViolation
	c.Parallel(len(seqs), func(i int) {
		n, vs := replaySeq(blocks[seqs[i].blk], seqs[i])
		mu.Lock()
		evals += n
		if len(viols) < 400 {
			viols = append(viols, vs...)
		}
		mu.Unlock()
	})
	for _, s := range seqs {
		c.Distinct("blockapi|" + s.ctor + "|" + s.blk + "|" + callsString(s.calls))
	}
	for _, v := range viols {
		c.Violation(v.key, v.what, v.replay)
	}
	c.AddTraces(int64(len(seqs)))
	c.AddEval(evals)
	c.SetExtra("block_accessor_sequences", len(seqs))
	c.SetExtra("block_accessor_classes", seen)
	if len(seqs) > 100 {
		s := seqs[len(seqs)/2]
		c.Sample(map[string]any{"case": "btcutil.Block accessor order", "constructor": s.ctor, "block": s.blk, "calls": callsString(s.calls)})
	}
	c.Logf("block accessor orders: %d call sequences (length <= %d, %d blocks, 3 constructors), %d comparisons, %.1fs", len(seqs), maxLen, len(blocks), evals, time.Since(t0).Seconds())
	return nil
}
