package wireh

import (
	"encoding/json"
	"fmt"
	"net"
	"time"

	"github.com/btcsuite/btcd/chainhash/v2"
	"github.com/btcsuite/btcd/wire/v2"
)

// The builders turn a model value of the specification into the wire.Message
// it stands for.  They know field NAMES (the same names the tokens carry) and
// Go struct fields, nothing about order, widths on the wire, presence per
// protocol version or limits: a field that the layout of the case does not
// name keeps its zero value.

type run struct {
	N int             `json:"n"`
	E json.RawMessage `json:"e"`
}

type builder struct {
	g      *gen
	names  map[string]bool   // field names of the layout
	consts map[string][]byte // rendered const tokens (wantedConst)
}

func (b *builder) has(name string) bool { return b.names[name] }

func (b *builder) u64(name string, idx []int) uint64 {
	if !b.names[name] {
		return 0
	}
	return b.g.U64(name, idx)
}
func (b *builder) u32(name string, idx []int) uint32 { return uint32(b.u64(name, idx)) }
func (b *builder) u16(name string, idx []int) uint16 { return uint16(b.u64(name, idx)) }
func (b *builder) u8(name string, idx []int) uint8   { return uint8(b.u64(name, idx)) }
func (b *builder) hash(name string, idx []int) chainhash.Hash {
	var h chainhash.Hash
	if b.names[name] {
		b.g.fill(h[:], name, idx)
	}
	return h
}
func (b *builder) bytes(name string, idx []int, n int) []byte {
	if n == 0 {
		return []byte{}
	}
	return b.g.Bytes(name, idx, n)
}

// time32 is a timestamp carried as 32 bit seconds.
func (b *builder) time32(name string, idx []int) time.Time {
	if !b.names[name] {
		return time.Time{}
	}
	return time.Unix(int64(b.u32(name, idx)), 0)
}

func runsOf(raw json.RawMessage) ([]run, error) {
	var rs []run
	if len(raw) == 0 {
		return nil, nil
	}
	if err := json.Unmarshal(raw, &rs); err != nil {
		return nil, fmt.Errorf("runs: %w (%.80s)", err, raw)
	}
	return rs, nil
}

func runsLen(rs []run) int {
	n := 0
	for _, r := range rs {
		n += r.N
	}
	return n
}

// field f of a grammar-message value (a JSON object, or [] for the empty function)
func mField(m json.RawMessage, f string) (json.RawMessage, error) {
	if len(m) > 0 && m[0] == '[' {
		return nil, nil
	}
	var o map[string]json.RawMessage
	if err := json.Unmarshal(m, &o); err != nil {
		return nil, fmt.Errorf("value: %w (%.80s)", err, m)
	}
	return o[f], nil
}

func mListLen(m json.RawMessage, f string) (int, error) {
	raw, err := mField(m, f)
	if err != nil {
		return 0, err
	}
	rs, err := runsOf(raw)
	if err != nil {
		return 0, err
	}
	return runsLen(rs), nil
}

func mInt(m json.RawMessage, f string) (int64, error) {
	raw, err := mField(m, f)
	if err != nil {
		return 0, err
	}
	var v int64
	if err := json.Unmarshal(raw, &v); err != nil {
		return 0, fmt.Errorf("field %s: %w", f, err)
	}
	return v, nil
}

func with(idx []int, i int) []int {
	out := make([]int, len(idx)+1)
	copy(out, idx)
	out[len(idx)] = i
	return out
}

func (b *builder) header(idx []int) wire.BlockHeader {
	return wire.BlockHeader{
		Version:    int32(b.u32("h.version", idx)),
		PrevBlock:  b.hash("h.prev", idx),
		MerkleRoot: b.hash("h.merkle", idx),
		Timestamp:  b.time32("h.time", idx),
		Bits:       b.u32("h.bits", idx),
		Nonce:      b.u32("h.nonce", idx),
	}
}

type txInV struct {
	SS  int   `json:"ss"`
	Wit []run `json:"wit"`
}
type txOutV struct {
	PK int `json:"pk"`
}
type witItemV struct {
	L int `json:"l"`
}
type txV struct {
	Ins  []run `json:"ins"`
	Outs []run `json:"outs"`
}

func (b *builder) tx(raw json.RawMessage, idx []int) (*wire.MsgTx, error) {
	var v txV
	if err := json.Unmarshal(raw, &v); err != nil {
		return nil, fmt.Errorf("tx value: %w", err)
	}
	tx := &wire.MsgTx{Version: int32(b.u32("version", idx)), LockTime: b.u32("locktime", idx)}
	nin, nout := runsLen(v.Ins), runsLen(v.Outs)
	ins := make([]wire.TxIn, nin)
	tx.TxIn = make([]*wire.TxIn, nin)
	j := 0
	for _, r := range v.Ins {
		var e txInV
		if err := json.Unmarshal(r.E, &e); err != nil {
			return nil, fmt.Errorf("tx input: %w", err)
		}
		nw := runsLen(e.Wit)
		var items []witItemV
		for _, wr := range e.Wit {
			var it witItemV
			if err := json.Unmarshal(wr.E, &it); err != nil {
				return nil, fmt.Errorf("witness item: %w", err)
			}
			for k := 0; k < wr.N; k++ {
				items = append(items, it)
			}
		}
		for c := 0; c < r.N; c++ {
			ix := with(idx, j)
			ti := &ins[j]
			ti.PreviousOutPoint.Hash = b.hash("in.hash", ix)
			ti.PreviousOutPoint.Index = b.u32("in.index", ix)
			ti.SignatureScript = b.bytes("in.ss", ix, e.SS)
			ti.Sequence = b.u32("in.seq", ix)
			if nw > 0 {
				ti.Witness = make(wire.TxWitness, nw)
				for k := range items {
					ti.Witness[k] = b.bytes("wi.data", with(ix, k), items[k].L)
				}
			}
			tx.TxIn[j] = ti
			j++
		}
	}
	outs := make([]wire.TxOut, nout)
	tx.TxOut = make([]*wire.TxOut, nout)
	j = 0
	for _, r := range v.Outs {
		var e txOutV
		if err := json.Unmarshal(r.E, &e); err != nil {
			return nil, fmt.Errorf("tx output: %w", err)
		}
		for c := 0; c < r.N; c++ {
			ix := with(idx, j)
			to := &outs[j]
			to.Value = int64(b.u64("out.value", ix))
			to.PkScript = b.bytes("out.pk", ix, e.PK)
			tx.TxOut[j] = to
			j++
		}
	}
	return tx, nil
}

type blockV struct {
	Txs []run `json:"txs"`
}

func (b *builder) block(raw json.RawMessage) (*wire.MsgBlock, error) {
	var v blockV
	if err := json.Unmarshal(raw, &v); err != nil {
		return nil, fmt.Errorf("block value: %w", err)
	}
	blk := &wire.MsgBlock{Header: b.header(nil)}
	blk.Transactions = make([]*wire.MsgTx, 0, runsLen(v.Txs))
	i := 0
	for _, r := range v.Txs {
		for c := 0; c < r.N; c++ {
			tx, err := b.tx(r.E, []int{i})
			if err != nil {
				return nil, err
			}
			blk.Transactions = append(blk.Transactions, tx)
			i++
		}
	}
	return blk, nil
}

type versionV struct {
	Stage int   `json:"stage"`
	UA    int   `json:"ua"`
	Relay int64 `json:"relay"`
}

func (b *builder) netAddrNoTime(p string) wire.NetAddress {
	if !b.has(p + ".services") {
		return wire.NetAddress{}
	}
	return wire.NetAddress{
		Services: wire.ServiceFlag(b.u64(p+".services", nil)),
		IP:       net.IP(b.bytes(p+".ip", nil, 16)),
		Port:     b.u16(p+".port", nil),
	}
}

type rejectV struct {
	Cmd    []int `json:"cmd"`
	Reason int   `json:"reason"`
}
type filterLoadV struct {
	Filter int   `json:"filter"`
	HF     int64 `json:"hf"`
}
type a2V struct {
	Svc  int64  `json:"svc"`
	Net  int    `json:"net"`
	ALen int64  `json:"alen"`
	V6   string `json:"v6"`
	Skip bool   `json:"skip"`
}
type addrV2V struct {
	Addrs []run `json:"addrs"`
}

// build returns the message for the model value m of the given type.
func (b *builder) build(typ string, m json.RawMessage) (wire.Message, error) {
	switch typ {
	case "verack":
		return &wire.MsgVerAck{}, nil
	case "getaddr":
		return &wire.MsgGetAddr{}, nil
	case "mempool":
		return &wire.MsgMemPool{}, nil
	case "filterclear":
		return &wire.MsgFilterClear{}, nil
	case "sendheaders":
		return &wire.MsgSendHeaders{}, nil
	case "sendaddrv2":
		return &wire.MsgSendAddrV2{}, nil
	case "wtxidrelay":
		return &wire.MsgWTxIdRelay{}, nil
	case "ping":
		return &wire.MsgPing{Nonce: b.u64("nonce", nil)}, nil
	case "pong":
		return &wire.MsgPong{Nonce: b.u64("nonce", nil)}, nil
	case "feefilter":
		return &wire.MsgFeeFilter{MinFee: int64(b.u64("minfee", nil))}, nil
	case "getcfilters":
		return &wire.MsgGetCFilters{FilterType: wire.FilterType(b.u8("ftype", nil)), StartHeight: b.u32("start", nil), StopHash: b.hash("stop", nil)}, nil
	case "getcfheaders":
		return &wire.MsgGetCFHeaders{FilterType: wire.FilterType(b.u8("ftype", nil)), StartHeight: b.u32("start", nil), StopHash: b.hash("stop", nil)}, nil
	case "getcfcheckpt":
		return &wire.MsgGetCFCheckpt{FilterType: wire.FilterType(b.u8("ftype", nil)), StopHash: b.hash("stop", nil)}, nil
	case "inv", "getdata", "notfound":
		n, err := mListLen(m, "inv")
		if err != nil {
			return nil, err
		}
		ivs := make([]wire.InvVect, n)
		list := make([]*wire.InvVect, n)
		for i := range ivs {
			ix := []int{i}
			ivs[i] = wire.InvVect{Type: wire.InvType(b.u32("inv.type", ix)), Hash: b.hash("inv.hash", ix)}
			list[i] = &ivs[i]
		}
		switch typ {
		case "inv":
			return &wire.MsgInv{InvList: list}, nil
		case "getdata":
			return &wire.MsgGetData{InvList: list}, nil
		}
		return &wire.MsgNotFound{InvList: list}, nil
	case "getblocks", "getheaders":
		n, err := mListLen(m, "loc")
		if err != nil {
			return nil, err
		}
		hs := make([]chainhash.Hash, n)
		list := make([]*chainhash.Hash, n)
		for i := range hs {
			hs[i] = b.hash("loc.hash", []int{i})
			list[i] = &hs[i]
		}
		if typ == "getblocks" {
			return &wire.MsgGetBlocks{ProtocolVersion: b.u32("pver", nil), BlockLocatorHashes: list, HashStop: b.hash("stop", nil)}, nil
		}
		return &wire.MsgGetHeaders{ProtocolVersion: b.u32("pver", nil), BlockLocatorHashes: list, HashStop: b.hash("stop", nil)}, nil
	case "headers":
		n, err := mListLen(m, "hdr")
		if err != nil {
			return nil, err
		}
		hs := make([]wire.BlockHeader, n)
		list := make([]*wire.BlockHeader, n)
		for i := range hs {
			hs[i] = b.header([]int{i})
			list[i] = &hs[i]
		}
		return &wire.MsgHeaders{Headers: list}, nil
	case "addr":
		n, err := mListLen(m, "addr")
		if err != nil {
			return nil, err
		}
		as := make([]wire.NetAddress, n)
		list := make([]*wire.NetAddress, n)
		for i := range as {
			ix := []int{i}
			as[i] = wire.NetAddress{Timestamp: b.time32("addr.time", ix), Services: wire.ServiceFlag(b.u64("addr.services", ix)),
				IP: net.IP(b.bytes("addr.ip", ix, 16)), Port: b.u16("addr.port", ix)}
			list[i] = &as[i]
		}
		return &wire.MsgAddr{AddrList: list}, nil
	case "cfheaders", "cfcheckpt":
		n, err := mListLen(m, "fh")
		if err != nil {
			return nil, err
		}
		hs := make([]chainhash.Hash, n)
		list := make([]*chainhash.Hash, n)
		for i := range hs {
			hs[i] = b.hash("fh.hash", []int{i})
			list[i] = &hs[i]
		}
		if typ == "cfheaders" {
			return &wire.MsgCFHeaders{FilterType: wire.FilterType(b.u8("ftype", nil)), StopHash: b.hash("stop", nil),
				PrevFilterHeader: b.hash("prev", nil), FilterHashes: list}, nil
		}
		return &wire.MsgCFCheckpt{FilterType: wire.FilterType(b.u8("ftype", nil)), StopHash: b.hash("stop", nil), FilterHeaders: list}, nil
	case "merkleblock":
		n, err := mListLen(m, "mh")
		if err != nil {
			return nil, err
		}
		fl, err := mInt(m, "flags")
		if err != nil {
			return nil, err
		}
		hs := make([]chainhash.Hash, n)
		list := make([]*chainhash.Hash, n)
		for i := range hs {
			hs[i] = b.hash("mh.hash", []int{i})
			list[i] = &hs[i]
		}
		return &wire.MsgMerkleBlock{Header: b.header(nil), Transactions: b.u32("txs", nil), Hashes: list, Flags: b.bytes("flags", nil, int(fl))}, nil
	case "filteradd":
		n, err := mInt(m, "data")
		if err != nil {
			return nil, err
		}
		return &wire.MsgFilterAdd{Data: b.bytes("data", nil, int(n))}, nil
	case "cfilter":
		n, err := mInt(m, "data")
		if err != nil {
			return nil, err
		}
		return &wire.MsgCFilter{FilterType: wire.FilterType(b.u8("ftype", nil)), BlockHash: b.hash("block", nil), Data: b.bytes("data", nil, int(n))}, nil
	case "header":
		h := b.header(nil)
		return nil, fmt.Errorf("header is not a message: %v", h.Version)
	case "version":
		var v versionV
		if err := json.Unmarshal(m, &v); err != nil {
			return nil, fmt.Errorf("version value: %w", err)
		}
		msg := &wire.MsgVersion{
			ProtocolVersion: int32(b.u32("pver", nil)),
			Services:        wire.ServiceFlag(b.u64("services", nil)),
			Timestamp:       time.Unix(int64(b.u64("timestamp", nil)), 0),
			AddrYou:         b.netAddrNoTime("you"),
		}
		if v.Stage >= 1 {
			msg.AddrMe = b.netAddrNoTime("me")
		}
		if v.Stage >= 2 {
			msg.Nonce = b.u64("nonce", nil)
		}
		if v.Stage >= 3 {
			msg.UserAgent = string(b.bytes("ua", nil, v.UA))
		}
		if v.Stage >= 4 {
			msg.LastBlock = int32(b.u32("lastblock", nil))
		}
		if v.Stage >= 5 {
			msg.DisableRelayTx = v.Relay == 0
		}
		return msg, nil
	case "reject":
		var v rejectV
		if err := json.Unmarshal(m, &v); err != nil {
			return nil, fmt.Errorf("reject value: %w", err)
		}
		cmd := make([]byte, len(v.Cmd))
		for i, c := range v.Cmd {
			cmd[i] = byte(c)
		}
		return &wire.MsgReject{Cmd: string(cmd), Code: wire.RejectCode(b.u8("code", nil)),
			Reason: string(b.bytes("reason", nil, v.Reason)), Hash: b.hash("hash", nil)}, nil
	case "filterload":
		var v filterLoadV
		if err := json.Unmarshal(m, &v); err != nil {
			return nil, fmt.Errorf("filterload value: %w", err)
		}
		return &wire.MsgFilterLoad{Filter: b.bytes("filter", nil, v.Filter), HashFuncs: uint32(b.g.num(v.HF)),
			Tweak: b.u32("tweak", nil), Flags: wire.BloomUpdateType(b.u8("flags", nil))}, nil
	case "addrv2":
		var v addrV2V
		if err := json.Unmarshal(m, &v); err != nil {
			return nil, fmt.Errorf("addrv2 value: %w", err)
		}
		msg := &wire.MsgAddrV2{AddrList: make([]*wire.NetAddressV2, 0, runsLen(v.Addrs))}
		i := 0
		for _, r := range v.Addrs {
			var e a2V
			if err := json.Unmarshal(r.E, &e); err != nil {
				return nil, fmt.Errorf("addrv2 entry: %w", err)
			}
			for c := 0; c < r.N; c++ {
				ix := []int{i}
				i++
				if e.Skip {
					continue // a receiver ignores the entry
				}
				pfx := b.consts[idxKey("a2.pfx", ix)]
				addr := append(append([]byte(nil), pfx...), b.bytes("a2.addr", ix, int(e.ALen)-len(pfx))...)
				na := wire.NetAddressV2FromBytes(b.time32("a2.time", ix), wire.ServiceFlag(b.g.num(e.Svc)), addr, b.u16("a2.port", ix))
				msg.AddrList = append(msg.AddrList, na)
			}
		}
		return msg, nil
	case "tx":
		return b.tx(m, nil)
	case "block":
		return b.block(m)
	}
	return nil, fmt.Errorf("no builder for message type %q", typ)
}
