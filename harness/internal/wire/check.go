package wireh

import (
	"bytes"
	"crypto/sha256"
	"encoding/binary"
	"encoding/hex"
	"encoding/json"
	"errors"
	"fmt"
	"io"
	"runtime/metrics"
	"sort"

	"github.com/btcsuite/btcd/btcutil/v2"
	"github.com/btcsuite/btcd/chainhash/v2"
	"github.com/btcsuite/btcd/wire/v2"
)

// caseRec / expectRec mirror the variables case / expect of WireCases.tla.
type caseRec struct {
	Kind  string          `json:"kind"`
	API   string          `json:"api"`
	Type  string          `json:"type"`
	Pver  uint32          `json:"pver"`
	Enc   string          `json:"enc"`
	Shape string          `json:"shape"`
	M     json.RawMessage `json:"m"`
}

type variant struct {
	Cls     string          `json:"cls"`
	F       string          `json:"f"`
	At      int             `json:"at"`
	Del     int             `json:"del"`
	Ins     []Tok           `json:"ins"`
	Cut     int             `json:"cut"`
	Res     string          `json:"res"`
	Raw     string          `json:"raw"`
	Left    bool            `json:"left"`
	Canon   bool            `json:"canon"`
	Chk     bool            `json:"chk"`
	Lenient string          `json:"lenient"`
	Val     json.RawMessage `json:"val"`
	Reenc   []Tok           `json:"reenc"`
}

type frameVar struct {
	F       string `json:"f"`
	Hdr     int    `json:"hdr"`
	Len     int64  `json:"len"`
	Magic   string `json:"magic"`
	Cmd     string `json:"cmd"`
	Sum     string `json:"sum"`
	Avail   int    `json:"avail"`
	Res     string `json:"res"`
	N       int    `json:"n"`
	Reached bool   `json:"reached"`
}

type txRun struct {
	N     int   `json:"n"`
	Txid  []Tok `json:"txid"`
	Wtxid []Tok `json:"wtxid"`
}

type expectRec struct {
	Tokens     []Tok           `json:"tokens"`
	EncTokens  []Tok           `json:"enctokens"`
	Size       int             `json:"size"`
	Encodable  bool            `json:"encodable"`
	EncRes     string          `json:"encres"`
	Write      string          `json:"write"`
	MaxPayload int64           `json:"maxpayload"`
	InDomain   bool            `json:"indomain"`
	Probe      bool            `json:"probe"`
	Dec        string          `json:"dec"`
	RawDec     string          `json:"rawdec"`
	Back       json.RawMessage `json:"back"`
	Canon      bool            `json:"canon"`
	Lenient    string          `json:"lenient"`
	Reenc      []Tok           `json:"reenc"`
	Txid       []Tok           `json:"txid"`
	HasWit     bool            `json:"haswit"`
	StripSize  int             `json:"stripsize"`
	FullSize   int             `json:"fullsize"`
	TxRuns     []txRun         `json:"txruns"`
	Variants   []variant       `json:"variants"`
	Frames     []frameVar      `json:"frames"`
	V2Head     []Tok           `json:"v2head"`
	V2         []v2Frame       `json:"v2"`
}

type rootRec struct {
	Huge              []string `json:"huge"`
	AllocFactor       uint64   `json:"allocfactor"`
	MaxMessagePayload uint64   `json:"maxmessagepayload"`
	Header            []Tok    `json:"header"`
	BlockHeader       []Tok    `json:"blockheader"`
	V2Long            []Tok    `json:"v2long"`
}

// viol is one divergence of the real code from the specification.
type viol struct {
	Key    string `json:"key"`
	What   string `json:"what"`
	Replay any    `json:"replay"`
}

// caseResult is what a worker reports per case.
type caseResult struct {
	I          int      `json:"i"`
	ID         string   `json:"id"`
	Evals      int64    `json:"evals"`
	Rejected   int64    `json:"rejected"` // malformed / truncated / hostile inputs offered to a decoder
	Accepted   int64    `json:"accepted"`
	MaxAlloc   uint64   `json:"max_alloc"`
	MaxAllocAt string   `json:"max_alloc_at"`
	Distinct   []string `json:"distinct"`
	Violations []viol   `json:"violations"`
	Sample     any      `json:"sample,omitempty"`
	Err        string   `json:"err,omitempty"` // binder trouble (infrastructure)
	Ms         int64    `json:"ms"`
	Extra      bool     `json:"extra,omitempty"` // not a case: the re-check of kept values at the end of a shard
}

const btcnet = wire.MainNet
const otherNet = wire.TestNet3

func classify(err error) string {
	switch {
	case err == nil:
		return "ok"
	case errors.Is(err, io.EOF) || errors.Is(err, io.ErrUnexpectedEOF):
		return "short"
	case errors.Is(err, wire.ErrUnknownMessage):
		return "unknown"
	}
	return "malformed"
}

func sha256d(b []byte) [32]byte {
	h := sha256.Sum256(b)
	return sha256.Sum256(h[:])
}

func encOf(s string) wire.MessageEncoding {
	if s == "base" {
		return wire.BaseEncoding
	}
	return wire.WitnessEncoding
}

// worker checks cases one at a time (single goroutine: the allocation
// counters of the runtime are process wide).
type worker struct {
	root       rootRec
	seed       uint64
	huge       []uint64
	allocBound uint64
	cur        *caseResult
	c          *caseRec
	progress   func(string)
	kept       keeper // decoded values, re-encoded again after later decodes ("decoded values are stable")
}

func (w *worker) violate(key, what string, extra map[string]any) {
	rep := map[string]any{"type": w.c.Type, "pver": w.c.Pver, "enc": w.c.Enc, "api": w.c.API, "shape": w.c.Shape, "model_value": w.c.M}
	for k, v := range extra {
		rep[k] = v
	}
	w.cur.Violations = append(w.cur.Violations, viol{Key: key, What: fmt.Sprintf("%s pver=%d enc=%s shape=%s: %s", w.c.Type, w.c.Pver, w.c.Enc, w.c.Shape, what), Replay: rep})
}

func hexHead(b []byte) string {
	if len(b) > 160 {
		return hex.EncodeToString(b[:160]) + fmt.Sprintf("...(%d bytes)", len(b))
	}
	return hex.EncodeToString(b)
}

func firstDiff(a, b []byte) string {
	n := len(a)
	if len(b) < n {
		n = len(b)
	}
	for i := 0; i < n; i++ {
		if a[i] != b[i] {
			return fmt.Sprintf("first difference at byte %d of %d/%d: %02x vs %02x", i, len(a), len(b), a[i], b[i])
		}
	}
	return fmt.Sprintf("lengths %d vs %d, common prefix equal", len(a), len(b))
}

// heapAllocated is the cumulative number of bytes allocated on the heap by this process
// (runtime/metrics: no stop-the-world; objects above 32 KiB are counted at once, small
// ones when their span is full, a lag of at most about a megabyte).
var allocSample = []metrics.Sample{{Name: "/gc/heap/allocs:bytes"}}

func heapAllocated() uint64 {
	metrics.Read(allocSample)
	if allocSample[0].Value.Kind() != metrics.KindUint64 {
		panic("runtime metric /gc/heap/allocs:bytes unavailable")
	}
	return allocSample[0].Value.Uint64()
}

// guarded runs f, measuring the bytes it allocates and turning a panic into a value.
func guarded(f func() error) (class string, err error, alloc uint64, pan any) {
	a0 := heapAllocated()
	func() {
		defer func() {
			if r := recover(); r != nil {
				pan = r
			}
		}()
		err = f()
	}()
	alloc = heapAllocated() - a0
	if pan != nil {
		return "panic", nil, alloc, pan
	}
	return classify(err), err, alloc, nil
}

// hostile records the harmlessness obligations of one decoder call on an input.
func (w *worker) harmless(what string, cls string, alloc uint64, pan any, in []byte, extra map[string]any) {
	if alloc > w.cur.MaxAlloc {
		w.cur.MaxAlloc = alloc
		w.cur.MaxAllocAt = what
	}
	if pan != nil {
		ex := map[string]any{"input_hex": hexHead(in), "panic": fmt.Sprint(pan)}
		for k, v := range extra {
			ex[k] = v
		}
		w.violate("panic:"+w.c.Type+":"+cls, fmt.Sprintf("%s: decoder panicked: %v", what, pan), ex)
	}
	if alloc > w.allocBound {
		ex := map[string]any{"input_hex": hexHead(in), "allocated": alloc, "bound": w.allocBound, "input_len": len(in)}
		for k, v := range extra {
			ex[k] = v
		}
		w.violate("alloc:"+w.c.Type+":"+cls, fmt.Sprintf("%s: decoder allocated %d bytes for an input of %d bytes (bound %d = %d x MaxMessagePayload)",
			what, alloc, len(in), w.allocBound, w.root.AllocFactor), ex)
	}
}

// frameHeader renders the 24-byte header from the specification's header tokens.
func (w *worker) frameHeader(magic uint32, command []byte, length uint32, checksum []byte) ([]byte, error) {
	var out []byte
	for _, t := range w.root.Header {
		switch {
		case t.K == "int" && t.F == "magic":
			var b [8]byte
			binary.LittleEndian.PutUint64(b[:], uint64(magic))
			out = append(out, b[:t.W]...)
		case t.K == "int" && t.F == "length":
			var b [8]byte
			binary.LittleEndian.PutUint64(b[:], uint64(length))
			out = append(out, b[:t.W]...)
		case t.K == "bytes" && t.F == "command":
			cmd := make([]byte, t.N)
			if len(command) > t.N {
				return nil, fmt.Errorf("command %q longer than %d", command, t.N)
			}
			copy(cmd, command)
			out = append(out, cmd...)
		case t.K == "bytes" && t.F == "checksum":
			if len(checksum) != t.N {
				return nil, fmt.Errorf("checksum of %d bytes for a field of %d", len(checksum), t.N)
			}
			out = append(out, checksum...)
		default:
			return nil, fmt.Errorf("unknown header token %s/%s", t.K, t.F)
		}
	}
	return out, nil
}

func (w *worker) goodFrame(cmd string, payload []byte) ([]byte, error) {
	sum := sha256d(payload)
	return w.frameHeader(uint32(btcnet), []byte(cmd), uint32(len(payload)), sum[:4])
}

type readOut struct {
	class   string
	err     error
	msg     wire.Message
	payload []byte
	n       int
	alloc   uint64
	pan     any
}

func (w *worker) readStream(hdr, payload []byte) readOut {
	var o readOut
	r := io.MultiReader(bytes.NewReader(hdr), bytes.NewReader(payload))
	o.class, o.err, o.alloc, o.pan = guarded(func() error {
		var err error
		o.n, o.msg, o.payload, err = wire.ReadMessageWithEncodingN(r, w.c.Pver, btcnet, encOf(w.c.Enc))
		return err
	})
	return o
}

// applyVariant builds the mutated input from the rendered base input p.
func (w *worker) applyVariant(g *gen, p []byte, v *variant) ([]byte, error) {
	if len(v.Ins) == 0 && v.Del == 0 {
		if v.Cut < 0 {
			return p, nil
		}
		if v.Cut > len(p) {
			return nil, fmt.Errorf("cut %d beyond input of %d bytes", v.Cut, len(p))
		}
		return p[:v.Cut], nil
	}
	ins, _, err := renderTokens(g, v.Ins, nil, 16)
	if err != nil {
		return nil, err
	}
	if v.At+v.Del > len(p) {
		return nil, fmt.Errorf("splice at %d del %d beyond input of %d bytes", v.At, v.Del, len(p))
	}
	if v.Cut >= 0 && v.Cut <= v.At+len(ins) {
		out := make([]byte, 0, v.Cut)
		out = append(out, p[:v.At]...)
		out = append(out, ins...)
		return out[:v.Cut], nil
	}
	out := make([]byte, 0, len(p)-v.Del+len(ins))
	out = append(out, p[:v.At]...)
	out = append(out, ins...)
	out = append(out, p[v.At+v.Del:]...)
	if v.Cut >= 0 {
		if v.Cut > len(out) {
			return nil, fmt.Errorf("cut %d beyond mutated input of %d bytes", v.Cut, len(out))
		}
		out = out[:v.Cut]
	}
	return out, nil
}

func (w *worker) distinct(parts ...any) {
	w.cur.Distinct = append(w.cur.Distinct, fmt.Sprint(parts...))
}

func viDesc(ins []Tok) string {
	if len(ins) == 0 {
		return ""
	}
	t := ins[0]
	if t.V != nil {
		return fmt.Sprintf("%s=%d/w%d", t.K, *t.V, t.W)
	}
	return fmt.Sprintf("%s%v", t.K, t.B)
}

// compareDecision reports a divergence between the decision of the real decoder and the
// specification's.  It returns true when both accept.
func (w *worker) compareDecision(where, cls string, want, got string, err error, in []byte, extra map[string]any) bool {
	w.cur.Evals++
	if want == "ok" {
		w.cur.Accepted++
	} else {
		w.cur.Rejected++
	}
	if got == "panic" {
		return false // reported by harmless
	}
	if want == got {
		return want == "ok"
	}
	ex := map[string]any{"input_hex": hexHead(in), "input_len": len(in), "spec": want, "btcd": got}
	if err != nil {
		ex["error"] = err.Error()
	}
	for k, v := range extra {
		ex[k] = v
	}
	if got == "unknown" {
		// one cause whatever the input: the reader has no message type for the command
		w.violate("command-not-recognised:"+w.c.Type, fmt.Sprintf("%s: the specification says %s, btcd does not know the command (%v)", where, want, err), ex)
	} else if (want == "ok") != (got == "ok") {
		w.violate("decision:"+w.c.Type+":"+cls, fmt.Sprintf("%s: the specification says %s, btcd says %s (%v)", where, want, got, err), ex)
	} else {
		w.violate("class:"+w.c.Type+":"+cls, fmt.Sprintf("%s: both refuse, but the specification says %s and btcd says %s (%v)", where, want, got, err), ex)
	}
	return false
}

// canonical checks Encode(Decode(bs)) against the specification: reenc == nil means the
// input itself must come back.
func (w *worker) canonical(where, cls string, g *gen, in, again []byte, canon bool, lenient string, reenc []Tok, extra map[string]any) {
	w.cur.Evals++
	if canon {
		if !bytes.Equal(in, again) {
			ex := map[string]any{"input_hex": hexHead(in), "reencoded_hex": hexHead(again)}
			for k, v := range extra {
				ex[k] = v
			}
			w.violate("reencode:"+w.c.Type+":"+cls, fmt.Sprintf("%s: accepted input does not re-encode to itself: %s", where, firstDiff(in, again)), ex)
		}
		return
	}
	want, _, err := renderTokens(g, reenc, nil, len(in)+64)
	if err != nil {
		w.cur.Err = "render reenc: " + err.Error()
		return
	}
	if !bytes.Equal(want, again) {
		ex := map[string]any{"input_hex": hexHead(in), "reencoded_hex": hexHead(again), "spec_reencoding_hex": hexHead(want)}
		w.violate("reencode:"+w.c.Type+":"+cls, fmt.Sprintf("%s: re-encoding of the accepted non-canonical input differs from the specification's: %s", where, firstDiff(want, again)), ex)
		return
	}
	if !bytes.Equal(in, again) {
		// the specification predicted it: a byte string other than the canonical one is accepted
		ex := map[string]any{"input_hex": hexHead(in), "reencoded_hex": hexHead(again), "leniency": lenient}
		for k, v := range extra {
			ex[k] = v
		}
		w.violate("noncanonical-accepted:"+w.c.Type+":"+lenient,
			fmt.Sprintf("%s: a byte string that is not the canonical encoding of its value is accepted (%s): %s", where, lenient, firstDiff(in, again)), ex)
	}
}

func (w *worker) genFor(c *caseRec, i int) *gen {
	g := &gen{seed: w.seed, huge: w.huge}
	g.seed = g.key(c.Type+"|"+c.Enc+"|"+c.Shape, []int{int(c.Pver), i})
	return g
}

// checkCase runs every comparison of one case.
func (w *worker) checkCase(i int, c *caseRec, e *expectRec) *caseResult {
	res := &caseResult{I: i, ID: fmt.Sprintf("%s/%s/%d/%s/%s", c.API, c.Type, c.Pver, c.Enc, c.Shape)}
	w.cur, w.c = res, c
	g := w.genFor(c, 0)
	names := map[string]bool{}
	collectNames(e.Tokens, names)
	p, consts, err := renderTokens(g, e.Tokens, nil, tokSize(e.Tokens)+16)
	if err != nil {
		res.Err = "render: " + err.Error()
		return res
	}
	b := &builder{g: g, names: names, consts: consts}
	w.distinct(c.API, "|", c.Type, "|", c.Pver, "|", c.Enc, "|", c.Shape)
	switch {
	case c.API == "msg":
		w.checkMsg(c, e, g, b, p)
	case c.Type == "header":
		w.checkHeader(c, e, g, b, p)
	case c.Type == "txout":
		w.checkTxOut(c, e, g, b, p)
	default:
		w.checkSer(c, e, g, b, p)
	}
	if i%97 == 0 || len(res.Violations) > 0 {
		res.Sample = map[string]any{"case": res.ID, "model_value": c.M, "encoding_hex": hexHead(p), "spec_size": e.Size,
			"spec_decode": e.Dec, "variants": len(e.Variants), "frames": len(e.Frames)}
	}
	sort.Strings(res.Distinct)
	return res
}

func (w *worker) checkMsg(c *caseRec, e *expectRec, g *gen, b *builder, p []byte) {
	pver, enc := c.Pver, encOf(c.Enc)
	encToks := e.Tokens
	if len(e.EncTokens) > 0 {
		encToks = e.EncTokens
	}
	// ---- encoder, frame writer
	if e.Encodable {
		msg, err := b.build(c.Type, c.M)
		if err != nil {
			w.cur.Err = "build: " + err.Error()
			return
		}
		if msg.Command() != c.Type {
			w.violate("command:"+c.Type, fmt.Sprintf("Command() = %q", msg.Command()), nil)
		}
		want := p
		if len(e.EncTokens) > 0 {
			want, _, err = renderTokens(g, encToks, nil, len(p)+64)
			if err != nil {
				w.cur.Err = "render enctokens: " + err.Error()
				return
			}
		}
		var buf bytes.Buffer
		cls, eerr, _, pan := guarded(func() error { return msg.BtcEncode(&buf, pver, enc) })
		w.cur.Evals++
		switch {
		case pan != nil:
			w.violate("panic:"+c.Type+":encode", fmt.Sprintf("BtcEncode panicked: %v", pan), nil)
		case cls != e.EncRes:
			w.violate("encode-decision:"+c.Type, fmt.Sprintf("BtcEncode: the specification says %s, btcd says %s (%v)", e.EncRes, cls, eerr), nil)
		case cls == "ok":
			w.cur.Evals += 2
			if !bytes.Equal(buf.Bytes(), want) {
				w.violate("layout:"+c.Type, "BtcEncode bytes differ from the layout of the specification: "+firstDiff(want, buf.Bytes()),
					map[string]any{"spec_hex": hexHead(want), "btcd_hex": hexHead(buf.Bytes())})
			}
			if buf.Len() != e.Size {
				w.violate("size:"+c.Type, fmt.Sprintf("encoded %d bytes, the specification's size is %d", buf.Len(), e.Size), nil)
			}
		}
		if e.MaxPayload >= 0 {
			w.cur.Evals++
			if got := int64(msg.MaxPayloadLength(pver)); got != e.MaxPayload {
				w.violate("maxpayload:"+c.Type, fmt.Sprintf("MaxPayloadLength(%d) = %d, specification %d", pver, got, e.MaxPayload), nil)
			}
		}
		var fb bytes.Buffer
		var n int
		cls, eerr, _, pan = guarded(func() error {
			var err error
			n, err = wire.WriteMessageWithEncodingN(&fb, msg, pver, btcnet, enc)
			return err
		})
		w.cur.Evals++
		switch {
		case pan != nil:
			w.violate("panic:"+c.Type+":write", fmt.Sprintf("WriteMessageWithEncodingN panicked: %v", pan), nil)
		case cls != e.Write:
			w.violate("write-decision:"+c.Type, fmt.Sprintf("WriteMessageWithEncodingN: the specification says %s, btcd says %s (%v)", e.Write, cls, eerr), nil)
		case cls == "ok":
			hdr, err := w.goodFrame(c.Type, want)
			if err != nil {
				w.cur.Err = err.Error()
				return
			}
			w.cur.Evals += 2
			full := append(hdr, want...)
			if !bytes.Equal(fb.Bytes(), full) {
				w.violate("layout:"+c.Type+":frame", "WriteMessageWithEncodingN bytes differ from header + payload of the specification: "+firstDiff(full, fb.Bytes()),
					map[string]any{"spec_hex": hexHead(full), "btcd_hex": hexHead(fb.Bytes())})
			}
			if n != len(full) {
				w.violate("size:"+c.Type+":frame", fmt.Sprintf("WriteMessageWithEncodingN reports %d bytes, wrote %d, specification %d", n, fb.Len(), len(full)), nil)
			}
		}
	}

	// ---- the valid encoding through the reader
	hdr, err := w.goodFrame(c.Type, p)
	if err != nil {
		w.cur.Err = err.Error()
		return
	}
	o := w.readStream(hdr, p)
	w.harmless("ReadMessageWithEncodingN(valid encoding)", "valid", o.alloc, o.pan, p, nil)
	if w.compareDecision("ReadMessageWithEncodingN(encoding of the value)", "valid", e.Dec, o.class, o.err, p, nil) {
		w.afterAccept("valid encoding", "valid", g, b, e.Back, o, hdr, p, e.Canon, true, e.Lenient, e.Reenc, nil)
	}

	// ---- the decoder of the type called directly (independent of the command table)
	if dm := emptyMsg(c.Type); dm != nil && len(p) <= int(w.root.MaxMessagePayload) {
		buf := bytes.NewBuffer(p)
		cls, derr, alloc, pan := guarded(func() error { return dm.BtcDecode(buf, pver, enc) })
		w.harmless("BtcDecode(valid encoding)", "direct", alloc, pan, p, nil)
		if w.compareDecision("BtcDecode(encoding of the value)", "direct", e.RawDec, cls, derr, p, nil) {
			exp, err := b.build(c.Type, e.Back)
			if err != nil {
				w.cur.Err = "build decoded value: " + err.Error()
				return
			}
			w.cur.Evals++
			if ok, why := sameValue(dm, exp); !ok {
				w.violate("roundtrip:"+c.Type+":direct", "BtcDecode: decoded message differs from the value of the specification at "+why, nil)
			}
		}
	}

	// ---- mutations of the payload, framed correctly
	w.msgVariants(c, e, g, b, p)

	// ---- framing faults
	for k := range e.Frames {
		w.frameFault(c, &e.Frames[k], p)
	}

	// ---- BIP324 framing
	w.checkV2(c, e, g, b, p)
}

// afterAccept: the decoded value, the returned payload and byte count, and the re-encoding.
func (w *worker) afterAccept(where, cls string, g *gen, b *builder, val json.RawMessage, o readOut, hdr, in []byte,
	canon, chk bool, lenient string, reenc []Tok, extra map[string]any) {
	c := w.c
	exp, err := b.build(c.Type, val)
	if err != nil {
		w.cur.Err = "build decoded value: " + err.Error()
		return
	}
	w.cur.Evals += 3
	if !chk {
		// trailing bytes taken for optional fields: their content is not the generator's
	} else if ok, why := sameValue(o.msg, exp); !ok {
		ex := map[string]any{"input_hex": hexHead(in), "difference": why, "spec_value": val}
		for k, v := range extra {
			ex[k] = v
		}
		w.violate("roundtrip:"+c.Type+":"+cls, fmt.Sprintf("%s: decoded message differs from the value of the specification at %s", where, why), ex)
	}
	if !bytes.Equal(o.payload, in) {
		w.violate("payload:"+c.Type, fmt.Sprintf("%s: returned payload differs from the bytes read: %s", where, firstDiff(in, o.payload)), nil)
	}
	if o.n != len(hdr)+len(in) {
		w.violate("size:"+c.Type+":read", fmt.Sprintf("%s: ReadMessageWithEncodingN reports %d bytes read, %d were offered", where, o.n, len(hdr)+len(in)), nil)
	}
	if !chk {
		return
	}
	var fb bytes.Buffer
	_, werr := wire.WriteMessageWithEncodingN(&fb, o.msg, c.Pver, btcnet, encOf(c.Enc))
	if werr != nil {
		w.violate("reencode:"+c.Type+":"+cls, fmt.Sprintf("%s: the accepted message cannot be written back: %v", where, werr), map[string]any{"input_hex": hexHead(in)})
		return
	}
	again := fb.Bytes()
	if len(again) < len(hdr) {
		w.violate("reencode:"+c.Type+":"+cls, "short frame written", nil)
		return
	}
	w.canonical(where, cls, g, in, again[len(hdr):], canon, lenient, reenc, extra)
	if len(again) <= keepMaxValue {
		msg, pver, enc := o.msg, c.Pver, encOf(c.Enc)
		stream := append(append(make([]byte, 0, len(hdr)+len(in)), hdr...), in...)
		w.kept.keep(keptValue{kind: "ReadMessageWithEncodingN(" + c.Type + ")", id: w.cur.ID + " " + cls, want: append([]byte(nil), again...),
			reenc: func() ([]byte, error) {
				var b bytes.Buffer
				_, err := wire.WriteMessageWithEncodingN(&b, msg, pver, btcnet, enc)
				return b.Bytes(), err
			},
			redo: func() { wire.ReadMessageWithEncodingN(bytes.NewReader(stream), pver, btcnet, enc) }}, 0)
	}
}

func variantExtra(v *variant) map[string]any {
	return map[string]any{"mutation": map[string]any{"class": v.Cls, "field": v.F, "at": v.At, "del": v.Del, "ins": viDesc(v.Ins), "cut": v.Cut}}
}

func (w *worker) msgVariants(c *caseRec, e *expectRec, g *gen, b *builder, p []byte) {
	// truncations in increasing order share one running hash of the payload
	order := make([]int, len(e.Variants))
	for k := range order {
		order[k] = k
	}
	isTrunc := func(v *variant) bool { return len(v.Ins) == 0 && v.Del == 0 && v.Cut >= 0 }
	sort.SliceStable(order, func(a, b int) bool {
		va, vb := &e.Variants[order[a]], &e.Variants[order[b]]
		ta, tb := isTrunc(va), isTrunc(vb)
		if ta != tb {
			return ta
		}
		if ta {
			return va.Cut < vb.Cut
		}
		return false
	})
	run := sha256.New()
	fed := 0
	v2head, herr := headBytes(e.V2Head, []byte(c.Type))
	if herr != nil {
		w.cur.Err = "v2 head: " + herr.Error()
		return
	}
	for _, k := range order {
		v := &e.Variants[k]
		in, err := w.applyVariant(g, p, v)
		if err != nil {
			w.cur.Err = fmt.Sprintf("variant %s/%s: %v", v.Cls, v.F, err)
			return
		}
		var sum [32]byte
		if isTrunc(v) && v.Cut >= fed {
			run.Write(p[fed:v.Cut])
			fed = v.Cut
			var first [32]byte
			run.Sum(first[:0])
			sum = sha256.Sum256(first[:])
		} else {
			sum = sha256d(in)
		}
		hdr, err := w.frameHeader(uint32(btcnet), []byte(c.Type), uint32(len(in)), sum[:4])
		if err != nil {
			w.cur.Err = err.Error()
			return
		}
		o := w.readStream(hdr, in)
		where := fmt.Sprintf("ReadMessageWithEncodingN(%s %s at=%d del=%d ins=%s cut=%d)", v.Cls, v.F, v.At, v.Del, viDesc(v.Ins), v.Cut)
		ex := variantExtra(v)
		w.harmless(where, v.Cls, o.alloc, o.pan, in, ex)
		w.distinct(c.Type, "|", c.Pver, "|", c.Enc, "|", c.Shape, "|", v.Cls, "|", v.F, "|", viDesc(v.Ins), "|", v.Cut, "|", v.Res)
		if w.compareDecision(where, v.Cls, v.Res, o.class, o.err, in, ex) {
			w.afterAccept(where, v.Cls, g, b, v.Val, o, hdr, in, v.Canon, v.Chk, v.Lenient, v.Reenc, ex)
		}
		// the same payload behind the v2 head: same verdict (the claims within a limit whose
		// elements are missing are the allocation probes: the decoders are the same, once is enough)
		if !(v.Cls == "hostile-cut" && v.Res == "short") {
			w.readV2Variant(c, v2head, v, in, b)
		}
	}
}

func flipped(b []byte) []byte {
	out := append([]byte(nil), b...)
	out[len(out)-1] ^= 0x40
	return out
}

func (w *worker) frameFault(c *caseRec, f *frameVar, p []byte) {
	length := uint32(w.num(f.Len))
	// the checksum covers what the reader will hash: the first `length` bytes that arrive
	covered := p
	if int64(length) < int64(len(covered)) {
		covered = covered[:length]
	}
	sum := sha256d(covered)
	cs := sum[:4]
	if f.Sum == "bad" {
		cs = flipped(cs)
	}
	magic := uint32(btcnet)
	if f.Magic == "bad" {
		magic = uint32(otherNet)
	}
	var cmd []byte
	switch f.Cmd {
	case "ok":
		cmd = []byte(c.Type)
	case "unknown":
		cmd = []byte("bogus")
	case "nulgarbage":
		cmd = append(append([]byte(c.Type), 0), 'x')
		if len(cmd) > 12 {
			cmd = append([]byte("inv"), 0, 'x')
		}
	case "badutf8":
		cmd = []byte{'i', 'n', 'v', 0xff, 0xfe}
	default:
		w.cur.Err = "frame command mode " + f.Cmd
		return
	}
	hdr, err := w.frameHeader(magic, cmd, length, cs)
	if err != nil {
		w.cur.Err = err.Error()
		return
	}
	if f.Hdr < len(hdr) {
		hdr = hdr[:f.Hdr]
	}
	pay := p
	if f.Avail < len(pay) {
		pay = pay[:f.Avail]
	}
	if f.Hdr < 24 {
		pay = nil
	}
	o := w.readStream(hdr, pay)
	where := fmt.Sprintf("ReadMessageWithEncodingN(frame fault %s: magic=%s command=%s length=%d checksum=%s, %d header and %d payload bytes arrive)",
		f.F, f.Magic, f.Cmd, length, f.Sum, len(hdr), len(pay))
	in := append(append([]byte(nil), hdr...), pay[:min(len(pay), 64)]...)
	ex := map[string]any{"frame": f}
	w.harmless(where, "frame", o.alloc, o.pan, in, ex)
	w.distinct(c.Type, "|", c.Pver, "|", c.Shape, "|frame|", f.F, "|", f.Res)
	if w.compareDecision(where, "frame-"+f.F, f.Res, o.class, o.err, in, ex) {
		w.cur.Evals++
		if o.n != f.N {
			w.violate("size:"+c.Type+":read", fmt.Sprintf("%s: %d bytes reported read, specification %d", where, o.n, f.N), ex)
		}
	}
}

func (w *worker) num(v int64) uint64 {
	g := gen{huge: w.huge}
	return g.num(v)
}

// ---- Serialize / Deserialize / btcutil of transactions, blocks, headers

type serAPI struct {
	encode  func(io.Writer) error
	decode  func(io.Reader) (any, error)
	size    func() int
	sizeStr func() int
}

func (w *worker) checkHeader(c *caseRec, e *expectRec, g *gen, b *builder, p []byte) {
	h := b.header(nil)
	var buf bytes.Buffer
	w.cur.Evals += 4
	if err := h.Serialize(&buf); err != nil || !bytes.Equal(buf.Bytes(), p) {
		w.violate("layout:header", fmt.Sprintf("BlockHeader.Serialize: err=%v, %s", err, firstDiff(p, buf.Bytes())), map[string]any{"spec_hex": hexHead(p), "btcd_hex": hexHead(buf.Bytes())})
	}
	buf.Reset()
	if err := h.BtcEncode(&buf, c.Pver, encOf(c.Enc)); err != nil || !bytes.Equal(buf.Bytes(), p) {
		w.violate("layout:header", fmt.Sprintf("BlockHeader.BtcEncode: err=%v, %s", err, firstDiff(p, buf.Bytes())), nil)
	}
	want := chainhash.Hash(sha256d(p))
	if got := h.BlockHash(); got != want {
		w.violate("blockhash:header", fmt.Sprintf("BlockHash %s, double SHA-256 of the specification's 80 bytes %s", got, want), nil)
	}
	if len(p) != e.Size {
		w.cur.Err = fmt.Sprintf("header renders to %d bytes, size %d", len(p), e.Size)
	}
	dec := func(in []byte) (string, error, uint64, any, *wire.BlockHeader) {
		var d wire.BlockHeader
		cls, err, alloc, pan := guarded(func() error { return d.Deserialize(bytes.NewReader(in)) })
		return cls, err, alloc, pan, &d
	}
	cls, err, alloc, pan, d := dec(p)
	w.harmless("BlockHeader.Deserialize(valid)", "valid", alloc, pan, p, nil)
	if w.compareDecision("BlockHeader.Deserialize(encoding)", "valid", e.Dec, cls, err, p, nil) {
		w.cur.Evals += 2
		if ok, why := sameValue(*d, h); !ok {
			w.violate("roundtrip:header:valid", "decoded header differs at "+why, nil)
		}
		if d.BlockHash() != want {
			w.violate("blockhash:header", "block hash changed by a round trip", nil)
		}
	}
	for k := range e.Variants {
		v := &e.Variants[k]
		in, aerr := w.applyVariant(g, p, v)
		if aerr != nil {
			w.cur.Err = aerr.Error()
			return
		}
		cls, err, alloc, pan, _ := dec(in)
		where := fmt.Sprintf("BlockHeader.Deserialize(%s cut=%d)", v.Cls, v.Cut)
		w.harmless(where, v.Cls, alloc, pan, in, variantExtra(v))
		w.distinct("header|", v.Cls, "|", v.Cut, "|", v.Res)
		w.compareDecision(where, v.Cls, v.Res, cls, err, in, variantExtra(v))
	}
}

func (w *worker) checkSer(c *caseRec, e *expectRec, g *gen, b *builder, p []byte) {
	witness := c.Enc == "witness"
	var msgTx *wire.MsgTx
	var msgBlock *wire.MsgBlock
	msg, err := b.build(c.Type, c.M)
	if err != nil {
		w.cur.Err = "build: " + err.Error()
		return
	}
	var encode func(io.Writer) error
	var size, sizeStripped func() int
	switch m := msg.(type) {
	case *wire.MsgTx:
		msgTx = m
		encode = m.SerializeNoWitness
		if witness {
			encode = m.Serialize
		}
		size, sizeStripped = m.SerializeSize, m.SerializeSizeStripped
	case *wire.MsgBlock:
		msgBlock = m
		encode = m.SerializeNoWitness
		if witness {
			encode = m.Serialize
		}
		size, sizeStripped = m.SerializeSize, m.SerializeSizeStripped
	default:
		w.cur.Err = "checkSer: type " + c.Type
		return
	}
	api := "SerializeNoWitness"
	if witness {
		api = "Serialize"
	}
	// ---- encoder and size functions (not for inputs no encoder produces)
	var buf bytes.Buffer
	buf.Grow(len(p))
	var cls string
	var eerr error
	var pan any
	if e.Encodable {
		cls, eerr, _, pan = guarded(func() error { return encode(&buf) })
	}
	w.cur.Evals += 5
	switch {
	case !e.Encodable:
	case pan != nil:
		w.violate("panic:"+c.Type+":encode", fmt.Sprintf("%s panicked: %v", api, pan), nil)
	case cls != e.EncRes:
		w.violate("encode-decision:"+c.Type, fmt.Sprintf("%s: the specification says %s, btcd says %s (%v)", api, e.EncRes, cls, eerr), nil)
	case cls == "ok":
		if !bytes.Equal(buf.Bytes(), p) {
			w.violate("layout:"+c.Type, api+" bytes differ from the layout of the specification: "+firstDiff(p, buf.Bytes()),
				map[string]any{"spec_hex": hexHead(p), "btcd_hex": hexHead(buf.Bytes())})
		}
	}
	if len(p) != e.Size {
		w.cur.Err = fmt.Sprintf("rendered %d bytes, specification size %d", len(p), e.Size)
		return
	}
	if !e.Encodable {
		msgTx, msgBlock = nil, nil
	} else if got := size(); got != e.FullSize {
		w.violate("size:"+c.Type, fmt.Sprintf("SerializeSize() = %d, specification %d", got, e.FullSize), nil)
	}
	if got := sizeStripped(); e.Encodable && got != e.StripSize {
		w.violate("size:"+c.Type+":stripped", fmt.Sprintf("SerializeSizeStripped() = %d, specification %d", got, e.StripSize), nil)
	}
	// ---- identifiers
	var txid, wtxid chainhash.Hash
	if msgTx != nil {
		pre, _, err := renderTokens(g, e.Txid, nil, e.StripSize)
		if err != nil {
			w.cur.Err = "render txid tokens: " + err.Error()
			return
		}
		txid = chainhash.Hash(sha256d(pre))
		w.cur.Evals += 3
		if got := msgTx.TxHash(); got != txid {
			w.violate("txid:tx", fmt.Sprintf("TxHash() = %s, double SHA-256 of the specification's txid preimage (%d bytes) = %s", got, len(pre), txid), nil)
		}
		if msgTx.HasWitness() != e.HasWit {
			w.violate("txid:tx:haswitness", fmt.Sprintf("HasWitness() = %v, specification %v", msgTx.HasWitness(), e.HasWit), nil)
		}
		if (msgTx.TxHash() == msgTx.WitnessHash()) != !e.HasWit {
			w.violate("txid:tx:wtxid", fmt.Sprintf("txid == wtxid is %v for a transaction whose witness presence is %v", msgTx.TxHash() == msgTx.WitnessHash(), e.HasWit), nil)
		}
		if witness {
			wtxid = chainhash.Hash(sha256d(p))
			w.cur.Evals++
			if got := msgTx.WitnessHash(); got != wtxid {
				w.violate("txid:tx:wtxid", fmt.Sprintf("WitnessHash() = %s, double SHA-256 of the specification's full serialisation = %s", got, wtxid), nil)
			}
		}
	}
	var blockHash chainhash.Hash
	if msgBlock != nil {
		hl := tokSize(w.root.BlockHeader)
		if hl > len(p) {
			w.cur.Err = "block shorter than its header"
			return
		}
		blockHash = chainhash.Hash(sha256d(p[:hl]))
		w.cur.Evals++
		if got := msgBlock.BlockHash(); got != blockHash {
			w.violate("blockhash:block", fmt.Sprintf("BlockHash() = %s, double SHA-256 of the specification's header bytes = %s", got, blockHash), nil)
		}
	}

	// ---- decoders
	isTx := c.Type == "tx"
	decode := func(in []byte) (string, error, uint64, any, wire.Message, int) {
		r := bytes.NewReader(in)
		var out wire.Message
		cls, err, alloc, pan := guarded(func() error {
			switch {
			case isTx && witness:
				var d wire.MsgTx
				out = &d
				return d.Deserialize(r)
			case isTx:
				var d wire.MsgTx
				out = &d
				return d.DeserializeNoWitness(r)
			case witness:
				var d wire.MsgBlock
				out = &d
				return d.Deserialize(r)
			default:
				var d wire.MsgBlock
				out = &d
				return d.DeserializeNoWitness(r)
			}
		})
		return cls, err, alloc, pan, out, r.Len()
	}
	dapi := "DeserializeNoWitness"
	if witness {
		dapi = "Deserialize"
	}
	accepted := func(where, vcls string, val json.RawMessage, got wire.Message, in []byte, left int, canon bool, ex map[string]any) {
		exp, err := b.build(c.Type, val)
		if err != nil {
			w.cur.Err = "build decoded value: " + err.Error()
			return
		}
		w.cur.Evals += 2
		if ok, why := sameValue(got, exp); !ok {
			e2 := map[string]any{"input_hex": hexHead(in), "difference": why}
			for k, v := range ex {
				e2[k] = v
			}
			w.violate("roundtrip:"+c.Type+":"+vcls, fmt.Sprintf("%s: decoded value differs from the specification's at %s", where, why), e2)
		}
		var again bytes.Buffer
		again.Grow(len(in))
		var rerr error
		switch m := got.(type) {
		case *wire.MsgTx:
			if witness {
				rerr = m.Serialize(&again)
			} else {
				rerr = m.SerializeNoWitness(&again)
			}
		case *wire.MsgBlock:
			if witness {
				rerr = m.Serialize(&again)
			} else {
				rerr = m.SerializeNoWitness(&again)
			}
		}
		if rerr != nil {
			w.violate("reencode:"+c.Type+":"+vcls, fmt.Sprintf("%s: accepted value cannot be serialised again: %v", where, rerr), ex)
			return
		}
		w.canonical(where, vcls, g, in[:len(in)-left], again.Bytes(), canon, "", nil, ex)
		if again.Len() <= keepMaxValue {
			input := append([]byte(nil), in...)
			w.kept.keep(keptValue{kind: dapi + "(" + c.Type + ")", id: w.cur.ID + " " + vcls, want: append([]byte(nil), again.Bytes()...),
				reenc: func() ([]byte, error) {
					var b bytes.Buffer
					var err error
					switch m := got.(type) {
					case *wire.MsgTx:
						if witness {
							err = m.Serialize(&b)
						} else {
							err = m.SerializeNoWitness(&b)
						}
					case *wire.MsgBlock:
						if witness {
							err = m.Serialize(&b)
						} else {
							err = m.SerializeNoWitness(&b)
						}
					}
					return b.Bytes(), err
				},
				redo: func() { decode(input) }}, 0)
		}
	}
	cls, derr, alloc, pan, got, left := decode(p)
	w.harmless(dapi+"(valid encoding)", "valid", alloc, pan, p, nil)
	if w.compareDecision(dapi+"(encoding of the value)", "valid", e.Dec, cls, derr, p, nil) {
		accepted(dapi+"(encoding of the value)", "valid", e.Back, got, p, left, e.Canon, nil)
		if left != 0 {
			w.violate("consumed:"+c.Type, fmt.Sprintf("%s left %d bytes of the exact encoding unread", dapi, left), nil)
		}
	}
	// btcutil wrappers read the witness serialisation
	if witness {
		vc := "valid"
		if !e.Encodable {
			vc = "foreign" // identifiers were not computed
		}
		w.btcutilFromBytes(c, e, p, e.Dec, false, txid, wtxid, blockHash, g, vc, nil)
	}
	for k := range e.Variants {
		v := &e.Variants[k]
		in, aerr := w.applyVariant(g, p, v)
		if aerr != nil {
			w.cur.Err = aerr.Error()
			return
		}
		cls, derr, alloc, pan, got, left := decode(in)
		where := fmt.Sprintf("%s(%s %s at=%d del=%d ins=%s cut=%d)", dapi, v.Cls, v.F, v.At, v.Del, viDesc(v.Ins), v.Cut)
		ex := variantExtra(v)
		w.harmless(where, v.Cls, alloc, pan, in, ex)
		w.distinct(c.Type, "|ser|", c.Enc, "|", c.Shape, "|", v.Cls, "|", v.F, "|", viDesc(v.Ins), "|", v.Cut, "|", v.Res)
		if w.compareDecision(where, v.Cls, v.Res, cls, derr, in, ex) {
			accepted(where, v.Cls, v.Val, got, in, left, v.Canon, ex)
			w.cur.Evals++
			if (left > 0) != v.Left {
				w.violate("consumed:"+c.Type, fmt.Sprintf("%s: %d bytes left unread, the specification says left=%v", where, left, v.Left), ex)
			}
		}
		if witness && (v.Cls == "junk" || k%7 == 0) {
			w.btcutilFromBytes(c, e, in, v.Res, v.Left, txid, wtxid, blockHash, g, v.Cls, ex)
		}
	}
}

// btcutilFromBytes: NewTxFromBytes / NewBlockFromBytes accept exactly the inputs the decoder
// accepts and consumes entirely; identifiers computed from the raw bytes equal the
// specification's.
func (w *worker) btcutilFromBytes(c *caseRec, e *expectRec, in []byte, res string, left bool, txid, wtxid, blockHash chainhash.Hash,
	g *gen, vcls string, ex map[string]any) {
	want := res
	if res == "ok" && left {
		want = "malformed" // trailing bytes
	}
	var tx *btcutil.Tx
	var blk *btcutil.Block
	cls, err, alloc, pan := guarded(func() error {
		var err error
		if c.Type == "tx" {
			tx, err = btcutil.NewTxFromBytes(in)
		} else {
			blk, err = btcutil.NewBlockFromBytes(in)
		}
		return err
	})
	api := "btcutil.NewTxFromBytes"
	if c.Type == "block" {
		api = "btcutil.NewBlockFromBytes"
	}
	w.harmless(api+"("+vcls+")", vcls, alloc, pan, in, ex)
	if !w.compareDecision(api+"("+vcls+")", "btcutil-"+vcls, want, cls, err, in, ex) || vcls != "valid" {
		return
	}
	if tx != nil {
		w.cur.Evals += 2
		if *tx.Hash() != txid {
			w.violate("txid:btcutil", fmt.Sprintf("%s(...).Hash() = %s, specification %s", api, tx.Hash(), txid), nil)
		}
		wantW := wtxid
		if !e.HasWit {
			wantW = txid
		}
		if *tx.WitnessHash() != wantW {
			w.violate("txid:btcutil:wtxid", fmt.Sprintf("%s(...).WitnessHash() = %s, specification %s", api, tx.WitnessHash(), wantW), nil)
		}
	}
	if blk != nil {
		w.cur.Evals++
		if *blk.Hash() != blockHash {
			w.violate("blockhash:btcutil", fmt.Sprintf("%s(...).Hash() = %s, specification %s", api, blk.Hash(), blockHash), nil)
		}
		// every transaction's identifiers, computed by btcutil from slices of the raw block,
		// against the specification's preimages
		txs := blk.Transactions()
		i := 0
		for _, r := range e.TxRuns {
			for j := 0; j < r.N; j++ {
				if i >= len(txs) {
					w.violate("roundtrip:block:btcutil", "fewer transactions than the specification", nil)
					return
				}
				if j < 2 || j == r.N-1 {
					pre, _, err1 := renderTokens(g, r.Txid, []int{i}, 256)
					full, _, err2 := renderTokens(g, r.Wtxid, []int{i}, 256)
					if err1 != nil || err2 != nil {
						w.cur.Err = fmt.Sprintf("render tx preimages: %v %v", err1, err2)
						return
					}
					w.cur.Evals += 2
					if want := chainhash.Hash(sha256d(pre)); *txs[i].Hash() != want {
						w.violate("txid:btcutil:block", fmt.Sprintf("transaction %d of the block: Hash() = %s, specification %s", i, txs[i].Hash(), want), nil)
					}
					if want := chainhash.Hash(sha256d(full)); *txs[i].WitnessHash() != want {
						w.violate("txid:btcutil:block:wtxid", fmt.Sprintf("transaction %d of the block: WitnessHash() = %s, specification %s", i, txs[i].WitnessHash(), want), nil)
					}
				}
				i++
			}
		}
	}
}

// emptyMsg returns a zero message of the type.
func emptyMsg(typ string) wire.Message {
	switch typ {
	case "version":
		return &wire.MsgVersion{}
	case "verack":
		return &wire.MsgVerAck{}
	case "getaddr":
		return &wire.MsgGetAddr{}
	case "addr":
		return &wire.MsgAddr{}
	case "addrv2":
		return &wire.MsgAddrV2{}
	case "getblocks":
		return &wire.MsgGetBlocks{}
	case "block":
		return &wire.MsgBlock{}
	case "inv":
		return &wire.MsgInv{}
	case "getdata":
		return &wire.MsgGetData{}
	case "notfound":
		return &wire.MsgNotFound{}
	case "tx":
		return &wire.MsgTx{}
	case "ping":
		return &wire.MsgPing{}
	case "pong":
		return &wire.MsgPong{}
	case "getheaders":
		return &wire.MsgGetHeaders{}
	case "headers":
		return &wire.MsgHeaders{}
	case "mempool":
		return &wire.MsgMemPool{}
	case "filteradd":
		return &wire.MsgFilterAdd{}
	case "filterclear":
		return &wire.MsgFilterClear{}
	case "filterload":
		return &wire.MsgFilterLoad{}
	case "merkleblock":
		return &wire.MsgMerkleBlock{}
	case "reject":
		return &wire.MsgReject{}
	case "sendheaders":
		return &wire.MsgSendHeaders{}
	case "feefilter":
		return &wire.MsgFeeFilter{}
	case "getcfilters":
		return &wire.MsgGetCFilters{}
	case "getcfheaders":
		return &wire.MsgGetCFHeaders{}
	case "getcfcheckpt":
		return &wire.MsgGetCFCheckpt{}
	case "cfilter":
		return &wire.MsgCFilter{}
	case "cfheaders":
		return &wire.MsgCFHeaders{}
	case "cfcheckpt":
		return &wire.MsgCFCheckpt{}
	case "sendaddrv2":
		return &wire.MsgSendAddrV2{}
	case "wtxidrelay":
		return &wire.MsgWTxIdRelay{}
	}
	return nil
}

// checkTxOut: one transaction output on its own through WriteTxOut / ReadTxOut.
func (w *worker) checkTxOut(c *caseRec, e *expectRec, g *gen, b *builder, p []byte) {
	var v txOutV
	if err := json.Unmarshal(c.M, &v); err != nil {
		w.cur.Err = "txout value: " + err.Error()
		return
	}
	to := wire.TxOut{Value: int64(b.u64("out.value", nil)), PkScript: b.bytes("out.pk", nil, v.PK)}
	if len(p) != e.Size {
		w.cur.Err = fmt.Sprintf("rendered %d bytes, specification size %d", len(p), e.Size)
		return
	}
	var buf bytes.Buffer
	cls, eerr, _, pan := guarded(func() error { return wire.WriteTxOut(&buf, 0, 0, &to) })
	w.cur.Evals += 3
	switch {
	case pan != nil:
		w.violate("panic:txout:encode", fmt.Sprintf("WriteTxOut panicked: %v", pan), nil)
	case cls != e.EncRes:
		w.violate("encode-decision:txout", fmt.Sprintf("WriteTxOut: the specification says %s, btcd says %s (%v)", e.EncRes, cls, eerr), nil)
	case !bytes.Equal(buf.Bytes(), p):
		w.violate("layout:txout", "WriteTxOut bytes differ from the layout of the specification: "+firstDiff(p, buf.Bytes()),
			map[string]any{"spec_hex": hexHead(p), "btcd_hex": hexHead(buf.Bytes())})
	}
	if got := to.SerializeSize(); got != e.Size {
		w.violate("size:txout", fmt.Sprintf("TxOut.SerializeSize() = %d, specification %d", got, e.Size), nil)
	}
	decode := func(in []byte) (string, error, uint64, any, *wire.TxOut, int) {
		r := bytes.NewReader(in)
		d := new(wire.TxOut)
		cls, err, alloc, pan := guarded(func() error { return wire.ReadTxOut(r, 0, 0, d) })
		return cls, err, alloc, pan, d, r.Len()
	}
	accepted := func(where, vcls string, val json.RawMessage, d *wire.TxOut, in []byte, left int, canon bool, ex map[string]any) {
		var xv txOutV
		if err := json.Unmarshal(val, &xv); err != nil {
			w.cur.Err = "txout value: " + err.Error()
			return
		}
		exp := wire.TxOut{Value: int64(b.u64("out.value", nil)), PkScript: b.bytes("out.pk", nil, xv.PK)}
		w.cur.Evals += 2
		if ok, why := sameValue(*d, exp); !ok {
			w.violate("roundtrip:txout:"+vcls, fmt.Sprintf("%s: decoded output differs from the specification's value at %s", where, why), ex)
		}
		var again bytes.Buffer
		if err := wire.WriteTxOut(&again, 0, 0, d); err != nil {
			w.violate("reencode:txout:"+vcls, fmt.Sprintf("%s: accepted output cannot be written again: %v", where, err), ex)
			return
		}
		w.canonical(where, vcls, g, in[:len(in)-left], again.Bytes(), canon, "", nil, ex)
		if again.Len() <= keepMaxValue {
			input := append([]byte(nil), in...)
			w.kept.keep(keptValue{kind: "ReadTxOut", id: w.cur.ID + " " + vcls, want: append([]byte(nil), again.Bytes()...),
				reenc: func() ([]byte, error) {
					var b bytes.Buffer
					err := wire.WriteTxOut(&b, 0, 0, d)
					return b.Bytes(), err
				},
				redo: func() { decode(input) }}, 4<<20)
		}
	}
	cls, derr, alloc, pan, d, left := decode(p)
	w.harmless("ReadTxOut(valid encoding)", "valid", alloc, pan, p, nil)
	if w.compareDecision("ReadTxOut(encoding of the value)", "valid", e.Dec, cls, derr, p, nil) {
		accepted("ReadTxOut(encoding of the value)", "valid", e.Back, d, p, left, e.Canon, nil)
	}
	for k := range e.Variants {
		v := &e.Variants[k]
		in, aerr := w.applyVariant(g, p, v)
		if aerr != nil {
			w.cur.Err = aerr.Error()
			return
		}
		cls, derr, alloc, pan, d, left := decode(in)
		where := fmt.Sprintf("ReadTxOut(%s %s at=%d del=%d ins=%s cut=%d)", v.Cls, v.F, v.At, v.Del, viDesc(v.Ins), v.Cut)
		ex := variantExtra(v)
		w.harmless(where, v.Cls, alloc, pan, in, ex)
		w.distinct("txout|", c.Shape, "|", v.Cls, "|", v.F, "|", viDesc(v.Ins), "|", v.Cut, "|", v.Res)
		if w.compareDecision(where, v.Cls, v.Res, cls, derr, in, ex) {
			accepted(where, v.Cls, v.Val, d, in, left, v.Canon, ex)
			w.cur.Evals++
			if (left > 0) != v.Left {
				w.violate("consumed:txout", fmt.Sprintf("%s: %d bytes left unread, the specification says left=%v", where, left, v.Left), ex)
			}
		}
	}
}
