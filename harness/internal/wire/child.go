package wireh

import (
	"bufio"
	"encoding/json"
	"fmt"
	"io"
	"os"
	"runtime/debug"
	"strconv"
	"time"
)

// Child mode: the engine re-executes itself (environment WIREH_CHILD=1) to
// replay one shard of cases in a process of its own, one case at a time on one
// goroutine.  Reasons: the allocation counters of the Go runtime are process
// wide (a single-threaded process measures exactly the decoder under test), and
// a decoder that dies of a fatal runtime error (out of memory, stack overflow:
// not recoverable) takes only the child with it - the parent turns that into a
// violation for the case that was running.

const caseLinePrefix = `["CASE",`

// IsChild reports whether this process was started as a replay child.
func IsChild() bool { return os.Getenv("WIREH_CHILD") == "1" }

// ChildMain replays the shard named by the environment and exits.
func ChildMain() {
	if err := childMain(); err != nil {
		fmt.Fprintln(os.Stderr, "wire child:", err)
		os.Exit(3)
	}
	os.Exit(0)
}

func parseTriple(line []byte) (json.RawMessage, json.RawMessage, error) {
	var parts []json.RawMessage
	if err := json.Unmarshal(line, &parts); err != nil || len(parts) != 3 {
		return nil, nil, fmt.Errorf("not a CASE triple: %v", err)
	}
	return parts[1], parts[2], nil
}

func childMain() error {
	in, out, prog := os.Getenv("WIREH_IN"), os.Getenv("WIREH_OUT"), os.Getenv("WIREH_PROGRESS")
	seed, _ := strconv.ParseInt(os.Getenv("WIREH_SEED"), 10, 64)
	skip, _ := strconv.Atoi(os.Getenv("WIREH_SKIP"))
	debug.SetGCPercent(50)
	f, err := os.Open(in)
	if err != nil {
		return err
	}
	defer f.Close()
	of, err := os.OpenFile(out, os.O_CREATE|os.O_WRONLY|os.O_APPEND, 0o644)
	if err != nil {
		return err
	}
	defer of.Close()
	pf, err := os.OpenFile(prog, os.O_CREATE|os.O_WRONLY|os.O_APPEND, 0o644)
	if err != nil {
		return err
	}
	defer pf.Close()

	br := bufio.NewReaderSize(f, 1<<20)
	readLine := func() ([]byte, error) {
		var line []byte
		for {
			part, isPrefix, err := br.ReadLine()
			if err != nil {
				if err == io.EOF && len(line) > 0 {
					return line, nil
				}
				return nil, err
			}
			line = append(line, part...)
			if !isPrefix {
				return line, nil
			}
		}
	}
	// first line: the root state (tables of the specification)
	line, err := readLine()
	if err != nil {
		return fmt.Errorf("shard without root: %w", err)
	}
	_, rootExp, err := parseTriple(line)
	if err != nil {
		return err
	}
	w := &worker{seed: uint64(seed)}
	if err := json.Unmarshal(rootExp, &w.root); err != nil {
		return fmt.Errorf("root: %w", err)
	}
	if w.huge, err = parseHuge(w.root.Huge); err != nil {
		return err
	}
	if w.root.AllocFactor == 0 || w.root.MaxMessagePayload == 0 || len(w.root.Header) == 0 {
		return fmt.Errorf("root state lacks the tables")
	}
	w.allocBound = w.root.AllocFactor * w.root.MaxMessagePayload

	for i := 0; ; i++ {
		line, err := readLine()
		if err == io.EOF {
			break
		}
		if err != nil {
			return err
		}
		if i < skip {
			continue
		}
		cr, er, err := parseTriple(line)
		if err != nil {
			return fmt.Errorf("line %d: %w", i+1, err)
		}
		var c caseRec
		var e expectRec
		if err := json.Unmarshal(cr, &c); err != nil {
			return fmt.Errorf("line %d case: %w", i+1, err)
		}
		if err := json.Unmarshal(er, &e); err != nil {
			return fmt.Errorf("line %d expect: %w", i+1, err)
		}
		fmt.Fprintf(pf, "%d %s/%s/%d/%s/%s\n", i, c.API, c.Type, c.Pver, c.Enc, c.Shape)
		t0 := time.Now()
		res, perr := safeCheck(w, i, &c, &e)
		if perr != nil {
			return perr
		}
		if w.kept.full() {
			n, vs := w.kept.flush()
			res.Evals += n
			res.Violations = append(res.Violations, vs...)
		}
		res.Ms = time.Since(t0).Milliseconds()
		b, err := json.Marshal(res)
		if err != nil {
			return err
		}
		if _, err := of.Write(append(b, '\n')); err != nil {
			return err
		}
	}
	// every value still kept, after the rest of the shard and a burst of further decodes
	fmt.Fprintf(pf, "%d stability/recheck\n", 1<<30)
	n, vs := w.kept.flush()
	if b, err := json.Marshal(&caseResult{I: -1, ID: "stability/recheck", Extra: true, Evals: n, Violations: vs}); err == nil {
		of.Write(append(b, '\n'))
	}
	fmt.Fprintf(pf, "done\n")
	return nil
}

// safeCheck: a panic that escapes the guarded calls into btcd is a fault of the binder itself
// (infrastructure), never a verdict.
func safeCheck(w *worker, i int, c *caseRec, e *expectRec) (res *caseResult, err error) {
	defer func() {
		if r := recover(); r != nil {
			err = fmt.Errorf("binder panic in case %s/%s/%d/%s/%s: %v\n%s", c.API, c.Type, c.Pver, c.Enc, c.Shape, r, debug.Stack())
		}
	}()
	return w.checkCase(i, c, e), nil
}
