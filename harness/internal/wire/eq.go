package wireh

import (
	"bytes"
	"fmt"
	"reflect"
)

// sameValue is reflect.DeepEqual except that a nil slice equals an empty one
// (the decoders allocate empty lists, literals leave them nil; the property is
// about the message value, not about that).  It returns a short description of
// the first difference.
func sameValue(a, b any) (bool, string) {
	return eqv(reflect.ValueOf(a), reflect.ValueOf(b))
}

// eqv returns the path of the first difference (built only on the way out).
func eqv(a, b reflect.Value) (bool, string) {
	if !a.IsValid() || !b.IsValid() {
		if a.IsValid() == b.IsValid() {
			return true, ""
		}
		return false, ": one side missing"
	}
	if a.Type() != b.Type() {
		return false, fmt.Sprintf(": type %s vs %s", a.Type(), b.Type())
	}
	switch a.Kind() {
	case reflect.Bool:
		if a.Bool() != b.Bool() {
			return false, fmt.Sprintf(": %v vs %v", a.Bool(), b.Bool())
		}
	case reflect.Int, reflect.Int8, reflect.Int16, reflect.Int32, reflect.Int64:
		if a.Int() != b.Int() {
			return false, fmt.Sprintf(": %d vs %d", a.Int(), b.Int())
		}
	case reflect.Uint, reflect.Uint8, reflect.Uint16, reflect.Uint32, reflect.Uint64, reflect.Uintptr:
		if a.Uint() != b.Uint() {
			return false, fmt.Sprintf(": %#x vs %#x", a.Uint(), b.Uint())
		}
	case reflect.String:
		if a.String() != b.String() {
			return false, fmt.Sprintf(": strings of %d and %d bytes differ", a.Len(), b.Len())
		}
	case reflect.Slice, reflect.Array:
		if a.Len() != b.Len() {
			return false, fmt.Sprintf(": length %d vs %d", a.Len(), b.Len())
		}
		if a.Kind() == reflect.Slice && a.Type().Elem().Kind() == reflect.Uint8 {
			if !bytes.Equal(a.Bytes(), b.Bytes()) {
				return false, fmt.Sprintf(": %d bytes differ", a.Len())
			}
			return true, ""
		}
		for i := 0; i < a.Len(); i++ {
			if ok, why := eqv(a.Index(i), b.Index(i)); !ok {
				return false, fmt.Sprintf("[%d]%s", i, why)
			}
		}
	case reflect.Ptr:
		if a.IsNil() || b.IsNil() {
			if a.IsNil() != b.IsNil() {
				return false, ": nil vs non-nil pointer"
			}
			return true, ""
		}
		if a.Pointer() == b.Pointer() {
			return true, ""
		}
		return eqv(a.Elem(), b.Elem())
	case reflect.Interface:
		if a.IsNil() || b.IsNil() {
			if a.IsNil() != b.IsNil() {
				return false, ": nil vs non-nil interface"
			}
			return true, ""
		}
		return eqv(a.Elem(), b.Elem())
	case reflect.Struct:
		for i := 0; i < a.NumField(); i++ {
			if ok, why := eqv(a.Field(i), b.Field(i)); !ok {
				return false, "." + a.Type().Field(i).Name + why
			}
		}
	default:
		return false, fmt.Sprintf(": kind %s not comparable here", a.Kind())
	}
	return true, ""
}
