// Package wireh binds spec/wire (WireLayout.tla, WireCases.tla) to btcd's wire
// and btcutil packages: every case TLC enumerates is rendered to bytes with the
// token -> bytes map of this file (the layout itself comes from the
// specification), the corresponding wire.Message value is built with the same
// pseudo-random field contents, and the real encoders / decoders / framing
// functions are compared with what the specification says.
package wireh

import (
	"encoding/binary"
	"encoding/json"
	"fmt"
	"strconv"
	"strings"
)

// Tok is one token of WireLayout.tla.
type Tok struct {
	K    string `json:"k"`
	F    string `json:"f"`
	W    int    `json:"w"`
	N    int    `json:"n"`
	V    *int64 `json:"v"`
	B    []int  `json:"b"`
	L    string `json:"l"`
	Body []Tok  `json:"body"`
}

// gen gives the content of the opaque fields: a pure function of (seed, field
// name, indices of the enclosing list elements), so that the renderer and the
// message builders agree without sharing state.
type gen struct {
	seed uint64
	huge []uint64 // values of the negative sentinels: huge[i-1] is -i
}

func splitmix(x *uint64) uint64 {
	*x += 0x9e3779b97f4a7c15
	z := *x
	z = (z ^ (z >> 30)) * 0xbf58476d1ce4e5b9
	z = (z ^ (z >> 27)) * 0x94d049bb133111eb
	return z ^ (z >> 31)
}

func (g *gen) key(name string, idx []int) uint64 {
	h := uint64(1469598103934665603) ^ g.seed
	for i := 0; i < len(name); i++ {
		h = (h ^ uint64(name[i])) * 1099511628211
	}
	for _, i := range idx {
		h = (h ^ uint64(uint32(i)) ^ 0xabcdef) * 1099511628211
		h ^= h >> 29
	}
	return h
}

// U64 is the value of an integer field (callers truncate to the field width).
func (g *gen) U64(name string, idx []int) uint64 {
	s := g.key(name, idx)
	return splitmix(&s)
}

// Bytes is the content of a byte-string field.
func (g *gen) Bytes(name string, idx []int, n int) []byte {
	out := make([]byte, n)
	g.fill(out, name, idx)
	return out
}

func (g *gen) fill(out []byte, name string, idx []int) {
	s := g.key(name, idx) ^ 0x5bd1e995
	i := 0
	for ; i+8 <= len(out); i += 8 {
		binary.LittleEndian.PutUint64(out[i:], splitmix(&s))
	}
	if i < len(out) {
		var t [8]byte
		binary.LittleEndian.PutUint64(t[:], splitmix(&s))
		copy(out[i:], t[:])
	}
}

// num maps a number of the specification (negative: sentinel of table Huge) to
// the integer it stands for.
func (g *gen) num(v int64) uint64 {
	if v >= 0 {
		return uint64(v)
	}
	i := int(-v)
	if i > len(g.huge) {
		panic(fmt.Sprintf("sentinel %d outside table Huge", v))
	}
	return g.huge[i-1]
}

func parseHuge(hex []string) ([]uint64, error) {
	out := make([]uint64, len(hex))
	for i, h := range hex {
		v, err := strconv.ParseUint(h, 16, 64)
		if err != nil {
			return nil, err
		}
		out[i] = v
	}
	return out, nil
}

// const tokens whose bytes the message builders need (the part of a field the
// specification fixes)
var wantedConst = map[string]bool{"a2.pfx": true}

// renderer turns token strings into bytes.
type renderer struct {
	g      *gen
	out    []byte
	consts map[string][]byte // bytes of the const tokens by field key (for the builders)
}

func idxKey(name string, idx []int) string {
	if len(idx) == 0 {
		return name
	}
	var sb strings.Builder
	sb.WriteString(name)
	for _, i := range idx {
		sb.WriteByte('#')
		sb.WriteString(strconv.Itoa(i))
	}
	return sb.String()
}

func putVarInt(out []byte, v uint64, w int) ([]byte, error) {
	switch w {
	case 1:
		if v >= 0xfd {
			return nil, fmt.Errorf("CompactSize %d does not fit one byte", v)
		}
		return append(out, byte(v)), nil
	case 3:
		if v > 0xffff {
			return nil, fmt.Errorf("CompactSize %d does not fit 3 bytes", v)
		}
		return append(out, 0xfd, byte(v), byte(v>>8)), nil
	case 5:
		if v > 0xffffffff {
			return nil, fmt.Errorf("CompactSize %d does not fit 5 bytes", v)
		}
		return append(out, 0xfe, byte(v), byte(v>>8), byte(v>>16), byte(v>>24)), nil
	case 9:
		var b [8]byte
		binary.LittleEndian.PutUint64(b[:], v)
		return append(append(out, 0xff), b[:]...), nil
	}
	return nil, fmt.Errorf("CompactSize width %d", w)
}

// render appends the bytes of ts; idx are the indices of the enclosing list
// elements (outermost first).
func (r *renderer) render(ts []Tok, idx []int) error {
	var next map[string]int // next element index per list label at this level
	for i := range ts {
		t := &ts[i]
		switch t.K {
		case "int", "be":
			var v uint64
			if t.V != nil {
				v = r.g.num(*t.V)
			} else {
				v = r.g.U64(t.F, idx)
			}
			var b [8]byte
			if t.K == "int" {
				binary.LittleEndian.PutUint64(b[:], v)
				r.out = append(r.out, b[:t.W]...)
			} else {
				binary.BigEndian.PutUint64(b[:], v<<(8*uint(8-t.W)))
				r.out = append(r.out, b[:t.W]...)
			}
		case "bytes":
			if t.N < 0 {
				return fmt.Errorf("token %s: %d bytes", t.F, t.N)
			}
			n := len(r.out)
			if cap(r.out)-n < t.N {
				nb := make([]byte, n, 2*cap(r.out)+t.N)
				copy(nb, r.out)
				r.out = nb
			}
			r.out = r.out[:n+t.N]
			r.g.fill(r.out[n:], t.F, idx)
		case "const":
			start := len(r.out)
			for _, b := range t.B {
				r.out = append(r.out, byte(b))
			}
			if r.consts != nil && wantedConst[t.F] {
				r.consts[idxKey(t.F, idx)] = append([]byte(nil), r.out[start:]...)
			}
		case "vi":
			if t.V == nil {
				return fmt.Errorf("vi token %s without value", t.F)
			}
			var err error
			r.out, err = putVarInt(r.out, r.g.num(*t.V), t.W)
			if err != nil {
				return fmt.Errorf("token %s: %w", t.F, err)
			}
		case "rep":
			if next == nil {
				next = map[string]int{}
			}
			base := next[t.L]
			sub := append(append([]int(nil), idx...), 0)
			for j := 0; j < t.N; j++ {
				sub[len(sub)-1] = base + j
				if err := r.render(t.Body, sub); err != nil {
					return err
				}
			}
			next[t.L] = base + t.N
		case "skip":
			if next == nil {
				next = map[string]int{}
			}
			next[t.L] += t.N
		default:
			return fmt.Errorf("token kind %q cannot be rendered", t.K)
		}
	}
	return nil
}

// renderTokens renders a token string on its own.
func renderTokens(g *gen, ts []Tok, idx []int, sizeHint int) ([]byte, map[string][]byte, error) {
	r := &renderer{g: g, out: make([]byte, 0, sizeHint), consts: map[string][]byte{}}
	err := r.render(ts, idx)
	return r.out, r.consts, err
}

// collectNames adds every field name of the token string to set.
func collectNames(ts []Tok, set map[string]bool) {
	for i := range ts {
		if ts[i].K == "rep" {
			collectNames(ts[i].Body, set)
		} else {
			set[ts[i].F] = true
		}
	}
}

func tokSize(ts []Tok) int {
	n := 0
	for i := range ts {
		t := &ts[i]
		switch t.K {
		case "int", "be", "vi":
			n += t.W
		case "bytes":
			n += t.N
		case "const":
			n += len(t.B)
		case "rep":
			n += t.N * tokSize(t.Body)
		}
	}
	return n
}

func parseToks(raw json.RawMessage) ([]Tok, error) {
	var ts []Tok
	if len(raw) == 0 {
		return nil, nil
	}
	err := json.Unmarshal(raw, &ts)
	return ts, err
}
