package wireh

import (
	"bufio"
	"bytes"
	"encoding/json"
	"fmt"
	"os"
	"os/exec"
	"path/filepath"
	"sort"
	"strings"
	"sync"
	"time"

	"github.com/btcsuite/btcd/wire/v2"

	"verif/harness/internal/tlc"
	"verif/harness/internal/vrun"
)

const emitPrefix = `"[\"CASE\",`

type rawCase struct {
	line   []byte // ["CASE", case, expect]
	kind   string
	typ    string
	api    string
	weight int
	heavy  bool // offers claims that make a decoder allocate tens of megabytes
}

// parseEmitted extracts the states TLC printed through EmitCase.
func parseEmitted(output string) ([]rawCase, error) {
	var out []rawCase
	sc := bufio.NewScanner(strings.NewReader(output))
	sc.Buffer(make([]byte, 1<<20), 1<<30)
	for sc.Scan() {
		l := sc.Text()
		if !strings.HasPrefix(l, emitPrefix) {
			continue
		}
		if !strings.HasSuffix(l, `"`) {
			return nil, fmt.Errorf("emitted state %d is cut short", len(out))
		}
		l = l[1 : len(l)-1]
		l = strings.ReplaceAll(l, `\"`, `"`)
		l = strings.ReplaceAll(l, `\\`, `\`)
		var head []json.RawMessage
		if err := json.Unmarshal([]byte(l), &head); err != nil || len(head) != 3 {
			return nil, fmt.Errorf("emitted state %d: not a JSON triple: %v", len(out), err)
		}
		var k struct {
			Kind string `json:"kind"`
			Type string `json:"type"`
			API  string `json:"api"`
		}
		if err := json.Unmarshal(head[1], &k); err != nil || k.Kind == "" {
			return nil, fmt.Errorf("emitted state %d: case has no kind", len(out))
		}
		out = append(out, rawCase{line: []byte(l), kind: k.Kind, typ: k.Type, api: k.API})
	}
	return out, sc.Err()
}

// caseWeight estimates the replay cost of a case: bytes of its encoding times inputs offered.
func caseWeight(line []byte) (int, *expectRec, *caseRec, error) {
	cr, er, err := parseTriple(line)
	if err != nil {
		return 0, nil, nil, err
	}
	var c caseRec
	var e expectRec
	if err := json.Unmarshal(cr, &c); err != nil {
		return 0, nil, nil, err
	}
	if err := json.Unmarshal(er, &e); err != nil {
		return 0, nil, nil, fmt.Errorf("%s/%s/%s: %w", c.Type, c.Enc, c.Shape, err)
	}
	n := len(e.Variants) + len(e.Frames) + 4
	return n*(200+e.Size/16) + e.Size/4, &e, &c, nil
}

type shard struct {
	id     int
	path   string
	lines  int
	weight int
	buf    bytes.Buffer
}

type childOutcome struct {
	results []caseResult
	crashes []viol
}

// runShard replays one shard in child processes, restarting after a crash behind the case that
// was running.
func runShard(c *vrun.Ctx, exe string, sh *shard) (*childOutcome, error) {
	out := &childOutcome{}
	outPath := sh.path + ".out"
	progPath := sh.path + ".progress"
	skip := 0
	for attempt := 0; attempt < 25; attempt++ {
		cmd := exec.Command(exe)
		cmd.Env = append(os.Environ(), "WIREH_CHILD=1", "WIREH_IN="+sh.path, "WIREH_OUT="+outPath, "WIREH_PROGRESS="+progPath,
			fmt.Sprintf("WIREH_SEED=%d", c.Seed), fmt.Sprintf("WIREH_SKIP=%d", skip), "GOMAXPROCS=2",
			// freed heap stays resident until the kernel wants it back: fresh memory is the
			// expensive part of replaying the allocation probes on a loaded machine
			"GODEBUG=madvdontneed=0")
		var stderr bytes.Buffer
		cmd.Stderr = &stderr
		cmd.Stdout = &stderr
		err := cmd.Run()
		if err == nil {
			break
		}
		tail := stderr.String()
		if len(tail) > 6000 {
			tail = tail[:3000] + "\n...\n" + tail[len(tail)-3000:]
		}
		if ee, ok := err.(*exec.ExitError); ok && ee.ExitCode() == 3 {
			return nil, fmt.Errorf("replay child (shard %d): %s", sh.id, tail)
		}
		// Only a fatal error of the Go runtime in the child is evidence about the decoders; a
		// child killed from outside (memory pressure of the machine, a signal) is not.
		if !strings.Contains(stderr.String(), "fatal error:") {
			return nil, fmt.Errorf("replay child (shard %d) was terminated without a runtime error (%v): %s", sh.id, err, tail)
		}
		// the process died: which case was running?
		pb, _ := os.ReadFile(progPath)
		lines := strings.Split(strings.TrimSpace(string(pb)), "\n")
		last := lines[len(lines)-1]
		var idx int
		var id string
		if _, serr := fmt.Sscanf(last, "%d %s", &idx, &id); serr != nil {
			return nil, fmt.Errorf("replay child (shard %d) died before its first case: %v\n%s", sh.id, err, tail)
		}
		parts := strings.Split(id, "/")
		typ := "?"
		if len(parts) > 1 {
			typ = parts[1]
		}
		first := strings.SplitN(strings.TrimSpace(tail), "\n", 2)[0]
		out.crashes = append(out.crashes, viol{Key: "crash:" + typ,
			What:   fmt.Sprintf("the process died (%v: %s) while the decoders were fed the inputs of case %s: a fatal runtime error is not recoverable", err, first, id),
			Replay: map[string]any{"case": id, "stderr": tail}})
		skip = idx + 1
		if skip >= sh.lines {
			break
		}
	}
	f, err := os.Open(outPath)
	if err != nil {
		return nil, fmt.Errorf("shard %d wrote no results: %w", sh.id, err)
	}
	defer f.Close()
	sc := bufio.NewScanner(f)
	sc.Buffer(make([]byte, 1<<20), 1<<30)
	for sc.Scan() {
		var r caseResult
		if err := json.Unmarshal(sc.Bytes(), &r); err != nil {
			return nil, fmt.Errorf("shard %d result: %w", sh.id, err)
		}
		out.results = append(out.results, r)
	}
	return out, sc.Err()
}

// Run is the C08 check.
func Run(c *vrun.Ctx) error {
	c.Ev.Coverage.Rule = "TLC enumerates the cases of WireCases.tla: message type (all 31 commands of btcd/wire, plus Serialize/Deserialize of transactions, blocks and headers) x protocol version " +
		"(every version at which a layout or a gate changes and its neighbours) x encoding (base / witness) x value shape (list counts 0, 1, 2, the CompactSize width boundaries 252/253/65535/65536, the limit, limit+1; " +
		"script and byte-string lengths likewise; segwit / legacy / mixed transactions; addrv2 network-id and length table; version message tails; reject command classes). Per case the specification gives the token layout, size, " +
		"the verdict of encoder, frame writer and decoder, and for every structured mutation (truncation at and one byte into / before the end of every token, also inside the first, second and last element of a list; " +
		"a non-canonical CompactSize at every CompactSize site in every wider width; hostile counts and lengths at every site: limit, limit+1, 0xffff, 0x10000, 2^31, 2^32-1, 2^32, 2^63-1, 2^64-1, body cut off or kept; trailing bytes; " +
		"27 framing faults and fault pairs) the verdict class (accept / short / malformed / unknown command). Every state is replayed into btcd: bytes = token->bytes rendering with seeded contents, message values built with the same contents. " +
		"distinct_nontrivial counts distinct (type, version, encoding, shape, mutation class, field, claimed value, cut, verdict) combinations; the unmutated encoding of a case counts as one. " +
		"Beside it WireBlockApi.tla enumerates every sequence of at most 4 accessor calls (Bytes, BytesNoWitness, Tx(i), Transactions, TxLoc, TxHash(i), Hash) on blocks of 3 and 4 transactions (with and without witness) built by NewBlock, " +
		"NewBlockFromBytes and NewBlockFromBlockAndBytes; each sequence is one distinct case: every return value and, afterwards, every identifier / cached byte string the API shows must equal the specification's table whatever the order. " +
		"WireStable.tla enumerates histories of decodes (ReadTxOut, MsgTx and MsgBlock under both encodings x script sizes 0/1/25/513/5000, length <= 2, thorough 3); all are replayed in one process, every decoded value is kept and must re-encode to its bytes after all later decodes and a burst of 200 more; " +
		"the replay children do the same with every value they accepted (ReadMessageWithEncodingN of every type, Deserialize*, ReadTxOut), re-checked after the rest of their shard."
	c.Assume("TLC evaluates the operators of WireLayout.tla correctly (token-level encoders, decoders, sizes, framing pipeline); the lemmas Decode(Encode(m)) = m, Encode(Decode(ts)) = ts, Size = Len(Encode), prefix-freeness, txid/wtxid token laws are invariants of the same run")
	c.Assume("structured hostile input only: truncations, oversized claims, non-canonical lengths, trailing bytes and framing faults derived from the layout model; this is NOT coverage-guided fuzzing of arbitrary byte strings, and field CONTENTS are seeded pseudo-random values, not adversarial ones")
	c.Assume("allocation is measured as the growth of the runtime metric /gc/heap/allocs:bytes (every byte allocated during the call, an upper bound of the peak; objects below 32 KiB are counted with a lag of at most about a megabyte) in a single-goroutine child process and compared with AllocFactor x MaxMessagePayload = 8 x 32 MiB from the specification")
	c.Assume("double SHA-256 (crypto/sha256) is trusted; identifiers are compared as double SHA-256 of the preimage token string the specification names")
	c.Assume("a transaction without inputs and exactly one output read under the witness encoding (BIP144's marker ambiguity) is not enumerated: its verdict depends on field contents")

	// --replay <file of out/replays>: re-run the one case the file names (the specification is
	// evaluated again, with the tier recorded in the file)
	var replayID string
	thorough := c.Thorough
	if c.Replay != "" {
		b, err := os.ReadFile(c.Replay)
		if err != nil {
			return err
		}
		var doc struct {
			Tier   string `json:"tier"`
			Replay struct {
				API   string `json:"api"`
				Type  string `json:"type"`
				Pver  uint32 `json:"pver"`
				Enc   string `json:"enc"`
				Shape string `json:"shape"`
				Case  string `json:"case"`
				Ctor  string `json:"constructor"`
				Dec   string `json:"decoder"`
			} `json:"replay"`
		}
		if err := json.Unmarshal(b, &doc); err != nil {
			return fmt.Errorf("%s: %w", c.Replay, err)
		}
		thorough = doc.Tier == "thorough"
		if doc.Replay.Ctor != "" { // an accessor-order finding: all sequences are replayed again
			return runBlockApi(c, thorough)
		}
		if doc.Replay.Dec != "" && doc.Replay.Case == "" { // a stability finding of the WireStable histories
			return runStable(c, thorough)
		}
		replayID = doc.Replay.Case
		if replayID == "" {
			replayID = fmt.Sprintf("%s/%s/%d/%s/%s", doc.Replay.API, doc.Replay.Type, doc.Replay.Pver, doc.Replay.Enc, doc.Replay.Shape)
		}
		thorough = doc.Tier == "thorough"
		c.Logf("replaying case %s (%s tier)", replayID, doc.Tier)
	}
	cfg, timeout := "WireCases_quick.cfg", 8*time.Minute
	if thorough {
		cfg, timeout = "WireCases_thorough.cfg", 28*time.Minute
	}
	// the accessor-order cases of btcutil.Block (WireBlockApi.tla) and the stability histories
	// (WireStable.tla) run beside the main enumeration
	apiErr := make(chan error, 1)
	if replayID == "" && os.Getenv("VERIF_WIRE_ONLY") == "" {
		go func() {
			err := runBlockApi(c, thorough)
			if err == nil {
				err = runStable(c, thorough)
			}
			apiErr <- err
		}()
	} else {
		apiErr <- nil
	}
	defer func() { <-apiErr }()
	res, err := tlc.Run(tlc.Opts{SpecDir: c.SpecDir("wire"), Module: "WireCases", Config: cfg, Workers: 6,
		Timeout: timeout, Scratch: c.Scratch, HeapGB: 8})
	if err != nil {
		return err
	}
	if !res.OK {
		return fmt.Errorf("WireCases.tla: TLC reports %s %s on the specification itself (not a verdict about btcd)", res.ErrKind, res.ErrName)
	}
	c.Logf("WireCases.tla: %d distinct states, %d generated, %.1fs", res.Distinct, res.Generated, res.WallS)
	c.AddModel(res.Distinct, res.Generated)
	cases, err := parseEmitted(res.Output)
	if err != nil {
		return err
	}
	res.Output = ""
	if int64(len(cases)) != res.Distinct {
		return fmt.Errorf("WireCases.tla: %d states emitted, TLC reports %d distinct", len(cases), res.Distinct)
	}

	// the root state and the cases
	var root *rawCase
	var list []rawCase
	byType := map[string]int{}
	for i := range cases {
		switch cases[i].kind {
		case "root":
			root = &cases[i]
		case "case":
			list = append(list, cases[i])
			byType[cases[i].api+":"+cases[i].typ]++
		}
	}
	if root == nil {
		return fmt.Errorf("no root state emitted")
	}
	// both actions of the specification were taken: Group made the group states, Pick the cases
	groups := 0
	for i := range cases {
		if cases[i].kind == "group" {
			groups++
		}
	}
	if groups == 0 || len(list) == 0 {
		return fmt.Errorf("WireCases.tla: actions never taken (group states %d, case states %d)", groups, len(list))
	}
	partial := os.Getenv("VERIF_WIRE_ONLY") != "" || replayID != ""
	if replayID != "" {
		var keep []rawCase
		for _, cs := range list {
			var k caseRec
			cr, _, err := parseTriple(cs.line)
			if err != nil {
				return err
			}
			if err := json.Unmarshal(cr, &k); err != nil {
				return err
			}
			if fmt.Sprintf("%s/%s/%d/%s/%s", k.API, k.Type, k.Pver, k.Enc, k.Shape) == replayID {
				keep = append(keep, cs)
			}
		}
		if len(keep) == 0 {
			return fmt.Errorf("replay: the specification has no case %s", replayID)
		}
		list = keep
	}
	if only := os.Getenv("VERIF_WIRE_ONLY"); only != "" { // development aid: restrict to one message type
		var keep []rawCase
		for _, cs := range list {
			if cs.typ == only {
				keep = append(keep, cs)
			}
		}
		list = keep
	}

	if kind := os.Getenv("VERIF_WIRE_CORRUPT"); kind != "" { // self-test: falsify one expected value
		if err := corruptOne(list, kind); err != nil {
			return err
		}
		c.Logf("SELF-TEST: one expected value of the specification was falsified (%s); the run must report a violation", kind)
	}

	// vacuity audit on the specification's side: every message type has cases, every mutation
	// class and every verdict class occurs, some input of every type is accepted
	var rootExp struct {
		Types             []string `json:"types"`
		SerTypes          []string `json:"sertypes"`
		AllocFactor       int64    `json:"allocfactor"`
		MaxMessagePayload int64    `json:"maxmessagepayload"`
		V2Ids             []string `json:"v2ids"`
		V2Known           []bool   `json:"v2known"`
		V2Long            []Tok    `json:"v2long"`
	}
	_, rexp, err := parseTriple(root.line)
	if err != nil {
		return err
	}
	if err := json.Unmarshal(rexp, &rootExp); err != nil {
		return err
	}
	if !partial {
		if err := checkV2Table(c, rootExp.Types, rootExp.V2Ids, rootExp.V2Known, rootExp.V2Long); err != nil {
			return err
		}
	}
	if !partial {
		var missing []string
		for _, t := range rootExp.Types {
			if byType["msg:"+t] == 0 {
				missing = append(missing, "msg:"+t)
			}
		}
		for _, t := range rootExp.SerTypes {
			if byType["ser:"+t] == 0 {
				missing = append(missing, "ser:"+t)
			}
		}
		if len(missing) > 0 || len(rootExp.Types) < 30 {
			return fmt.Errorf("WireCases.tla: message types without cases: %v (of %d types)", missing, len(rootExp.Types))
		}
	}
	clsSeen := map[string]int{}
	accepted := map[string]bool{}
	for i := range list {
		wgt, e, cr, err := caseWeight(list[i].line)
		if err != nil {
			return fmt.Errorf("case %d: %w", i, err)
		}
		list[i].weight = wgt
		list[i].heavy = e.Probe || e.Size > 8<<20
		if list[i].heavy {
			list[i].weight *= 20 // fresh memory: the estimate by bytes and inputs is far too low
		}
		if e.Dec == "ok" {
			accepted[cr.API+":"+cr.Type] = true
		}
		clsSeen["dec/"+e.Dec]++
		clsSeen["enc/"+e.EncRes]++
		clsSeen["write/"+e.Write]++
		for k := range e.Variants {
			clsSeen["variant/"+e.Variants[k].Cls+"/"+e.Variants[k].Res]++
		}
		for k := range e.Frames {
			clsSeen["frame/"+e.Frames[k].F+"/"+e.Frames[k].Res]++
		}
	}
	if !partial {
		var never []string
		for _, k := range []string{"dec/ok", "dec/malformed", "enc/ok", "enc/malformed", "write/ok", "write/malformed",
			"variant/trunc/short", "variant/trunc/ok", "variant/noncanon-cut/malformed", "variant/noncanon-spliced/malformed",
			"variant/hostile-cut/malformed", "variant/hostile-cut/short", "variant/hostile-spliced/malformed",
			"variant/junk/malformed", "variant/junk/ok", "frame/valid/ok", "frame/magic/malformed", "frame/command-unknown/unknown",
			"frame/checksum/malformed", "frame/length-type-max+1/malformed", "frame/length-type-max/short", "frame/stream-23/short"} {
			if clsSeen[k] == 0 {
				never = append(never, k)
			}
		}
		for k := range byType {
			if !accepted[k] {
				never = append(never, "accepted:"+k)
			}
		}
		sort.Strings(never)
		if len(never) > 0 {
			return fmt.Errorf("WireCases.tla: classes never produced: %v", never)
		}
		c.SetExtra("actions_never_taken", []string{})
	}
	c.SetExtra("cases_by_type", byType)
	c.SetExtra("spec_verdict_classes", clsSeen)

	// shards balanced by estimated cost, heaviest cases first
	nsh := 8
	if c.Workers < nsh {
		nsh = c.Workers
	}
	if nsh < 1 {
		nsh = 1
	}
	if len(list) < nsh {
		nsh = len(list)
	}
	if nsh == 0 {
		return fmt.Errorf("no cases")
	}
	order := make([]int, len(list))
	for i := range order {
		order[i] = i
	}
	sort.SliceStable(order, func(a, b int) bool { return list[order[a]].weight > list[order[b]].weight })
	shards := make([]*shard, nsh)
	for i := range shards {
		shards[i] = &shard{id: i, path: filepath.Join(c.Scratch, fmt.Sprintf("wire-shard-%d.ndjson", i))}
		shards[i].buf.Write(root.line)
		shards[i].buf.WriteByte('\n')
	}
	// Fresh memory is expensive on a loaded machine (first touch of 100 MB can take seconds):
	// all allocation-heavy cases go to one child, which grows its heap once and reuses it.
	for _, i := range order {
		best := shards[0]
		if !list[i].heavy {
			for _, sh := range shards[1:] {
				if sh.weight < best.weight {
					best = sh
				}
			}
		}
		best.buf.Write(list[i].line)
		best.buf.WriteByte('\n')
		best.weight += list[i].weight
		best.lines++
	}
	for _, sh := range shards {
		if err := os.WriteFile(sh.path, sh.buf.Bytes(), 0o644); err != nil {
			return err
		}
		sh.buf = bytes.Buffer{}
	}
	if keep := os.Getenv("VERIF_WIRE_KEEP_CASES"); keep != "" { // development aid
		var all bytes.Buffer
		all.Write(root.line)
		all.WriteByte('\n')
		for _, cs := range list {
			all.Write(cs.line)
			all.WriteByte('\n')
		}
		os.WriteFile(keep, all.Bytes(), 0o644)
	}
	ncases := len(list)
	cases, list = nil, nil

	exe, err := os.Executable()
	if err != nil {
		return err
	}
	t0 := time.Now()
	outs := make([]*childOutcome, nsh)
	errs := make([]error, nsh)
	var wg sync.WaitGroup
	for i := range shards {
		wg.Add(1)
		go func(i int) {
			defer wg.Done()
			outs[i], errs[i] = runShard(c, exe, shards[i])
		}(i)
	}
	wg.Wait()
	for _, err := range errs {
		if err != nil {
			return err
		}
	}
	var evals, rejected, acceptedN, kept int64
	var maxAlloc uint64
	maxAllocAt := ""
	done := 0
	var binderErrs []string
	type slow struct {
		ms int64
		id string
	}
	var slowest []slow
	for si, o := range outs {
		var ms int64
		for _, r := range o.results {
			ms += r.Ms
			slowest = append(slowest, slow{r.Ms, r.ID})
		}
		c.Logf("shard %d: %d cases, %.1fs in cases", si, len(o.results), float64(ms)/1000)
	}
	sort.Slice(slowest, func(a, b int) bool { return slowest[a].ms > slowest[b].ms })
	for i := 0; i < len(slowest) && i < 8; i++ {
		c.Logf("slow case: %6d ms %s", slowest[i].ms, slowest[i].id)
	}
	for _, o := range outs {
		for _, v := range o.crashes {
			c.Violation(v.Key, v.What, v.Replay)
			done++ // the crashed case
		}
		for _, r := range o.results {
			if !r.Extra {
				done++
			}
			kept += boolInt(r.Extra) * r.Evals
			evals += r.Evals
			rejected += r.Rejected
			acceptedN += r.Accepted
			if r.MaxAlloc > maxAlloc {
				maxAlloc, maxAllocAt = r.MaxAlloc, r.ID+": "+r.MaxAllocAt
			}
			for _, d := range r.Distinct {
				c.Distinct(d)
			}
			if r.Sample != nil {
				c.Sample(r.Sample)
			}
			if r.Err != "" {
				binderErrs = append(binderErrs, r.ID+": "+r.Err)
			}
			for _, v := range r.Violations {
				c.Violation(v.Key, v.What, v.Replay)
			}
		}
	}
	if len(binderErrs) > 0 {
		if len(binderErrs) > 5 {
			binderErrs = binderErrs[:5]
		}
		return fmt.Errorf("binder errors: %s", strings.Join(binderErrs, "; "))
	}
	if done != ncases {
		return fmt.Errorf("replayed %d cases of %d", done, ncases)
	}
	c.Logf("replay: %d cases, %d comparisons, %d refused and %d accepted inputs offered to the decoders, largest allocation %d bytes (%s), %.1fs in %d child processes",
		ncases, evals, rejected, acceptedN, maxAlloc, maxAllocAt, time.Since(t0).Seconds(), nsh)
	c.AddTraces(int64(ncases))
	c.AddEval(evals)
	c.SetExtra("decoded_values_rechecked_after_later_decodes", kept)
	c.SetExtra("hostile_inputs_offered", rejected)
	c.SetExtra("accepted_inputs_offered", acceptedN)
	c.SetExtra("largest_decoder_allocation_bytes", maxAlloc)
	c.SetExtra("largest_decoder_allocation_at", maxAllocAt)
	c.SetExtra("allocation_bound_bytes", rootExp.AllocFactor*rootExp.MaxMessagePayload)
	if err := <-apiErr; err != nil {
		return err
	}
	apiErr <- nil // for the deferred receive
	c.Ev.Coverage.Exhaustive = true
	c.Ev.Coverage.Explanation = "exhaustive means: every case TLC enumerated from WireCases.tla for this tier, with every mutation and framing fault the specification lists for it, was replayed into btcd. " +
		"It does not mean every field value or every byte string: values are covered by layout-relevant classes (counts, lengths, flags, version epochs) with seeded pseudo-random contents, " +
		"malformed inputs by the structured classes named in `rule`."
	return nil
}

// corruptOne falsifies one expected value of an inv case (self-test of the binding: the run
// must then report a violation).  kind: size | res | token | back.
func corruptOne(list []rawCase, kind string) error {
	for i := range list {
		if list[i].typ != "inv" {
			continue
		}
		var tr []any
		dec := json.NewDecoder(bytes.NewReader(list[i].line))
		dec.UseNumber()
		if err := dec.Decode(&tr); err != nil {
			return err
		}
		cs, ex := tr[1].(map[string]any), tr[2].(map[string]any)
		if cs["shape"] != "n-2" {
			continue
		}
		switch kind {
		case "size":
			n, _ := ex["size"].(json.Number).Int64()
			ex["size"] = n + 1
		case "res":
			vs := ex["variants"].([]any)
			for _, v := range vs {
				vm := v.(map[string]any)
				if vm["cls"] == "trunc" && vm["res"] == "short" {
					vm["res"] = "malformed"
					break
				}
			}
		case "token":
			toks := ex["tokens"].([]any)
			body := toks[1].(map[string]any)["body"].([]any)
			body[0].(map[string]any)["w"] = 2 // inv.type written with 2 bytes
			sz, _ := ex["size"].(json.Number).Int64()
			ex["size"] = sz - 4
		case "back":
			ex["back"] = map[string]any{"inv": []any{map[string]any{"n": 1, "e": []any{}}}}
		default:
			return fmt.Errorf("VERIF_WIRE_CORRUPT=%s: unknown kind", kind)
		}
		b, err := json.Marshal(tr)
		if err != nil {
			return err
		}
		list[i].line = b
		return nil
	}
	return fmt.Errorf("corrupt: no inv case n-2")
}

// checkV2Table compares btcd's BIP324 short-id table with the specification's, in both directions:
// the head WriteV2MessageN writes for every message type, and for every possible first byte whether
// ReadV2MessageN knows a message for it.
func checkV2Table(c *vrun.Ctx, types, ids []string, known []bool, long []Tok) error {
	if len(ids) != 28 || len(known) != len(ids) || len(long) == 0 {
		return fmt.Errorf("root state lacks the v2 tables (%d ids)", len(ids))
	}
	idOf := map[string]int{}
	for i, n := range ids {
		idOf[n] = i + 1
	}
	evals := int64(0)
	for _, t := range types {
		m := emptyMsg(t)
		if m == nil {
			return fmt.Errorf("no message value for type %s", t)
		}
		var want []byte
		if id := idOf[t]; id > 0 {
			want = []byte{byte(id)}
		} else {
			var err error
			if want, err = headBytes(long, []byte(t)); err != nil {
				return err
			}
		}
		var buf bytes.Buffer
		wire.WriteV2MessageN(&buf, m, 70016, wire.WitnessEncoding) // the head is written first, whatever the payload
		got := buf.Bytes()
		evals++
		if len(got) < len(want) || !bytes.Equal(got[:len(want)], want) {
			c.Violation("v2-table:write:"+t, fmt.Sprintf("WriteV2MessageN(%s) starts with %x, the specification's head is %x", t, got[:min(len(got), 13)], want),
				map[string]any{"type": t})
		}
	}
	for b := 0; b < 256; b++ {
		var cls string
		var err error
		func() {
			defer func() {
				if r := recover(); r != nil {
					cls = "panic"
					err = fmt.Errorf("%v", r)
				}
			}()
			_, _, err = wire.ReadV2MessageN([]byte{byte(b)}, 70016, wire.WitnessEncoding)
			cls = classify(err)
		}()
		var ok bool
		switch {
		case b == 0:
			ok = cls == "malformed" // a long head cut after its first byte
		case b <= len(ids) && known[b-1]:
			ok = cls != "unknown" && cls != "panic"
		default:
			ok = cls == "unknown"
		}
		evals++
		if !ok {
			name := ""
			if b >= 1 && b <= len(ids) {
				name = ids[b-1]
			}
			c.Violation(fmt.Sprintf("v2-table:read:%d", b), fmt.Sprintf("ReadV2MessageN of the single byte %#02x (short id of %q in the specification): %s (%v)", b, name, cls, err),
				map[string]any{"first_byte": b})
		}
	}
	c.AddEval(evals)
	return nil
}

func boolInt(b bool) int64 {
	if b {
		return 1
	}
	return 0
}
