package wireh

import (
	"bufio"
	"bytes"
	"encoding/json"
	"fmt"
	"strings"
	"time"

	"github.com/btcsuite/btcd/wire/v2"

	"verif/harness/internal/tlc"
	"verif/harness/internal/vrun"
)

// "Decoded values are stable" (WireStable.tla): a value a decoder returned must not change under
// later decodes.  keeper holds decoded values together with the bytes they re-encoded to right
// after the decode; flush runs a burst of further decodes and re-encodes every kept value again.

type keptValue struct {
	kind  string // decoder
	id    string
	want  []byte                 // re-encoding taken immediately after the decode
	reenc func() ([]byte, error) // re-encodes the kept value now
	redo  func()                 // decodes the same input once more into a value that is dropped
}

type keeper struct {
	vals  []keptValue
	bytes int
}

const (
	keepMaxValue = 256 << 10 // larger encodings are not kept
	keepMaxBytes = 96 << 20  // flush when the kept values are estimated to hold this much
	keepMaxCount = 3000
	burstDecodes = 200
)

func (k *keeper) keep(v keptValue, retained int) {
	if len(v.want) > keepMaxValue {
		return
	}
	k.vals = append(k.vals, v)
	k.bytes += 3*len(v.want) + retained + 256
}

func (k *keeper) full() bool { return k.bytes > keepMaxBytes || len(k.vals) > keepMaxCount }

// flush: at least burstDecodes further decodes of the kept inputs (all sizes and decoders of the
// batch, round robin), then every kept value must still re-encode to the same bytes.
func (k *keeper) flush() (evals int64, out []viol) {
	if len(k.vals) == 0 {
		return 0, nil
	}
	n := 0
	for n < burstDecodes {
		for i := range k.vals {
			if k.vals[i].redo != nil {
				func() {
					defer func() { recover() }()
					k.vals[i].redo()
				}()
				n++
				if n >= burstDecodes {
					break
				}
			}
		}
		if n == 0 {
			break
		}
	}
	for i := range k.vals {
		v := &k.vals[i]
		evals++
		var got []byte
		var err error
		func() {
			defer func() {
				if r := recover(); r != nil {
					err = fmt.Errorf("panic: %v", r)
				}
			}()
			got, err = v.reenc()
		}()
		if err != nil || !bytes.Equal(got, v.want) {
			what := fmt.Sprintf("%s: the value %s returned for %s re-encoded to %d bytes right after the decode; after %d kept values and a burst of %d further decodes it re-encodes differently (err=%v, %s): a later decode changed a value that had been returned",
				v.kind, v.kind, v.id, len(v.want), len(k.vals), n, err, firstDiff(v.want, got))
			out = append(out, viol{Key: "unstable:" + v.kind, What: what,
				Replay: map[string]any{"decoder": v.kind, "case": v.id, "bytes_hex": hexHead(v.want), "later_hex": hexHead(got)}})
			if len(out) > 50 {
				break
			}
		}
	}
	k.vals, k.bytes = nil, 0
	return evals, out
}

// ---- the histories of WireStable.tla, replayed in the parent process

type stableItem struct {
	Kind   string          `json:"kind"`
	Size   int             `json:"size"`
	Type   string          `json:"type"`
	Enc    string          `json:"enc"`
	M      json.RawMessage `json:"m"`
	Tokens []Tok           `json:"tokens"`
}

type stableOp struct {
	Kind string `json:"kind"`
	Size int    `json:"size"`
}

// decodeItem decodes the rendered item with the decoder of its kind and returns the keeper entry.
func decodeItem(it *stableItem, g *gen, id string) (keptValue, int, error) {
	in, _, err := renderTokens(g, it.Tokens, nil, 1024)
	if err != nil {
		return keptValue{}, 0, err
	}
	names := map[string]bool{}
	collectNames(it.Tokens, names)
	b := &builder{g: g, names: names}
	kv := keptValue{kind: it.Kind, id: id}
	retained := 0
	switch it.Kind {
	case "txout":
		var to wire.TxOut
		if err := wire.ReadTxOut(bytes.NewReader(in), 0, 0, &to); err != nil {
			return kv, 0, fmt.Errorf("ReadTxOut: %w", err)
		}
		var v struct {
			PK int `json:"pk"`
		}
		if err := json.Unmarshal(it.M, &v); err != nil {
			return kv, 0, err
		}
		exp := wire.TxOut{Value: int64(b.u64("out.value", nil)), PkScript: b.bytes("out.pk", nil, v.PK)}
		if ok, why := sameValue(to, exp); !ok {
			return kv, 0, fmt.Errorf("ReadTxOut: decoded output differs from the specification's value at %s", why)
		}
		kv.reenc = func() ([]byte, error) {
			var buf bytes.Buffer
			err := wire.WriteTxOut(&buf, 0, 0, &to)
			return buf.Bytes(), err
		}
		kv.redo = func() {
			var d wire.TxOut
			wire.ReadTxOut(bytes.NewReader(in), 0, 0, &d)
		}
		retained = 4 << 20 // the output's script points into a buffer of the size of the script slab
	case "tx-base", "tx-witness":
		var tx wire.MsgTx
		wit := it.Kind == "tx-witness"
		dec := func(d *wire.MsgTx) error {
			if wit {
				return d.Deserialize(bytes.NewReader(in))
			}
			return d.DeserializeNoWitness(bytes.NewReader(in))
		}
		if err := dec(&tx); err != nil {
			return kv, 0, fmt.Errorf("%s: %w", it.Kind, err)
		}
		exp, err := b.build("tx", it.M)
		if err != nil {
			return kv, 0, err
		}
		if ok, why := sameValue(&tx, exp); !ok {
			return kv, 0, fmt.Errorf("%s: decoded transaction differs from the specification's value at %s", it.Kind, why)
		}
		kv.reenc = func() ([]byte, error) {
			var buf bytes.Buffer
			var err error
			if wit {
				err = tx.Serialize(&buf)
			} else {
				err = tx.SerializeNoWitness(&buf)
			}
			return buf.Bytes(), err
		}
		kv.redo = func() { var d wire.MsgTx; dec(&d) }
	case "block", "block-base":
		var blk wire.MsgBlock
		wit := it.Kind == "block"
		dec := func(d *wire.MsgBlock) error {
			if wit {
				return d.Deserialize(bytes.NewReader(in))
			}
			return d.DeserializeNoWitness(bytes.NewReader(in))
		}
		if err := dec(&blk); err != nil {
			return kv, 0, fmt.Errorf("%s: %w", it.Kind, err)
		}
		exp, err := b.build("block", it.M)
		if err != nil {
			return kv, 0, err
		}
		if ok, why := sameValue(&blk, exp); !ok {
			return kv, 0, fmt.Errorf("%s: decoded block differs from the specification's value at %s", it.Kind, why)
		}
		kv.reenc = func() ([]byte, error) {
			var buf bytes.Buffer
			var err error
			if wit {
				err = blk.Serialize(&buf)
			} else {
				err = blk.SerializeNoWitness(&buf)
			}
			return buf.Bytes(), err
		}
		kv.redo = func() { var d wire.MsgBlock; dec(&d) }
	default:
		return kv, 0, fmt.Errorf("decoder kind %q", it.Kind)
	}
	kv.want = in
	return kv, retained, nil
}

func runStable(c *vrun.Ctx, thorough bool) error {
	cfg := "WireStable_quick.cfg"
	if thorough {
		cfg = "WireStable_thorough.cfg"
	}
	res, err := tlc.Run(tlc.Opts{SpecDir: c.SpecDir("wire"), Module: "WireStable", Config: cfg, Workers: 2,
		Timeout: 10 * time.Minute, Scratch: c.Scratch, HeapGB: 3})
	if err != nil {
		return err
	}
	if !res.OK {
		return fmt.Errorf("WireStable.tla: TLC reports %s %s on the specification itself (not a verdict about btcd)", res.ErrKind, res.ErrName)
	}
	var hists [][]stableOp
	items := map[string]map[string]*stableItem{}
	var hugeHex []string
	sc := bufio.NewScanner(strings.NewReader(res.Output))
	sc.Buffer(make([]byte, 1<<20), 1<<28)
	for sc.Scan() {
		l := sc.Text()
		switch {
		case strings.HasPrefix(l, `"[\"HIST\",`) && strings.HasSuffix(l, `"`):
			var parts []json.RawMessage
			if err := json.Unmarshal([]byte(unquoteEmitted(l)), &parts); err != nil || len(parts) != 2 {
				return fmt.Errorf("HIST line: %v", err)
			}
			var h []stableOp
			if err := json.Unmarshal(parts[1], &h); err != nil {
				return err
			}
			hists = append(hists, h)
		case strings.HasPrefix(l, `"[\"ITEMS\",`) && strings.HasSuffix(l, `"`):
			var parts []json.RawMessage
			if err := json.Unmarshal([]byte(unquoteEmitted(l)), &parts); err != nil || len(parts) != 3 {
				return fmt.Errorf("ITEMS line: %v", err)
			}
			if err := json.Unmarshal(parts[1], &items); err != nil {
				return err
			}
			if err := json.Unmarshal(parts[2], &hugeHex); err != nil {
				return err
			}
		}
	}
	if int64(len(hists)) != res.Distinct || len(items) == 0 {
		return fmt.Errorf("WireStable.tla: %d histories emitted, TLC reports %d distinct states, %d decoder kinds", len(hists), res.Distinct, len(items))
	}
	c.Logf("WireStable.tla: %d distinct states, %d generated, %.1fs", res.Distinct, res.Generated, res.WallS)
	c.AddModel(res.Distinct, res.Generated)
	huge, err := parseHuge(hugeHex)
	if err != nil {
		return err
	}
	// vacuity: every decoder kind and size occurs in a history, histories reach length 2
	seen := map[string]int{}
	maxLen := 0
	for _, h := range hists {
		for _, op := range h {
			seen[op.Kind]++
			seen[fmt.Sprint("size-", op.Size)]++
		}
		if len(h) > maxLen {
			maxLen = len(h)
		}
	}
	for k, m := range items {
		if seen[k] == 0 {
			return fmt.Errorf("WireStable.tla: decoder kind %s in no history", k)
		}
		for s := range m {
			if seen["size-"+s] == 0 {
				return fmt.Errorf("WireStable.tla: size %s in no history", s)
			}
		}
	}
	if maxLen < 2 || seen["txout"] == 0 || seen["tx-witness"] == 0 || seen["block"] == 0 {
		return fmt.Errorf("WireStable.tla: histories too short or decoders missing (%v)", seen)
	}
	t0 := time.Now()
	var k keeper
	var evals, decodes int64
	flush := func() {
		n, vs := k.flush()
		evals += n
		for _, v := range vs {
			c.Violation(v.Key, v.What, v.Replay)
		}
	}
	for hi, h := range hists {
		for oi, op := range h {
			it := items[op.Kind][fmt.Sprint(op.Size)]
			if it == nil {
				return fmt.Errorf("history names unknown item %s/%d", op.Kind, op.Size)
			}
			g := &gen{seed: uint64(c.Seed), huge: huge}
			g.seed = g.key("stable|"+op.Kind, []int{op.Size, hi, oi})
			kv, retained, err := decodeItem(it, g, fmt.Sprintf("history %d step %d (%s, scripts of %d bytes)", hi, oi+1, op.Kind, op.Size))
			if err != nil {
				// the item is a valid encoding by ItemLaw: a decoder that refuses it or returns another value
				c.Violation("roundtrip:"+it.Type+":stable", err.Error(), map[string]any{"decoder": op.Kind, "size": op.Size})
				continue
			}
			decodes++
			k.keep(kv, retained)
			if k.full() {
				flush()
			}
		}
		c.Distinct(fmt.Sprint("stable|", h))
	}
	flush()
	c.AddTraces(int64(len(hists)))
	c.AddEval(evals + decodes)
	c.SetExtra("stable_histories", len(hists))
	c.SetExtra("stable_values_rechecked", evals)
	c.Logf("stable values: %d decode histories (length <= %d), %d values kept and re-encoded after later decodes, %.1fs", len(hists), maxLen, evals, time.Since(t0).Seconds())
	return nil
}
