package wireh

import (
	"bytes"
	"fmt"

	"github.com/btcsuite/btcd/wire/v2"
)

// BIP324 (v2 transport) message framing: WriteV2MessageN / ReadV2MessageN against the
// specification's ReadV2 pipeline, short-id table and head layout.

type v2Frame struct {
	F       string `json:"f"`
	Kind    string `json:"kind"`
	ID      int    `json:"id"`
	Head    int    `json:"head"`
	Cmd     string `json:"cmd"`
	Pay     string `json:"pay"`
	Junk    []int  `json:"junk"`
	N       int    `json:"n"`
	Res     string `json:"res"`
	AltHead bool   `json:"althead"`
}

// commandBytes is what stands in a command field for the modes of the specification.
func commandBytes(mode, typ string) ([]byte, error) {
	switch mode {
	case "ok":
		return []byte(typ), nil
	case "unknown":
		return []byte("bogus"), nil
	case "nulgarbage":
		cmd := append(append([]byte(typ), 0), 'x')
		if len(cmd) > 12 {
			cmd = append([]byte("inv"), 0, 'x')
		}
		return cmd, nil
	case "badutf8":
		return []byte{'i', 'n', 'v', 0xff, 0xfe}, nil
	case "zero":
		return nil, nil
	}
	return nil, fmt.Errorf("command mode %q", mode)
}

// headBytes renders a head token string (v2.id / v2.long + command) with the given command.
func headBytes(toks []Tok, cmd []byte) ([]byte, error) {
	var out []byte
	for _, t := range toks {
		switch {
		case t.K == "const":
			for _, b := range t.B {
				out = append(out, byte(b))
			}
		case t.K == "bytes" && t.F == "command":
			if len(cmd) > t.N {
				return nil, fmt.Errorf("command of %d bytes for a field of %d", len(cmd), t.N)
			}
			f := make([]byte, t.N)
			copy(f, cmd)
			out = append(out, f...)
		default:
			return nil, fmt.Errorf("head token %s/%s", t.K, t.F)
		}
	}
	return out, nil
}

type v2Out struct {
	class string
	err   error
	msg   wire.Message
	rest  []byte
	alloc uint64
	pan   any
}

func (w *worker) readV2(plaintext []byte) v2Out {
	var o v2Out
	o.class, o.err, o.alloc, o.pan = guarded(func() error {
		var err error
		o.msg, o.rest, err = wire.ReadV2MessageN(plaintext, w.c.Pver, encOf(w.c.Enc))
		return err
	})
	return o
}

// checkV2 runs the v2 framing comparisons of one message case; p is the rendered payload.
func (w *worker) checkV2(c *caseRec, e *expectRec, g *gen, b *builder, p []byte) {
	pver, enc := c.Pver, encOf(c.Enc)
	canonHead, err := headBytes(e.V2Head, []byte(c.Type))
	if err != nil {
		w.cur.Err = "v2 head: " + err.Error()
		return
	}
	// what re-encoding the decoded value of the payload gives (as for the v1 frame)
	rePay := p
	if !e.Canon && e.Dec == "ok" {
		if rePay, _, err = renderTokens(g, e.Reenc, nil, len(p)+64); err != nil {
			w.cur.Err = "render reenc: " + err.Error()
			return
		}
	}
	// ---- writer
	if e.Encodable {
		msg, err := b.build(c.Type, c.M)
		if err != nil {
			w.cur.Err = "build: " + err.Error()
			return
		}
		want := p
		if len(e.EncTokens) > 0 {
			if want, _, err = renderTokens(g, e.EncTokens, nil, len(p)+64); err != nil {
				w.cur.Err = "render enctokens: " + err.Error()
				return
			}
		}
		var buf bytes.Buffer
		var n int
		cls, werr, _, pan := guarded(func() error {
			var err error
			n, err = wire.WriteV2MessageN(&buf, msg, pver, enc)
			return err
		})
		w.cur.Evals++
		switch {
		case pan != nil:
			w.violate("panic:"+c.Type+":write-v2", fmt.Sprintf("WriteV2MessageN panicked: %v", pan), nil)
		case cls != e.Write:
			w.violate("write-decision:"+c.Type+":v2", fmt.Sprintf("WriteV2MessageN: the specification says %s, btcd says %s (%v)", e.Write, cls, werr), nil)
		case cls == "ok":
			w.cur.Evals += 2
			full := append(append([]byte(nil), canonHead...), want...)
			if !bytes.Equal(buf.Bytes(), full) {
				w.violate("layout:"+c.Type+":v2", "WriteV2MessageN bytes differ from head + payload of the specification: "+firstDiff(full, buf.Bytes()),
					map[string]any{"spec_hex": hexHead(full), "btcd_hex": hexHead(buf.Bytes())})
			}
			if n != len(full) {
				w.violate("size:"+c.Type+":v2", fmt.Sprintf("WriteV2MessageN reports %d bytes, wrote %d, specification %d", n, buf.Len(), len(full)), nil)
			}
		}
	}
	// ---- reader: the plaintexts the specification lists
	for k := range e.V2 {
		f := &e.V2[k]
		var head []byte
		switch f.Kind {
		case "empty":
		case "short":
			head = []byte{byte(f.ID)}
		case "long":
			cmd, err := commandBytes(f.Cmd, c.Type)
			if err == nil {
				head, err = headBytes(w.root.V2Long, cmd)
			}
			if err != nil {
				w.cur.Err = "v2 frame " + f.F + ": " + err.Error()
				return
			}
			if f.Head < len(head) {
				head = head[:f.Head]
			}
		default:
			w.cur.Err = "v2 frame kind " + f.Kind
			return
		}
		var pay []byte
		switch f.Pay {
		case "base":
			pay = p
		case "none":
		case "junk":
			for _, x := range f.Junk {
				pay = append(pay, byte(x))
			}
		case "fill":
			pay = g.Bytes("v2.fill", nil, f.N)
		default:
			w.cur.Err = "v2 frame payload " + f.Pay
			return
		}
		if f.Kind == "long" && f.Head < 13 {
			pay = nil
		}
		in := append(append(make([]byte, 0, len(head)+len(pay)), head...), pay...)
		o := w.readV2(in)
		where := fmt.Sprintf("ReadV2MessageN(%s: %s head of %d bytes, command %s, payload %s, %d bytes in all)", f.F, f.Kind, len(head), f.Cmd, f.Pay, len(in))
		ex := map[string]any{"v2": f}
		w.harmless(where, "v2", o.alloc, o.pan, in, ex)
		w.distinct(c.Type, "|", c.Pver, "|", c.Enc, "|", c.Shape, "|v2|", f.F, "|", f.Res)
		if !w.compareDecision(where, "v2-"+f.F, f.Res, o.class, o.err, in, ex) {
			continue
		}
		w.cur.Evals++
		if !bytes.Equal(o.rest, pay) {
			w.violate("payload:"+c.Type+":v2", fmt.Sprintf("%s: returned payload differs from the bytes behind the head: %s", where, firstDiff(pay, o.rest)), ex)
		}
		if f.Pay != "base" && f.Pay != "none" {
			continue // trailing bytes taken for optional fields: contents are not the generator's
		}
		if f.Pay == "base" {
			exp, err := b.build(c.Type, e.Back)
			if err != nil {
				w.cur.Err = "build decoded value: " + err.Error()
				return
			}
			w.cur.Evals++
			if ok, why := sameValue(o.msg, exp); !ok {
				w.violate("roundtrip:"+c.Type+":v2", fmt.Sprintf("%s: decoded message differs from the value the v1 frame delivers at %s", where, why), ex)
			}
		}
		// Encode(Decode(bs)): the sender's head, and the payload as for the v1 frame
		var again bytes.Buffer
		if _, werr := wire.WriteV2MessageN(&again, o.msg, pver, enc); werr != nil {
			w.violate("reencode:"+c.Type+":v2", fmt.Sprintf("%s: the accepted message cannot be written back: %v", where, werr), ex)
			continue
		}
		wantPay := pay
		if f.Pay == "base" {
			wantPay = rePay
		}
		wantAgain := append(append([]byte(nil), canonHead...), wantPay...)
		w.cur.Evals++
		if !bytes.Equal(again.Bytes(), wantAgain) {
			w.violate("reencode:"+c.Type+":v2", fmt.Sprintf("%s: re-encoding differs from the specification's: %s", where, firstDiff(wantAgain, again.Bytes())),
				map[string]any{"input_hex": hexHead(in), "reencoded_hex": hexHead(again.Bytes())})
			continue
		}
		if f.AltHead && !bytes.Equal(again.Bytes(), in) {
			w.violate("noncanonical-accepted:v2:long-form-of-short-id-command",
				fmt.Sprintf("%s: the 13-byte long form is accepted for a command that has a short id; it re-encodes with the short id: %s", where, firstDiff(in, again.Bytes())),
				map[string]any{"input_hex": hexHead(in), "reencoded_hex": hexHead(again.Bytes())})
		}
	}
}

// readV2Variant offers a mutated payload behind the sender's head: the verdict is the v1 frame's.
func (w *worker) readV2Variant(c *caseRec, canonHead []byte, v *variant, in []byte, b *builder) {
	pt := append(append(make([]byte, 0, len(canonHead)+len(in)), canonHead...), in...)
	o := w.readV2(pt)
	where := fmt.Sprintf("ReadV2MessageN(%s %s at=%d del=%d ins=%s cut=%d)", v.Cls, v.F, v.At, v.Del, viDesc(v.Ins), v.Cut)
	ex := variantExtra(v)
	w.harmless(where, "v2-"+v.Cls, o.alloc, o.pan, pt, ex)
	if w.compareDecision(where, "v2-"+v.Cls, v.Res, o.class, o.err, pt, ex) && v.Chk {
		exp, err := b.build(c.Type, v.Val)
		if err != nil {
			w.cur.Err = "build decoded value: " + err.Error()
			return
		}
		w.cur.Evals++
		if ok, why := sameValue(o.msg, exp); !ok {
			w.violate("roundtrip:"+c.Type+":v2", fmt.Sprintf("%s: decoded message differs from the value of the specification at %s", where, why), ex)
		}
	}
}
