#!/bin/sh
# Offline setup: make sure the harness module resolves and warm the build cache.
set -e
cd "$(dirname "$0")/harness"
export GOFLAGS=-mod=mod GOPROXY=off
cat /repo/go.sum /repo/*/go.sum go.sum 2>/dev/null | sort -u > go.sum.new && mv go.sum.new go.sum
go build -tags verif ./... 
mkdir -p ../bin ../evidence ../out/replays
echo setup ok
