------------------------------- MODULE Bip68 --------------------------------
(***************************************************************************)
(* C13, relative lock times (BIP68) as a machine over block histories.     *)
(*                                                                         *)
(* A state is a chain of block timestamps (chain[h + 1] is the time of the *)
(* block at height h).  A step mines one more block whose time is larger   *)
(* than the median time past of the tip (the only constraint consensus     *)
(* puts on it here), so times may go backwards.  In every state `expect`   *)
(* holds, for each query (a transaction given by its version and inputs,    *)
(* asked for the block after the tip), the sequence lock the definition     *)
(* yields on this chain.                                                    *)
(*                                                                         *)
(* Input i of a transaction: sequence number [hi, lo] (two 16-bit words:    *)
(* bit 31 = top bit of hi disables the lock, bit 22 = bit 6 of hi selects   *)
(* units of 512 seconds instead of blocks, lo is the value; all other bits  *)
(* mean nothing) and the height of the block that holds the output it       *)
(* spends (Mempool: not yet in a block, taken to be the next block).        *)
(*                                                                         *)
(*   height lock:  input height + value - 1                                 *)
(*   time lock:    median time past of the block BEFORE the input's block   *)
(*                 + 512 * value - 1                                        *)
(*   the transaction's lock is the maximum per kind, -1 when there is none; *)
(*   the lock is met in a block whose height and whose predecessor's median *)
(*   time past are both strictly larger.                                    *)
(*                                                                         *)
(* Forks: from a history of ForkMain blocks on top of the preamble a side   *)
(* branch can be grown at the last preamble block (the fork point), with    *)
(* its own timestamps, until it is one block longer than the main branch:   *)
(* the node then has to validate the side branch while the main branch is   *)
(* still its best chain.  The lock of a transaction in a side-branch block   *)
(* is defined by that block's OWN ancestors (the preamble and the side      *)
(* branch), never by the blocks the best chain has at the same heights.      *)
(*                                                                         *)
(* BIP68 applies to transactions of version >= 2 (as an unsigned number),   *)
(* never to a coinbase, always for the mempool and in blocks once the CSV   *)
(* deployment is active (here: from height CsvHeight on).                   *)
(***************************************************************************)
EXTENDS Integers, Sequences, FiniteSets, TLC

CONSTANTS Tier

VARIABLES pre,      \* number of evenly spaced blocks mined before the enumerated ones
          chain,
          meds,     \* meds[h + 1] = median time past of the block at height h
          side,     \* times of the side branch blocks (heights pre + 1, pre + 2, ...), << >> when there is none
          smeds,    \* medians along the side branch's own chain (preamble, then side), << >> when there is none
          expect
vars == <<pre, chain, meds, side, smeds, expect>>

Thorough == Tier = "thorough"

Base      == 1700000000
Spacing   == 600
Preambles == IF Thorough THEN {0, 5, 12} ELSE {0, 12}
Depth(p)  == IF Thorough THEN (IF p = 0 THEN 6 ELSE 5) ELSE IF p = 0 THEN 4 ELSE 3
\* a step: 0 = the earliest time allowed (one second past the tip's median
\* time past), otherwise a distance from the tip's time
Steps     == IF Thorough THEN {0, 1, 600, 7000} ELSE {0, 600, 7000}
CsvHeight(p) == p + 2
\* forks: the preambles that are forked, the length of the main branch above
\* the fork point when the side branch appears (the side branch grows one
\* block longer), and the steps main branches that get forked are made of
ForkPres     == IF Thorough THEN {5, 12} ELSE {12}
ForkMain     == 2
ForkMainSteps == IF Thorough THEN {0, 600, 7000} ELSE {600, 7000}
Mempool   == -1

Max(S) == CHOOSE x \in S : \A y \in S : y <= x
Range(f) == {f[i] : i \in DOMAIN f}

-----------------------------------------------------------------------------
(* median time past of the block at height h: the median of the times of    *)
(* the (up to) eleven blocks ending with it; of an even number the upper    *)

Window(c, h) == SubSeq(c, (IF h - 10 < 0 THEN 0 ELSE h - 10) + 1, h + 1)
Kth(w, k) == CHOOSE x \in Range(w) :
                /\ Cardinality({i \in DOMAIN w : w[i] < x}) <= k
                /\ k < Cardinality({i \in DOMAIN w : w[i] <= x})
MTP(c, h) == LET w == Window(c, h) IN Kth(w, Len(w) \div 2)

TipHeight(c) == Len(c) - 1

\* the median times past of all blocks of a chain: Medians(c)[h + 1] = MTP(c, h)
\* (the history enters the locks only through these and the tip height)
Medians(c) == [i \in 1..Len(c) |-> MTP(c, i - 1)] \o << >>

-----------------------------------------------------------------------------
(* the definition; m = Medians(chain), t = height of the tip *)

Disabled(in)  == in.hi >= 32768
InSeconds(in) == (in.hi \div 64) % 2 = 1
InHeight(t, in) == IF in.h = Mempool THEN t + 1 ELSE in.h

TimeLock(m, t, in) ==
    LET ih == InHeight(t, in)
        before == IF ih - 1 < 0 THEN 0 ELSE ih - 1
    IN  m[before + 1] + 512 * in.lo - 1
HeightLock(t, in) == InHeight(t, in) + in.lo - 1

Enforced(t, p, q) ==
    /\ (q.version >= 2 \/ q.version < 0)
    /\ ~q.coinbase
    /\ (q.mempool \/ t >= CsvHeight(p))

NoLock == [seconds |-> -1, height |-> -1]

SeqLock(m, t, p, q) ==
    IF ~Enforced(t, p, q) THEN NoLock
    ELSE LET live == {i \in 1..Len(q.ins) : ~Disabled(q.ins[i])}
         IN  [ seconds |-> Max({-1} \cup {TimeLock(m, t, q.ins[i]) : i \in {j \in live : InSeconds(q.ins[j])}}),
               height  |-> Max({-1} \cup {HeightLock(t, q.ins[i]) : i \in {j \in live : ~InSeconds(q.ins[j])}}) ]

\* met in the block after the tip
Met(m, t, l) == l.seconds < m[t + 1] /\ l.height < t + 1

-----------------------------------------------------------------------------
(* queries *)

In(hi, lo, h) == [hi |-> hi, lo |-> lo, h |-> h]

\* sequence number patterns [hi, lo]
HeightSeqs == { <<0, 0>>, <<0, 1>>, <<0, 2>>, <<0, 3>>, <<0, 65535>>, <<63, 2>>, <<32703, 2>> }
TimeSeqs   == { <<64, 0>>, <<64, 1>>, <<64, 2>>, <<64, 65535>>, <<32767, 1>> }
OffSeqs    == { <<32768, 5>>, <<65535, 65535>>, <<32832, 1>> }
AllSeqs    == HeightSeqs \cup TimeSeqs \cup OffSeqs
CoreSeqs   == { <<0, 2>>, <<0, 0>>, <<64, 1>>, <<32768, 5>> }

\* heights the spent outputs may sit at
InHeights(t) == (IF Thorough THEN 0..t ELSE {0, 1, t - 1, t} \cap (0..t)) \cup {Mempool}
CoreHeights(t) == ({0, t - 1} \cap (0..t)) \cup {Mempool}

Q(version, mp, cb, ins) == [version |-> version, mempool |-> mp, coinbase |-> cb, ins |-> ins]

Queries(t) ==
         { Q(2, TRUE, FALSE, <<In(s[1], s[2], h)>>) : s \in AllSeqs, h \in InHeights(t) }
    \cup { Q(2, FALSE, FALSE, <<In(s[1], s[2], h)>>) : s \in {<<0, 2>>, <<64, 1>>, <<32768, 5>>}, h \in InHeights(t) }
    \cup { Q(2, mp, FALSE, <<In(a[1], a[2], ha), In(b[1], b[2], hb)>>) :
              mp \in (IF Thorough THEN BOOLEAN ELSE {TRUE}),
              a \in CoreSeqs, b \in CoreSeqs, ha \in CoreHeights(t), hb \in {t, Mempool} }
    \cup { Q(v, mp, FALSE, <<In(s[1], s[2], t)>>) : v \in {0, 1, 3, -1}, mp \in BOOLEAN, s \in {<<0, 3>>, <<64, 2>>} }
    \cup { Q(2, mp, TRUE, <<In(s[1], s[2], t)>>) : mp \in BOOLEAN, s \in {<<0, 3>>, <<64, 2>>} }
    \cup { Q(2, TRUE, FALSE, << >>) }

\* one row per query: <<version, mempool, coinbase, inputs <<hi, lo, h>>,
\* lock seconds, lock height, met in the next block>>
Row(q, l, met) == << q.version, q.mempool, q.coinbase,
                     [i \in 1..Len(q.ins) |-> <<q.ins[i].hi, q.ins[i].lo, q.ins[i].h>>] \o << >>,
                     l.seconds, l.height, met >>

RowOf(m, t, p, q) == LET l == SeqLock(m, t, p, q) IN Row(q, l, Met(m, t, l))

-----------------------------------------------------------------------------
(* block level: may the NEXT block contain a transaction that spends        *)
(* outputs of the blocks at the given heights.  The rule applies to the     *)
(* next block when the deployment is active for it; the inputs are chosen   *)
(* on the boundary of this very chain: the largest relative lock that is    *)
(* met and the smallest that is not.                                        *)

NextActive(t, p) == t + 1 >= CsvHeight(p)
BlockOK(m, t, p, q) ==
    \/ ~(q.version >= 2 \/ q.version < 0)
    \/ ~NextActive(t, p)
    \/ Met(m, t, SeqLock(m, t, p, Q(q.version, TRUE, FALSE, q.ins)))

\* largest value of a height lock / time lock on an output at height ih that is met in block t + 1
LastHeightLock(t, ih)  == t + 1 - ih
LastTimeLock(m, t, ih) == (m[t + 1] - m[ih]) \div 512      \* m[ih] = median time past of block ih - 1

BlockQueries(m, t) ==
    LET hs == {1, t - 1, t} \cap (1..t) IN
         { Q(2, TRUE, FALSE, <<In(0, LastHeightLock(t, ih) + d, ih)>>) : ih \in hs, d \in {0, 1} }
    \cup { Q(2, TRUE, FALSE, <<In(64, LastTimeLock(m, t, ih) + d, ih)>>) : ih \in hs, d \in {0, 1} }
    \cup { Q(v, TRUE, FALSE, <<In(0, LastHeightLock(t, ih) + 1, ih)>>) : ih \in hs, v \in {1, -1} }
    \cup { Q(2, TRUE, FALSE, <<In(32832, 65535, ih)>>) : ih \in hs }
    \cup { Q(2, TRUE, FALSE, <<In(0, LastHeightLock(t, t) + a, t), In(64, LastTimeLock(m, t, ih) + b, ih)>>) :
              ih \in hs, a \in {0, 1}, b \in {0, 1} }

\* one row per block query: <<version, inputs, may be in the next block>>
BlockRow(m, t, p, q) == << q.version, [i \in 1..Len(q.ins) |-> <<q.ins[i].hi, q.ins[i].lo, q.ins[i].h>>] \o << >>,
                          BlockOK(m, t, p, q) >>

Expect(m, t, p) ==
    [ tip |-> t, mtp |-> m[t + 1], csv |-> t >= CsvHeight(p), csvNext |-> NextActive(t, p),
      locks |-> { RowOf(m, t, p, q) : q \in Queries(t) },
      blocks |-> { BlockRow(m, t, p, q) : q \in BlockQueries(m, t) } ]

-----------------------------------------------------------------------------
(* the machine *)

Start(p) == [i \in 1..(p + 1) |-> Base + Spacing * (i - 1)] \o << >>

-----------------------------------------------------------------------------
(* forks *)

\* the chain a side branch block looks back on
OwnChain(c, p, sd) == SubSeq(c, 1, p + 1) \o sd

\* the queries of a complete fork: a transaction in the LAST side block (its
\* parent at height t is the side block before it) spending outputs of its own
\* chain at heights below, at and above the fork point, on the boundary
ForkQueries(m, t, p) ==
    LET hs == {p - 1, p} \cup ((p + 1)..t) IN
         { Q(2, TRUE, FALSE, <<In(64, LastTimeLock(m, t, ih) + d, ih)>>) : ih \in hs, d \in {0, 1} }
    \cup { Q(2, TRUE, FALSE, <<In(0, LastHeightLock(t, ih) + d, ih)>>) : ih \in {p, t}, d \in {0, 1} }
    \cup { Q(1, TRUE, FALSE, <<In(64, LastTimeLock(m, t, t) + 1, t)>>) }

\* one row per fork query: <<version, inputs, allowed, lock seconds, lock height>>
ForkRow(m, t, p, q) ==
    LET l == SeqLock(m, t, p, Q(q.version, TRUE, FALSE, q.ins)) IN
    << q.version, [i \in 1..Len(q.ins) |-> <<q.ins[i].hi, q.ins[i].lo, q.ins[i].h>>] \o << >>,
       BlockOK(m, t, p, q), l.seconds, l.height >>

\* m = medians of the own chain WITHOUT the last side block (that block holds the transaction)
ForkExpect(m, p, sd) ==
    IF Len(sd) <= ForkMain THEN [fork |-> "growing"]
    ELSE LET t == p + Len(sd) - 1 IN
         [ fork |-> "complete", forkAt |-> p, parent |-> t, mtp |-> m[t + 1],
           rows |-> { ForkRow(m, t, p, q) : q \in ForkQueries(m, t, p) } ]

Init == /\ pre \in Preambles
        /\ chain = Start(pre)
        /\ meds = Medians(chain)
        /\ side = << >> /\ smeds = << >>
        /\ expect = Expect(meds, pre, pre)

\* (the one-element sets only make TLC evaluate the new chain and medians once)
Mine == /\ side = << >>
        /\ Len(chain) < pre + 1 + Depth(pre)
        /\ \E s \in Steps :
              LET t == IF s = 0 THEN meds[Len(meds)] + 1 ELSE chain[Len(chain)] + s IN
              /\ t > meds[Len(meds)]
              /\ \E c2 \in {Append(chain, t)} :
                 \E m2 \in {Append(meds, MTP(c2, Len(c2) - 1))} :
                    /\ chain' = c2
                    /\ meds' = m2
                    /\ expect' = Expect(m2, Len(c2) - 1, pre)
        /\ UNCHANGED <<pre, side, smeds>>

\* grow the side branch by one block (its first block sits on the fork point)
MineSide ==
    /\ pre \in ForkPres
    /\ Len(chain) = pre + 1 + ForkMain
    /\ \A i \in (pre + 2)..Len(chain) :
          \/ chain[i] - chain[i - 1] \in ForkMainSteps
          \/ (0 \in ForkMainSteps /\ chain[i] = meds[i - 1] + 1)
    /\ Len(side) <= ForkMain
    /\ LET own  == OwnChain(chain, pre, side)
           om   == IF side = << >> THEN SubSeq(meds, 1, pre + 1) ELSE smeds
       IN  \E s \in Steps :
             LET t == IF s = 0 THEN om[Len(om)] + 1 ELSE own[Len(own)] + s IN
             /\ t > om[Len(om)]
             /\ \E sd2 \in {Append(side, t)} :
                \E m2 \in {Append(om, MTP(Append(own, t), Len(own)))} :
                   /\ side' = sd2
                   /\ smeds' = m2
                   \* the medians up to the parent of the newest block decide about it
                   /\ expect' = ForkExpect(om, pre, sd2)
    /\ UNCHANGED <<pre, chain, meds>>

Next == Mine \/ MineSide

Spec == Init /\ [][Next]_vars

-----------------------------------------------------------------------------
(* laws *)

\* the carried medians are the definition's
MedsOK == meds = Medians(chain)

\* the median time past never decreases along a chain
MtpMonotone == \A h \in 1..TipHeight(chain) : meds[h + 1] >= meds[h]

\* the lock of a transaction whose inputs are all in blocks does not depend
\* on what is mined afterwards
Stable ==
    TipHeight(chain) > pre =>
        LET t == TipHeight(chain) IN
        \A q \in {x \in Queries(t - 1) : Len(x.ins) = 1} :
            (q.mempool /\ \A i \in 1..Len(q.ins) : q.ins[i].h # Mempool)
                => SeqLock(meds, t, pre, q) = SeqLock(SubSeq(meds, 1, t), t - 1, pre, q)

\* rows: <<version, mempool, coinbase, ins, seconds, height, met>>
Shape ==
    side = << >> =>
    \A r \in expect.locks :
        /\ r[5] >= -1 /\ r[6] >= -1
        \* version 0/1 and coinbase transactions have no lock
        /\ ((r[1] \in {0, 1} \/ r[3]) => r[5] = -1 /\ r[6] = -1)
        \* nor have transactions whose inputs all opt out
        /\ ((\A i \in 1..Len(r[4]) : r[4][i][1] >= 32768) => r[5] = -1 /\ r[6] = -1)
        \* no lock is always met
        /\ (r[5] = -1 /\ r[6] = -1 => r[7])

\* the block-level boundary: with the deployment active, the largest met lock
\* is allowed and one more is not (height locks; single version 2 input)
Boundary ==
    LET t == TipHeight(chain) IN
    NextActive(t, pre) =>
        \A ih \in {1, t - 1, t} \cap (1..t) :
            /\ BlockOK(meds, t, pre, Q(2, TRUE, FALSE, <<In(0, LastHeightLock(t, ih), ih)>>))
            /\ ~BlockOK(meds, t, pre, Q(2, TRUE, FALSE, <<In(0, LastHeightLock(t, ih) + 1, ih)>>))
            /\ BlockOK(meds, t, pre, Q(2, TRUE, FALSE, <<In(64, LastTimeLock(meds, t, ih), ih)>>))
            /\ ~BlockOK(meds, t, pre, Q(2, TRUE, FALSE, <<In(64, LastTimeLock(meds, t, ih) + 1, ih)>>))

\* forks: the side branch's medians are those of its own chain, and the
\* boundary of a complete fork lies where that chain puts it
ForkLaws ==
    side # << >> =>
        /\ smeds = Medians(OwnChain(chain, pre, side))
        /\ (expect.fork = "complete" =>
              LET t == expect.parent
                  m == SubSeq(smeds, 1, t + 1)
              IN  \A ih \in {pre - 1, pre} \cup ((pre + 1)..t) :
                     /\ BlockOK(m, t, pre, Q(2, TRUE, FALSE, <<In(64, LastTimeLock(m, t, ih), ih)>>))
                     /\ ~BlockOK(m, t, pre, Q(2, TRUE, FALSE, <<In(64, LastTimeLock(m, t, ih) + 1, ih)>>)))
=============================================================================
