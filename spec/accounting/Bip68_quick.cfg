SPECIFICATION Spec
CONSTANT Tier = "quick"
INVARIANTS MedsOK MtpMonotone Stable Shape Boundary ForkLaws
