SPECIFICATION Spec
CONSTANT Tier = "thorough"
INVARIANTS MedsOK MtpMonotone Stable Shape Boundary ForkLaws
