------------------------------- MODULE Locks --------------------------------
(***************************************************************************)
(* C13, lock-time tables and the coinbase height (the relative lock-time   *)
(* computation over block histories is module Bip68).                      *)
(*                                                                         *)
(* TLC's integers end at 2^31 - 1, lock times and sequence numbers are     *)
(* 32-bit unsigned and block times 64-bit, so such numbers are written as   *)
(* words [hi, lo] = hi * 65536 + lo (0 <= lo < 65536) and only compared.    *)
(*                                                                         *)
(* kinds:                                                                  *)
(*  final    [lt, height, time, seqs]  is a transaction with lock time lt   *)
(*                                     and these input sequence numbers     *)
(*                                     final in a block at height/time      *)
(*  active   [seconds, minHeight, height, mtp]   is a sequence lock met     *)
(*  l2s      [isSeconds, v]            relative lock -> sequence number     *)
(*  cbheight [s]                       height committed by a coinbase       *)
(*                                     signature script (BIP34) and the     *)
(*                                     verdict of the check against a       *)
(*                                     wanted height                        *)
(***************************************************************************)
EXTENDS Integers, Sequences, FiniteSets, TLC

CONSTANTS Tier

VARIABLES case, expect
vars == <<case, expect>>

Thorough == Tier = "thorough"

-----------------------------------------------------------------------------
(* words *)

W(hi, lo)   == [hi |-> hi, lo |-> lo]
Of(n)       == W(n \div 65536, n % 65536)           \* 0 <= n < 2^31
WLt(a, b)   == a.hi < b.hi \/ (a.hi = b.hi /\ a.lo < b.lo)
WSucc(a)    == IF a.lo = 65535 THEN W(a.hi + 1, 0) ELSE W(a.hi, a.lo + 1)
WPred(a)    == IF a.lo = 0 THEN W(a.hi - 1, 65535) ELSE W(a.hi, a.lo - 1)   \* a > 0
Zero        == W(0, 0)
Max32       == W(65535, 65535)
Threshold   == Of(500000000)                        \* lock times below are heights, from here on times

-----------------------------------------------------------------------------
(* absolute lock time: final when the lock time is zero, or lies strictly  *)
(* before the block's height (lock times under the threshold) or time, or   *)
(* every input opted out with the maximal sequence number                   *)

IsFinal(lt, height, time, seqs) ==
    \/ lt = Zero
    \/ WLt(lt, IF WLt(lt, Threshold) THEN Of(height) ELSE time)
    \/ \A i \in 1..Len(seqs) : seqs[i] = Max32

Heights == {0, 1, 100, 499999999, 500000000, 2147483647}
Times   == { Of(0), Of(500000000), Of(500000001), Of(1700000000), Of(2147483647),
             W(65535, 65535), W(65536, 0), W(65536, 5) }
           \cup (IF Thorough THEN { Of(499999999), W(32768, 0), W(131072, 7) } ELSE {})
Around(a) == (IF a = Zero THEN {} ELSE {WPred(a)}) \cup {a, WSucc(a)}
LockTimes ==
    {Zero, Of(1), Max32, W(65535, 65534), W(32768, 0), W(32767, 65535)}
    \cup UNION {Around(Of(h)) : h \in Heights \ {2147483647}}
    \cup UNION {Around(t) : t \in {x \in Times : x.hi < 65536}}
    \cup Around(Threshold)
LockTimes32 == {x \in LockTimes : x.hi <= 65535}
SeqLists == { << >>, <<Max32>>, <<W(65535, 65534)>>, <<Zero>>,
              <<Max32, Max32>>, <<Max32, W(65535, 65534)>>, <<W(65535, 65534), Max32>> }
            \cup (IF Thorough THEN { <<W(32768, 0)>>, <<Zero, Max32, Max32>> } ELSE {})

FinalLaws ==
    case.kind = "final" =>
        LET c == case.c IN
        \* monotone: a later block (both height and time) never un-finalises
        /\ (expect.final /\ c.height < 2147483647 =>
               IsFinal(c.lt, c.height + 1, WSucc(c.time), c.seqs))
        \* lock time 0 and all-maximal sequences are always final
        /\ (c.lt = Zero => expect.final)
        /\ ((\A i \in 1..Len(c.seqs) : c.seqs[i] = Max32) => expect.final)

-----------------------------------------------------------------------------
(* relative lock met (BIP68): both the time and the height component lie   *)
(* strictly before the block's median time past / height                    *)

Active(seconds, minHeight, height, mtp) == seconds < mtp /\ minHeight < height

ActiveCases ==
    { [seconds |-> s, minHeight |-> mh, height |-> h, mtp |-> m] :
         h \in {0, 1, 100}, m \in {0, 1700000000},
         s \in {-1, 0, 1, 1699999999, 1700000000, 1700000001},
         mh \in {-1, 0, 1, 99, 100, 101} }

\* relative lock -> sequence number (BIP68 "compatibility"): blocks as they
\* are, seconds in units of 512 with the type bit (bit 22)
LockToSeq(isSeconds, v) == IF isSeconds THEN W(64, v \div 512) ELSE W(0, v)
L2SCases ==
    { [isSeconds |-> FALSE, v |-> v] : v \in {0, 1, 2, 65534, 65535} }
    \cup { [isSeconds |-> TRUE, v |-> v] : v \in {0, 1, 511, 512, 513, 1023, 1024, 33553919, 33553920, 33554431} }

-----------------------------------------------------------------------------
(* coinbase height (BIP34): the signature script must begin with the       *)
(* canonical script push of the height: OP_0 for 0, OP_1..OP_16 for 1..16,  *)
(* else the shortest little-endian sign-magnitude bytes behind their length *)

RECURSIVE Magnitude(_)
Magnitude(n) == IF n = 0 THEN << >> ELSE <<n % 256>> \o Magnitude(n \div 256)
\* a non-negative number needs one more zero byte when its top bit is taken
ScriptNum(n) == LET m == Magnitude(n) IN
                IF n > 0 /\ m[Len(m)] >= 128 THEN Append(m, 0) ELSE m

CanonicalPush(h) ==
    IF h = 0 THEN <<0>> ELSE IF h <= 16 THEN <<80 + h>>
    ELSE LET b == ScriptNum(h) IN <<Len(b)>> \o b

HasPrefix(s, p) == Len(s) >= Len(p) /\ \A i \in 1..Len(p) : s[i] = p[i]

\* value of up to four little-endian bytes whose top bit is clear
RECURSIVE LE(_)
LE(b) == IF Len(b) = 0 THEN 0 ELSE b[1] + 256 * LE(Tail(b))

\* the one non-negative height whose canonical push can begin s (a block
\* height is never negative: scripts that begin with the push of a negative
\* script number commit to no height and are refused)
Candidate(s) ==
    IF Len(s) = 0 THEN -1
    ELSE IF s[1] = 0 THEN 0
    ELSE IF s[1] >= 81 /\ s[1] <= 96 THEN s[1] - 80
    ELSE IF s[1] >= 1 /\ s[1] <= 4 /\ Len(s) >= 1 + s[1] /\ s[1 + s[1]] < 128
         THEN LE(SubSeq(s, 2, 1 + s[1]))
    ELSE -1    \* negative numbers, 2^31 and beyond, anything else: not a block height

Extract(s) ==
    LET h == Candidate(s) IN
    IF h >= 0 /\ HasPrefix(s, CanonicalPush(h)) THEN [ok |-> TRUE, h |-> h] ELSE [ok |-> FALSE, h |-> 0]

HeightSet == {0, 1, 2, 15, 16, 17, 127, 128, 129, 255, 256, 32767, 32768, 65535, 65536, 500000,
              8388607, 8388608, 16777215, 16777216, 2147483647}

Tails == { << >>, <<0>>, <<1, 2, 3>> }
Small == {0, 1, 2, 3, 4, 5, 16, 17, 76, 79, 80, 81, 96, 127, 128, 129, 255}

RECURSIVE Fill(_, _)
Fill(v, n) == IF n = 0 THEN << >> ELSE Append(Fill(v, n - 1), v)

HeightScripts ==
       { CanonicalPush(h) \o t : h \in HeightSet, t \in Tails }
    \* padded with a zero byte, or with a needless sign byte
    \cup { <<Len(ScriptNum(h)) + 1>> \o ScriptNum(h) \o <<0>> \o t : h \in HeightSet \ {0}, t \in Tails }
    \* small numbers pushed as data
    \cup { <<1, h>> \o t : h \in 0..17, t \in Tails }
    \* one byte short
    \cup { SubSeq(CanonicalPush(h), 1, Len(CanonicalPush(h)) - 1) : h \in HeightSet \ (0..16) }
    \* PUSHDATA forms, negative numbers, five bytes, long pushes
    \cup { <<76, Len(ScriptNum(h))>> \o ScriptNum(h) : h \in {17, 500000} }
    \cup { <<1, 129>>, <<1, 128>>, <<2, 0, 128>>, <<2, 255, 255>>, <<4, 255, 255, 255, 255>>, <<4, 0, 0, 0, 128>>,
           <<5, 0, 0, 0, 128, 0>>, <<5, 0, 0, 0, 128, 128>>, <<5, 1, 2, 3, 4, 5>>, <<5, 1, 2, 3, 4>>,
           <<8, 1, 2, 3, 4, 5, 6, 7, 8>>, <<79>>, <<79, 255, 255, 255, 255>>, <<79>> \o Fill(255, 79),
           <<75>> \o Fill(1, 75), <<255>> \o Fill(1, 40) }
    \* every short string over the bytes that matter
    \cup UNION { [1..n -> Small] : n \in 0..(IF Thorough THEN 3 ELSE 2) }
    \cup { <<a, b, c>> : a \in {1, 2, 3}, b \in {0, 1, 16, 17, 127, 128, 255}, c \in {0, 1, 127, 128, 255} }
    \cup { <<a, b, c, d>> : a \in {2, 3, 4}, b \in {0, 255}, c \in {0, 1, 127, 128}, d \in {0, 1, 127, 128, 255} }
    \cup { <<a, b, c, d, e>> : a \in {3, 4}, b \in {0, 255}, c \in {0, 128}, d \in {0, 1, 127, 128}, e \in {0, 1, 127, 128} }

Wants(s) == {0, 1, 16, 17, 128, 500000} \cup (IF Extract(s).ok THEN {Extract(s).h} \cup
                (IF Extract(s).h < 2147483647 THEN {Extract(s).h + 1} ELSE {}) ELSE {})

CbExpect(s) ==
    [ ok |-> Extract(s).ok, h |-> Extract(s).h,
      checks |-> { [want |-> w, ok |-> HasPrefix(s, CanonicalPush(w))] : w \in Wants(s) } ]

CbLaws ==
    case.kind = "cbheight" =>
        \* the decoding agrees with the definition on every probed height:
        \* s commits to h exactly when it begins with the canonical push of h
        /\ \A h \in HeightSet :
              (expect.ok /\ expect.h = h) <=> HasPrefix(case.s, CanonicalPush(h))
        \* canonical pushes decode to their height
        /\ \A c \in expect.checks : c.ok <=> (expect.ok /\ expect.h = c.want)

-----------------------------------------------------------------------------
None == [none |-> TRUE]

Groups ==
         {[of |-> "final", height |-> h] : h \in Heights}
    \cup {[of |-> "active"], [of |-> "l2s"]}
    \cup {[of |-> "cbheight", n |-> n] : n \in 0..6}

Init == case = [kind |-> "root"] /\ expect = None

Group == /\ case.kind = "root"
         /\ \E g \in Groups : case' = [kind |-> "group", g |-> g]
         /\ expect' = None

Pick ==
    /\ case.kind = "group"
    /\ LET g == case.g IN
       \/ /\ g.of = "final"
          /\ \E lt \in LockTimes32, t \in Times, sq \in SeqLists :
                LET c == [lt |-> lt, height |-> g.height, time |-> t, seqs |-> sq] IN
                case' = [kind |-> "final", c |-> c] /\ expect' = [final |-> IsFinal(lt, g.height, t, sq)]
       \/ /\ g.of = "active"
          /\ \E c \in ActiveCases :
                case' = [kind |-> "active", c |-> c]
                /\ expect' = [active |-> Active(c.seconds, c.minHeight, c.height, c.mtp)]
       \/ /\ g.of = "l2s"
          /\ \E c \in L2SCases :
                case' = [kind |-> "l2s", c |-> c] /\ expect' = [seq |-> LockToSeq(c.isSeconds, c.v)]
       \/ /\ g.of = "cbheight"
          /\ \E s \in {x \in HeightScripts : (IF Len(x) > 6 THEN 6 ELSE Len(x)) = g.n} :
                case' = [kind |-> "cbheight", s |-> s] /\ expect' = CbExpect(s)

Next == Group \/ Pick

Spec == Init /\ [][Next]_vars
=============================================================================
