SPECIFICATION Spec
CONSTANT Tier = "quick"
INVARIANTS FinalLaws CbLaws
