SPECIFICATION Spec
CONSTANT Tier = "thorough"
INVARIANTS FinalLaws CbLaws
