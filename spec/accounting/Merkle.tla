------------------------------- MODULE Merkle -------------------------------
(***************************************************************************)
(* C13, merkle part.  A "case machine": root -> group -> case.  `case` is   *)
(* the input, `expect` what the protocol definition says about it.  Cases  *)
(* have no successors.  The invariants are laws the definitions satisfy on  *)
(* every enumerated case; in particular the three construction paths the   *)
(* code offers (linear tree store, direct root, rolling store) are three    *)
(* separate definitions here and TLC checks that they agree with the        *)
(* reference definition for every enumerated leaf list.                     *)
(*                                                                         *)
(* Hashes are abstract: the only hash function is H(l, r) = the double      *)
(* SHA-256 of the 64 bytes l || r, represented by the free term             *)
(* <<"H", l, r>> (injective by construction).  Leaves are T(i) (txid of     *)
(* transaction i), W(i) (wtxid) and Z (32 zero bytes); N(v) is the 32-byte  *)
(* string whose bytes all equal v.  The binder maps T/W to the hashes of    *)
(* real transactions and evaluates H along the term with SHA-256, so the    *)
(* expected root comes from the shape written here.                         *)
(*                                                                         *)
(* kinds:                                                                  *)
(*  tree    [ids, w]     merkle root and the linear tree store of the       *)
(*                       transactions ids (w: wtxid form, leaf 1 zeroed)    *)
(*  commit  [ntx, wit, coinbase, outs, nonce, blobs]                        *)
(*                       witness commitment extraction and validation       *)
(***************************************************************************)
EXTENDS Integers, Sequences, FiniteSets, TLC

CONSTANTS Tier          \* "quick" or "thorough"

VARIABLES case, expect
vars == <<case, expect>>

Thorough == Tier = "thorough"

-----------------------------------------------------------------------------
(* terms *)

Z       == <<"Z">>
T(i)    == <<"T", i>>
W(i)    == <<"W", i>>
N(v)    == IF v = 0 THEN <<"Z">> ELSE <<"N", v>>   \* (32 zero bytes have one name)
H(l, r) == <<"H", l, r>>
Nil     == <<"nil">>            \* an empty slot of the linear store

Leaf(w, ids, k) == IF w /\ k = 1 THEN Z ELSE IF w THEN W(ids[k]) ELSE T(ids[k])
Leaves(w, ids)  == [k \in 1..Len(ids) |-> Leaf(w, ids, k)]

-----------------------------------------------------------------------------
(* the definition: level by level, an odd level repeats its last node; the *)
(* root of the empty list is the zero hash (reference client)              *)

Even(s)   == IF Len(s) % 2 = 1 THEN Append(s, s[Len(s)]) ELSE s
PairUp(s) == [k \in 1..(Len(s) \div 2) |-> H(s[2 * k - 1], s[2 * k])]

RECURSIVE Climb(_)
Climb(s) == IF Len(s) = 1 THEN s[1] ELSE Climb(PairUp(Even(s)))

RefRoot(s) == IF Len(s) = 0 THEN Z ELSE Climb(s)

-----------------------------------------------------------------------------
(* construction path 1: the linear tree store (BuildMerkleTreeStore).      *)
(* An array of 2*P-1 slots, P the next power of two; slots 1..P hold the   *)
(* leaves (Nil beyond the last), slot P+k is made of slots 2k-1 and 2k:    *)
(* Nil when the left child is Nil, H(l,l) when only the right child is.    *)

RECURSIVE NextPoT(_)
NextPoT(n) == IF n <= 1 THEN 1 ELSE 2 * NextPoT((n + 1) \div 2)

Parent(l, r) == IF l = Nil THEN Nil ELSE IF r = Nil THEN H(l, l) ELSE H(l, r)
StoreUp(lv) == [k \in 1..(Len(lv) \div 2) |-> Parent(lv[2 * k - 1], lv[2 * k])]

\* the slots of level lv and of all levels above it, in array order
RECURSIVE StoreFrom(_)
StoreFrom(lv) == IF Len(lv) = 1 THEN lv ELSE lv \o StoreFrom(StoreUp(lv))

StoreArr(s) ==
    LET n == Len(s)
        P == NextPoT(n)
    IN  StoreFrom([j \in 1..P |-> IF j <= n THEN s[j] ELSE Nil])
StoreRoot(s) == LET a == StoreArr(s) IN a[Len(a)]

-----------------------------------------------------------------------------
(* construction paths 2 and 3: the rolling store (CalcMerkleRoot and       *)
(* rollingMerkleTreeStore.calcMerkleRoot).  The store keeps one root per   *)
(* 1-bit of the number of leaves added; adding a leaf merges it with the   *)
(* roots of the trailing 1-bits.  To finish, the last leaf is added once   *)
(* more when the count is odd, then while more than one root remains the   *)
(* count is shifted right past its trailing zeros and the last root is      *)
(* added again (hashing it with itself).                                    *)

Bit(n, h) == (n \div (2 ^ h)) % 2

RECURSIVE Merge(_, _, _, _)
Merge(roots, n, h, x) ==
    IF Bit(n, h) = 1
    THEN Merge(SubSeq(roots, 1, Len(roots) - 1), n, h + 1, H(roots[Len(roots)], x))
    ELSE Append(roots, x)

Add(st, x) == [roots |-> Merge(st.roots, st.n, 0, x), n |-> st.n + 1]

RECURSIVE AddAll(_, _, _)
AddAll(st, s, k) == IF k > Len(s) THEN st ELSE AddAll(Add(st, s[k]), s, k + 1)

RECURSIVE Strip(_)
Strip(n) == IF n % 2 = 0 THEN Strip(n \div 2) ELSE n

RECURSIVE Finish(_)
Finish(st) ==
    IF Len(st.roots) = 1 THEN st.roots[1]
    ELSE Finish(Add([roots |-> st.roots, n |-> Strip(st.n)], st.roots[Len(st.roots)]))

\* `again` is what the code adds for an odd count: the hash of the last
\* transaction itself (never the zeroed coinbase slot: a single leaf returns early)
RollingRoot(s, again) ==
    LET st1 == AddAll([roots |-> << >>, n |-> 0], s, 1) IN
    IF st1.n = 1 THEN st1.roots[1]
    ELSE Finish(IF Len(s) % 2 = 1 THEN Add(st1, again) ELSE st1)

\* the store as it stands after adding the leaves one by one (the unexported
\* add method): the peaks of the perfect subtrees of the binary expansion
RollingPeaks(s) == AddAll([roots |-> << >>, n |-> 0], s, 1).roots

-----------------------------------------------------------------------------
(* tree cases *)

MaxLeaves == IF Thorough THEN 33 ELSE 17
Upto(n)   == [k \in 1..n |-> k]
\* the list 1..n followed by a copy of its last d entries
WithTail(n, d) == Upto(n) \o SubSeq(Upto(n), n - d + 1, n)
Tails     == {0, 1, 2, 4}

TreeCasesOf(n) == { [n |-> n, d |-> d, ids |-> WithTail(n, d), w |-> w] :
                       d \in {t \in Tails : t <= n}, w \in BOOLEAN }

TreeExpect(c) ==
    LET s == Leaves(c.w, c.ids) IN
    [ root  |-> RefRoot(s),
      \* the root is always the last entry of the store: of no leaves, the only one
      store |-> IF Len(s) = 0 THEN <<Z>> ELSE StoreArr(s),
      peaks |-> RollingPeaks(s) ]

TreeLaws ==
    case.kind = "tree" =>
        LET c == case.c
            s == Leaves(c.w, c.ids)
            n == Len(s)
        IN
        /\ (n = 0 => expect.root = Z /\ expect.store = <<Z>> /\ expect.peaks = << >>)
        /\ n > 0 =>
            \* the three constructions are the definition
            /\ StoreRoot(s) = expect.root
            /\ RollingRoot(s, IF c.w THEN W(c.ids[n]) ELSE T(c.ids[n])) = expect.root
            \* every filled slot of the store is the root of its own leaves
            /\ LET P == NextPoT(n) IN Len(expect.store) = 2 * P - 1
            \* an odd list and the same list with its last entry repeated have
            \* the same root (the duplicate-tail ambiguity of the definition)
            /\ (n % 2 = 1 /\ n > 1 => RefRoot(Append(s, s[n])) = expect.root)
            \* peaks: one per 1-bit of n
            /\ Len(expect.peaks) = Cardinality({h \in 0..8 : Bit(n, h) = 1})

-----------------------------------------------------------------------------
(* witness commitment.                                                     *)
(* Scripts are sequences of byte atoms: an integer 0..255 is that byte, the *)
(* integer 256*k + j (0 <= j < 32) is byte j of the 32-byte value of the    *)
(* term case.blobs[k].  A symbolic byte is different from every concrete    *)
(* byte and two symbolic bytes are equal iff they are the same atom (the    *)
(* cases never put a symbolic byte where the magic prefix is looked for).   *)

Magic == <<106, 36, 170, 33, 169, 237>>   \* OP_RETURN, push 36, aa21a9ed
Blob(k) == [j \in 1..32 |-> 256 * k + (j - 1)]
Fill(v, n) == [j \in 1..n |-> v]

HasPrefix(s, p) == Len(s) >= Len(p) /\ \A i \in 1..Len(p) : s[i] = p[i]
Matches(script) == Len(script) >= 38 /\ HasPrefix(script, Magic)

\* index of the LAST matching output (0: none)
CommitIndex(outs) ==
    LET m == {i \in 1..Len(outs) : Matches(outs[i])} IN
    IF m = {} THEN 0 ELSE CHOOSE i \in m : \A j \in m : j <= i

WitnessRoot(ntx) == RefRoot(Leaves(TRUE, Upto(ntx)))

\* the commitment the block must carry for witness nonce bytes v
GoodTerm(ntx, v) == H(WitnessRoot(ntx), N(v))

CommitExpect(c, blobs) ==
    LET idx    == IF c.coinbase THEN CommitIndex(c.outs) ELSE 0
        found  == idx # 0
        commit == IF found THEN SubSeq(c.outs[idx], 7, 38) ELSE << >>
        \* does any transaction of the block carry witness data
        anyWit == Len(c.nonce) > 0 \/ c.wit # {}
        nonceOK == Len(c.nonce) = 1 /\ c.nonce[1].len = 32
        good   == \E k \in 1..Len(blobs) :
                     /\ blobs[k] = GoodTerm(c.ntx, c.nonce[1].v)
                     /\ commit = Blob(k)
    IN  [ found   |-> found,
          commit  |-> commit,
          verdict |-> IF ~found THEN (IF anyWit THEN "unexpected-witness" ELSE "ok")
                      ELSE IF ~nonceOK THEN "bad-nonce"
                      ELSE IF good THEN "ok" ELSE "mismatch" ]

\* the witness root of the list with its last transaction repeated (for a
\* lone coinbase, whose own wtxid cannot be part of its commitment: two zero leaves)
OtherRoot(ntx) == IF ntx = 1 THEN H(Z, Z) ELSE RefRoot(Leaves(TRUE, Upto(ntx) \o <<ntx>>))

\* terms a coinbase may carry (index = blob number)
BlobsFor(ntx, v) ==
    << GoodTerm(ntx, v),                                   \* 1 the commitment
       H(WitnessRoot(ntx), N(v + 1)),                      \* 2 other nonce
       H(N(v), WitnessRoot(ntx)),                          \* 3 operands swapped
       WitnessRoot(ntx),                                   \* 4 the bare root
       H(OtherRoot(ntx), N(v)) >>                          \* 5 root of another list
       \* (for odd ntx > 1 blob 5 equals blob 1 as a term: same list root)

AlterAt(s, i, b) == [j \in 1..Len(s) |-> IF j = i THEN b ELSE s[j]]

\* the output scripts of the layouts
OutKind(name) ==
    CASE name = "plain"    -> <<81>>
      [] name = "empty"    -> << >>
      [] name = "good"     -> Magic \o Blob(1)
      [] name = "goodTail" -> Magic \o Blob(1) \o <<1, 2, 3>>
      [] name = "nonce2"   -> Magic \o Blob(2)
      [] name = "swapped"  -> Magic \o Blob(3)
      [] name = "bare"     -> Magic \o Blob(4)
      [] name = "other"    -> Magic \o Blob(5)
      [] name = "zeros"    -> Magic \o Fill(0, 32)
      [] name = "short"    -> Magic \o SubSeq(Blob(1), 1, 31)
      [] name = "magicOnly"-> Magic
      [] name = "m1"       -> AlterAt(Magic, 1, 107) \o Blob(1)
      [] name = "m2"       -> AlterAt(Magic, 2, 32)  \o Blob(1)
      [] name = "m2b"      -> AlterAt(Magic, 2, 37)  \o Blob(1) \o <<0>>
      [] name = "m3"       -> AlterAt(Magic, 3, 171) \o Blob(1)
      [] name = "m4"       -> AlterAt(Magic, 4, 32)  \o Blob(1)
      [] name = "m5"       -> AlterAt(Magic, 5, 168) \o Blob(1)
      [] name = "m6"       -> AlterAt(Magic, 6, 236) \o Blob(1)
      [] name = "shifted"  -> <<0>> \o Magic \o Blob(1)

Kinds == {"plain", "empty", "good", "goodTail", "nonce2", "swapped", "bare", "other", "zeros",
          "short", "magicOnly", "m1", "m2", "m2b", "m3", "m4", "m5", "m6", "shifted"}
KindsCore == {"plain", "good", "goodTail", "nonce2", "zeros", "short", "m2", "m6"}

LayoutsFull ==
    {<< >>} \cup {<<a>> : a \in Kinds} \cup {<<a, b>> : a \in Kinds, b \in Kinds}
    \cup {<<a, b, d>> : a \in KindsCore, b \in KindsCore, d \in IF Thorough THEN KindsCore ELSE {"plain", "good", "nonce2"}}
KindsMini == {"plain", "good", "nonce2", "short", "m2"}
LayoutsCore ==
    {<< >>} \cup {<<a>> : a \in Kinds} \cup {<<a, b>> : a \in KindsMini, b \in KindsMini}
\* the quick tier crosses the full layout set with two blocks and the good
\* nonce only, and the core layouts with everything else
FullFor(b, nonce) == Thorough \/ (b \in {<<2, {}>>, <<3, {3}>>} /\ nonce = <<[v |-> 7, len |-> 32]>>)
LayoutsFor(b, nonce) == IF FullFor(b, nonce) THEN LayoutsFull ELSE LayoutsCore

\* witness stack of the coinbase input: items [v, len]
Nonces == { << >>, <<[v |-> 7, len |-> 32]>>, <<[v |-> 0, len |-> 32]>>,
            <<[v |-> 7, len |-> 31]>>, <<[v |-> 7, len |-> 33]>>, <<[v |-> 7, len |-> 0]>>,
            <<[v |-> 7, len |-> 32], [v |-> 7, len |-> 32]>>,
            <<[v |-> 7, len |-> 32], [v |-> 7, len |-> 0]>> }

\* (ntx, set of non-coinbase transactions carrying witness data)
Blocks == { <<1, {}>>, <<2, {}>>, <<2, {2}>>, <<3, {}>>, <<3, {3}>>, <<4, {2, 4}>> }
          \cup (IF Thorough THEN { <<5, {5}>>, <<6, {}>>, <<7, {3}>> } ELSE {})

NonceV(nonce) == IF Len(nonce) > 0 THEN nonce[1].v ELSE 7

CommitCase(b, lay, nonce, cb) ==
    [ ntx |-> b[1], wit |-> b[2], coinbase |-> cb,
      outs |-> [i \in 1..Len(lay) |-> OutKind(lay[i])], layout |-> lay,
      nonce |-> nonce ]
BlobsOf(c) == BlobsFor(c.ntx, NonceV(c.nonce))

CommitLaws ==
    case.kind = "commit" =>
        LET c == case.c
            blobs == BlobsOf(c) IN
        \* the found commitment is bytes 7..38 of an output that matches, and
        \* no later output matches
        /\ (expect.found <=>
               c.coinbase /\ \E i \in 1..Len(c.outs) : Matches(c.outs[i]))
        /\ (expect.found => Len(expect.commit) = 32)
        /\ (expect.verdict = "ok" /\ expect.found =>
               \E k \in 1..Len(blobs) : blobs[k] = GoodTerm(c.ntx, c.nonce[1].v) /\ expect.commit = Blob(k))
        \* a block without commitment is fine exactly when no transaction has witness data
        /\ (~expect.found => (expect.verdict = "ok" <=> (Len(c.nonce) = 0 /\ c.wit = {})))

-----------------------------------------------------------------------------
None == [none |-> TRUE]

Groups ==
         {[of |-> "tree", n |-> n] : n \in 0..MaxLeaves}
    \cup {[of |-> "commit", b |-> b, nonce |-> nc] : b \in Blocks, nc \in Nonces}
    \cup {[of |-> "notcoinbase"]}

Init == case = [kind |-> "root"] /\ expect = None

\* a commit group publishes the blob table its cases refer to
Group == /\ case.kind = "root"
         /\ \E g \in Groups :
              /\ case' = [kind |-> "group", g |-> g]
              /\ expect' = IF g.of = "commit"
                              THEN [ntx |-> g.b[1], v |-> NonceV(g.nonce), blobs |-> BlobsFor(g.b[1], NonceV(g.nonce))]
                           ELSE IF g.of = "notcoinbase"
                              THEN [ntx |-> 2, v |-> 7, blobs |-> BlobsFor(2, 7)]
                           ELSE None

Pick ==
    /\ case.kind = "group"
    /\ LET g == case.g IN
       \/ /\ g.of = "tree"
          /\ \E c \in TreeCasesOf(g.n) :
                case' = [kind |-> "tree", c |-> c] /\ expect' = TreeExpect(c)
       \/ /\ g.of = "commit"
          /\ \E lay \in LayoutsFor(g.b, g.nonce) :
                LET c == CommitCase(g.b, lay, g.nonce, TRUE) IN
                case' = [kind |-> "commit", c |-> c] /\ expect' = CommitExpect(c, BlobsOf(c))
       \/ /\ g.of = "notcoinbase"
          /\ \E lay \in {<<"good">>, <<"plain", "good">>, << >>}, nc \in {<< >>, <<[v |-> 7, len |-> 32]>>} :
                LET c == CommitCase(<<2, {}>>, lay, nc, FALSE) IN
                case' = [kind |-> "commit", c |-> c] /\ expect' = CommitExpect(c, BlobsOf(c))

Next == Group \/ Pick

Spec == Init /\ [][Next]_vars
=============================================================================
