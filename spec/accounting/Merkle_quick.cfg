SPECIFICATION Spec
CONSTANT Tier = "quick"
INVARIANTS TreeLaws CommitLaws
