SPECIFICATION Spec
CONSTANT Tier = "thorough"
INVARIANTS TreeLaws CommitLaws
