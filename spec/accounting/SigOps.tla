------------------------------- MODULE SigOps -------------------------------
(***************************************************************************)
(* C13, signature-operation counting.  Scripts are byte sequences; the     *)
(* definitions below are the reference client's: a script is read opcode    *)
(* by opcode, opcodes 0x01..0x4e carry data (0x01..0x4b that many bytes,    *)
(* 0x4c/0x4d/0x4e a 1/2/4-byte little-endian length first), reading stops   *)
(* at the first opcode whose data runs past the end of the script, and      *)
(* what was read before still counts.                                       *)
(*                                                                         *)
(*   CHECKSIG, CHECKSIGVERIFY                     1                         *)
(*   CHECKMULTISIG, CHECKMULTISIGVERIFY           20, or n when counting    *)
(*                                                precisely and the opcode  *)
(*                                                just before is OP_n, 1..16 *)
(*                                                                         *)
(* kinds:                                                                  *)
(*  count    [s]              quick and precise count, push-only, parses    *)
(*  p2sh     [sig, pk]        precise count of spending pk with sig         *)
(*  witness  [sig, pk, wit]   witness sigops of spending pk                 *)
(*  inkinds  the table of named inputs the tx cases refer to               *)
(*  tx       [names, outs, coinbase, bip16, segwit]   legacy / P2SH /      *)
(*                            witness counts and the cost                   *)
(*                            4 * (legacy + P2SH) + witness                 *)
(***************************************************************************)
EXTENDS Integers, Sequences, FiniteSets, TLC

CONSTANTS Tier

VARIABLES case, expect
vars == <<case, expect>>

Thorough == Tier = "thorough"

-----------------------------------------------------------------------------
(* opcodes *)
OP0 == 0
PUSHDATA1 == 76
PUSHDATA2 == 77
PUSHDATA4 == 78
NEG1 == 79
RESERVED == 80
OP1 == 81
OP16 == 96
NOP == 97
EQUAL == 135
EQUALVERIFY == 136
HASH160 == 169
HASH256 == 170
CHECKSIG == 172
CHECKSIGVERIFY == 173
CHECKMULTISIG == 174
CHECKMULTISIGVERIFY == 175
CHECKSIGADD == 186

-----------------------------------------------------------------------------
(* reading a script *)

\* header of the data-carrying opcode at position i: [ok, hdr (bytes before
\* the data, the opcode included), n (data length)]; a 4-byte length with the
\* top bit set is larger than any script
Header(s, i) ==
    LET op == s[i]
        L  == Len(s)
    IN  IF op <= 75 THEN [ok |-> TRUE, hdr |-> 1, n |-> op]
        ELSE IF op = PUSHDATA1
             THEN IF i + 1 <= L THEN [ok |-> TRUE, hdr |-> 2, n |-> s[i + 1]] ELSE [ok |-> FALSE]
        ELSE IF op = PUSHDATA2
             THEN IF i + 2 <= L THEN [ok |-> TRUE, hdr |-> 3, n |-> s[i + 1] + 256 * s[i + 2]] ELSE [ok |-> FALSE]
        ELSE IF i + 4 <= L /\ s[i + 4] < 128
             THEN [ok |-> TRUE, hdr |-> 5,
                   n |-> s[i + 1] + 256 * s[i + 2] + 65536 * s[i + 3] + 16777216 * s[i + 4]]
             ELSE [ok |-> FALSE]

\* the opcodes read before the end or the first failure: [toks, ok]
RECURSIVE Read(_, _, _)
Read(s, i, acc) ==
    IF i > Len(s) THEN [toks |-> acc, ok |-> TRUE]
    ELSE LET op == s[i] IN
         IF op = OP0 \/ op > PUSHDATA4
         THEN Read(s, i + 1, Append(acc, [op |-> op, data |-> << >>]))
         ELSE LET h == Header(s, i) IN
              IF ~h.ok \/ i + h.hdr + h.n - 1 > Len(s)
              THEN [toks |-> acc, ok |-> FALSE]
              ELSE Read(s, i + h.hdr + h.n,
                        Append(acc, [op |-> op, data |-> SubSeq(s, i + h.hdr, i + h.hdr + h.n - 1)]))

Parse(s) == Read(s, 1, << >>)

RECURSIVE CountFrom(_, _, _)
CountFrom(toks, k, precise) ==
    IF k > Len(toks) THEN 0
    ELSE LET op == toks[k].op
             here == IF op \in {CHECKSIG, CHECKSIGVERIFY} THEN 1
                     ELSE IF op \in {CHECKMULTISIG, CHECKMULTISIGVERIFY}
                          THEN IF precise /\ k > 1 /\ toks[k - 1].op >= OP1 /\ toks[k - 1].op <= OP16
                               THEN toks[k - 1].op - (OP1 - 1)
                               ELSE 20
                     ELSE 0
         IN  here + CountFrom(toks, k + 1, precise)

Count(s, precise) == CountFrom(Parse(s).toks, 1, precise)

\* only opcodes up to OP_16, and the whole script reads
PushOnly(s) == LET p == Parse(s) IN p.ok /\ \A k \in 1..Len(p.toks) : p.toks[k].op <= OP16

\* data of the last opcode of a script that reads completely
LastData(s) == LET p == Parse(s) IN
               IF p.ok /\ Len(p.toks) > 0 THEN p.toks[Len(p.toks)].data ELSE << >>

IsP2SH(pk) == Len(pk) = 23 /\ pk[1] = HASH160 /\ pk[2] = 20 /\ pk[23] = EQUAL

\* BIP16: the precise count of the script the signature script pushes last
PreciseCount(sig, pk) ==
    IF ~IsP2SH(pk) THEN Count(pk, TRUE)
    ELSE IF ~PushOnly(sig) THEN 0
    ELSE Count(LastData(sig), TRUE)

\* BIP141: a version opcode (OP_0, OP_1..OP_16) and one direct push of 2..40 bytes
IsWitnessProgram(s) ==
    /\ Len(s) >= 4 /\ Len(s) <= 42
    /\ (s[1] = OP0 \/ (s[1] >= OP1 /\ s[1] <= OP16))
    /\ s[2] + 2 = Len(s)
WVersion(s) == IF s[1] = OP0 THEN 0 ELSE s[1] - (OP1 - 1)
WProgram(s) == SubSeq(s, 3, Len(s))

WitnessSigOps(prog, wit) ==
    IF WVersion(prog) # 0 THEN 0
    ELSE IF Len(WProgram(prog)) = 20 THEN 1
    ELSE IF Len(WProgram(prog)) = 32 /\ Len(wit) > 0 THEN Count(wit[Len(wit)], TRUE)
    ELSE 0

WitnessCount(sig, pk, wit) ==
    IF IsWitnessProgram(pk) THEN WitnessSigOps(pk, wit)
    ELSE IF IsP2SH(pk) /\ PushOnly(sig) /\ IsWitnessProgram(LastData(sig))
         THEN WitnessSigOps(LastData(sig), wit)
    ELSE 0

-----------------------------------------------------------------------------
(* building blocks of the cases *)

RECURSIVE Fill(_, _)
Fill(v, n) == IF n = 0 THEN << >> ELSE Append(Fill(v, n - 1), v)

RECURSIVE Flat(_)
Flat(ss) == IF Len(ss) = 0 THEN << >> ELSE ss[1] \o Flat(Tail(ss))

\* the four encodings of a push of d
Direct(d) == <<Len(d)>> \o d                                   \* Len(d) <= 75
PD1(d) == <<PUSHDATA1, Len(d)>> \o d                           \* Len(d) <= 255
PD2(d) == <<PUSHDATA2, Len(d) % 256, Len(d) \div 256>> \o d
PD4(d) == <<PUSHDATA4, Len(d) % 256, Len(d) \div 256, 0, 0>> \o d
Push(enc, d) == CASE enc = "direct" -> Direct(d) [] enc = "pd1" -> PD1(d)
                  [] enc = "pd2" -> PD2(d) [] enc = "pd4" -> PD4(d)

P2SH   == <<HASH160, 20>> \o Fill(7, 20) \o <<EQUAL>>
P2WPKH == <<OP0, 20>> \o Fill(7, 20)
P2WSH  == <<OP0, 32>> \o Fill(7, 32)
P2TR   == <<OP1, 32>> \o Fill(7, 32)
Key    == <<33>> \o Fill(2, 33)
Multi23 == <<82>> \o Key \o Key \o Key \o <<83, CHECKMULTISIG>>        \* 2 of 3: 105 bytes
Multi22 == <<82>> \o Key \o Key \o <<82, CHECKMULTISIG>>
P2PKH  == <<118, HASH160, 20>> \o Fill(7, 20) \o <<EQUALVERIFY, CHECKSIG>>

-----------------------------------------------------------------------------
(* count cases: every byte string up to a length over the bytes that       *)
(* matter, and sequences of whole tokens                                    *)

Alpha16 == {0, 1, 2, PUSHDATA1, PUSHDATA2, PUSHDATA4, NEG1, OP1, 82, OP16, NOP,
            CHECKSIG, CHECKSIGVERIFY, CHECKMULTISIG, CHECKMULTISIGVERIFY, 255}
Alpha8  == {0, 1, 2, PUSHDATA1, OP1, OP16, CHECKSIG, CHECKMULTISIG}

Strings(A, n) == [1..n -> A]

ByteCases ==
    UNION {Strings(Alpha16, n) : n \in 0..3}
    \cup Strings(IF Thorough THEN Alpha16 ELSE Alpha8, 4)
    \cup (IF Thorough THEN Strings(Alpha8, 5) ELSE {})

Tokens == { <<CHECKSIG>>, <<CHECKSIGVERIFY>>, <<CHECKMULTISIG>>, <<CHECKMULTISIGVERIFY>>,
            <<OP0>>, <<NEG1>>, <<RESERVED>>, <<OP1>>, <<83>>, <<OP16>>, <<NOP>>, <<CHECKSIGADD>>, <<255>>,
            <<1, CHECKSIG>>, <<1, 3>>, <<2, CHECKSIG, CHECKMULTISIG>>, <<2, CHECKSIG>>,
            <<PUSHDATA1>>, <<PUSHDATA1, 0>>, <<PUSHDATA1, 1, CHECKSIG>>, <<PUSHDATA1, 5, CHECKSIG>>,
            <<PUSHDATA2, 1>>, <<PUSHDATA2, 0, 0>>, <<PUSHDATA2, 1, 0, CHECKSIG>>, <<PUSHDATA2, 0, 1, CHECKSIG>>,
            <<PUSHDATA4, 1, 0, 0>>, <<PUSHDATA4, 0, 0, 0, 0>>, <<PUSHDATA4, 1, 0, 0, 0, CHECKMULTISIG>>,
            <<PUSHDATA4, 0, 0, 0, 128, CHECKSIG>>, <<PUSHDATA4, 255, 255, 255, 255, CHECKSIG>>,
            <<PUSHDATA4, 2, 0, 0, 0, CHECKSIG>>,
            <<75>> \o Fill(CHECKSIG, 75), <<75>> \o Fill(CHECKSIG, 74), Key }
TokensCore == { <<CHECKSIG>>, <<CHECKMULTISIG>>, <<CHECKMULTISIGVERIFY>>, <<OP0>>, <<OP1>>, <<83>>, <<OP16>>,
                <<1, CHECKSIG>>, <<1, 3>>, <<PUSHDATA1, 1, CHECKSIG>>, <<PUSHDATA2, 0, 1, CHECKSIG>>,
                <<PUSHDATA4, 1, 0, 0, 0, CHECKMULTISIG>>, Key }

TokenCases ==
    { Flat(q) : q \in UNION {[1..n -> Tokens] : n \in 1..2} }
    \cup { Flat(q) : q \in [1..3 -> IF Thorough THEN Tokens ELSE TokensCore] }
    \cup { Multi23, Multi22, P2PKH, P2SH, P2WPKH, P2WSH,
           <<OP0>> \o Key \o <<OP0, CHECKMULTISIG>>, <<OP16>> \o Fill(NOP, 200) \o <<CHECKMULTISIG>> }

CountExpect(s) ==
    [ quick |-> Count(s, FALSE), precise |-> Count(s, TRUE), pushOnly |-> PushOnly(s), parses |-> Parse(s).ok ]

\* number of occurrences of the bytes in B
Occ(s, B) == Cardinality({i \in 1..Len(s) : s[i] \in B})

CountLaws ==
    case.kind = "count" =>
        LET s == case.s IN
        \* precise counting only ever lowers a multisig from 20
        /\ expect.precise <= expect.quick
        \* never more than one unit per CHECKSIG byte, twenty per CHECKMULTISIG byte
        /\ expect.quick <= Occ(s, {CHECKSIG, CHECKSIGVERIFY}) + 20 * Occ(s, {CHECKMULTISIG, CHECKMULTISIGVERIFY})
        \* a script without any data-carrying byte counts every such byte
        /\ ((\A i \in 1..Len(s) : s[i] = 0 \/ s[i] > PUSHDATA4) =>
               /\ expect.parses
               /\ expect.quick = Occ(s, {CHECKSIG, CHECKSIGVERIFY}) + 20 * Occ(s, {CHECKMULTISIG, CHECKMULTISIGVERIFY}))

-----------------------------------------------------------------------------
(* P2SH cases *)

Redeems == { << >>, <<CHECKSIG>>, <<82, CHECKMULTISIG>>, <<CHECKMULTISIG>>, <<OP0, CHECKMULTISIG>>,
             <<OP16, CHECKMULTISIGVERIFY>>, <<CHECKSIG, CHECKSIG, PUSHDATA1>>, <<1, CHECKSIG>>,
             <<82, 1, CHECKMULTISIG>>, <<CHECKSIG, PUSHDATA4, 255, 255, 255, 255>>, Multi22, Multi23,
             <<83, NOP, CHECKMULTISIG>>, <<82, CHECKMULTISIG, 83, CHECKMULTISIG, CHECKSIGVERIFY>> }
PkScripts == { P2SH,
               <<HASH160, 20>> \o Fill(7, 20) \o <<EQUALVERIFY>>,
               <<HASH160, 19>> \o Fill(7, 19) \o <<EQUAL>>,
               <<HASH256, 20>> \o Fill(7, 20) \o <<EQUAL>>,
               <<HASH160, PUSHDATA1, 20>> \o Fill(7, 20) \o <<EQUAL>>,
               P2SH \o <<NOP>>,
               <<HASH160, 20>> \o Fill(7, 20) \o <<EQUALVERIFY, CHECKSIG>>,
               <<82>> \o Key \o Key \o <<82, CHECKMULTISIG>> }
Prefixes == { << >>, <<OP0>>, <<1, 5>>, <<NEG1>>, <<RESERVED>>, <<OP1>>, <<NOP>>, <<CHECKSIG>> }
Suffixes == { << >>, <<OP1>>, <<OP0>>, <<NOP>>, <<PUSHDATA1>>, <<1>>, <<1, CHECKSIG>> }
Encs == {"direct", "pd1", "pd2", "pd4"}

\* (a "direct" encoding of more than 75 bytes is not a push at all: its first
\* byte is some other opcode; such scripts are cases like any other)
P2SHCases ==
    { [sig |-> Push(enc, r), pk |-> pk] : enc \in Encs, r \in Redeems, pk \in PkScripts }
    \cup { [sig |-> pre \o Push(enc, r) \o suf, pk |-> P2SH] :
              enc \in {"direct", "pd1"}, r \in Redeems, pre \in Prefixes, suf \in Suffixes }
    \cup { [sig |-> << >>, pk |-> pk] : pk \in PkScripts }

P2SHLaws ==
    case.kind = "p2sh" =>
        \* a signature script that is not push-only spends a P2SH output with zero counted operations
        /\ (IsP2SH(case.c.pk) /\ ~PushOnly(case.c.sig) => expect.n = 0)
        /\ (~IsP2SH(case.c.pk) => expect.n = Count(case.c.pk, TRUE))

-----------------------------------------------------------------------------
(* witness cases *)

WScripts == { << >>, <<CHECKSIG>>, <<82, CHECKMULTISIG>>, <<CHECKMULTISIG>>, <<CHECKSIG, CHECKSIG, PUSHDATA1>>, Multi22 }
Witnesses ==
    { << >> } \cup { <<w>> : w \in WScripts } \cup { <<<<1>>, w>> : w \in {<<CHECKSIG>>, Multi22} }
    \cup { <<w, <<1>>>> : w \in {<<CHECKSIG>>, Multi22} }

WPk == { P2WPKH, P2WSH, P2TR,
         <<OP1, 20>> \o Fill(7, 20), <<OP16, 32>> \o Fill(7, 32),
         <<OP0, 2, 7, 7>>, <<OP0, 40>> \o Fill(7, 40), <<OP0, 41>> \o Fill(7, 41), <<OP0, 1, 7>>,
         <<OP0, 31>> \o Fill(7, 31), <<OP0, 33>> \o Fill(7, 33),
         <<OP0, PUSHDATA1, 20>> \o Fill(7, 20), <<NEG1, 20>> \o Fill(7, 20), <<RESERVED, 32>> \o Fill(7, 32),
         P2WPKH \o <<NOP>>, <<OP0, 21>> \o Fill(7, 20), <<OP0, 19>> \o Fill(7, 20),
         <<OP0, OP0, OP0, OP0>>, <<OP0, OP1, OP1, OP1>>, <<OP0, 2, 7>>,
         P2SH, <<CHECKSIG>>, P2PKH }
WSig == { << >>, Direct(P2WPKH), Direct(P2WSH), <<OP0>> \o Direct(P2WSH), Direct(P2WSH) \o <<NOP>>,
          PD1(P2WSH), PD2(P2WPKH), Direct(P2WSH) \o <<OP1>>, Direct(P2TR), <<CHECKSIG>>,
          Direct(<<OP0, 2, 7, 7>>), Direct(P2WSH) \o <<1>>, Direct(Multi22) }

WitnessCases == { [sig |-> sg, pk |-> pk, wit |-> w] : sg \in WSig, pk \in WPk, w \in Witnesses }

WitnessLaws ==
    case.kind = "witness" =>
        LET c == case.c IN
        \* only version 0 programs and scripts nested in P2SH count at all
        /\ (expect.n > 0 => (IsWitnessProgram(c.pk) /\ c.pk[1] = OP0) \/ IsP2SH(c.pk))
        \* a key-hash program counts one whatever the witness
        /\ (c.pk = P2WPKH => expect.n = 1)

-----------------------------------------------------------------------------
(* transactions: inputs [sig, wit, pk, avail]: pk the script of the spent  *)
(* output, avail whether the output is "unspent", "spent" or "missing", or   *)
(* "null" for a coinbase input (null previous outpoint, nothing is spent)    *)

InKinds ==
    [ legacy    |-> [sig |-> Direct(Fill(9, 71)) \o Key, wit |-> << >>, pk |-> P2PKH, avail |-> "unspent"],
      sigop     |-> [sig |-> <<CHECKSIG, 82, CHECKMULTISIG>>, wit |-> << >>, pk |-> <<OP1>>, avail |-> "unspent"],
      p2sh23    |-> [sig |-> <<OP0>> \o Direct(Fill(9, 71)) \o PD1(Multi23), wit |-> << >>, pk |-> P2SH, avail |-> "unspent"],
      p2sh20    |-> [sig |-> Direct(<<CHECKMULTISIG>>), wit |-> << >>, pk |-> P2SH, avail |-> "unspent"],
      p2shBad   |-> [sig |-> PD1(Multi23) \o <<NOP>>, wit |-> << >>, pk |-> P2SH, avail |-> "unspent"],
      wpkh      |-> [sig |-> << >>, wit |-> <<Fill(9, 71), Key>>, pk |-> P2WPKH, avail |-> "unspent"],
      wsh       |-> [sig |-> << >>, wit |-> <<<<1>>, <<CHECKSIG, CHECKSIGVERIFY>>>>, pk |-> P2WSH, avail |-> "unspent"],
      wshEmpty  |-> [sig |-> << >>, wit |-> << >>, pk |-> P2WSH, avail |-> "unspent"],
      shwpkh    |-> [sig |-> Direct(P2WPKH), wit |-> <<Fill(9, 71), Key>>, pk |-> P2SH, avail |-> "unspent"],
      shwsh     |-> [sig |-> Direct(P2WSH), wit |-> <<<<OP0>>, Multi22>>, pk |-> P2SH, avail |-> "unspent"],
      taproot   |-> [sig |-> << >>, wit |-> <<Fill(9, 64)>>, pk |-> P2TR, avail |-> "unspent"],
      missing   |-> [sig |-> <<OP1>>, wit |-> << >>, pk |-> <<OP1>>, avail |-> "missing"],
      spent     |-> [sig |-> Direct(P2WSH), wit |-> <<<<CHECKSIG>>>>, pk |-> P2WSH, avail |-> "spent"],
      \* coinbase inputs (avail "null": the previous outpoint is the null outpoint,
      \* there is no spent output); the opcodes of a coinbase signature script
      \* count like those of any other: pushes only, bare CHECKSIG bytes,
      \* CHECKMULTISIG after OP_n (20 each: legacy counting), sigop bytes inside a push
      cbPush    |-> [sig |-> <<3, 1, 2, 3, 1, 66>>, wit |-> << >>, pk |-> << >>, avail |-> "null"],
      cbSig     |-> [sig |-> <<3, 1, 2, 3, CHECKSIG, CHECKSIGVERIFY, CHECKSIG>>, wit |-> << >>, pk |-> << >>, avail |-> "null"],
      cbMulti   |-> [sig |-> <<3, 1, 2, 3, 83, CHECKMULTISIG, OP16, CHECKMULTISIGVERIFY>>, wit |-> <<Fill(0, 32)>>, pk |-> << >>, avail |-> "null"],
      cbInPush  |-> [sig |-> <<3, 1, 2, 3, 4, CHECKSIG, CHECKMULTISIG, CHECKSIG, CHECKSIG>>, wit |-> << >>, pk |-> << >>, avail |-> "null"] ]
InNames == DOMAIN InKinds
\* two-input transactions: all pairs in the thorough tier, a core otherwise
PairNames == IF Thorough THEN InNames ELSE {"sigop", "p2sh23", "p2shBad", "wsh", "shwsh", "wpkh", "missing", "spent"}

OutSets == { << >>, <<P2PKH>>, <<<<81>> \o Key \o Key \o <<82, CHECKMULTISIG>>, <<106, 2, CHECKSIG, CHECKSIG>>>>,
             <<P2SH, P2WSH, <<CHECKSIG, CHECKSIG>>>> }

Available(i) == i.avail = "unspent"

\* a case names its inputs; InsOf gives the inputs themselves
InsOf(names) == [k \in 1..Len(names) |-> InKinds[names[k]]] \o << >>

TxExpect(c) ==
    LET t    == [ins |-> InsOf(c.names), outs |-> c.outs, coinbase |-> c.coinbase, bip16 |-> c.bip16, segwit |-> c.segwit]
        nIn  == Len(t.ins)
        legacy == LET a[k \in 0..nIn] == IF k = 0 THEN 0 ELSE a[k - 1] + Count(t.ins[k].sig, FALSE)
                      b[k \in 0..Len(t.outs)] == IF k = 0 THEN 0 ELSE b[k - 1] + Count(t.outs[k], FALSE)
                  IN  a[nIn] + b[Len(t.outs)]
        allThere == \A k \in 1..nIn : Available(t.ins[k])
        \* the previous outputs are looked at only for a transaction that is not
        \* a coinbase, and only by the rules that are switched on
        needPrev == ~t.coinbase /\ (t.bip16 \/ t.segwit)
        p2sh == IF t.coinbase \/ ~allThere THEN 0
                ELSE LET a[k \in 0..nIn] == IF k = 0 THEN 0
                                            ELSE a[k - 1] + (IF IsP2SH(t.ins[k].pk)
                                                             THEN PreciseCount(t.ins[k].sig, t.ins[k].pk) ELSE 0)
                     IN a[nIn]
        wit  == IF t.coinbase \/ ~allThere THEN 0
                ELSE LET a[k \in 0..nIn] == IF k = 0 THEN 0
                                            ELSE a[k - 1] + WitnessCount(t.ins[k].sig, t.ins[k].pk, t.ins[k].wit)
                     IN a[nIn]
    IN  [ legacy |-> legacy,
          \* CountP2SHSigOps on its own: an error when a spent output is not there
          p2shErr |-> ~t.coinbase /\ ~allThere,
          p2sh |-> p2sh,
          err  |-> needPrev /\ ~allThere,
          cost |-> IF needPrev /\ ~allThere THEN 0
                   ELSE 4 * legacy + (IF t.bip16 THEN 4 * p2sh ELSE 0) + (IF t.segwit THEN wit ELSE 0) ]

TxCases(names) ==
    { [names |-> names, outs |-> o, coinbase |-> cb, bip16 |-> b, segwit |-> sw] :
         o \in OutSets, cb \in BOOLEAN, b \in BOOLEAN, sw \in BOOLEAN }

TxLaws ==
    case.kind = "tx" =>
        /\ (~expect.err => expect.cost >= 4 * expect.legacy)
        /\ (~expect.err => (expect.cost - 4 * expect.legacy > 0 => (case.t.bip16 \/ case.t.segwit) /\ ~case.t.coinbase))

-----------------------------------------------------------------------------
None == [none |-> TRUE]

Groups ==
         {[of |-> "bytes", n |-> n, first |-> a] : n \in 1..5, a \in Alpha16}
    \cup {[of |-> "bytes", n |-> 0, first |-> 0]}
    \cup {[of |-> "tokens", n |-> n] : n \in 0..3}
    \cup {[of |-> "p2sh", part |-> i] : i \in 0..3}
    \cup {[of |-> "witness", n |-> n] : n \in 0..2}
    \cup {[of |-> "inkinds"]}
    \cup {[of |-> "tx", names |-> <<a>>] : a \in InNames}
    \cup {[of |-> "tx", names |-> <<a, b>>] : a \in PairNames, b \in PairNames}

Init == case = [kind |-> "root"] /\ expect = None

Group == /\ case.kind = "root"
         /\ \E g \in Groups : case' = [kind |-> "group", g |-> g]
         /\ expect' = None

Pick ==
    /\ case.kind = "group"
    /\ LET g == case.g IN
       \/ /\ g.of = "bytes"
          /\ \E s \in {x \in ByteCases : Len(x) = g.n /\ (g.n = 0 \/ x[1] = g.first)} :
                case' = [kind |-> "count", s |-> s] /\ expect' = CountExpect(s)
       \/ /\ g.of = "tokens" /\ g.n = 0
          /\ \E s \in TokenCases : case' = [kind |-> "count", s |-> s] /\ expect' = CountExpect(s)
       \/ /\ g.of = "p2sh"
          /\ \E c \in {x \in P2SHCases : Len(x.sig) % 4 = g.part} :
                case' = [kind |-> "p2sh", c |-> c] /\ expect' = [n |-> PreciseCount(c.sig, c.pk)]
       \/ /\ g.of = "witness"
          /\ \E c \in {x \in WitnessCases : Len(x.wit) = g.n} :
                case' = [kind |-> "witness", c |-> c] /\ expect' = [n |-> WitnessCount(c.sig, c.pk, c.wit)]
       \/ /\ g.of = "inkinds"
          /\ case' = [kind |-> "inkinds"] /\ expect' = InKinds
       \/ /\ g.of = "tx"
          /\ \E t \in TxCases(g.names) : case' = [kind |-> "tx", t |-> t] /\ expect' = TxExpect(t)

Next == Group \/ Pick

Spec == Init /\ [][Next]_vars
=============================================================================
