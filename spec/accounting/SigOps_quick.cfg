SPECIFICATION Spec
CONSTANT Tier = "quick"
INVARIANTS CountLaws P2SHLaws WitnessLaws TxLaws
