SPECIFICATION Spec
CONSTANT Tier = "thorough"
INVARIANTS CountLaws P2SHLaws WitnessLaws TxLaws
