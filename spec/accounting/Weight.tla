------------------------------- MODULE Weight -------------------------------
(***************************************************************************)
(* C13, weight part (BIP141): weight = 3 * stripped size + total size,     *)
(* where the sizes are those of the network serialisations defined here    *)
(* field by field.  A transaction is given by its shape only (counts and   *)
(* lengths): the bytes do not matter for the size.                         *)
(*                                                                         *)
(* Lists are run-length encoded: a sequence of runs [x, count].             *)
(*  tx shape   [ins  |-> runs of [ss |-> signature script length,          *)
(*                                 wit |-> runs of item lengths],          *)
(*              outs |-> runs of public key script lengths]                *)
(*  block      runs of tx shapes                                           *)
(*                                                                         *)
(* kinds:  tx [shape]  -> stripped, total, weight                          *)
(*         block [runs] -> stripped, total, weight                         *)
(***************************************************************************)
EXTENDS Integers, Sequences, FiniteSets, TLC

CONSTANTS Tier

VARIABLES case, expect
vars == <<case, expect>>

Thorough == Tier = "thorough"

-----------------------------------------------------------------------------
(* serialisation sizes *)

\* compact size prefix of a count or length (9 bytes from 2^32 on: no count
\* or length of a transaction that fits a message gets there, and TLC's
\* integers stop at 2^31 - 1)
VarInt(n) == IF n < 253 THEN 1 ELSE IF n <= 65535 THEN 3 ELSE 5

RECURSIVE SumTo(_, _)
SumTo(f, k) == IF k = 0 THEN 0 ELSE f[k] + SumTo(f, k - 1)
Sum(f) == SumTo(f, Len(f))

\* lists are run-length encoded: a sequence of runs [x, count]
Count(runs) == Sum([k \in 1..Len(runs) |-> runs[k].count])

\* witness of one input: item count, then each item with its length prefix
WitSize(w) == VarInt(Count(w)) + Sum([k \in 1..Len(w) |-> w[k].count * (VarInt(w[k].x) + w[k].x)])
\* outpoint 36, script, sequence 4
InSize(i)  == 36 + VarInt(i.ss) + i.ss + 4
\* value 8, script
OutSize(l) == 8 + VarInt(l) + l

HasWitness(t) == \E k \in 1..Len(t.ins) : t.ins[k].count > 0 /\ Count(t.ins[k].x.wit) > 0

\* version 4, inputs, outputs, lock time 4
Stripped(t) ==
    4 + VarInt(Count(t.ins)) + Sum([k \in 1..Len(t.ins) |-> t.ins[k].count * InSize(t.ins[k].x)])
      + VarInt(Count(t.outs)) + Sum([k \in 1..Len(t.outs) |-> t.outs[k].count * OutSize(t.outs[k].x)]) + 4

\* the witness serialisation (marker, flag, one witness per input) is used
\* only when some input has a non-empty witness
Total(t) ==
    IF HasWitness(t)
    THEN Stripped(t) + 2 + Sum([k \in 1..Len(t.ins) |-> t.ins[k].count * WitSize(t.ins[k].x.wit)])
    ELSE Stripped(t)

TxWeight(t) == 3 * Stripped(t) + Total(t)

\* header 80, transaction count, transactions
BlockStripped(runs) == 80 + VarInt(Count(runs)) + Sum([k \in 1..Len(runs) |-> runs[k].count * Stripped(runs[k].x)])
BlockTotal(runs)    == 80 + VarInt(Count(runs)) + Sum([k \in 1..Len(runs) |-> runs[k].count * Total(runs[k].x)])
BlockWeight(runs)   == 3 * BlockStripped(runs) + BlockTotal(runs)

-----------------------------------------------------------------------------
(* cases *)

R(x, n) == [x |-> x, count |-> n]
One(x)  == <<R(x, 1)>>

ScriptLens == {0, 1, 25, 252, 253, 254} \cup (IF Thorough THEN {65535, 65536, 100000} ELSE {65535, 65536})
SmallLens  == {0, 1, 252, 253}

Wits == { << >>, One(0), One(1), One(252), One(253), <<R(72, 1), R(33, 1)>>, <<R(0, 2)>>, One(65535), One(65536),
          <<R(0, 252)>>, <<R(0, 253)>>, <<R(1, 253)>>, <<R(1, 1), R(0, 251)>>, <<R(1, 1), R(0, 251), R(2, 1)>> }
       \cup (IF Thorough THEN { <<R(253, 3)>>, <<R(520, 2), R(10000, 1)>>, <<R(2, 300)>>, <<R(0, 65535)>>, <<R(0, 65536)>> } ELSE {})
SmallWits == { << >>, One(0), <<R(72, 1), R(33, 1)>> }

In(ss, w) == [ss |-> ss, wit |-> w]

\* one input crossed with everything, two inputs over the small sets, many inputs
InLists ==
         { One(In(ss, w)) : ss \in ScriptLens, w \in Wits }
    \cup { <<R(In(a, w1), 1), R(In(b, w2), 1)>> : a \in SmallLens, b \in SmallLens, w1 \in SmallWits, w2 \in SmallWits }
    \cup { <<R(In(0, w), n)>> : n \in {252, 253}, w \in {<< >>, One(1)} }
    \cup { <<R(In(1, << >>), 1), R(In(0, << >>), 251), R(In(0, One(5)), 1)>>,
           <<R(In(1, << >>), 1), R(In(0, << >>), 250), R(In(0, One(5)), 1)>> }

OutLists ==
         { << >> } \cup { One(l) : l \in ScriptLens }
    \cup { <<R(a, 1), R(b, 1)>> : a \in SmallLens, b \in (IF Thorough THEN SmallLens ELSE {0, 253}) }
    \cup { <<R(1, n)>> : n \in {252, 253} }
OutListsSmall == { << >>, One(1), One(253), <<R(25, 1), R(0, 1)>> }

IsBigIn(ins) == Count(ins) > 2
TxShapes ==
    { [ins |-> i, outs |-> o] : i \in {x \in InLists : ~IsBigIn(x)}, o \in OutLists }
    \cup { [ins |-> i, outs |-> o] : i \in {x \in InLists : IsBigIn(x)}, o \in OutListsSmall }

TxExpect(t) == [ stripped |-> Stripped(t), total |-> Total(t), weight |-> TxWeight(t), witness |-> HasWitness(t) ]

\* blocks: a coinbase-like first transaction, then runs
CB == [ins |-> One(In(4, << >>)), outs |-> One(1)]
CBW == [ins |-> One(In(4, One(32))), outs |-> <<R(1, 1), R(38, 1)>>]
Plain == [ins |-> One(In(0, << >>)), outs |-> One(1)]
Seg   == [ins |-> One(In(0, <<R(72, 1), R(33, 1)>>)), outs |-> One(22)]
Big   == [ins |-> One(In(253, One(253))), outs |-> One(65536)]

Run(s, n) == R(s, n)
BlockCases ==
         { <<Run(c, 1)>> : c \in {CB, CBW} }
    \cup { <<Run(c, 1), Run(s, n)>> : c \in {CB, CBW}, s \in {Plain, Seg, Big}, n \in {1, 2, 251, 252, 253} }
    \cup { <<Run(c, 1), Run(s1, n), Run(s2, 1)>> : c \in {CB, CBW}, s1 \in {Plain, Seg}, s2 \in {Seg, Big}, n \in {1, 250, 251, 252} }
    \cup { << >> }

BlockExpect(r) == [ stripped |-> BlockStripped(r), total |-> BlockTotal(r), weight |-> BlockWeight(r), ntx |-> Count(r) ]

WeightLaws ==
    /\ case.kind = "tx" =>
          /\ expect.weight = 3 * expect.stripped + expect.total
          \* without witness data the two serialisations coincide: weight is 4 * size
          /\ (~expect.witness => expect.total = expect.stripped /\ expect.weight = 4 * expect.stripped)
          \* witness data costs one unit per byte: at least marker, flag and one count per input
          /\ (expect.witness => expect.total >= expect.stripped + 2 + Count(case.t.ins) + 1)
          /\ expect.stripped >= 10
    /\ case.kind = "block" =>
          /\ expect.weight = 3 * expect.stripped + expect.total
          /\ expect.total >= expect.stripped
          /\ expect.stripped >= 81

-----------------------------------------------------------------------------
None == [none |-> TRUE]

Groups == {[of |-> "tx", n |-> n, big |-> b] : n \in 0..2, b \in BOOLEAN}
          \cup {[of |-> "block"]}

Init == case = [kind |-> "root"] /\ expect = None

Group == /\ case.kind = "root"
         /\ \E g \in Groups : case' = [kind |-> "group", g |-> g]
         /\ expect' = None

Pick ==
    /\ case.kind = "group"
    /\ LET g == case.g IN
       \/ /\ g.of = "tx"
          /\ \E t \in {x \in TxShapes : (IF Count(x.outs) > 2 THEN 2 ELSE Count(x.outs)) = g.n /\ IsBigIn(x.ins) = g.big} :
                case' = [kind |-> "tx", t |-> t] /\ expect' = TxExpect(t)
       \/ /\ g.of = "block"
          /\ \E r \in BlockCases : case' = [kind |-> "block", r |-> r] /\ expect' = BlockExpect(r)

Next == Group \/ Pick

Spec == Init /\ [][Next]_vars
=============================================================================
