SPECIFICATION Spec
CONSTANT Tier = "quick"
INVARIANTS WeightLaws
