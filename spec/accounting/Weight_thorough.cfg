SPECIFICATION Spec
CONSTANT Tier = "thorough"
INVARIANTS WeightLaws
