------------------------------ MODULE AddrCases ------------------------------
(***************************************************************************)
(* C16: the definitions of AddrCodec.tla evaluated by TLC on enumerated    *)
(* inputs.  One state per case: `case` is the input, `expect` what the     *)
(* specification says about it.  States have no successors below the case *)
(* level (root -> group -> case).  The invariants are the laws of the      *)
(* property at the level of the specification (round trips, case           *)
(* insensitivity, variant pairing, network separation, template table      *)
(* agreement, derivation commuting, every leaf proves under the root).     *)
(* The binder concretises every case on the real btcd code and compares    *)
(* with `expect`; the decision tables ("bech", "b58", "pkhex", "wif",      *)
(* "hdstr") are also used in the other direction: every concrete string    *)
(* offered to a decoder (valid, corrupted, edited) is abstracted by the     *)
(* binder and the decoder's answer is looked up in the table.              *)
(*                                                                         *)
(* kinds                                                                   *)
(*  net      one network row            registry predicates, P2A string    *)
(*  bech     abstract bech32 string     decision (property + impl layer)   *)
(*  b58      abstract Base58Check string x default net   decision          *)
(*  pkhex    abstract hex public key x default net        decision         *)
(*  vec32    concrete hrp, version, program   the two checksum variants'   *)
(*                                            strings and their decisions  *)
(*  vec58    concrete bytes             base-58 string                     *)
(*  edit     valid address x edit class guarantee + original abstraction   *)
(*  addr     address kind x net         string form, decision, template,   *)
(*                                      class, extraction, pkscript        *)
(*  script   template mutation / witness program grid    class, extraction *)
(*  spend    spending data form         implied output script kind         *)
(*  wif      abstract WIF string        decision                           *)
(*  wifobj   net x compressed           abstract string of its encoding    *)
(*  hd       root x operation sequence  outcome of every step              *)
(*  hdvec    BIP32 test vector          bookkeeping of the documented keys *)
(*  hdstr    abstract serialised key    decision                           *)
(*  tap      leaf list                  assembled tree, root, proofs       *)
(*  tapgen   arbitrary tree shape       root, proofs                       *)
(***************************************************************************)
EXTENDS AddrDoc, TLC, Json

CONSTANTS Tier          \* "quick" or "thorough"

VARIABLES case, expect
vars == <<case, expect>>

Thorough == Tier = "thorough"
None == [none |-> TRUE]

-----------------------------------------------------------------------------
(* net *)

\* the first network of the table with the same identifier bytes
B58Like(name) ==
    LET n == NetOf(name)
        i == CHOOSE i \in 1..Len(NetTable) :
                /\ NetTable[i].pkh = n.pkh /\ NetTable[i].sh = n.sh
                /\ \A j \in 1..(i - 1) : ~(NetTable[j].pkh = n.pkh /\ NetTable[j].sh = n.sh)
    IN  NetTable[i].name
B58Nets == {nn \in NetNames : B58Like(nn) = nn}

NetExpect(n) ==
    [ segprefix |-> n.hrp \in RegHrps,
      \* implementation layer of the prefix registry, per prefix
      implsegprefix |-> n.hrp \in ImplRegHrps, impldecodable |-> ImplDecodable(n.hrp),
      hrpnets |-> NetsWithHrp(n.hrp), implhrpnets |-> ImplNetsWithHrp(n.hrp),
      \* the default-network rows of the Base58Check and hex key tables are written
      \* for the first network with these identifier bytes
      b58like |-> B58Like(n.name),
      pkhid |-> n.pkh \in RegPkhIds, shid |-> n.sh \in RegShIds,
      hdpubof |-> HdPubOf(n.hdpriv),
      \* identifiers nobody registered
      otherpkh |-> 200 \in RegPkhIds, othersh |-> 201 \in RegShIds,
      p2a |-> SegwitString(n.hrp, 1, <<78, 115>>, ConstB32M) ]

\* BIP-documented pay-to-anchor strings (comment on AddressPayToAnchor.EncodeAddress)
NetLaws ==
    case.kind = "net" =>
        /\ (case.n.name = "mainnet" => expect.p2a = "bc1pfeessrawgf")
        /\ (case.n.name = "testnet3" => expect.p2a = "tb1pfees9rn5nz")
        /\ (case.n.name = "regtest" => expect.p2a = "bcrt1pfeesnyr2tx")
        /\ (case.n.name = "simnet" => expect.p2a = "sb1pfeesxv0pfa")
        /\ (case.n.reg => expect.segprefix /\ expect.pkhid /\ expect.shid /\ expect.hdpubof = case.n.hdpub)
        /\ ~expect.otherpkh /\ ~expect.othersh

-----------------------------------------------------------------------------
(* bech: the decision table *)

BechStr(hrp, defect, cs, ck, ver, ng, padzero, anchor) ==
    [hrp |-> hrp, defect |-> defect, case |-> cs, ck |-> ck, ver |-> ver, ng |-> ng,
     padzero |-> padzero, anchor |-> anchor]

BechVers == IF Thorough THEN -1..31 ELSE (-1..17) \cup {31}
CanonBech17(s) == IF s.ng > 67 THEN [s EXCEPT !.ver = 17, !.ng = 67, !.padzero = TRUE, !.anchor = FALSE]
                  ELSE [s EXCEPT !.ver = 17]
\* a structural defect or mixed case decides alone: the table holds one row for it
CanonBech(s) ==
    IF s.defect # "none" THEN BechStr(s.hrp, s.defect, "lower", "bad", -1, 0, TRUE, FALSE)
    ELSE IF s.case = "mixed" THEN BechStr(s.hrp, "none", "mixed", "bad", -1, 0, TRUE, FALSE)
    \* version symbols above 16 are no witness versions: the rows of 17 stand for
    \* those the tier does not list
    ELSE IF s.ver \notin BechVers THEN CanonBech17(s)
    \* more symbols than any program of 40 bytes needs: one row
    ELSE IF s.ng > 67 THEN [s EXCEPT !.ng = 67, !.padzero = TRUE, !.anchor = FALSE]
    ELSE s

\* the decision table is enumerated for one prefix (BechLaws: the others decide alike)
TableHrp == "bc"
BechDefects == {"tooshort", "toolong", "nonascii", "seplate", "badchar"}
BechNgs  == 0..67
\* the upper-case rows decide like the lower-case ones (BechLaws checks it on every
\* row); the quick tier keeps the lower-case rows only
BechCases == IF Thorough THEN {"lower", "upper"} ELSE {"lower"}
\* left-over bits: all zero or not - also when there are five or more of them
PadChoices(ng) == IF LeftOver(ng) >= 1 THEN BOOLEAN ELSE {TRUE}
AnchorChoices(ng) == IF ProgLen(ng) = 2 THEN BOOLEAN ELSE {FALSE}

\* the abstract string an encoder produces for a segwit address
AbsBechOf(hrp, ver, plen, anchor) ==
    BechStr(hrp, "none", "lower", IF ver = 0 THEN "b32" ELSE "b32m", ver, NGroups(plen), TRUE, anchor)

BechExpect(s) == [d |-> DecideBech(s), impl |-> ImplBech(s)]

BechLaws ==
    case.kind = "bech" =>
        LET s == case.s
            d == expect.d
        IN  /\ CanonBech(s) = s
            /\ d.accept => /\ SegwitOK(s)
                           \* witness version <-> checksum variant pairing
                           /\ (s.ver = 0 <=> s.ck = "b32")
                           /\ s.case # "mixed"
                           \* decode then re-encode gives the same string in lower case
                           /\ AbsBechOf(d.hrp, d.ver, d.plen, d.kind = "p2a") = [s EXCEPT !.case = "lower"]
                           \* network separation: for exactly the networks with this prefix
                           /\ d.fornets = NetsWithHrp(s.hrp)
                           /\ \A h \in RegHrps \ {s.hrp} : NetsWithHrp(h) \cap d.fornets = {}
            \* case-insensitive: the upper-case form decides the same
            /\ (s.case = "lower" /\ s.defect = "none" =>
                    DecideBech([s EXCEPT !.case = "upper"]) = d)
            \* a defect, mixed case or bad checksum always rejects
            /\ (s.defect # "none" \/ s.case = "mixed" \/ s.ck = "bad" => ~d.accept)
            \* every raw attribute combination decides like its canonical row
            /\ (s.defect # "none" \/ s.case = "mixed" =>
                    \A v \in {-1, 0, 1}, g \in {0, 32, 52}, k \in {"b32", "b32m", "bad"} :
                        LET raw == [s EXCEPT !.ver = v, !.ng = g, !.ck = k]
                        IN  DecideBech(raw) = d /\ CanonBech(raw) = s)
            \* symbols 17..31 are no witness versions
            /\ (s.ver = 17 => \A v \in 17..31 : ~DecideBech([s EXCEPT !.ver = v]).accept /\ ~ImplBech([s EXCEPT !.ver = v]).accept)
            \* programs longer than 40 bytes are never addresses
            /\ (s.ng = 67 => \A g \in 65..150, pz \in BOOLEAN :
                    /\ ~DecideBech([s EXCEPT !.ng = g, !.padzero = pz]).accept
                    /\ ~ImplBech([s EXCEPT !.ng = g, !.padzero = pz]).accept)
            \* implementation layer = property layer (no recorded defect shape is left)
            /\ expect.impl = d
            \* ... and the code's answer for a prefix is this row's, or a refusal when its
            \* registry never matches the prefix
            /\ \A h \in RegHrps :
                  ImplBech([s EXCEPT !.hrp = h]) =
                     (IF ~ImplDecodable(h) \/ ~d.accept THEN Reject
                      ELSE [d EXCEPT !.hrp = h, !.fornets = ImplNetsWithHrp(h)])
            \* the table is written for one prefix: the prefix only names the networks
            /\ \A h \in RegHrps :
                  LET dh == DecideBech([s EXCEPT !.hrp = h])
                  IN  /\ dh.accept = d.accept
                      /\ (d.accept => dh = [d EXCEPT !.hrp = h, !.fornets = NetsWithHrp(h)])

-----------------------------------------------------------------------------
(* mixed: the ways a string can mix cases.  base: the case of the string, one   *)
(* or all occurrences of a letter are put in the other case; the letter is the  *)
(* first or the last of the alphabet (the ends of the ranges a..z / A..Z) or    *)
(* any other; it sits in the prefix or in the data part; ver 0 / 1: bech32 /    *)
(* bech32m.  All of them are the one mixed row of the table.                    *)
MixedRow == CanonBech(BechStr(TableHrp, "none", "mixed", "bad", -1, 0, TRUE, FALSE))
MixedLaws ==
    case.kind = "mixed" => ~expect.d.accept /\ ~expect.impl.accept /\ expect = BechExpect(MixedRow)

-----------------------------------------------------------------------------
(* b58 *)

B58Str(v, plen, ck, defect, sp) == [v |-> v, plen |-> plen, ck |-> ck, defect |-> defect, segprefix |-> sp]
B58Lens == IF Thorough THEN 0..40 ELSE {0, 19, 20, 21, 32, 40}
\* a defect decides alone; a payload length the table does not list decides like
\* the listed length on the same side of 20
CanonB58(s) == IF s.defect # "none" THEN B58Str(-1, 0, "bad", s.defect, FALSE)
               ELSE IF s.plen \notin B58Lens THEN [s EXCEPT !.plen = IF @ > 20 THEN 40 ELSE 0]
               ELSE s

\* every identifier byte some table mentions (-1: none of them)
IdBytes == UNION {{n.pkh, n.sh, n.wif} : n \in Range(NetTable)} \cup {6, 10, -1}

B58Expect(s, dn) == [d |-> DecideB58(s, dn), impl |-> ImplB58(s, dn)]

B58Laws ==
    case.kind = "b58" =>
        LET s == case.s
            d == expect.d
            n == NetOf(case.dn)
        IN  /\ CanonB58(s) = s
            \* the property does not look at the accidental prefix; the code does
            /\ d = DecideB58([s EXCEPT !.segprefix = FALSE], case.dn)
            /\ expect.impl = d
            /\ d.accept => /\ s.ck = "ok" /\ s.plen = 20 /\ s.defect = "none"
                           /\ s.v \in {n.pkh, n.sh} /\ n.pkh # n.sh
                           /\ case.dn \in d.fornets
                           /\ d.v = s.v
            \* one string never decodes to two different kinds under two default networks
            /\ \A dn2 \in NetNames : LET d2 == DecideB58(s, dn2)
                                     IN  d.accept /\ d2.accept => d2.kind = d.kind /\ d2.fornets = d.fornets
            \* the row stands for every default network with the same identifier bytes
            /\ \A nn \in NetNames : B58Like(nn) = case.dn => DecideB58(s, nn) = d /\ ImplB58(s, nn) = expect.impl
            \* only 20-byte payloads are addresses, whatever the rest says
            /\ s.plen = 19 => \A l \in 0..80 : l # 20 =>
                    /\ ~DecideB58([s EXCEPT !.plen = l], case.dn).accept
                    /\ ~DecideB58(CanonB58([s EXCEPT !.plen = l]), case.dn).accept
            \* network separation: accepted only under default networks that use this byte
            /\ \A dn2 \in NetNames : DecideB58(s, dn2).accept => s.v \in {NetOf(dn2).pkh, NetOf(dn2).sh}

-----------------------------------------------------------------------------
(* pkhex *)

PkHexLaws ==
    case.kind = "pkhex" =>
        LET s == case.s
            d == expect.d
        IN  /\ d.accept => /\ s.hexok /\ s.oncurve
                           /\ (s.nchars = 66 <=> s.prefix \in {2, 3})
                           /\ (d.format = "compressed" <=> s.nchars = 66)
                           /\ case.dn \in d.fornets
            /\ \A nn \in NetNames : B58Like(nn) = case.dn => DecidePkHex(s, nn) = d

-----------------------------------------------------------------------------
(* vec32: concrete strings through the BIP173 arithmetic *)

Pattern(name, plen, ver) ==
    CASE name = "zero"   -> [i \in 1..plen |-> 0]
      [] name = "ff"     -> [i \in 1..plen |-> 255]
      [] name = "count"  -> [i \in 1..plen |-> (i * 37 + plen + ver) % 256]
      [] name = "anchor" -> <<78, 115>>

VecLens == IF Thorough THEN 1..41 ELSE {1, 2, 20, 32, 33, 40, 41}
\* quick tier: the constant patterns only under the mainnet prefix
VecPatterns(hrp, plen) ==
    (IF Thorough \/ hrp = "bc" THEN {"zero", "ff", "count"} ELSE {"count"})
    \cup (IF plen = 2 THEN {"anchor"} ELSE {})

Vec32Expect(hrp, ver, prog, anchor) ==
    LET cg  == ConstFor(ver)
        \* a bech32 string has 90 characters at most
        long == Len(HrpCodes(hrp)) + 2 + NGroups(Len(prog)) + 6 > 90
        abs(ck) == IF long THEN CanonBech(BechStr(hrp, "toolong", "lower", ck, ver, 0, TRUE, FALSE))
                   ELSE BechStr(hrp, "none", "lower", ck, ver, NGroups(Len(prog)), TRUE, anchor)
        ckg == IF ver = 0 THEN "b32" ELSE "b32m"
        ckw == IF ver = 0 THEN "b32m" ELSE "b32"
        dec(a) == IF hrp \in RegHrps THEN BechExpect(a) ELSE [d |-> Reject, impl |-> Reject]
    IN  [ good |-> SegwitString(hrp, ver, prog, cg), wrong |-> SegwitString(hrp, ver, prog, OtherConst(cg)),
          goodabs |-> abs(ckg), wrongabs |-> abs(ckw),
          gooddec |-> dec(abs(ckg)), wrongdec |-> dec(abs(ckw)), registered |-> hrp \in RegHrps ]

\* BIP173 / BIP350 test vectors (valid segwit addresses): hrp, version, program
DocVectors == <<
    [hrp |-> "bc", ver |-> 0, prog |-> <<117,30,118,232,25,145,150,212,84,148,28,69,209,179,163,35,241,67,59,214>>,
     str |-> "bc1qw508d6qejxtdg4y5r3zarvary0c5xw7kv8f3t4"],
    [hrp |-> "bc", ver |-> 1, prog |-> <<117,30,118,232,25,145,150,212,84,148,28,69,209,179,163,35,241,67,59,214,
                                          117,30,118,232,25,145,150,212,84,148,28,69,209,179,163,35,241,67,59,214>>,
     str |-> "bc1pw508d6qejxtdg4y5r3zarvary0c5xw7kw508d6qejxtdg4y5r3zarvary0c5xw7kt5nd6y"],
    [hrp |-> "bc", ver |-> 16, prog |-> <<117,30>>, str |-> "bc1sw50qgdz25j"],
    [hrp |-> "bc", ver |-> 2, prog |-> <<117,30,118,232,25,145,150,212,84,148,28,69,209,179,163,35>>,
     str |-> "bc1zw508d6qejxtdg4y5r3zarvaryvaxxpcs"],
    [hrp |-> "tb", ver |-> 0, prog |-> <<24,99,20,60,20,197,22,104,4,189,25,32,51,86,218,19,108,152,86,120,
                                         205,77,39,161,184,198,50,150,4,144,50,98>>,
     str |-> "tb1qrp33g0q5c5txsp9arysrx4k6zdkfs4nce4xj0gdcccefvpysxf3q0sl5k7"] >>

DocLaws ==
    case.kind = "root" =>
        /\ \A i \in 1..Len(DocVectors) :
              LET v == DocVectors[i]
              IN  /\ SegwitString(v.hrp, v.ver, v.prog, ConstFor(v.ver)) = v.str
                  /\ VariantOf(HrpCodes(v.hrp),
                               LET d == <<v.ver>> \o To5(v.prog)
                               IN  d \o Checksum(HrpCodes(v.hrp), d, ConstFor(v.ver)))
                        = (IF v.ver = 0 THEN "b32" ELSE "b32m")
        \* base-58: documented examples of the base58 package
        /\ B58String(<<0, 0, 40, 127, 180, 205>>) = "11233QC4"
        /\ B58String(<<97>>) = "2g"
        /\ B58String(<<98, 98, 98>>) = "a3gV"
        /\ B58String(<<0, 0, 0, 0, 0, 0, 0, 0, 0, 0>>) = "1111111111"
        /\ B58String(<<>>) = ""

Vec32Laws ==
    case.kind = "vec32" =>
        LET h == HrpCodes(case.hrp)
            d == <<case.ver>> \o To5(case.prog)
        IN  \* each variant's string verifies as that variant and as nothing else
            /\ VariantOf(h, d \o Checksum(h, d, ConstB32)) = "b32"
            /\ VariantOf(h, d \o Checksum(h, d, ConstB32M)) = "b32m"
            /\ expect.good # expect.wrong
            \* the checksum covers the prefix: under any other prefix it fails
            /\ (case.pattern = "count" /\ case.hrp \in {"bc", "l1x", "k"} =>
                  \A h2 \in AllHrps \ {case.hrp} :
                      VariantOf(HrpCodes(h2), d \o Checksum(h, d, ConstFor(case.ver))) = "bad")
            \* wrong variant is never accepted
            /\ ~expect.wrongdec.d.accept /\ ~expect.wrongdec.impl.accept

-----------------------------------------------------------------------------
(* vec58 *)

Vec58Lens == IF Thorough THEN 0..40 ELSE {0, 1, 2, 5, 21, 25, 34, 38}
BytePattern(name, n, z) ==
    [i \in 1..n |-> IF i <= z THEN 0
                    ELSE CASE name = "ff" -> 255
                           [] name = "count" -> (i * 59 + n) % 256
                           [] name = "one" -> IF i = n THEN 1 ELSE 0
                           [] name = "58" -> IF i = n THEN 58 ELSE 0]

Vec58Laws ==
    case.kind = "vec58" =>
        \* decode inverts encode, digit by digit
        /\ B58Bytes(B58Digits(case.bytes)) = case.bytes
        /\ Len(B58Digits(case.bytes)) >= LeadZeros(case.bytes, 1)

-----------------------------------------------------------------------------
(* addr: address kind x network *)

\* the abstract string of an address of a kind on a network
AddrString(kind, n) ==
    CASE kind \in {"p2pkh", "p2pk-c", "p2pk-u", "p2pk-h"} -> [form |-> "b58", s |-> B58Str(n.pkh, 20, "ok", "none", FALSE)]
      [] kind = "p2sh"   -> [form |-> "b58", s |-> B58Str(n.sh, 20, "ok", "none", FALSE)]
      [] kind = "p2wpkh" -> [form |-> "bech", s |-> AbsBechOf(n.hrp, 0, 20, FALSE)]
      [] kind = "p2wsh"  -> [form |-> "bech", s |-> AbsBechOf(n.hrp, 0, 32, FALSE)]
      [] kind = "p2tr"   -> [form |-> "bech", s |-> AbsBechOf(n.hrp, 1, 32, FALSE)]
      [] kind = "p2a"    -> [form |-> "bech", s |-> AbsBechOf(n.hrp, 1, 2, TRUE)]

DecideAbs(a, dn) ==
    IF a.form = "b58" THEN DecideB58(a.s, dn)
    ELSE IF a.s.hrp \in RegHrps THEN DecideBech(a.s) ELSE Reject

\* the kind EncodeAddress stands for: a pay-to-pubkey address encodes as the
\* pay-to-pubkey-hash address of its key
EncodedKind(kind) == IF kind \in {"p2pk-c", "p2pk-u", "p2pk-h"} THEN "p2pkh" ELSE kind
\* String() of a pay-to-pubkey address is the hex key
PkHexOf(kind) ==
    [nchars |-> IF kind = "p2pk-c" THEN 66 ELSE 130, hexok |-> TRUE,
     prefix |-> CASE kind = "p2pk-c" -> 2 [] kind = "p2pk-u" -> 4 [] kind = "p2pk-h" -> 6,
     oncurve |-> TRUE, parity |-> TRUE]

AddrExpect(kind, n) ==
    LET a  == AddrString(kind, n)
        sc == Template(kind)
    IN  [ str |-> a, decision |-> DecideAbs(a, n.name), encodedkind |-> EncodedKind(kind),
          implfornets |-> IF a.form = "bech" THEN ImplNetsWithHrp(n.hrp)
                          ELSE IF kind = "p2sh" THEN NetsWithSh(n.sh) ELSE NetsWithPkh(n.pkh),
          fornets |-> IF a.form = "bech" THEN NetsWithHrp(n.hrp)
                      ELSE IF kind = "p2sh" THEN NetsWithSh(n.sh) ELSE NetsWithPkh(n.pkh),
          script |-> sc, witprog |-> WitProgOf(sc), class |-> Classify(sc), extract |-> Extract(sc),
          pkscript |-> PkScriptSupported(Classify(sc)),
          \* the address the script maps back to
          back |-> IF kind = "p2pk-h" THEN "p2pk-u" ELSE kind ]

\* characters of a segwit address string: prefix, separator, version symbol,
\* program symbols, six checksum symbols
BechChars(n, plen) == Len(n.hrpcodes) + 2 + NGroups(plen) + 6

AddrLaws ==
    case.kind = "addr" =>
        LET n == NetOf(case.net)
            k == case.akind
        IN  \* the prefix length classes meet the length of a hex-encoded public key
            /\ (case.net = "hrplen6" /\ k \in {"p2wsh", "p2tr"} => BechChars(n, 32) = 66)
            /\ (case.net = "hrplen26" /\ k = "p2wpkh" => BechChars(n, 20) = 66)
            /\ (case.net = "hrplen54" /\ k = "p2a" => BechChars(n, 2) = 66)
            \* encode / decode round trip on its own network, except where the
            \* network cannot be decoded at all
            /\ (expect.decision.accept <=>
                    IF expect.str.form = "bech" THEN n.hrp \in RegHrps ELSE n.pkh # n.sh)
            /\ expect.decision.accept => /\ expect.decision.kind = expect.encodedkind
                                         /\ expect.decision.fornets = expect.fornets
            /\ case.net \in expect.fornets
            \* one script, and the script maps back to the same address and class
            /\ expect.class = ClassOfKind(k)
            /\ expect.extract.class = expect.class
            /\ expect.extract.addrs = <<expect.back>>
            /\ Template(expect.back) = expect.script
            \* two kinds share a script only if they are the same address after normalisation
            /\ \A k2 \in AddrKinds : Template(k2) = expect.script =>
                    (IF k2 = "p2pk-h" THEN "p2pk-u" ELSE k2) = expect.back

-----------------------------------------------------------------------------
(* script: recogniser on template mutations and the witness program grid *)

ReplaceAt(sc, i, tok) == [sc EXCEPT ![i] = tok]
Mutations(kind) ==
    LET sc == Template(kind)
        pi == CHOOSE i \in 1..Len(sc) : sc[i].t = "push"
        p  == sc[pi]
    IN  {[m |-> "none", sc |-> sc]}
        \cup {[m |-> "len-1", sc |-> ReplaceAt(sc, pi, [p EXCEPT !.n = @ - 1, !.data = "rand"])]}
        \cup {[m |-> "len+1", sc |-> ReplaceAt(sc, pi, [p EXCEPT !.n = @ + 1, !.data = "rand"])]}
        \cup {[m |-> "pushdata1", sc |-> ReplaceAt(sc, pi, [p EXCEPT !.via = "pushdata1"])]}
        \cup {[m |-> "trailing-nop", sc |-> Append(sc, Op(OPNOP))]}
        \cup {[m |-> "leading-nop", sc |-> <<Op(OPNOP)>> \o sc]}
        \cup {[m |-> "drop-last", sc |-> SubSeq(sc, 1, Len(sc) - 1)]}
        \cup {[m |-> "op-replaced", sc |-> ReplaceAt(sc, i, Op(OPNOP))] :
                    i \in {j \in 1..Len(sc) : sc[j].t = "op"}}
        \cup (IF kind = "p2pk-c" THEN {[m |-> "key-" \o dd, sc |-> ReplaceAt(sc, pi, [p EXCEPT !.data = dd])] :
                                            dd \in {"pkc3", "pkc-off", "rand"}} ELSE {})
        \cup (IF kind = "p2pk-u" THEN {[m |-> "key-" \o dd, sc |-> ReplaceAt(sc, pi, [p EXCEPT !.data = dd])] :
                                            dd \in {"pkh6", "pkh7", "pku-off", "rand"}} ELSE {})
        \cup (IF kind = "p2a" THEN {[m |-> "other-program", sc |-> ReplaceAt(sc, pi, [p EXCEPT !.data = "rand"])]} ELSE {})

WitLens == IF Thorough THEN 1..42 ELSE {1, 2, 3, 19, 20, 21, 31, 32, 33, 39, 40, 41}
WitScript(ver, plen, data) == <<Op(SmallInt(ver)), Push(plen, data)>>

ScriptExpect(sc) ==
    [witprog |-> WitProgOf(sc), class |-> Classify(sc), extract |-> Extract(sc), pkscript |-> PkScriptSupported(Classify(sc))]

ScriptLaws ==
    case.kind = "script" =>
        \* the segwit classes are witness programs of the right version and length, the
        \* others are none; a witness program of no class is nonstandard
        /\ (expect.class \in {"witness_v0_keyhash", "witness_v0_scripthash", "witness_v1_taproot", "anchor"} => expect.witprog.is)
        /\ (expect.class \in {"pubkey", "pubkeyhash", "scripthash"} => ~expect.witprog.is)
        /\ (expect.class = "witness_v0_keyhash" => expect.witprog.ver = 0 /\ expect.witprog.plen = 20)
        /\ (expect.class = "witness_v1_taproot" => expect.witprog.ver = 1 /\ expect.witprog.plen = 32)
        /\ (case.of = "witprog" => (expect.witprog.is <=> case.sc[2].via = "direct" /\ case.sc[2].n \in 2..40))
        /\ expect.extract.class = expect.class
        /\ (expect.class = "nonstandard" => expect.extract.addrs = <<>> /\ ~expect.pkscript)
        \* a recognised script is exactly the template of the address it yields
        /\ (expect.extract.addrs # <<>> => Template(expect.extract.addrs[1]) =
                [i \in 1..Len(case.sc) |-> IF case.sc[i].t = "push"
                                            THEN [case.sc[i] EXCEPT !.data = Template(expect.extract.addrs[1])[i].data]
                                            ELSE case.sc[i]])

-----------------------------------------------------------------------------
(* wif *)

WifStr(v, total, flag, ck, key) == [v |-> v, total |-> total, flag |-> flag, ck |-> ck, key |-> key]
\* the flag matters only in a 38 byte string
CanonWif(s) == IF s.total # 38 THEN [s EXCEPT !.flag = 0] ELSE s
WifIds == {n.wif : n \in Range(NetTable)} \cup {0, -1}

WifLaws ==
    case.kind = "wif" =>
        LET s == case.s
            d == expect.d
        IN  /\ CanonWif(s) = s
            /\ d.accept => /\ s.ck = "ok" /\ s.key = "ok"
                           /\ (d.compressed <=> s.total = 38 /\ s.flag = 1)
                           /\ (~d.compressed <=> s.total = 37)
                           \* re-encoding gives the same abstract string
                           /\ WifStr(d.v, IF d.compressed THEN 38 ELSE 37, IF d.compressed THEN 1 ELSE 0, "ok", "ok") = s
                           /\ d.fornets = NetsWithWif(s.v)

WifObjLaws ==
    case.kind = "wifobj" => expect.d.accept /\ expect.d.compressed = case.compressed /\ case.net \in expect.d.fornets

-----------------------------------------------------------------------------
(* hd *)

HdIdxs == IF Thorough THEN {Idx(FALSE, 0), Idx(FALSE, 1), Idx(FALSE, 2147483647), Idx(TRUE, 0), Idx(TRUE, 1), Idx(TRUE, 2147483647)}
          ELSE {Idx(FALSE, 0), Idx(FALSE, 2147483647), Idx(TRUE, 2147483647)}
Neuter == [op |-> "neuter"]
Der(i) == [op |-> "derive", i |-> i]

\* every sequence of up to 3 derivations with Neuter inserted before any one of
\* them, after the last, or not at all
RECURSIVE IdxSeqs(_)
IdxSeqs(n) == IF n = 0 THEN {<<>>} ELSE {Append(s, i) : s \in IdxSeqs(n - 1), i \in HdIdxs}
OpSeqs(n) ==
    {[k \in 1..Len(s) |-> Der(s[k])] : s \in IdxSeqs(n)}
    \cup {LET d == [k \in 1..Len(s) |-> Der(s[k])]
          IN  SubSeq(d, 1, p) \o <<Neuter>> \o SubSeq(d, p + 1, Len(d)) : s \in IdxSeqs(n), p \in 0..n}

HdRoots ==
    {[net |-> nn, priv |-> p, depth |-> 0, child |-> Idx(FALSE, 0)] :
        nn \in (IF Thorough THEN {"mainnet", "testnet3", "simnet", "custom"} ELSE {"mainnet", "custom"}), p \in BOOLEAN}
DeepRoots ==
    {[net |-> "regtest", priv |-> p, depth |-> d, child |-> Idx(TRUE, 7)] :
        p \in BOOLEAN, d \in (IF Thorough THEN {252, 253, 254, 255} ELSE {253, 255})}

\* run the operations; one outcome per operation; after an error the key is unchanged
RECURSIVE RunOps(_, _, _, _)
RunOps(k, ops, i, acc) ==
    IF i > Len(ops) THEN acc
    ELSE IF ops[i].op = "neuter"
         THEN LET k2 == NeuterK(k) IN RunOps(k2, ops, i + 1, Append(acc, [err |-> "", key |-> k2]))
         ELSE LET r == DeriveK(k, ops[i].i)
              IN  IF r.err # "" THEN RunOps(k, ops, i + 1, Append(acc, [err |-> r.err, key |-> k]))
                  ELSE RunOps(r.key, ops, i + 1, Append(acc, r))

Describe(o) ==
    [ err |-> o.err, path |-> o.key.path, priv |-> o.key.priv, depth |-> KDepth(o.key),
      childnum |-> KChildNum(o.key), version |-> KVersion(o.key),
      fornets |-> NetsWithHd(KVersion(o.key)) ]

HdExpect(root, ops) ==
    LET k0 == Key(root, <<>>, root.priv)
        out == RunOps(k0, ops, 1, <<>>)
    IN  [ start |-> Describe([err |-> "", key |-> k0]), steps |-> [i \in 1..Len(out) |-> Describe(out[i])] ]

HdLaws ==
    case.kind = "hd" =>
        LET k0 == Key(case.root, <<>>, case.root.priv)
        IN  /\ \A i \in 1..Len(expect.steps) :
                  LET st == expect.steps[i]
                      before == IF i = 1 THEN expect.start ELSE expect.steps[i - 1]
                  IN  /\ st.depth = case.root.depth + Len(st.path)
                      /\ st.depth <= MaxDepth
                      /\ (case.ops[i].op = "derive" /\ st.err = "" =>
                            /\ st.depth = before.depth + 1 /\ st.childnum = case.ops[i].i
                            /\ st.priv = before.priv
                            \* hardened derivation needs the private parent
                            /\ (case.ops[i].i.h => before.priv))
                      /\ (case.ops[i].op = "derive" /\ st.err = "hardfrompub" => ~before.priv /\ case.ops[i].i.h)
                      /\ (case.ops[i].op = "derive" /\ st.err = "maxdepth" => before.depth = MaxDepth)
                      /\ (case.ops[i].op = "neuter" => ~st.priv /\ st.path = before.path)
            \* Neuter o DerivePriv = DerivePub o Neuter on every normal index, at every key reached
            /\ \A i \in 1..Len(expect.steps), ix \in HdIdxs :
                  LET k == Key(case.root, expect.steps[i].path, expect.steps[i].priv)
                  IN  k.priv /\ ~ix.h /\ KDepth(k) < MaxDepth =>
                        NeuterK(DeriveK(k, ix).key) = DeriveK(NeuterK(k), ix).key

\* the documented BIP32 vectors: the private chain, and the same chain neutered
HdVecExpect(v) ==
    LET root == [net |-> v.net, priv |-> TRUE, depth |-> 0, child |-> Idx(FALSE, 0)]
        ops  == [k \in 1..Len(v.path) |-> Der(v.path[k])]
    IN  [ ops |-> ops, priv |-> HdExpect(root, ops), pub |-> HdExpect(root, ops \o <<Neuter>>) ]
HdVecLaws ==
    case.kind = "hdvec" =>
        LET last(r) == IF r.steps = <<>> THEN r.start ELSE r.steps[Len(r.steps)]
        IN  /\ last(expect.priv).err = "" /\ last(expect.pub).err = ""
            /\ last(expect.priv).depth = Len(case.v.path) /\ last(expect.pub).depth = Len(case.v.path)
            /\ last(expect.priv).priv /\ ~last(expect.pub).priv
            /\ last(expect.priv).version = NetOf(case.v.net).hdpriv
            /\ last(expect.pub).version = NetOf(case.v.net).hdpub

HdKeyTypes == {"priv", "priv-zero", "priv-eqN", "priv-gtN", "pub", "pub-off", "pub-prefix"}
HdVersions == {n.hdpriv : n \in Range(NetTable)} \cup {n.hdpub : n \in Range(NetTable)} \cup {<<7, 7, 7, 7>>}

HdStrLaws ==
    case.kind = "hdstr" =>
        LET s == case.s
            d == expect.d
        IN  d.accept => /\ s.total = 82 /\ s.ck = "ok"
                        /\ (d.priv <=> s.keytype = "priv")
                        /\ (d.neuterok /\ d.priv => \E n \in RegNets : n.hdpriv = s.version /\ n.hdpub = d.neuterversion)

-----------------------------------------------------------------------------
(* tap *)

BaseVer == 192
AltVer  == 194
IKey    == "P"

\* script assignments: restricted growth strings (every partition of the leaf
\* positions into classes of equal script), scripts numbered 1..
Max(S) == CHOOSE x \in S : \A y \in S : y <= x
RECURSIVE RGS(_)
RGS(n) == IF n = 1 THEN {<<1>>}
          ELSE UNION {{Append(s, v) : v \in 1..(Max(Range(s)) + 1)} : s \in RGS(n - 1)}
Distinct(n) == [i \in 1..n |-> i]

TapMaxLeaves == IF Thorough THEN 10 ELSE 6
TapDupLeaves == IF Thorough THEN 6 ELSE 4
VerPatterns(n) == {"base", "alt-first", "alt-last", "alt-all"}
VerOf(pat, i, n) ==
    CASE pat = "base" -> BaseVer
      [] pat = "alt-first" -> IF i = 1 THEN AltVer ELSE BaseVer
      [] pat = "alt-last" -> IF i = n THEN AltVer ELSE BaseVer
      [] pat = "alt-all" -> AltVer

MkLeaves(scripts, pat) == [i \in 1..Len(scripts) |-> [v |-> VerOf(pat, i, Len(scripts)), s |-> scripts[i]]]

\* negative control blocks for leaf i and what verification must answer
Negatives(tr, leaves, i) ==
    LET n    == Len(leaves)
        root == TreeHash(tr, leaves)
        prog == OutKey(IKey, root)
        path == ProofOf(tr, leaves, i)
        good == ControlBlock(leaves[i].v, IKey, root, path)
        V(cb, pg, v, s) == VerifyLeaf(cb, pg, v, s)
        others == {j \in 1..n : j # i}
        rev  == [k \in 1..Len(path) |-> path[Len(path) + 1 - k]]
    IN  {[m |-> "other-leaf-script", j |-> j, ok |-> V(good, prog, leaves[j].v, leaves[j].s)] : j \in others}
        \cup {[m |-> "other-leaf-proof", j |-> j,
               ok |-> V(ControlBlock(leaves[i].v, IKey, root, ProofOf(tr, leaves, j)), prog, leaves[i].v, leaves[i].s)] : j \in others}
        \cup (IF Len(path) > 0 THEN {[m |-> "drop-last-node", j |-> 0,
               ok |-> V([good EXCEPT !.path = SubSeq(path, 1, Len(path) - 1)], prog, leaves[i].v, leaves[i].s)]} ELSE {})
        \cup (IF Len(path) > 1 THEN {[m |-> "reverse-path", j |-> 0,
               ok |-> V([good EXCEPT !.path = rev], prog, leaves[i].v, leaves[i].s)]} ELSE {})
        \cup {[m |-> "extra-node", j |-> 0,
               ok |-> V([good EXCEPT !.path = Append(path, LeafHash(BaseVer, 99))], prog, leaves[i].v, leaves[i].s)]}
        \cup {[m |-> "flip-parity", j |-> 0,
               ok |-> V([good EXCEPT !.parityof = [t |-> "not", of |-> @]], prog, leaves[i].v, leaves[i].s)]}
        \cup {[m |-> "other-internal-key", j |-> 0,
               ok |-> V([good EXCEPT !.ikey = "P2"], prog, leaves[i].v, leaves[i].s)]}
        \cup {[m |-> "other-leaf-version", j |-> 0,
               ok |-> V(good, prog, IF leaves[i].v = BaseVer THEN AltVer ELSE BaseVer, leaves[i].s)]}
        \cup {[m |-> "other-program", j |-> 0,
               ok |-> V(good, OutKey(IKey, LeafHash(BaseVer, 99)), leaves[i].v, leaves[i].s)]}

TreeExpect(tr, leaves, impltree, implproofs) ==
    LET n    == Len(leaves)
        root == TreeHash(tr, leaves)
        prog == OutKey(IKey, root)
    IN  [ tree |-> tr, root |-> root,
          proofs |-> [i \in 1..n |-> ProofOf(tr, leaves, i)],
          impltree |-> impltree, implproofs |-> implproofs,
          \* does the control block the code hands out for leaf i prove leaf i?
          implok |-> [i \in 1..n |-> VerifyLeaf(ControlBlock(leaves[i].v, IKey, root, implproofs[i]), prog,
                                                 leaves[i].v, leaves[i].s)],
          negatives |-> [i \in 1..n |-> Negatives(tr, leaves, i)] ]

TapExpect(leaves) ==
    LET impl == ImplAssemble(leaves)
    IN  TreeExpect(AssembledTree(Len(leaves)), leaves, impl[1], impl[2])

AllDistinct(leaves) == \A i, j \in 1..Len(leaves) : i # j => LH(leaves, i) # LH(leaves, j)

TapLaws ==
    case.kind \in {"tap", "tapgen"} =>
        LET leaves == case.leaves
            n    == Len(leaves)
            tr   == expect.tree
            root == expect.root
        IN  /\ LeavesOf(tr) = 1..n
            \* every leaf has a control block that proves it under the output key
            /\ \A i \in 1..n :
                  VerifyLeaf(ControlBlock(leaves[i].v, IKey, root, expect.proofs[i]), OutKey(IKey, root),
                             leaves[i].v, leaves[i].s)
            /\ \A i \in 1..n : RootFrom(LH(leaves, i), expect.proofs[i]) = root
            \* the assembler builds exactly this tree, and with pairwise different
            \* leaves hands out exactly these proofs
            /\ (case.kind = "tap" => expect.impltree = tr)
            /\ (case.kind = "tap" /\ AllDistinct(leaves) => expect.implproofs = expect.proofs)
            /\ (AllDistinct(leaves) => \A i \in 1..n : expect.implok[i])
            \* with pairwise different leaves nothing but the leaf itself verifies with
            \* its control block; in general another leaf's script does only if it has the
            \* same leaf hash
            /\ \A i \in 1..n : \A ng \in expect.negatives[i] :
                  /\ (AllDistinct(leaves) => ~ng.ok)
                  /\ (ng.m = "other-leaf-script" => (ng.ok <=> LH(leaves, ng.j) = LH(leaves, i)))
                  /\ (ng.m \in {"flip-parity", "other-internal-key", "other-leaf-version", "other-program",
                                "extra-node", "drop-last-node"} => ~ng.ok)

-----------------------------------------------------------------------------
(* edit classes *)

EditBases == {"p2pkh", "p2sh", "p2wpkh", "p2wsh", "p2tr", "p2a"}
\* sub: replace by another symbol of the same alphabet; subany: by any printable
\* character; ins / del: insert / delete; swap: exchange two neighbours that differ;
\* mix: each of the k edits drawn independently from the others
EditTypes == {"sub", "subany", "ins", "del", "swap", "mix"}
EditRegions(base) == IF base \in {"p2pkh", "p2sh"} THEN {"any"} ELSE {"hrp", "data", "checksum", "any"}

\* BCH guarantee (BIP173): up to 4 substituted symbols in the data part
\* (version, program, checksum symbols) never yield a string that verifies under
\* the variant the original used
EditExpect(base, n, k, type, region) ==
    LET a == AddrString(base, n)
    IN  [ orig |-> a, origdecision |-> DecideAbs(a, n.name),
          guaranteed |-> a.form = "bech" /\ type = "sub" /\ region \in {"data", "checksum"} ]

EditLaws ==
    case.kind = "edit" =>
        expect.origdecision.accept <=>
            (IF expect.orig.form = "bech" THEN NetOf(case.net).hrp \in RegHrps ELSE NetOf(case.net).pkh # NetOf(case.net).sh)

-----------------------------------------------------------------------------
(* groups and cases *)

Init == case = [kind |-> "root"] /\ expect = None

\* groups spread the work over TLC's workers
G(of, g) == case' = [kind |-> "group", of |-> of, g |-> g]
Group == /\ case.kind = "root"
         /\ expect' = None
         /\ \/ G("net", 0) \/ G("mixed", 0) \/ G("spend", 0) \/ G("wifobj", 0) \/ G("hdvec", 0)
            \/ \E v \in BechVers : G("bech", <<TableHrp, v>>)
            \/ G("bechdefect", TableHrp)
            \/ \E dn \in B58Nets : G("b58", dn) \/ G("pkhex", dn)
            \/ \E dn \in NetNames : G("addr", dn)
            \/ \E h \in AllHrps, v \in 0..16 : G("vec32", <<h, v>>)
            \/ \E z \in 0..3 : G("vec58", z)
            \/ \E b \in EditBases : G("edit", b)
            \/ \E k \in AddrKinds \ {"p2pk-h"} : G("script", k)
            \/ \E v \in 0..16 : G("witprog", v)
            \/ \E v \in WifIds : G("wif", v)
            \/ \E r \in HdRoots \cup DeepRoots : G("hd", r)
            \/ \E v \in HdVersions : G("hdstr", v)
            \/ \E n \in 1..TapMaxLeaves : G("tap", n)
            \/ \E n \in 2..(IF Thorough THEN 7 ELSE 5) : G("tapgen", n)
InGroup(k) == case.kind = "group" /\ case.of = k

PickNet ==
    /\ InGroup("net")
    /\ \E i \in 1..Len(NetTable) :
          case' = [kind |-> "net", n |-> NetTable[i]] /\ expect' = NetExpect(NetTable[i])

PickBech ==
    /\ InGroup("bech")
    /\ \E ng \in BechNgs, ck \in {"b32", "b32m", "bad"}, cs \in BechCases :
       \E pz \in PadChoices(ng), an \in AnchorChoices(ng) :
          /\ (case.g[2] = -1 => ng = 0)           \* no data symbol at all: no version, no program
          /\ LET s == BechStr(case.g[1], "none", cs, ck, case.g[2], ng, pz, an)
             IN  case' = [kind |-> "bech", s |-> s] /\ expect' = BechExpect(s)

PickBechDefect ==
    /\ InGroup("bechdefect")
    /\ \/ \E df \in BechDefects :
             LET s == CanonBech(BechStr(case.g, df, "lower", "bad", -1, 0, TRUE, FALSE))
             IN  case' = [kind |-> "bech", s |-> s] /\ expect' = BechExpect(s)
       \/ LET s == CanonBech(BechStr(case.g, "none", "mixed", "bad", -1, 0, TRUE, FALSE))
          IN  case' = [kind |-> "bech", s |-> s] /\ expect' = BechExpect(s)

PickMixed ==
    /\ InGroup("mixed")
    /\ \E base \in {"lower", "upper"}, letter \in {"a", "z", "other"}, where \in {"hrp", "data"},
          count \in {"one", "all"}, ver \in {0, 1} :
          /\ case' = [kind |-> "mixed", base |-> base, letter |-> letter, where |-> where, count |-> count, ver |-> ver]
          /\ expect' = BechExpect(MixedRow)

PickB58 ==
    /\ InGroup("b58")
    /\ \/ \E v \in IdBytes, l \in B58Lens, ck \in {"ok", "bad"}, sp \in BOOLEAN :
             \* the accidental prefix matters only where the string is an address
             /\ (sp => l = 20 /\ ck = "ok")
             /\ LET s == B58Str(v, l, ck, "none", sp)
                IN  case' = [kind |-> "b58", s |-> s, dn |-> case.g] /\ expect' = B58Expect(s, case.g)
       \/ \E df \in {"badchar", "short"} :
             LET s == CanonB58(B58Str(-1, 0, "bad", df, FALSE))
             IN  case' = [kind |-> "b58", s |-> s, dn |-> case.g] /\ expect' = B58Expect(s, case.g)

PickPkHex ==
    /\ InGroup("pkhex")
    /\ \E nc \in {66, 130}, hx \in BOOLEAN, pf \in {0, 2, 3, 4, 6, 7}, oc \in BOOLEAN, pa \in BOOLEAN, up \in BOOLEAN :
          \* parity is an attribute of hybrid keys only; an unparsable hex string has no others
          /\ (pf \notin {6, 7} \/ nc = 66 => pa)
          /\ (~hx => pf = 0 /\ oc /\ pa)
          /\ (pf = 0 => oc)
          /\ LET s == [nchars |-> nc, hexok |-> hx, prefix |-> pf, oncurve |-> oc, parity |-> pa]
             IN  case' = [kind |-> "pkhex", s |-> s, dn |-> case.g, upper |-> up]
                 /\ expect' = [d |-> DecidePkHex(s, case.g)]

PickVec32 ==
    /\ InGroup("vec32")
    /\ \E l \in VecLens : \E pt \in VecPatterns(case.g[1], l) :
          LET prog == Pattern(pt, l, case.g[2])
          IN  /\ case' = [kind |-> "vec32", hrp |-> case.g[1], ver |-> case.g[2], prog |-> prog, pattern |-> pt]
              /\ expect' = Vec32Expect(case.g[1], case.g[2], prog, pt = "anchor")

PickVec58 ==
    /\ InGroup("vec58")
    /\ \E n \in Vec58Lens, pt \in {"ff", "count", "one", "58"} :
          /\ case.g <= n
          /\ LET b == BytePattern(pt, n, IF case.g = 3 THEN n ELSE case.g)
             IN  case' = [kind |-> "vec58", bytes |-> b, pattern |-> pt, zeros |-> case.g]
                 /\ expect' = [str |-> B58String(b), digits |-> B58Digits(b)]

PickEdit ==
    /\ InGroup("edit")
    /\ \E nn \in NetNames \ {"unreg", "collide", "hrpdigit", "hrpone", "hrpupper", "hrplen6", "hrplen26", "hrplen54"}, k \in 1..4, ty \in EditTypes : \E rg \in EditRegions(case.g) :
          /\ case' = [kind |-> "edit", base |-> case.g, net |-> nn, k |-> k, type |-> ty, region |-> rg]
          /\ expect' = EditExpect(case.g, NetOf(nn), k, ty, rg)

PickAddr ==
    /\ InGroup("addr")
    /\ \E k \in AddrKinds :
          \* no address where the string would be longer than a bech32 string can be
          /\ (k \in {"p2wpkh", "p2wsh", "p2tr", "p2a"} =>
                 BechChars(NetOf(case.g), CASE k = "p2wpkh" -> 20 [] k = "p2a" -> 2 [] OTHER -> 32) <= 90)
          /\ case' = [kind |-> "addr", akind |-> k, net |-> case.g] /\ expect' = AddrExpect(k, NetOf(case.g))

PickScript ==
    /\ InGroup("script")
    /\ \E mu \in Mutations(case.g) :
          /\ case' = [kind |-> "script", of |-> case.g, m |-> mu.m, sc |-> mu.sc]
          /\ expect' = ScriptExpect(mu.sc)

PickWitProg ==
    /\ InGroup("witprog")
    /\ \E l \in WitLens, dd \in {"rand", "anchor"}, via \in {"direct", "pushdata1"} :
          /\ (dd = "anchor" => l = 2)
          /\ (via = "pushdata1" => dd = "rand" /\ l \in {2, 20, 32, 39, 40})
          /\ LET sc0 == WitScript(case.g, l, dd)
                 sc == [sc0 EXCEPT ![2].via = via]
             IN  case' = [kind |-> "script", of |-> "witprog", m |-> "grid", sc |-> sc] /\ expect' = ScriptExpect(sc)

PickSpend ==
    /\ InGroup("spend")
    /\ \E f \in SpendForms, sl \in {9, 40, 72, 73}, extra \in 0..2 :
          /\ (f \in {"p2sh", "p2wsh"} \/ extra = 0)
          /\ case' = [kind |-> "spend", form |-> f, siglen |-> sl, extra |-> extra]
          /\ expect' = [akind |-> ComputedKind(f), class |-> ClassOfKind(ComputedKind(f)),
                        script |-> Template(ComputedKind(f))]

PickWif ==
    /\ InGroup("wif")
    /\ \E tot \in {5, 36, 37, 38, 39}, fl \in {0, 1}, ck \in {"ok", "bad"}, key \in {"ok", "zero", "eqN", "gtN"} :
          LET s == WifStr(case.g, tot, fl, ck, key)
          IN  /\ CanonWif(s) = s
              /\ case' = [kind |-> "wif", s |-> s] /\ expect' = [d |-> DecideWif(s)]

PickWifObj ==
    /\ InGroup("wifobj")
    /\ \E nn \in NetNames, c \in BOOLEAN :
          LET s == WifStr(NetOf(nn).wif, IF c THEN 38 ELSE 37, IF c THEN 1 ELSE 0, "ok", "ok")
          IN  case' = [kind |-> "wifobj", net |-> nn, compressed |-> c] /\ expect' = [s |-> s, d |-> DecideWif(s)]

PickHd ==
    /\ InGroup("hd")
    /\ \E n \in 0..3 : \E ops \in OpSeqs(n) :
          case' = [kind |-> "hd", root |-> case.g, ops |-> ops] /\ expect' = HdExpect(case.g, ops)

PickHdVec ==
    /\ InGroup("hdvec")
    /\ \E i \in 1..Len(DocHdVectors) :
          case' = [kind |-> "hdvec", v |-> DocHdVectors[i]] /\ expect' = HdVecExpect(DocHdVectors[i])

PickHdStr ==
    /\ InGroup("hdstr")
    /\ \E tot \in {81, 82, 83}, ck \in {"ok", "bad"}, kt \in HdKeyTypes :
          LET s == [version |-> case.g, total |-> tot, ck |-> ck, keytype |-> kt]
          IN  case' = [kind |-> "hdstr", s |-> s] /\ expect' = [d |-> DecideHdString(s)]

PickTap ==
    /\ InGroup("tap")
    /\ \E pat \in VerPatterns(case.g) :
       \E scripts \in (IF case.g <= TapDupLeaves THEN RGS(case.g) ELSE {Distinct(case.g)}) :
          LET leaves == MkLeaves(scripts, pat)
          IN  case' = [kind |-> "tap", leaves |-> leaves] /\ expect' = TapExpect(leaves)

PickTapGen ==
    /\ InGroup("tapgen")
    /\ \E tr \in Shapes(1, case.g), pat \in {"base", "alt-last"} :
          LET leaves == MkLeaves(Distinct(case.g), pat)
          IN  case' = [kind |-> "tapgen", leaves |-> leaves]
              /\ expect' = TreeExpect(tr, leaves, tr, [i \in 1..case.g |-> ProofOf(tr, leaves, i)])

Next == \/ Group \/ PickNet \/ PickMixed \/ PickBech \/ PickBechDefect \/ PickB58 \/ PickPkHex \/ PickVec32 \/ PickVec58
        \/ PickEdit \/ PickAddr \/ PickScript \/ PickWitProg \/ PickSpend \/ PickWif \/ PickWifObj
        \/ PickHd \/ PickHdVec \/ PickHdStr \/ PickTap \/ PickTapGen

Spec == Init /\ [][Next]_vars

\* Not a law: prints every state on one line (as JSON, community module Json) for
\* the binder; TLC evaluates an invariant exactly once per distinct state.
EmitCase == PrintT(ToJson(<<"CASE", case, expect>>))
=============================================================================
