SPECIFICATION Spec
CONSTANT Tier = "quick"
INVARIANTS NetLaws BechLaws MixedLaws B58Laws PkHexLaws DocLaws Vec32Laws Vec58Laws AddrLaws ScriptLaws WifLaws WifObjLaws
           HdLaws HdVecLaws HdStrLaws TapLaws EditLaws
           EmitCase
