----------------------------- MODULE AddrCodec -----------------------------
(***************************************************************************)
(* C16: address / key / script-template encodings of btcd.                 *)
(*                                                                         *)
(* The module is a library of definitions; AddrCases.tla enumerates the    *)
(* inputs and states the laws.  Five parts:                                *)
(*                                                                         *)
(*  (a) strings.  An address string is described by the attributes the     *)
(*      decoder looks at (an ABSTRACT STRING): which of the three forms    *)
(*      the dispatch of DecodeAddress selects (last '1' + registered       *)
(*      prefix => bech32; length 66/130 => hex public key; otherwise       *)
(*      Base58Check), and per form the human readable part, case pattern,  *)
(*      witness version character, number of 5-bit groups, padding bits,   *)
(*      checksum variant / version byte, payload length, checksum.         *)
(*      DecideBech / DecideB58 / DecidePkHex say what the decoder must     *)
(*      answer.  Two things are NOT abstract: the bech32/bech32m checksum  *)
(*      (BIP173 polymod: a BCH code over GF(32))        and the base-58   *)
(*      big-number conversion are defined on concrete sequences, so that   *)
(*      TLC produces concrete address strings for enumerated programs.     *)
(*      (SHA-256 is not defined here: Base58Check checksums stay abstract.)*)
(*  (b) address kind <-> output script template <-> script class.          *)
(*  (c) the WIF length / flag table.                                       *)
(*  (d) the BIP32 path algebra.                                            *)
(*  (e) the taproot script tree over an abstract injective tagged hash.    *)
(***************************************************************************)
EXTENDS Integers, Sequences, FiniteSets

Range(s) == {s[i] : i \in 1..Len(s)}
Min2(a, b) == IF a < b THEN a ELSE b

-----------------------------------------------------------------------------
(* Networks.  The table is the specification's knowledge of the chain      *)
(* parameters (Bitcoin Core chainparams / BIP173 / BIP32 / SLIP-132 for    *)
(* the standard networks, btcd's own choice for simnet).  "custom" and     *)
(* "collide" are registered by the binder with chaincfg.Register,          *)
(* "unreg" is a parameter set that is never registered.  `reg` says        *)
(* whether the network is in chaincfg's registry (signet is not registered *)
(* by init(), but every prefix it uses is registered through testnet3).    *)
(* hrp is the prefix in its canonical (lower case) form, reghrp the text    *)
(* the parameter set carries (Bech32HRPSegwit).                             *)

Net(name, hrp, codes, pkh, sh, wif, hdpriv, hdpub, reg) ==
    [name |-> name, hrp |-> hrp, reghrp |-> hrp, hrpcodes |-> codes, pkh |-> pkh, sh |-> sh, wif |-> wif,
     hdpriv |-> hdpriv, hdpub |-> hdpub, reg |-> reg]

TPrv == <<4, 53, 131, 148>>
TPub == <<4, 53, 135, 207>>

NetTable == <<
    Net("mainnet",  "bc",   <<98, 99>>,            0,   5, 128, <<4, 136, 173, 228>>, <<4, 136, 178, 30>>, TRUE),
    Net("testnet3", "tb",   <<116, 98>>,         111, 196, 239, TPrv, TPub, TRUE),
    Net("testnet4", "tb",   <<116, 98>>,         111, 196, 239, TPrv, TPub, TRUE),
    Net("signet",   "tb",   <<116, 98>>,         111, 196, 239, TPrv, TPub, FALSE),
    Net("regtest",  "bcrt", <<98, 99, 114, 116>>, 111, 196, 239, TPrv, TPub, TRUE),
    Net("simnet",   "sb",   <<115, 98>>,          63, 123, 100, <<4, 32, 185, 0>>, <<4, 32, 189, 58>>, TRUE),
    Net("custom",   "vn",   <<118, 110>>,         33,  34,  35, <<1, 2, 3, 4>>, <<1, 2, 3, 5>>, TRUE),
    Net("collide",  "cx",   <<99, 120>>,          48,  48,  49, <<1, 2, 4, 4>>, <<1, 2, 4, 5>>, TRUE),
    Net("unreg",    "zz",   <<122, 122>>,         81,  82,  83, <<9, 9, 9, 1>>, <<9, 9, 9, 2>>, FALSE),
    \* prefix classes of BIP173 (1 to 83 characters of US-ASCII 33..126, case-insensitive),
    \* registered by the binder; identifier bytes shared with "custom":
    \* a prefix that contains the digit 1 (the separator is the LAST 1 of a string),
    \* a prefix of one character, a prefix registered in upper case
    Net("hrpdigit", "l1x",  <<108, 49, 120>>,     33,  34,  35, <<1, 2, 3, 4>>, <<1, 2, 3, 5>>, TRUE),
    Net("hrpone",   "k",    <<107>>,              33,  34,  35, <<1, 2, 3, 4>>, <<1, 2, 3, 5>>, TRUE),
    [Net("hrpupper", "up",  <<117, 112>>,         33,  34,  35, <<1, 2, 3, 4>>, <<1, 2, 3, 5>>, TRUE)
        EXCEPT !.reghrp = "UP"],
    \* prefix lengths that make an address string 66 characters long, the length of a
    \* hex-encoded compressed public key: 6 (P2WSH, P2TR), 26 (P2WPKH), 54 (P2A).
    \* (130, the other hex key length, is beyond the 90 characters of a bech32 string.)
    Net("hrplen6",  "sixsix", <<115, 105, 120, 115, 105, 120>>, 33, 34, 35, <<1, 2, 3, 4>>, <<1, 2, 3, 5>>, TRUE),
    Net("hrplen26", "abcdefghijklmnopqrstuvwxyz",
        <<97, 98, 99, 100, 101, 102, 103, 104, 105, 106, 107, 108, 109, 110, 111, 112, 113, 114, 115, 116, 117, 118, 119, 120, 121, 122>>,
        33, 34, 35, <<1, 2, 3, 4>>, <<1, 2, 3, 5>>, TRUE),
    Net("hrplen54", "abcdefghijklmnopqrstuvwxyzabcdefghijklmnopqrstuvwxyzab",
        <<97, 98, 99, 100, 101, 102, 103, 104, 105, 106, 107, 108, 109, 110, 111, 112, 113, 114, 115, 116, 117, 118, 119, 120, 121, 122, 97, 98, 99, 100, 101, 102, 103, 104, 105, 106, 107, 108, 109, 110, 111, 112, 113, 114, 115, 116, 117, 118, 119, 120, 121, 122, 97, 98>>,
        33, 34, 35, <<1, 2, 3, 4>>, <<1, 2, 3, 5>>, TRUE) >>

NetNames == {NetTable[i].name : i \in 1..Len(NetTable)}
NetOf(name) == CHOOSE n \in Range(NetTable) : n.name = name
RegNets == {n \in Range(NetTable) : n.reg}

\* the registry of chaincfg (Register): prefixes and identifier bytes of every
\* registered network
RegHrps   == {n.hrp : n \in RegNets}
RegPkhIds == {n.pkh : n \in RegNets}
RegShIds  == {n.sh : n \in RegNets}
AllHrps   == {n.hrp : n \in Range(NetTable)}
HrpCodes(h) == (CHOOSE n \in Range(NetTable) : n.hrp = h).hrpcodes
NetsWithHrp(h)  == {n.name : n \in {m \in Range(NetTable) : m.hrp = h}}
\* Implementation layer of the prefix registry.  chaincfg.Register stores the
\* prefix text as given and IsBech32SegwitPrefix lower-cases only the query;
\* IsForNet compares the (lower-cased) prefix of the address with the text of
\* the parameter set.  So the code decodes the segwit strings of a prefix only
\* if it is registered in lower case.  (Until btcd a662c0dd DecodeAddress also
\* wanted the last '1' at an index above 1, i.e. two characters or more.)
ImplRegHrps       == {n.reghrp : n \in RegNets}
ImplDecodable(h)  == h \in ImplRegHrps
ImplNetsWithHrp(h) == {n.name : n \in {m \in Range(NetTable) : m.reghrp = h}}
NetsWithPkh(v)  == {n.name : n \in {m \in Range(NetTable) : m.pkh = v}}
NetsWithSh(v)   == {n.name : n \in {m \in Range(NetTable) : m.sh = v}}
NetsWithWif(v)  == {n.name : n \in {m \in Range(NetTable) : m.wif = v}}
NetsWithHd(ver) == {n.name : n \in {m \in Range(NetTable) : m.hdpriv = ver \/ m.hdpub = ver}}
\* HDPrivateKeyToPublicKeyID: registered private version -> public version
HdPubOf(ver) == IF \E n \in RegNets : n.hdpriv = ver
                THEN (CHOOSE n \in RegNets : n.hdpriv = ver).hdpub ELSE <<>>

Reject == [accept |-> FALSE]

-----------------------------------------------------------------------------
(* Bech32 / Bech32m, concretely (BIP173, BIP350).                          *)

B32Chars == << "q","p","z","r","y","9","x","8","g","f","2","t","v","d","w","0",
               "s","3","j","n","5","4","k","h","c","e","6","m","u","a","7","l" >>
\* The checksum is a BCH code over GF(32): the 30-bit register of the reference
\* code is six 5-bit symbols, most significant first; xor is symbol-wise.
Xor5T == [a \in 0..31 |-> [b \in 0..31 |->
            LET bit(x, i) == (x \div (2^i)) % 2
            IN  16 * ((bit(a, 4) + bit(b, 4)) % 2) + 8 * ((bit(a, 3) + bit(b, 3)) % 2)
                + 4 * ((bit(a, 2) + bit(b, 2)) % 2) + 2 * ((bit(a, 1) + bit(b, 1)) % 2)
                + ((bit(a, 0) + bit(b, 0)) % 2)]]
Xor6(x, y) == [j \in 1..6 |-> Xor5T[x[j]][y[j]]]
Zero6 == <<0, 0, 0, 0, 0, 0>>
\* generator constants 0x3b6a57b2, 0x26508e6d, 0x1ea119fa, 0x3d4233dd, 0x2a1462b3
Gen == << <<29, 22, 20, 21, 29, 18>>, <<19, 5, 1, 3, 19, 13>>, <<15, 10, 2, 6, 15, 26>>,
          <<30, 20, 4, 12, 30, 29>>, <<21, 1, 8, 24, 21, 19>> >>
ConstB32  == <<0, 0, 0, 0, 0, 1>>             \* 1
ConstB32M == <<21, 28, 16, 12, 5, 3>>         \* 0x2bc830a3
\* xor of the generators selected by the bits of the symbol shifted out
GenComb == [b \in 0..31 |->
              LET X(c, i) == IF (b \div (2^i)) % 2 = 1 THEN Xor6(c, Gen[i + 1]) ELSE c
              IN  X(X(X(X(X(Zero6, 0), 1), 2), 3), 4)]

PolyStep(chk, v) == Xor6(<<chk[2], chk[3], chk[4], chk[5], chk[6], v>>, GenComb[chk[1]])

RECURSIVE PolyFold(_, _, _)
PolyFold(chk, vs, i) == IF i > Len(vs) THEN chk ELSE PolyFold(PolyStep(chk, vs[i]), vs, i + 1)
Polymod(vs) == PolyFold(ConstB32, vs, 1)

HrpExpand(h) == [i \in 1..Len(h) |-> h[i] \div 32] \o <<0>> \o [i \in 1..Len(h) |-> h[i] % 32]

\* the six checksum symbols for hrp codes h, 5-bit data d and a variant constant
Checksum(h, d, const) == Xor6(Polymod(HrpExpand(h) \o d \o Zero6), const)

\* which variant (if any) a complete symbol sequence (data + checksum) verifies as
VariantOf(h, all) ==
    LET pm == Polymod(HrpExpand(h) \o all)
    IN  IF pm = ConstB32 THEN "b32" ELSE IF pm = ConstB32M THEN "b32m" ELSE "bad"

\* 8 -> 5 bit regrouping with zero padding (ConvertBits(data, 8, 5, true))
BitAt(bytes, i) == (bytes[((i - 1) \div 8) + 1] \div (2^(7 - ((i - 1) % 8)))) % 2
NGroups(nbytes) == (8 * nbytes + 4) \div 5
To5(bytes) ==
    LET nb == 8 * Len(bytes)
        B(i) == IF i <= nb THEN BitAt(bytes, i) ELSE 0
    IN  [g \in 1..NGroups(Len(bytes)) |->
            16 * B(5*g - 4) + 8 * B(5*g - 3) + 4 * B(5*g - 2) + 2 * B(5*g - 1) + B(5*g)]

RECURSIVE Concat(_, _)
Concat(strs, i) == IF i > Len(strs) THEN "" ELSE strs[i] \o Concat(strs, i + 1)
SymStr(syms) == Concat([i \in 1..Len(syms) |-> B32Chars[syms[i] + 1]], 1)

\* the segwit address string for (hrp, witness version, program) under a variant
SegwitString(hrp, ver, prog, const) ==
    LET d == <<ver>> \o To5(prog)
    IN  hrp \o "1" \o SymStr(d \o Checksum(HrpCodes(hrp), d, const))
\* BIP350: version 0 uses bech32, 1..16 bech32m
ConstFor(ver) == IF ver = 0 THEN ConstB32 ELSE ConstB32M
OtherConst(c) == IF c = ConstB32 THEN ConstB32M ELSE ConstB32

-----------------------------------------------------------------------------
(* Base-58, concretely: big-endian base-256 digits <-> base-58 digits.     *)

B58Chars == << "1","2","3","4","5","6","7","8","9","A","B","C","D","E","F","G","H","J","K","L","M","N","P",
               "Q","R","S","T","U","V","W","X","Y","Z","a","b","c","d","e","f","g","h","i","j","k","m","n",
               "o","p","q","r","s","t","u","v","w","x","y","z" >>

RECURSIVE LeadZeros(_, _)
LeadZeros(s, i) == IF i > Len(s) \/ s[i] # 0 THEN 0 ELSE 1 + LeadZeros(s, i + 1)
Strip(s) == SubSeq(s, LeadZeros(s, 1) + 1, Len(s))

\* long division of a digit sequence in base `from` by `to`: <<quotient, remainder>>
RECURSIVE DivStep(_, _, _, _, _, _)
DivStep(num, from, to, i, rem, quo) ==
    IF i > Len(num) THEN <<quo, rem>>
    ELSE LET cur == rem * from + num[i]
         IN  DivStep(num, from, to, i + 1, cur % to, Append(quo, cur \div to))

\* digits (most significant first, no leading zero) of the number `num` in base `to`
RECURSIVE Rebase(_, _, _, _)
Rebase(num, from, to, acc) ==
    LET n == Strip(num)
    IN  IF n = <<>> THEN acc
        ELSE LET qr == DivStep(n, from, to, 1, 0, <<>>)
             IN  Rebase(qr[1], from, to, <<qr[2]>> \o acc)

\* base58.Encode: one "1" per leading zero byte, then the number
B58Digits(bytes)  == [i \in 1..LeadZeros(bytes, 1) |-> 0] \o Rebase(bytes, 256, 58, <<>>)
B58String(bytes)  == Concat([i \in 1..Len(B58Digits(bytes)) |-> B58Chars[B58Digits(bytes)[i] + 1]], 1)
\* base58.Decode on digit values
B58Bytes(digits)  == [i \in 1..LeadZeros(digits, 1) |-> 0] \o Rebase(digits, 58, 256, <<>>)

-----------------------------------------------------------------------------
(* (a) the decoder's decisions on abstract strings                         *)

(* bech32 form.  s has the fields                                          *)
(*   hrp     human readable part (lower-cased), a registered one           *)
(*   defect  "none" or the first structural failure of the bech32 layer:   *)
(*           "tooshort" (< 8 chars) "toolong" (> 90) "nonascii" (outside   *)
(*           33..126) "seplate" (fewer than 6 symbols after the last '1')  *)
(*           "badchar" (data symbol outside the charset)                   *)
(*   case    "lower" / "upper" / "mixed"                                   *)
(*   ck      checksum verifies as "b32", as "b32m", or "bad"               *)
(*   ver     value of the first data symbol, -1 when there is none         *)
(*   ng      number of data symbols after the version symbol               *)
(*   padzero the 5*ng mod 8 left-over bits are all zero (BIP173: at most 4  *)
(*           left-over bits, all zero; five or more zero bits - a whole     *)
(*           superfluous symbol - are as wrong as non-zero ones)            *)
(*   anchor  the program is the two bytes 4e 73                            *)
ProgLen(ng)  == (5 * ng) \div 8
LeftOver(ng) == (5 * ng) % 8

\* decodeSegWitAddress: the string is a well formed segwit address of BIP173/350
SegwitOK(s) ==
    /\ s.defect = "none" /\ s.case # "mixed" /\ s.ck # "bad"
    /\ s.ver \in 0..16
    /\ LeftOver(s.ng) <= 4 /\ s.padzero
    /\ ProgLen(s.ng) \in 2..40
    /\ (s.ver = 0 => ProgLen(s.ng) \in {20, 32})
    /\ (s.ver = 0 => s.ck = "b32")
    /\ (s.ver >= 1 => s.ck = "b32m")

BechAccept(kind, s) ==
    [accept |-> TRUE, kind |-> kind, ver |-> s.ver, plen |-> ProgLen(s.ng), hrp |-> s.hrp,
     fornets |-> NetsWithHrp(s.hrp)]

\* What the property allows: btcd supports v0 programs (P2WPKH, P2WSH), v1 32-byte
\* programs (P2TR) and the v1 pay-to-anchor program; everything else is rejected.
\* An accepted string re-encodes to itself in lower case.
DecideBech(s) ==
    IF ~SegwitOK(s) THEN Reject
    ELSE LET l == ProgLen(s.ng)
         IN  CASE s.ver = 0 /\ l = 20 -> BechAccept("p2wpkh", s)
               [] s.ver = 0 /\ l = 32 -> BechAccept("p2wsh", s)
               [] s.ver = 1 /\ l = 32 -> BechAccept("p2tr", s)
               [] s.ver = 1 /\ l = 2 /\ s.anchor -> BechAccept("p2a", s)
               [] OTHER -> Reject

\* What the code does (implementation layer).  Until btcd 0331262a the switch on
\* the program length in DecodeAddress did not look at the version for 20-byte
\* programs (a v1 program came back as a v0 P2WPKH address); the repaired code
\* refuses them.  What is left: prefixes the code's registry never matches
\* (ImplDecodable).  The binder compares with both layers; a divergence from
\* the property that is not the implementation layer's is a plain violation.
ImplBech(s) ==
    IF ~ImplDecodable(s.hrp) THEN Reject
    ELSE LET d == DecideBech(s)
         IN  IF d.accept THEN [d EXCEPT !.fornets = ImplNetsWithHrp(s.hrp)] ELSE d

(* Base58Check form: v version byte (-1: a byte no table mentions), plen   *)
(* payload length, ck "ok"/"bad", defect "none" / "badchar" (symbol outside*)
(* the alphabet) / "short" (fewer than 5 bytes); segprefix: the text of the *)
(* string happens to start with a registered segwit prefix (any case) that  *)
(* ends in its last '1' - base-58 uses the letters and the digit 1 too.     *)
(* dn: the default network.                                                *)
DecideB58(s, dn) ==
    LET n == NetOf(dn)
    IN  IF s.defect # "none" \/ s.ck # "ok" \/ s.plen # 20 THEN Reject
        ELSE IF s.v = n.pkh /\ s.v = n.sh THEN Reject           \* ErrAddressCollision
        ELSE IF s.v = n.pkh THEN [accept |-> TRUE, kind |-> "p2pkh", v |-> s.v, fornets |-> NetsWithPkh(s.v)]
        ELSE IF s.v = n.sh THEN [accept |-> TRUE, kind |-> "p2sh", v |-> s.v, fornets |-> NetsWithSh(s.v)]
        ELSE Reject

\* What the code does: the dispatch of DecodeAddress looks at the text first; a
\* Base58Check string that looks like prefix + '1' + data is handed to the
\* bech32 decoder.  Until btcd 0331262a that decoder's error was final; the
\* repaired code then tries Base58Check, so the layers coincide.
ImplB58(s, dn) == DecideB58(s, dn)

(* hex public key form: nchars 66 / 130, hexok, prefix byte class          *)
(* (2,3,4,6,7 or 0 for any other), oncurve (x has a square root / (x,y) is *)
(* on the curve), parity (hybrid prefix agrees with y).                    *)
DecidePkHex(s, dn) ==
    LET short == s.nchars = 66
        okfmt == IF short THEN s.prefix \in {2, 3} ELSE s.prefix \in {4, 6, 7}
    IN  IF ~s.hexok \/ ~okfmt \/ ~s.oncurve \/ (s.prefix \in {6, 7} /\ ~s.parity) THEN Reject
        ELSE [accept |-> TRUE, kind |-> "p2pk",
              \* the address remembers compressed / uncompressed; a hybrid key is
              \* kept as an uncompressed one
              format |-> IF short THEN "compressed" ELSE "uncompressed",
              reencodes |-> s.prefix \in {2, 3, 4},
              fornets |-> NetsWithPkh(NetOf(dn).pkh)]

\* which form a string has: sep = index of the last '1' (0-based, -1: none),
\* prefixreg: the text before it is (in any case) the prefix of a registered
\* network.  BIP173 allows one-character prefixes, so sep >= 1.  (The code's own
\* dispatch looks the text up as ImplDecodable says.)
FormOf(sep, prefixreg, nchars) ==
    IF sep >= 1 /\ prefixreg THEN "bech" ELSE IF nchars \in {66, 130} THEN "pkhex" ELSE "b58"

-----------------------------------------------------------------------------
(* (b) address kinds, script templates, script classes                     *)

\* opcodes
OP0 == 0   OP1 == 81  OPDUP == 118  OPHASH160 == 169  OPEQUAL == 135  OPEQUALVERIFY == 136
OPCHECKSIG == 172  OPNOP == 97  OPPUSHDATA1 == 76  OP1NEGATE == 79
SmallInt(v) == IF v = 0 THEN OP0 ELSE 80 + v

Op(v) == [t |-> "op", v |-> v, n |-> 0, data |-> "", via |-> ""]
\* a data push of n bytes; data names what the bytes are; via "direct" (opcode n)
\* or "pushdata1"
Push(n, data) == [t |-> "push", v |-> 0, n |-> n, data |-> data, via |-> "direct"]

AddrKinds == {"p2pkh", "p2sh", "p2pk-c", "p2pk-u", "p2pk-h", "p2wpkh", "p2wsh", "p2tr", "p2a"}

Template(kind) ==
    CASE kind = "p2pkh"  -> <<Op(OPDUP), Op(OPHASH160), Push(20, "h20"), Op(OPEQUALVERIFY), Op(OPCHECKSIG)>>
      [] kind = "p2sh"   -> <<Op(OPHASH160), Push(20, "h20"), Op(OPEQUAL)>>
      [] kind = "p2pk-c" -> <<Push(33, "pkc"), Op(OPCHECKSIG)>>
      [] kind = "p2pk-u" -> <<Push(65, "pku"), Op(OPCHECKSIG)>>
      \* an address made from a hybrid key pays to the uncompressed serialisation
      [] kind = "p2pk-h" -> <<Push(65, "pku"), Op(OPCHECKSIG)>>
      [] kind = "p2wpkh" -> <<Op(OP0), Push(20, "h20")>>
      [] kind = "p2wsh"  -> <<Op(OP0), Push(32, "h32")>>
      [] kind = "p2tr"   -> <<Op(OP1), Push(32, "xonly")>>
      [] kind = "p2a"    -> <<Op(OP1), Push(2, "anchor")>>

ClassOfKind(kind) ==
    CASE kind \in {"p2pk-c", "p2pk-u", "p2pk-h"} -> "pubkey"
      [] kind = "p2pkh"  -> "pubkeyhash"
      [] kind = "p2sh"   -> "scripthash"
      [] kind = "p2wpkh" -> "witness_v0_keyhash"
      [] kind = "p2wsh"  -> "witness_v0_scripthash"
      [] kind = "p2tr"   -> "witness_v1_taproot"
      [] kind = "p2a"    -> "anchor"

\* data classes whose first byte is a public key prefix
KeyPrefixOf(data) ==
    CASE data \in {"pkc", "pkc-off"} -> 2
      [] data = "pkc3" -> 3
      [] data \in {"pku", "pku-off"} -> 4
      [] data = "pkh6" -> 6
      [] data = "pkh7" -> 7
      [] OTHER -> 0
ValidKey(data) == data \in {"pkc", "pkc3", "pku", "pkh6", "pkh7"}

IsOp(tok, v)      == tok.t = "op" /\ tok.v = v
IsPush(tok, n)    == tok.t = "push" /\ tok.n = n /\ tok.via = "direct"

\* the recogniser: byte-exact templates, in the order of typeOfScript.  (Multisig
\* and null-data scripts are outside this table; no enumerated script is one.)
Classify(sc) ==
    LET L == Len(sc)
    IN  CASE L = 2 /\ IsPush(sc[1], 33) /\ KeyPrefixOf(sc[1].data) \in {2, 3} /\ IsOp(sc[2], OPCHECKSIG) -> "pubkey"
          [] L = 2 /\ IsPush(sc[1], 65) /\ KeyPrefixOf(sc[1].data) \in {4, 6, 7} /\ IsOp(sc[2], OPCHECKSIG) -> "pubkey"
          [] L = 5 /\ IsOp(sc[1], OPDUP) /\ IsOp(sc[2], OPHASH160) /\ IsPush(sc[3], 20)
                   /\ IsOp(sc[4], OPEQUALVERIFY) /\ IsOp(sc[5], OPCHECKSIG) -> "pubkeyhash"
          [] L = 3 /\ IsOp(sc[1], OPHASH160) /\ IsPush(sc[2], 20) /\ IsOp(sc[3], OPEQUAL) -> "scripthash"
          [] L = 2 /\ IsOp(sc[1], OP0) /\ IsPush(sc[2], 20) -> "witness_v0_keyhash"
          [] L = 2 /\ IsOp(sc[1], OP0) /\ IsPush(sc[2], 32) -> "witness_v0_scripthash"
          [] L = 2 /\ IsOp(sc[1], OP1) /\ IsPush(sc[2], 2) /\ sc[2].data = "anchor" -> "anchor"
          [] L = 2 /\ IsOp(sc[1], OP1) /\ IsPush(sc[2], 32) -> "witness_v1_taproot"
          [] OTHER -> "nonstandard"

\* ExtractPkScriptAddrs: (class, address kinds found, required signatures)
Extract(sc) ==
    LET c == Classify(sc)
    IN  CASE c = "pubkey" ->
                [class |-> c, reqsigs |-> 1,
                 addrs |-> IF ~ValidKey(sc[1].data) THEN <<>>
                           ELSE IF sc[1].n = 33 THEN <<"p2pk-c">> ELSE <<"p2pk-u">>]
          [] c = "pubkeyhash" -> [class |-> c, reqsigs |-> 1, addrs |-> <<"p2pkh">>]
          [] c = "scripthash" -> [class |-> c, reqsigs |-> 1, addrs |-> <<"p2sh">>]
          [] c = "witness_v0_keyhash" -> [class |-> c, reqsigs |-> 1, addrs |-> <<"p2wpkh">>]
          [] c = "witness_v0_scripthash" -> [class |-> c, reqsigs |-> 1, addrs |-> <<"p2wsh">>]
          [] c = "witness_v1_taproot" -> [class |-> c, reqsigs |-> 1, addrs |-> <<"p2tr">>]
          [] c = "anchor" -> [class |-> c, reqsigs |-> 0, addrs |-> <<"p2a">>]
          [] OTHER -> [class |-> "nonstandard", reqsigs |-> 0, addrs |-> <<>>]

\* IsWitnessProgram / ExtractWitnessProgramInfo (BIP141): a version opcode
\* OP_0..OP_16 and one direct push of 2..40 bytes, nothing else
IsWitProg(sc) ==
    /\ Len(sc) = 2 /\ sc[1].t = "op" /\ sc[1].v \in ({OP0} \cup (81..96))
    /\ sc[2].t = "push" /\ sc[2].via = "direct" /\ sc[2].n \in 2..40
WitProgOf(sc) ==
    IF IsWitProg(sc) THEN [is |-> TRUE, ver |-> IF sc[1].v = OP0 THEN 0 ELSE sc[1].v - 80, plen |-> sc[2].n]
    ELSE [is |-> FALSE, ver |-> 0, plen |-> 0]

\* ParsePkScript keeps the fixed-size templates only
PkScriptSupported(class) ==
    class \in {"pubkeyhash", "witness_v0_keyhash", "scripthash", "witness_v0_scripthash",
               "witness_v1_taproot", "anchor"}

\* ComputePkScript: the output script implied by the spending data
\*   "p2pkh-c"  sigScript <sig> <compressed key>           -> p2pkh of hash160(key)
\*   "p2sh"     sigScript <pushes...> <redeem script>      -> p2sh of hash160(redeem)
\*   "p2wpkh"   witness <sig> <33-byte key>                -> p2wpkh of hash160(key)
\*   "p2wsh"    witness <items...> <witness script>        -> p2wsh of sha256(script)
SpendForms == {"p2pkh-c", "p2sh", "p2wpkh", "p2wsh"}
ComputedKind(form) ==
    CASE form = "p2pkh-c" -> "p2pkh" [] form = "p2sh" -> "p2sh"
      [] form = "p2wpkh" -> "p2wpkh" [] form = "p2wsh" -> "p2wsh"

-----------------------------------------------------------------------------
(* (c) WIF: decoded bytes = net byte, 32 key bytes, optional 0x01, 4        *)
(* checksum bytes.  s: total (decoded length), flag (value of byte 34 when  *)
(* total = 38: 1 or another value, 0 stands for "not 1"), ck, key class     *)
(* "ok" / "zero" / "eqN" (= group order) / "gtN", v net byte.               *)
DecideWif(s) ==
    IF ~(s.total = 38 \/ s.total = 37) THEN Reject
    ELSE IF s.total = 38 /\ s.flag # 1 THEN Reject
    ELSE IF s.ck # "ok" \/ s.key # "ok" THEN Reject
    ELSE [accept |-> TRUE, compressed |-> s.total = 38, v |-> s.v, fornets |-> NetsWithWif(s.v)]

-----------------------------------------------------------------------------
(* (d) BIP32.  A key is identified by the root it descends from and the    *)
(* path; a public key at a path is the same key whether the chain was      *)
(* neutered early or late (CKDpub o N = N o CKDpriv on normal steps).      *)
(* index: [h |-> hardened, n |-> 0 .. 2^31-1].                             *)

MaxDepth == 255
Idx(h, n) == [h |-> h, n |-> n]

\* key state: start depth of the root, path below the root, private?, version owner
Key(root, path, priv) == [root |-> root, path |-> path, priv |-> priv]
KDepth(k)    == k.root.depth + Len(k.path)
KChildNum(k) == IF k.path = <<>> THEN k.root.child ELSE k.path[Len(k.path)]
KVersion(k)  == IF k.priv THEN NetOf(k.root.net).hdpriv ELSE NetOf(k.root.net).hdpub

\* Derive(k, i): error or the child
DeriveK(k, i) ==
    IF KDepth(k) = MaxDepth THEN [err |-> "maxdepth"]
    ELSE IF ~k.priv /\ i.h THEN [err |-> "hardfrompub"]
    ELSE [err |-> "", key |-> Key(k.root, Append(k.path, i), k.priv)]
NeuterK(k) == Key(k.root, k.path, FALSE)

\* serialisation: field widths of the 78 byte payload (+ 4 checksum bytes)
HdLayout == << [f |-> "version", n |-> 4], [f |-> "depth", n |-> 1], [f |-> "parentfp", n |-> 4],
               [f |-> "childnum", n |-> 4], [f |-> "chaincode", n |-> 32], [f |-> "key", n |-> 33] >>

(* NewKeyFromString on an abstract serialised key: total decoded length,   *)
(* ck, keytype: "priv" (0x00 prefix, scalar in 1..N-1) "priv-zero"         *)
(* "priv-eqN" "priv-gtN" "pub" (02/03 prefix, on curve) "pub-off"          *)
(* "pub-prefix" (prefix 01 or 04); version: any 4 bytes.                   *)
DecideHdString(s) ==
    IF s.total # 82 \/ s.ck # "ok" THEN Reject
    ELSE IF s.keytype \in {"priv", "pub"}
         THEN [accept |-> TRUE, priv |-> s.keytype = "priv", fornets |-> NetsWithHd(s.version),
               \* Neuter needs the public version registered for a private one
               neuterok |-> s.keytype = "pub" \/ HdPubOf(s.version) # <<>>,
               neuterversion |-> IF s.keytype = "pub" THEN s.version ELSE HdPubOf(s.version)]
         ELSE Reject

-----------------------------------------------------------------------------
(* (e) taproot script trees over an abstract, injective tagged hash.       *)
(* A hash is a term: leaf hash  [t |-> "L", v |-> leaf version, s |-> id], *)
(* branch hash [t |-> "B", kids |-> {a, b}] - the SET of the two children, *)
(* because TapBranch sorts them (a singleton when both are equal).         *)
(* A tree is a leaf [t |-> "leaf", i |-> position] or                      *)
(* [t |-> "node", l |-> tree, r |-> tree].                                 *)

LeafHash(v, s) == [t |-> "L", v |-> v, s |-> s]
Br(a, b)       == [t |-> "B", kids |-> {a, b}]

TLeaf(i)    == [t |-> "leaf", i |-> i]
TNode(l, r) == [t |-> "node", l |-> l, r |-> r]

\* leaves: sequence of [v |-> leaf version, s |-> script id]
LH(leaves, i) == LeafHash(leaves[i].v, leaves[i].s)

RECURSIVE TreeHash(_, _)
TreeHash(tr, leaves) ==
    IF tr.t = "leaf" THEN LH(leaves, tr.i)
    ELSE Br(TreeHash(tr.l, leaves), TreeHash(tr.r, leaves))

RECURSIVE LeavesOf(_)
LeavesOf(tr) == IF tr.t = "leaf" THEN {tr.i} ELSE LeavesOf(tr.l) \cup LeavesOf(tr.r)

\* inclusion proof of leaf position i: sibling hashes from the leaf up to the root
RECURSIVE ProofOf(_, _, _)
ProofOf(tr, leaves, i) ==
    IF tr.t = "leaf" THEN <<>>
    ELSE IF i \in LeavesOf(tr.l)
         THEN Append(ProofOf(tr.l, leaves, i), TreeHash(tr.r, leaves))
         ELSE Append(ProofOf(tr.r, leaves, i), TreeHash(tr.l, leaves))

\* ControlBlock.RootHash: fold the path over the leaf hash
RECURSIVE FoldPath(_, _, _)
FoldPath(h, path, k) == IF k > Len(path) THEN h ELSE FoldPath(Br(h, path[k]), path, k + 1)
RootFrom(h, path) == FoldPath(h, path, 1)

\* the output key commits to the internal key and the root
OutKey(ikey, root) == [t |-> "Q", k |-> ikey, r |-> root]

\* control block: leaf version, parity bit of the output key, internal key, path;
\* the parity of a key is not modelled: it is named by the key it belongs to
ControlBlock(v, ikey, root, path) == [v |-> v, parityof |-> OutKey(ikey, root), ikey |-> ikey, path |-> path]

\* VerifyTaprootLeafCommitment(cb, program, script)
VerifyLeaf(cb, program, v, s) ==
    LET q == OutKey(cb.ikey, RootFrom(LeafHash(v, s), cb.path))
    IN  q = program /\ cb.parityof = q

(* AssembleTaprootScriptTree, the tree it builds: pair the leaves left to  *)
(* right, an odd last leaf is joined to the last pair; then repeatedly take *)
(* the two front branches and append their join.                           *)
RECURSIVE Pairs(_, _, _)
Pairs(n, i, acc) ==
    IF i > n THEN acc
    ELSE IF i = n THEN [acc EXCEPT ![Len(acc)] = TNode(acc[Len(acc)], TLeaf(i))]
    ELSE Pairs(n, i + 2, Append(acc, TNode(TLeaf(i), TLeaf(i + 1))))
RECURSIVE Merge(_)
Merge(q) == IF Len(q) = 1 THEN q[1] ELSE Merge(Append(SubSeq(q, 3, Len(q)), TNode(q[1], q[2])))
AssembledTree(n) == IF n = 1 THEN TLeaf(1) ELSE Merge(Pairs(n, 1, <<>>))

(* ... and the proofs it hands out (implementation layer).  The code finds *)
(* the proof slot of a leaf through a map from the leaf HASH to the leaf    *)
(* position (the last position with that hash): with two equal leaves the   *)
(* sibling hashes of the first go to the slot of the last.                  *)
SlotOf(leaves, i) == CHOOSE j \in 1..Len(leaves) :
                        /\ LH(leaves, j) = LH(leaves, i)
                        /\ \A k \in 1..Len(leaves) : LH(leaves, k) = LH(leaves, i) => k <= j

\* append hash h to the proof of every leaf position in the sequence `who`
\* (looked up through SlotOf when bymap, directly otherwise)
RECURSIVE AddTo(_, _, _, _, _, _)
AddTo(proofs, leaves, who, k, h, bymap) ==
    IF k > Len(who) THEN proofs
    ELSE LET slot == IF bymap THEN SlotOf(leaves, who[k]) ELSE who[k]
         IN  AddTo([proofs EXCEPT ![slot] = Append(@, h)], leaves, who, k + 1, h, bymap)

\* leaf positions below a tree, left to right
RECURSIVE LeafSeq(_)
LeafSeq(tr) == IF tr.t = "leaf" THEN <<tr.i>> ELSE LeafSeq(tr.l) \o LeafSeq(tr.r)

RECURSIVE ImplPairs(_, _, _, _)
\* state: <<branches, proofs>>
ImplPairs(leaves, i, br, pr) ==
    LET n == Len(leaves)
    IN  IF i > n THEN <<br, pr>>
        ELSE IF i = n
        THEN LET last == br[Len(br)]
                 p1 == [pr EXCEPT ![i] = Append(@, TreeHash(last, leaves))]
                 \* the two leaves of the last pair, each found through the map
                 p2 == AddTo(p1, leaves, <<last.l.i, last.r.i>>, 1, LH(leaves, i), TRUE)
             IN  <<[br EXCEPT ![Len(br)] = TNode(last, TLeaf(i))], p2>>
        ELSE LET p1 == [pr EXCEPT ![i] = Append(@, LH(leaves, i + 1))]
                 p2 == [p1 EXCEPT ![i + 1] = Append(@, LH(leaves, i))]
             IN  ImplPairs(leaves, i + 2, Append(br, TNode(TLeaf(i), TLeaf(i + 1))), p2)

RECURSIVE ImplMerge(_, _, _)
ImplMerge(leaves, q, pr) ==
    IF Len(q) = 1 THEN <<q[1], pr>>
    ELSE LET l == q[1]
             r == q[2]
             p1 == AddTo(pr, leaves, LeafSeq(l), 1, TreeHash(r, leaves), TRUE)
             p2 == AddTo(p1, leaves, LeafSeq(r), 1, TreeHash(l, leaves), TRUE)
         IN  ImplMerge(leaves, Append(SubSeq(q, 3, Len(q)), TNode(l, r)), p2)

\* <<tree, proofs by leaf position>> as the code computes them
ImplAssemble(leaves) ==
    LET n == Len(leaves)
        empty == [i \in 1..n |-> <<>>]
    IN  IF n = 1 THEN <<TLeaf(1), empty>>
        ELSE LET ph1 == ImplPairs(leaves, 1, <<>>, empty)
             IN  ImplMerge(leaves, ph1[1], ph1[2])

\* all binary trees over the leaf positions lo..hi in order
RECURSIVE Shapes(_, _)
Shapes(lo, hi) ==
    IF lo = hi THEN {TLeaf(lo)}
    ELSE UNION {{TNode(l, r) : l \in Shapes(lo, m), r \in Shapes(m + 1, hi)} : m \in lo..(hi - 1)}
=============================================================================
