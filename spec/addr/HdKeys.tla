------------------------------- MODULE HdKeys -------------------------------
(***************************************************************************)
(* C16, BIP32 part: extended keys as OBJECTS that live side by side.       *)
(* AddrCases.tla follows one key through a sequence of derivations; this   *)
(* module holds up to NSlots keys at once and lets every operation of the  *)
(* hdkeychain API act on any of them (NewMaster, Derive into another slot, *)
(* Neuter into another slot, SetNet, Zero), because the property is about  *)
(* every key at all times: an operation on one key changes that key only,  *)
(* a key is serialised with the version bytes of its own network, the      *)
(* network parameter sets never change, and a serialised key parses back.  *)
(*                                                                         *)
(* keys[s]   "none" | "zeroed" | a live key: the master it descends from   *)
(*           (origin = network it was made for; the binder uses one seed   *)
(*           per network), its path, private?, the network it is FOR now   *)
(*           (net) and the version bytes it carries (ver, moved around the  *)
(*           way the code moves them: inherited by Derive, mapped by        *)
(*           Neuter, replaced by SetNet)                                    *)
(* params    the HD version bytes of the networks (never written)           *)
(* tainted   history variable of a recorded defect: Neuter hands the        *)
(*           parent's buffers (memoised public key, chain code, parent      *)
(*           fingerprint) to the neutered key, so zeroing one of two keys   *)
(*           that share buffers (`mates`) destroys the other.  The step is  *)
(*           taken, the behaviour ends there.                               *)
(*                                                                         *)
(* The labelled state graph tells the binder what to do on each edge.       *)
(***************************************************************************)
EXTENDS AddrCodec, TLC

CONSTANTS NSlots,       \* number of key slots
          MNets,        \* networks of the machine
          MaxPath       \* longest path below a master

VARIABLES keys, params, tainted
vars == <<keys, params, tainted>>

NetSeq == <<"mainnet", "simnet", "testnet3">>
Slots == 1..NSlots
None   == [st |-> "none"]
Zeroed == [st |-> "zeroed"]
Live(o, n, p, path, ver, mates) ==
    [st |-> "live", origin |-> o, net |-> n, priv |-> p, path |-> path, ver |-> ver, mates |-> mates]
IsLive(s) == keys[s].st = "live"

ParamsOf == [n \in MNets |-> [hdpriv |-> NetOf(n).hdpriv, hdpub |-> NetOf(n).hdpub]]

Init == /\ keys = [s \in Slots |-> None]
        /\ params = ParamsOf
        /\ tainted = FALSE

\* slot d receives a new object: whoever shared buffers with the old one no longer does
Put(d, k) ==
    keys' = [s \in Slots |->
                IF s = d THEN k
                ELSE IF keys[s].st = "live" /\ s \notin k.mates THEN [keys[s] EXCEPT !.mates = @ \ {d}]
                ELSE IF keys[s].st = "live" THEN [keys[s] EXCEPT !.mates = @ \cup {d}]
                ELSE keys[s]]

\* (arguments are numbers - slot, position in NetSeq, hardened 0/1 - so that the
\* edge labels of the state graph are plain: NewMaster(1,2), Derive(1,2,0), ...)
NewMaster(d, ni) ==
    /\ d \in Slots /\ NetSeq[ni] \in MNets /\ ~tainted
    /\ LET n == NetSeq[ni] IN Put(d, Live(n, n, TRUE, <<>>, params[n].hdpriv, {}))
    /\ UNCHANGED <<params, tainted>>

\* hardened derivation needs the private parent; the child carries the parent's
\* version bytes and is for the parent's network; it shares no buffer
Derive(s, d, h) ==
    /\ s \in Slots /\ d \in Slots /\ ~tainted
    /\ IsLive(s) /\ Len(keys[s].path) < MaxPath
    /\ (h = 1 => keys[s].priv)
    /\ Put(d, Live(keys[s].origin, keys[s].net, keys[s].priv, Append(keys[s].path, Idx(h = 1, 0)), keys[s].ver, {}))
    /\ UNCHANGED <<params, tainted>>

\* Neuter of a private key: the public version of its version bytes; the new key
\* shares the buffers of its parent (and of everything the parent shares with)
Neuter(s, d) ==
    /\ s \in Slots /\ d \in Slots /\ ~tainted
    /\ IsLive(s) /\ keys[s].priv
    /\ Put(d, Live(keys[s].origin, keys[s].net, FALSE, keys[s].path, HdPubOf(keys[s].ver),
                   (keys[s].mates \cup {s}) \ {d}))
    /\ UNCHANGED <<params, tainted>>

SetNet(s, ni) ==
    /\ s \in Slots /\ NetSeq[ni] \in MNets /\ ~tainted
    /\ IsLive(s)
    /\ LET n == NetSeq[ni] IN keys' = [keys EXCEPT ![s].net = n, ![s].ver = IF keys[s].priv THEN params[n].hdpriv ELSE params[n].hdpub]
    /\ UNCHANGED <<params, tainted>>

Zero(s) ==
    /\ s \in Slots /\ ~tainted
    /\ IsLive(s)
    /\ tainted' = (keys[s].mates # {})
    /\ keys' = [t \in Slots |->
                   IF t = s THEN Zeroed
                   ELSE IF keys[t].st = "live" THEN [keys[t] EXCEPT !.mates = @ \ {s}]
                   ELSE keys[t]]
    /\ UNCHANGED params

Next == \/ \E d \in Slots, n \in 1..Len(NetSeq) : NewMaster(d, n)
        \/ \E s \in Slots, d \in Slots, h \in {0, 1} : Derive(s, d, h)
        \/ \E s \in Slots, d \in Slots : Neuter(s, d)
        \/ \E s \in Slots, n \in 1..Len(NetSeq) : SetNet(s, n)
        \/ \E s \in Slots : Zero(s)

Spec == Init /\ [][Next]_vars

-----------------------------------------------------------------------------
(* the property on the model *)

\* a key carries the version bytes of the network it is for, private or public
OwnVersion ==
    \A s \in Slots : IsLive(s) =>
        keys[s].ver = (IF keys[s].priv THEN NetOf(keys[s].net).hdpriv ELSE NetOf(keys[s].net).hdpub)
\* ... and is for exactly the networks with these bytes
ForNetsOf(s) == NetsWithHd(keys[s].ver)
NetSeparated == \A s \in Slots : IsLive(s) => keys[s].net \in ForNetsOf(s)
\* the parameter sets are constants
ParamsConstant == params = ParamsOf
\* sharing is mutual and only between keys of the same master and path
MatesSane ==
    \A s \in Slots : IsLive(s) => \A m \in keys[s].mates :
        /\ m # s /\ IsLive(m) /\ s \in keys[m].mates
        /\ keys[m].origin = keys[s].origin /\ keys[m].path = keys[s].path
        /\ (keys[m].priv => ~keys[s].priv)
\* an operation changes the key it is applied to (or the slot it fills), no other
\* key's identity, network or version bytes
Frame ==
    [][\A s \in Slots :
          (keys[s].st = "live" /\ keys'[s].st = "live" /\
           <<keys'[s].origin, keys'[s].path, keys'[s].priv>> = <<keys[s].origin, keys[s].path, keys[s].priv>>
           /\ keys'[s].net # keys[s].net)
          => Cardinality({t \in Slots : keys'[t].st # keys[t].st \/ (keys[t].st = "live" /\
                 <<keys'[t].origin, keys'[t].path, keys'[t].priv, keys'[t].net>> #
                 <<keys[t].origin, keys[t].path, keys[t].priv, keys[t].net>>)}) <= 1]_vars
=============================================================================
