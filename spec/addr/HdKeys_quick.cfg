SPECIFICATION Spec
CONSTANTS NSlots = 2
          MNets = {"mainnet", "simnet"}
          MaxPath = 1
INVARIANTS OwnVersion NetSeparated ParamsConstant MatesSane
PROPERTY Frame
