SPECIFICATION Spec
CONSTANTS NSlots = 3
          MNets = {"mainnet", "simnet"}
          MaxPath = 1
INVARIANTS OwnVersion NetSeparated ParamsConstant MatesSane
PROPERTY Frame
