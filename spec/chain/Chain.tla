------------------------------- MODULE Chain -------------------------------
(***************************************************************************)
(* The block-tree state machine of btcd's blockchain package (C01, C02,    *)
(* C03, C17; workload generator for C04).                                  *)
(*                                                                         *)
(* Two layers.                                                             *)
(*  - Implementation layer: the variables idx / best / bestHdr / orph and  *)
(*    the operators MaybeAccept, ConnectBest, GetReorgNodes, ReorgChain,   *)
(*    Drain, Invalidate, Reconsider are written like the code (process.go, *)
(*    accept.go, chain.go), one operator per function, with the index      *)
(*    status flags the code keeps.  Every public call (ProcessBlock,       *)
(*    ProcessBlockHeader, InvalidateBlock, ReconsiderBlock,                *)
(*    FlushUtxoCache) is ONE action: the chain lock makes the call atomic  *)
(*    and the property speaks about quiescent points.                      *)
(*  - Property layer: Cands / IdealTips / MustAccept etc. are defined from *)
(*    the scenario (tree, work, flaws), what has been delivered and what   *)
(*    was manually invalidated -- never from the status flags.             *)
(* TLC checks implementation => property in every reachable state; the    *)
(* binder replays the behaviours into the real code and compares the real  *)
(* outcome with the PROPERTY layer (variable exp) for verdicts and with    *)
(* the implementation layer (variable pred) for drift reporting.           *)
(***************************************************************************)
EXTENDS Integers, Sequences, FiniteSets, TLC

CONSTANTS
    N,          \* number of non-genesis blocks; genesis is block 0
    WORKS,      \* set of per-block work values, e.g. {1} or {1,2}
    FLAWS,      \* subset of {"sanity","context","bcontext","connect"}: stages a flawed block may have
                \* ("context" = a contextual HEADER rule, visible to header-first delivery;
                \*  "bcontext" = a contextual rule about the block's transactions: the header alone passes)
    HEADERS,    \* BOOLEAN: header-first deliveries enabled
    MANUAL,     \* max number of InvalidateBlock/ReconsiderBlock calls per behaviour
    FLUSH,      \* BOOLEAN: explicit FlushUtxoCache calls enabled (stutter on this layer)
    DUPS,       \* BOOLEAN: re-delivery of blocks the node already has (must be refused, no effect)
    RESTART     \* max number of restarts (close the database, load the chain again) per behaviour

Blocks == 1..N
Nodes  == 0..N
G      == 0

VARIABLES
    parent, work, flaw,   \* the scenario: chosen in Init, constant afterwards
    idx,                  \* block index: per node the status flags
    best,                 \* active chain, a sequence starting with G
    bestHdr,              \* best header chain, a sequence starting with G
    orph,                 \* orphan pool in arrival order (sequence of blocks)
    manual,               \* blocks invalidated by InvalidateBlock and not reconsidered
    everActive,           \* blocks that were in the active chain at some quiescent point
    accHdr,               \* headers accepted through ProcessBlockHeader
    nmanual,              \* manual operations used
    nrestart,             \* restarts used
    last,                 \* the call just made: [op, b]
    pred,                 \* implementation-layer prediction of its observable result
    exp                   \* property-layer oracle for the state after the call

scenario == <<parent, work, flaw>>
impl     == <<idx, best, bestHdr, orph>>
vars     == <<parent, work, flaw, idx, best, bestHdr, orph, manual, everActive, accHdr, nmanual, nrestart, last, pred, exp>>

-----------------------------------------------------------------------------
(* Tree helpers *)

RECURSIVE WorkSum(_), Height(_), Path(_)
WorkSum(b) == IF b = G THEN 0 ELSE work[b] + WorkSum(parent[b])
Height(b)  == IF b = G THEN 0 ELSE 1 + Height(parent[b])
\* Path(b): the sequence G .. b
Path(b)    == IF b = G THEN <<G>> ELSE Append(Path(parent[b]), b)
Anc(b)     == {Path(b)[i] : i \in 1..Len(Path(b))}           \* ancestors of b including b and G
IsAnc(a, b) == a \in Anc(b)
Desc(a)    == {d \in Nodes : a \in Anc(d)}                    \* descendants including a
Tip(c)     == c[Len(c)]
OnChain(c, b) == \E i \in 1..Len(c) : c[i] = b
RECURSIVE ForkOf(_, _)
ForkOf(c, b) == IF OnChain(c, b) THEN b ELSE ForkOf(c, parent[b])
\* nodes strictly after f on the path to b, ascending
After(f, b) == SubSeq(Path(b), Height(f) + 2, Len(Path(b)))
Max(S) == CHOOSE x \in S : \A y \in S : y <= x
Min(S) == CHOOSE x \in S : \A y \in S : x <= y
SeqToSet(s) == {s[i] : i \in 1..Len(s)}
Rev(s) == [i \in 1..Len(s) |-> s[Len(s) + 1 - i]]
Filter(s, S) == SelectSeq(s, LAMBDA x : x \in S)

Flaw(x) == IF x = G THEN "none" ELSE flaw[x]
NoFlags == [hdr |-> FALSE, data |-> FALSE, valid |-> FALSE, failed |-> FALSE, invanc |-> FALSE]
KnownInvalid(ix, b) == ix[b].failed \/ ix[b].invanc
InIndex(ix, b) == ix[b].hdr \/ ix[b].data

-----------------------------------------------------------------------------
(* Implementation layer: pure operators on S = [idx, best, orph, notes, ret] *)

\* verifyReorganizationValidity over the attach list: blocks already known
\* valid are skipped, the first block with a connect-stage flaw is marked
\* failed and everything after it invalid-ancestor.
Verify(ix, attach) ==
    LET bad == {i \in 1..Len(attach) : ~ix[attach[i]].valid /\ Flaw(attach[i]) = "connect"}
    IN IF bad = {}
       THEN [ok |-> TRUE,
             idx |-> [x \in Nodes |-> IF x \in SeqToSet(attach) THEN [ix[x] EXCEPT !.valid = TRUE] ELSE ix[x]]]
       ELSE LET m == Min(bad)
            IN [ok |-> FALSE,
                idx |-> [x \in Nodes |->
                    IF \E i \in 1..(m-1) : attach[i] = x THEN [ix[x] EXCEPT !.valid = TRUE]
                    ELSE IF x = attach[m] THEN [ix[x] EXCEPT !.failed = TRUE]
                    ELSE IF \E i \in (m+1)..Len(attach) : attach[i] = x THEN [ix[x] EXCEPT !.invanc = TRUE]
                    ELSE ix[x]]]

\* getReorganizeNodes
GetReorgNodes(ix, c, b) ==
    IF KnownInvalid(ix, parent[b])
    THEN [idx |-> [ix EXCEPT ![b].invanc = TRUE], detach |-> <<>>, attach |-> <<>>]
    ELSE LET f    == ForkOf(c, b)
             path == After(f, b)
             bad  == {i \in 1..Len(path) : KnownInvalid(ix, path[i])}
         IN IF bad # {}
            THEN LET m == Max(bad)
                 IN [idx |-> [x \in Nodes |->
                        IF \E i \in (m+1)..Len(path) : path[i] = x
                        THEN [ix[x] EXCEPT !.invanc = TRUE] ELSE ix[x]],
                     detach |-> <<>>, attach |-> <<>>]
            ELSE [idx |-> ix, detach |-> Rev(After(f, Tip(c))), attach |-> path]

\* reorganizeChain: verify first, then disconnect and connect block by block.
\* With both lists empty the code returns nil (callers then report success).
ReorgChain(S, detach, attach) ==
    IF detach = <<>> /\ attach = <<>> THEN [S EXCEPT !.ret = "ok"]
    ELSE LET v == Verify(S.idx, attach)
         IN IF ~v.ok THEN [S EXCEPT !.idx = v.idx, !.ret = "rej_connect"]
            ELSE [S EXCEPT !.idx = v.idx,
                           !.best = SubSeq(S.best, 1, Len(S.best) - Len(detach)) \o attach,
                           !.notes = S.notes \o [i \in 1..Len(detach) |-> <<"d", detach[i]>>]
                                             \o [i \in 1..Len(attach) |-> <<"c", attach[i]>>],
                           !.ret = "ok"]

\* connectBestChain
ConnectBest(S, b) ==
    IF parent[b] = Tip(S.best)
    THEN IF ~S.idx[b].valid /\ Flaw(b) = "connect"
         THEN [S EXCEPT !.idx[b].failed = TRUE, !.ret = "rej_connect"]
         ELSE [S EXCEPT !.idx[b].valid = TRUE, !.best = Append(S.best, b),
                        !.notes = Append(S.notes, <<"c", b>>), !.ret = "main"]
    ELSE IF WorkSum(b) <= WorkSum(Tip(S.best)) THEN [S EXCEPT !.ret = "side"]
    ELSE LET r  == GetReorgNodes(S.idx, S.best, b)
             S1 == ReorgChain([S EXCEPT !.idx = r.idx], r.detach, r.attach)
         IN [S1 EXCEPT !.ret = IF S1.ret = "ok" THEN "main" ELSE S1.ret]

\* maybeAcceptBlock
MaybeAccept(S, b) ==
    IF KnownInvalid(S.idx, parent[b]) THEN [S EXCEPT !.ret = "rej_ancestor"]
    ELSE IF Flaw(b) \in {"context", "bcontext"} THEN [S EXCEPT !.ret = "rej_context"]
    ELSE ConnectBest([S EXCEPT !.idx[b].hdr = TRUE, !.idx[b].data = TRUE,
                               !.notes = S.notes], b)

\* processOrphans: breadth first over the accepted hashes; within one parent
\* in arrival order.  A rule error from an orphan is remembered (drainErr) and
\* the drain continues with the remaining orphans (see the fix: commit in
\* known-findings.json; before it the drain returned at the first failure).
RECURSIVE Drain(_, _)
Drain(S, queue) ==
    IF queue = <<>> THEN S
    ELSE LET p    == Head(queue)
             kids == Filter(S.orph, {o \in Blocks : parent[o] = p})
         IN IF kids = <<>> THEN Drain(S, Tail(queue))
            ELSE LET o  == Head(kids)
                     S1 == MaybeAccept([S EXCEPT !.orph = Filter(S.orph, Blocks \ {o})], o)
                     acc == S1.ret \in {"main", "side"}
                 IN Drain([S1 EXCEPT !.ret = S.ret, !.drainErr = S.drainErr \/ ~acc],
                          IF acc THEN Append(queue, o) ELSE queue)

\* ProcessBlock
Process(S, b) ==
    IF S.idx[b].data \/ b \in SeqToSet(S.orph) THEN [S EXCEPT !.ret = "duplicate"]
    ELSE IF Flaw(b) = "sanity" THEN [S EXCEPT !.ret = "rej_sanity"]
    ELSE IF ~S.idx[parent[b]].data THEN [S EXCEPT !.orph = Append(S.orph, b), !.ret = "orphan"]
    ELSE LET S1 == MaybeAccept(S, b)
         IN IF S1.ret \in {"main", "side"} THEN Drain(S1, <<b>>) ELSE S1

S0 == [idx |-> idx, best |-> best, orph |-> orph, notes |-> <<>>, ret |-> "none", drainErr |-> FALSE]

-----------------------------------------------------------------------------
(* Property layer *)

Have(ix, orp, b)   == b = G \/ ix[b].data \/ b \in SeqToSet(orp)
\* a candidate tip: every block from genesis to c has been delivered (stored
\* or parked as an orphan), is flawless and is not manually invalidated
Good(ix, orp, man, c) == \A x \in Anc(c) : x = G \/ (Have(ix, orp, x) /\ Flaw(x) = "none" /\ x \notin man)
Cands(ix, orp, man)   == {c \in Nodes : Good(ix, orp, man, c)}
\* Ties go to the chain that became active first.  Without manual operations
\* at most one most-work candidate was ever active (a reorganisation needs
\* strictly more work).  After InvalidateBlock / ReconsiderBlock several
\* most-work candidates may have been active at different times and the
\* statement does not order them: any of them is allowed then.
IdealTips(ix, orp, man, ever, nman) ==
    LET C  == Cands(ix, orp, man)
        mw == Max({WorkSum(c) : c \in C})
        M  == {c \in C : WorkSum(c) = mw}
    IN IF nman = 0 /\ M \cap ever # {} THEN M \cap ever ELSE M

\* C01: a flawless block all of whose ancestors are flawless (and none of
\* them manually invalidated) must be accepted: the node has it afterwards
\* (stored, or parked as an orphan).  A sanity-flawed block must be refused
\* and not kept; a context-flawed block likewise when its parent is stored.
\* A block the node already has ("dup") is refused without any effect.
\* "Accepted" is about the block itself: ProcessBlock also reports the first
\* rule error of an orphan it drained, although the delivered block was
\* accepted (pred.ret = "main"/"side" with pred.drainErr).
Accept(ix, orp, man, b) ==
    IF ix[b].data \/ b \in SeqToSet(orp) THEN "dup"
    ELSE IF Flaw(b) = "sanity" THEN "mustnot"
    ELSE IF Flaw(b) \in {"context", "bcontext"} /\ ix[parent[b]].data THEN "mustnot"
    ELSE IF \A x \in Anc(b) : x = G \/ (Flaw(x) = "none" /\ x \notin man) THEN "must"
    ELSE "any"

Accepted(r) == r \in {"main", "side", "orphan"}

-----------------------------------------------------------------------------
(* Scenario *)

TreeOK(p) == /\ \A b \in Blocks : p[b] < b
             /\ \A b \in 1..(N-1) : p[b] <= p[b+1]      \* BFS-canonical labelling
FlawOK(f) == Cardinality({b \in Blocks : f[b] # "none"}) <= 1

Init ==
    /\ parent \in {p \in [Blocks -> Nodes] : TreeOK(p)}
    /\ work \in [Blocks -> WORKS]
    /\ flaw \in {f \in [Blocks -> FLAWS \cup {"none"}] : FlawOK(f)}
    /\ idx = [x \in Nodes |-> IF x = G THEN [NoFlags EXCEPT !.hdr = TRUE, !.data = TRUE, !.valid = TRUE] ELSE NoFlags]
    /\ best = <<G>>
    /\ bestHdr = <<G>>
    /\ orph = <<>>
    /\ manual = {}
    /\ everActive = {G}
    /\ accHdr = {}
    /\ nmanual = 0
    /\ nrestart = 0
    /\ last = [op |-> "init", b |-> 0]
    /\ pred = [ret |-> "none", tip |-> G, notes |-> <<>>, hdrTip |-> G]
    /\ exp = [tips |-> {G}, accept |-> "any", hdrTips |-> {G}, hdrAccept |-> "any"]

-----------------------------------------------------------------------------
(* Header-first tracking (C17).  Property layer: the best-header view is on a *)
(* most-work chain of headers accepted through ProcessBlockHeader; on equal   *)
(* work the first one seen stays.                                            *)

\* maybeAcceptBlockHeader refuses a header whose parent is unknown or known
\* invalid, a known-invalid header, and a header violating a header rule (the
\* "context" flaw is a timestamp rule and therefore visible in the header).
HdrRej(ix, b) ==
    \/ ~InIndex(ix, parent[b])
    \/ KnownInvalid(ix, parent[b])
    \/ (InIndex(ix, b) /\ KnownInvalid(ix, b))
    \/ Flaw(b) = "context"

\* Property layer: must be refused when a proper ancestor is manually
\* invalidated or the header itself breaks a header rule or its parent is
\* unknown; must be accepted when every ancestor is flawless, none manually
\* invalidated, and the parent is known.
HdrAccept(ix, man, b) ==
    IF Flaw(b) = "context" \/ ~InIndex(ix, parent[b]) \/ (\E x \in Anc(b) \ {b} : x \in man) THEN "mustnot"
    ELSE IF \A x \in Anc(b) : x = G \/ (Flaw(x) = "none" /\ x \notin man) THEN "must"
    ELSE "any"

HdrIdeal(acc, oldTip) ==
    LET C  == acc \cup {G}
        mw == Max({WorkSum(c) : c \in C})
        M  == {c \in C : WorkSum(c) = mw}
    IN IF oldTip \in M THEN {oldTip} ELSE M

DeliverHeader(b) ==
    /\ HEADERS
    /\ LET rej == HdrRej(idx, b)
           onh == InIndex(idx, b) /\ OnChain(bestHdr, b)
           newHdr == IF rej \/ onh THEN bestHdr
                     ELSE IF parent[b] = Tip(bestHdr) THEN Append(bestHdr, b)
                     ELSE IF WorkSum(b) <= WorkSum(Tip(bestHdr)) THEN bestHdr
                     ELSE Path(b)
           acc == IF rej THEN accHdr ELSE accHdr \cup {b}
       IN /\ idx' = IF rej THEN idx ELSE [idx EXCEPT ![b].hdr = TRUE]
          /\ bestHdr' = newHdr
          /\ accHdr' = acc
          /\ last' = [op |-> "header", b |-> b]
          /\ pred' = [ret |-> IF rej THEN "rej" ELSE IF OnChain(newHdr, b) THEN "main" ELSE "side",
                      tip |-> Tip(best), notes |-> <<>>, hdrTip |-> Tip(newHdr)]
          /\ exp' = [exp EXCEPT !.accept = "any", !.hdrTips = HdrIdeal(acc, Tip(bestHdr)),
                                !.hdrAccept = HdrAccept(idx, manual, b)]
    /\ UNCHANGED <<scenario, best, orph, manual, everActive, nmanual, nrestart>>

-----------------------------------------------------------------------------
(* Block delivery *)

DeliverBlock(b) ==
    /\ (DUPS \/ ~(idx[b].data \/ b \in SeqToSet(orph)))
    /\ LET S == Process(S0, b)
       IN /\ idx' = S.idx
          /\ best' = S.best
          /\ orph' = S.orph
          /\ everActive' = everActive \cup SeqToSet(S.best)
          /\ last' = [op |-> "block", b |-> b]
          /\ pred' = [ret |-> IF S.drainErr THEN "drain_err" ELSE S.ret, tip |-> Tip(S.best), notes |-> S.notes, hdrTip |-> Tip(bestHdr)]
          /\ exp' = [exp EXCEPT !.tips = IdealTips(S.idx, S.orph, manual, everActive \cup SeqToSet(S.best), nmanual),
                                !.accept = Accept(idx, orph, manual, b), !.hdrAccept = "any"]
    /\ UNCHANGED <<scenario, bestHdr, manual, accHdr, nmanual, nrestart>>

-----------------------------------------------------------------------------
(* FlushUtxoCache: no effect on this layer; it is an action so that every    *)
(* placement of flushes between the other calls is a behaviour (C03).        *)

Flush(mode) ==
    /\ FLUSH
    /\ last.op # "flush"
    /\ last' = [op |-> "flush", b |-> mode]
    /\ pred' = [pred EXCEPT !.ret = "none", !.notes = <<>>]
    /\ exp' = [exp EXCEPT !.accept = "any", !.hdrAccept = "any"]
    /\ UNCHANGED <<scenario, impl, manual, everActive, accHdr, nmanual, nrestart>>

-----------------------------------------------------------------------------
(* InvalidateBlock / ReconsiderBlock *)

\* Candidate selection after an invalidation, as the code does it: repeatedly
\* take the most-work index node that is stored, not known invalid and not on
\* the active chain ... (see Invalidate below).
StoredPath(ix, c) == \A x \in Anc(c) : ix[x].data

\* activateBestChain (fix: commit): try the most-work stored candidate whose
\* flags do not yet rule it out; a failed attempt marks flags and the next
\* candidate is tried.  The current tip wins ties.
RECURSIVE Activate(_)
Activate(S) ==
    LET tip  == Tip(S.best)
        C    == {c \in Nodes : /\ StoredPath(S.idx, c)
                                /\ \A x \in Anc(c) : ~KnownInvalid(S.idx, x)
                                /\ WorkSum(c) > WorkSum(tip)}
    IN IF C = {} THEN S
       ELSE LET mw == Max({WorkSum(c) : c \in C})
                c  == Min({x \in C : WorkSum(x) = mw})     \* ties between never-active candidates: any is allowed by the property; the model takes the lowest id, the binder accepts any of exp.tips
                r  == GetReorgNodes(S.idx, S.best, c)
                S1 == ReorgChain([S EXCEPT !.idx = r.idx], r.detach, r.attach)
            IN IF S1.ret = "ok" THEN S1 ELSE Activate(S1)

Invalidate(b) ==
    /\ nmanual < MANUAL
    /\ idx[b].data
    /\ Good(idx, orph, manual, b)            \* only effective invalidations (see DESIGN.md C02)
    /\ LET \* mark b failed and every indexed descendant invalid-ancestor
           ix1 == [x \in Nodes |-> IF x = b THEN [idx[x] EXCEPT !.failed = TRUE, !.valid = FALSE]
                                   ELSE IF x \in Desc(b) /\ InIndex(idx, x) /\ ~KnownInvalid(idx, x)
                                        THEN [idx[x] EXCEPT !.invanc = TRUE, !.valid = FALSE]
                                   ELSE idx[x]]
           onb == OnChain(best, b)
           det == IF onb THEN Rev(After(parent[b], Tip(best))) ELSE <<>>
           S1  == [S0 EXCEPT !.idx = ix1,
                             !.best = IF onb THEN Path(parent[b]) ELSE best,
                             !.notes = [i \in 1..Len(det) |-> <<"d", det[i]>>]]
           S2  == IF onb THEN Activate(S1) ELSE S1
           man == manual \cup {b}
       IN /\ idx' = S2.idx
          /\ best' = S2.best
          /\ manual' = man
          /\ everActive' = everActive \cup SeqToSet(S2.best)
          /\ last' = [op |-> "invalidate", b |-> b]
          /\ pred' = [ret |-> "ok", tip |-> Tip(S2.best), notes |-> S2.notes, hdrTip |-> Tip(bestHdr)]
          /\ exp' = [exp EXCEPT !.tips = IdealTips(S2.idx, orph, man, everActive \cup SeqToSet(S2.best), nmanual + 1),
                                !.accept = "any", !.hdrAccept = "any"]
    /\ nmanual' = nmanual + 1
    /\ UNCHANGED <<scenario, bestHdr, orph, accHdr, nrestart>>

Reconsider(b) ==
    /\ nmanual < MANUAL
    /\ b \in manual
    /\ LET ix1 == [x \in Nodes |-> IF x = b THEN [idx[x] EXCEPT !.failed = FALSE, !.invanc = FALSE]
                                   ELSE IF x \in Desc(b) THEN [idx[x] EXCEPT !.invanc = FALSE]
                                   ELSE idx[x]]
           \* descendants that are themselves failed keep their flag; their
           \* subtrees are re-marked lazily by GetReorgNodes
           S2  == Activate([S0 EXCEPT !.idx = ix1])
           man == manual \ {b}
       IN /\ idx' = S2.idx
          /\ best' = S2.best
          /\ manual' = man
          /\ everActive' = everActive \cup SeqToSet(S2.best)
          /\ last' = [op |-> "reconsider", b |-> b]
          /\ pred' = [ret |-> "ok", tip |-> Tip(S2.best), notes |-> S2.notes, hdrTip |-> Tip(bestHdr)]
          /\ exp' = [exp EXCEPT !.tips = IdealTips(S2.idx, orph, man, everActive \cup SeqToSet(S2.best), nmanual + 1),
                                !.accept = "any", !.hdrAccept = "any"]
    /\ nmanual' = nmanual + 1
    /\ UNCHANGED <<scenario, bestHdr, orph, accHdr, nrestart>>

-----------------------------------------------------------------------------
(* Restart: the process ends (with or without a final flush of the UTXO     *)
(* cache) and blockchain.New loads the chain again.  What is on disk is the *)
(* block index with its status flags and the best state; the orphan pool is *)
(* memory only.  Loading ends with the same candidate activation the manual *)
(* operations use (a stored, not-known-invalid branch with more work than   *)
(* the tip is connected).  Header-first bookkeeping is not modelled across  *)
(* restarts (the code resets the best header to the active tip), so the     *)
(* action is limited to configurations without header deliveries.           *)

Restart ==
    /\ nrestart < RESTART
    /\ ~HEADERS
    /\ last.op # "restart"
    /\ LET S2 == Activate([S0 EXCEPT !.orph = <<>>])
       IN /\ idx' = S2.idx
          /\ best' = S2.best
          /\ orph' = <<>>
          /\ everActive' = everActive \cup SeqToSet(S2.best)
          /\ last' = [op |-> "restart", b |-> 0]
          /\ pred' = [ret |-> "ok", tip |-> Tip(S2.best), notes |-> S2.notes, hdrTip |-> Tip(bestHdr)]
          /\ exp' = [exp EXCEPT !.tips = IdealTips(S2.idx, <<>>, manual, everActive \cup SeqToSet(S2.best), nmanual),
                                !.accept = "any", !.hdrAccept = "any"]
    /\ nrestart' = nrestart + 1
    /\ UNCHANGED <<scenario, bestHdr, manual, accHdr, nmanual>>

-----------------------------------------------------------------------------

Next ==
    \/ Restart
    \/ \E b \in Blocks : DeliverBlock(b)
    \/ \E b \in Blocks : DeliverHeader(b)
    \/ \E m \in {"required", "ifneeded", "periodic"} : Flush(m)
    \/ \E b \in Blocks : Invalidate(b)
    \/ \E b \in Blocks : Reconsider(b)

Spec == Init /\ [][Next]_vars

-----------------------------------------------------------------------------
(* Invariants: implementation layer => property layer *)

TypeOK ==
    /\ Len(best) >= 1 /\ best[1] = G
    /\ \A i \in 2..Len(best) : parent[best[i]] = best[i-1]
    /\ Len(bestHdr) >= 1 /\ bestHdr[1] = G
    /\ \A i \in 2..Len(bestHdr) : parent[bestHdr[i]] = bestHdr[i-1]

\* C02: the active tip is a most-work chain of delivered, valid, not manually
\* invalidated blocks (ties: the one that was active first)
TipIsIdeal == Tip(best) \in exp.tips

\* C01: no flawed or manually invalidated block, and no descendant of one, is
\* ever in the active chain; every block of the active chain is stored
NoFlawOnBest == \A i \in 2..Len(best) : Flaw(best[i]) = "none" /\ best[i] \notin manual /\ idx[best[i]].data

\* C01: the verdict agrees with the rules: must-accept blocks are accepted,
\* must-refuse blocks are refused
VerdictOK ==
    /\ last.op = "block" =>
        /\ (exp.accept = "must" => (idx[last.b].data \/ last.b \in SeqToSet(orph)))
        /\ (exp.accept = "mustnot" => ~(idx[last.b].data \/ last.b \in SeqToSet(orph)) /\ ~Accepted(pred.ret))
        /\ (exp.accept = "dup" => pred.ret = "duplicate")
    /\ last.op = "header" =>
        /\ (exp.hdrAccept = "must" => pred.ret # "rej")
        /\ (exp.hdrAccept = "mustnot" => pred.ret = "rej")

\* C17: the best-header view is on a most-work chain of accepted headers
HdrIsIdeal == Tip(bestHdr) \in exp.hdrTips

\* C01: a flawless block with flawless, not manually invalidated ancestors is
\* never marked invalid, whatever the delivery order
NoPoison == \A b \in Blocks :
    (\A x \in Anc(b) : x = G \/ (Flaw(x) = "none" /\ x \notin manual)) => ~KnownInvalid(idx, b)

\* C02: the notification stream of the call transforms the previous chain
\* into the new one (checked on the prediction; the binder checks the real one)
\* C17: best header chain is made of indexed nodes
HdrOK == \A i \in 1..Len(bestHdr) : InIndex(idx, bestHdr[i])

\* C04/C02: loading the chain again changes nothing a caller can see: at
\* every quiescent point no stored, not-known-invalid branch has more work
\* than the tip, so the activation at load time is a no-op
RestartStable == Activate([S0 EXCEPT !.orph = <<>>]).best = best

\* orphans never have a stored parent at a quiescent point unless the parent
\* cannot accept children (invalid) or the orphan itself was refused and dropped
OrphansParked == \A i \in 1..Len(orph) : ~idx[orph[i]].data

=============================================================================
