---------------------------- MODULE ChainQueries ----------------------------
(***************************************************************************)
(* C17: every block-index query is DEFINED here by the naive walk of       *)
(* parent links over a block tree with a designated active chain.  There   *)
(* is no behaviour: every initial state is one (tree, active tip, query)   *)
(* case together with its answer; TLC enumerates the cases and checks the  *)
(* cross-definition lemmas below, the binder builds each tree on a real    *)
(* BlockChain and compares the real answer with `ans`.                     *)
(*                                                                         *)
(* Trees: SMALL = every BFS-canonical tree with N blocks; otherwise a tall *)
(* comb (main chain 1..H, one side chain of L blocks forking at height F)  *)
(* so that the locator's doubling steps and the skip list are exercised.   *)
(* The harness delivers Path(prio) first (it becomes active, all of it is  *)
(* validated), then Path(tip) -- whose blocks carry work 2, all others     *)
(* work 1 -- then the rest; Init only admits cases where tip then has      *)
(* strictly the most work, so the active chain is Path(tip) and exactly    *)
(* the blocks of Path(prio) and Path(tip) have been validated.             *)
(***************************************************************************)
EXTENDS Integers, Sequences, FiniteSets, TLC

CONSTANTS N, SMALL, H, F, L, KINDS

Nodes  == 0..N
Blocks == 1..N
G      == 0
U      == -1          \* a hash the node has never seen
Z      == -2          \* the all-zero hash

VARIABLES parent, tip, prio, q, ans
vars == <<parent, tip, prio, q, ans>>

RECURSIVE Height(_, _), Path(_, _)
Height(p, b) == IF b = G THEN 0 ELSE 1 + Height(p, p[b])
Path(p, b)   == IF b = G THEN <<G>> ELSE Append(Path(p, p[b]), b)
SeqToSet(s)  == {s[i] : i \in 1..Len(s)}
OnPath(p, t, b) == b \in SeqToSet(Path(p, t))
Work(p, t, b) == IF OnPath(p, t, b) THEN 2 ELSE 1
RECURSIVE WorkSum(_, _, _)
WorkSum(p, t, b) == IF b = G THEN 0 ELSE Work(p, t, b) + WorkSum(p, t, p[b])

\* naive ancestor: walk parent links until the height matches
RECURSIVE Ancestor(_, _, _)
Ancestor(p, b, h) == IF Height(p, b) = h THEN b ELSE Ancestor(p, p[b], h)

\* the active chain as a function height -> block
Chain(p, t) == Path(p, t)                  \* Chain[h+1] is the block at height h
AtHeight(p, t, h) == Chain(p, t)[h + 1]
TipH(p, t) == Height(p, t)

Min(a, b) == IF a < b THEN a ELSE b

\* --- locator-driven inventory ------------------------------------------------
\* the first locator entry (locators list the most recent block first) that is
\* on the active chain; genesis when none is
RECURSIVE StartOf(_, _, _)
StartOf(p, t, loc) ==
    IF loc = <<>> THEN G
    ELSE IF Head(loc) \in Nodes /\ OnPath(p, t, Head(loc)) THEN Head(loc)
    ELSE StartOf(p, t, Tail(loc))

Locate(p, t, loc, stop, max) ==
    IF loc = <<>> THEN (IF stop \in Nodes THEN <<stop>> ELSE <<>>)
    ELSE LET s    == Height(p, StartOf(p, t, loc)) + 1          \* first height wanted
             endH == IF stop \in Nodes /\ OnPath(p, t, stop) /\ Height(p, stop) >= s
                     THEN Height(p, stop) ELSE TipH(p, t)
             e    == Min(endH, s + max - 1)
         IN [i \in 1..(IF e >= s THEN e - s + 1 ELSE 0) |-> AtHeight(p, t, s + i - 1)]

\* --- height ranges --------------------------------------------------------------
HeightRange(p, t, s, e) ==
    IF s < 0 \/ e < s THEN [ok |-> FALSE, seq |-> <<>>]
    ELSE LET e2 == Min(e, TipH(p, t) + 1)
         IN [ok |-> TRUE, seq |-> [i \in 1..(IF e2 > s THEN e2 - s ELSE 0) |-> AtHeight(p, t, s + i - 1)]]

\* blocks validated so far: the two chains that were active
Validated(p, t, pr) == SeqToSet(Path(p, t)) \cup SeqToSet(Path(p, pr))

HeightToHashRange(p, t, pr, s, end, max) ==
    IF end \notin Nodes \/ end \notin Validated(p, t, pr) THEN [ok |-> FALSE, seq |-> <<>>]
    ELSE LET eh == Height(p, end)
         IN IF s < 0 \/ s > eh \/ eh - s + 1 > max THEN [ok |-> FALSE, seq |-> <<>>]
            ELSE [ok |-> TRUE, seq |-> [i \in 1..(eh - s + 1) |-> Ancestor(p, end, s + i - 1)]]

IntervalHashes(p, t, pr, end, iv) ==
    IF end \notin Nodes \/ end \notin Validated(p, t, pr) THEN [ok |-> FALSE, seq |-> <<>>]
    ELSE [ok |-> TRUE, seq |-> [i \in 1..(Height(p, end) \div iv) |-> Ancestor(p, end, i * iv)]]

\* --- block locator (as in the reference client): emit the height, step back by
\* `step`, and double the step once more than 10 entries have been emitted;
\* always ends with genesis
RECURSIVE LocHeights(_, _, _)
LocHeights(h, step, n) ==
    IF h <= 0 THEN <<0>>
    ELSE <<h>> \o LocHeights(h - step, IF n + 1 > 10 THEN step * 2 ELSE step, n + 1)
Locator(p, b) == LET hs == LocHeights(Height(p, b), 1, 0)
                 IN [i \in 1..Len(hs) |-> Ancestor(p, b, hs[i])]

\* --- fork point -------------------------------------------------------------------
RECURSIVE ForkOf(_, _, _)
ForkOf(p, t, b) == IF OnPath(p, t, b) THEN b ELSE ForkOf(p, t, p[b])

-----------------------------------------------------------------------------
TreeOK(p) == /\ \A b \in Blocks : p[b] < b
             /\ \A b \in 1..(N-1) : p[b] <= p[b+1]
Comb == [b \in Blocks |-> IF b <= H THEN b - 1 ELSE IF b = H + 1 THEN F ELSE b - 1]

Trees == IF SMALL THEN {p \in [Blocks -> Nodes] : TreeOK(p)} ELSE {Comb}

\* tip strictly heaviest => the active chain is Path(tip) whatever the order
TipWins(p, t) == \A x \in Nodes : OnPath(p, t, x) \/ WorkSum(p, t, x) < WorkSum(p, t, t)

Hashes == Nodes \cup {U}
Locs(p) ==
    IF SMALL
    THEN {<<>>} \cup {<<x>> : x \in Hashes} \cup {<<x, y>> : x \in Hashes, y \in Nodes}
    ELSE {<<>>} \cup {Locator(p, x) : x \in Nodes} \cup {<<U>> \o Locator(p, x) : x \in {H, N}}
Maxes == IF SMALL THEN {1, 2, 100} ELSE {1, 3, 2000}
StopSet == IF SMALL THEN Nodes \cup {U, Z} ELSE {1, F, F + 1, H - 1, H, N, U, Z} \cap (Nodes \cup {U, Z})
HeightArgs == IF SMALL THEN (-1)..(N + 2) ELSE {-1, 0, 1, F, F + 1, H - 1, H, H + 1, H + 3}
IntervalArgs == IF SMALL THEN 1..3 ELSE {1, 2, 3, 7, 10, H}
EndSet == IF SMALL THEN Hashes ELSE {0, 1, F, F + 1, H - 1, H, N, U} \cap Hashes

Queries(p, t, pr) ==
    (IF "locate" \in KINDS THEN
        {[kind |-> "locate", loc |-> l, stop |-> s, max |-> m, a |-> 0, b |-> 0] :
            l \in Locs(p), s \in StopSet, m \in Maxes} ELSE {})
    \cup (IF "hrange" \in KINDS THEN
        {[kind |-> "hrange", loc |-> <<>>, stop |-> 0, max |-> 0, a |-> s, b |-> e] :
            s \in HeightArgs, e \in HeightArgs} ELSE {})
    \cup (IF "h2h" \in KINDS THEN
        {[kind |-> "h2h", loc |-> <<>>, stop |-> e, max |-> m, a |-> s, b |-> 0] :
            s \in HeightArgs, e \in EndSet, m \in Maxes} ELSE {})
    \cup (IF "interval" \in KINDS THEN
        {[kind |-> "interval", loc |-> <<>>, stop |-> e, max |-> 0, a |-> iv, b |-> 0] :
            e \in EndSet, iv \in IntervalArgs} ELSE {})
    \cup (IF "locator" \in KINDS THEN
        {[kind |-> "locator", loc |-> <<>>, stop |-> x, max |-> 0, a |-> 0, b |-> 0] : x \in Nodes} ELSE {})
    \cup (IF "fork" \in KINDS THEN
        {[kind |-> "fork", loc |-> <<>>, stop |-> x, max |-> 0, a |-> 0, b |-> 0] : x \in Nodes} ELSE {})

Answer(p, t, pr, qq) ==
    CASE qq.kind = "locate"   -> [ok |-> TRUE, seq |-> Locate(p, t, qq.loc, qq.stop, qq.max)]
      [] qq.kind = "hrange"   -> HeightRange(p, t, qq.a, qq.b)
      [] qq.kind = "h2h"      -> HeightToHashRange(p, t, pr, qq.a, qq.stop, qq.max)
      [] qq.kind = "interval" -> IntervalHashes(p, t, pr, qq.stop, qq.a)
      [] qq.kind = "locator"  -> [ok |-> TRUE, seq |-> Locator(p, qq.stop)]
      [] qq.kind = "fork"     -> [ok |-> TRUE, seq |-> <<ForkOf(p, t, qq.stop)>>]

TipsOf(p) == {t \in Nodes : TipWins(p, t) /\ (SMALL \/ t \in {H, N})}
PriosOf(p, t) == {pr \in Nodes : (pr = t \/ ~OnPath(p, t, pr)) /\ (SMALL \/ pr \in {H, N})}

Init ==
    /\ parent \in Trees
    /\ tip \in TipsOf(parent)
    /\ prio \in PriosOf(parent, tip)
    /\ q \in Queries(parent, tip, prio)
    /\ ans = Answer(parent, tip, prio, q)

Next == UNCHANGED vars

-----------------------------------------------------------------------------
(* Lemmas TLC checks on every case: the definitions are mutually consistent. *)

\* consecutive: every answer sequence follows parent links
Consecutive(s) == \A i \in 2..Len(s) : parent[s[i]] = s[i-1]

LocateOK ==
    q.kind = "locate" /\ q.loc # <<>> =>
        /\ Consecutive(ans.seq)
        /\ Len(ans.seq) <= q.max
        /\ \A i \in 1..Len(ans.seq) : OnPath(parent, tip, ans.seq[i])
        /\ (ans.seq # <<>> => parent[ans.seq[1]] = StartOf(parent, tip, q.loc))
        /\ (q.stop \in Nodes => \A i \in 1..(Len(ans.seq) - 1) : ans.seq[i] # q.stop)   \* nothing after the stop hash

RangeOK ==
    q.kind \in {"hrange", "h2h"} /\ ans.ok => Consecutive(ans.seq)

LocatorOK ==
    q.kind = "locator" =>
        /\ ans.seq[1] = q.stop
        /\ ans.seq[Len(ans.seq)] = G
        /\ \A i \in 1..Len(ans.seq) : ans.seq[i] \in SeqToSet(Path(parent, q.stop))
        /\ \A i \in 2..Len(ans.seq) : Height(parent, ans.seq[i]) < Height(parent, ans.seq[i-1])

\* a locator sent back to the node that has the chain yields what follows its first entry
LocatorLocates ==
    q.kind = "locator" /\ OnPath(parent, tip, q.stop) =>
        Locate(parent, tip, ans.seq, Z, 100000) = SubSeq(Path(parent, tip), Height(parent, q.stop) + 2, Len(Path(parent, tip)))

ForkOK ==
    q.kind = "fork" => OnPath(parent, tip, ans.seq[1]) /\ ans.seq[1] \in SeqToSet(Path(parent, q.stop))

=============================================================================
