----------------------------- MODULE ChainStore -----------------------------
(***************************************************************************)
(* The chain state at DATABASE-COMMIT granularity (C04).  Every action is  *)
(* one durable commit (one db.Update of the blockchain package):           *)
(*   CStore      block data stored                                         *)
(*   CIndex      block-index rows (with status flags) written              *)
(*   CConnect    best state + height index + spend journal of one block    *)
(*   CFlush      utxo cache written, consistency marker := flushed tip     *)
(*   CDisconnect best state + height index - journal, forced flush, view   *)
(* plus Crash (everything in memory is lost, the durable state is whatever *)
(* the commits so far produced) and Recover (blockchain.New: load index,   *)
(* best state; replay blocks from the marker to the tip, flushing when     *)
(* the cache limit says so; then activate a stored better branch).         *)
(* A crash can happen between any two commits, including during Recover.   *)
(*                                                                         *)
(* The tree is fixed per configuration; which block is delivered next is   *)
(* nondeterministic.  The invariants are exactly what recovery needs: if   *)
(* they hold after every commit, every crash point is recoverable.         *)
(***************************************************************************)
EXTENDS Integers, Sequences, FiniteSets, TLC

CONSTANTS N, PARENT, LIMIT     \* PARENT: <<p1,..,pN>>; LIMIT \in {"always","never"}

Blocks == 1..N
Nodes  == 0..N
G      == 0
parent == PARENT

RECURSIVE Path(_), Height(_)
Path(b)   == IF b = G THEN <<G>> ELSE Append(Path(parent[b]), b)
Height(b) == IF b = G THEN 0 ELSE 1 + Height(parent[b])
PathSet(b) == {Path(b)[i] : i \in 1..Len(Path(b))}

VARIABLES
    \* durable
    dHave,      \* blocks whose data is stored
    dIdx,       \* blocks with an index row
    dBest,      \* tip named by the best-state record
    dHeights,   \* blocks in the height<->hash index
    dJournal,   \* blocks with a spend-journal entry
    dMarker,    \* utxo consistency marker
    dUtxoAt,    \* the block whose fold the on-disk utxo set equals
    \* volatile
    up,         \* process is running
    best,       \* in-memory active tip
    cacheAt,    \* the in-memory utxo view (cache over disk) equals the fold of this block
    pc,         \* what the running call does next: <<>> or a sequence of pending commits
    everBest    \* history: tips ever named by a durable best state or being connected

dvars == <<dHave, dIdx, dBest, dHeights, dJournal, dMarker, dUtxoAt>>
vars  == <<dHave, dIdx, dBest, dHeights, dJournal, dMarker, dUtxoAt, up, best, cacheAt, pc, everBest>>

Init ==
    /\ dHave = {G} /\ dIdx = {G} /\ dBest = G /\ dHeights = {G} /\ dJournal = {}
    /\ dMarker = G /\ dUtxoAt = G
    /\ up = TRUE /\ best = G /\ cacheAt = G /\ pc = <<>> /\ everBest = {G}

\* ---- the commit sequence of one ProcessBlock(b) call is decided when the call starts
\* (extend the tip, side chain, or reorganisation to b's branch)
RECURSIVE ForkOf(_, _)
ForkOf(t, b) == IF b \in PathSet(t) THEN b ELSE ForkOf(t, parent[b])
After(f, b) == SubSeq(Path(b), Height(f) + 2, Len(Path(b)))
Rev(s) == [i \in 1..Len(s) |-> s[Len(s) + 1 - i]]

ConnectSteps(b) == IF LIMIT = "always" THEN <<[c |-> "connect", b |-> b], [c |-> "flush", b |-> b]>>
                   ELSE <<[c |-> "connect", b |-> b]>>
RECURSIVE ConnectAll(_)
ConnectAll(s) == IF s = <<>> THEN <<>> ELSE ConnectSteps(Head(s)) \o ConnectAll(Tail(s))

Plan(b) ==
    LET store == <<[c |-> "store", b |-> b], [c |-> "index", b |-> b]>>
    IN IF parent[b] = best THEN store \o ConnectSteps(b)
       ELSE IF Height(b) <= Height(best) THEN store
       ELSE LET f == ForkOf(best, b)
                det == Rev(After(f, best))
            IN store \o [i \in 1..Len(det) |-> [c |-> "disconnect", b |-> det[i]]] \o ConnectAll(After(f, b))

Deliver(b) ==
    /\ up /\ pc = <<>>
    /\ b \notin dIdx /\ parent[b] \in dIdx     \* known = indexed; a block stored but not yet indexed when the process died is simply delivered again
    /\ pc' = Plan(b)
    /\ UNCHANGED <<dvars, up, best, cacheAt, everBest>>

ManualFlush ==
    /\ up /\ pc = <<>> /\ cacheAt # dUtxoAt
    /\ pc' = <<[c |-> "flush", b |-> best]>>
    /\ UNCHANGED <<dvars, up, best, cacheAt, everBest>>

\* ---- one commit
Commit ==
    /\ up /\ pc # <<>>
    /\ Head(pc).c \notin {"replay", "replayflush"}
    /\ LET s == Head(pc) IN
       /\ pc' = Tail(pc)
       /\ CASE s.c = "store" ->
                 /\ dHave' = dHave \cup {s.b}
                 /\ UNCHANGED <<dIdx, dBest, dHeights, dJournal, dMarker, dUtxoAt, best, cacheAt, everBest>>
            [] s.c = "index" ->
                 /\ dIdx' = dIdx \cup {s.b}
                 /\ UNCHANGED <<dHave, dBest, dHeights, dJournal, dMarker, dUtxoAt, best, cacheAt, everBest>>
            [] s.c = "connect" ->
                 /\ dBest' = s.b /\ dHeights' = dHeights \cup {s.b} /\ dJournal' = dJournal \cup {s.b}
                 /\ best' = s.b /\ cacheAt' = s.b /\ everBest' = everBest \cup {s.b}
                 /\ UNCHANGED <<dHave, dIdx, dMarker, dUtxoAt>>
            [] s.c = "flush" ->
                 /\ dMarker' = s.b /\ dUtxoAt' = cacheAt
                 /\ UNCHANGED <<dHave, dIdx, dBest, dHeights, dJournal, best, cacheAt, everBest>>
            [] s.c = "disconnect" ->
                 /\ dBest' = parent[s.b] /\ dHeights' = dHeights \ {s.b} /\ dJournal' = dJournal \ {s.b}
                 /\ dMarker' = parent[s.b] /\ dUtxoAt' = parent[s.b]      \* forced flush + view write in the same commit
                 /\ best' = parent[s.b] /\ cacheAt' = parent[s.b]
                 /\ UNCHANGED <<dHave, dIdx, everBest>>
    /\ UNCHANGED up

Crash ==
    /\ up
    /\ up' = FALSE /\ pc' = <<>> /\ best' = G /\ cacheAt' = G
    /\ UNCHANGED <<dvars, everBest>>

\* blockchain.New on the durable state: replay from the marker to the best tip
\* (flush commits as the limit dictates), then activate a stored, heavier branch
BetterStored ==
    {c \in dHave \cap dIdx : PathSet(c) \subseteq (dHave \cap dIdx) /\ Height(c) > Height(dBest)}
Recover ==
    /\ ~up
    /\ up' = TRUE /\ best' = dBest /\ cacheAt' = dUtxoAt
    /\ LET replay == After(dMarker, dBest)
           rsteps == IF LIMIT = "always" THEN [i \in 1..Len(replay) |-> [c |-> "replayflush", b |-> replay[i]]]
                     ELSE [i \in 1..Len(replay) |-> [c |-> "replay", b |-> replay[i]]]
       IN pc' = rsteps
    /\ UNCHANGED <<dvars, everBest>>

\* replay of one block into the cache during recovery (a commit only when it flushes)
ReplayStep ==
    /\ up /\ pc # <<>> /\ Head(pc).c \in {"replay", "replayflush"}
    /\ cacheAt' = Head(pc).b
    /\ IF Head(pc).c = "replayflush"
       THEN dMarker' = Head(pc).b /\ dUtxoAt' = Head(pc).b
       ELSE UNCHANGED <<dMarker, dUtxoAt>>
    /\ pc' = Tail(pc)
    /\ UNCHANGED <<dHave, dIdx, dBest, dHeights, dJournal, up, best, everBest>>

\* after recovery: connect the stored branch with the most work, if heavier
ActivateStored ==
    /\ up /\ pc = <<>> /\ BetterStored # {} /\ best = dBest /\ cacheAt = dBest
    /\ \E c \in BetterStored :
          /\ \A x \in BetterStored : Height(x) <= Height(c)
          /\ LET f == ForkOf(best, c)
                 det == Rev(After(f, best))
             IN pc' = [i \in 1..Len(det) |-> [c |-> "disconnect", b |-> det[i]]] \o ConnectAll(After(f, c))
    /\ UNCHANGED <<dvars, up, best, cacheAt, everBest>>

Next == (\E b \in Blocks : Deliver(b)) \/ ManualFlush
        \/ Commit
        \/ ReplayStep \/ Crash \/ Recover \/ ActivateStored

Spec == Init /\ [][Next]_vars

-----------------------------------------------------------------------------
(* Recoverability invariants: evaluated after every commit, i.e. at every   *)
(* crash point.  TraceChainStore evaluates the same predicates on the       *)
(* durable state reconstructed from the commits of the real code.           *)

RowsHaveData   == dIdx \subseteq dHave
TipIndexed     == PathSet(dBest) \subseteq (dIdx \cap dHave)
MarkerOnBest   == dMarker \in PathSet(dBest)
UtxoAtMarker   == dUtxoAt = dMarker
HeightsAreBest == dHeights = PathSet(dBest)
JournalIsBest  == dJournal = PathSet(dBest) \ {G}
TipWasActive   == dBest \in everBest
Recoverable    == RowsHaveData /\ TipIndexed /\ MarkerOnBest /\ UtxoAtMarker /\ HeightsAreBest /\ JournalIsBest /\ TipWasActive

\* after recovery finished (nothing pending) the in-memory view is the fold of the tip
RecoveredExact == (up /\ pc = <<>>) => (best = dBest /\ cacheAt = best)

=============================================================================
