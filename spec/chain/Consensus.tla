----------------------------- MODULE Consensus -----------------------------
(***************************************************************************)
(* The consensus-rule catalogue behind C01.  Chain.tla abstracts a block's *)
(* defect to the pipeline STAGE at which it surfaces:                      *)
(*   sanity  - context-free checks of ProcessBlock: refused, not stored,   *)
(*             may be offered again;                                       *)
(*   context - HEADER checks against the parent chain: refused, not stored, *)
(*             and the bare header is refused by header-first delivery;    *)
(*   bcontext- checks of the block's transactions against the parent chain *)
(*             before storing: refused, not stored; the header alone passes;*)
(*   connect - checks when the block is connected or verified for a        *)
(*             reorganisation: stored and indexed, marked failed the first *)
(*             time connection is attempted, descendants invalid.          *)
(* This module lists the concrete rules, the stage of each and whether a   *)
(* boundary pair exists (edge = TRUE: the binder also builds the VALID     *)
(* block that sits exactly on the limit).  The binder's factory realises   *)
(* every entry as a real block that violates exactly that rule; the check  *)
(* compares its table with this one before replaying.                      *)
(***************************************************************************)
EXTENDS TLC

VARIABLE cat

Rules == {
  [name |-> "bad-merkle-root",                   stage |-> "sanity",  edge |-> FALSE],
  [name |-> "hash-above-target",                 stage |-> "sanity",  edge |-> FALSE],
  [name |-> "time-too-new",                      stage |-> "sanity",  edge |-> TRUE],   \* now + 2h / + 2h 1s
  [name |-> "no-transactions",                   stage |-> "sanity",  edge |-> FALSE],
  [name |-> "first-tx-not-coinbase",             stage |-> "sanity",  edge |-> FALSE],
  [name |-> "second-coinbase",                   stage |-> "sanity",  edge |-> FALSE],
  [name |-> "duplicate-transaction",             stage |-> "sanity",  edge |-> FALSE],  \* CVE-2012-2459 shape
  [name |-> "tx-without-outputs",                stage |-> "sanity",  edge |-> FALSE],
  [name |-> "tx-negative-output",                stage |-> "sanity",  edge |-> FALSE],
  [name |-> "tx-output-above-max-money",         stage |-> "sanity",  edge |-> FALSE],
  [name |-> "tx-duplicate-inputs",               stage |-> "sanity",  edge |-> FALSE],
  [name |-> "coinbase-script-too-short",         stage |-> "sanity",  edge |-> TRUE],   \* 1 / 2 bytes
  [name |-> "coinbase-script-too-long",          stage |-> "sanity",  edge |-> TRUE],   \* 101 / 100 bytes
  [name |-> "too-many-sigops",                   stage |-> "sanity",  edge |-> TRUE],   \* 80004 / 80000 cost
  [name |-> "non-coinbase-null-input",           stage |-> "sanity",  edge |-> FALSE],
  [name |-> "tx-total-output-above-max-money",   stage |-> "sanity",  edge |-> FALSE],  \* each output within range, the sum is not
  [name |-> "block-too-big",                     stage |-> "sanity",  edge |-> TRUE],   \* 1,000,001 / 1,000,000 bytes without witness data
  [name |-> "time-not-after-median-time-past",   stage |-> "context", edge |-> TRUE],   \* MTP / MTP + 1
  [name |-> "unexpected-difficulty",             stage |-> "context", edge |-> FALSE],
  [name |-> "block-version-too-old",             stage |-> "context", edge |-> TRUE],   \* BIP34/66/65 in force at the height: version 1/2/3 refused, 2/3/4 admitted
  [name |-> "unfinalized-transaction",           stage |-> "bcontext", edge |-> TRUE],   \* lock time = height / height - 1
  [name |-> "unexpected-witness",                stage |-> "bcontext", edge |-> FALSE],
  [name |-> "bad-witness-commitment",            stage |-> "bcontext", edge |-> FALSE],
  [name |-> "witness-commitment-not-last",       stage |-> "bcontext", edge |-> TRUE],   \* right commitment followed by a wrong one / preceded by a wrong one
  [name |-> "bad-coinbase-height",               stage |-> "bcontext", edge |-> FALSE],  \* BIP34 (valid blocks carry the exact height)
  [name |-> "coinbase-witness-nonce-bad",        stage |-> "bcontext", edge |-> FALSE],  \* reserved value of 31 bytes
  [name |-> "block-weight-too-big",              stage |-> "bcontext", edge |-> TRUE],   \* weight 4,000,001 / 4,000,000 with witness data
  [name |-> "coinbase-pays-too-much",            stage |-> "connect", edge |-> FALSE],  \* subsidy + fees + 1 (valid blocks claim subsidy + fees exactly)
  [name |-> "missing-input",                     stage |-> "connect", edge |-> FALSE],
  [name |-> "double-spend-in-block",             stage |-> "connect", edge |-> FALSE],
  [name |-> "immature-coinbase-spend",           stage |-> "connect", edge |-> FALSE],  \* depth maturity - 1 (valid spends use depth >= maturity)
  [name |-> "outputs-exceed-inputs",             stage |-> "connect", edge |-> FALSE],
  [name |-> "script-evaluates-false",            stage |-> "connect", edge |-> FALSE],
  [name |-> "bip30-overwrites-unspent-coinbase", stage |-> "connect", edge |-> FALSE],  \* valid blocks re-create only fully spent coinbases
  [name |-> "sequence-lock-not-met",             stage |-> "connect", edge |-> TRUE],   \* BIP68: needs 2 / 1 confirmations, has 1
  [name |-> "sequence-time-lock-not-met",        stage |-> "connect", edge |-> TRUE],   \* BIP68 time lock: d/512 + 1 / d/512 units, d = MTP(parent) - MTP(before the input's block)
  [name |-> "too-many-sigops-p2sh",              stage |-> "connect", edge |-> TRUE],   \* 79960 legacy + 44 redeem-script cost / 79956 + 44
  \* which script-verification behaviour is in force at a height: the invalid
  \* spend is refused where the behaviour is in force; the edge is the spend
  \* that is valid (requirement met exactly, or the behaviour not in force)
  [name |-> "p2sh-redeem-script-false",          stage |-> "connect", edge |-> FALSE],  \* BIP16
  [name |-> "non-der-signature",                 stage |-> "connect", edge |-> TRUE],   \* BIP66 in force / not in force
  [name |-> "cltv-not-met",                      stage |-> "connect", edge |-> TRUE],   \* BIP65: lock time 1 / 2 against a required 2; any when not in force
  [name |-> "csv-not-met",                       stage |-> "connect", edge |-> TRUE],   \* BIP112: sequence 1 / 2 against a required 2
  [name |-> "multisig-dummy-not-null",           stage |-> "connect", edge |-> TRUE],   \* BIP147: dummy 0x01 / empty
  [name |-> "witness-script-false",              stage |-> "connect", edge |-> FALSE],  \* BIP141
  [name |-> "witness-program-mismatch",          stage |-> "connect", edge |-> TRUE],   \* BIP141: wrong / right witness script for the committed hash
  [name |-> "taproot-uncommitted-script-path",   stage |-> "connect", edge |-> FALSE],  \* BIP341: revealed OP_SUCCESS leaf, control block not committing to the output key
  [name |-> "witness-checksig-undecodable-key",  stage |-> "connect", edge |-> TRUE],   \* valid side only: key in compressed format that is no curve point => the check is false, never an error
  [name |-> "taproot-bad-signature",             stage |-> "connect", edge |-> FALSE]   \* BIP341 key path
}

Stages == {"sanity", "context", "bcontext", "connect"}

Init == cat = Rules
Next == UNCHANGED cat

WellFormed == /\ \A r \in cat : r.stage \in Stages
              /\ \A r1, r2 \in cat : r1.name = r2.name => r1 = r2
              /\ \A s \in Stages : \E r \in cat : r.stage = s
=============================================================================
