CONSTANTS
 N = 3
 WORKS = {1,2}
 FLAWS = {"sanity","context","connect"}
 HEADERS = TRUE
 MANUAL = 1
 FLUSH = FALSE
 DUPS = FALSE
INIT Init
NEXT Next
INVARIANTS TypeOK TipIsIdeal NoFlawOnBest VerdictOK NoPoison HdrOK HdrIsIdeal OrphansParked
