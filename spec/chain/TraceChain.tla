----------------------------- MODULE TraceChain -----------------------------
(***************************************************************************)
(* Code -> spec direction for C02: executions of the REAL chain code --     *)
(* the repository's own tests (fullblocktests and the chain tests) run with *)
(* -tags verif -- emit one event per stored block, index status change and  *)
(* tip change, plus a "quiescent" marker whenever a public mutating call    *)
(* starts (the state the previous calls left is then complete).  This       *)
(* module rebuilds the block tree, the node's own validity flags and the    *)
(* active tip from the events and evaluates, at every quiescent point, the  *)
(* chain-selection property in the form the node can be held to on its own  *)
(* knowledge: no stored block that the node does not consider invalid has   *)
(* strictly more cumulative work than the active tip, the tip's own branch  *)
(* is stored and not invalid, and the tip only ever moves to a child or to   *)
(* the parent of the previous tip.  Hashes are mapped to 1..n and cumulative *)
(* work to its rank by the binder (order is all that matters).              *)
(***************************************************************************)
EXTENDS Integers, Sequences, FiniteSets, TLC, Json

Trace == ndJsonDeserialize("chaintrace.ndjson")

VARIABLES l, par, work, inv, data, tip, q
vars == <<l, par, work, inv, data, tip, q>>

Known == DOMAIN par

RECURSIVE InvalidPath(_)
InvalidPath(c) == IF c \notin Known \/ c = 0 THEN FALSE
                  ELSE c \in inv \/ InvalidPath(par[c])
RECURSIVE StoredPath(_)
StoredPath(c) == IF c = 0 THEN TRUE
                 ELSE IF c \notin Known THEN FALSE
                 ELSE c \in data /\ StoredPath(par[c])

Init == /\ l = 1 /\ par = [x \in {0} |-> 0] /\ work = [x \in {0} |-> 0]
        /\ inv = {} /\ data = {0} /\ tip = 0 /\ q = FALSE

Step ==
    /\ l <= Len(Trace)
    /\ l' = l + 1
    /\ LET e == Trace[l] IN
       CASE e.ev = "reset" ->
              /\ par' = [x \in {0} |-> 0] /\ work' = [x \in {0} |-> e.work]
              /\ inv' = {} /\ data' = {0} /\ tip' = 0 /\ q' = FALSE
         [] e.ev = "stored" ->
              /\ par' = [x \in Known \cup {e.id} |-> IF x = e.id THEN e.parent ELSE par[x]]
              /\ work' = [x \in Known \cup {e.id} |-> IF x = e.id THEN e.work ELSE work[x]]
              /\ data' = data \cup {e.id}
              /\ inv' = IF e.invalid THEN inv \cup {e.id} ELSE inv \ {e.id}
              /\ q' = FALSE /\ UNCHANGED tip
         [] e.ev = "status" ->
              /\ inv' = IF e.invalid THEN inv \cup {e.id} ELSE inv \ {e.id}
              /\ data' = IF e.hasdata THEN data \cup {e.id} ELSE data \ {e.id}
              /\ q' = FALSE /\ UNCHANGED <<par, work, tip>>
         [] e.ev = "tip" ->
              /\ tip' = e.id /\ q' = FALSE /\ UNCHANGED <<par, work, inv, data>>
         [] e.ev = "quiescent" ->
              /\ q' = TRUE /\ UNCHANGED <<par, work, inv, data, tip>>

Spec == Init /\ [][Step]_vars

\* C02 at quiescent points, on the node's own validity knowledge
TipIsBest ==
    q => \A c \in Known : (c \in data /\ StoredPath(c) /\ work[c] > work[tip]) => InvalidPath(c)
TipValid == q => (StoredPath(tip) /\ ~InvalidPath(tip))
\* the active chain changes one block at a time
TipStepOK == [][tip' # tip /\ Trace[l].ev = "tip" => (par[tip'] = tip \/ par[tip] = tip')]_vars

Accepted == TLCGet("stats").diameter - 1 = Len(Trace)
=============================================================================
