-------------------------- MODULE TraceChainStore --------------------------
(***************************************************************************)
(* Code -> spec direction for C04.  The binder wraps the database handed   *)
(* to the real BlockChain and records every durable commit (what was       *)
(* stored, which index rows / best state / height index / spend journal /  *)
(* consistency marker were written, and -- read back from the database --  *)
(* which block's fold the on-disk utxo set equals).  This module rebuilds  *)
(* ChainStore's durable state from those records and evaluates ChainStore's*)
(* recoverability invariants after EVERY commit, i.e. at every crash point *)
(* of the recorded executions.  Several workloads for the same tree are    *)
(* concatenated; a "reset" record starts the next one.                     *)
(***************************************************************************)
EXTENDS ChainStore, Json

Trace == ndJsonDeserialize("trace.ndjson")

VARIABLE l

ToSet(s) == {s[i] : i \in 1..Len(s)}

TraceInit == Init /\ l = 1

ApplyReset ==
    /\ dHave' = {G} /\ dIdx' = {G} /\ dBest' = G /\ dHeights' = {G} /\ dJournal' = {}
    /\ dMarker' = G /\ dUtxoAt' = G /\ everBest' = {G}

ApplyCommit(e) ==
    /\ dHave' = dHave \cup ToSet(e.stored)
    /\ dIdx' = dIdx \cup ToSet(e.idx)
    /\ dBest' = IF e.best >= 0 THEN e.best ELSE dBest
    /\ dHeights' = (dHeights \cup ToSet(e.hadd)) \ ToSet(e.hdel)
    /\ dJournal' = (dJournal \cup ToSet(e.jadd)) \ ToSet(e.jdel)
    /\ dMarker' = IF e.marker >= 0 THEN e.marker ELSE dMarker
    /\ dUtxoAt' = e.utxoAt
    /\ everBest' = everBest \cup (IF e.best >= 0 THEN {e.best} ELSE {}) \cup ToSet(e.connecting)

TraceNext ==
    /\ l <= Len(Trace)
    /\ l' = l + 1
    /\ IF Trace[l].ev = "reset" THEN ApplyReset ELSE ApplyCommit(Trace[l])
    /\ UNCHANGED <<up, best, cacheAt, pc>>

TraceSpec == TraceInit /\ [][TraceNext]_<<vars, l>>

\* every record was consumed
TraceAccepted == TLCGet("stats").diameter - 1 = Len(Trace)

\* -1 = the on-disk utxo set is not the fold of any block of the tree
UtxoIsAFold == dUtxoAt >= 0
=============================================================================
