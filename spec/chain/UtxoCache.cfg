CONSTANTS
 K = 2
 D = 4
 MAXOPS = 7
INIT Init
NEXT Next
INVARIANTS Coherent FlushedExact HistOK
