----------------------------- MODULE UtxoCache -----------------------------
(***************************************************************************)
(* The write-back UTXO cache of btcd (blockchain/utxocache.go) in front of *)
(* the on-disk utxo bucket, driven by a linear chain whose tip can be      *)
(* disconnected again (C03).                                               *)
(*                                                                         *)
(* A coin is an outpoint that can be created more than once: the coinbase  *)
(* of block template c (while BIP34 is inactive two blocks may carry the   *)
(* byte-identical coinbase, BIP30 only demands that the earlier one is     *)
(* fully spent).  Every block creates one coin (cb = 0: a coinbase that is *)
(* unique to the block and not tracked) and spends a set of coins.         *)
(*                                                                         *)
(* Actions follow the code: Fetch (cache miss loads from disk, absent is   *)
(* cached as an explicit nil), Connect (BIP30 pre-fetch of the created     *)
(* outpoint, input fetch, addTxOut, addTxIn, FlushIfNeeded with the cache  *)
(* limit), Flush (writeCache), Disconnect (input fetch, FlushRequired,     *)
(* direct write of the disconnect view).                                   *)
(* Property: what the node reports for every coin -- through the cache --  *)
(* equals the fold of the active chain (truth), and after a flush the      *)
(* disk equals it too.                                                     *)
(***************************************************************************)
EXTENDS Integers, Sequences, FiniteSets, TLC

CONSTANTS
    \* @type: Int;
    K,        \* number of re-creatable coins
    \* @type: Int;
    D,        \* maximum chain height
    \* @type: Int;
    MAXOPS    \* bound on the number of actions in a behaviour

Coins == 1..K

\* Type annotations are for Apalache (IndInv below); TLC ignores them.
VARIABLES
    \* @typeAlias: entry = {kind: Str, h: Int, spent: Bool, fresh: Bool, mod: Bool};
    \* @typeAlias: blk = {cb: Int, spends: Set(Int), spentH: Int -> Int};
    \* @type: Str;
    limit,    \* "always": cache limit 0 (FlushIfNeeded flushes after every block); "never": huge limit
    \* @type: Int -> Int;
    truth,    \* truth[c]: 0 = not in the UTXO set, h > 0 = unspent, created at height h
    \* @type: Int -> Int;
    disk,     \* same domain: the utxo bucket
    \* @type: Int -> $entry;
    cache,    \* cache[c]: [kind |-> "none" | "nil" | "entry", h, spent, fresh, mod]
    \* @type: Seq($blk);
    hist,     \* the active chain above genesis: sequence of [cb, spends, spentH]
    \* @type: Int;
    nops,
    \* @type: {op: Str, cb: Int, spends: Set(Int), c: Int};
    last      \* the call just made

vars == <<limit, truth, disk, cache, hist, nops, last>>

\* @type: $entry;
None   == [kind |-> "none", h |-> 0, spent |-> FALSE, fresh |-> FALSE, mod |-> FALSE]
\* @type: $entry;
NilE   == [kind |-> "nil", h |-> 0, spent |-> FALSE, fresh |-> FALSE, mod |-> FALSE]
\* @type: (Int, Bool, Bool) => $entry;
Entry(h, fresh, mod) == [kind |-> "entry", h |-> h, spent |-> FALSE, fresh |-> fresh, mod |-> mod]

\* fetchEntries for one outpoint
\* @type: (Int -> $entry, Int -> Int, Int) => (Int -> $entry);
FetchC(cch, dsk, c) ==
    IF cch[c].kind # "none" THEN cch
    ELSE [cch EXCEPT ![c] = IF dsk[c] = 0 THEN NilE ELSE Entry(dsk[c], FALSE, FALSE)]

\* what FetchUtxoEntry reports (0 = no unspent entry) -- it fetches first
\* @type: (Int -> $entry, Int -> Int, Int) => Int;
View(cch, dsk, c) ==
    LET e == FetchC(cch, dsk, c)[c]
    IN IF e.kind = "entry" /\ ~e.spent THEN e.h ELSE 0

\* writeCache
\* @type: (Int -> $entry, Int -> Int) => (Int -> Int);
FlushD(cch, dsk) ==
    [c \in Coins |->
        IF cch[c].kind = "none" THEN dsk[c]
        ELSE IF cch[c].kind = "nil" \/ cch[c].spent THEN 0
        ELSE IF ~cch[c].mod THEN dsk[c]
        ELSE cch[c].h]
\* @type: Int -> $entry;
Empty == [c \in Coins |-> None]

\* addTxIn on a fetched entry: fresh entries are dropped, others stay as
\* spent+modified so that the flush deletes them from disk
\* @type: (Int -> $entry, Int) => (Int -> $entry);
SpendC(cch, c) ==
    IF cch[c].fresh THEN [cch EXCEPT ![c] = None]
    ELSE [cch EXCEPT ![c].spent = TRUE, ![c].mod = TRUE]

\* addTxOut: the new entry is modified; it is fresh (unknown to the disk)
\* unless the cache holds a non-fresh entry for the outpoint, whose on-disk
\* copy must still be overwritten or deleted by the next flush
\* @type: (Int -> $entry, Int, Int) => (Int -> $entry);
AddC(cch, c, h) ==
    [cch EXCEPT ![c] = Entry(h, ~(cch[c].kind = "entry" /\ ~cch[c].fresh), TRUE)]

\* several outpoints at once: the per-outpoint operations touch only their own
\* cache slot, so the order in which the code walks the inputs does not matter
\* @type: (Int -> $entry, Set(Int)) => (Int -> $entry);
SpendAll(cch, S) == [c \in Coins |-> IF c \in S THEN SpendC(cch, c)[c] ELSE cch[c]]
\* @type: (Int -> $entry, Int -> Int, Set(Int)) => (Int -> $entry);
FetchAll(cch, dsk, S) == [c \in Coins |-> IF c \in S THEN FetchC(cch, dsk, c)[c] ELSE cch[c]]

Height == Len(hist)

Init ==
    /\ limit \in {"always", "never"}
    /\ truth = [c \in Coins |-> 0]
    /\ disk = [c \in Coins |-> 0]
    /\ cache = Empty
    /\ hist = <<>>
    /\ nops = 0
    /\ last = [op |-> "init", cb |-> 0, spends |-> {}, c |-> 0]

\* ProcessBlock of a valid block extending the tip
Connect(cb, S) ==
    /\ Height < D
    /\ nops < MAXOPS
    /\ cb \notin S
    /\ (cb # 0 => truth[cb] = 0)                       \* BIP30: only fully spent coinbases may be re-created
    /\ \A s \in S : truth[s] # 0 /\ truth[s] < Height + 1   \* inputs exist and are mature (maturity 1)
    /\ LET h  == Height + 1
           c1 == FetchAll(cache, disk, (IF cb = 0 THEN {} ELSE {cb}) \cup S)   \* checkConnectBlock: BIP30 + input fetch
           c2 == IF cb = 0 THEN c1 ELSE AddC(c1, cb, h)                        \* coinbase outputs first
           c3 == SpendAll(c2, S)
           fl == limit = "always"
       IN /\ cache' = IF fl THEN Empty ELSE c3
          /\ disk' = IF fl THEN FlushD(c3, disk) ELSE disk
          /\ truth' = [c \in Coins |-> IF c = cb THEN h ELSE IF c \in S THEN 0 ELSE truth[c]]
          /\ hist' = Append(hist, [cb |-> cb, spends |-> S, spentH |-> [s \in S |-> truth[s]]])
    /\ nops' = nops + 1
    /\ last' = [op |-> "connect", cb |-> cb, spends |-> S, c |-> 0]
    /\ UNCHANGED limit

\* the tip is disconnected (InvalidateBlock of the tip / first half of a reorganisation)
Disconnect ==
    /\ Height > 0
    /\ nops < MAXOPS
    /\ LET b  == hist[Height]
           c1 == FetchAll(cache, disk, b.spends)        \* view.fetchInputUtxos
           d1 == FlushD(c1, disk)                        \* FlushRequired inside the disconnect commit
           d2 == [c \in Coins |-> IF c = b.cb THEN 0    \* dbPutUtxoView: created outputs removed,
                                  ELSE IF c \in b.spends THEN b.spentH[c]   \* spent outputs restored
                                  ELSE d1[c]]
       IN /\ cache' = Empty
          /\ disk' = d2
          /\ truth' = [c \in Coins |-> IF c = b.cb THEN 0 ELSE IF c \in b.spends THEN b.spentH[c] ELSE truth[c]]
          /\ hist' = SubSeq(hist, 1, Height - 1)
    /\ nops' = nops + 1
    /\ last' = [op |-> "disconnect", cb |-> 0, spends |-> {}, c |-> 0]
    /\ UNCHANGED limit

\* FlushUtxoCache(FlushRequired)
Flush ==
    /\ nops < MAXOPS
    /\ last.op # "flush"
    /\ disk' = FlushD(cache, disk)
    /\ cache' = Empty
    /\ nops' = nops + 1
    /\ last' = [op |-> "flush", cb |-> 0, spends |-> {}, c |-> 0]
    /\ UNCHANGED <<limit, truth, hist>>

\* FetchUtxoEntry(c): a read that populates the cache
Read(c) ==
    /\ nops < MAXOPS
    /\ cache[c].kind = "none"
    /\ cache' = FetchC(cache, disk, c)
    /\ nops' = nops + 1
    /\ last' = [op |-> "read", cb |-> 0, spends |-> {}, c |-> c]
    /\ UNCHANGED <<limit, truth, disk, hist>>

Next ==
    \/ \E cb \in Coins \cup {0}, S \in SUBSET Coins : Connect(cb, S)
    \/ Disconnect
    \/ Flush
    \/ \E c \in Coins : Read(c)

Spec == Init /\ [][Next]_vars

\* C03: the reported set equals the fold of the active chain
Coherent == \A c \in Coins : View(cache, disk, c) = truth[c]
\* C03: what is persisted after a flush equals the in-memory view
FlushedExact == (last.op \in {"flush", "disconnect"} \/ limit = "always") => disk = truth
\* the disconnect data (spend journal) restores exactly what was there
HistOK == \A i \in 1..Len(hist) : \A s \in hist[i].spends : hist[i].spentH[s] > 0 /\ hist[i].spentH[s] < i


-----------------------------------------------------------------------------
(* The flag protocol as an inductive invariant (checked with Apalache for   *)
(* histories of any length: IndInit => IndInv, IndInv /\ Next => IndInv').  *)
(* Per coin: what the cache slot promises about the disk and the truth.     *)
(* This is the design statement behind fix 519356e3: a re-created output is *)
(* fresh only if the disk cannot hold a copy of it.                         *)
SlotOK(c) ==
    LET e == cache[c] IN
    /\ e.kind \in {"none", "nil", "entry"}
    /\ e.kind = "none" => disk[c] = truth[c]
    /\ e.kind = "nil"  => truth[c] = 0 /\ disk[c] = 0
    /\ (e.kind = "entry" /\ e.spent)  => truth[c] = 0 /\ ~e.fresh /\ e.mod
    /\ (e.kind = "entry" /\ ~e.spent) => /\ truth[c] = e.h /\ e.h > 0
                                         /\ (e.fresh => disk[c] = 0 /\ e.mod)
                                         /\ (~e.mod => disk[c] = e.h)
    /\ e.kind # "entry" => e = (IF e.kind = "none" THEN None ELSE NilE)

BlockOK(i) ==
    LET b == hist[i] IN
    /\ b.cb \in Coins \cup {0}
    /\ b.spends \subseteq Coins
    /\ b.cb \notin b.spends
    /\ DOMAIN b.spentH = b.spends
    /\ \A s \in b.spends : b.spentH[s] > 0 /\ b.spentH[s] < i

IndInv ==
    /\ limit \in {"always", "never"}
    /\ nops \in 0..MAXOPS
    /\ Len(hist) <= D
    /\ \A c \in Coins : truth[c] \in 0..D /\ disk[c] \in 0..D /\ SlotOK(c)
    /\ \A i \in DOMAIN hist : BlockOK(i)

\* IndInv implies the properties
IndImplies == IndInv => (Coherent /\ FlushD(cache, disk) = truth)
=============================================================================
