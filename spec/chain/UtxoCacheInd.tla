--------------------------- MODULE UtxoCacheInd ---------------------------
(* Apalache harness: IndInv of UtxoCache.tla is inductive.                  *)
(*   apalache-mc check --cinit=ConstInit --init=IndInit --inv=IndInv --length=1 UtxoCacheInd.tla   (step)   *)
(*   apalache-mc check --cinit=ConstInit --init=Init    --inv=IndInv --length=0 UtxoCacheInd.tla   (base)   *)
(*   apalache-mc check --cinit=ConstInit --init=IndInit --inv=Props  --length=0 UtxoCacheInd.tla   (IndInv => properties) *)
EXTENDS UtxoCache, Apalache

ConstInit == K = 3 /\ D = 4 /\ MAXOPS = 1000

Ops == {"init", "connect", "disconnect", "flush", "read"}

IndInit ==
    /\ limit \in {"always", "never"}
    /\ truth \in [Coins -> 0..D]
    /\ disk \in [Coins -> 0..D]
    /\ cache \in [Coins -> [kind: {"none", "nil", "entry"}, h: 0..D, spent: BOOLEAN, fresh: BOOLEAN, mod: BOOLEAN]]
    /\ hist = Gen(4)
    /\ nops \in 0..MAXOPS
    /\ last \in [op: Ops, cb: 0..K, spends: SUBSET Coins, c: 0..K]
    /\ IndInv

Props == Coherent /\ FlushD(cache, disk) = truth
=============================================================================
