------------------------------ MODULE ConnMgr ------------------------------
(***************************************************************************)
(* Specification of btcd's connection manager (connmgr/connmanager.go) at  *)
(* the granularity of its goroutines and of the unbuffered request channel *)
(* of connHandler.  Supplementary specification X01 (no listed property).  *)
(*                                                                         *)
(* Statements specified and checked                                        *)
(*  (S1) every connection request is in exactly one of the states pending  *)
(*       / established / disconnected / failing / canceled, with only the  *)
(*       transitions the code documents; ids are unique, never reused.     *)
(*       -> S1Agree, S1Ids, S1Trans, S1IdStable                            *)
(*  (S2) the number of outbound connections the manager keeps trying to    *)
(*       hold converges to TargetOutbound: a new dial is started whenever  *)
(*       an established non-persistent outbound connection is lost or a    *)
(*       pending one fails, and never more than the target are pending +   *)
(*       established from NewConnReq at a time.                            *)
(*       -> S2Bound, S2Replace (safety), S2Converge (liveness, MCLive)     *)
(*  (S3) a persistent request is retried after a failure or disconnect     *)
(*       with a back-off that grows with the retry count up to the         *)
(*       maximum, and is never retried after Remove; a non-persistent      *)
(*       request is not re-dialled itself.                                 *)
(*       -> S3Backoff, S3Grow, S3NoRetry, S3OneDial                        *)
(*  (S4) Remove/Disconnect of a pending request cancels it: a dial that    *)
(*       completes later is closed and never reported through              *)
(*       OnConnection; OnConnection and OnDisconnection are called at most *)
(*       once per established connection and in that order.                *)
(*       -> S4Cancel, S4NoReport, S4Once, S4Order                          *)
(*  (S5) Stop ends the handler: no callback after Wait returns, every      *)
(*       listener closed, no goroutine left.                               *)
(*       -> S5Listeners, S5Wait, S5Late, S5Census                          *)
(*  (S6) DynamicBanScore: not specified yet (limit of this engine).         *)
(*  (+)  MaxInbound: never more accepted inbound connections open than the *)
(*       limit; a slot is released exactly once.  -> InboundLimit          *)
(*                                                                         *)
(* Goroutines                                                              *)
(*   connHandler            hpc; one atomic step per message received on   *)
(*                          cm.requests (H* actions are the rendezvous of  *)
(*                          the sender's send with the handler's receive)  *)
(*   per ConnReq object r   at most one goroutine / timer works on a       *)
(*                          request at a time: rq[r].pc                    *)
(*        NewConnReq:  reg -> regd -> gna -> cstart | sendfail             *)
(*        Connect:     cstart -> (reg -> regd ->) dial -> indial ->        *)
(*                     sendok | sendfail -> idle                           *)
(*        retry timer: twait -> cstart        (time.AfterFunc(d, Connect)) *)
(*        replacement: (xtimer ->) xrm -> xsend -> a new NewConnReq        *)
(*   spawnNew               NewConnReq goroutines that have not yet        *)
(*                          allocated their ConnReq                        *)
(*   cbs                    go cfg.OnConnection / OnDisconnection /        *)
(*                          OnAccept goroutines that have not started      *)
(*   ops                    callers of Disconnect / Remove                 *)
(*   spc, wpc               the callers of Stop and Wait                   *)
(*   lst[k]                 listenHandler goroutines                       *)
(*                                                                         *)
(* Time is abstract: a retry timer fires at any moment after it was armed  *)
(* (TimerFire); the armed duration is kept in rq[r].delay and is           *)
(* observable (debug log "Retrying connection to %v in %v").               *)
(*                                                                         *)
(* Every action labels the step in ev: the externally observable event it  *)
(* constitutes (a call/return at a public seam of the package) or NoEv for *)
(* an internal step.  TraceConnMgr.tla matches recorded event sequences    *)
(* against ev; MCConnMgr explores all interleavings with Record = FALSE.   *)
(*                                                                         *)
(* Fix* constants: FALSE describes the code as it is, TRUE what the        *)
(* statement asks for (see known findings of X01):                         *)
(*   FixAuto   only requests created by NewConnReq are replaced through    *)
(*             NewConnReq (as is: every dying non-persistent request is,   *)
(*             so requests made through Connect turn into additional       *)
(*             automatic ones and the target is exceeded)                  *)
(*   FixCb     callbacks of one connection are delivered in order and      *)
(*             before Wait returns (as is: each one is a detached          *)
(*             goroutine)                                                  *)
(*   FixState  a disconnected request that is not retried is marked        *)
(*             disconnected (as is: Disconnect with enough connections     *)
(*             left leaves State() = established)                          *)
(***************************************************************************)
EXTENDS Naturals, Sequences, FiniteSets

CONSTANTS
  Scenarios,          \* set of scenario records, one is chosen in Init
  MaxObj,             \* bound on the number of ConnReq objects (exploration cut-off)
  MaxFails,           \* Dial / GetNewAddress failures per request (environment budget)
  MaxFailedAttempts,  \* connmanager.go: maxFailedAttempts = 25
  MaxDisc, MaxRem,    \* user calls of Disconnect / Remove (environment budget)
  AllowTrig,          \* Disconnect(id, WithTriggerReconnect()) is used
  MaxAccept,          \* inbound connections offered to the listeners (environment budget)
  Record,             \* keep the label of the last step in ev
  FixAuto, FixCb, FixState

(* A scenario (the configuration handed to connmgr.New and what the user does):
     target   cfg.TargetOutbound (> 0)
     gna      cfg.GetNewAddress # nil
     manual   sequence of BOOLEAN: the requests the user makes through Connect,
              manual[m] = Permanent
     ru, cap  cfg.RetryDuration and maxRetryDuration (microseconds)
     nlist    number of listeners (OnAccept is set when nlist > 0)
     inlim    cfg.MaxInbound # nil,  incap its value
     stop     Stop is called at some point,  wait: Wait is called             *)

VARIABLES
  scn, ev,
  hpc, hq, pend, conns, failedAtt,      \* connHandler: control, rest of the current loop iteration, its two maps, cm.failedAttempts
  stopFlag, quit,                       \* cm.stop, cm.quit closed
  idCount,                              \* cm.connReqCount
  rq,                                   \* the ConnReq objects and the goroutine working on each
  spawnNew,                             \* NewConnReq goroutines spawned, ConnReq not yet allocated
  nGna, nFail, closed,                  \* GetNewAddress calls, failures injected so far, conns closed by the manager
  cbs, cbSeen,                          \* callback goroutines spawned / callbacks that have started
  ops, spc, sidx, wpc,                  \* callers of Disconnect/Remove, of Stop, of Wait
  lst, nIn, slots, held, inClosing, inClosed, \* listeners, inbound conns accepted, cm.inboundSlots, conns holding a slot, Close in progress, inbound conns closed
  bad                                   \* tags of statements found violated on the way (history)

handlerV == <<hpc, hq, pend, conns, failedAtt>>
flagV    == <<stopFlag, quit>>
cbV      == <<cbs, cbSeen>>
userV    == <<ops, spc, sidx, wpc>>
inV      == <<lst, nIn, slots, held, inClosing, inClosed>>
vars     == <<scn, ev, handlerV, flagV, idCount, rq, spawnNew, nGna, nFail, closed, cbV, userV, inV, bad>>

NoEv   == <<>>
Obs(e) == ev' = IF Record THEN e ELSE NoEv
Hid    == ev' = NoEv
Min(a, b) == IF a < b THEN a ELSE b

NMan     == Len(scn.manual)
Objs     == DOMAIN rq
TokBase  == 100                          \* address token of the k-th GetNewAddress call is TokBase + k
ConnNo(tok, nd) == tok * 10 + nd         \* number of the connection the nd-th Dial of address tok returns

Req(id0, perm0, auto0, pc0, tok0) ==
  [id |-> id0, perm |-> perm0, auto |-> auto0, st |-> "pending", pc |-> pc0,
   retry |-> 0, delay |-> 0, cn |-> 0, dc |-> 0, tok |-> tok0, nd |-> 0, trg |-> FALSE, rep |-> FALSE]
   \* id     ConnReq.id (0: not assigned)      st     ConnReq.state (zero value: ConnPending)
   \* retry  ConnReq.retryCount                delay  duration of the armed retry timer
   \* cn     ConnReq.conn (number of the connection, 0: nil)
   \* dc     connection the Connect goroutine got from Dial and is handing over
   \* tok    address token (Addr)              nd     Dial calls made for the request
   \* trg    a Disconnect with WithTriggerReconnect retried the request
   \* rep    a replacement (Remove; NewConnReq) was started for the request

Active(p) == p \in {"reg", "regw", "regd", "gna", "cstart", "dial", "indial", "sendok", "sendfail", "xrm", "xsend"}

---------------------------------------------------------------------------
(* Init: right after New(cfg) and Start(): handler running, listeners
   accepting, TargetOutbound NewConnReq goroutines spawned.                *)

InitRec(sc0) ==
  [ scn |-> sc0, ev |-> NoEv,
    hpc |-> "run", hq |-> <<>>, pend |-> {}, conns |-> {}, failedAtt |-> 0,
    stopFlag |-> 0, quit |-> FALSE, idCount |-> 0,
    rq |-> [m \in 1..Len(sc0.manual) |-> Req(0, sc0.manual[m], FALSE, "none", m)],
    spawnNew |-> sc0.target,
    nGna |-> 0, nFail |-> 0, closed |-> {}, cbs |-> {}, cbSeen |-> {},
    ops |-> <<>>, spc |-> IF sc0.stop THEN "idle" ELSE "none", sidx |-> 1,
    wpc |-> IF sc0.wait THEN "idle" ELSE "none",
    lst |-> [k \in 1..sc0.nlist |-> [open |-> TRUE, pc |-> "loop", c |-> 0]],
    nIn |-> 0, slots |-> 0, held |-> {}, inClosing |-> {}, inClosed |-> {}, bad |-> {} ]

InitFor(sc0) ==
  LET r == InitRec(sc0) IN
  /\ scn = r.scn /\ ev = r.ev /\ hpc = r.hpc /\ hq = r.hq /\ pend = r.pend /\ conns = r.conns /\ failedAtt = r.failedAtt
  /\ stopFlag = r.stopFlag /\ quit = r.quit /\ idCount = r.idCount /\ rq = r.rq /\ spawnNew = r.spawnNew
  /\ nGna = r.nGna /\ nFail = r.nFail /\ closed = r.closed /\ cbs = r.cbs /\ cbSeen = r.cbSeen
  /\ ops = r.ops /\ spc = r.spc /\ sidx = r.sidx /\ wpc = r.wpc
  /\ lst = r.lst /\ nIn = r.nIn /\ slots = r.slots /\ held = r.held /\ inClosing = r.inClosing /\ inClosed = r.inClosed /\ bad = r.bad

\* the same as an action (TraceConnMgr starts the next trace with it)
ResetTo(sc0) ==
  LET r == InitRec(sc0) IN
  /\ scn' = r.scn /\ ev' = r.ev /\ hpc' = r.hpc /\ hq' = r.hq /\ pend' = r.pend /\ conns' = r.conns /\ failedAtt' = r.failedAtt
  /\ stopFlag' = r.stopFlag /\ quit' = r.quit /\ idCount' = r.idCount /\ rq' = r.rq /\ spawnNew' = r.spawnNew
  /\ nGna' = r.nGna /\ nFail' = r.nFail /\ closed' = r.closed /\ cbs' = r.cbs /\ cbSeen' = r.cbSeen
  /\ ops' = r.ops /\ spc' = r.spc /\ sidx' = r.sidx /\ wpc' = r.wpc
  /\ lst' = r.lst /\ nIn' = r.nIn /\ slots' = r.slots /\ held' = r.held /\ inClosing' = r.inClosing /\ inClosed' = r.inClosed /\ bad' = r.bad

Init == \E s \in Scenarios : InitFor(s)

---------------------------------------------------------------------------
(* handleFailedConn(c, triggerReconnect), run by connHandler.  Result: the
   new request table, the new cm.failedAttempts and the label of the step. *)

HFC(q, r, trig) ==
  IF stopFlag # 0 THEN [q |-> q, fa |-> failedAtt, e |-> NoEv]
  ELSE IF q[r].perm \/ trig THEN
    LET n == q[r].retry + 1
        d == Min(n * scn.ru, scn.cap) IN       \* d := retryCount * RetryDuration, capped at maxRetryDuration
    [q |-> [q EXCEPT ![r].retry = n, ![r].delay = d, ![r].pc = "twait", ![r].trg = @ \/ ~q[r].perm],
     fa |-> failedAtt, e |-> <<"backoff", q[r].id, d>>]
  ELSE IF scn.gna /\ (FixAuto => q[r].auto) THEN
    LET fa == failedAtt + 1 IN
    IF fa >= MaxFailedAttempts
      THEN [q |-> [q EXCEPT ![r].pc = "xtimer", ![r].rep = TRUE], fa |-> fa, e |-> <<"maxfail">>]  \* AfterFunc(RetryDuration, Remove; NewConnReq)
      ELSE [q |-> [q EXCEPT ![r].pc = "xrm", ![r].rep = TRUE], fa |-> fa, e |-> NoEv]            \* go { Remove(id); NewConnReq() }
  ELSE [q |-> q, fa |-> failedAtt, e |-> NoEv]

AutoHeld(q, p, c) == {r \in DOMAIN q : q[r].auto /\ q[r].id \in p \cup c}

---------------------------------------------------------------------------
(* connHandler.  cm.requests is unbuffered: a send and the handler's receive
   are one step (HRecv, HRecvOp), after which the sender goes on and the handler has
   the message.  What the handler then does in this loop iteration is the
   queue hq of its effects other goroutines can see, in code order, one per
   step (HMicro); the handler is back at its select when hq is empty:
     <<"msg", kind, x, retry, trig>>  the message itself: its processing up
                          to and including the first visible effect
     <<"st", r, s>>       connReq.updateState(s)  (with the handler-private
                          bookkeeping that follows it)
     <<"log", e, cb>>     a line of the debug log (observable when the user
                          installed a logger) and the callback goroutine
                          spawned behind it; dropped when Record = FALSE
     <<"hfc", r, trig>>   cm.handleFailedConn(connReq, trig)
   Effects nobody can see directly (the handler's maps, cm.failedAttempts,
   retryCount) are applied with the step they follow; a goroutine spawn or a
   conn.Close() is applied with the visible effect before it (being earlier
   in the specification than in the code cannot be observed).              *)

Logs(seq) == IF Record THEN seq ELSE SelectSeq(seq, LAMBDA m : m[1] # "log")
HIdle == hpc = "run" /\ hq = <<>>

HRecv(r) ==               \* a goroutine working on request r gets its message through
  /\ HIdle /\ rq[r].pc \in {"reg", "sendok", "sendfail", "xsend"}
  /\ hq' = << <<"msg", rq[r].pc, r, FALSE, FALSE>> >>
  /\ rq' = [rq EXCEPT ![r].pc = IF rq[r].pc = "reg" THEN "regw" ELSE "idle"]   \* "regw": <-done
  /\ spawnNew' = IF rq[r].pc = "xsend" THEN spawnNew + 1 ELSE spawnNew         \* Remove returned: NewConnReq() is next
  /\ Hid
  /\ UNCHANGED <<scn, hpc, pend, conns, failedAtt, flagV, idCount, nGna, nFail, closed, cbV, userV, inV, bad>>

HRecvOp(o) ==             \* a caller of Disconnect / Remove gets its message through
  /\ HIdle /\ ops[o].pc = "send"
  /\ hq' = << <<"msg", "op", ops[o].id, ops[o].k = "disc", ops[o].trig>> >>
  /\ ops' = [ops EXCEPT ![o].pc = "ret"]
  /\ Hid
  /\ UNCHANGED <<scn, hpc, pend, conns, failedAtt, flagV, idCount, rq, spawnNew, nGna, nFail, closed, cbV, spc, sidx, wpc, inV, bad>>

PRegister(r, rest) ==     \* case registerPending
  /\ rq' = [rq EXCEPT ![r].st = "pending", ![r].pc = IF @ = "regw" THEN "regd" ELSE @]   \* close(msg.done)
  /\ pend' = pend \cup {rq[r].id}
  /\ bad' = bad \cup (IF Cardinality(AutoHeld(rq, pend \cup {rq[r].id}, conns)) > scn.target THEN {"S2over"} ELSE {})
  /\ hq' = rest
  /\ Hid
  /\ UNCHANGED <<conns, failedAtt, closed, cbs>>

PConnected(r, rest) ==    \* case handleConnected
  LET id == rq[r].id
      c  == rq[r].dc IN
  /\ UNCHANGED bad
  /\ IF id \notin pend
       THEN /\ closed' = closed \cup {c}          \* msg.conn.Close(): the request was canceled
            /\ Obs(<<"h", "ignored", id>>)
            /\ hq' = rest
            /\ UNCHANGED <<rq, pend, conns, failedAtt, cbs>>
       ELSE /\ rq' = [rq EXCEPT ![r].st = "established", ![r].cn = c, ![r].retry = 0]
            /\ conns' = conns \cup {id}
            /\ pend' = pend \ {id}
            /\ failedAtt' = 0
            /\ hq' = Logs(<< <<"log", <<"h", "connected", id>>, <<"c", r, c>> >> >>) \o rest
            /\ cbs' = IF Record THEN cbs ELSE cbs \cup {<<"c", r, c>>}   \* go cm.cfg.OnConnection(connReq, conn): behind the log line
            /\ Hid
            /\ UNCHANGED closed

PFailed(r, rest) ==       \* case handleFailed
  /\ UNCHANGED <<pend, conns, failedAtt, closed, cbs, bad>>
  /\ IF rq[r].id \notin pend
       THEN /\ Obs(<<"h", "failignored", rq[r].id>>)
            /\ hq' = rest
            /\ UNCHANGED rq
       ELSE /\ rq' = [rq EXCEPT ![r].st = "failing"]     \* updateState(ConnFailing)
            /\ hq' = Logs(<< <<"log", <<"h", "failed", rq[r].id>>, <<>> >>, <<"hfc", r, FALSE>> >>) \o rest
            /\ Hid

PDisc(id, retry, trig, rest) ==   \* case handleDisconnected{id, retry, triggerReconnect}
  LET rs == {r \in Objs : rq[r].id = id} IN
  /\ UNCHANGED failedAtt
  /\ IF rs = {} \/ id \notin pend \cup conns
       THEN /\ Obs(<<"h", "unknown", id>>)                                 \* log.Errorf("Unknown connid=%d")
            /\ hq' = rest
            /\ UNCHANGED <<rq, pend, conns, closed, cbs, bad>>
       ELSE
         LET r == CHOOSE x \in rs : TRUE IN
         IF id \notin conns
           THEN /\ rq' = [rq EXCEPT ![r].st = "canceled"]                  \* a pending request is canceled
                /\ pend' = pend \ {id}
                /\ hq' = Logs(<< <<"log", <<"h", "canceling", id>>, <<>> >> >>) \o rest
                /\ Hid
                /\ UNCHANGED <<conns, closed, cbs, bad>>
           ELSE
             LET nc == conns \ {id} IN
             /\ Obs(<<"h", "disconnected", id>>)             \* "Disconnected from %v"
             /\ conns' = nc
             /\ closed' = closed \cup {rq[r].cn}           \* connReq.conn.Close()
             /\ cbs' = cbs \cup {<<"d", r, rq[r].cn>>}     \* go cm.cfg.OnDisconnection(connReq)
             /\ UNCHANGED <<rq, pend>>
             /\ IF ~retry
                  THEN hq' = << <<"st", r, "disconnected">> >> \o rest /\ UNCHANGED bad
                  ELSE IF Cardinality(nc) < scn.target \/ rq[r].perm
                    THEN /\ hq' = Logs(<< <<"st", r, "pending">>, <<"log", <<"h", "reconnecting", id>>, <<>> >>, <<"hfc", r, trig>> >>) \o rest
                         /\ UNCHANGED bad
                    ELSE IF FixState
                      THEN hq' = << <<"st", r, "disconnected">> >> \o rest /\ UNCHANGED bad
                      ELSE bad' = bad \cup {"S1stale"} /\ hq' = rest

HMicro ==                 \* the next visible effect of the iteration
  /\ hpc = "run" /\ hq # <<>>
  /\ LET m    == Head(hq)
         rest == Tail(hq) IN
     CASE m[1] = "msg" ->
            CASE m[2] = "reg"      -> PRegister(m[3], rest)
              [] m[2] = "sendok"   -> PConnected(m[3], rest)
              [] m[2] = "sendfail" -> PFailed(m[3], rest)
              [] m[2] = "xsend"    -> PDisc(rq[m[3]].id, FALSE, FALSE, rest)
              [] OTHER             -> PDisc(m[3], m[4], m[5], rest)
       [] m[1] = "st" ->       \* connReq.updateState(...) [; pending[msg.id] = connReq]
            /\ rq' = [rq EXCEPT ![m[2]].st = m[3]]
            /\ pend' = IF m[3] = "pending" THEN pend \cup {rq[m[2]].id} ELSE pend
            /\ hq' = rest
            /\ Hid
            /\ UNCHANGED <<conns, failedAtt, closed, cbs, bad>>
       [] m[1] = "log" ->      \* log.Debugf(...)
            /\ Obs(m[2])
            /\ cbs' = IF m[3] = <<>> THEN cbs ELSE cbs \cup {m[3]}
            /\ hq' = rest
            /\ UNCHANGED <<rq, pend, conns, failedAtt, closed, bad>>
       [] OTHER ->             \* cm.handleFailedConn(connReq, triggerReconnect)
            LET h == HFC(rq, m[2], m[3]) IN
            /\ rq' = h.q
            /\ failedAtt' = h.fa
            /\ Obs(h.e)
            /\ hq' = rest
            /\ UNCHANGED <<pend, conns, closed, cbs, bad>>
  /\ UNCHANGED <<scn, hpc, flagV, idCount, spawnNew, nGna, nFail, cbSeen, userV, inV>>

HQuit ==                  \* case <-cm.quit: the handler ends, cm.wg.Done()
  /\ HIdle /\ quit
  /\ hpc' = "done"
  /\ Hid
  /\ UNCHANGED <<scn, hq, pend, conns, failedAtt, flagV, idCount, rq, spawnNew, nGna, nFail, closed, cbV, userV, inV, bad>>

---------------------------------------------------------------------------
(* the goroutine working on a request *)

SetPc(r, l) == rq' = [rq EXCEPT ![r].pc = l]

WorkerFrame == UNCHANGED <<scn, handlerV, flagV, spawnNew, nGna, nFail, closed, cbV, userV, inV, bad>>

NewStart ==               \* NewConnReq(): stop test, GetNewAddress == nil test, new ConnReq with the next id
  /\ spawnNew > 0
  /\ spawnNew' = spawnNew - 1
  /\ IF stopFlag # 0 \/ ~scn.gna
       THEN UNCHANGED <<rq, idCount>>
       ELSE /\ Len(rq) < MaxObj
            /\ idCount' = idCount + 1
            /\ rq' = Append(rq, Req(idCount + 1, FALSE, TRUE, "reg", 0))
  /\ Hid
  /\ UNCHANGED <<scn, handlerV, flagV, nGna, nFail, closed, cbV, userV, inV, bad>>

GiveUp(r) ==              \* case <-cm.quit of a select with a send on cm.requests (or with <-done)
  /\ quit /\ rq[r].pc \in {"reg", "regw", "regd", "sendok", "sendfail", "xsend"}
  /\ SetPc(r, "idle")                              \* a conn handed over by Dial is dropped, not closed
  /\ spawnNew' = IF rq[r].pc = "xsend" THEN spawnNew + 1 ELSE spawnNew
  /\ Hid
  /\ UNCHANGED <<scn, handlerV, flagV, idCount, nGna, nFail, closed, cbV, userV, inV, bad>>

RegDone(r) ==             \* <-done: NewConnReq goes on to GetNewAddress, Connect to Dial
  /\ rq[r].pc = "regd"
  /\ SetPc(r, IF rq[r].auto THEN "gna" ELSE "dial")
  /\ Hid /\ UNCHANGED idCount /\ WorkerFrame

Gna(r, ok) ==             \* observable: cfg.GetNewAddress() called and returned
  /\ rq[r].pc = "gna"
  /\ ok \/ nFail < MaxFails
  /\ LET t == IF Record THEN TokBase + nGna + 1 ELSE TokBase + r IN
     /\ rq' = [rq EXCEPT ![r].pc = IF ok THEN "cstart" ELSE "sendfail", ![r].tok = IF ok THEN t ELSE 0]
     /\ Obs(<<IF ok THEN "gna" ELSE "gnaerr", t>>)
  /\ nGna' = IF Record THEN nGna + 1 ELSE nGna
  /\ nFail' = IF ok THEN nFail ELSE nFail + 1
  /\ UNCHANGED <<scn, handlerV, flagV, idCount, spawnNew, closed, cbV, userV, inV, bad>>

CStart(r) ==              \* Connect(c): stop test, canceled test, id assignment
  /\ rq[r].pc = "cstart"
  /\ IF stopFlag # 0
       THEN SetPc(r, "idle") /\ Hid /\ UNCHANGED idCount
       ELSE IF rq[r].st = "canceled"
         THEN SetPc(r, "idle") /\ Obs(<<"cignored", rq[r].id>>) /\ UNCHANGED idCount   \* "Ignoring connect for canceled connreq"
         ELSE IF rq[r].id = 0
           THEN /\ idCount' = idCount + 1
                /\ rq' = [rq EXCEPT ![r].id = idCount + 1, ![r].pc = "reg"]
                /\ Hid
           ELSE SetPc(r, "dial") /\ Hid /\ UNCHANGED idCount
  /\ WorkerFrame

DialCall(r) ==            \* observable: cfg.Dial(c.Addr) called
  /\ rq[r].pc = "dial"
  /\ rq' = [rq EXCEPT ![r].pc = "indial", ![r].nd = @ + 1]
  /\ Obs(<<"dial", rq[r].tok>>)
  /\ UNCHANGED idCount /\ WorkerFrame

DialOk(r) ==              \* observable: Dial returns a connection
  /\ rq[r].pc = "indial"
  /\ rq' = [rq EXCEPT ![r].pc = "sendok", ![r].dc = ConnNo(rq[r].tok, rq[r].nd)]
  /\ Obs(<<"dialok", rq[r].tok, ConnNo(rq[r].tok, rq[r].nd)>>)
  /\ UNCHANGED idCount /\ WorkerFrame

DialFail(r) ==            \* observable: Dial returns an error
  /\ rq[r].pc = "indial" /\ nFail < MaxFails
  /\ SetPc(r, "sendfail")
  /\ nFail' = nFail + 1
  /\ Obs(<<"dialfail", rq[r].tok>>)
  /\ UNCHANGED <<scn, handlerV, flagV, idCount, spawnNew, nGna, closed, cbV, userV, inV, bad>>

TimerFire(r) ==           \* time.AfterFunc fires
  /\ rq[r].pc \in {"twait", "xtimer"}
  /\ SetPc(r, IF rq[r].pc = "twait" THEN "cstart" ELSE "xrm")
  /\ Hid /\ UNCHANGED idCount /\ WorkerFrame

XRm(r) ==                 \* Remove(theId) of the replacement goroutine: stop test
  /\ rq[r].pc = "xrm"
  /\ IF stopFlag # 0
       THEN SetPc(r, "idle") /\ spawnNew' = spawnNew + 1     \* Remove returns, NewConnReq() is next
       ELSE SetPc(r, "xsend") /\ UNCHANGED spawnNew
  /\ Hid
  /\ UNCHANGED <<scn, handlerV, flagV, idCount, nGna, nFail, closed, cbV, userV, inV, bad>>

---------------------------------------------------------------------------
(* the user *)

UConnect(m) ==            \* observable: go cm.Connect(&ConnReq{Addr, Permanent})
  /\ m \in Objs /\ rq[m].pc = "none"
  /\ SetPc(m, "cstart")
  /\ Obs(<<"connect", m, rq[m].perm>>)
  /\ UNCHANGED idCount /\ WorkerFrame

NOps(k) == Cardinality({o \in DOMAIN ops : ops[o].k = k})

OpsFrame == UNCHANGED <<scn, handlerV, flagV, idCount, rq, spawnNew, nGna, nFail, closed, cbV, spc, sidx, wpc, inV, bad>>

UCall(k, id, trig) ==     \* observable: Disconnect(id[, WithTriggerReconnect()]) / Remove(id) called
  /\ k \in {"disc", "rem"}
  /\ k = "rem" => ~trig
  /\ ops' = Append(ops, [k |-> k, id |-> id, trig |-> trig, pc |-> "called"])
  /\ Obs(<<k, Len(ops) + 1, id, trig>>)
  /\ OpsFrame

UChk(o) ==                \* stop test of Disconnect / Remove
  /\ ops[o].pc = "called"
  /\ ops' = [ops EXCEPT ![o].pc = IF stopFlag # 0 THEN "ret" ELSE "send"]
  /\ Hid /\ OpsFrame

UGiveUp(o) ==             \* case <-cm.quit
  /\ ops[o].pc = "send" /\ quit
  /\ ops' = [ops EXCEPT ![o].pc = "ret"]
  /\ Hid /\ OpsFrame

URet(o) ==                \* observable: the call returns
  /\ ops[o].pc = "ret"
  /\ ops' = [ops EXCEPT ![o].pc = "done"]
  /\ Obs(<<"ret", o>>)
  /\ OpsFrame

StopFrame == UNCHANGED <<scn, handlerV, idCount, rq, spawnNew, nGna, nFail, closed, cbV, ops, wpc, nIn, slots, held, inClosing, inClosed, bad>>

StopCall ==               \* observable: Stop() called
  /\ spc = "idle" /\ spc' = "called"
  /\ Obs(<<"stop">>) /\ UNCHANGED <<flagV, sidx, lst>> /\ StopFrame
StopFlag ==               \* atomic.AddInt32(&cm.stop, 1)
  /\ spc = "called" /\ spc' = "closing"
  /\ stopFlag' = 1
  /\ Hid /\ UNCHANGED <<quit, sidx, lst>> /\ StopFrame
StopListener ==           \* observable: listener.Close()
  /\ spc = "closing" /\ sidx <= Len(lst)
  /\ lst' = [lst EXCEPT ![sidx].open = FALSE]
  /\ sidx' = sidx + 1
  /\ Obs(<<"lclose", sidx>>) /\ UNCHANGED <<flagV, spc>> /\ StopFrame
StopQuit ==               \* close(cm.quit)
  /\ spc = "closing" /\ sidx > Len(lst)
  /\ quit' = TRUE /\ spc' = "ret"
  /\ Hid /\ UNCHANGED <<stopFlag, sidx, lst>> /\ StopFrame
StopRet ==                \* observable: Stop returns
  /\ spc = "ret" /\ spc' = "done"
  /\ Obs(<<"stopret">>) /\ UNCHANGED <<flagV, sidx, lst>> /\ StopFrame

ListenersDone == \A k \in DOMAIN lst : lst[k].pc = "done"

WaitFrame == UNCHANGED <<scn, handlerV, flagV, idCount, rq, spawnNew, nGna, nFail, closed, cbV, ops, spc, sidx, inV, bad>>
WaitCall ==               \* observable: Wait() called
  /\ wpc = "idle" /\ wpc' = "waiting"
  /\ Obs(<<"wait">>) /\ WaitFrame
WaitRet ==                \* observable: Wait returns (cm.wg: the handler and the listen handlers)
  /\ wpc = "waiting" /\ hpc = "done" /\ ListenersDone
  /\ FixCb => cbs = {}
  /\ wpc' = "done"
  /\ Obs(<<"waitret">>) /\ WaitFrame

---------------------------------------------------------------------------
(* callbacks: each is a goroutine of its own (go cm.cfg.On...) *)

CbStart(cb) ==            \* observable: the callback function is entered
  /\ cb \in cbs
  /\ (FixCb /\ cb[1] = "d") => <<"c", cb[3]>> \in cbSeen
  /\ cbs' = cbs \ {cb}
  /\ cbSeen' = cbSeen \cup {<<cb[1], cb[3]>>}
  /\ bad' = bad \cup (IF <<cb[1], cb[3]>> \in cbSeen THEN {"S4dup"} ELSE {})
                \cup (IF cb[1] = "d" /\ <<"c", cb[3]>> \notin cbSeen THEN {"S4order"} ELSE {})
                \cup (IF wpc = "done" THEN {"S5late"} ELSE {})
  /\ Obs(CASE cb[1] = "c" -> <<"onconn", rq[cb[2]].id, cb[3]>>
           [] cb[1] = "d" -> <<"ondisc", rq[cb[2]].id>>
           [] OTHER       -> <<"onaccept", cb[3]>>)
  /\ UNCHANGED <<scn, handlerV, flagV, idCount, rq, spawnNew, nGna, nFail, closed, userV, inV>>

---------------------------------------------------------------------------
(* listeners (listenHandler) and the inbound limit (limitInbound) *)

InFrame == UNCHANGED <<scn, handlerV, flagV, idCount, rq, spawnNew, nGna, nFail, closed, userV, bad>>

LLoop(k) ==               \* for atomic.LoadInt32(&cm.stop) == 0 { ... }; cm.wg.Done()
  /\ lst[k].pc = "loop"
  /\ lst' = [lst EXCEPT ![k].pc = IF stopFlag = 0 THEN "accept" ELSE "done"]
  /\ Hid /\ UNCHANGED <<nIn, slots, held, inClosing, inClosed, cbV>> /\ InFrame

LAccept(k) ==             \* observable: listener.Accept() returns a connection
  /\ lst[k].pc = "accept" /\ lst[k].open /\ nIn < MaxAccept
  /\ nIn' = nIn + 1
  /\ lst' = [lst EXCEPT ![k].pc = "got", ![k].c = nIn + 1]
  /\ Obs(<<"accept", k, nIn + 1>>) /\ UNCHANGED <<slots, held, inClosing, inClosed, cbV>> /\ InFrame

LAcceptErr(k) ==          \* Accept fails: the listener has been closed
  /\ lst[k].pc = "accept" /\ ~lst[k].open
  /\ lst' = [lst EXCEPT ![k].pc = "loop"]
  /\ Hid /\ UNCHANGED <<nIn, slots, held, inClosing, inClosed, cbV>> /\ InFrame

LLimit(k) ==              \* limitInbound(conn); go cm.cfg.OnAccept(conn)
  /\ lst[k].pc = "got"
  /\ LET c == lst[k].c IN
     IF ~scn.inlim
       THEN cbs' = cbs \cup {<<"a", 0, c>>} /\ UNCHANGED <<slots, held, inClosed>>
       ELSE IF slots < scn.incap
         THEN /\ slots' = slots + 1 /\ held' = held \cup {c}
              /\ cbs' = cbs \cup {<<"a", 0, c>>} /\ UNCHANGED inClosed
         ELSE inClosed' = inClosed \cup {c} /\ UNCHANGED <<slots, held, cbs>>   \* rejected: conn.Close()
  /\ lst' = [lst EXCEPT ![k].pc = "loop"]
  /\ Hid /\ UNCHANGED <<nIn, inClosing, cbSeen>> /\ InFrame

InClose(c) ==             \* observable: the user calls Close on an accepted connection (possibly again)
  /\ <<"a", c>> \in cbSeen /\ c \notin inClosing
  /\ inClosing' = inClosing \cup {c}
  /\ Obs(<<"inclose", c>>) /\ UNCHANGED <<lst, nIn, slots, held, inClosed, cbV>> /\ InFrame

InRelease(c) ==           \* limitedInboundConn.Close: Conn.Close(), releaseOnce.Do(release)
  /\ c \in inClosing
  /\ inClosing' = inClosing \ {c}
  /\ inClosed' = inClosed \cup {c}
  /\ IF c \in held THEN held' = held \ {c} /\ slots' = slots - 1 ELSE UNCHANGED <<held, slots>>
  /\ Hid /\ UNCHANGED <<lst, nIn, cbV>> /\ InFrame

---------------------------------------------------------------------------

Handler ==
  \/ \E r \in Objs : HRecv(r)
  \/ \E o \in DOMAIN ops : HRecvOp(o)
  \/ HMicro \/ HQuit

\* steps of the manager's goroutines (and of the callers of its methods) that
\* are not driven by the environment and not by the clock
Running ==
  \/ Handler
  \/ NewStart
  \/ \E r \in Objs : GiveUp(r) \/ RegDone(r) \/ CStart(r) \/ DialCall(r) \/ XRm(r)
  \/ \E o \in DOMAIN ops : UChk(o) \/ UGiveUp(o) \/ URet(o)
  \/ StopFlag \/ StopListener \/ StopQuit \/ StopRet \/ WaitRet
  \/ \E cb \in cbs : CbStart(cb)
  \/ \E k \in DOMAIN lst : LLoop(k) \/ LAcceptErr(k) \/ LLimit(k)
  \/ \E c \in inClosing : InRelease(c)

\* steps of the manager that are not driven by the environment
Internal ==
  \/ Handler
  \/ NewStart
  \/ \E r \in Objs : GiveUp(r) \/ RegDone(r) \/ CStart(r) \/ DialCall(r) \/ TimerFire(r) \/ XRm(r)
  \/ \E o \in DOMAIN ops : UChk(o) \/ UGiveUp(o) \/ URet(o)
  \/ StopFlag \/ StopListener \/ StopQuit \/ StopRet \/ WaitRet
  \/ \E cb \in cbs : CbStart(cb)
  \/ \E k \in DOMAIN lst : LLoop(k) \/ LAcceptErr(k) \/ LLimit(k)
  \/ \E c \in inClosing : InRelease(c)

KnownIds == {rq[r].id : r \in Objs} \ {0}

\* steps chosen by the environment: results of Dial / GetNewAddress, user calls, inbound connections
Env ==
  \/ \E r \in Objs : \E ok \in BOOLEAN : Gna(r, ok)
  \/ \E r \in Objs : DialOk(r) \/ DialFail(r) \/ UConnect(r)
  \/ \E id \in KnownIds : \E trig \in (IF AllowTrig THEN BOOLEAN ELSE {FALSE}) :
        NOps("disc") < MaxDisc /\ UCall("disc", id, trig)
  \/ \E id \in KnownIds : NOps("rem") < MaxRem /\ UCall("rem", id, FALSE)
  \/ StopCall \/ WaitCall
  \/ \E k \in DOMAIN lst : LAccept(k)
  \/ \E c \in 1..nIn : c \notin inClosed /\ InClose(c)

Next == Internal \/ Env

Spec == Init /\ [][Next]_vars

---------------------------------------------------------------------------
(* statements *)

StName == {"pending", "failing", "canceled", "established", "disconnected"}

TypeOK ==
  /\ hpc \in {"run", "done"} /\ stopFlag \in {0, 1} /\ quit \in BOOLEAN
  /\ \A r \in Objs : rq[r].st \in StName
  /\ spawnNew \in Nat /\ slots \in Nat

\* (S1) the handler's maps and the state of the request agree: exactly one state
S1Agree ==
  /\ pend \cap conns = {}
  /\ \A r \in Objs : (\E k \in DOMAIN hq : hq[k][1] = "st" /\ hq[k][2] = r) \/     \* the handler is in the middle of moving r
       /\ (rq[r].id # 0 /\ rq[r].id \in pend)  => rq[r].st \in {"pending", "failing"}
       /\ (rq[r].id # 0 /\ rq[r].id \in conns) => rq[r].st = "established"
       /\ rq[r].st = "established" => rq[r].id \in conns
       /\ rq[r].st \in {"canceled", "disconnected"} => rq[r].id \notin pend \cup conns
S1Ids ==
  /\ \A r1, r2 \in Objs : (r1 # r2 /\ rq[r1].id # 0) => rq[r1].id # rq[r2].id
  /\ \A r \in Objs : rq[r].id <= idCount
  /\ pend \cup conns \subseteq KnownIds
Allowed == { <<"pending", "established">>, <<"pending", "failing">>, <<"pending", "canceled">>,
             <<"failing", "established">>, <<"failing", "canceled">>,
             <<"established", "disconnected">>, <<"established", "pending">> }
S1Trans == [][\A r \in Objs : r \in DOMAIN rq' => (rq'[r].st = rq[r].st \/ <<rq[r].st, rq'[r].st>> \in Allowed)]_vars
S1IdStable == [][\A r \in Objs : r \in DOMAIN rq' /\ (rq[r].id # 0 => rq'[r].id = rq[r].id)
                                                  /\ (rq'[r].id # rq[r].id => rq'[r].id = idCount + 1 /\ idCount' = idCount + 1)]_vars

\* (S2) never more than the target pending + established from NewConnReq
S2Bound == Cardinality(AutoHeld(rq, pend, conns)) <= scn.target
\* a dying automatic request is replaced: when a request created by NewConnReq
\* leaves pending+established on a failure or a loss (not by a user cancel and
\* not during shutdown) a NewConnReq is under way
Replacing(q) == {r \in DOMAIN q : q[r].pc \in {"xrm", "xsend", "xtimer"}}
S2Replace == [][(hq # <<>> /\ hq' = Tail(hq) /\ Head(hq)[1] = "hfc" /\ rq[Head(hq)[2]].auto /\ ~Head(hq)[3] /\ stopFlag = 0)
                  => Head(hq)[2] \in Replacing(rq')]_vars

\* (S3) back-off of the armed retry timer
S3Backoff == \A r \in Objs : rq[r].pc = "twait" =>
               /\ rq[r].retry >= 1
               /\ rq[r].delay = Min(rq[r].retry * scn.ru, scn.cap)
               /\ rq[r].perm \/ rq[r].trg
S3Grow == [][\A r \in Objs : (r \in DOMAIN rq' /\ rq'[r].pc = "twait" /\ rq[r].pc # "twait")
                               => /\ rq'[r].retry = rq[r].retry + 1
                                  /\ rq'[r].delay >= Min(rq[r].retry * scn.ru, scn.cap)
                                  /\ rq'[r].delay <= scn.cap]_vars
\* once the handler has processed the Remove / cancel no new attempt starts
S3NoRetry == [][\A r \in Objs : (rq[r].st \in {"canceled", "disconnected"} /\ rq[r].pc \in {"idle", "twait", "cstart", "xtimer", "xrm", "xsend"})
                                  => rq'[r].pc \notin {"dial", "reg", "regw", "indial"}]_vars
S3OneDial == \A r \in Objs : (~rq[r].perm /\ ~rq[r].trg) => rq[r].nd <= 1

\* (S4)
S4Cancel == \A r \in Objs :        \* a canceled request is never reported; what its dial delivered afterwards is closed
  (rq[r].st = "canceled" /\ rq[r].pc = "idle" /\ rq[r].dc # 0 /\ rq[r].dc # rq[r].cn /\ ~quit
     /\ ~\E k \in DOMAIN hq : hq[k][1] = "msg" /\ hq[k][2] = "sendok" /\ hq[k][3] = r) => rq[r].dc \in closed
S4NoReport == [][\A r \in Objs : rq[r].st \in {"canceled", "disconnected"} => \A cb \in cbs' \ cbs : cb[1] # "c" \/ cb[2] # r]_vars
S4Once  == "S4dup" \notin bad /\ \A x, y \in cbs : (x[1] = y[1] /\ x[3] = y[3]) => x = y
S4Order == "S4order" \notin bad
S4Spawn == \A cb \in cbs : cb[1] = "d" => (<<"c", cb[3]>> \in cbSeen \/ \E x \in cbs : x[1] = "c" /\ x[3] = cb[3])

\* (S5)
S5Listeners == spc \in {"ret", "done"} => \A k \in DOMAIN lst : ~lst[k].open
S5Wait == wpc = "done" => hpc = "done" /\ ListenersDone /\ quit
S5Late == "S5late" \notin bad
Goroutines ==
  (IF hpc = "run" THEN 1 ELSE 0) + spawnNew
  + Cardinality({r \in Objs : Active(rq[r].pc)})
  + Cardinality({o \in DOMAIN ops : ops[o].pc \in {"called", "send", "ret"}})
  + Cardinality(cbs)
  + Cardinality({k \in DOMAIN lst : lst[k].pc # "done"})
\* after Stop, once every Dial has returned and nothing internal can move, nothing is left
S5Census == (quit /\ spc = "done" /\ ~ENABLED Internal /\ \A r \in Objs : rq[r].pc \notin {"indial", "gna"}) => Goroutines = 0

\* (+) inbound limit
InboundLimit == scn.inlim => (slots = Cardinality(held) /\ slots <= scn.incap /\ held \cap inClosed = {})

S1Stale == "S1stale" \notin bad
=============================================================================
