----------------------------- MODULE MCConnMgr -----------------------------
(* Model-checking configurations of ConnMgr.tla: scenario sets per tier,   *)
(* the fairness assumption and the liveness statements.                    *)
EXTENDS ConnMgr

Sc(t, g, man, nl, il, ic, st, wt) ==
  [target |-> t, gna |-> g, manual |-> man, ru |-> 2, cap |-> 5,
   nlist |-> nl, inlim |-> il, incap |-> ic, stop |-> st, wait |-> wt]

\* outbound side -----------------------------------------------------------
ScAuto1    == { Sc(1, TRUE, <<>>, 0, FALSE, 0, TRUE, TRUE) }                 \* automatic requests only
ScAuto2    == { Sc(2, TRUE, <<>>, 0, FALSE, 0, TRUE, TRUE) }
OnePerm    == { Sc(1, TRUE, <<TRUE>>, 0, FALSE, 0, TRUE, TRUE) }             \* + one persistent request through Connect
OneManual  == { Sc(1, TRUE, <<FALSE>>, 0, FALSE, 0, TRUE, TRUE) }            \* + one non-persistent request through Connect
PermOnly   == { Sc(1, FALSE, <<TRUE>>, 0, FALSE, 0, TRUE, TRUE) }                \* no GetNewAddress: one persistent request
NoGna1     == { Sc(1, FALSE, man, 0, FALSE, 0, TRUE, TRUE) : man \in {<<TRUE>>, <<FALSE>>} }
NoGna2     == { Sc(1, FALSE, <<TRUE, FALSE>>, 0, FALSE, 0, TRUE, TRUE) }
\* inbound side ------------------------------------------------------------
Inbound      == { Sc(1, FALSE, <<>>, nl, il, ic, TRUE, TRUE) : nl \in {1, 2}, il \in BOOLEAN, ic \in {0, 1, 2} }
InboundQuick == { Sc(1, FALSE, <<>>, 1, il, 1, TRUE, TRUE) : il \in BOOLEAN }
\* every action of the specification (vacuity audit) -------------------------
Cover      == { Sc(1, TRUE, <<TRUE>>, 1, TRUE, 0, TRUE, TRUE), Sc(1, TRUE, <<FALSE>>, 1, FALSE, 0, TRUE, TRUE) }
\* liveness: the manager is not stopped --------------------------------------
ScLive1    == { Sc(1, TRUE, <<>>, 0, FALSE, 0, FALSE, FALSE) }
ScLive     == { Sc(t, TRUE, <<>>, 0, FALSE, 0, FALSE, FALSE) : t \in {1, 2} }
ScLivePerm == { Sc(1, TRUE, <<TRUE>>, 0, FALSE, 0, FALSE, FALSE) }
\* behaviours replayed into the real manager (simulation mode) ----------------
ReplayA    == { [Sc(1, TRUE, <<TRUE>>, 0, FALSE, 0, TRUE, TRUE) EXCEPT !.ru = 2000, !.cap = 7000] }
ReplayB    == { [Sc(2, TRUE, <<FALSE>>, 1, TRUE, 1, TRUE, TRUE) EXCEPT !.ru = 2000, !.cap = 7000] }
ReplayC    == { [Sc(1, FALSE, <<TRUE, FALSE>>, 0, FALSE, 0, TRUE, TRUE) EXCEPT !.ru = 2000, !.cap = 7000] }

\* fairness: the manager's own steps (timers included) happen, every Dial and
\* GetNewAddress is answered, and when the failure budget is used up the answer is success
LiveSpec == Init /\ [][Next]_vars /\ WF_vars(Internal)
                 /\ WF_vars(\E r \in Objs : DialOk(r)) /\ WF_vars(\E r \in Objs : Gna(r, TRUE))

\* automatic requests the user canceled while they were pending: nothing replaces them
Unreplaced == {r \in Objs : rq[r].auto /\ rq[r].st = "canceled" /\ ~rq[r].rep}
\* (S2) convergence: eventually TargetOutbound connections are established and stay
S2Converge == <>[](Cardinality(conns) + Cardinality(Unreplaced) >= scn.target)
\* (S3) a persistent request ends up established unless the user canceled / removed it
S3PermHeld == <>[](\A r \in Objs : rq[r].perm => (rq[r].pc = "none" \/ rq[r].st \in {"established", "canceled", "disconnected"}))
=============================================================================
