----------------------------- MODULE MCConnMgr -----------------------------
(* Model-checking configurations of ConnMgr.tla: scenario sets per tier.   *)
EXTENDS ConnMgr

Sc(t, g, man, nl, il, ic, st, wt) ==
  [target |-> t, gna |-> g, manual |-> man, ru |-> 2, cap |-> 5,
   nlist |-> nl, inlim |-> il, incap |-> ic, stop |-> st, wait |-> wt]

\* outbound side only ------------------------------------------------------
\* automatic requests only (no Connect): target 1 and 2
AutoOnly   == { Sc(t, TRUE, <<>>, 0, FALSE, 0, TRUE, TRUE) : t \in {1, 2} }
\* one persistent request made through Connect next to one automatic one
OnePerm    == { Sc(1, TRUE, <<TRUE>>, 0, FALSE, 0, TRUE, TRUE) }
\* one non-persistent request made through Connect next to one automatic one
OneManual  == { Sc(1, TRUE, <<FALSE>>, 0, FALSE, 0, TRUE, TRUE) }
\* no GetNewAddress: only what the user connects
NoGna      == { Sc(1, FALSE, man, 0, FALSE, 0, TRUE, TRUE) : man \in {<<TRUE>>, <<FALSE>>, <<TRUE, FALSE>>} }
\* inbound side only -------------------------------------------------------
Inbound    == { Sc(1, FALSE, <<>>, nl, il, ic, TRUE, TRUE) :
                  nl \in {1, 2}, il \in BOOLEAN, ic \in {0, 1} }

ScAuto1    == { Sc(1, TRUE, <<>>, 0, FALSE, 0, TRUE, TRUE) }
ScAuto2    == { Sc(2, TRUE, <<>>, 0, FALSE, 0, TRUE, TRUE) }
ScLive     == { Sc(t, TRUE, <<>>, 0, FALSE, 0, FALSE, FALSE) : t \in {1, 2} }
ScLivePerm == { Sc(1, TRUE, <<TRUE>>, 0, FALSE, 0, FALSE, FALSE) }

\* liveness: fairness of the manager's own steps and of the environment answering every Dial
LiveSpec == Init /\ [][Next]_vars /\ WF_vars(Internal)
                 /\ WF_vars(\E r \in Objs : DialOk(r)) /\ WF_vars(\E r \in Objs : Gna(r, TRUE))
\* (S2) convergence: eventually TargetOutbound connections are established and stay, unless the
\* user canceled a pending automatic request (then one fewer is kept per cancel)
S2Converge == <>[](Cardinality(conns) + NOps("disc") + NOps("rem") >= scn.target)
=============================================================================
