--------------------------- MODULE TraceConnMgr ---------------------------
(***************************************************************************)
(* Trace validation: every execution recorded from the real ConnManager    *)
(* must be a behaviour of ConnMgr.tla.  A trace is the sequence of events  *)
(* the driver logged at the public seams of the package (the functions it  *)
(* put into Config, the calls it made and their returns, the debug log     *)
(* line that carries the back-off duration); TraceData.tla is generated.   *)
(* The steps of the manager's goroutines in between are not logged: TLC    *)
(* searches for them (Hidden).  An event is matched by a step of the       *)
(* specification whose label ev' equals it.                                *)
(*                                                                         *)
(* Two kinds of event are observations rather than steps:                  *)
(*   <<"poll", tok, id, state>>  ConnReq.ID() and ConnReq.State() read     *)
(*   <<"quiet">>  a goroutine dump (one stop-the-world snapshot) showed      *)
(*        every goroutine inside the package blocked: no step other than   *)
(*        a timer firing or a step of the environment is possible          *)
(*   <<"end", n, closed, inClosed>>  census after Stop+Wait and after all  *)
(*        Dial calls returned: n goroutines are still inside the package,  *)
(*        the sets of outbound / inbound connections that were closed      *)
(*                                                                         *)
(* The traces of a batch are chained (depth-first TLC run, see the peer    *)
(* engine); TLC prints one ACC line per matched trace with the statements  *)
(* the specification found violated on the way (bad).                      *)
(***************************************************************************)
EXTENDS ConnMgr, TLC, TraceData   \* TraceData: Traces, TraceScns (sequences of equal length)

CONSTANT Diag      \* TRUE: print the index of every matched event (diagnosis of a rejected trace)

VARIABLES tid, i

tvars == <<tid, i>>

NTraces == Len(Traces)
T       == Traces[tid]
E       == T[i]
More    == i <= Len(T)

Prog    == Diag => PrintT(<<"PROG", tid, i>>)
Adv     == i' = i + 1 /\ UNCHANGED tid /\ Prog

TraceInit ==
  /\ TLCSet(2, 1)
  /\ tid = 1 /\ i = 1
  /\ InitFor(TraceScns[1])

\* the user may name any id, also one the manager never handed out
UCallAny == \/ E[1] \in {"disc", "rem"} /\ UCall(E[1], E[3], E[4])
            \/ E[1] = "inclose" /\ InClose(E[2])     \* also a second Close of the same connection

Matched ==
  /\ More
  /\ \/ E[1] \notin {"poll", "end", "quiet"} /\ (Next \/ UCallAny) /\ ev' = E
     \/ /\ E[1] = "quiet"
        /\ ~ENABLED Running
        /\ UNCHANGED vars
     \/ /\ E[1] = "poll"
        /\ \E r \in Objs : rq[r].tok = E[2] /\ rq[r].id = E[3] /\ rq[r].st = E[4]
        /\ UNCHANGED vars
     \/ /\ E[1] = "end"
        /\ Goroutines = E[2] /\ closed = E[3] /\ inClosed = E[4] /\ inClosing = {}
        /\ \A r \in Objs : rq[r].pc # "indial"
        /\ UNCHANGED vars
  /\ Adv

Hidden == Next /\ ev' = NoEv /\ UNCHANGED tvars

Verdict == [ bad |-> bad, ids |-> idCount, objs |-> Len(rq), fa |-> failedAtt,
             states |-> [r \in Objs |-> rq[r].st] ]

NextTrace ==
  /\ i = Len(T) + 1
  /\ PrintT(<<"ACC", tid, Verdict>>)
  /\ IF tid = NTraces
       THEN TLCSet("exit", TRUE) /\ UNCHANGED <<tvars, vars>>
       ELSE /\ TLCSet(2, tid + 1)
            /\ tid' = tid + 1
            /\ i' = 1
            /\ ResetTo(TraceScns[tid + 1])

TraceNext == tid >= TLCGet(2) /\ (Hidden \/ Matched \/ NextTrace)

TraceSpec == TraceInit /\ [][TraceNext]_<<vars, tvars>>
=============================================================================
