------------------------------- MODULE Ffldb -------------------------------
(***************************************************************************)
(* Specification of btcd's block/metadata store database/ffldb (property   *)
(* C05).                                                                   *)
(*                                                                         *)
(* Two layers.                                                             *)
(*                                                                         *)
(* Property layer: `model' (the committed ordered nested map plus the set  *)
(* of stored blocks), `recov' (the models a crash is allowed to fall back  *)
(* to: every committed state since the last flush) and, per open           *)
(* transaction, `m' (the model the transaction must observe: the model at  *)
(* its Begin transformed by its own operations).                           *)
(*                                                                         *)
(* Implementation layer, shaped like the code: the durable leveldb map     *)
(* `ldb' over raw keys (bucketised keys, bucket index entries, bucket id   *)
(* counter, block index rows, write cursor row), the committed-but-        *)
(* unflushed cache `ck'/`cr' (dbCache.cachedKeys/cachedRemove), the flat   *)
(* block files `files', the in-memory write cursor `wc', per transaction   *)
(* the snapshot and the pending key/remove/block/file-delete sets, and the *)
(* commit of transaction.writePendingAndCommit split into one step per I/O *)
(* call (`cm'), each of which may fail or be followed by a crash.          *)
(*                                                                         *)
(* The invariants state that the implementation layer refines the property *)
(* layer.  The harness replays the behaviours into the real code and       *)
(* compares what the real database returns with `obs' (rendered from the   *)
(* property layer).                                                        *)
(*                                                                         *)
(* Also modelled: explicit cursors held across operations (CurOps), clean  *)
(* Close/Open, and a power-loss variant of Crash (PowerLoss) in which      *)
(* block files fall back to their last Sync.  Known defects of the code    *)
(* appear as the implementation layer disagreeing with the property layer  *)
(* in a narrowly excused way (Excused: index rows whose file pruning       *)
(* deleted); `obs.io' shows them to the harness, which reports them under  *)
(* their own keys when the real code reproduces them and reports           *)
(* everything else as a violation.                                         *)
(***************************************************************************)
EXTENDS Naturals, Integers, Sequences, FiniteSets, TLC

CONSTANTS
  KeyOrder,     \* user key names, as a sequence in byte order
  ValSet,       \* values
  NameOrder,    \* nested bucket names, as a sequence in byte order
  MaxDepth,     \* bucket nesting depth (0: metadata bucket only)
  BlockOrder,   \* block names, as a sequence in hash byte order
  RawLen,       \* block name -> serialized length in bytes
  Limit,        \* maximum block file size in bytes
  PruneTarget,  \* target size handed to PruneBlocks (>= Limit)
  MaxTx,        \* write transactions begun overall
  MaxOps,       \* operations per write transaction
  Readers,      \* read transaction handles
  MaxReads,     \* read transactions begun overall
  MaxFaults,    \* injected I/O faults per commit (0: none)
  CrashMode,    \* "none" | "idle" (between commits only) | "steps" (after every I/O call)
  PowerLoss,    \* TRUE: a crash also drops unsynced block file tails
  MaxCrash,     \* crashes overall
  FlushModes,   \* subset of BOOLEAN: may a commit flush / not flush
  AllowRestart, \* TRUE: clean Close + Open between transactions
  MaxCur,       \* cursor operations per transaction (0: no explicit cursors)
  CurSeeks,     \* TRUE: cursors also Seek
  PutPaths,     \* buckets in which Put/Delete are exercised
  BucketOps,    \* TRUE: CreateBucket/DeleteBucket are exercised
  PreBuckets,   \* buckets (depth 1) that exist, flushed, before the behaviour starts
  PruneLast,    \* FALSE: Commit deletes the pruned block files first (original order);
                \* TRUE: it writes the transaction through to leveldb and deletes them last
  PreCache      \* root keys put by one committed, NOT flushed transaction before the behaviour starts

VARIABLES
  ldb, ck, cr,      \* durable map; cached puts (function) and removes (set)
  files,            \* fileNum -> [len, synced, recs]
  wc,               \* in-memory write cursor [f, o, open]
  txs,              \* handle -> transaction record
  cm,               \* commit machine of the writer
  model, recov,     \* property layer
  up,               \* process running (FALSE between Crash and Reopen)
  everPruned,       \* history: file numbers deleted by pruning
  cnt,              \* budgets used
  last,             \* the step just taken (read by the harness)
  obs               \* what the harness must observe after the step

vars == <<ldb, ck, cr, files, wc, txs, cm, model, recov, up, everPruned, cnt, last, obs>>

-----------------------------------------------------------------------------
Keys   == {KeyOrder[i]   : i \in DOMAIN KeyOrder}
Names  == {NameOrder[i]  : i \in DOMAIN NameOrder}
Blocks == {BlockOrder[i] : i \in DOMAIN BlockOrder}
W      == "w"
Handles == {W} \cup Readers

RECURSIVE PathsOfLen(_)
PathsOfLen(n) == IF n = 0 THEN {<<>>}
                 ELSE {Append(p, x) : p \in PathsOfLen(n-1), x \in Names}
BPaths == UNION {PathsOfLen(n) : n \in 0..MaxDepth}
Parent(p) == SubSeq(p, 1, Len(p)-1)
IsPrefix(p, q) == Len(p) <= Len(q) /\ SubSeq(q, 1, Len(p)) = p

Max(a, b) == IF a >= b THEN a ELSE b
Min(a, b) == IF a <= b THEN a ELSE b
SetMax(S) == CHOOSE x \in S : \A y \in S : y <= x
SetMin(S) == CHOOSE x \in S : \A y \in S : x <= y

Restrict(f, S) == [x \in S |-> f[x]]
Without(f, S)  == [x \in DOMAIN f \ S |-> f[x]]
EmptyFn == <<>>

\* Raw keys of the metadata store: <<kind, bucket id, name>>.
KKey(id, k) == <<"k", id, k>>     \* <bucket id><key>
BKey(id, n) == <<"b", id, n>>     \* "bidx"<parent id><bucket name> -> child id
CKey        == <<"c", 0, "">>     \* "bidx-cbid" -> highest bucket id in use
IKey(b)     == <<"i", 1, b>>      \* block index row (bucket id 1) -> location
WKey        == <<"w", 0, "">>     \* "ffldb-writeloc" -> [f, o]

\* pending/cache over a base map: removals hide, puts win (db.go fetchKey /
\* dbcache.go dbCacheSnapshot.Get; commitTreaps applies puts then deletes).
Overlay(base, pk, pr) ==
  [rk \in (DOMAIN base \cup DOMAIN pk) \ pr |-> IF rk \in DOMAIN pk THEN pk[rk] ELSE base[rk]]

Eff == Overlay(ldb, ck, cr)     \* what a snapshot taken now sees

RECURSIVE IdOf(_, _)
IdOf(E, p) ==
  IF p = <<>> THEN 0
  ELSE LET q == IdOf(E, Parent(p)) IN
       IF q = -1 THEN -1
       ELSE IF BKey(q, p[Len(p)]) \in DOMAIN E THEN E[BKey(q, p[Len(p)])] ELSE -1

\* Abstraction of a raw map: nested ordered maps and the stored block set.
AbsKV(E) ==
  [p \in {q \in BPaths : IdOf(E, q) # -1} |->
     [k \in {x \in Keys : KKey(IdOf(E, p), x) \in DOMAIN E} |-> E[KKey(IdOf(E, p), k)]]]
AbsBlk(E) == {b \in Blocks : IKey(b) \in DOMAIN E}
Abs(E) == [kv |-> AbsKV(E), blk |-> AbsBlk(E)]

RecLen(b) == RawLen[b] + 12

\* Is the block readable through index row loc from the files F?
Readable(F, loc, b) ==
  /\ loc.f \in DOMAIN F
  /\ [off |-> loc.o, blk |-> b] \in F[loc.f].recs

\* Blocks that have an index row in E whose data cannot be read from F.
Unreadable(E, F) == {b \in AbsBlk(E) : ~Readable(F, E[IKey(b)], b)}

\* ... and of those, the ones whose file was deleted by pruning (the known
\* non-atomicity of pruning: files are deleted before and outside the
\* metadata update).
PruneDangling(E, F) ==
  {b \in AbsBlk(E) : E[IKey(b)].f \in everPruned /\ ~Readable(F, E[IKey(b)], b)}

Excused(E, F) == PruneDangling(E, F)

-----------------------------------------------------------------------------
\* Property-layer operations.
MPut(m, p, k, v) == [m EXCEPT !.kv[p] = (k :> v) @@ @]
MDel(m, p, k)    == [m EXCEPT !.kv[p] = Without(@, {k})]
MCreate(m, p)    == [m EXCEPT !.kv = (p :> EmptyFn) @@ @]
MDrop(m, p)      == [m EXCEPT !.kv = Restrict(@, {q \in DOMAIN @ : ~IsPrefix(p, q)})]
MStore(m, b)     == [m EXCEPT !.blk = @ \cup {b}]
MPrune(m, S)     == [m EXCEPT !.blk = @ \ S]

-----------------------------------------------------------------------------
\* Transactions.
NoCur == [st |-> "none", p |-> <<>>, e |-> <<"k", "">>, fresh |-> FALSE, n |-> 0]
ClosedTx == [st |-> "closed", rw |-> FALSE, snap |-> EmptyFn, pk |-> EmptyFn, pr |-> {},
             pb |-> <<>>, pd |-> <<>>, m |-> [kv |-> EmptyFn, blk |-> {}],
             nops |-> 0, pruned |-> FALSE, cur |-> NoCur]

NoCm == [ph |-> "none", i |-> 0, fl |-> FALSE, old |-> [f |-> 0, o |-> 0],
         nf |-> 0, err |-> FALSE, st |-> 0]

TxEff(t) == IF t.rw THEN Overlay(t.snap, t.pk, t.pr) ELSE t.snap
PendBlocks(t) == {t.pb[i] : i \in DOMAIN t.pb}

Idle == cm.ph = "none"
OpenTx(h) == txs[h].st # "closed"
NoOpenTx == \A h \in Handles : ~OpenTx(h)

-----------------------------------------------------------------------------
\* Rendering for the harness (cursor order = keys in byte order, then nested
\* buckets in byte order).
SeqOf(order, f) ==
  LET s == SelectSeq(order, LAMBDA x : x \in DOMAIN f)
  IN  [i \in 1..Len(s) |-> <<s[i], f[s[i]]>>]
SubsOf(kv, p) == SelectSeq(NameOrder, LAMBDA n : Append(p, n) \in DOMAIN kv)
RenderM(m) ==
  [kv  |-> [p \in DOMAIN m.kv |-> [keys |-> SeqOf(KeyOrder, m.kv[p]), subs |-> SubsOf(m.kv, p)]],
   blk |-> m.blk]

\* io: blocks the implementation layer predicts to be indexed but unreadable
\* in that view (non-empty only for the known pruning defects).
RenderV(m, io) == [kv |-> RenderM(m).kv, blk |-> m.blk, io |-> io]
\* the explicit cursor of a transaction: where it stands and, when it has
\* moved since the last update, the value there
RenderCur(t) ==
  [st |-> t.cur.st, e |-> t.cur.e, fresh |-> t.cur.fresh,
   v |-> IF t.cur.st = "at" /\ t.cur.fresh /\ t.cur.e[1] = "k" THEN <<t.m.kv[t.cur.p][t.cur.e[2]]>> ELSE <<>>]
ObsTx(t) == [kv |-> RenderM(t.m).kv, blk |-> t.m.blk,
             io |-> Unreadable(TxEff(t), files) \ PendBlocks(t), cur |-> RenderCur(t)]
Obs ==
  [up |-> up,
   db |-> IF up /\ Idle THEN RenderV(model, Unreadable(Eff, files))
          ELSE [kv |-> EmptyFn, blk |-> {}, io |-> {}],
   tx |-> [h \in {x \in Handles : txs[x].st = "open"} |-> ObsTx(txs[h])],
   recov |-> {RenderM(r) : r \in recov \cup (IF cm.ph # "none" THEN {txs[W].m} ELSE {})}]

-----------------------------------------------------------------------------
\* PreBuckets are created by one flushed transaction before the first step,
\* in NameOrder, so they get the bucket ids 2, 3, ...
PreSeq == SelectSeq(NameOrder, LAMBDA n : <<n>> \in PreBuckets)
InitLdb == (WKey :> [f |-> 0, o |-> 0]) @@ (CKey :> 1 + Len(PreSeq))
           @@ [rk \in {BKey(0, PreSeq[i]) : i \in DOMAIN PreSeq} |->
                 1 + (CHOOSE i \in DOMAIN PreSeq : PreSeq[i] = rk[3])]
BaseModel == [kv |-> [p \in {<<>>} \cup {<<PreSeq[i]>> : i \in DOMAIN PreSeq} |-> EmptyFn], blk |-> {}]
PreVal == CHOOSE v \in ValSet : v # ""
\* that transaction leaves its keys and the write cursor row in the cache
InitCk == IF PreCache = {} THEN EmptyFn
          ELSE [rk \in {KKey(0, k) : k \in PreCache} \cup {WKey} |->
                  IF rk = WKey THEN [f |-> 0, o |-> 0] ELSE PreVal]
InitModel == IF PreCache = {} THEN BaseModel
             ELSE [BaseModel EXCEPT !.kv[<<>>] = [k \in PreCache |-> PreVal]]

Init ==
  /\ ldb = InitLdb /\ ck = InitCk /\ cr = {}
  /\ files = EmptyFn
  /\ wc = [f |-> 0, o |-> 0, open |-> FALSE]
  /\ txs = [h \in Handles |-> ClosedTx]
  /\ cm = NoCm
  /\ model = InitModel /\ recov = {BaseModel, InitModel}
  /\ up = TRUE
  /\ everPruned = {}
  /\ cnt = [tx |-> 0, rd |-> 0, crash |-> 0]
  /\ last = [a |-> "Init", keys |-> KeyOrder, vals |-> ValSet, names |-> NameOrder,
              depth |-> MaxDepth, blocks |-> BlockOrder,
              rawlen |-> [i \in DOMAIN BlockOrder |-> RawLen[BlockOrder[i]]],
              limit |-> Limit, target |-> PruneTarget, power |-> PowerLoss, pre |-> PreSeq,
              precache |-> SelectSeq(KeyOrder, LAMBDA k : k \in PreCache),
              preval |-> IF PreCache = {} THEN "" ELSE PreVal]
  /\ obs = Obs

-----------------------------------------------------------------------------
\* Begin / end of transactions (db.go begin, close).
Begin(h) ==
  /\ up /\ Idle /\ ~OpenTx(h)
  /\ IF h = W THEN cnt.tx < MaxTx ELSE cnt.rd < MaxReads
  /\ txs' = [txs EXCEPT ![h] = [ClosedTx EXCEPT !.st = "open", !.rw = (h = W),
                                                 !.snap = Eff, !.m = model]]
  /\ cnt' = IF h = W THEN [cnt EXCEPT !.tx = @ + 1] ELSE [cnt EXCEPT !.rd = @ + 1]
  /\ last' = [a |-> "Begin", h |-> h]
  /\ UNCHANGED <<ldb, ck, cr, files, wc, cm, model, recov, up, everPruned>>

Rollback(h) ==
  /\ up /\ Idle /\ txs[h].st = "open"
  /\ txs' = [txs EXCEPT ![h] = ClosedTx]
  /\ last' = [a |-> "Rollback", h |-> h]
  /\ UNCHANGED <<ldb, ck, cr, files, wc, cm, model, recov, up, everPruned, cnt>>

\* Writer operations (db.go bucket.Put/Delete/CreateBucket/DeleteBucket,
\* transaction.StoreBlock/PruneBlocks).
WOpen == up /\ Idle /\ txs[W].st = "open" /\ txs[W].nops < MaxOps /\ txs[W].cur.st = "none"
WUpd(t2, l) ==
  /\ txs' = [txs EXCEPT ![W] = [t2 EXCEPT !.nops = @ + 1]]
  /\ last' = l
  /\ UNCHANGED <<ldb, ck, cr, files, wc, cm, model, recov, up, everPruned, cnt>>

PutKey(t, rk, v) == [t EXCEPT !.pr = @ \ {rk}, !.pk = (rk :> v) @@ @]
DelKeys(t, S)    == [t EXCEPT !.pk = Without(@, S), !.pr = @ \cup S]

Put(p, k, v) ==
  /\ WOpen /\ p \in PutPaths
  /\ LET t == txs[W] id == IdOf(TxEff(t), p) IN
     /\ id # -1
     /\ WUpd([PutKey(t, KKey(id, k), v) EXCEPT !.m = MPut(t.m, p, k, v)],
             [a |-> "Put", p |-> p, k |-> k, v |-> v])

Delete(p, k) ==
  /\ WOpen /\ p \in PutPaths
  /\ LET t == txs[W] id == IdOf(TxEff(t), p) IN
     /\ id # -1
     /\ WUpd([DelKeys(t, {KKey(id, k)}) EXCEPT !.m = MDel(t.m, p, k)],
             [a |-> "Delete", p |-> p, k |-> k])

CreateBucket(p) ==
  /\ WOpen /\ p # <<>> /\ BucketOps
  /\ LET t == txs[W] E == TxEff(t) pid == IdOf(E, Parent(p)) IN
     /\ pid # -1 /\ IdOf(E, p) = -1
     /\ LET new == E[CKey] + 1
            t1  == PutKey(PutKey(t, CKey, new), BKey(pid, p[Len(p)]), new) IN
        WUpd([t1 EXCEPT !.m = MCreate(t.m, p)], [a |-> "CreateBucket", p |-> p])

DeleteBucket(p) ==
  /\ WOpen /\ p # <<>> /\ BucketOps
  /\ LET t == txs[W] E == TxEff(t) IN
     /\ IdOf(E, p) # -1
     /\ LET ids == {IdOf(E, q) : q \in {x \in BPaths : IsPrefix(p, x) /\ IdOf(E, x) # -1}}
            S   == {rk \in DOMAIN E : rk[1] \in {"k", "b"} /\ rk[2] \in ids}
                     \cup {BKey(IdOf(E, Parent(p)), p[Len(p)])} IN
        WUpd([DelKeys(t, S) EXCEPT !.m = MDrop(t.m, p)], [a |-> "DeleteBucket", p |-> p])

HasBlock(t, b) == b \in PendBlocks(t) \/ IKey(b) \in DOMAIN TxEff(t)

StoreBlock(b) ==
  /\ WOpen
  /\ LET t == txs[W] IN
     /\ ~HasBlock(t, b)
     /\ WUpd([t EXCEPT !.pb = Append(@, b), !.m = MStore(t.m, b)], [a |-> "StoreBlock", b |-> b])

\* StoreBlock of a block the transaction already sees: ErrBlockExists, no effect.
StoreDup(b) ==
  /\ WOpen
  /\ HasBlock(txs[W], b)
  /\ WUpd(txs[W], [a |-> "StoreDup", b |-> b])

\* PruneBlocks(PruneTarget): looks at the files on disk now (not at the
\* pending blocks), schedules the oldest files for deletion at commit and
\* removes the index rows of the blocks they hold from the transaction's view.
PruneFiles ==
  IF DOMAIN files = {} THEN {}
  ELSE LET first == SetMin(DOMAIN files)
           lst   == SetMax(DOMAIN files)
           total == files[lst].len + Limit * (lst - first) IN
       IF first = lst \/ total <= PruneTarget THEN {}
       ELSE LET n == CHOOSE j \in 1..(lst - first) :
                        /\ (total - j * Limit <= PruneTarget \/ j = lst - first)
                        /\ \A j2 \in 1..(j-1) : total - j2 * Limit > PruneTarget
            IN \* PruneLast: never the write cursor's file or a later one
               {f \in first .. (first + n - 1) : ~PruneLast \/ f < wc.f}

SortedNums(S) == LET RECURSIVE R(_)
                     R(T) == IF T = {} THEN <<>> ELSE <<SetMin(T)>> \o R(T \ {SetMin(T)})
                 IN R(S)

Prune ==
  /\ WOpen /\ ~txs[W].pruned /\ Blocks # {}
  /\ LET t == txs[W] E == TxEff(t) D == PruneFiles
         gone == {b \in AbsBlk(E) : E[IKey(b)].f \in D} IN
     WUpd([DelKeys(t, {IKey(b) : b \in gone}) EXCEPT
              !.pd = @ \o SortedNums(D), !.pruned = TRUE, !.m = MPrune(t.m, gone)],
          [a |-> "Prune", ret |-> gone, del |-> SortedNums(D)])

-----------------------------------------------------------------------------
\* An explicit cursor held by a transaction (db.go cursor).  Property layer:
\* the cursor ranges over the entries of bucket p in the transaction's view --
\* keys in byte order, then nested buckets in byte order; Next / Prev move to
\* the nearest entry after / before the current one; Delete removes the
\* current key without invalidating the cursor.  While a cursor is open the
\* transaction is updated only through Cursor.Delete (what an insert does to
\* a positioned cursor is left unspecified by the interface).
IndexOf(seq, x) == CHOOSE i \in DOMAIN seq : seq[i] = x
Pos(e) == IF e[1] = "k" THEN IndexOf(KeyOrder, e[2]) ELSE Len(KeyOrder) + IndexOf(NameOrder, e[2])
Entries(m, p) == {<<"k", k>> : k \in DOMAIN m.kv[p]}
                   \cup {<<"b", n>> : n \in {x \in Names : Append(p, x) \in DOMAIN m.kv}}
PlaceMin(c, S) == IF S = {} THEN [c EXCEPT !.st = "end", !.fresh = TRUE]
                  ELSE [c EXCEPT !.st = "at", !.fresh = TRUE,
                                 !.e = CHOOSE e \in S : \A f \in S : Pos(e) <= Pos(f)]
PlaceMax(c, S) == IF S = {} THEN [c EXCEPT !.st = "end", !.fresh = TRUE]
                  ELSE [c EXCEPT !.st = "at", !.fresh = TRUE,
                                 !.e = CHOOSE e \in S : \A f \in S : Pos(f) <= Pos(e)]

CurCan(h) == up /\ Idle /\ txs[h].st = "open" /\ txs[h].cur.n < MaxCur
CurSet(h, c, l) ==
  /\ txs' = [txs EXCEPT ![h].cur = [c EXCEPT !.n = @ + 1]]
  /\ last' = l @@ [a |-> "Cur", h |-> h, ret |-> c.st = "at"]
  /\ UNCHANGED <<ldb, ck, cr, files, wc, cm, model, recov, up, everPruned, cnt>>

CurOpen(h, p) ==
  /\ CurCan(h) /\ txs[h].cur.st = "none"
  /\ p # <<>> /\ p \in DOMAIN txs[h].m.kv
  /\ CurSet(h, [txs[h].cur EXCEPT !.st = "new", !.p = p], [op |-> "Open", p |-> p])

CurMove(h, op) ==
  /\ CurCan(h) /\ txs[h].cur.st # "none"
  /\ LET c == txs[h].cur
         E == Entries(txs[h].m, c.p)
         after  == {f \in E : Pos(f) > Pos(c.e)}
         before == {f \in E : Pos(f) < Pos(c.e)}
         stay == [c EXCEPT !.fresh = TRUE] IN
     CurSet(h, CASE op = "First" -> PlaceMin(c, E)
                 [] op = "Last"  -> PlaceMax(c, E)
                 [] op = "Next"  -> IF c.st = "at" THEN PlaceMin(c, after) ELSE stay
                 [] op = "Prev"  -> IF c.st = "at" THEN PlaceMax(c, before) ELSE stay,
            [op |-> op])

CurSeek(h, k) ==
  /\ CurCan(h) /\ txs[h].cur.st # "none"
  /\ LET c == txs[h].cur
         E == Entries(txs[h].m, c.p) IN
     CurSet(h, PlaceMin(c, {f \in E : Pos(f) >= Pos(<<"k", k>>)}), [op |-> "Seek", k |-> k])

CurDelete ==
  /\ CurCan(W)
  /\ LET t == txs[W] c == t.cur IN
     /\ c.st = "at" /\ c.fresh /\ c.e[1] = "k"
     /\ LET id == IdOf(TxEff(t), c.p)
            t2 == [DelKeys(t, {KKey(id, c.e[2])}) EXCEPT !.m = MDel(t.m, c.p, c.e[2]),
                                                       !.cur = [c EXCEPT !.fresh = FALSE, !.n = @ + 1]] IN
        /\ txs' = [txs EXCEPT ![W] = t2]
        /\ last' = [a |-> "Cur", h |-> W, op |-> "Delete", ret |-> TRUE]
        /\ UNCHANGED <<ldb, ck, cr, files, wc, cm, model, recov, up, everPruned, cnt>>

CurOps ==
  \/ \E h \in Handles, p \in BPaths : CurOpen(h, p)
  \/ \E h \in Handles, op \in {"First", "Last", "Next", "Prev"} : CurMove(h, op)
  \/ (CurSeeks /\ \E h \in Handles, k \in Keys : CurSeek(h, k))
  \/ CurDelete

-----------------------------------------------------------------------------
\* Commit = transaction.writePendingAndCommit + dbCache.commitTx, one step
\* per I/O call.  A step is either internal (no I/O: "int") or one I/O call
\* ("io") that succeeds, fails (injected) or, for the block payload write,
\* fails after writing part of the data.
Fails == IF MaxFaults > 0 /\ cm.nf < MaxFaults THEN {"ok", "fail"} ELSE {"ok"}

CStep(cm2, l) ==
  /\ cm' = cm2
  /\ last' = l
  /\ UNCHANGED <<model, recov, up, cnt>>

Internal(what) == [a |-> "int", what |-> what]
Io(op, f, res) == [a |-> "io", op |-> op, f |-> f, res |-> res]
Faulted(res) == IF res = "ok" THEN cm ELSE [cm EXCEPT !.nf = @ + 1]

CommitStart(fl) ==
  /\ up /\ Idle /\ txs[W].st = "open"
  /\ fl \in FlushModes
  /\ txs' = [txs EXCEPT ![W].st = "commit"]
  \* with PruneLast a transaction that prunes is always flushed (dbCache.needsFlush)
  /\ cm' = [NoCm EXCEPT !.ph = IF PruneLast THEN "blk" ELSE "del", !.i = 1,
                         !.fl = fl \/ (PruneLast /\ Len(txs[W].pd) > 0),
                         !.old = [f |-> wc.f, o |-> wc.o]]
  /\ last' = [a |-> "CommitStart", fl |-> fl]
  /\ UNCHANGED <<ldb, ck, cr, files, wc, model, recov, up, everPruned, cnt>>

\* 1. (original order) / 5. (PruneLast) delete the files scheduled by pruning.
\* Original order: before anything else, a failure ends the commit with an
\* error.  PruneLast: after the transaction is durable in leveldb; a file that
\* cannot be deleted is only logged (the transaction is committed).
StepDel ==
  /\ cm.ph = "del"
  /\ LET t == txs[W] IN
     IF cm.i > Len(t.pd)
     THEN /\ CStep(IF PruneLast THEN [cm EXCEPT !.ph = "end"] ELSE [cm EXCEPT !.ph = "blk", !.i = 1],
                   Internal("del-done"))
          /\ UNCHANGED <<ldb, ck, cr, files, wc, txs, everPruned>>
     ELSE \E res \in Fails :
          LET f == t.pd[cm.i] ok == res = "ok" /\ f \in DOMAIN files IN
          /\ files' = IF ok THEN Without(files, {f}) ELSE files
          /\ everPruned' = IF ok THEN everPruned \cup {f} ELSE everPruned
          /\ CStep(IF ok \/ PruneLast THEN [Faulted(res) EXCEPT !.i = @ + 1]
                   ELSE [Faulted(res) EXCEPT !.ph = "end", !.err = TRUE],
                   Io("delete", f, IF ok THEN "ok" ELSE "fail"))
          /\ UNCHANGED <<ldb, ck, cr, wc, txs>>

SyncFile(F, f) == [F EXCEPT ![f].synced = F[f].len]

\* 2. per pending block: roll over when the record does not fit ...
StepBlk ==
  /\ cm.ph = "blk"
  /\ LET t == txs[W] IN
     IF cm.i > Len(t.pb)
     THEN /\ CStep([cm EXCEPT !.ph = "wloc"], Internal("blocks-done"))
          /\ UNCHANGED <<ldb, ck, cr, files, wc, txs, everPruned>>
     ELSE LET roll == wc.o + RecLen(t.pb[cm.i]) > Limit
              next == [f |-> wc.f + 1, o |-> 0, open |-> FALSE] IN
          IF roll /\ wc.open
          THEN \* the file left behind is synced, then closed (blockio.go
               \* writeBlock); when the Sync fails the handle is closed anyway,
               \* the cursor stays and the commit is rolled back
               \E res \in Fails :
               /\ files' = IF res = "ok" THEN SyncFile(files, wc.f) ELSE files
               /\ wc' = IF res = "ok" THEN next ELSE [wc EXCEPT !.open = FALSE]
               /\ CStep(IF res = "ok" THEN [cm EXCEPT !.ph = "open", !.st = 0]
                        ELSE [Faulted(res) EXCEPT !.ph = "rb"],
                        Io("sync", wc.f, res))
               /\ UNCHANGED <<ldb, ck, cr, txs, everPruned>>
          ELSE LET wc2 == IF roll THEN next ELSE wc IN
               /\ wc' = wc2
               /\ CStep([cm EXCEPT !.ph = IF wc2.open THEN "w1" ELSE "open", !.st = wc2.o],
                        Internal(IF roll THEN "roll" ELSE "noroll"))
               /\ UNCHANGED <<ldb, ck, cr, files, txs, everPruned>>

NewFile == [len |-> 0, synced |-> 0, recs |-> {}]

\* ... open the write file when no handle is open ...
StepOpen ==
  /\ cm.ph = "open"
  /\ \E res \in Fails :
     /\ IF res = "ok"
        THEN /\ wc' = [wc EXCEPT !.open = TRUE]
             /\ files' = IF wc.f \in DOMAIN files THEN files ELSE (wc.f :> NewFile) @@ files
        ELSE UNCHANGED <<wc, files>>
     /\ CStep([Faulted(res) EXCEPT !.ph = IF res = "ok" THEN "w1" ELSE "rb"],
              Io("openwrite", wc.f, res))
     /\ UNCHANGED <<ldb, ck, cr, txs, everPruned>>

\* ... and write network, length, payload, checksum.
WriteAt(F, f, off, n, whole, b, st) ==
  LET keep == {r \in F[f].recs : r.off + RecLen(r.blk) <= off \/ r.off >= off + n}
      add  == IF whole THEN {[off |-> st, blk |-> b]} ELSE {} IN
  [F EXCEPT ![f] = [@ EXCEPT !.len = Max(@, off + n), !.recs = keep \cup add]]

PartLen(ph, b) == IF ph = "w3" THEN RawLen[b] ELSE 4
NextW(ph) == CASE ph = "w1" -> "w2" [] ph = "w2" -> "w3" [] ph = "w3" -> "w4" [] ph = "w4" -> "row"

StepWrite ==
  /\ cm.ph \in {"w1", "w2", "w3", "w4"}
  /\ LET b == txs[W].pb[cm.i] n == PartLen(cm.ph, b) IN
     \E res \in Fails \cup (IF cm.ph = "w3" /\ "fail" \in Fails THEN {"partial"} ELSE {}) :
       LET wrote == CASE res = "ok" -> n [] res = "fail" -> 0 [] res = "partial" -> n \div 2 IN
       /\ files' = IF wrote = 0 THEN files
                   ELSE WriteAt(files, wc.f, wc.o, wrote, res = "ok" /\ cm.ph = "w4", b, cm.st)
       /\ wc' = [wc EXCEPT !.o = @ + wrote]
       /\ CStep([Faulted(res) EXCEPT !.ph = IF res = "ok" THEN NextW(cm.ph) ELSE "rb"],
                [a |-> "io", op |-> "write", f |-> wc.f, res |-> res, part |-> cm.ph, n |-> n])
       /\ UNCHANGED <<ldb, ck, cr, txs, everPruned>>

StepRow ==
  /\ cm.ph = "row"
  /\ LET t == txs[W] b == t.pb[cm.i]
         loc == [f |-> wc.f, o |-> cm.st, l |-> RecLen(b)] IN
     /\ txs' = [txs EXCEPT ![W] = PutKey(t, IKey(b), loc)]
     /\ CStep([cm EXCEPT !.ph = "blk", !.i = @ + 1], Internal("row"))
     /\ UNCHANGED <<ldb, ck, cr, files, wc, everPruned>>

\* blockStore.handleRollback(old): close + delete newer files, reopen,
\* truncate, sync; every failure is only logged and the cursor is reset anyway.
StepRb ==
  /\ cm.ph = "rb"
  /\ IF wc.f = cm.old.f /\ wc.o = cm.old.o
     THEN /\ CStep([cm EXCEPT !.ph = "end", !.err = TRUE], Internal("rb-nothing"))
          /\ UNCHANGED wc
     ELSE IF wc.f > cm.old.f
     THEN /\ wc' = [wc EXCEPT !.open = FALSE]
          /\ CStep([cm EXCEPT !.ph = "rbdel"], Internal("rb-close"))
     ELSE /\ CStep([cm EXCEPT !.ph = "rbopen"], Internal("rb-same-file"))
          /\ UNCHANGED wc
  /\ UNCHANGED <<ldb, ck, cr, files, txs, everPruned>>

StepRbDel ==
  /\ cm.ph = "rbdel"
  /\ \E res \in Fails :
     LET ok == res = "ok" /\ wc.f \in DOMAIN files IN
     /\ files' = IF ok THEN Without(files, {wc.f}) ELSE files
     /\ wc' = IF ok THEN [wc EXCEPT !.f = @ - 1] ELSE wc
     /\ CStep([Faulted(res) EXCEPT !.ph = IF ~ok THEN "rbend"
                                           ELSE IF wc.f - 1 > cm.old.f THEN "rbdel" ELSE "rbopen"],
              Io("delete", wc.f, IF ok THEN "ok" ELSE "fail"))
     /\ UNCHANGED <<ldb, ck, cr, txs, everPruned>>

StepRbOpen ==
  /\ cm.ph = "rbopen"
  /\ IF wc.open
     THEN /\ CStep([cm EXCEPT !.ph = "rbtrunc"], Internal("rb-isopen"))
          /\ UNCHANGED <<wc, files>>
     ELSE \E res \in Fails :
          /\ IF res = "ok"
             THEN /\ wc' = [wc EXCEPT !.open = TRUE]
                  /\ files' = IF wc.f \in DOMAIN files THEN files ELSE (wc.f :> NewFile) @@ files
             ELSE UNCHANGED <<wc, files>>
          /\ CStep([Faulted(res) EXCEPT !.ph = IF res = "ok" THEN "rbtrunc" ELSE "rbend"],
                   Io("openwrite", wc.f, res))
  /\ UNCHANGED <<ldb, ck, cr, txs, everPruned>>

Truncate(F, f, to) ==
  [F EXCEPT ![f] = [len |-> to, synced |-> Min(@.synced, to),
                    recs |-> {r \in @.recs : r.off + RecLen(r.blk) <= to}]]

StepRbTrunc ==
  /\ cm.ph = "rbtrunc"
  /\ \E res \in Fails :
     /\ files' = IF res = "ok" THEN Truncate(files, wc.f, cm.old.o) ELSE files
     /\ CStep([Faulted(res) EXCEPT !.ph = IF res = "ok" THEN "rbsync" ELSE "rbend"],
              Io("truncate", wc.f, res))
     /\ UNCHANGED <<ldb, ck, cr, wc, txs, everPruned>>

StepRbSync ==
  /\ cm.ph = "rbsync"
  /\ \E res \in Fails :
     /\ files' = IF res = "ok" THEN SyncFile(files, wc.f) ELSE files
     /\ CStep([Faulted(res) EXCEPT !.ph = "rbend"], Io("sync", wc.f, res))
     /\ UNCHANGED <<ldb, ck, cr, wc, txs, everPruned>>

StepRbEnd ==
  /\ cm.ph = "rbend"
  /\ wc' = [wc EXCEPT !.f = cm.old.f, !.o = cm.old.o]
  /\ CStep([cm EXCEPT !.ph = "end", !.err = TRUE], Internal("rb-reset"))
  /\ UNCHANGED <<ldb, ck, cr, files, txs, everPruned>>

\* 3. the write cursor row joins the pending keys.
StepWloc ==
  /\ cm.ph = "wloc"
  /\ txs' = [txs EXCEPT ![W] = PutKey(txs[W], WKey, [f |-> wc.f, o |-> wc.o])]
  /\ CStep([cm EXCEPT !.ph = IF cm.fl THEN "sync" ELSE "merge"], Internal("wloc"))
  /\ UNCHANGED <<ldb, ck, cr, files, wc, everPruned>>

\* 4a. dbCache.commitTx without flush: merge into the cache.
StepMerge ==
  /\ cm.ph = "merge"
  /\ LET t == txs[W] IN
     /\ ck' = Overlay(ck, t.pk, t.pr)
     /\ cr' = (cr \ DOMAIN t.pk) \cup t.pr
  /\ CStep([cm EXCEPT !.ph = "end"], Internal("merge"))
  /\ UNCHANGED <<ldb, files, wc, txs, everPruned>>

\* 4b. with flush: sync the current block file, one leveldb transaction for
\* the cache, one for the transaction itself.
StepSync ==
  /\ cm.ph = "sync"
  /\ IF ~wc.open
     THEN /\ CStep([cm EXCEPT !.ph = "fldb"], Internal("sync-nofile"))
          /\ UNCHANGED files
     ELSE \E res \in Fails :
          /\ files' = IF res = "ok" THEN SyncFile(files, wc.f) ELSE files
          /\ CStep(IF res = "ok" THEN [cm EXCEPT !.ph = "fldb"]
                   ELSE [Faulted(res) EXCEPT !.ph = "end", !.err = TRUE],
                   Io("sync", wc.f, res))
  /\ UNCHANGED <<ldb, ck, cr, wc, txs, everPruned>>

StepFldb ==
  /\ cm.ph = "fldb"
  /\ IF DOMAIN ck = {} /\ cr = {}
     THEN /\ cm' = [cm EXCEPT !.ph = "tldb"]
          /\ last' = Internal("cache-empty")
          /\ recov' = {model}
          /\ UNCHANGED <<ldb, ck, cr>>
     ELSE \E res \in Fails :
          /\ IF res = "ok"
             THEN /\ ldb' = Overlay(ldb, ck, cr) /\ ck' = EmptyFn /\ cr' = {}
                  /\ recov' = {model}
             ELSE UNCHANGED <<ldb, ck, cr, recov>>
          /\ cm' = IF res = "ok" THEN [cm EXCEPT !.ph = "tldb"]
                   ELSE [Faulted(res) EXCEPT !.ph = "end", !.err = TRUE]
          /\ last' = Io("ldbcommit", 0, res)
  /\ UNCHANGED <<files, wc, txs, model, up, everPruned, cnt>>

StepTldb ==
  /\ cm.ph = "tldb"
  /\ \E res \in Fails :
     /\ ldb' = IF res = "ok" THEN Overlay(ldb, txs[W].pk, txs[W].pr) ELSE ldb
     /\ CStep(IF res = "ok"
              THEN IF PruneLast /\ Len(txs[W].pd) > 0 THEN [cm EXCEPT !.ph = "del", !.i = 1]
                   ELSE [cm EXCEPT !.ph = "end"]
              ELSE [Faulted(res) EXCEPT !.ph = "end", !.err = TRUE],
              Io("ldbcommit", 0, res))
     /\ UNCHANGED <<ck, cr, files, wc, txs, everPruned>>

\* 5. Commit returns; the transaction is closed either way.
CommitEnd ==
  /\ cm.ph = "end"
  /\ txs' = [txs EXCEPT ![W] = ClosedTx]
  /\ cm' = NoCm
  /\ model' = IF cm.err THEN model ELSE txs[W].m
  /\ recov' = IF cm.err THEN recov
              ELSE IF cm.fl THEN {txs[W].m} ELSE recov \cup {txs[W].m}
  /\ last' = [a |-> "CommitEnd", err |-> cm.err]
  /\ UNCHANGED <<ldb, ck, cr, files, wc, up, everPruned, cnt>>

CommitSteps ==
  \/ StepDel \/ StepBlk \/ StepOpen \/ StepWrite \/ StepRow
  \/ StepRb \/ StepRbDel \/ StepRbOpen \/ StepRbTrunc \/ StepRbSync \/ StepRbEnd
  \/ StepWloc \/ StepMerge \/ StepSync \/ StepFldb \/ StepTldb \/ CommitEnd

-----------------------------------------------------------------------------
\* Crash and recovery (reconcile.go reconcileDB, blockio.go scanBlockFiles).
PowerCut(F) ==
  [f \in DOMAIN F |-> [len |-> F[f].synced, synced |-> F[f].synced,
                       recs |-> {r \in F[f].recs : r.off + RecLen(r.blk) <= F[f].synced}]]

Crash ==
  /\ up
  /\ CrashMode # "none" /\ cnt.crash < MaxCrash
  /\ IF CrashMode = "idle" THEN Idle /\ txs[W].st = "closed"
     ELSE Idle \/ last.a \in {"io", "CommitStart"}
  /\ up' = FALSE
  /\ files' = IF PowerLoss THEN PowerCut(files) ELSE files
  /\ ck' = EmptyFn /\ cr' = {}
  /\ txs' = [h \in Handles |-> ClosedTx]
  /\ cm' = NoCm
  /\ wc' = [f |-> 0, o |-> 0, open |-> FALSE]
  /\ cnt' = [cnt EXCEPT !.crash = @ + 1]
  \* an in-flight commit may or may not have become durable
  /\ recov' = recov \cup (IF cm.ph # "none" THEN {txs[W].m} ELSE {})
  /\ last' = [a |-> "Crash", power |-> PowerLoss]
  /\ UNCHANGED <<ldb, model, everPruned>>

\* What Open does to the block files given the durable cursor row.  The
\* result carries ok = FALSE when reconcileDB reports corruption.
Recover(L, F) ==
  LET meta == L[WKey]
      disk == IF DOMAIN F = {} THEN [f |-> 0, o |-> 0]
              ELSE [f |-> SetMax(DOMAIN F), o |-> F[SetMax(DOMAIN F)].len]
      ahead  == disk.f > meta.f \/ (disk.f = meta.f /\ disk.o > meta.o)
      behind == disk.f < meta.f \/ (disk.f = meta.f /\ disk.o < meta.o)
  IN IF behind THEN [ok |-> FALSE, files |-> F, wc |-> [f |-> disk.f, o |-> disk.o, open |-> FALSE]]
     ELSE IF ~ahead THEN [ok |-> TRUE, files |-> F, wc |-> [f |-> disk.f, o |-> disk.o, open |-> FALSE]]
     ELSE \* handleRollback(meta): delete newer files, open (creating) the
          \* cursor's file, truncate, sync.  Files are numbered contiguously.
          LET F1 == Restrict(F, {f \in DOMAIN F : f <= meta.f})
              F2 == IF meta.f \in DOMAIN F1 THEN F1 ELSE (meta.f :> NewFile) @@ F1
              F3 == SyncFile(Truncate(F2, meta.f, meta.o), meta.f)
          IN [ok |-> TRUE, files |-> F3, wc |-> [f |-> meta.f, o |-> meta.o, open |-> TRUE]]

Reopen ==
  /\ ~up
  /\ LET r == Recover(ldb, files) IN
     /\ files' = r.files
     /\ wc' = r.wc
     /\ up' = r.ok
     /\ model' = Abs(ldb)
     /\ recov' = {Abs(ldb)}
     /\ last' = [a |-> "Reopen", ok |-> r.ok]
  /\ UNCHANGED <<ldb, ck, cr, txs, cm, everPruned, cnt>>

\* Clean shutdown and restart: Close flushes (sync + one leveldb transaction),
\* Open reconciles.
Restart ==
  /\ AllowRestart /\ up /\ Idle /\ NoOpenTx
  /\ cnt.crash < MaxCrash
  /\ LET F1 == IF wc.open THEN SyncFile(files, wc.f) ELSE files
         L1 == Overlay(ldb, ck, cr)
         r  == Recover(L1, F1) IN
     /\ ldb' = L1 /\ ck' = EmptyFn /\ cr' = {}
     /\ files' = r.files /\ wc' = r.wc
     /\ up' = r.ok
     /\ recov' = {model}
     /\ last' = [a |-> "Restart", ok |-> r.ok]
  /\ cnt' = [cnt EXCEPT !.crash = @ + 1]
  /\ UNCHANGED <<txs, cm, model, everPruned>>

-----------------------------------------------------------------------------
Ops ==
  \/ \E h \in Handles : Begin(h) \/ Rollback(h)
  \/ \E p \in BPaths, k \in Keys, v \in ValSet : Put(p, k, v)
  \/ \E p \in BPaths, k \in Keys : Delete(p, k)
  \/ \E p \in BPaths : CreateBucket(p) \/ DeleteBucket(p)
  \/ \E b \in Blocks : StoreBlock(b) \/ StoreDup(b)
  \/ Prune
  \/ (MaxCur > 0 /\ CurOps)
  \/ \E fl \in BOOLEAN : CommitStart(fl)

Next ==
  /\ \/ Ops
     \/ (up /\ CommitSteps)
     \/ Crash \/ Reopen \/ Restart
  /\ obs' = Obs'

Spec == Init /\ [][Next]_vars

-----------------------------------------------------------------------------
\* Invariants: the implementation layer refines the property layer.

\* A view (raw map E over the current files) shows exactly model m, and every
\* block it lists is readable -- except blocks whose file was deleted by
\* pruning (known defect, kept visible in `obs.io').
Shows(E, pend, m, exc) ==
  /\ AbsKV(E) = m.kv
  /\ AbsBlk(E) \cup pend = m.blk
  /\ Unreadable(E, files) \ pend \subseteq exc

\* With the original commit order the committed / durable state itself can
\* hold such rows (failed commit, crash); with PruneLast only the snapshot of
\* a transaction that was open across a pruning commit can.
ExcusedCommitted(E, F) == IF PruneLast THEN {} ELSE Excused(E, F)

\* Atomicity: between transactions the store shows the committed model; a
\* failed or rolled-back transaction leaves it unchanged, a successful one
\* replaces it by the transaction's model (CommitEnd).
Atomicity == (up /\ Idle) => Shows(Eff, {}, model, ExcusedCommitted(Eff, files))

\* Isolation / read-your-writes: every open transaction sees the model at its
\* Begin transformed by its own operations only.
Isolation ==
  \A h \in Handles : txs[h].st = "open" =>
     Shows(TxEff(txs[h]), PendBlocks(txs[h]), txs[h].m, Excused(TxEff(txs[h]), files))

\* Prefix durability, evaluated in every state: if the process stopped here,
\* Open would succeed and show one of the allowed models.
DurableNow ==
  LET F == IF PowerLoss THEN PowerCut(files) ELSE files
      r == Recover(ldb, F)
      allowed == recov \cup (IF cm.ph # "none" THEN {txs[W].m} ELSE {}) IN
  /\ r.ok
  /\ Abs(ldb) \in allowed
  /\ Unreadable(ldb, r.files) \subseteq ExcusedCommitted(ldb, r.files)
PrefixDurability == up => DurableNow

ReopenOK == (last.a \in {"Reopen", "Restart"}) => up

\* Structure: pending puts and removes are disjoint, cache likewise; the
\* cursor never points below valid data.
Disjoint ==
  /\ DOMAIN ck \cap cr = {}
  /\ \A h \in Handles : DOMAIN txs[h].pk \cap txs[h].pr = {}

TypeOK ==
  /\ up \in BOOLEAN
  /\ cm.ph \in {"none", "del", "blk", "open", "w1", "w2", "w3", "w4", "row", "rb", "rbdel", "rbopen",
                "rbtrunc", "rbsync", "rbend", "wloc", "merge", "sync", "fldb", "tldb", "end"}
  /\ \A f \in DOMAIN files : files[f].synced <= files[f].len

\* Nothing unreadable at all (false exactly on the pruning defects; used to
\* exhibit them).
NoDangling ==
  /\ (up /\ Idle) => Unreadable(Eff, files) = {}
  /\ \A h \in Handles : txs[h].st = "open" => Unreadable(TxEff(txs[h]), files) \ PendBlocks(txs[h]) = {}

=============================================================================
