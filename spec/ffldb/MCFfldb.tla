------------------------------ MODULE MCFfldb ------------------------------
(* Model-checking instances of Ffldb: constant definitions that a .cfg file *)
(* cannot express (sequences, functions).                                   *)
EXTENDS Ffldb

\* Block records on disk are RawLen + 12 bytes: 93, 93 and 186 bytes.  With
\* Limit = 186 two small records or one large record fill a file exactly
\* (roll-over is `offset + record > Limit'); with Limit = 279 three small
\* ones or a small and a large one do.  The harness builds real blocks of
\* exactly these serialized lengths.
\* The order in which transaction.writePendingAndCommit deletes pruned block
\* files, as in the code under test (see Ffldb.tla PruneLast).
MC_PruneLast == TRUE

MC_RawLen == [b \in {"B1", "B2", "B3"} |-> IF b = "B3" THEN 174 ELSE 81]

K0 == <<>>
K1 == <<"k1">>
K2 == <<"k1", "k2">>
K3 == <<"k1", "k2", "k3">>
K5 == <<"k1", "k2", "k3", "k4", "k5">>
NoKeys == {}
AllKeys == Keys
N0 == <<>>
N1 == <<"a">>
N2 == <<"a", "b">>
B0 == <<>>
B1 == <<"B1">>
B2 == <<"B1", "B3">>
B3 == <<"B1", "B2", "B3">>
V1 == {"v1"}
V2 == {"", "v1"}
V3 == {"", "v1", "v2"}
NoReaders == {}
R1 == {"r1"}
R2 == {"r1", "r2"}
AllPaths == BPaths
Nested == BPaths \ {<<>>}
NoPaths == {}
PreA == {<<"a">>}
FlushBoth == {TRUE, FALSE}
FlushNever == {FALSE}
FlushAlways == {TRUE}
=============================================================================
