------------------------------ MODULE MCTreap ------------------------------
EXTENDS Treap
MC_Vals == {"", "a", "bb"}
MC_Vals2 == {"", "a"}
MC_KeyLen == [k \in 1..3 |-> k]
MC_KeyLen6 == [k \in 1..6 |-> 1 + (k % 3)]
NoKeys == {}
AllKeys6 == 1..6
MC_ValLen2 == [v \in MC_Vals2 |-> IF v = "" THEN 0 ELSE 1]
MC_ValLen == [v \in MC_Vals |-> IF v = "" THEN 0 ELSE IF v = "a" THEN 1 ELSE 2]
=============================================================================
