------------------------------- MODULE Treap -------------------------------
(***************************************************************************)
(* database/internal/treap as ffldb uses it (property C05, isolation):     *)
(*                                                                         *)
(*  - Immutable: every Put / Put(many) / Delete on a version yields a NEW   *)
(*    version; all older versions keep their contents (this is what makes  *)
(*    dbCache.Snapshot an O(1) MVCC snapshot);                             *)
(*  - Mutable: updated in place (a transaction's pending keys);            *)
(*  - Iterator over a mutable treap, range limited, which ffldb forces to  *)
(*    reseek after every update of the treap (transaction.notifyActiveIters*)
(*    -> Iterator.ForceReseek);                                            *)
(*  - Len and Size bookkeeping (Size feeds dbCache.needsFlush).            *)
(*                                                                         *)
(* Keys are 1..NK, numeric order standing for byte order.  The shape of    *)
(* the tree (random priorities) is not observable and not modelled: the    *)
(* specification is the ordered-map semantics every shape must have.       *)
(***************************************************************************)
EXTENDS Naturals, Sequences, FiniteSets, TLC

CONSTANTS NK,        \* keys are 1..NK
          Vals,      \* values
          KeyLen,    \* key -> byte length
          ValLen,    \* value -> byte length
          Overhead,  \* fixed per-node size
          MaxVers,   \* immutable versions created
          MaxMut,    \* updates of the mutable treap
          MaxMoves,  \* iterator moves
          InitKeys,  \* keys present (with value InitVal) in the first immutable version
          InitVal,
          Put2       \* TRUE: two-pair Put is exercised

VARIABLES vers,   \* sequence of immutable versions (key -> value functions)
          mut,    \* contents of the mutable treap
          it,     \* iterator over mut
          cnt, last, obs

vars == <<vers, mut, it, cnt, last, obs>>

Keys == 1..NK
EmptyFn == <<>>
Without(f, S) == [x \in DOMAIN f \ S |-> f[x]]
PutF(f, k, x) == (k :> x) @@ f

SizeOf(f) == LET RECURSIVE S(_)
                 S(D) == IF D = {} THEN 0
                         ELSE LET k == CHOOSE y \in D : TRUE
                              IN Overhead + KeyLen[k] + ValLen[f[k]] + S(D \ {k})
             IN S(DOMAIN f)

\* in-order contents
Render(f) == LET ks == SelectSeq([i \in 1..NK |-> i], LAMBDA k : k \in DOMAIN f)
             IN [seq |-> [i \in 1..Len(ks) |-> <<ks[i], f[ks[i]]>>],
                 len |-> Cardinality(DOMAIN f), size |-> SizeOf(f)]

\* Iterator: st = "none" (no iterator), "new" (created, unpositioned),
\* "at" (positioned at key k), "end" (exhausted).  [lo, hi) is its range: ffldb
\* always passes both bounds (util.BytesPrefix); hi = NK + 1 is a limit key
\* above every key.  (Iterators with a missing bound are not modelled: First
\* / Last then skip the range check.)  fresh: no update since the last move (only
\* then is Value() meaningful).
NoIt == [st |-> "none", k |-> 0, lo |-> 0, hi |-> NK + 1, fresh |-> FALSE]

InRange(k) == it.lo <= k /\ k < it.hi
Place(k) == IF k # 0 /\ InRange(k) THEN [it EXCEPT !.st = "at", !.k = k, !.fresh = TRUE]
            ELSE [it EXCEPT !.st = "end", !.k = 0, !.fresh = TRUE]
LeastGE(k)    == IF \E x \in DOMAIN mut : x >= k THEN CHOOSE x \in DOMAIN mut : x >= k /\ \A y \in DOMAIN mut : y >= k => x <= y ELSE 0
LeastGT(k)    == LeastGE(k + 1)
GreatestLT(k) == IF \E x \in DOMAIN mut : x < k THEN CHOOSE x \in DOMAIN mut : x < k /\ \A y \in DOMAIN mut : y < k => y <= x ELSE 0

Obs == [vers |-> [i \in DOMAIN vers |-> Render(vers[i])],
        mut  |-> Render(mut),
        it   |-> [st |-> it.st, k |-> it.k, fresh |-> it.fresh,
                  v |-> IF it.st = "at" /\ it.fresh /\ it.k \in DOMAIN mut THEN <<mut[it.k]>> ELSE <<>>]]

Init == /\ vers = <<[k \in InitKeys |-> InitVal]>> /\ mut = EmptyFn /\ it = NoIt
        /\ cnt = [mu |-> 0, mv |-> 0]
        /\ last = [a |-> "Init", nk |-> NK, vals |-> Vals, keylen |-> KeyLen, vallen |-> ValLen,
                   init |-> SelectSeq([i \in 1..NK |-> i], LAMBDA k : k \in InitKeys), initval |-> InitVal]
        /\ obs = Obs

\* ---- immutable
IPut(v, k, x) ==
  /\ Len(vers) < MaxVers
  /\ vers' = Append(vers, PutF(vers[v], k, x))
  /\ last' = [a |-> "IPut", v |-> v, kv |-> <<<<k, x>>>>]
  /\ UNCHANGED <<mut, it, cnt>>

\* Immutable.Put(kv1, kv2): one new version (intermediate nodes are recycled)
IPut2(v, k1, x1, k2, x2) ==
  /\ Len(vers) < MaxVers
  /\ vers' = Append(vers, PutF(PutF(vers[v], k1, x1), k2, x2))
  /\ last' = [a |-> "IPut", v |-> v, kv |-> <<<<k1, x1>>, <<k2, x2>>>>]
  /\ UNCHANGED <<mut, it, cnt>>

IDelete(v, k) ==
  /\ Len(vers) < MaxVers
  /\ vers' = Append(vers, Without(vers[v], {k}))
  /\ last' = [a |-> "IDelete", v |-> v, k |-> k]
  /\ UNCHANGED <<mut, it, cnt>>

\* ---- mutable; every update is followed by ForceReseek on the iterator
Stale == IF it.st = "none" THEN it ELSE [it EXCEPT !.fresh = FALSE]
MPut(k, x) ==
  /\ cnt.mu < MaxMut
  /\ mut' = PutF(mut, k, x) /\ it' = Stale
  /\ cnt' = [cnt EXCEPT !.mu = @ + 1]
  /\ last' = [a |-> "MPut", k |-> k, x |-> x]
  /\ UNCHANGED vers
MDelete(k) ==
  /\ cnt.mu < MaxMut
  /\ mut' = Without(mut, {k}) /\ it' = Stale
  /\ cnt' = [cnt EXCEPT !.mu = @ + 1]
  /\ last' = [a |-> "MDelete", k |-> k]
  /\ UNCHANGED vers

\* ---- iterator
NewIter(lo, hi) ==
  /\ it.st = "none" /\ lo < hi /\ MaxMoves > 0
  /\ it' = [NoIt EXCEPT !.st = "new", !.lo = lo, !.hi = hi]
  /\ last' = [a |-> "NewIter", lo |-> lo, hi |-> hi]
  /\ UNCHANGED <<vers, mut, cnt>>
Move(l, nit) ==
  /\ it.st # "none" /\ cnt.mv < MaxMoves
  /\ it' = nit
  /\ cnt' = [cnt EXCEPT !.mv = @ + 1]
  /\ last' = l
  /\ UNCHANGED <<vers, mut>>
\* First: least key >= lo (seek to the start key); Last: greatest key < hi
First == Move([a |-> "First"], Place(LeastGE(it.lo)))
Last  == Move([a |-> "Last"], Place(GreatestLT(it.hi)))
Seek(k) == Move([a |-> "Seek", k |-> k], Place(LeastGE(k)))
Next == Move([a |-> "Next"],
             CASE it.st = "new" -> Place(LeastGE(it.lo))
               [] it.st = "end" -> [it EXCEPT !.fresh = TRUE]
               [] it.st = "at"  -> Place(LeastGT(it.k)))
Prev == Move([a |-> "Prev"],
             CASE it.st = "new" -> Place(GreatestLT(it.hi))
               [] it.st = "end" -> [it EXCEPT !.fresh = TRUE]
               [] it.st = "at"  -> Place(GreatestLT(it.k)))

Next_ ==
  /\ \/ \E v \in DOMAIN vers, k \in Keys, x \in Vals : IPut(v, k, x)
     \/ (Put2 /\ \E v \in DOMAIN vers, k1, k2 \in Keys, x1, x2 \in Vals : IPut2(v, k1, x1, k2, x2))
     \/ \E v \in DOMAIN vers, k \in Keys : IDelete(v, k)
     \/ \E k \in Keys, x \in Vals : MPut(k, x)
     \/ \E k \in Keys : MDelete(k)
     \/ \E lo \in 1..NK, hi \in 2..(NK + 1) : NewIter(lo, hi)
     \/ First \/ Last \/ Next \/ Prev \/ \E k \in Keys : Seek(k)
  /\ obs' = Obs'

Spec == Init /\ [][Next_]_vars

\* Persistence: a step never changes an existing version.
Persistent == [][\A i \in DOMAIN vers : vers'[i] = vers[i]]_vars
\* The iterator is positioned inside its range on a key (possibly just removed).
IterOK == it.st = "at" => (it.lo <= it.k /\ it.k < it.hi)
SizeOK == \A i \in DOMAIN vers : (DOMAIN vers[i] = {}) <=> (SizeOf(vers[i]) = 0)
=============================================================================
