\* thorough (TLC only): three write txs, three blocks, 279 byte limit
INIT Init
NEXT Next
CONSTANTS
  KeyOrder <- K0
  ValSet <- V1
  NameOrder <- N0
  MaxDepth = 0
  BlockOrder <- B3
  RawLen <- MC_RawLen
  Limit = 279
  PruneTarget = 279
  MaxTx = 3
  MaxOps = 2
  Readers <- NoReaders
  MaxReads = 0
  MaxFaults = 1
  CrashMode = "steps"
  PowerLoss = FALSE
  MaxCrash = 1
  FlushModes <- FlushBoth
  AllowRestart = FALSE
  MaxCur = 0
  PutPaths <- AllPaths
  CurSeeks = FALSE
  BucketOps = TRUE
  PreBuckets <- NoPaths
  PreCache <- NoKeys
  PruneLast <- MC_PruneLast
INVARIANTS TypeOK Disjoint Atomicity Isolation PrefixDurability ReopenOK
