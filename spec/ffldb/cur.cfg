\* explicit cursor of the writer: bucket a with up to three keys pending in the transaction; First/Last/Next/Prev in any order and Cursor.Delete
INIT Init
NEXT Next
CONSTANTS
  KeyOrder <- K3
  ValSet <- V1
  NameOrder <- N1
  MaxDepth = 1
  BlockOrder <- B0
  RawLen <- MC_RawLen
  Limit = 186
  PruneTarget = 186
  MaxTx = 1
  MaxOps = 3
  Readers <- NoReaders
  MaxReads = 0
  MaxFaults = 0
  CrashMode = "none"
  PowerLoss = FALSE
  MaxCrash = 0
  FlushModes <- FlushNever
  AllowRestart = FALSE
  MaxCur = 5
  PutPaths <- Nested
  CurSeeks = FALSE
  BucketOps = FALSE
  PreBuckets <- PreA
  PreCache <- NoKeys
  PruneLast <- MC_PruneLast
INVARIANTS TypeOK Disjoint Atomicity Isolation PrefixDurability ReopenOK
