\* (simulation) explicit cursors of the writer and of a reader over keys spread over the durable store, the cache and the pending keys; Seek included
INIT Init
NEXT Next
CONSTANTS
  KeyOrder <- K3
  ValSet <- V1
  NameOrder <- N1
  MaxDepth = 1
  BlockOrder <- B0
  RawLen <- MC_RawLen
  Limit = 186
  PruneTarget = 186
  MaxTx = 2
  MaxOps = 2
  Readers <- R1
  MaxReads = 1
  MaxFaults = 0
  CrashMode = "none"
  PowerLoss = FALSE
  MaxCrash = 0
  FlushModes <- FlushBoth
  AllowRestart = FALSE
  MaxCur = 5
  PutPaths <- Nested
  CurSeeks = TRUE
  BucketOps = FALSE
  PreBuckets <- PreA
  PreCache <- NoKeys
  PruneLast <- MC_PruneLast
INVARIANTS TypeOK Disjoint Atomicity Isolation PrefixDurability ReopenOK
