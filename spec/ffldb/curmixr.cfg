\* explicit cursors of the writer and of a reader over two keys of which one is durable or cached and the other cached or pending (direction changes across the two sources)
INIT Init
NEXT Next
CONSTANTS
  KeyOrder <- K2
  ValSet <- V1
  NameOrder <- N1
  MaxDepth = 1
  BlockOrder <- B0
  RawLen <- MC_RawLen
  Limit = 186
  PruneTarget = 186
  MaxTx = 2
  MaxOps = 1
  Readers <- R1
  MaxReads = 1
  MaxFaults = 0
  CrashMode = "none"
  PowerLoss = FALSE
  MaxCrash = 0
  FlushModes <- FlushBoth
  AllowRestart = FALSE
  MaxCur = 4
  PutPaths <- Nested
  CurSeeks = FALSE
  BucketOps = FALSE
  PreBuckets <- PreA
  PreCache <- NoKeys
  PruneLast <- MC_PruneLast
INVARIANTS TypeOK Disjoint Atomicity Isolation PrefixDurability ReopenOK
