\* thorough: two I/O faults per commit (the second one hits the rollback path)
INIT Init
NEXT Next
CONSTANTS
  KeyOrder <- K0
  ValSet <- V1
  NameOrder <- N0
  MaxDepth = 0
  BlockOrder <- B2
  RawLen <- MC_RawLen
  Limit = 186
  PruneTarget = 186
  MaxTx = 2
  MaxOps = 2
  Readers <- NoReaders
  MaxReads = 0
  MaxFaults = 2
  CrashMode = "none"
  PowerLoss = FALSE
  MaxCrash = 0
  FlushModes <- FlushBoth
  AllowRestart = FALSE
  MaxCur = 0
  PutPaths <- AllPaths
  CurSeeks = FALSE
  BucketOps = TRUE
  PreBuckets <- NoPaths
  PreCache <- NoKeys
  PruneLast <- MC_PruneLast
INVARIANTS TypeOK Disjoint Atomicity Isolation PrefixDurability ReopenOK
