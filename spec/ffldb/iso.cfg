\* quick: two read transactions and one writer interleaved at operation granularity
INIT Init
NEXT Next
CONSTANTS
  KeyOrder <- K1
  ValSet <- V2
  NameOrder <- N0
  MaxDepth = 0
  BlockOrder <- B0
  RawLen <- MC_RawLen
  Limit = 186
  PruneTarget = 186
  MaxTx = 2
  MaxOps = 1
  Readers <- R2
  MaxReads = 2
  MaxFaults = 0
  CrashMode = "none"
  PowerLoss = FALSE
  MaxCrash = 0
  FlushModes <- FlushBoth
  AllowRestart = FALSE
  MaxCur = 0
  PutPaths <- AllPaths
  CurSeeks = FALSE
  BucketOps = TRUE
  PreBuckets <- NoPaths
  PreCache <- NoKeys
  PruneLast <- MC_PruneLast
INVARIANTS TypeOK Disjoint Atomicity Isolation PrefixDurability ReopenOK
