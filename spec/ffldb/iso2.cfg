\* thorough: two readers, one writer, 2 keys and a nested bucket
INIT Init
NEXT Next
CONSTANTS
  KeyOrder <- K2
  ValSet <- V2
  NameOrder <- N1
  MaxDepth = 1
  BlockOrder <- B0
  RawLen <- MC_RawLen
  Limit = 186
  PruneTarget = 186
  MaxTx = 2
  MaxOps = 2
  Readers <- R2
  MaxReads = 2
  MaxFaults = 0
  CrashMode = "none"
  PowerLoss = FALSE
  MaxCrash = 0
  FlushModes <- FlushBoth
  AllowRestart = FALSE
  MaxCur = 0
  PutPaths <- AllPaths
  CurSeeks = FALSE
  BucketOps = TRUE
  PreBuckets <- NoPaths
  PreCache <- NoKeys
  PruneLast <- MC_PruneLast
INVARIANTS TypeOK Disjoint Atomicity Isolation PrefixDurability ReopenOK
