\* quick: one read transaction against a writer that stores, rolls over and prunes block files
INIT Init
NEXT Next
CONSTANTS
  KeyOrder <- K0
  ValSet <- V1
  NameOrder <- N0
  MaxDepth = 0
  BlockOrder <- B2
  RawLen <- MC_RawLen
  Limit = 186
  PruneTarget = 186
  MaxTx = 2
  MaxOps = 2
  Readers <- R1
  MaxReads = 1
  MaxFaults = 0
  CrashMode = "none"
  PowerLoss = FALSE
  MaxCrash = 0
  FlushModes <- FlushBoth
  AllowRestart = FALSE
  MaxCur = 0
  PutPaths <- AllPaths
  CurSeeks = FALSE
  BucketOps = TRUE
  PreBuckets <- NoPaths
  PreCache <- NoKeys
  PruneLast <- MC_PruneLast
INVARIANTS TypeOK Disjoint Atomicity Isolation PrefixDurability ReopenOK
