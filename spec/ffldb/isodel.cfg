\* a reader held across a commit that deletes / overwrites keys of a cache holding five user keys plus the write-cursor row (deleting inner nodes of the cache treap while an older version is still read); no flush
INIT Init
NEXT Next
CONSTANTS
  KeyOrder <- K5
  ValSet <- V1
  NameOrder <- N0
  MaxDepth = 0
  BlockOrder <- B0
  RawLen <- MC_RawLen
  Limit = 186
  PruneTarget = 186
  MaxTx = 1
  MaxOps = 3
  Readers <- R1
  MaxReads = 1
  MaxFaults = 0
  CrashMode = "none"
  PowerLoss = FALSE
  MaxCrash = 0
  FlushModes <- FlushNever
  AllowRestart = FALSE
  MaxCur = 0
  PutPaths <- AllPaths
  CurSeeks = FALSE
  BucketOps = FALSE
  PreBuckets <- NoPaths
  PreCache <- AllKeys
  PruneLast <- MC_PruneLast
INVARIANTS TypeOK Disjoint Atomicity Isolation PrefixDurability ReopenOK
