\* quick+thorough: 2 keys x {empty,v1} x nested bucket; 2 write txs x 2 ops; commit/rollback, flush or not, crash between commits and after every I/O call of a commit, clean restart
INIT Init
NEXT Next
CONSTANTS
  KeyOrder <- K2
  ValSet <- V2
  NameOrder <- N1
  MaxDepth = 1
  BlockOrder <- B0
  RawLen <- MC_RawLen
  Limit = 186
  PruneTarget = 186
  MaxTx = 2
  MaxOps = 2
  Readers <- NoReaders
  MaxReads = 0
  MaxFaults = 0
  CrashMode = "steps"
  PowerLoss = FALSE
  MaxCrash = 1
  FlushModes <- FlushBoth
  AllowRestart = TRUE
  MaxCur = 0
  PutPaths <- AllPaths
  CurSeeks = FALSE
  BucketOps = TRUE
  PreBuckets <- NoPaths
  PreCache <- NoKeys
  PruneLast <- MC_PruneLast
INVARIANTS TypeOK Disjoint Atomicity Isolation PrefixDurability ReopenOK
