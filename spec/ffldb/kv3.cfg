\* thorough (TLC only): 3 keys x {empty,v1} x buckets a,b nested to depth 2
INIT Init
NEXT Next
CONSTANTS
  KeyOrder <- K3
  ValSet <- V2
  NameOrder <- N2
  MaxDepth = 2
  BlockOrder <- B0
  RawLen <- MC_RawLen
  Limit = 186
  PruneTarget = 186
  MaxTx = 2
  MaxOps = 2
  Readers <- NoReaders
  MaxReads = 0
  MaxFaults = 0
  CrashMode = "steps"
  PowerLoss = FALSE
  MaxCrash = 1
  FlushModes <- FlushBoth
  AllowRestart = FALSE
  MaxCur = 0
  PutPaths <- AllPaths
  CurSeeks = FALSE
  BucketOps = TRUE
  PreBuckets <- NoPaths
  PreCache <- NoKeys
  PruneLast <- MC_PruneLast
INVARIANTS TypeOK Disjoint Atomicity Isolation PrefixDurability ReopenOK
