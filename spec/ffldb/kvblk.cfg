\* thorough: keys, a bucket and blocks in the same transactions, faults and crashes at every I/O call
INIT Init
NEXT Next
CONSTANTS
  KeyOrder <- K1
  ValSet <- V1
  NameOrder <- N1
  MaxDepth = 1
  BlockOrder <- B2
  RawLen <- MC_RawLen
  Limit = 186
  PruneTarget = 186
  MaxTx = 2
  MaxOps = 3
  Readers <- NoReaders
  MaxReads = 0
  MaxFaults = 1
  CrashMode = "steps"
  PowerLoss = FALSE
  MaxCrash = 1
  FlushModes <- FlushBoth
  AllowRestart = TRUE
  MaxCur = 0
  PutPaths <- AllPaths
  CurSeeks = FALSE
  BucketOps = TRUE
  PreBuckets <- NoPaths
  PreCache <- NoKeys
  PruneLast <- MC_PruneLast
INVARIANTS TypeOK Disjoint Atomicity Isolation PrefixDurability ReopenOK
