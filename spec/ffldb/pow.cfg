\* power loss: a crash after any I/O call also cuts every block file back to its last Sync
INIT Init
NEXT Next
CONSTANTS
  KeyOrder <- K0
  ValSet <- V1
  NameOrder <- N0
  MaxDepth = 0
  BlockOrder <- B2
  RawLen <- MC_RawLen
  Limit = 186
  PruneTarget = 186
  MaxTx = 2
  MaxOps = 2
  Readers <- NoReaders
  MaxReads = 0
  MaxFaults = 0
  CrashMode = "steps"
  PowerLoss = TRUE
  MaxCrash = 1
  FlushModes <- FlushBoth
  AllowRestart = FALSE
  MaxCur = 0
  PutPaths <- AllPaths
  CurSeeks = FALSE
  BucketOps = TRUE
  PreBuckets <- NoPaths
  PreCache <- NoKeys
  PruneLast <- MC_PruneLast
INVARIANTS TypeOK Disjoint Atomicity Isolation PrefixDurability ReopenOK
