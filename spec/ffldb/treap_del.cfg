\* persistence under deletion: the first version holds six keys (inner nodes with two children); every Put / Delete of every key from every version, three more versions; all versions are re-read after every step
INIT Init
NEXT Next_
CONSTANTS
  NK = 6
  Vals <- MC_Vals2
  KeyLen <- MC_KeyLen6
  ValLen <- MC_ValLen2
  Overhead = 72
  MaxVers = 4
  MaxMut = 0
  MaxMoves = 0
  InitKeys <- AllKeys6
  InitVal = "a"
  Put2 = FALSE
INVARIANTS IterOK SizeOK
PROPERTIES Persistent
