\* persistent versions: every Put / Put(2) / Delete from every existing version
INIT Init
NEXT Next_
CONSTANTS
  NK = 3
  Vals <- MC_Vals
  KeyLen <- MC_KeyLen
  ValLen <- MC_ValLen
  Overhead = 72
  MaxVers = 3
  MaxMut = 0
  MaxMoves = 0
  InitKeys <- NoKeys
  InitVal = "a"
  Put2 = TRUE
INVARIANTS IterOK SizeOK
PROPERTIES Persistent
