\* mutable treap with a range-limited iterator that is forced to reseek after every update
INIT Init
NEXT Next_
CONSTANTS
  NK = 3
  Vals <- MC_Vals2
  KeyLen <- MC_KeyLen
  ValLen <- MC_ValLen2
  Overhead = 72
  MaxVers = 1
  MaxMut = 3
  MaxMoves = 3
  InitKeys <- NoKeys
  InitVal = "a"
  Put2 = TRUE
INVARIANTS IterOK SizeOK
PROPERTIES Persistent
