------------------------------- MODULE Basic -------------------------------
(***************************************************************************)
(* C20, part (c): what goes into the BIP158 basic filter of a block, and    *)
(* the BIP157 filter-header chain.                                          *)
(*                                                                         *)
(* A block is a sequence of transactions; a transaction has output scripts  *)
(* and, unless it is the coinbase (the first one), the scripts of the       *)
(* outputs it spends (what the node hands to the indexer as the block's     *)
(* spent outputs, in input order).  Scripts are identified by name; all     *)
(* that matters of a script is whether it is empty and whether its first    *)
(* byte is OP_RETURN, and which scripts are the same byte string: whether   *)
(* a script parses, is standard, is too long to ever be spent, plays no     *)
(* part (the kinds "unparse", "unparse2", "oversize" are elements).         *)
(*                                                                         *)
(*   Elements(b): built the way the code proceeds - first every output      *)
(*     script of every transaction, skipping the empty ones and those that  *)
(*     begin with OP_RETURN, then every spent script, skipping the empty    *)
(*     ones; a set, so equal scripts count once.                            *)
(*   NeverMiss / Exact: the property - every such output script and every   *)
(*     non-empty spent script is an element, and nothing else is.           *)
(*                                                                         *)
(* The filter is the Golomb-coded set (GcsCode.tla, P = 19, M = 784931) of  *)
(* the elements under the key "first 16 bytes of the block hash"; its       *)
(* bytes are obtained from TraceGcs.tla for the real values.  Here:         *)
(*   FH(k)        the filter hash of block k: SHA-256d of N || bytes        *)
(*   HH(fh, prev) a filter header: SHA-256d of fh || prev                   *)
(*   Z            32 zero bytes, the header before the first block         *)
(* free terms which the binder evaluates with SHA-256 along the term.       *)
(*                                                                         *)
(* Case machine: root -> group -> case.  A case is a CHAIN of one to three  *)
(* blocks, each on top of the previous one; expect[k] = [elems, n,          *)
(* excluded, header] of block k.                                            *)
(***************************************************************************)
EXTENDS Integers, Sequences, FiniteSets, TLC

CONSTANTS Tier

VARIABLES case, expect
vars == <<case, expect>>

Thorough == Tier = "thorough"

P == 19
M == 784931
KeyRule == "first 16 bytes of the block hash"

Z == <<"Z">>
FH(k) == <<"FH", k>>
HH(fh, prev) == <<"HH", fh, prev>>

-----------------------------------------------------------------------------
(* scripts *)

Scripts == { "empty",        \* no bytes
             "opret",        \* OP_RETURN <data>
             "opretbare",    \* OP_RETURN alone
             "retlater",     \* OP_1 OP_RETURN <data>: OP_RETURN, but not first
             "p2pkh", "p2pkh2", \* two different pay-to-pubkey-hash scripts
             "p2pk", "multisig", "wit",
             \* scripts nobody can spend, which BIP158 does NOT exclude: the rule
             \* looks at the length and the first byte only
             "unparse",      \* a push opcode announcing more bytes than follow
             "unparse2",     \* a lone OP_PUSHDATA1
             "oversize" }    \* 10001 bytes (over the script size limit), first byte not OP_RETURN
\* the scripts of the layouts with three and more slots
ScriptsQ == Scripts \ {"p2pkh2", "multisig", "wit"}
Core    == {"empty", "opret", "p2pkh", "p2pk", "wit"}
Mini    == {"empty", "opret", "p2pkh", "unparse"}

IsEmpty(s)  == s = "empty"
IsOpRet(s)  == s \in {"opret", "opretbare"}

-----------------------------------------------------------------------------
(* the content rule *)

RECURSIVE AddOuts(_, _, _)
AddOuts(outs, i, acc) ==
    IF i > Len(outs) THEN acc
    ELSE IF IsEmpty(outs[i]) \/ IsOpRet(outs[i]) THEN AddOuts(outs, i + 1, acc)
    ELSE AddOuts(outs, i + 1, acc \cup {outs[i]})

RECURSIVE AddTxs(_, _, _)
AddTxs(b, t, acc) == IF t > Len(b) THEN acc ELSE AddTxs(b, t + 1, AddOuts(b[t].outs, 1, acc))

\* the spent scripts of the block in the order the node hands them over
RECURSIVE Spent(_, _)
Spent(b, t) == IF t > Len(b) THEN << >> ELSE b[t].prevs \o Spent(b, t + 1)

RECURSIVE AddPrevs(_, _, _)
AddPrevs(ps, i, acc) ==
    IF i > Len(ps) THEN acc
    ELSE IF IsEmpty(ps[i]) THEN AddPrevs(ps, i + 1, acc)
    ELSE AddPrevs(ps, i + 1, acc \cup {ps[i]})

Elements(b) == AddPrevs(Spent(b, 1), 1, AddTxs(b, 1, {}))

AllOuts(b)  == UNION { {b[t].outs[i] : i \in 1..Len(b[t].outs)} : t \in 1..Len(b) }
AllPrevs(b) == UNION { {b[t].prevs[i] : i \in 1..Len(b[t].prevs)} : t \in 1..Len(b) }

NeverMissOf(b, E) ==
    /\ \A s \in AllOuts(b)  : (~IsEmpty(s) /\ ~IsOpRet(s)) => s \in E
    /\ \A s \in AllPrevs(b) : ~IsEmpty(s) => s \in E
ExactOf(b, E) ==
    /\ E \subseteq AllOuts(b) \cup AllPrevs(b)
    /\ "empty" \notin E
    /\ \A s \in E : IsOpRet(s) => s \in AllPrevs(b)

-----------------------------------------------------------------------------
(* header chain *)

RECURSIVE Header(_)
Header(k) == IF k = 0 THEN Z ELSE HH(FH(k), Header(k - 1))

ExpectOf(chain) ==
    [k \in 1..Len(chain) |->
        LET E == Elements(chain[k]) IN
        [ elems    |-> E,
          n        |-> Cardinality(E),
          excluded |-> (AllOuts(chain[k]) \cup AllPrevs(chain[k])) \ E,
          spent    |-> Spent(chain[k], 1),
          header   |-> Header(k) ]]

Laws ==
    case.kind = "chain" =>
        \A k \in 1..Len(case.chain) :
            /\ NeverMissOf(case.chain[k], expect[k].elems)
            /\ ExactOf(case.chain[k], expect[k].elems)
            /\ expect[k].header = HH(FH(k), IF k = 1 THEN Z ELSE expect[k - 1].header)
            \* the coinbase has no spent scripts
            /\ case.chain[k][1].prevs = << >>

-----------------------------------------------------------------------------
(* cases *)

Tx(outs, prevs) == [outs |-> outs, prevs |-> prevs]

\* block layouts over a script set S
LayoutA1(S) == { <<Tx(<<a>>, << >>)>> : a \in S }
LayoutA2(S) == { <<Tx(<<a, b>>, << >>)>> : a \in S, b \in S }
LayoutB(S)  == { <<Tx(<<a>>, << >>), Tx(<<c>>, <<b>>)>> : a \in S, b \in S, c \in S }
LayoutC(S)  == { <<Tx(<<a>>, << >>), Tx(<<d>>, <<b, c>>)>> : a \in S, b \in S, c \in S, d \in S }
LayoutE(S)  == { <<Tx(<<a>>, << >>), Tx(<<c, d>>, <<b>>)>> : a \in S, b \in S, c \in S, d \in S }
LayoutD(S)  == { <<Tx(<<a>>, << >>), Tx(<<c>>, <<b>>), Tx(<<e>>, <<d>>)>> :
                    a \in S, b \in S, c \in S, d \in S, e \in S }
\* a spending transaction without outputs, an output-less coinbase
LayoutF(S)  == { <<Tx(<< >>, << >>)>> } \cup { <<Tx(<<a>>, << >>), Tx(<< >>, <<b>>)>> : a \in S, b \in S }

Tiny == {"empty", "opret", "p2pkh"}
Singles ==
    LayoutA1(Scripts) \cup LayoutA2(Scripts) \cup LayoutB(IF Thorough THEN Scripts ELSE ScriptsQ) \cup LayoutF(Scripts)
    \cup LayoutC(IF Thorough THEN ScriptsQ ELSE Mini)
    \cup LayoutE(IF Thorough THEN ScriptsQ ELSE Mini)
    \cup LayoutD(IF Thorough THEN Core ELSE Tiny)

\* chains of three blocks over small blocks
Small == LayoutA1(IF Thorough THEN Mini ELSE {"empty", "p2pkh"})
         \cup { <<Tx(<<a>>, << >>), Tx(<<"p2pkh2">>, <<b>>)>> : a \in (IF Thorough THEN {"empty", "p2pkh"} ELSE {"p2pkh"}), b \in {"empty", "p2pk"} }
Chains == { <<x, y, z>> : x \in Small, y \in Small, z \in Small } \cup { <<x, y>> : x \in Small, y \in Small }

None == [none |-> TRUE]
NG == 16
Groups == { [of |-> "single", g |-> g] : g \in 0..(NG - 1) } \cup { [of |-> "chains", g |-> 0] }

\* a cheap spread of the single-block cases over groups
Weight(b) == Len(b) + Cardinality(AllOuts(b)) * 3 + Cardinality(AllPrevs(b)) * 5
             + (IF "p2pkh" \in AllOuts(b) THEN 1 ELSE 0) + (IF "empty" \in AllPrevs(b) THEN 2 ELSE 0)
             + (IF "opret" \in AllOuts(b) THEN 7 ELSE 0) + (IF "p2pk" \in AllPrevs(b) THEN 4 ELSE 0)

Init == case = [kind |-> "root"] /\ expect = None

Group == /\ case.kind = "root"
         /\ \E g \in Groups : case' = [kind |-> "group", g |-> g]
         /\ expect' = None

Pick ==
    /\ case.kind = "group"
    /\ \E ch \in IF case.g.of = "chains" THEN Chains
                 ELSE { <<b>> : b \in {x \in Singles : Weight(x) % NG = case.g.g} } :
          case' = [kind |-> "chain", chain |-> ch] /\ expect' = ExpectOf(ch)

Next == Group \/ Pick
Spec == Init /\ [][Next]_vars
=============================================================================
