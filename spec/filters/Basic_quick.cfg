SPECIFICATION Spec
CONSTANT Tier = "quick"
INVARIANTS Laws
