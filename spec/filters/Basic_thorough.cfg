SPECIFICATION Spec
CONSTANT Tier = "thorough"
INVARIANTS Laws
