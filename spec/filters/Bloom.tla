------------------------------- MODULE Bloom -------------------------------
(***************************************************************************)
(* C20, part (d): the definitions of BloomCode.tla model-checked, and the   *)
(* case lists the binder replays.                                          *)
(*                                                                         *)
(* 1. A small bloom filter as a state machine: NB bit positions, items =    *)
(*    every set of at most KMax positions (what K hash functions can        *)
(*    select, for EVERY hash function at once), actions Insert(item).       *)
(*    Invariant NoFalseNegatives: every inserted item matches in every      *)
(*    reachable state; the field only grows.                                *)
(*                                                                         *)
(* 2. Case machine (root -> group -> case):                                 *)
(*    kind "seq" [adds]: a sequence of insert operations of the API over     *)
(*      four data (two byte strings b1 b2, a hash h, an outpoint o, each    *)
(*      through every entry point that accepts it); after every step the    *)
(*      binder asks every query.  expect.must[k] = the data that have to    *)
(*      match after step k (those inserted so far, whatever the hash).      *)
(*    kind "tx" [flag, txid, outs, ins]: one row of the MatchTxAndUpdate     *)
(*      decision table: which of the match sites was put into the filter    *)
(*      beforehand (the id of the transaction; the first or second data     *)
(*      push of an output script of a given class; the outpoint an input    *)
(*      spends; a data push of its signature script).  expect = the table:  *)
(*      matched, and the outputs whose outpoints are inserted.  The         *)
(*      invariant TxLaws states that the procedure of BloomCode.tla         *)
(*      computes the table when no two data share a bit position, and that  *)
(*      the follow-up transaction spending output i matches exactly when    *)
(*      the table inserts its outpoint.  Output classes include scripts     *)
(*      that do not parse, at every position relative to a matching output. *)
(*    The exact answers for the REAL bit positions (where data may share     *)
(*    positions) come from TraceBloom.tla.                                  *)
(***************************************************************************)
EXTENDS BloomCode, TLC

CONSTANTS Tier

VARIABLES case, expect, bits, inserted
vars == <<case, expect, bits, inserted>>

Thorough == Tier = "thorough"
None == [none |-> TRUE]

-----------------------------------------------------------------------------
(* 1. the small filter *)

NB   == IF Thorough THEN 5 ELSE 4
KMax == 2
Items == {S \in SUBSET (0..(NB - 1)) : Cardinality(S) <= KMax}

Insert == /\ case.kind = "filter"
          /\ \E it \in Items : bits' = Add(bits, it) /\ inserted' = inserted \cup {it}
          /\ UNCHANGED <<case, expect>>

NoFalseNegatives == \A it \in inserted : Matches(bits, it)
\* nothing but the inserted positions is ever set
Exact == bits = UNION inserted
Monotone == [][bits \subseteq bits']_vars

-----------------------------------------------------------------------------
(* 2a. insert sequences over the API *)

\* operation -> the datum it inserts
AddOps == [ add_b1 |-> "b1", add_b2 |-> "b2", addhash_h |-> "h", add_h |-> "h", addop_o |-> "o", add_o |-> "o" ]
AddNames == DOMAIN AddOps
Data == {"b1", "b2", "h", "o"}

RECURSIVE Seqs(_, _)
Seqs(n, S) == IF n = 0 THEN {<< >>} ELSE { Append(s, x) : s \in Seqs(n - 1, S), x \in S }
MaxAdds == IF Thorough THEN 4 ELSE 3

SeqExpect(adds) ==
    [ must |-> [k \in 1..Len(adds) |-> {AddOps[adds[j]] : j \in 1..k}] ]

-----------------------------------------------------------------------------
(* 2b. the MatchTxAndUpdate table *)

Flags   == {"none", "all", "p2pubkey"}
\* output classes and the number of data pushes of their scripts
\* ("unparse": a push announcing more bytes than follow, "unparse2": a lone
\* OP_PUSHDATA1 - scripts that do not parse offer no data push and must not
\* keep the outputs after them from being looked at)
Pushes  == [ p2pkh |-> 1, p2pk |-> 1, multisig |-> 2, nulldata |-> 1, nopush |-> 0, unparse |-> 0, unparse2 |-> 0 ]
Classes == DOMAIN Pushes
\* an output of the case: class and which push (0: none) was put into the filter
OutOpts == { [class |-> cl, hit |-> h] : cl \in Classes, h \in 0..2 } \ { o \in [class : Classes, hit : 0..2] : o.hit > Pushes[o.class] }
\* second outputs of the quick tier: one matching output per update class, one that cannot match
OutSecond == IF Thorough THEN OutOpts
             ELSE { [class |-> "p2pkh", hit |-> 1], [class |-> "p2pk", hit |-> 1], [class |-> "multisig", hit |-> 2],
                    [class |-> "nopush", hit |-> 0], [class |-> "unparse", hit |-> 0] }
OutLists == {<< >>} \cup { <<a>> : a \in OutOpts } \cup { <<a, b>> : a \in OutOpts, b \in OutSecond }
\* inputs: [op, push] = was the spent outpoint / a signature-script push put into the filter
InOpts  == { [op |-> a, push |-> b] : a \in BOOLEAN, b \in BOOLEAN }
InLists == { <<i>> : i \in InOpts }
           \cup { <<[op |-> FALSE, push |-> FALSE], i>> :
                    i \in IF Thorough THEN InOpts \ {[op |-> FALSE, push |-> FALSE]} ELSE {[op |-> TRUE, push |-> FALSE]} }

\* the table
TxTable(c) ==
    [ matched  |-> \/ c.txid
                   \/ \E i \in 1..Len(c.outs) : c.outs[i].hit > 0
                   \/ \E i \in 1..Len(c.ins) : c.ins[i].op \/ c.ins[i].push,
      inserted |-> { i \in 1..Len(c.outs) : c.outs[i].hit > 0 /\ Inserts(c.flag, c.outs[i].class) } ]

\* the same case with every datum on bit positions of its own
SymTx(c) ==
    [ txid |-> {0},
      outs |-> [i \in 1..Len(c.outs) |->
                  [ class  |-> c.outs[i].class,
                    pushes |-> [j \in 1..Pushes[c.outs[i].class] |-> {10 * i + j}],
                    op     |-> {10 * i + 5} ]],
      ins  |-> [i \in 1..Len(c.ins) |-> [op |-> {100 + 10 * i}, pushes |-> <<{100 + 10 * i + 1}>>]] ]
\* the follow-up transaction spending output i of the case's transaction
SymSpender(i) ==
    [ txid |-> {200 + i},
      outs |-> <<[class |-> "nopush", pushes |-> << >>, op |-> {300 + i}]>>,
      ins  |-> <<[op |-> {10 * i + 5}, pushes |-> <<{400 + i}>>]>> ]
SymPre(c) ==
    (IF c.txid THEN {0} ELSE {})
    \cup { 10 * i + c.outs[i].hit : i \in {k \in 1..Len(c.outs) : c.outs[k].hit > 0} }
    \cup { 100 + 10 * i : i \in {k \in 1..Len(c.ins) : c.ins[k].op} }
    \cup { 100 + 10 * i + 1 : i \in {k \in 1..Len(c.ins) : c.ins[k].push} }

TxLaws ==
    case.kind = "tx" =>
        LET c == case.c
            r == MatchTxAndUpdate(SymPre(c), c.flag, SymTx(c)) IN
        /\ r.matched = expect.matched
        /\ r.bits = SymPre(c) \cup { 10 * i + 5 : i \in expect.inserted }
        \* the point of the update: a transaction spending a matched output matches afterwards
        /\ \A i \in expect.inserted : Matches(r.bits, {10 * i + 5})
        \* ... and only such a one: the follow-up transaction that spends output i
        \* (nothing else of it is in the filter) matches iff the outpoint was inserted
        /\ \A i \in 1..Len(c.outs) :
              MatchTxAndUpdate(r.bits, c.flag, SymSpender(i)).matched = (i \in expect.inserted)
        /\ (c.flag = "none" => r.bits = SymPre(c))

-----------------------------------------------------------------------------
Groups == {[of |-> "filter"]}
          \cup {[of |-> "seq", first |-> a] : a \in AddNames}
          \cup {[of |-> "tx", flag |-> f, txid |-> t, ins |-> i] : f \in Flags, t \in BOOLEAN, i \in InLists}

Init == case = [kind |-> "root"] /\ expect = None /\ bits = {} /\ inserted = {}

Group == /\ case.kind = "root"
         /\ \E g \in Groups : case' = IF g.of = "filter" THEN [kind |-> "filter"] ELSE [kind |-> "group", g |-> g]
         /\ UNCHANGED <<expect, bits, inserted>>

PickSeq ==
    /\ case.kind = "group" /\ case.g.of = "seq"
    /\ \E s \in UNION { Seqs(n, AddNames) : n \in 0..(MaxAdds - 1) } :
          LET adds == <<case.g.first>> \o s IN
          case' = [kind |-> "seq", adds |-> adds] /\ expect' = SeqExpect(adds)
    /\ UNCHANGED <<bits, inserted>>

PickTx ==
    /\ case.kind = "group" /\ case.g.of = "tx"
    /\ \E outs \in OutLists :
          LET c == [flag |-> case.g.flag, txid |-> case.g.txid, outs |-> outs, ins |-> case.g.ins] IN
          case' = [kind |-> "tx", c |-> c] /\ expect' = TxTable(c)
    /\ UNCHANGED <<bits, inserted>>

Next == Group \/ Insert \/ PickSeq \/ PickTx
Spec == Init /\ [][Next]_vars
=============================================================================
