----------------------------- MODULE BloomCode -----------------------------
(***************************************************************************)
(* C20, part (d): the bloom filter of BIP37 as a structure.                 *)
(*                                                                         *)
(* The bit field is the SET of its one-bit positions, 0 .. 8*size-1.  A    *)
(* datum (byte string, hash, serialised outpoint) is represented by its     *)
(* ITEM: the set of the positions its K hash functions select             *)
(*   (MurmurHash3 with seed i*0xfba4c795 + tweak, modulo the number of      *)
(*    bits: not defined here; the binder records the real positions).       *)
(* Inserting sets the positions, a datum matches when all its positions    *)
(* are set.  Hence: whatever was inserted matches, for every size, hash     *)
(* count and tweak (NoFalseNegatives in Bloom.tla).                         *)
(*                                                                         *)
(* Byte layout of the field: position b is bit (b mod 8), counted from the  *)
(* least significant, of byte (b div 8).                                    *)
(***************************************************************************)
EXTENDS Integers, Sequences, FiniteSets

Range(s) == {s[i] : i \in 1..Len(s)}

Add(bits, item)     == bits \cup item
Matches(bits, item) == item \subseteq bits

RECURSIVE SumPow(_)
SumPow(S) == IF S = {} THEN 0 ELSE LET x == CHOOSE y \in S : TRUE IN 2 ^ x + SumPow(S \ {x})
ByteAt(bits, j) == SumPow({b % 8 : b \in bits \cap ((8 * j)..(8 * j + 7))})
\* the non-zero bytes, as <<index, value>> pairs (index from 0)
SparseBytes(bits) == { <<j, ByteAt(bits, j)>> : j \in {b \div 8 : b \in bits} }

-----------------------------------------------------------------------------
(* MatchTxAndUpdate.                                                       *)
(* tx = [txid, outs, ins]; an output is [class, pushes, op]: the items of   *)
(* the data pushes of its script in order and the item of its own outpoint *)
(* (txid, index); an input is [op, pushes]: the item of the outpoint it     *)
(* spends and the items of the data pushes of its signature script.         *)
(* flag: "none", "all", "p2pubkey" (BLOOM_UPDATE_NONE / ALL /               *)
(* P2PUBKEY_ONLY).                                                         *)

AnyPush(bits, pushes) == \E k \in 1..Len(pushes) : Matches(bits, pushes[k])

Inserts(flag, class) == flag = "all" \/ (flag = "p2pubkey" /\ class \in {"p2pk", "multisig"})

\* the outputs in order; a matching output may put its outpoint into the
\* filter, which the later outputs (and the inputs) already see
RECURSIVE Outs(_, _, _, _, _)
Outs(bits, flag, outs, i, hit) ==
    IF i > Len(outs) THEN [bits |-> bits, hit |-> hit]
    ELSE IF AnyPush(bits, outs[i].pushes)
         THEN Outs(IF Inserts(flag, outs[i].class) THEN Add(bits, outs[i].op) ELSE bits, flag, outs, i + 1, TRUE)
    ELSE Outs(bits, flag, outs, i + 1, hit)

InsMatch(bits, ins) ==
    \E i \in 1..Len(ins) : Matches(bits, ins[i].op) \/ AnyPush(bits, ins[i].pushes)

MatchTxAndUpdate(bits, flag, tx) ==
    LET m0 == Matches(bits, tx.txid)
        o  == Outs(bits, flag, tx.outs, 1, FALSE)
    IN  [ bits |-> o.bits, matched |-> m0 \/ o.hit \/ InsMatch(o.bits, tx.ins) ]
=============================================================================
