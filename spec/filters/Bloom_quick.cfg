SPECIFICATION Spec
CONSTANT Tier = "quick"
INVARIANTS NoFalseNegatives Exact TxLaws
PROPERTY Monotone
