SPECIFICATION Spec
CONSTANT Tier = "thorough"
INVARIANTS NoFalseNegatives Exact TxLaws
PROPERTY Monotone
