------------------------------ MODULE ChainIdx ------------------------------
(***************************************************************************)
(* C20, part (c) on a running node: the committed-filter index.             *)
(*                                                                         *)
(* A chain grows block by block.  Every block has a coinbase that creates   *)
(* outputs and at most one further transaction that spends outputs created  *)
(* by EARLIER blocks and creates outputs.  An unspent output (coin) records *)
(* where it was created, its script kind and whether its creating          *)
(* transaction was a coinbase (`cb`): the node hands the spent coins of a   *)
(* block, with that attribute, to the index (the spend journal), and the    *)
(* index has to put the script of EVERY spent coin into the block's basic   *)
(* filter - created by a coinbase or not - except the empty script.         *)
(*                                                                         *)
(* Script kinds (the same kind is the same byte string):                    *)
(*   "true" OP_TRUE, "noptrue" OP_NOP OP_TRUE, "empty" no bytes: spendable  *)
(*   by anyone (so that real blocks spending them are valid);               *)
(*   "opret" OP_RETURN <data>, "p2pkh", "unparse" (truncated push),         *)
(*   "oversize" (10001 bytes), "genesis" (the script of the genesis         *)
(*   coinbase): never spent; all but "opret" are filter elements.           *)
(* A coinbase output may be spent by a block at least Maturity (= 1) higher.*)
(*                                                                         *)
(* The content rule, NeverMiss and Exact are those of Basic.tla.  `case` is *)
(* the block just connected, `expect` what its filter holds, its spent      *)
(* coins in input order and its filter header Header(h) =                   *)
(* HH(FH(h), Header(h-1)), Header(-1) = Z (the genesis block is indexed     *)
(* too).  The binder walks the state graph: every path is a real chain      *)
(* delivered to a real node with the index manager, and the filter, filter  *)
(* hash and filter header are read back from the index for every block.     *)
(***************************************************************************)
EXTENDS Basic

VARIABLES h, utxo
cvars == <<case, expect, h, utxo>>

MaxH     == 3
Maturity == 1

SpendKinds == {"true", "noptrue", "empty"}

CbChoices == IF Thorough
             THEN { <<"true">>, <<"empty", "unparse">>, <<"true", "opret">>, <<"p2pkh", "noptrue">> }
             ELSE { <<"true", "unparse">>, <<"empty", "opret">> }
TxChoices == IF Thorough
             THEN { <<"noptrue", "oversize">>, <<"empty", "p2pkh">>, <<"opret">> }
             ELSE { <<"noptrue", "oversize">>, <<"empty">> }

Coin(hg, tx, out, kind, cb) == [hgt |-> hg, tx |-> tx, out |-> out, kind |-> kind, cb |-> cb]
CoinsOf(hg, tx, outs, cb)  == { Coin(hg, tx, i, outs[i], cb) : i \in 1..Len(outs) }

Spendable(c, newH) == c.kind \in SpendKinds /\ (c.cb => newH - c.hgt >= Maturity)

\* coins in the order of creation (the input order of the spending transaction)
Before(a, b) == \/ a.hgt < b.hgt
                \/ a.hgt = b.hgt /\ a.tx < b.tx
                \/ a.hgt = b.hgt /\ a.tx = b.tx /\ a.out < b.out
RECURSIVE InOrder(_)
InOrder(S) == IF S = {} THEN << >>
              ELSE LET c == CHOOSE x \in S : \A y \in S \ {x} : Before(x, y) IN <<c>> \o InOrder(S \ {c})

Kinds(coins) == [i \in 1..Len(coins) |-> coins[i].kind]

\* the block in the form of Basic.tla
BlockOf(cbOuts, spends, txOuts) ==
    IF Len(spends) = 0 THEN <<Tx(cbOuts, << >>)>>
    ELSE <<Tx(cbOuts, << >>), Tx(txOuts, Kinds(spends))>>

RECURSIVE HeaderAt(_)
HeaderAt(k) == IF k < 0 THEN Z ELSE HH(FH(k), HeaderAt(k - 1))

ChainExpect(b, spends, hg) ==
    LET E == Elements(b) IN
    [ elems    |-> E,
      n        |-> Cardinality(E),
      excluded |-> (AllOuts(b) \cup AllPrevs(b)) \ E,
      spent    |-> [i \in 1..Len(spends) |-> [kind |-> spends[i].kind, cb |-> spends[i].cb]],
      header   |-> HeaderAt(hg) ]

GenesisBlock == <<Tx(<<"genesis">>, << >>)>>

ChainInit ==
    /\ h = 0
    /\ utxo = {}          \* the genesis coinbase output is not spendable
    /\ case = [kind |-> "block", h |-> 0, block |-> GenesisBlock, spends |-> << >>]
    /\ expect = ChainExpect(GenesisBlock, << >>, 0)

Connect ==
    /\ h < MaxH
    /\ \E cbOuts \in CbChoices :
       \E S \in { X \in SUBSET { c \in utxo : Spendable(c, h + 1) } : Cardinality(X) <= 2 } :
       \E txOuts \in IF S = {} THEN {<< >>} ELSE TxChoices :
          LET spends == InOrder(S)
              b      == BlockOf(cbOuts, spends, txOuts) IN
          /\ h' = h + 1
          /\ utxo' = (utxo \ S) \cup CoinsOf(h + 1, 0, cbOuts, TRUE)
                      \cup (IF S = {} THEN {} ELSE CoinsOf(h + 1, 1, txOuts, FALSE))
          /\ case' = [kind |-> "block", h |-> h + 1, block |-> b, spends |-> spends]
          /\ expect' = ChainExpect(b, spends, h + 1)

ChainNext == Connect
ChainSpec == ChainInit /\ [][ChainNext]_cvars

\* the filter of every connected block never misses: every output script
\* (BIP158's exclusions aside) and the script of every spent coin, whether a
\* coinbase created it or not
ChainLaws ==
    /\ NeverMissOf(case.block, expect.elems)
    /\ ExactOf(case.block, expect.elems)
    /\ \A i \in 1..Len(case.spends) :
          ~IsEmpty(case.spends[i].kind) => case.spends[i].kind \in expect.elems
    /\ expect.header = HH(FH(case.h), HeaderAt(case.h - 1))
    \* only coins that exist, are mature and are not spent twice get spent
    /\ \A c \in utxo : c.hgt <= h
=============================================================================
