SPECIFICATION ChainSpec
CONSTANT Tier = "quick"
INVARIANTS ChainLaws
