SPECIFICATION ChainSpec
CONSTANT Tier = "thorough"
INVARIANTS ChainLaws
