-------------------------------- MODULE Gcs --------------------------------
(***************************************************************************)
(* C20, part (b): the definitions of GcsCode.tla model-checked over a      *)
(* small domain, and the list of difference shapes the binder has to       *)
(* realise with real elements.                                             *)
(*                                                                         *)
(* A "case machine": root -> case; cases have no successors.               *)
(*                                                                         *)
(*  kind "set"   [p, m, vals]  a multiset of n values in [0, n*m), one      *)
(*               16-bit digit wide.  The invariant SetLaws states, for the *)
(*               filter built from it:                                     *)
(*                 - the bytes decode to the sorted multiset, building     *)
(*                   from any order gives the same filter;                 *)
(*                 - the bit length is the sum of q+1+P over the deltas;   *)
(*                 - Match(t) <=> t is one of the values, for EVERY t of   *)
(*                   the range (no false negative, no invented positive);  *)
(*                 - zip strategy = hash-set strategy = dispatcher =       *)
(*                   "some target matches on its own", for every batch of  *)
(*                   up to two targets and for the batch of all values;    *)
(*                   the empty batch matches nothing;                      *)
(*                 - decoding past the N-th value only ever repeats the    *)
(*                   last value (zero padding), which is why the hash-set  *)
(*                   strategy may read to the end of the bytes;            *)
(*                 - FromNBytes(NBytes(f)) = f, the empty filter is the    *)
(*                   single byte 0.                                        *)
(*  kind "shape" [p, m, shape] a sequence of difference classes (see       *)
(*               InClass) for one of the real parameter pairs; m is "bip"  *)
(*               (784931), "pow" (2^p) or a small number.  The binder      *)
(*               finds real elements whose SipHash-reduced values have     *)
(*               these differences and hands the values to TraceGcs.tla.   *)
(***************************************************************************)
EXTENDS GcsCode, TLC

CONSTANTS Tier

VARIABLES case, expect
vars == <<case, expect>>

Thorough == Tier = "thorough"

-----------------------------------------------------------------------------
(* small domain *)

L == 1
PVals == IF Thorough THEN {1, 2, 3} ELSE {1, 2}
MVals == IF Thorough THEN {1, 2, 3, 4} ELSE {1, 2, 3}
MaxN  == IF Thorough THEN 4 ELSE 3

\* non-decreasing sequences of length n over lo..(f-1)
RECURSIVE SortedFrom(_, _, _)
SortedFrom(n, lo, f) ==
    IF n = 0 THEN {<< >>}
    ELSE UNION { { <<x>> \o s : s \in SortedFrom(n - 1, x, f) } : x \in lo..(f - 1) }

\* the multisets of n values in [0, n*m) whose smallest value is lo
SetCasesOf(p, m, n, lo) ==
    IF n = 0 THEN (IF lo = 0 THEN {[p |-> p, m |-> m, vals |-> << >>]} ELSE {})
    ELSE IF lo >= n * m THEN {}
    ELSE { [p |-> p, m |-> m, vals |-> <<lo>> \o s] : s \in SortedFrom(n - 1, lo, n * m) }

Num(x)    == NumOf(x, L)
Nums(s)   == [i \in 1..Len(s) |-> Num(s[i])]
Rev(s)    == [i \in 1..Len(s) |-> s[Len(s) + 1 - i]]
Rot(s)    == IF Len(s) <= 1 THEN s ELSE Tail(s) \o <<Head(s)>>

RECURSIVE BitLen(_, _, _)
BitLen(d, P, i) == IF i > Len(d) THEN 0 ELSE Quot(d[i], P) + 1 + P + BitLen(d, P, i + 1)

SetLawsOf(c) ==
    LET P    == c.p
        vals == Nums(c.vals)
        n    == Len(vals)
        F    == n * c.m
        f    == Build(vals, P)
        lf   == Load(f, P, L)
        rng  == [t \in 1..F |-> Num(t - 1)]
        pairs == { <<rng[x[1]], rng[x[2]]>> : x \in { y \in (1..F) \X (1..F) : F <= 6 \/ y[1] <= y[2] } }
    IN
    /\ f.n = n
    /\ Build(Rev(vals), P) = f /\ Build(Rot(vals), P) = f /\ BuildSorted(vals, P) = f
    /\ DecodeN(lf) = vals
    /\ (n > 0 => Len(f.data) = (BitLen(Deltas(vals), P, 1) + 7) \div 8)
    /\ (n = 0 => f.data = << >> /\ NBytes(f) = <<0>>)
    /\ LET g == FromNBytes(NBytes(f)) IN g.ok /\ g.n = f.n /\ g.data = f.data
    \* padding only repeats the last value
    /\ Range(DecodeAll(lf)) = Range(vals)
    \* single queries
    /\ \A t \in Range(rng) : Match(lf, t) = Member(vals, t)
    \* batches
    /\ ~ZipMatchAny(lf, << >>) /\ ~HashMatchAny(lf, << >>) /\ ~MatchAny(lf, << >>)
    /\ \A t \in Range(rng) :
          LET Q == <<t>> want == Member(vals, t) IN
          ZipMatchAny(lf, Q) = want /\ HashMatchAny(lf, Q) = want /\ MatchAny(lf, Q) = want
    /\ \A Q \in pairs :
          LET want == Match(lf, Q[1]) \/ Match(lf, Q[2]) IN
          /\ want = AnyMember(vals, Q)
          /\ ZipMatchAny(lf, Q) = want /\ HashMatchAny(lf, Q) = want /\ MatchAny(lf, Q) = want
    /\ (n > 0 => ZipMatchAny(lf, vals) /\ HashMatchAny(lf, vals) /\ MatchAny(lf, vals))

SetLaws == case.kind = "set" => SetLawsOf(case.c)

\* what the binder replays: the bytes, the framed bytes and the answer to a
\* query for every value t-1 of the range (index t)
SetExpect(c) ==
    LET vals == Nums(c.vals)
        f    == Build(vals, c.p)
        lf   == Load(f, c.p, L)
        F    == Len(vals) * c.m
    IN  [ n |-> f.n, data |-> f.data, nbytes |-> NBytes(f),
          member |-> [t \in 1..F |-> Match(lf, Num(t - 1))],
          \* what a filter of no elements answers to anything (the value of
          \* every element is 0 then: the range [0, 0*M) is empty)
          none |-> LET e == Load(Build(<< >>, c.p), c.p, L)
                   IN  Match(e, Num(0)) \/ MatchAny(e, <<Num(0)>>) \/ ZipMatchAny(e, <<Num(0)>>) ]

-----------------------------------------------------------------------------
(* shapes for the real parameters *)

Classes == {"eq", "adj", "rmax", "pow", "pow1", "far", "mid"}
Special == Classes \ {"mid"}

\* (P, M) pairs: BIP158's 19/784931, the older 20/2^20, the extremes
ParamsAll == { [p |-> 1, m |-> "2"], [p |-> 1, m |-> "bip"], [p |-> 2, m |-> "pow"], [p |-> 2, m |-> "bip"],
               [p |-> 19, m |-> "bip"], [p |-> 19, m |-> "pow"], [p |-> 20, m |-> "pow"], [p |-> 20, m |-> "bip"],
               [p |-> 32, m |-> "bip"], [p |-> 32, m |-> "pow"] }
\* the quick tier leaves out the two pairs with M = 2^P whose neighbours cover them
Params == IF Thorough THEN ParamsAll ELSE ParamsAll \ { [p |-> 2, m |-> "pow"], [p |-> 20, m |-> "pow"] }

RECURSIVE Seqs(_, _)
Seqs(n, S) == IF n = 0 THEN {<< >>} ELSE { Append(s, x) : s \in Seqs(n - 1, S), x \in S }
NSpecial(s) == Cardinality({i \in 1..Len(s) : s[i] # "mid"})

FullLen    == IF Thorough THEN 4 ELSE 2      \* every shape up to this length
SparseMax  == IF Thorough THEN 2 ELSE 1      \* longer shapes: at most this many non-"mid" positions
\* shapes of length n with exactly the positions Ps special
SparseOf(n, Ps) == { [i \in 1..n |-> IF i \in Ps THEN a[i] ELSE "mid"] : a \in [Ps -> Special] }
ShapesOfLen(n) ==
    IF n <= FullLen THEN Seqs(n, Classes)
    ELSE UNION { SparseOf(n, Ps) : Ps \in {X \in SUBSET (1..n) : Cardinality(X) <= SparseMax} }

\* the classes are what they say on numbers of the real width
ASSUME ClassLaws ==
    \A P \in {1, 2, 19, 20, 32} :
        LET W == 4 IN
        /\ InClass(Zeros(W), "eq", P) /\ InClass(NumOf(1, W), "adj", P)
        /\ Quot(Pow2Num(P, W), P) = 1 /\ RemBits(Pow2Num(P, W), P) = Zeros(P)
        /\ Quot(Sub(Pow2Num(P, W), One(W)), P) = 0 /\ RemBits(Sub(Pow2Num(P, W), One(W)), P) = Ones(P)
        /\ CodeWord(Add(Pow2Num(P, W), One(W)), P) = <<1, 0>> \o Zeros(P - 1) \o <<1>>

-----------------------------------------------------------------------------
None == [none |-> TRUE]

\* one group per (p, m, n, smallest value)
SetGroups   == { [of |-> "set", p |-> p, m |-> m, n |-> n, lo |-> lo] :
                    p \in PVals, m \in MVals, n \in 0..MaxN, lo \in 0..(MaxN * 4) }
ShapeGroups == { [of |-> "shape", pm |-> pm, n |-> n] : pm \in Params, n \in 1..6 }

Init == case = [kind |-> "root"] /\ expect = None

Group == /\ case.kind = "root"
         /\ \E g \in SetGroups \cup ShapeGroups : case' = [kind |-> "group", g |-> g]
         /\ expect' = None

PickSet ==
    /\ case.kind = "group" /\ case.g.of = "set"
    /\ \E c \in SetCasesOf(case.g.p, case.g.m, case.g.n, case.g.lo) :
          case' = [kind |-> "set", c |-> c] /\ expect' = SetExpect(c)

PickShape ==
    /\ case.kind = "group" /\ case.g.of = "shape"
    /\ \E s \in ShapesOfLen(case.g.n) :
          case' = [kind |-> "shape", c |-> [p |-> case.g.pm.p, m |-> case.g.pm.m, shape |-> s]]
    /\ expect' = None

Next == Group \/ PickSet \/ PickShape
Spec == Init /\ [][Next]_vars
=============================================================================
