------------------------------ MODULE GcsCode ------------------------------
(***************************************************************************)
(* C20, part (b): the Golomb-coded set of BIP158 as a structure.            *)
(*                                                                         *)
(* This module only DEFINES; Gcs.tla model-checks the definitions over a   *)
(* small value domain and TraceGcs.tla evaluates the same definitions on   *)
(* values recorded from the real code (code -> spec direction).            *)
(*                                                                         *)
(* Elements are mapped to values in [0, N*M) by a function the             *)
(* specification does not define (SipHash-2-4 followed by a multiply-and-   *)
(* shift reduction in the code): two elements may share a value.  A filter  *)
(* is built from the MULTISET of values: sort, take differences, write      *)
(* every difference d as the Golomb-Rice code word with parameter P:        *)
(*     d div 2^P  one-bits, a zero bit, then the P low bits of d,           *)
(*     most significant first;                                             *)
(* the bit string is padded with zero bits to a whole number of bytes,     *)
(* each byte filled from its most significant bit.                         *)
(*                                                                         *)
(* Numbers: TLC's integers are 32 bits wide and the values are 64 bits     *)
(* wide, so a number is a fixed-length sequence of base-65536 digits, most *)
(* significant first (4 digits for the real thing, 1 digit in the small    *)
(* model).  Bits are taken from that representation, so "the P low bits"   *)
(* and "d div 2^P" are statements about bit positions.                      *)
(***************************************************************************)
EXTENDS Integers, Sequences, FiniteSets

Base == 65536

Zeros(n) == [i \in 1..n |-> 0]
Ones(n)  == [i \in 1..n |-> 1]
Range(s) == {s[i] : i \in 1..Len(s)}

\* the w-bit big-endian form of x (w <= 31)
BitsOf(x, w)  == [i \in 1..w |-> (x \div (2 ^ (w - i))) % 2]
NatBits(q, w) == IF w > 31 THEN Zeros(w - 31) \o BitsOf(q, 31) ELSE BitsOf(q, w)

RECURSIVE NatFrom(_, _, _)
NatFrom(b, i, acc) == IF i > Len(b) THEN acc ELSE NatFrom(b, i + 1, 2 * acc + b[i])
\* the number a bit string denotes (below 2^31: the quotients and bytes used here)
NatOf(b) == NatFrom(b, 1, 0)

-----------------------------------------------------------------------------
(* fixed-width numbers *)

Lt(a, b)  == \E i \in 1..Len(a) : a[i] < b[i] /\ \A j \in 1..(i - 1) : a[j] = b[j]
Leq(a, b) == a = b \/ Lt(a, b)

RECURSIVE SubR(_, _, _, _, _)
SubR(a, b, i, bw, acc) ==
    IF i = 0 THEN acc
    ELSE LET d == a[i] - b[i] - bw
         IN  SubR(a, b, i - 1, IF d < 0 THEN 1 ELSE 0, <<IF d < 0 THEN d + Base ELSE d>> \o acc)
Sub(a, b) == SubR(a, b, Len(a), 0, << >>)        \* a - b, for b <= a

RECURSIVE AddR(_, _, _, _, _)
AddR(a, b, i, c, acc) ==
    IF i = 0 THEN acc
    ELSE LET s == a[i] + b[i] + c
         IN  AddR(a, b, i - 1, s \div Base, <<s % Base>> \o acc)
Add(a, b) == AddR(a, b, Len(a), 0, << >>)        \* a + b modulo Base^Len

\* a * k for a small k (k < 2^15), modulo Base^Len
RECURSIVE MulR(_, _, _, _, _)
MulR(a, k, i, c, acc) ==
    IF i = 0 THEN acc
    ELSE LET s == a[i] * k + c
         IN  MulR(a, k, i - 1, s \div Base, <<s % Base>> \o acc)
MulSmall(a, k) == MulR(a, k, Len(a), 0, << >>)

Width(a)   == 16 * Len(a)
NumBits(a) == [k \in 1..Width(a) |-> (a[(k - 1) \div 16 + 1] \div (2 ^ (15 - ((k - 1) % 16)))) % 2]
BitsNum(b) == [l \in 1..(Len(b) \div 16) |-> NatOf(SubSeq(b, 16 * l - 15, 16 * l))]
NumOf(x, L) == Zeros(L - 1) \o <<x>>                   \* x < 65536

\* merge sort (stable; the order of equal values does not matter)
RECURSIVE Merge(_, _, _, _, _)
Merge(a, b, i, j, acc) ==
    IF i > Len(a) THEN acc \o SubSeq(b, j, Len(b))
    ELSE IF j > Len(b) THEN acc \o SubSeq(a, i, Len(a))
    ELSE IF Lt(b[j], a[i]) THEN Merge(a, b, i, j + 1, Append(acc, b[j]))
    ELSE Merge(a, b, i + 1, j, Append(acc, a[i]))
RECURSIVE Sort(_)
Sort(s) == IF Len(s) <= 1 THEN s
           ELSE LET h == Len(s) \div 2
                IN  Merge(Sort(SubSeq(s, 1, h)), Sort(SubSeq(s, h + 1, Len(s))), 1, 1, << >>)

IsSorted(s) == \A i \in 1..(Len(s) - 1) : Leq(s[i], s[i + 1])

-----------------------------------------------------------------------------
(* Golomb-Rice code words *)

Quot(d, P)    == NatOf(SubSeq(NumBits(d), 1, Width(d) - P))
RemBits(d, P) == SubSeq(NumBits(d), Width(d) - P + 1, Width(d))
CodeWord(d, P) == Ones(Quot(d, P)) \o <<0>> \o RemBits(d, P)

Deltas(sorted) ==
    [i \in 1..Len(sorted) |-> IF i = 1 THEN sorted[1] ELSE Sub(sorted[i], sorted[i - 1])]

RECURSIVE Flat(_, _, _)
Flat(ws, lo, hi) ==
    IF lo > hi THEN << >>
    ELSE IF lo = hi THEN ws[lo]
    ELSE LET mid == (lo + hi) \div 2 IN Flat(ws, lo, mid) \o Flat(ws, mid + 1, hi)

EncodeBits(sorted, P) ==
    LET d  == Deltas(sorted)
        ws == [i \in 1..Len(d) |-> CodeWord(d[i], P)]
    IN  Flat(ws, 1, Len(ws))

PadBits(bits) == bits \o Zeros((8 - (Len(bits) % 8)) % 8)
Pack(bits)    == LET pb == PadBits(bits)
                 IN  [k \in 1..(Len(pb) \div 8) |-> NatOf(SubSeq(pb, 8 * k - 7, 8 * k))]
Unpack(bytes) == [k \in 1..(8 * Len(bytes)) |-> (bytes[(k - 1) \div 8 + 1] \div (2 ^ (7 - ((k - 1) % 8)))) % 2]

\* the filter of a multiset of values (any order); the empty filter has no bytes
Build(vals, P) ==
    [ n    |-> Len(vals),
      data |-> IF Len(vals) = 0 THEN << >> ELSE Pack(EncodeBits(Sort(vals), P)) ]
\* the same for values already in order
BuildSorted(sorted, P) ==
    [ n    |-> Len(sorted),
      data |-> IF Len(sorted) = 0 THEN << >> ELSE Pack(EncodeBits(sorted, P)) ]

-----------------------------------------------------------------------------
(* framing: N as a compact-size prefix *)

VarInt(n) == IF n < 253 THEN <<n>>
             ELSE IF n < 65536 THEN <<253, n % 256, n \div 256>>
             ELSE <<254, n % 256, (n \div 256) % 256, (n \div 65536) % 256, n \div 16777216>>

NBytes(f) == VarInt(f.n) \o f.data

\* [ok, n, data]; only the canonical prefixes up to 4 bytes are modelled
FromNBytes(b) ==
    IF Len(b) = 0 THEN [ok |-> FALSE]
    ELSE IF b[1] < 253 THEN [ok |-> TRUE, n |-> b[1], data |-> SubSeq(b, 2, Len(b))]
    ELSE IF b[1] = 253 /\ Len(b) >= 3
         THEN [ok |-> TRUE, n |-> b[2] + 256 * b[3], data |-> SubSeq(b, 4, Len(b))]
    ELSE IF b[1] = 254 /\ Len(b) >= 5 /\ b[5] < 128
         THEN [ok |-> TRUE, n |-> b[2] + 256 * b[3] + 65536 * b[4] + 16777216 * b[5], data |-> SubSeq(b, 6, Len(b))]
    ELSE [ok |-> FALSE]

-----------------------------------------------------------------------------
(* reading: a code word is read bit by bit; running out of bits anywhere   *)
(* inside a code word ends the reading (the code's io.EOF)                  *)

RECURSIVE Unary(_, _, _)
Unary(bits, pos, q) ==
    IF pos > Len(bits) THEN [ok |-> FALSE]
    ELSE IF bits[pos] = 1 THEN Unary(bits, pos + 1, q + 1)
    ELSE [ok |-> TRUE, q |-> q, pos |-> pos + 1]

ReadWord(bits, pos, P) ==
    LET u == Unary(bits, pos, 0) IN
    IF ~u.ok THEN [ok |-> FALSE]
    ELSE IF u.pos + P - 1 > Len(bits) THEN [ok |-> FALSE]
    ELSE [ok |-> TRUE, q |-> u.q, r |-> SubSeq(bits, u.pos, u.pos + P - 1), pos |-> u.pos + P]

\* a bit string of at most 16*L bits as a number of L digits
DigitsOf(b, L) ==
    [l \in 1..L |-> LET hi == Len(b) - 16 * (L - l)
                        lo == IF hi - 15 < 1 THEN 1 ELSE hi - 15
                    IN  IF hi <= 0 THEN 0 ELSE NatOf(SubSeq(b, lo, hi))]

\* 2^P as a number of L digits
Pow2Num(P, L) == [l \in 1..L |-> IF l = L - (P \div 16) THEN 2 ^ (P % 16) ELSE 0]

\* the difference a code word denotes: q * 2^P + r  (q < 2^15)
DeltaNum(q, r, L) == Add(MulSmall(Pow2Num(Len(r), L), q), DigitsOf(r, L))

\* the values a reader obtains: the first n (n < 0: as many as the bits
\* hold, padding included); every reader of the code consumes this stream
\* front to back and may stop early
RECURSIVE DecR(_, _, _, _, _, _, _)
DecR(bits, P, L, n, pos, last, acc) ==
    IF n = 0 THEN acc
    ELSE LET w == ReadWord(bits, pos, P) IN
         IF ~w.ok THEN acc
         ELSE LET v == Add(last, DeltaNum(w.q, w.r, L))
              IN  DecR(bits, P, L, n - 1, w.pos, v, Append(acc, v))

\* a filter as the readers see it: N, the values of the first N code words,
\* and the values of all the code words the bytes hold
Load(f, P, L) ==
    LET bits == Unpack(f.data) IN
    [ n    |-> f.n,
      vals |-> DecR(bits, P, L, f.n, 1, Zeros(L), << >>),
      all  |-> DecR(bits, P, L, -1, 1, Zeros(L), << >>) ]

DecodeN(lf)   == lf.vals
DecodeAll(lf) == lf.all

-----------------------------------------------------------------------------
(* the three query strategies of the code, each written the way the code   *)
(* proceeds over the value stream                                          *)

\* single: walk up to N values, stop at the first value >= the target
RECURSIVE MatchR(_, _, _)
MatchR(vs, i, t) ==
    IF i > Len(vs) THEN FALSE
    ELSE IF vs[i] = t THEN TRUE
    ELSE IF Lt(t, vs[i]) THEN FALSE
    ELSE MatchR(vs, i + 1, t)
Match(lf, t) == MatchR(lf.vals, 1, t)

\* zip: the sorted targets and the values are walked together
RECURSIVE Skip(_, _, _)
Skip(qs, qi, v) == IF qi > Len(qs) THEN qi ELSE IF Lt(qs[qi], v) THEN Skip(qs, qi + 1, v) ELSE qi

RECURSIVE ZipR(_, _, _, _)
ZipR(vs, i, qs, qi) ==
    IF i > Len(vs) THEN FALSE
    ELSE LET q2 == Skip(qs, qi, vs[i]) IN
         IF q2 > Len(qs) THEN FALSE
         ELSE IF qs[q2] = vs[i] THEN TRUE
         ELSE ZipR(vs, i + 1, qs, q2)
ZipMatchAny(lf, Q) == IF Len(Q) = 0 THEN FALSE ELSE ZipR(lf.vals, 1, Sort(Q), 1)

\* hash set: everything the bytes hold goes into a set, the targets are looked up
HashMatchAny(lf, Q) ==
    IF Len(Q) = 0 THEN FALSE
    ELSE LET S == Range(lf.all) IN \E i \in 1..Len(Q) : Q[i] \in S

\* the dispatcher
MatchAny(lf, Q) ==
    IF Len(Q) >= lf.n \div 2 THEN HashMatchAny(lf, Q) ELSE ZipMatchAny(lf, Q)

\* what all of them have to compute
Member(vals, t)    == t \in Range(vals)
AnyMember(vals, Q) == \E i \in 1..Len(Q) : Q[i] \in Range(vals)

-----------------------------------------------------------------------------
(* difference classes: the shapes the case lists are made of               *)

One(L)        == NumOf(1, L)

FarQ(P) == IF P <= 2 THEN 65 ELSE IF P <= 20 THEN 3 ELSE 1

InClass(d, c, P) ==
    LET L == Len(d) IN
    CASE c = "eq"   -> d = Zeros(L)
      [] c = "adj"  -> d = One(L)
      [] c = "rmax" -> d = Sub(Pow2Num(P, L), One(L))
      [] c = "pow"  -> d = Pow2Num(P, L)
      [] c = "pow1" -> d = Add(Pow2Num(P, L), One(L))
      [] c = "far"  -> Quot(d, P) >= FarQ(P)
      [] c = "mid"  -> TRUE
=============================================================================
