SPECIFICATION Spec
CONSTANT Tier = "quick"
INVARIANTS SetLaws
