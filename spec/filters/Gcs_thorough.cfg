SPECIFICATION Spec
CONSTANT Tier = "thorough"
INVARIANTS SetLaws
