--------------------------------- MODULE Pmt ---------------------------------
(***************************************************************************)
(* C20, part (a): the partial merkle tree of BIP37 (merkleblock message).   *)
(*                                                                         *)
(* For a block of n transactions and a set M of matched transactions the   *)
(* sender walks the merkle tree depth first: at every node it emits one    *)
(* flag bit (does the subtree contain a matched transaction) and, when the  *)
(* bit is 0 or the node is a leaf, the hash of the node; otherwise it       *)
(* descends left, then right (when there is a right child).  The receiver   *)
(* (Extract) walks the same way, consuming bits and hashes, and recomputes  *)
(* the root; the leaves with bit 1 are the matched transactions.            *)
(*                                                                         *)
(* Hashes are abstract: T(i) is the txid of transaction i, H(l, r) the     *)
(* double SHA-256 of l || r, a free term (injective by construction).  The  *)
(* tree duplicates the last node of an odd level.  The binder maps T(i) to  *)
(* the ids of real transactions and evaluates H along the term.            *)
(*                                                                         *)
(* A "case machine": root -> group -> case [n, m].  `expect` carries the    *)
(* flag bits, the flag bytes (bit k of the walk is bit k mod 8, counted     *)
(* from the least significant, of byte k div 8), the hashes in walk order,  *)
(* the root and the matched list.  The invariant Laws states                *)
(*      Extract(n, Build(n, M)) = (ok, Root(n), M in ascending order)       *)
(* with every bit and hash consumed, for EVERY subset M of every n up to    *)
(* the tier's bound, and that Root(n) is the root of the level-by-level     *)
(* definition of the block merkle tree.                                     *)
(***************************************************************************)
EXTENDS Integers, Sequences, FiniteSets, TLC

CONSTANTS Tier

VARIABLES case, expect
vars == <<case, expect>>

Thorough == Tier = "thorough"

T(i)    == <<"T", i>>
H(l, r) == <<"H", l, r>>

-----------------------------------------------------------------------------
(* tree geometry: height 0 = leaves, position p counted from 0              *)

Width(n, h) == (n + 2 ^ h - 1) \div (2 ^ h)

RECURSIVE HeightFrom(_, _)
HeightFrom(n, h) == IF Width(n, h) > 1 THEN HeightFrom(n, h + 1) ELSE h
Height(n) == HeightFrom(n, 0)

HasRight(n, h, p) == 2 * p + 1 < Width(n, h - 1)

RECURSIVE NodeHash(_, _, _)
NodeHash(n, h, p) ==
    IF h = 0 THEN T(p + 1)
    ELSE LET l == NodeHash(n, h - 1, 2 * p)
             r == IF HasRight(n, h, p) THEN NodeHash(n, h - 1, 2 * p + 1) ELSE l
         IN  H(l, r)

Root(n) == NodeHash(n, Height(n), 0)

\* the block merkle root by the level-by-level definition
EvenUp(s) == IF Len(s) % 2 = 1 THEN Append(s, s[Len(s)]) ELSE s
PairUp(s) == [k \in 1..(Len(s) \div 2) |-> H(s[2 * k - 1], s[2 * k])]
RECURSIVE Climb(_)
Climb(s) == IF Len(s) = 1 THEN s[1] ELSE Climb(PairUp(EvenUp(s)))
RefRoot(n) == Climb([i \in 1..n |-> T(i)])

-----------------------------------------------------------------------------
(* the sender *)

\* transactions (numbered from 1) below node (h, p)
Under(n, h, p) == {i \in 1..n : (i - 1) \div (2 ^ h) = p}

RECURSIVE Trav(_, _, _, _)
Trav(n, M, h, p) ==
    LET par == Under(n, h, p) \cap M # {} IN
    IF h = 0 \/ ~par
    THEN [bits |-> <<IF par THEN 1 ELSE 0>>, hashes |-> <<NodeHash(n, h, p)>>]
    ELSE LET l == Trav(n, M, h - 1, 2 * p)
             r == IF HasRight(n, h, p) THEN Trav(n, M, h - 1, 2 * p + 1)
                  ELSE [bits |-> << >>, hashes |-> << >>]
         IN  [bits |-> <<1>> \o l.bits \o r.bits, hashes |-> l.hashes \o r.hashes]

Build(n, M) == Trav(n, M, Height(n), 0)

Bit(bits, i) == IF i <= Len(bits) THEN bits[i] ELSE 0
FlagBytes(bits) ==
    [k \in 1..((Len(bits) + 7) \div 8) |->
        Bit(bits, 8 * k - 7) + 2 * Bit(bits, 8 * k - 6) + 4 * Bit(bits, 8 * k - 5) + 8 * Bit(bits, 8 * k - 4)
        + 16 * Bit(bits, 8 * k - 3) + 32 * Bit(bits, 8 * k - 2) + 64 * Bit(bits, 8 * k - 1) + 128 * Bit(bits, 8 * k)]

-----------------------------------------------------------------------------
(* the receiver *)

UnpackFlags(bytes) == [k \in 1..(8 * Len(bytes)) |-> (bytes[(k - 1) \div 8 + 1] \div (2 ^ ((k - 1) % 8))) % 2]

Bad == [bad |-> TRUE]

\* bi, hi: the next unread bit and hash
RECURSIVE Ext(_, _, _, _, _, _, _)
Ext(n, bits, hashes, h, p, bi, hi) ==
    IF bi > Len(bits) THEN Bad
    ELSE IF h = 0 \/ bits[bi] = 0
    THEN IF hi > Len(hashes) THEN Bad
         ELSE [bad |-> FALSE, hash |-> hashes[hi],
               matched |-> IF h = 0 /\ bits[bi] = 1 THEN <<p + 1>> ELSE << >>,
               bi |-> bi + 1, hi |-> hi + 1]
    ELSE LET l == Ext(n, bits, hashes, h - 1, 2 * p, bi + 1, hi) IN
         IF l.bad THEN Bad
         ELSE IF HasRight(n, h, p)
         THEN LET r == Ext(n, bits, hashes, h - 1, 2 * p + 1, l.bi, l.hi) IN
              IF r.bad \/ l.hash = r.hash THEN Bad     \* equal children: the duplicate-subtree forgery
              ELSE [bad |-> FALSE, hash |-> H(l.hash, r.hash), matched |-> l.matched \o r.matched,
                    bi |-> r.bi, hi |-> r.hi]
         ELSE [bad |-> FALSE, hash |-> H(l.hash, l.hash), matched |-> l.matched, bi |-> l.bi, hi |-> l.hi]

Extract(n, flags, hashes) ==
    IF n = 0 THEN [ok |-> FALSE]
    ELSE LET r == Ext(n, UnpackFlags(flags), hashes, Height(n), 0, 1, 1) IN
         IF r.bad THEN [ok |-> FALSE]
         ELSE IF r.hi # Len(hashes) + 1 THEN [ok |-> FALSE]          \* every hash consumed
         ELSE IF (r.bi - 1 + 7) \div 8 # Len(flags) THEN [ok |-> FALSE] \* every flag byte consumed
         ELSE [ok |-> TRUE, root |-> r.hash, matched |-> r.matched]

-----------------------------------------------------------------------------
(* cases *)

RECURSIVE SeqOfSet(_)
SeqOfSet(S) == IF S = {} THEN << >>
               ELSE LET x == CHOOSE y \in S : \A z \in S : y <= z IN <<x>> \o SeqOfSet(S \ {x})

MaxAll == IF Thorough THEN 12 ELSE 9          \* every subset up to this many transactions
WideN  == IF Thorough THEN {13, 16, 17, 31, 32, 33, 64, 65, 100} ELSE {13, 16, 17, 33}
Patterns(n) == { {}, {1}, {n}, {1, n}, {n - 1}, {(n + 1) \div 2}, 1..n,
                 {i \in 1..n : i % 2 = 1}, {i \in 1..n : i % 2 = 0}, {i \in 1..n : i % 7 = 3} }

\* the merkleblock message: block header (80 bytes, <<"hdr">>), transaction
\* count (4 bytes, little endian), hashes (compact-size count, 32 bytes each:
\* <<"hash", k>> stands for the k-th), flag bytes (compact-size count)
LE32(x)   == <<x % 256, (x \div 256) % 256, (x \div 65536) % 256, x \div 16777216>>
VarInt(x) == IF x < 253 THEN <<x>> ELSE <<253, x % 256, x \div 256>>
Message(n, hashes, flags) ==
    << <<"hdr">> >> \o LE32(n) \o VarInt(Len(hashes)) \o [k \in 1..Len(hashes) |-> <<"hash", k>>]
    \o VarInt(Len(flags)) \o flags

ExpectOf(n, M) ==
    LET b == Build(n, M) IN
    [ bits |-> b.bits, flags |-> FlagBytes(b.bits), hashes |-> b.hashes,
      root |-> Root(n), matched |-> SeqOfSet(M),
      wire |-> Message(n, b.hashes, FlagBytes(b.bits)) ]

Laws ==
    case.kind = "case" =>
        LET n == case.n
            x == Extract(n, expect.flags, expect.hashes) IN
        /\ x.ok /\ x.root = expect.root /\ x.matched = expect.matched
        /\ expect.root = RefRoot(n)
        /\ Len(expect.hashes) <= n /\ Len(expect.bits) <= 2 * n + Height(n)
        \* a proof is for one matched set only
        /\ (case.m # << >> => Build(n, {}).bits # expect.bits)
        \* dropping the last hash or the last flag byte is detected
        /\ ~Extract(n, expect.flags, SubSeq(expect.hashes, 1, Len(expect.hashes) - 1)).ok
        /\ ~Extract(n, SubSeq(expect.flags, 1, Len(expect.flags) - 1), expect.hashes).ok

None == [none |-> TRUE]

Groups == { [n |-> n, wide |-> FALSE, lo |-> lo] : n \in 1..MaxAll, lo \in SUBSET {1, 2} }
          \cup { [n |-> n, wide |-> TRUE, lo |-> {}] : n \in WideN }

Init == case = [kind |-> "root"] /\ expect = None

Group == /\ case.kind = "root"
         /\ \E g \in Groups : case' = [kind |-> "group", g |-> g]
         /\ expect' = None

Pick ==
    /\ case.kind = "group"
    /\ LET g == case.g IN
       \E M \in IF g.wide THEN Patterns(g.n)
                ELSE { X \in SUBSET (1..g.n) : X \cap {1, 2} = g.lo } :
           /\ case' = [kind |-> "case", n |-> g.n, m |-> SeqOfSet(M)]
           /\ expect' = ExpectOf(g.n, M)

Next == Group \/ Pick
Spec == Init /\ [][Next]_vars
=============================================================================
