SPECIFICATION Spec
INVARIANT LawsHold
