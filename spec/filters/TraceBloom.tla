----------------------------- MODULE TraceBloom -----------------------------
(***************************************************************************)
(* C20, part (d), code -> spec direction.  The binder records, for real     *)
(* filters (size, hash count, tweak of its choosing) and real data, the    *)
(* bit positions the data hash to, and this module evaluates the           *)
(* definitions of BloomCode.tla on them: `expect` holds the answer to       *)
(* every query, the result of MatchTxAndUpdate and the non-zero bytes of    *)
(* the bit field afterwards; the binder compares them with bloom.Filter.    *)
(*                                                                         *)
(* A line of bloomtrace.ndjson:                                            *)
(*  kind "seq": id, ops: a list of [op, item] with op "add" or "q" and      *)
(*              item the list of positions of the datum                    *)
(*  kind "tx":  id, pre (items inserted beforehand), flag, txid (item),     *)
(*              outs [class, pushes (items), op (item)], ins [op, pushes],  *)
(*              after (items queried afterwards), follow (the follow-up     *)
(*              transactions spending each output, each tried on the        *)
(*              filter as the transaction left it)                         *)
(*  kind "bulk": id, adds (items), qs (items queried after all the adds)    *)
(*                                                                         *)
(* Laws evaluated on the real positions: a datum inserted earlier answers   *)
(* TRUE (no false negatives), the field only gains positions.              *)
(***************************************************************************)
EXTENDS BloomCode, TLC, Json

Trace == ndJsonDeserialize("bloomtrace.ndjson")
GroupSize == 40

VARIABLES i, expect
vars == <<i, expect>>

NGroups == (Len(Trace) + GroupSize - 1) \div GroupSize
Members(g) == {k \in 1..Len(Trace) : (k - 1) \div GroupSize + 1 = g}

Item(x) == Range(x)

\* fold the operations: st = [bits, res, added]
RECURSIVE RunOps(_, _, _)
RunOps(ops, k, st) ==
    IF k > Len(ops) THEN st
    ELSE LET it == Item(ops[k].item) IN
         IF ops[k].op = "add"
         THEN RunOps(ops, k + 1, [bits |-> Add(st.bits, it), res |-> Append(st.res, TRUE),
                                  added |-> st.added \cup {it}, ok |-> st.ok])
         ELSE LET m == Matches(st.bits, it) IN
              RunOps(ops, k + 1, [bits |-> st.bits, res |-> Append(st.res, m), added |-> st.added,
                                  ok |-> st.ok /\ (it \in st.added => m)])

EvalSeq(c) ==
    LET r == RunOps(c.ops, 1, [bits |-> {}, res |-> << >>, added |-> {}, ok |-> TRUE])
    IN  [ id |-> c.id, res |-> r.res, bytes |-> SparseBytes(r.bits), law |-> r.ok ]

TxOf(c) ==
    [ txid |-> Item(c.txid),
      outs |-> [k \in 1..Len(c.outs) |->
                  [ class |-> c.outs[k].class,
                    pushes |-> [j \in 1..Len(c.outs[k].pushes) |-> Item(c.outs[k].pushes[j])],
                    op |-> Item(c.outs[k].op) ]],
      ins  |-> [k \in 1..Len(c.ins) |->
                  [ op |-> Item(c.ins[k].op),
                    pushes |-> [j \in 1..Len(c.ins[k].pushes) |-> Item(c.ins[k].pushes[j])] ]] ]

EvalTx(c) ==
    LET pre == UNION { Item(c.pre[k]) : k \in 1..Len(c.pre) }
        r   == MatchTxAndUpdate(pre, c.flag, TxOf(c))
    IN  [ id |-> c.id, matched |-> r.matched, bytes |-> SparseBytes(r.bits),
          after |-> [k \in 1..Len(c.after) |-> Matches(r.bits, Item(c.after[k]))],
          follow |-> [k \in 1..Len(c.follow) |-> MatchTxAndUpdate(r.bits, c.flag, TxOf(c.follow[k])).matched],
          law |-> pre \subseteq r.bits ]

\* many insertions at once, then many queries (the thousands-of-elements cases)
EvalBulk(c) ==
    LET b == UNION { Item(c.adds[k]) : k \in 1..Len(c.adds) }
    IN  [ id |-> c.id, res |-> [k \in 1..Len(c.qs) |-> Matches(b, Item(c.qs[k]))],
          bytes |-> SparseBytes(b), law |-> \A k \in 1..Len(c.adds) : Matches(b, Item(c.adds[k])) ]

Eval(c) == IF c.kind = "seq" THEN EvalSeq(c) ELSE IF c.kind = "bulk" THEN EvalBulk(c) ELSE EvalTx(c)

None == [id |-> -1]

Init  == i = 0 /\ expect = None
Group == TRUE /\ i = 0 /\ \E g \in 1..NGroups : i' = -g /\ expect' = None
Case  == TRUE /\ i < 0 /\ \E k \in Members(-i) : i' = k /\ expect' = Eval(Trace[k])

Next == Group \/ Case
Spec == Init /\ [][Next]_vars

LawsHold == i > 0 => expect.law
=============================================================================
