SPECIFICATION Spec
INVARIANT LawsHold
