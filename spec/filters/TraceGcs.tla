------------------------------ MODULE TraceGcs ------------------------------
(***************************************************************************)
(* C20, part (b), code -> spec direction.  The binder records, per case,   *)
(* the REAL values the elements of a filter and of its queries are mapped   *)
(* to (SipHash-2-4 under the case's key, reduced to [0, N*M)), as numbers   *)
(* of four base-65536 digits.  This module evaluates the definitions of    *)
(* GcsCode.tla on them: `expect` is the filter the specification builds    *)
(* (bytes, N-prefixed bytes) and what every query and every batch has to   *)
(* answer; the binder compares that with the bytes and the answers of      *)
(* gcs.BuildGCSFilter / FromNBytes / FromBytes / Match / MatchAny /         *)
(* ZipMatchAny / HashMatchAny.                                             *)
(*                                                                         *)
(* A line of gcstrace.ndjson:                                              *)
(*   id, kind, p, m (M as a number), vals (values of the elements, in the  *)
(*   order the elements are given to the code; ascending for kind "large"),*)
(*   shape (difference classes the case was made for, or empty),           *)
(*   qs (values of the query elements), batches (lists of indexes into qs) *)
(*                                                                         *)
(* kind "small": everything is computed the procedural way (sort, scan,    *)
(*   zip, hash set) AND the laws are evaluated on the real values: values  *)
(*   below N*M, differences in the classes named by the shape, bytes       *)
(*   decode to the sorted values, scan = membership, the three batch       *)
(*   strategies agree with membership.                                     *)
(* kind "large" (hundreds to thousands of values): bytes the procedural    *)
(*   way from the ascending values; queries by membership (the small model *)
(*   and the small cases establish that the scan computes membership).     *)
(*                                                                         *)
(* The cases are grouped so that TLC's workers share them: 0 -> -g -> k.    *)
(***************************************************************************)
EXTENDS GcsCode, TLC, Json

Trace == ndJsonDeserialize("gcstrace.ndjson")
GroupSize == 40

VARIABLES i, expect
vars == <<i, expect>>

L == 4
NGroups == (Len(Trace) + GroupSize - 1) \div GroupSize
Members(g) == {k \in 1..Len(Trace) : (k - 1) \div GroupSize + 1 = g}

Batch(c, b) == [k \in 1..Len(b) |-> c.qs[b[k]]]

Eval(c) ==
    LET P      == c.p
        small  == c.kind = "small"
        n      == Len(c.vals)
        sorted == IF small THEN Sort(c.vals) ELSE c.vals
        f      == BuildSorted(sorted, P)
        lf     == Load(f, P, L)
        F      == MulSmall(c.m, n)
        d      == Deltas(sorted)
        vset   == Range(c.vals)
        match  == [k \in 1..Len(c.qs) |->
                      IF small THEN Match(lf, c.qs[k]) ELSE c.qs[k] \in vset]
        any    == [k \in 1..Len(c.batches) |->
                      IF small THEN MatchAny(lf, Batch(c, c.batches[k]))
                      ELSE \E j \in 1..Len(c.batches[k]) : c.qs[c.batches[k][j]] \in vset]
        lawRange == \A k \in 1..n : Lt(c.vals[k], F)
        lawOrder == IsSorted(sorted) /\ (small => Build(c.vals, P) = f)
        lawShape == Len(c.shape) > 0 =>
                       /\ Len(c.shape) = n
                       /\ \A k \in 1..n : InClass(d[k], c.shape[k], P)
        lawDecode == small => DecodeN(lf) = sorted
        lawMatch  == small => \A k \in 1..Len(c.qs) : match[k] = Member(c.vals, c.qs[k])
        lawBatch  == small => \A k \in 1..Len(c.batches) :
                        LET Q == Batch(c, c.batches[k]) IN
                        /\ any[k] = AnyMember(c.vals, Q)
                        /\ ZipMatchAny(lf, Q) = any[k]
                        /\ HashMatchAny(lf, Q) = any[k]
        lawFrame  == LET g == FromNBytes(NBytes(f)) IN g.ok /\ g.n = n /\ g.data = f.data
    IN  [ id |-> c.id, n |-> f.n, data |-> f.data, nbytes |-> NBytes(f),
          match |-> match, any |-> any,
          laws |-> [range |-> lawRange, order |-> lawOrder, shape |-> lawShape, decode |-> lawDecode,
                    match |-> lawMatch, batch |-> lawBatch, frame |-> lawFrame] ]

None == [id |-> -1]

Init  == i = 0 /\ expect = None
Group == TRUE /\ i = 0 /\ \E g \in 1..NGroups : i' = -g /\ expect' = None
Case  == TRUE /\ i < 0 /\ \E k \in Members(-i) : i' = k /\ expect' = Eval(Trace[k])

Next == Group \/ Case
Spec == Init /\ [][Next]_vars

\* the laws hold on the recorded values
LawsHold == i > 0 =>
    /\ expect.laws.range /\ expect.laws.order /\ expect.laws.shape /\ expect.laws.decode
    /\ expect.laws.match /\ expect.laws.batch /\ expect.laws.frame
=============================================================================
