---- MODULE MCMining_mining ----
\* generated from universe "mining"
EXTENDS Mining
U_TxIns == << {<<0, 0>>}, {<<1, 0>>}, {<<1, 1>>}, {<<0, 2>>}, {<<0, 1>>} >>
U_TxNOut == << 2, 1, 1, 1, 1 >>
U_TxFee == << 5000, 0, 2000, 300, 1000 >>
U_TxVSize == << 150, 100, 120, 100, 100 >>
U_TxSize == << 150, 100, 126, 106, 100 >>
U_TxRbf == << FALSE, FALSE, FALSE, FALSE, TRUE >>
U_TxCls == << "ok", "ok", "ok", "ok", "ok" >>
U_TxWit == << FALSE, FALSE, TRUE, TRUE, FALSE >>
U_TxWeight == << 600, 400, 477, 397, 400 >>
U_TxSigCost == << 0, 0, 0, 0, 0 >>
U_SlotParent == << 0 >>
U_Script == <<  >>
U_Policies == << [maxw |-> 3000000, minw |-> 0, prio |-> 0, minfree |-> 1000], [maxw |-> 1780, minw |-> 0, prio |-> 0, minfree |-> 0], [maxw |-> 4000000, minw |-> 1330, prio |-> 200000, minfree |-> 12000] >>
====
