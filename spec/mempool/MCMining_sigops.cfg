CONSTANTS
 N = 4
 TxIns <- U_TxIns
 TxNOut <- U_TxNOut
 TxFee <- U_TxFee
 TxVSize <- U_TxVSize
 TxSize <- U_TxSize
 TxRbf <- U_TxRbf
 TxCls <- U_TxCls
 TxLock <- U_TxLock
 TxWit <- U_TxWit
 SlotParent <- U_SlotParent
 NFund = 6
 Maturity = 1
 RejectRepl = FALSE
 MaxOrphans = 0
 MaxOrphanSize = 1000
 MinRelayFee = 1000
 FreeLimit = 275
 MaxEvict = 100
 MaxBlockTxs = 1
 MaxReorgTxs = 0
 Standalone = FALSE
 DisconnectEvicts = TRUE
 Standard = FALSE
 Script <- U_Script
 TxWeight <- U_TxWeight
 TxSigCost <- U_TxSigCost
 Policies <- U_Policies
 Variants <- U_Variants
 CbWeight <- U_CbWeight
 H0 = 2
 SubsidyInterval = 150
 HardDiff = FALSE
 CommitWeight = 224
INIT Init
NEXT Next
INVARIANT Inv
INVARIANT AlgoSound
INVARIANT AlgoComplete
