---- MODULE MCMining_sigops ----
\* generated from universe "sigops"
EXTENDS Mining
U_TxIns == << {<<0, 0>>}, {<<0, 1>>}, {<<0, 3>>}, {<<0, 4>>, <<0, 5>>} >>
U_TxNOut == << 1, 1, 1, 1 >>
U_TxFee == << 9000, 8000, 150, 2000 >>
U_TxVSize == << 700, 700, 100, 250 >>
U_TxSize == << 700, 700, 109, 250 >>
U_TxRbf == << FALSE, FALSE, FALSE, FALSE >>
U_TxCls == << "ok", "ok", "ok", "ok" >>
U_TxLock == << "none", "none", "none", "none" >>
U_TxWit == << FALSE, FALSE, TRUE, FALSE >>
U_TxWeight == << 2800, 2800, 397, 1000 >>
U_TxSigCost == << 40000, 39996, 1, 12 >>
U_SlotParent == << 0 >>
U_Script == <<  >>
U_Policies == << [maxw |-> 3000000, minw |-> 0, prio |-> 0, minfree |-> 1000], [maxw |-> 1876, minw |-> 0, prio |-> 0, minfree |-> 0], [maxw |-> 4000000, minw |-> 1426, prio |-> 200000, minfree |-> 12000] >>
U_Variants == << [pol |-> 1, pay |-> "none", clk0 |-> "wall", clk1 |-> "wall"], [pol |-> 2, pay |-> "p2pkh", clk0 |-> "near", clk1 |-> "far"], [pol |-> 3, pay |-> "p2sh", clk0 |-> "far", clk1 |-> "near"], [pol |-> 1, pay |-> "p2pkh", clk0 |-> "near", clk1 |-> "mtp"], [pol |-> 2, pay |-> "p2wpkh", clk0 |-> "mtp", clk1 |-> "mtp+1"], [pol |-> 1, pay |-> "none", clk0 |-> "mtp-1", clk1 |-> "far"] >>
U_CbWeight == [none |-> 300, p2pkh |-> 396, p2sh |-> 388, p2wpkh |-> 384]
====
