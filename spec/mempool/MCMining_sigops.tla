---- MODULE MCMining_sigops ----
\* generated from universe "sigops"
EXTENDS Mining
U_TxIns == << {<<0, 0>>}, {<<0, 1>>}, {<<0, 2>>}, {<<1, 1>>} >>
U_TxNOut == << 2, 1, 1, 1 >>
U_TxFee == << 9000, 8000, 7000, 1000 >>
U_TxVSize == << 700, 700, 700, 100 >>
U_TxSize == << 700, 700, 700, 100 >>
U_TxRbf == << FALSE, FALSE, FALSE, FALSE >>
U_TxCls == << "ok", "ok", "ok", "ok" >>
U_TxWit == << FALSE, FALSE, FALSE, FALSE >>
U_TxWeight == << 2800, 2800, 2800, 400 >>
U_TxSigCost == << 40000, 40000, 40000, 0 >>
U_SlotParent == << 0 >>
U_Script == <<  >>
U_Policies == << [maxw |-> 3000000, minw |-> 0, prio |-> 0, minfree |-> 1000], [maxw |-> 1780, minw |-> 0, prio |-> 0, minfree |-> 0], [maxw |-> 4000000, minw |-> 1330, prio |-> 200000, minfree |-> 12000] >>
====
