CONSTANTS
 N = 4
 TxIns <- U_TxIns
 TxNOut <- U_TxNOut
 TxFee <- U_TxFee
 TxVSize <- U_TxVSize
 TxSize <- U_TxSize
 TxRbf <- U_TxRbf
 TxCls <- U_TxCls
 TxLock <- U_TxLock
 TxWit <- U_TxWit
 SlotParent <- U_SlotParent
 NFund = 2
 Maturity = 1
 RejectRepl = FALSE
 MaxOrphans = 1
 MaxOrphanSize = 1000
 MinRelayFee = 1000
 FreeLimit = 275
 MaxEvict = 100
 MaxBlockTxs = 1
 MaxReorgTxs = 0
 Standalone = TRUE
 DisconnectEvicts = TRUE
 Standard = FALSE
 Script <- U_Script
INIT Init
NEXT Next
INVARIANT Inv
