---- MODULE MC_blockconflict ----
\* generated from universe "blockconflict"
EXTENDS Mempool
U_TxIns == << {<<0, 0>>}, {<<0, 1>>}, {<<2, 0>>}, {<<0, 0>>, <<0, 1>>} >>
U_TxNOut == << 1, 1, 1, 1 >>
U_TxFee == << 1000, 1000, 1000, 500 >>
U_TxVSize == << 100, 100, 100, 200 >>
U_TxSize == << 100, 100, 100, 200 >>
U_TxRbf == << FALSE, FALSE, FALSE, FALSE >>
U_TxCls == << "ok", "ok", "ok", "ok" >>
U_TxLock == << "none", "none", "none", "none" >>
U_TxWit == << FALSE, FALSE, FALSE, FALSE >>
U_TxWeight == << 400, 400, 400, 800 >>
U_TxSigCost == << 0, 0, 0, 0 >>
U_SlotParent == << 0 >>
U_Script == <<  >>
====
