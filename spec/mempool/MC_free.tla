---- MODULE MC_free ----
\* generated from universe "free"
EXTENDS Mempool
U_TxIns == << {<<0, 0>>}, {<<0, 1>>}, {<<1, 0>>}, {<<-100, 0>>}, {<<2, 0>>} >>
U_TxNOut == << 1, 1, 1, 1, 1 >>
U_TxFee == << 0, 50, 0, 1000, 1000 >>
U_TxVSize == << 100, 120, 100, 100, 100 >>
U_TxSize == << 100, 120, 100, 100, 100 >>
U_TxRbf == << FALSE, FALSE, FALSE, FALSE, FALSE >>
U_TxCls == << "ok", "ok", "ok", "ok", "negfee" >>
U_TxLock == << "none", "none", "none", "none", "none" >>
U_TxWit == << FALSE, FALSE, FALSE, FALSE, FALSE >>
U_TxWeight == << 400, 480, 400, 400, 400 >>
U_TxSigCost == << 0, 0, 0, 0, 0 >>
U_SlotParent == << 0 >>
U_Script == <<  >>
====
