---- MODULE MC_locknonstd ----
\* generated from universe "locknonstd"
EXTENDS Mempool
U_TxIns == << {<<0, 0>>}, {<<0, 1>>}, {<<2, 0>>}, {<<0, 0>>}, {<<0, 1>>} >>
U_TxNOut == << 1, 1, 1, 1, 1 >>
U_TxFee == << 1000, 1000, 1000, 2000, 1500 >>
U_TxVSize == << 100, 100, 100, 100, 100 >>
U_TxSize == << 100, 100, 100, 100, 100 >>
U_TxRbf == << FALSE, FALSE, FALSE, FALSE, FALSE >>
U_TxCls == << "ok", "ok", "ok", "ok", "ok" >>
U_TxLock == << "tbetween", "h1", "none", "tfuture", "h2" >>
U_TxWit == << FALSE, FALSE, FALSE, FALSE, FALSE >>
U_TxWeight == << 400, 400, 400, 400, 400 >>
U_TxSigCost == << 0, 0, 0, 0, 0 >>
U_SlotParent == << 0, 1 >>
U_Script == <<  >>
====
