---- MODULE MC_locktime ----
\* generated from universe "locktime"
EXTENDS Mempool
U_TxIns == << {<<0, 0>>}, {<<0, 1>>}, {<<2, 0>>}, {<<0, 0>>}, {<<0, 0>>} >>
U_TxNOut == << 1, 1, 1, 1, 1 >>
U_TxFee == << 1000, 1000, 1000, 2000, 1500 >>
U_TxVSize == << 150, 150, 150, 150, 150 >>
U_TxSize == << 150, 150, 150, 150, 150 >>
U_TxRbf == << FALSE, FALSE, FALSE, FALSE, TRUE >>
U_TxCls == << "ok", "ok", "ok", "ok", "ok" >>
U_TxLock == << "tbetween", "h1", "tpast", "tfuture", "h0" >>
U_TxWit == << FALSE, FALSE, FALSE, FALSE, FALSE >>
U_TxWeight == << 600, 600, 600, 600, 600 >>
U_TxSigCost == << 0, 0, 0, 0, 0 >>
U_SlotParent == << 0, 1 >>
U_Script == <<  >>
====
