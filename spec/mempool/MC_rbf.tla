---- MODULE MC_rbf ----
\* generated from universe "rbf"
EXTENDS Mempool
U_TxIns == << {<<0, 0>>}, {<<1, 1>>}, {<<0, 0>>}, {<<0, 0>>}, {<<0, 0>>, <<0, 1>>}, {<<-100, 0>>} >>
U_TxNOut == << 2, 1, 1, 1, 1, 1 >>
U_TxFee == << 2000, 1000, 3100, 3099, 4000, 1000 >>
U_TxVSize == << 100, 100, 100, 100, 200, 100 >>
U_TxSize == << 100, 100, 100, 100, 200, 100 >>
U_TxRbf == << TRUE, FALSE, FALSE, FALSE, FALSE, FALSE >>
U_TxCls == << "ok", "ok", "ok", "ok", "ok", "ok" >>
U_TxLock == << "none", "none", "none", "none", "none", "none" >>
U_TxWit == << FALSE, FALSE, FALSE, FALSE, FALSE, FALSE >>
U_TxWeight == << 400, 400, 400, 400, 800, 400 >>
U_TxSigCost == << 0, 0, 0, 0, 0, 0 >>
U_SlotParent == << 0 >>
U_Script == <<  >>
====
