---- MODULE MC_rbfwit ----
\* generated from universe "rbfwit"
EXTENDS Mempool
U_TxIns == << {<<0, 0>>}, {<<0, 0>>}, {<<0, 0>>}, {<<0, 0>>}, {<<1, 1>>} >>
U_TxNOut == << 2, 1, 1, 1, 1 >>
U_TxFee == << 2400, 2700, 4000, 4020, 500 >>
U_TxVSize == << 120, 200, 200, 200, 100 >>
U_TxSize == << 201, 281, 281, 281, 100 >>
U_TxRbf == << TRUE, FALSE, FALSE, FALSE, FALSE >>
U_TxCls == << "ok", "ok", "ok", "ok", "ok" >>
U_TxLock == << "none", "none", "none", "none", "none" >>
U_TxWit == << TRUE, TRUE, TRUE, TRUE, FALSE >>
U_TxWeight == << 477, 797, 797, 797, 400 >>
U_TxSigCost == << 0, 0, 0, 0, 0 >>
U_SlotParent == << 0 >>
U_Script == <<  >>
====
