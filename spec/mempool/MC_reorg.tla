---- MODULE MC_reorg ----
\* generated from universe "reorg"
EXTENDS Mempool
U_TxIns == << {<<-1, 0>>}, {<<0, 0>>}, {<<2, 0>>}, {<<0, 0>>} >>
U_TxNOut == << 1, 1, 1, 1 >>
U_TxFee == << 1000, 1000, 1000, 5000 >>
U_TxVSize == << 100, 100, 100, 100 >>
U_TxSize == << 100, 100, 100, 100 >>
U_TxRbf == << FALSE, FALSE, FALSE, FALSE >>
U_TxCls == << "ok", "ok", "ok", "ok" >>
U_TxLock == << "none", "none", "none", "none" >>
U_TxWit == << FALSE, FALSE, FALSE, FALSE >>
U_TxWeight == << 400, 400, 400, 400 >>
U_TxSigCost == << 0, 0, 0, 0 >>
U_SlotParent == << 0, 0, 2 >>
U_Script == <<  >>
====
