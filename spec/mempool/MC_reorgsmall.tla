---- MODULE MC_reorgsmall ----
\* generated from universe "reorgsmall"
EXTENDS Mempool
U_TxIns == << {<<0, 0>>}, {<<1, 0>>}, {<<2, 0>>}, {<<3, 0>>} >>
U_TxNOut == << 1, 1, 1, 1 >>
U_TxFee == << 1000, 1000, 1000, 1000 >>
U_TxVSize == << 62, 100, 100, 100 >>
U_TxSize == << 62, 100, 100, 100 >>
U_TxRbf == << FALSE, FALSE, FALSE, FALSE >>
U_TxCls == << "small", "ok", "ok", "ok" >>
U_TxLock == << "none", "none", "none", "none" >>
U_TxWit == << FALSE, FALSE, FALSE, FALSE >>
U_TxWeight == << 248, 400, 400, 400 >>
U_TxSigCost == << 0, 0, 0, 0 >>
U_SlotParent == << 0, 0, 2 >>
U_Script == <<  >>
====
