------------------------------ MODULE Mempool ------------------------------
(***************************************************************************)
(* btcd transaction memory pool (mempool/mempool.go) together with the      *)
(* block connect / disconnect protocol the sync manager applies to it       *)
(* (netsync/manager.go: handleBlockchainNotification), over a small         *)
(* universe of abstract transactions and a small tree of block slots.       *)
(*                                                                         *)
(* Implementation layer: one action per public entry point of TxPool, each  *)
(* written in the order of the code's decision structure                    *)
(* (checkMempoolAcceptance, validateReplacement, processOrphans, ...), with *)
(* the spender index `sb` (TxPool.outpoints) and the orphan parent index    *)
(* `obp` (TxPool.orphansByPrev) kept as separate variables that are updated *)
(* exactly where the code updates them.                                     *)
(*                                                                         *)
(* Property layer (C10): NoConflict, InputsAvailable, IndexAgrees, Minable, *)
(* OrphanBounds, RejectedUnchanged, ReplacementRule.                        *)
(*                                                                         *)
(* Actions carry their arguments as parameters so that TLC's               *)
(* "-dump dot,actionlabels" edge labels tell the binder what to call on the *)
(* real pool; the pseudo-invariant EmitExp prints, once per distinct state,  *)
(* the result code the specification predicts for every submission call.    *)
(***************************************************************************)
EXTENDS Integers, Sequences, FiniteSets, TLC

CONSTANTS
  N,             \* transactions are 1..N; a transaction only spends outputs of smaller ids
  TxIns,         \* <<set of outpoints>> per tx; outpoint = <<src, idx>>
  TxNOut,        \* number of outputs per tx
  TxFee,         \* fee in satoshi (inputs - outputs); meaningless for class "negfee"
  TxVSize,       \* virtual size (GetTxVirtualSize)
  TxSize,        \* full serialized size (orphan size limit)
  TxRbf,         \* explicit BIP125 signalling (all inputs' sequence <= 0xfffffffd)
  TxCls,         \* "ok" | "badscript" | "insane" | "negfee" | "small" (valid in a block, but shorter than
                 \* MinStandardTxNonWitnessSize: always refused by the pool)
  TxLock,        \* nLockTime class (with a non-final sequence number): "none" | "h0" (a height already
                 \* passed) | "h1" / "h2" (height of the first / second block mined here) | "tpast" (a time
                 \* before every median time past) | "tbetween" (after the median time past, before the
                 \* wall clock) | "tfuture" (after the wall clock)
  Standard,      \* ~Policy.AcceptNonStd: CheckTransactionStandard runs (all scripts of such a universe are
                 \* standard).  Finality for the next block is demanded of every admission in either
                 \* configuration: C10 quantifies over policies, and a pooled transaction that is not
                 \* final cannot be mined
  TxWit,         \* the transaction carries witness data (never put into the blocks mined here)
  NFund,         \* confirmed non-coinbase coins <<0,0>> .. <<0,NFund-1>>
  SlotParent,    \* block slots 1..Len(SlotParent); parent slot, 0 = tip of the base chain
  Maturity,      \* chaincfg.Params.CoinbaseMaturity
  RejectRepl,    \* Policy.RejectReplacement
  MaxOrphans,    \* Policy.MaxOrphanTxs
  MaxOrphanSize, \* Policy.MaxOrphanTxSize
  MinRelayFee,   \* Policy.MinRelayTxFee (satoshi / 1000 bytes)
  FreeLimit,     \* Policy.FreeTxRelayLimit*10*1000 (bytes of free transactions)
  MaxEvict,      \* mempool.MaxReplacementEvictions
  MaxBlockTxs,   \* bound: transactions in a block mined on the tip
  MaxReorgTxs,   \* bound: transactions in the blocks of a new branch
  Standalone,    \* enable the free-standing Remove*/ProcessOrphans calls
  DisconnectEvicts, \* TRUE: NTBlockDisconnected as netsync implements it since btcd d5392345 (spenders of the
                 \* disconnected coinbase and of transactions that could not be re-added are evicted),
                 \* under which `stale` stays empty; FALSE: the protocol before that repair
  Script         \* <<>>: every interleaving; otherwise the only schedule explored, a sequence of
                 \* <<kind, tx>> with kind 1 = ProcessTx(tx, TRUE), 2 = CheckAccept(tx), 3 = RemoveTx(tx, TRUE)
                 \* (boundary scenarios with a hundred transactions)

VARIABLES
  chain,    \* active chain above the base: sequence of slots
  content,  \* slot -> sequence of txs (<<>> while unused)
  used,     \* slots whose block has been built
  cutxo,    \* derived: Utxo(chain, content), kept as a variable only to avoid recomputing it
  pool,     \* TxPool.pool: function pooled tx -> TxDesc.Height
  sb,       \* TxPool.outpoints: function outpoint -> spender
  orph,     \* TxPool.orphans (set of txs)
  obp,      \* TxPool.orphansByPrev: function outpoint -> non-empty set of orphans
  penny,    \* TxPool.pennyTotal (bytes, no decay)
  stale,    \* pooled txs left behind by a disconnect with an input that exists nowhere (always empty
            \* with DisconnectEvicts; documents the defect repaired by btcd d5392345 otherwise)
  step      \* position in Script (stays 0 without a script)

vars == <<chain, content, used, cutxo, pool, sb, orph, obp, penny, stale, step>>

Txs   == 1..N
Slots == 1..Len(SlotParent)

BaseCB    == <<-100, 0>>
CB(b)     == <<0 - b, 0>>
FundCoins == {<<0, i>> : i \in 0..(NFund-1)}
Outs(t)   == {<<t, i>> : i \in 0..(TxNOut[t]-1)}
Src(c)    == c[1]
IsCb(c)   == c[1] < 0

RAcc == 1   RMiss == 2
RDup == 10  RInsane == 11  RPoolSpent == 12  RInChain == 13  RInputs == 14
RRate == 15 REvictMany == 16 RSpendsConfl == 17 RFeeRate == 18 RAbsFee == 19
RNewUnconf == 20 RScript == 21 RNoOrphans == 22 ROrphanBig == 23 RSmall == 24 RNonFinal == 25
Results == {1, 2} \cup (10..25)

ASSUME /\ \A t \in Txs : \A c \in TxIns[t] : Src(c) < t
       /\ \A t \in Txs : TxIns[t] # {} /\ TxNOut[t] >= 1
       /\ \A b \in Slots : SlotParent[b] < b
       /\ Standard \in BOOLEAN

RECURSIVE SlotHeight(_)
SlotHeight(b) == IF b = 0 THEN 0 ELSE 1 + SlotHeight(SlotParent[b])

Range(s) == {s[i] : i \in 1..Len(s)}

RECURSIVE SetToSeq(_)
Min(S) == CHOOSE x \in S : \A y \in S : x <= y
SetToSeq(S) == IF S = {} THEN <<>> ELSE <<Min(S)>> \o SetToSeq(S \ {Min(S)})

RECURSIVE SumFee(_)
SumFee(S) == IF S = {} THEN 0 ELSE LET x == Min(S) IN TxFee[x] + SumFee(S \ {x})

-----------------------------------------------------------------------------
(* Chain state as a function of the active chain.                          *)

Confirmed(ch, cont) == UNION {Range(cont[ch[i]]) : i \in 1..Len(ch)}
Created(ch, cont)   == FundCoins \cup {BaseCB} \cup {CB(ch[i]) : i \in 1..Len(ch)}
                         \cup UNION {Outs(t) : t \in Confirmed(ch, cont)}
SpentIn(ch, cont)   == UNION {TxIns[t] : t \in Confirmed(ch, cont)}
Utxo(ch, cont)      == Created(ch, cont) \ SpentIn(ch, cont)
CoinHeight(c)       == IF c = BaseCB THEN 0 ELSE SlotHeight(0 - c[1])
\* a chain coin may be spent by a transaction of the block at height h
Mature(c, h)        == IsCb(c) => (h - CoinHeight(c) >= Maturity)
\* IsFinalizedTransaction(tx, height hn of the block that would contain it, median time past):
\* the median time past stays between "tpast" and "tbetween" during a run
Final(t, hn) == CASE TxLock[t] = "h1" -> 1 < hn
                  [] TxLock[t] = "h2" -> 2 < hn
                  [] TxLock[t] \in {"tbetween", "tfuture"} -> FALSE
                  [] OTHER -> TRUE
\* what the pool sees of the chain: BestHeight and the utxo set
CV(ch, cont)        == [h |-> Len(ch), utxo |-> Utxo(ch, cont)]

-----------------------------------------------------------------------------
(* Function helpers (dynamic domains).                                     *)

Drop(f, D)    == [x \in (DOMAIN f) \ D |-> f[x]]
Put(f, D, v)  == [x \in (DOMAIN f) \cup D |-> IF x \in D THEN v ELSE f[x]]
Lookup(f, x)  == IF x \in DOMAIN f THEN f[x] ELSE 0
LookupS(f, x) == IF x \in DOMAIN f THEN f[x] ELSE {}

PS == [pool |-> pool, sb |-> sb, orph |-> orph, obp |-> obp, penny |-> penny]
PoolSet(ps) == DOMAIN ps.pool

-----------------------------------------------------------------------------
(* mempool.go helpers                                                      *)

MinFee(sz) == LET f == (sz * MinRelayFee) \div 1000
              IN IF f = 0 /\ MinRelayFee > 0 THEN MinRelayFee ELSE f
FeeRate(t) == (TxFee[t] * 1000) \div TxVSize[t]

\* signalsReplacement: explicit, or inherited from a pooled ancestor
RECURSIVE Signals(_, _)
Signals(x, ps) == TxRbf[x] \/ \E c \in TxIns[x] :
                     Src(c) \in PoolSet(ps) /\ Signals(Src(c), ps)

\* txDescendants: follows the spender index
RECURSIVE DescIdx(_, _)
DescIdx(x, ps) == LET ch == {Lookup(ps.sb, o) : o \in Outs(x)} \ {0}
                  IN ch \cup UNION {DescIdx(y, ps) : y \in ch}

\* txAncestors: follows pool lookups of the input hashes
RECURSIVE Ancestors(_, _)
Ancestors(x, ps) == LET pa == {Src(c) : c \in TxIns[x]} \cap PoolSet(ps)
                    IN pa \cup UNION {Ancestors(y, ps) : y \in pa}

\* txConflicts
ConflictsIdx(t, ps) == LET d == {Lookup(ps.sb, c) : c \in TxIns[t]} \ {0}
                       IN d \cup UNION {DescIdx(x, ps) : x \in d}

\* removeTransaction(x, redeemers)
RECURSIVE RemSet(_, _)
RemSet(x, ps) == {x} \cup UNION {RemSet(y, ps) : y \in ({Lookup(ps.sb, o) : o \in Outs(x)} \ {0})}

RemoveTxs(ps, R) ==   \* remove every pooled member of R, deleting the index entries of its inputs
  LET rp == R \cap PoolSet(ps)
  IN [ps EXCEPT !.pool = Drop(@, rp), !.sb = Drop(@, UNION {TxIns[x] : x \in rp})]

RemoveTransaction(ps, x, redeemers) ==
  IF redeemers THEN RemoveTxs(ps, RemSet(x, ps)) ELSE RemoveTxs(ps, {x})

RemoveDoubleSpendsOf(ps, t) ==
  LET d == ({Lookup(ps.sb, c) : c \in TxIns[t]} \ {0}) \ {t}
  IN RemoveTxs(ps, UNION {RemSet(x, ps) : x \in d})

\* removeOrphan(t, redeemers): no-op unless t is an orphan
RECURSIVE OrphRemSet(_, _)
OrphRemSet(t, ps) ==
  IF t \notin ps.orph THEN {}
  ELSE {t} \cup UNION {OrphRemSet(y, ps) : y \in UNION {LookupS(ps.obp, o) : o \in Outs(t)}}

DropOrphans(ps, R) ==
  LET nobp == [c \in DOMAIN ps.obp |-> ps.obp[c] \ {r \in R : c \in TxIns[r]}]
  IN [ps EXCEPT !.orph = @ \ R,
                !.obp  = [c \in {d \in DOMAIN nobp : nobp[d] # {}} |-> nobp[c]]]

RemoveOrphan(ps, t, redeemers) ==
  IF t \notin ps.orph THEN ps
  ELSE IF redeemers THEN DropOrphans(ps, OrphRemSet(t, ps)) ELSE DropOrphans(ps, {t})

\* removeOrphanDoubleSpends(t)
RemoveOrphanDoubleSpends(ps, t) ==
  DropOrphans(ps, UNION {OrphRemSet(o, ps) : o \in UNION {LookupS(ps.obp, c) : c \in TxIns[t]}})

AddOrphanEntry(ps, t) ==
  [ps EXCEPT !.orph = @ \cup {t},
             !.obp  = [c \in (DOMAIN @) \cup TxIns[t] |->
                          IF c \in TxIns[t] THEN LookupS(@, c) \cup {t} ELSE @[c]]]

-----------------------------------------------------------------------------
(* checkMempoolAcceptance, in the order of the code.  Returns the result   *)
(* code, the rate limiter total afterwards, and the set to evict.          *)

Check(t, ps, cv, isNew, rateLimit, rejectDupOrphans) ==
  LET h       == cv.h
      utxo    == cv.utxo
      direct  == {Lookup(ps.sb, c) : c \in TxIns[t]} \ {0}
      avail(c) == c \in utxo \/ (Src(c) > 0 /\ Src(c) \in PoolSet(ps))
      minFee  == MinFee(TxVSize[t])
      free    == TxFee[t] < minFee /\ (isNew \/ rateLimit)
      pen2    == IF free /\ ps.penny < FreeLimit THEN ps.penny + TxVSize[t] ELSE ps.penny
      confl   == ConflictsIdx(t, ps)
      cpar    == {Src(c) : c \in UNION {TxIns[x] : x \in confl}}
      R(code, pen, ev) == [res |-> code, penny |-> pen, evict |-> ev]
  IN
  IF t \in PoolSet(ps) \/ (rejectDupOrphans /\ t \in ps.orph) THEN R(RDup, ps.penny, {})
  ELSE IF TxCls[t] = "small" THEN R(RSmall, ps.penny, {})
  ELSE IF TxCls[t] = "insane" THEN R(RInsane, ps.penny, {})
  ELSE IF direct # {} /\ (RejectRepl \/ \E x \in direct : ~Signals(x, ps)) THEN R(RPoolSpent, ps.penny, {})
  ELSE IF Outs(t) \cap utxo # {} THEN R(RInChain, ps.penny, {})
  ELSE IF \E c \in TxIns[t] : ~avail(c) THEN R(RMiss, ps.penny, {})
  ELSE IF TxCls[t] = "negfee" \/ \E c \in TxIns[t] : c \in utxo /\ ~Mature(c, h + 1) THEN R(RInputs, ps.penny, {})
  ELSE IF ~Final(t, h + 1) THEN R(RNonFinal, ps.penny, {})   \* IsFinalizedTransaction(tx, nextBlockHeight, medianTimePast)
  ELSE IF free /\ ps.penny >= FreeLimit THEN R(RRate, ps.penny, {})
  ELSE IF direct # {} /\ Cardinality(confl) > MaxEvict THEN R(REvictMany, pen2, {})
  ELSE IF direct # {} /\ Ancestors(t, ps) \cap confl # {} THEN R(RSpendsConfl, pen2, {})
  ELSE IF direct # {} /\ \E x \in confl : FeeRate(t) <= FeeRate(x) THEN R(RFeeRate, pen2, {})
  ELSE IF direct # {} /\ TxFee[t] < SumFee(confl) + minFee THEN R(RAbsFee, pen2, {})
  ELSE IF direct # {} /\ \E c \in TxIns[t] : Src(c) \notin cpar /\ Src(c) \in PoolSet(ps) THEN R(RNewUnconf, pen2, {})
  ELSE IF TxCls[t] = "badscript" THEN R(RScript, pen2, {})
  ELSE R(RAcc, pen2, IF direct # {} THEN confl ELSE {})

(* Property layer: what C10 demands of an accepted replacement, stated over *)
(* the pool relation rather than the index.                                 *)
RECURSIVE DescPool(_, _)
DescPool(x, P) == LET ch == {y \in P : \E c \in TxIns[y] : Src(c) = x}
                  IN ch \cup UNION {DescPool(y, P) : y \in ch}
ReplacementRule(t, ev, ps) ==
  LET P  == PoolSet(ps)
      d  == {x \in P : TxIns[x] \cap TxIns[t] # {}}
  IN /\ ev = d \cup UNION {DescPool(x, P) : x \in d}
     /\ Cardinality(ev) <= MaxEvict
     /\ ev # {} => /\ TxFee[t] >= SumFee(ev) + MinFee(TxVSize[t])
                   /\ \A x \in ev : FeeRate(t) > FeeRate(x)
                   /\ \A x \in ev : Signals(x, ps)
                   /\ ~RejectRepl

\* maybeAcceptTransaction: returns the check result and the new pool state
MaybeAccept(t, ps, cv, isNew, rateLimit, rdo) ==
  LET r == Check(t, ps, cv, isNew, rateLimit, rdo)
  IN IF r.res # RAcc THEN [r |-> r, ps |-> [ps EXCEPT !.penny = r.penny]]
     ELSE LET p1 == RemoveTxs(ps, r.evict)
              p2 == [p1 EXCEPT !.pool  = Put(@, {t}, cv.h),
                               !.sb    = Put(@, TxIns[t], t),
                               !.penny = r.penny]
          IN IF Assert(ReplacementRule(t, r.evict, ps), <<"ReplacementRule violated by the model", t, r, ps>>)
             THEN [r |-> r, ps |-> p2] ELSE [r |-> r, ps |-> p2]

(* processOrphans(acc): the set of possible outcomes (map iteration order  *)
(* over orphansByPrev[outpoint] is unspecified).  For one outpoint the      *)
(* candidates that are still orphans are skipped; the first other candidate *)
(* decides: accepted -> promoted, error -> removed with redeemers; then the *)
(* loop over this outpoint stops.                                          *)
RECURSIVE PORun(_, _, _, _, _)
PORun(queue, idx, ps, acc, cv) ==
  IF queue = <<>> THEN {[ps |-> ps, acc |-> acc]}
  ELSE LET item == Head(queue) IN
    IF idx >= TxNOut[item] THEN PORun(Tail(queue), 0, ps, acc, cv)
    ELSE LET cands == {o \in LookupS(ps.obp, <<item, idx>>) :
                          Check(o, ps, cv, TRUE, TRUE, FALSE).res # RMiss}
         IN IF cands = {} THEN PORun(queue, idx + 1, ps, acc, cv)
            ELSE UNION { LET m == MaybeAccept(o, ps, cv, TRUE, TRUE, FALSE)
                         IN IF m.r.res = RAcc
                            THEN PORun(Append(queue, o), idx + 1, RemoveOrphan(m.ps, o, FALSE), Append(acc, o), cv)
                            ELSE PORun(queue, idx + 1, RemoveOrphan(m.ps, o, TRUE), acc, cv)
                       : o \in cands }

RECURSIVE RODSeq(_, _)
RODSeq(ps, s) == IF s = <<>> THEN ps ELSE RODSeq(RemoveOrphanDoubleSpends(ps, Head(s)), Tail(s))

ProcessOrphansOutcomes(t, ps, cv) ==
  { [ps |-> RODSeq(o.ps, <<t>> \o o.acc), acc |-> o.acc] : o \in PORun(<<t>>, 0, ps, <<>>, cv) }

(* addOrphan after limitNumOrphans: outcomes (random eviction)             *)
AddOrphanOutcomes(t, ps) ==
  IF MaxOrphans <= 0 THEN {ps}
  ELSE IF Cardinality(ps.orph) + 1 <= MaxOrphans THEN {AddOrphanEntry(ps, t)}
  ELSE {AddOrphanEntry(RemoveOrphan(ps, v, FALSE), t) : v \in ps.orph}

-----------------------------------------------------------------------------
(* Sync-manager protocols                                                  *)

\* NTBlockConnected, one transaction of the block; chain state = ch (block already connected)
ConnectTxOutcomes(t, ps, cv) ==
  LET p1 == RemoveTransaction(ps, t, FALSE)
      p2 == RemoveDoubleSpendsOf(p1, t)
      p3 == RemoveOrphan(p2, t, FALSE)
  IN {o.ps : o \in ProcessOrphansOutcomes(t, p3, cv)}

RECURSIVE ConnectSeqOutcomes(_, _, _)
ConnectSeqOutcomes(s, P, cv) ==   \* P: set of pool states
  IF s = <<>> THEN P
  ELSE ConnectSeqOutcomes(Tail(s), UNION {ConnectTxOutcomes(Head(s), ps, cv) : ps \in P}, cv)

\* NTBlockDisconnected, one transaction; chain state = ch (block already disconnected)
DisconnectTx(t, ps, cv) ==
  LET m == MaybeAccept(t, ps, cv, FALSE, FALSE, TRUE)
  IN IF m.r.res >= 10 \/ (DisconnectEvicts /\ m.r.res = RMiss) THEN RemoveTransaction(m.ps, t, TRUE) ELSE m.ps

RECURSIVE DisconnectSeq(_, _, _)
DisconnectSeq(s, ps, cv) ==
  IF s = <<>> THEN ps ELSE DisconnectSeq(Tail(s), DisconnectTx(Head(s), ps, cv), cv)

\* disconnect the blocks of ch above length k, tip first
RECURSIVE DisconnectDown(_, _, _, _)
DisconnectDown(ch, k, ps, cont) ==
  IF Len(ch) <= k THEN ps
  ELSE LET ch1 == SubSeq(ch, 1, Len(ch) - 1)
           b   == ch[Len(ch)]
           cbs == {Lookup(ps.sb, CB(b))} \ {0}      \* pooled spender of the coinbase that disappears
           ps0 == IF DisconnectEvicts THEN RemoveTxs(ps, UNION {RemSet(x, ps) : x \in cbs}) ELSE ps
       IN DisconnectDown(ch1, k, DisconnectSeq(cont[b], ps0, CV(ch1, cont)), cont)

\* connect the blocks nc[k+1..] one after the other
RECURSIVE ConnectUp(_, _, _, _)
ConnectUp(nc, k, P, cont) ==
  IF k >= Len(nc) THEN P
  ELSE LET ch1 == SubSeq(nc, 1, k + 1)
       IN ConnectUp(nc, k + 1, ConnectSeqOutcomes(cont[nc[k + 1]], P, CV(ch1, cont)), cont)

\* a set of transactions that forms a valid block body on top of ch
BodyOK(S, ch, cont) ==
  LET utxo == Utxo(ch, cont) IN
  /\ S \cap Confirmed(ch, cont) = {}
  /\ \A t \in S : /\ TxCls[t] \in {"ok", "small"}
                  /\ Final(t, Len(ch) + 1)
                  /\ \A c \in TxIns[t] : \/ c \in utxo /\ Mature(c, Len(ch) + 1)
                                         \/ Src(c) \in S
  /\ \A t, u \in S : t # u => TxIns[t] \cap TxIns[u] = {}

\* the bodies of the blocks mined here carry no witness data (their coinbase is fixed in advance)
ValidBody(S, ch, cont) == BodyOK(S, ch, cont) /\ \A t \in S : ~TxWit[t]

\* pooled transactions with an input that exists neither in the chain nor in the pool
Unavailable(ps, ch, cont) ==
  {t \in PoolSet(ps) : \E c \in TxIns[t] : c \notin Utxo(ch, cont) /\ ~(Src(c) > 0 /\ Src(c) \in PoolSet(ps))}

-----------------------------------------------------------------------------
\* result codes of the submission calls in a state
ExpOf(ps, cv) ==
  LET want(t) == Script = <<>> \/ (step < Len(Script) /\ Script[step + 1][2] = t)   \* with a script only the next call matters
      c1 == [t \in Txs |-> IF want(t) THEN Check(t, ps, cv, TRUE, TRUE, TRUE) ELSE [res |-> 0, penny |-> 0, evict |-> {}]]
      m1 == [t \in Txs |-> c1[t].res]
      m0 == [t \in Txs |-> IF ~want(t) THEN 0
                            ELSE IF TxFee[t] >= MinFee(TxVSize[t]) THEN m1[t]
                            ELSE Check(t, ps, cv, FALSE, FALSE, TRUE).res]
      pt(t, ao) == IF m1[t] # RMiss THEN m1[t]
                   ELSE IF ~ao THEN RNoOrphans ELSE IF TxSize[t] > MaxOrphanSize THEN ROrphanBig ELSE RMiss
  IN [ pt1 |-> [t \in Txs |-> pt(t, TRUE)],   \* ProcessTransaction(tx, allowOrphan=true, rateLimit=true)
       pt0 |-> [t \in Txs |-> pt(t, FALSE)],  \* ProcessTransaction(tx, false, true)
       ma1 |-> m1,    \* MaybeAcceptTransaction(tx, true, true) and CheckMempoolAcceptance(tx)
       ma0 |-> m0,    \* MaybeAcceptTransaction(tx, false, false)
       ev  |-> [t \in Txs |-> c1[t].evict] ]   \* what an accepted submission evicts (MempoolAcceptResult.Conflicts)

CVnow == [h |-> Len(chain), utxo |-> cutxo]

Init ==
  /\ chain = <<>> /\ content = [b \in Slots |-> <<>>] /\ used = {}
  /\ cutxo = Utxo(chain, content)
  /\ pool = <<>> /\ sb = <<>> /\ orph = {} /\ obp = <<>> /\ penny = 0 /\ stale = {} /\ step = 0

\* the schedule: without a script everything is enabled
Sched(kind, t) == Script = <<>> \/ (step < Len(Script) /\ Script[step + 1] = <<kind, t>>)
StepNext == step' = IF Script = <<>> THEN 0 ELSE step + 1

SetPS(ps) ==
  /\ StepNext
  /\ pool' = ps.pool /\ sb' = ps.sb /\ orph' = ps.orph /\ obp' = ps.obp /\ penny' = ps.penny
  /\ stale' = IF stale = {} THEN {} ELSE stale \cap Unavailable(ps, chain', content')

KeepChain == UNCHANGED <<chain, content, used, cutxo>>

\* TxPool.ProcessTransaction(tx, allowOrphan, rateLimit=true, tag)
ProcessTx(t, allowOrphan) ==
  LET cv == CVnow
      m  == MaybeAccept(t, PS, cv, TRUE, TRUE, TRUE) IN
  /\ Sched(1, t) /\ (Script # <<>> => allowOrphan)
  /\ KeepChain
  /\ \/ /\ m.r.res = RAcc
        /\ \E o \in ProcessOrphansOutcomes(t, m.ps, cv) : SetPS(o.ps)
     \/ /\ m.r.res >= 10 /\ SetPS(m.ps)
     \/ /\ m.r.res = RMiss
        /\ \/ ~allowOrphan /\ SetPS(m.ps)
           \/ allowOrphan /\ TxSize[t] > MaxOrphanSize /\ SetPS(m.ps)
           \/ /\ allowOrphan /\ TxSize[t] <= MaxOrphanSize
              /\ \E p \in AddOrphanOutcomes(t, m.ps) : SetPS(p)

\* TxPool.MaybeAcceptTransaction(tx, isNew, rateLimit)
MaybeAcceptTx(t, newAndLimited) ==
  LET m == MaybeAccept(t, PS, CVnow, newAndLimited, newAndLimited, TRUE) IN
  /\ Script = <<>> /\ KeepChain /\ SetPS(m.ps)

\* TxPool.CheckMempoolAcceptance(tx): a dry run.  The code runs
\* checkMempoolAcceptance(tx, true, true, true) (under the write lock since btcd
\* b3ec2053), which still updates the rate limiter.
CheckAccept(t) ==
  LET c == Check(t, PS, CVnow, TRUE, TRUE, TRUE) IN
  /\ Sched(2, t) /\ KeepChain /\ SetPS([PS EXCEPT !.penny = c.penny])

\* TxPool.RemoveTransaction(tx, removeRedeemers); without redeemers only when
\* nothing pooled depends on it (the way the callers use it)
RemoveTx(t, redeemers) ==
  /\ Standalone /\ Sched(3, t) /\ (Script # <<>> => redeemers)
  /\ redeemers \/ \A o \in Outs(t) : Lookup(sb, o) = 0
  /\ KeepChain /\ SetPS(RemoveTransaction(PS, t, redeemers))

RemoveDoubleSpends(t) == Standalone /\ Script = <<>> /\ KeepChain /\ SetPS(RemoveDoubleSpendsOf(PS, t))

RemoveOrphanTx(t) == Standalone /\ Script = <<>> /\ t \in orph /\ KeepChain /\ SetPS(RemoveOrphan(PS, t, FALSE))

ProcessOrphansOf(t) ==
  /\ Standalone /\ Script = <<>> /\ KeepChain
  /\ \E o \in ProcessOrphansOutcomes(t, PS, CVnow) : SetPS(o.ps)

\* a block with body S is mined on the tip: BlockChain.ProcessBlock -> NTBlockConnected
Mine(b, S) ==
  /\ Script = <<>> /\ b \notin used /\ SlotParent[b] = (IF chain = <<>> THEN 0 ELSE chain[Len(chain)])
  /\ ValidBody(S, chain, content)
  /\ chain' = Append(chain, b)
  /\ content' = [content EXCEPT ![b] = SetToSeq(S)]
  /\ used' = used \cup {b}
  /\ cutxo' = Utxo(chain', content')
  /\ \E ps \in ConnectSeqOutcomes(SetToSeq(S), {PS}, [h |-> Len(chain'), utxo |-> cutxo']) : SetPS(ps)

(* A longer branch nc arrives: the blocks above the fork point are          *)
(* disconnected (tip first), then the new blocks are connected.  body[i] is *)
(* the body of the i-th new block.                                          *)
RECURSIVE ValidBodies(_, _, _, _)
ValidBodies(nc, k, body, cont) ==   \* returns the content function or <<>> when invalid
  IF k >= Len(nc) THEN cont
  ELSE IF ~ValidBody(body[k + 1], SubSeq(nc, 1, k), cont) THEN <<>>
  ELSE ValidBodies(nc, k + 1, body, [cont EXCEPT ![nc[k + 1]] = SetToSeq(body[k + 1])])

CommonPrefix(a, b) == Cardinality({i \in 1..Len(a) : i <= Len(b) /\ \A j \in 1..i : a[j] = b[j]})

Reorg(a) ==
  LET nc   == a[1]
      body == a[2]
      k    == CommonPrefix(chain, nc)
      bods == [i \in 1..Len(nc) |-> IF i <= k THEN Range(content[nc[i]]) ELSE body[i - k]]
      cont == ValidBodies(nc, k, bods, content)
  IN
  /\ Script = <<>>
  /\ Len(nc) = Len(chain) + 1 /\ k < Len(chain)
  /\ \A i \in 1..Len(nc) : SlotParent[nc[i]] = (IF i = 1 THEN 0 ELSE nc[i - 1])
  /\ \A i \in (k + 1)..Len(nc) : nc[i] \notin used
  /\ Len(body) = Len(nc) - k
  /\ cont # <<>>
  /\ chain' = nc /\ content' = cont
  /\ used' = used \cup Range(nc)
  /\ cutxo' = Utxo(nc, cont)
  /\ LET pd   == DisconnectDown(chain, k, PS, content)
         lost == Unavailable(pd, SubSeq(chain, 1, k), content)
     IN \E ps \in ConnectUp(nc, k, {pd}, cont) :
          /\ pool' = ps.pool /\ sb' = ps.sb /\ orph' = ps.orph /\ obp' = ps.obp /\ penny' = ps.penny
          /\ stale' = (stale \cup lost) \cap Unavailable(ps, nc, cont)
          /\ StepNext

Paths == {s \in UNION {[1..n -> Slots] : n \in 1..Len(SlotParent)} :
            \A i \in 1..Len(s) : SlotParent[s[i]] = (IF i = 1 THEN 0 ELSE s[i - 1])}
Bodies(n) == [1..n -> {{}} \cup {{t} : t \in Txs}]

\* constant argument spaces of the block actions
BlockBodies == {{}} \cup (IF MaxBlockTxs >= 1 THEN {{t} : t \in Txs} ELSE {})
                    \cup (IF MaxBlockTxs >= 2 THEN {{t, u} : t, u \in Txs} ELSE {})
ReorgArgs ==
  {a \in Paths \X UNION {Bodies(n) : n \in 1..Len(SlotParent)} :
      /\ Len(a[2]) <= Len(a[1])
      /\ Cardinality(UNION Range(a[2])) <= MaxReorgTxs
      /\ \A i, j \in 1..Len(a[2]) : i # j => a[2][i] \cap a[2][j] = {}}

CoreNext ==
  \/ \E t \in Txs, ao \in BOOLEAN : ProcessTx(t, ao)
  \/ \E t \in Txs, nl \in BOOLEAN : MaybeAcceptTx(t, nl)
  \/ \E t \in Txs : CheckAccept(t)
  \/ \E t \in Txs, rd \in BOOLEAN : RemoveTx(t, rd)
  \/ \E t \in Txs : RemoveDoubleSpends(t)
  \/ \E t \in Txs : RemoveOrphanTx(t)
  \/ \E t \in Txs : ProcessOrphansOf(t)
  \/ \E b \in Slots, S \in BlockBodies : Mine(b, S)
  \/ \E a \in ReorgArgs : Reorg(a)

Next == CoreNext

Spec == Init /\ [][Next]_vars

-----------------------------------------------------------------------------
(* Property layer                                                          *)

Pooled == DOMAIN pool

TypeOK ==
  /\ Pooled \subseteq Txs /\ orph \subseteq Txs /\ stale \subseteq Pooled
  /\ \A c \in DOMAIN sb : sb[c] \in Txs
  /\ \A c \in DOMAIN obp : obp[c] # {} /\ obp[c] \subseteq Txs
  /\ penny >= 0 /\ used \subseteq Slots /\ Range(chain) \subseteq used

\* no two pooled transactions spend the same output
NoConflict == \A t, u \in Pooled : t # u => TxIns[t] \cap TxIns[u] = {}

\* every pooled input is unspent in the chain or created by a pooled transaction
InputsAvailable == Unavailable(PS, chain, content) \subseteq stale

\* the spender index is exactly the inverse of the pooled inputs
IndexAgrees ==
  /\ DOMAIN sb = UNION {TxIns[t] : t \in Pooled}
  /\ \A c \in DOMAIN sb : sb[c] \in Pooled /\ c \in TxIns[sb[c]]

\* the orphan index is exactly the inverse of the orphans' inputs; orphans are not pooled
OrphanIndexAgrees ==
  /\ DOMAIN obp = UNION {TxIns[t] : t \in orph}
  /\ \A c \in DOMAIN obp : obp[c] = {t \in orph : c \in TxIns[t]}
  /\ orph \cap Pooled = {}

OrphanBounds ==
  /\ Cardinality(orph) <= (IF MaxOrphans > 0 THEN MaxOrphans ELSE 0)
  /\ \A t \in orph : TxSize[t] <= MaxOrphanSize

\* the pooled set in dependency (id) order is a valid body for the next block,
\* as long as the height did not move backwards since admission
HeightGuard == \A t \in Pooled : pool[t] <= Len(chain)
Minable == (stale = {} /\ HeightGuard) => BodyOK(Pooled, chain, content)

\* nothing pooled is already confirmed
NotConfirmed == stale = {} => Pooled \cap Confirmed(chain, content) = {}

\* with the repaired disconnect protocol nothing is ever left behind
NoStale == DisconnectEvicts => stale = {}

Inv == TypeOK /\ NoStale /\ NoConflict /\ InputsAvailable /\ IndexAgrees /\ OrphanIndexAgrees
       /\ OrphanBounds /\ Minable /\ NotConfirmed

\* a rejected submission leaves pool, index and orphans unchanged
PoolVars == <<pool, sb, orph, obp>>
RejectedUnchanged ==
  LET e == ExpOf(PS, CVnow) IN
  [][ /\ \A t \in Txs, ao \in BOOLEAN :
           ((IF ao THEN e.pt1[t] ELSE e.pt0[t]) >= 10 /\ ProcessTx(t, ao)) => UNCHANGED PoolVars
      /\ \A t \in Txs, nl \in BOOLEAN :
           ((IF nl THEN e.ma1[t] ELSE e.ma0[t]) >= 10 /\ MaybeAcceptTx(t, nl)) => UNCHANGED PoolVars
      /\ \A t \in Txs : CheckAccept(t) => UNCHANGED PoolVars ]_vars

\* Not a property: prints, once per distinct state, the predicted result codes
\* keyed by the state itself (listed as INVARIANT in the replay configurations).
\* (ToString keeps the record on one line; TLC's pretty printer is slow on large values)
EmitExp == PrintT(ToString(<<424242, [chain |-> chain, content |-> content, pool |-> pool, sb |-> sb, orph |-> orph,
                             obp |-> obp, penny |-> penny, stale |-> stale, step |-> step], ExpOf(PS, CVnow)>>))

\* NOT satisfied by the code (and by this model of it): a dry run should not
\* touch the rate limiter either.  MC_free_dryrun.cfg (module MC_free) lets TLC exhibit the counterexample.
DryRunIsStutter == [][\A t \in Txs : CheckAccept(t) => UNCHANGED vars]_vars
=============================================================================
