------------------------------ MODULE MCPeer ------------------------------
(* Model-checking configurations of Peer.tla: scenario sets per tier.      *)
EXTENDS Peer

Ver(pv)  == RMsg("ver", pv, FALSE)
VerSelf  == RMsg("ver", 70016, TRUE)
M(k)     == RMsg(k, 0, FALSE)

MCSenders == {"s1", "s2"}

Scn(d, lpv, scr, rc, pl, iv, dc) ==
  [dir |-> d, lpv |-> lpv, script |-> scr, rclose |-> rc, plan |-> pl, invs |-> iv, disc |-> dc,
   net |-> "sim", loop |-> FALSE, sib |-> FALSE]
WithSib(s0) == [s0 EXCEPT !.sib = TRUE]
OnNet(s0, n, l) == [s0 EXCEPT !.net = n, !.loop = l]

PlanA == [s \in MCSenders |-> IF s = "s1" THEN <<1, 2>> ELSE <<3>>]
PlanB == [s \in MCSenders |-> IF s = "s1" THEN <<1>> ELSE <<>>]
Plan0 == [s \in MCSenders |-> <<>>]

HS == <<Ver(70016), M("verack")>>

\* scripts that exercise every branch of the negotiation and of inHandler
ScriptsCore == {
  HS,
  HS \o <<M("ping")>>,
  HS \o <<M("malformed")>>,
  HS \o <<M("verack")>>,
  <<Ver(70016), M("sendaddrv2"), M("unknown"), M("verack"), M("unknown"), M("getaddr")>>,
  <<Ver(209), M("verack"), M("ping"), M("wrongmagic")>>,
  <<Ver(70001), M("sendaddrv2"), M("verack"), M("ver")>>,
  <<M("verack")>>,
  <<Ver(208)>>,
  <<VerSelf>>,
  <<M("malformed")>>,
  <<Ver(70016), M("ping")>>,
  <<Ver(70017), M("verack"), M("sendaddrv2")>>,
  <<>>
}

ScriptsSmall == {
  HS \o <<M("ping")>>,
  HS \o <<M("malformed")>>,
  <<M("verack")>>,
  <<Ver(208)>>
}

PlanQ == [s \in MCSenders |-> IF s = "s1" THEN <<1>> ELSE <<2>>]
NoHandshake == { <<M("verack")>>, <<>> }

\* quick tier ------------------------------------------------------------
\* handlers never start: 2 senders x 1 message (thorough: 2+1) race with the failing
\* negotiation and with Disconnect, both directions
ScenariosQuickA ==
  { Scn(d, 70016, scr, FALSE, PlanQ, <<>>, TRUE) : d \in {"in", "out"}, scr \in NoHandshake }
\* full pipeline: one sender, ping from the remote (pong through the queue),
\* Disconnect at any point
ScenariosQuickB ==
  { Scn("in", 70016, HS \o <<M("ping")>>, FALSE, PlanB, <<>>, TRUE) }
\* the documented exception for wrong-network traffic (no senders: small)
ScenariosQuickC ==
  { OnNet(Scn("in", 70016, HS \o <<M("wrongmagic"), M("ping")>>, FALSE, Plan0, <<>>, FALSE), n, l) :
      n \in {"regtest", "test3"}, l \in BOOLEAN }
\* a node dialling itself: the sibling's version write is in flight
ScenariosQuickD ==
  { WithSib(Scn(d, 70016, <<VerSelf, M("verack")>>, FALSE, PlanB, <<>>, FALSE)) : d \in {"in", "out"} }
ScenariosSafetyQuick == ScenariosQuickA \cup ScenariosQuickB \cup ScenariosQuickC \cup ScenariosQuickD
ScenariosLiveQuick ==
  { Scn(d, 70016, scr, FALSE, PlanB, <<>>, dc) : d \in {"in", "out"}, scr \in NoHandshake \cup {<<Ver(208)>>}, dc \in BOOLEAN }
  \cup { Scn("in", 70016, HS, FALSE, Plan0, <<>>, TRUE), Scn("out", 70016, HS \o <<M("malformed")>>, FALSE, Plan0, <<>>, FALSE) }

\* thorough tier ---------------------------------------------------------
NoHandshakeAll == { <<M("verack")>>, <<Ver(208)>>, <<>>, <<VerSelf>>, <<Ver(70016)>>, <<M("malformed")>>, <<Ver(70016), M("ping")>> }
ThA == { Scn(d, 70016, scr, FALSE, PlanA, <<>>, TRUE) : d \in {"in", "out"}, scr \in NoHandshakeAll }
PostScripts == {
  HS,
  HS \o <<M("ping")>>,
  HS \o <<M("malformed")>>,
  HS \o <<M("verack")>>,
  <<Ver(209), M("verack"), M("ping"), M("wrongmagic")>>,
  <<Ver(70016), M("sendaddrv2"), M("unknown"), M("verack"), M("unknown"), M("getaddr")>>,
  <<Ver(70017), M("verack"), M("sendaddrv2")>>,
  <<Ver(70001), M("sendaddrv2"), M("verack")>> }
ThB == { Scn("in", 70016, scr, FALSE, PlanB, <<>>, TRUE) : scr \in PostScripts }
ThC == { Scn("out", 70016, scr, TRUE, PlanB, <<>>, FALSE) : scr \in {HS, HS \o <<M("ping")>>, HS \o <<M("malformed")>>} }
ThD == { Scn("in", 70016, HS, FALSE, PlanB, iv, TRUE) : iv \in {<<"tx">>, <<"block">>} }
\* two senders with one message each, and one sender with two (pending list, FIFO)
PlanA2 == [s \in MCSenders |-> IF s = "s1" THEN <<1>> ELSE <<2>>]
PlanS2 == [s \in MCSenders |-> IF s = "s1" THEN <<1, 2>> ELSE <<>>]
ThE == { Scn("in", 70016, HS, FALSE, pl, <<>>, TRUE) : pl \in {PlanA2, PlanS2} }
\* wrong-network / malformed traffic after the handshake, probe ping behind it:
\* tolerated only on regtest from localhost
ThF == { OnNet(Scn("in", 70016, HS \o <<M(k), M("ping")>>, FALSE, PlanB, <<>>, TRUE), n, l) :
           k \in {"wrongmagic"}, n \in {"regtest", "test3"}, l \in BOOLEAN }
ThG == ScenariosQuickD \cup { Scn("in", 70016, HS \o <<M(k), M("ping")>>, FALSE, PlanB, <<>>, TRUE) : k \in {"verack", "ver", "sendaddrv2"} }
ScenariosSafetyThorough == ThG \cup ThA \cup ThB \cup ThC \cup ThD \cup ThE \cup ThF
ScenariosTimers ==
  { Scn(d, 70016, scr, FALSE, PlanB, <<>>, FALSE) : d \in {"in", "out"}, scr \in {HS, <<Ver(70016)>>} }
ScenariosLiveThorough ==
  ScenariosLiveQuick
  \cup { Scn("in", 70016, scr, FALSE, PlanB, <<>>, TRUE) : scr \in {HS \o <<M("ping")>>, HS \o <<M("malformed")>>} }

ScenariosOne == { Scn("in", 70016, HS \o <<M("ping")>>, FALSE, PlanB, <<>>, TRUE) }
=============================================================================
