------------------------------ MODULE MCPeer ------------------------------
(* Model-checking configurations of Peer.tla: scenario sets per tier.      *)
EXTENDS Peer

Ver(pv)  == RMsg("ver", pv, FALSE)
VerSelf  == RMsg("ver", 70016, TRUE)
M(k)     == RMsg(k, 0, FALSE)

MCSenders == {"s1", "s2"}

Scn(d, lpv, scr, rc, pl, iv, dc) ==
  [dir |-> d, lpv |-> lpv, script |-> scr, rclose |-> rc, plan |-> pl, invs |-> iv, disc |-> dc]

PlanA == [s \in MCSenders |-> IF s = "s1" THEN <<1, 2>> ELSE <<3>>]
PlanB == [s \in MCSenders |-> IF s = "s1" THEN <<1>> ELSE <<>>]
Plan0 == [s \in MCSenders |-> <<>>]

HS == <<Ver(70016), M("verack")>>

\* scripts that exercise every branch of the negotiation and of inHandler
ScriptsCore == {
  HS,
  HS \o <<M("ping")>>,
  HS \o <<M("malformed")>>,
  HS \o <<M("verack")>>,
  <<Ver(70016), M("sendaddrv2"), M("unknown"), M("verack"), M("unknown"), M("getaddr")>>,
  <<Ver(209), M("verack"), M("ping"), M("wrongmagic")>>,
  <<Ver(70001), M("sendaddrv2"), M("verack"), M("ver")>>,
  <<M("verack")>>,
  <<Ver(208)>>,
  <<VerSelf>>,
  <<M("malformed")>>,
  <<Ver(70016), M("ping")>>,
  <<Ver(70017), M("verack"), M("sendaddrv2")>>,
  <<>>
}

ScriptsSmall == {
  HS \o <<M("ping")>>,
  HS \o <<M("malformed")>>,
  <<M("verack")>>,
  <<Ver(208)>>
}

\* safety: all interleavings of 2 senders (2+1 messages), 1 inventory,
\* Disconnect at any point, remote close, both directions
ScenariosSafety ==
  { Scn(d, 70016, scr, rc, PlanA, iv, dc) :
      d \in {"in", "out"}, scr \in ScriptsCore, rc \in BOOLEAN,
      iv \in {<<>>, <<"tx">>}, dc \in BOOLEAN }

ScenariosSafetyQuick ==
  { Scn(d, 70016, scr, rc, pl, iv, dc) :
      d \in {"in", "out"}, scr \in ScriptsCore, rc \in BOOLEAN,
      pl \in {PlanB}, iv \in {<<>>, <<"block">>}, dc \in BOOLEAN }
  \cup
  { Scn("in", 70016, scr, FALSE, PlanA, <<>>, TRUE) : scr \in ScriptsSmall }

\* liveness: smaller, because TLC's liveness checking is far more expensive
ScenariosLive ==
  { Scn(d, 70016, scr, rc, PlanB, <<>>, dc) :
      d \in {"in", "out"}, scr \in ScriptsSmall, rc \in BOOLEAN, dc \in BOOLEAN }
  \cup
  { Scn("in", 70016, scr, FALSE, PlanA, <<"tx">>, TRUE) : scr \in {HS \o <<M("ping")>>, <<M("verack")>>} }
ScenariosOne == { Scn("in", 70016, HS \o <<M("ping")>>, FALSE, PlanB, <<>>, TRUE) }
=============================================================================
