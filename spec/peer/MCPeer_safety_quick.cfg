SPECIFICATION Spec
CONSTANTS
  Senders <- MCSenders
  Cap = 2
  Timers = TRUE
  MaxPings = 1
  Scenarios <- ScenariosSafetyQuick
  FixEarly = FALSE
  FixStall = FALSE
  FixLatePut = FALSE
INVARIANTS
  TypeOK HandOff DoneAtMostOnce RejectDoneAtMostOnce NoEarlyCallback HandlersNeedHandshake
  NegotiatedMin RefusedNeverConnects FIFO FIFOPrefix QueuedBeforeDisconnectSignalled
